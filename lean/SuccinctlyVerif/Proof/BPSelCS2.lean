/-
Proof/BPSelCS2 — `WithCsPoppy::select1` = position of the k-th open (C04).
-/
import SuccinctlyVerif.Proof.BPSelCS
namespace SV.BPR
open SV SV.BP SV.BPM SV.BPP SV.BPS SV.BPC SV.BPQ

/-- The sample bracket `(lo, hi)` of `select1`. -/
def csLoHi (samples : Array Nat) (lastBlock rate k : Nat) : Nat × Nat :=
  let si := k / rate
  let lo := if si < samples.size then samples.getD si 0 else samples.getD (samples.size - 1) 0
  let hi := min (if si + 1 < samples.size then samples.getD (si + 1) 0 else lastBlock) lastBlock
  (min lo hi, hi)

/-- Everything after the bracket. -/
def csTail (I : BPM.BP) (k lo hi : Nat) : Option Nat :=
  let window := (I.rankL1.toList.drop lo).take (hi + 1 - lo)
  let block := lo + (partitionPointLe window k - 1)
  let blockRank := I.rankL1.getD block 0
  let blockStart := block * Gen.BP_WORDS_PER_RANK_BLOCK
  if I.words.size < blockStart then none
  else
    let wordsInBlock := min (I.words.size - blockStart) Gen.BP_WORDS_PER_RANK_BLOCK
    if block ≥ I.rankL2.size then none
    else
      let packed := I.rankL2.getD block 0
      let r := csWordLoop packed blockRank k (wordsInBlock - 1)
      let wordIdx := blockStart + r.1
      if wordIdx ≥ I.words.size then none
      else
        let remaining := k - r.2
        let bitPos := selectInWord (I.word wordIdx) remaining
        let result := wordIdx * 64 + bitPos
        if result < I.len then some result else none

theorem select1_cs_unfold (I : BPM.BP) (samples : Array Nat) (rate k : Nat) (hsel : I.sel = Sel.csPoppy samples rate) :
    I.select1 k =
      if k ≥ I.totalOnes ∨ samples.isEmpty ∨ I.rankL1.isEmpty then none
      else csTail I k (csLoHi samples (I.rankL1.size - 1) rate k).1 (csLoHi samples (I.rankL1.size - 1) rate k).2 := by
  unfold BPM.BP.select1
  rw [hsel]
  rfl

/-- With the true block inside the bracket, the tail finds the k-th open. -/
theorem csTail_eq (simd : Bool) (st : List (BitVec 64)) (len : Nat) (kind : SelKind) (j w lo hi : Nat)
    (hw : st.length = (len + 63) / 64) (hlen : len < 2 ^ 32)
    (hH : Holds st len j w) (h1 : lo ≤ w / 8) (h2 : w / 8 ≤ hi) (h3 : hi < (st.length + 7) / 8) :
    csTail (mkBP simd st len kind) j lo hi = selectB true (bitsOf st len) j := by
  obtain ⟨hwn, hs1, hs2⟩ := hH
  have hne' : ¬ (st = [] ∨ len = 0) := by
    intro h; rcases h with h | h
    · rw [h] at hwn; simp at hwn
    · omega
  obtain ⟨d1, d2, _⟩ := buildRank_spec st len (by omega)
  obtain ⟨hL1, hL2⟩ := buildRank_lengths st len
  have hr1 : (mkBP simd st len kind).rankL1 = (buildRank st len).1.toArray := by simp [mkBP, hne']
  have hr2 : (mkBP simd st len kind).rankL2 = (buildRank st len).2.1.toArray := by simp [mkBP, hne']
  have hwords : (mkBP simd st len kind).words = st.toArray := rfl
  have hlenf : (mkBP simd st len kind).len = len := rfl
  have h8 : Gen.BP_WORDS_PER_RANK_BLOCK = 8 := rfl
  -- values of the block ranks
  have hR : ∀ b, b < (st.length + 7) / 8 → (buildRank st len).1.getD b 0 = sumC st len 0 (8 * b) := by
    intro b hb
    rw [d1 b (by omega)]
    apply Nat.mod_eq_of_lt
    have := sumC_le st len 0 (8 * b)
    omega
  unfold csTail
  simp only [hr1, hr2, hwords, hlenf, h8, List.toList_toArray, List.size_toArray, toArray_getD]
  -- the window and the partition point
  generalize hwin : ((buildRank st len).1.drop lo).take (hi + 1 - lo) = window
  have hwl : window.length = hi + 1 - lo := by
    rw [← hwin, List.length_take, List.length_drop, hL1]; omega
  have hwg : ∀ t, t < hi + 1 - lo → window.getD t 0 = sumC st len 0 (8 * (lo + t)) := by
    intro t ht
    rw [← hwin, List.getD_eq_getElem?_getD, List.getElem?_take, if_pos ht, List.getElem?_drop,
      ← List.getD_eq_getElem?_getD, hR (lo + t) (by omega)]
  have hanti : ∀ i j', i ≤ j' → j' < window.length → window.getD j' 0 ≤ j → window.getD i 0 ≤ j := by
    intro i j' hij hj' hle
    rw [hwl] at hj'
    rw [hwg i (by omega)]
    rw [hwg j' hj'] at hle
    have := sumC_mono st len (8 * (lo + i)) (8 * (lo + j')) (by omega)
    omega
  obtain ⟨p1, p2, p3⟩ := partitionPointLe_spec window j hanti
  generalize partitionPointLe window j = pp at p1 p2 p3
  have hpp : pp = w / 8 - lo + 1 := by
    have hbw : sumC st len 0 (8 * (w / 8)) ≤ j := by
      have := sumC_mono st len (8 * (w / 8)) w (by omega); omega
    by_cases hlow : pp ≤ w / 8 - lo
    · exfalso
      have hlt : pp < window.length := by omega
      have := p3 hlt
      rw [hwg pp (by omega)] at this
      have := sumC_mono st len (8 * (lo + pp)) (8 * (w / 8)) (by omega)
      omega
    · by_cases hhigh : pp ≥ w / 8 - lo + 2
      · exfalso
        have := p2 (w / 8 - lo + 1) (by omega)
        rw [hwg _ (by omega)] at this
        have := sumC_mono st len (w + 1) (8 * (lo + (w / 8 - lo + 1))) (by omega)
        omega
      · omega
  have hblock : lo + (pp - 1) = w / 8 := by omega
  rw [hblock, hR (w / 8) (by omega)]
  have hsz : ¬ st.length < w / 8 * 8 := by omega
  simp only [hsz, if_false]
  have hb2 : ¬ w / 8 ≥ (buildRank st len).2.1.length := by omega
  simp only [hb2, if_false]
  rw [d2 (w / 8) (by omega)]
  have e8 : w / 8 * 8 = 8 * (w / 8) := by omega
  rw [e8]
  have hcs := csWordLoop_spec st len (w / 8) j (w % 8) (min (st.length - 8 * (w / 8)) 8 - 1) (by omega) (by omega)
    (by rw [show 8 * (w / 8) + w % 8 = w by omega]; exact hs1)
    (by rw [show 8 * (w / 8) + w % 8 + 1 = w + 1 by omega]; exact hs2)
  rw [hcs]
  simp only
  have ew : 8 * (w / 8) + w % 8 = w := by omega
  rw [ew]
  have hnw : ¬ w ≥ st.length := by omega
  simp only [hnw, if_false]
  obtain ⟨hsel, hlt⟩ := selectB_of_holds st len j w hw ⟨hwn, hs1, hs2⟩
  have hword : (mkBP simd st len kind).word w = st.getD w 0 := by simp [BP.word, mkBP]
  have hrem : j - sumC st len 0 w < 2 ^ 32 := by
    have := sumC_succ st len w; have := cw_le st len w; omega
  rw [hword, selectInWord_eq _ _ hrem, hsel]
  have e64 : w * 64 = 64 * w := by omega
  rw [e64, if_pos hlt]

end SV.BPR
