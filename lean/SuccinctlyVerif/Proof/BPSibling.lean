/-
Proof/BPSibling — `next_sibling` / `subtree_size` reduce to the method `find_close` (C04).
-/
import SuccinctlyVerif.Proof.BPMethods
namespace SV.BPS
open SV SV.BP SV.BPM SV.BPP

theorem nextSibling_of_findClose (simd : Bool) (st : List (BitVec 64)) (len : Nat) (k : SelKind) (p : Nat)
    (hw : st.length = (len + 63) / 64)
    (hfc : (mkBP simd st len k).findClose p = BP.findClose (bitsOf st len) p) :
    (mkBP simd st len k).nextSibling p = BP.nextSibling (bitsOf st len) p := by
  unfold BPM.BP.nextSibling BP.nextSibling
  rw [BPR.isOpen_eq simd st len k p hw, hfc]
  have hlenf : (mkBP simd st len k).len = len := rfl
  have hl := bitsOf_length st len (by omega)
  by_cases ho : BP.isOpen (bitsOf st len) p = true
  · simp only [ho, Bool.not_true, Bool.false_eq_true, if_false]
    cases hc : BP.findClose (bitsOf st len) p with
    | none => rfl
    | some c =>
      simp only
      rw [BPR.isOpen_eq simd st len k (c + 1) hw, hlenf]
      unfold BP.isOpen
      by_cases h2 : (bitsOf st len)[c + 1]? = some true
      · have : c + 1 < len := by
          have := (List.getElem?_eq_some_iff.mp h2).1; omega
        simp [h2, this]
      · simp [h2]
  · have hn : BP.findClose (bitsOf st len) p = none := by
      unfold BP.findClose
      unfold BP.isOpen at ho
      have : ¬ (bitsOf st len)[p]? = some true := by simpa using ho
      simp [this]
    simp [ho, hn]

theorem subtreeSize_of_findClose (simd : Bool) (st : List (BitVec 64)) (len : Nat) (k : SelKind) (p : Nat)
    (hw : st.length = (len + 63) / 64)
    (hfc : (mkBP simd st len k).findClose p = BP.findClose (bitsOf st len) p) :
    (mkBP simd st len k).subtreeSize p = BP.subtreeSize (bitsOf st len) p := by
  unfold BPM.BP.subtreeSize BP.subtreeSize
  rw [BPR.isClose_eq simd st len k p hw, hfc]
  have hlenf : (mkBP simd st len k).len = len := rfl
  have hl := bitsOf_length st len (by omega)
  rw [hlenf]
  by_cases hg : p ≥ len ∨ BP.isClose (bitsOf st len) p = true
  · have hn : BP.findClose (bitsOf st len) p = none := by
      unfold BP.findClose
      rcases hg with hg | hg
      · rw [List.getElem?_eq_none (by omega)]; simp
      · unfold BP.isClose at hg
        have : (bitsOf st len)[p]? = some false := by simpa using hg
        rw [this]; simp
    simp [hg, hn]
  · simp only [hg, if_false]
    cases BP.findClose (bitsOf st len) p <;> rfl

end SV.BPS
