/-
Proof/JsonLocateLex — the jq text printed by `locate` for an object key is read back by the jq lexer
(`Model/JqParse`) as that key.

* `lexStr_escape` / `lex_roundtrip`: the string-literal lexer applied to `escape_jq_string k`
  followed by `"` returns the single literal part `k` — for every `k` (control characters included).
  `lex_bracketKey`: `["…"]` as printed for a bracket key is lexed as `[`, the string `k`, `]`.
* `dot_notation_sound`: for an ASCII key accepted by `can_use_dot_notation`, `.k` is lexed as the
  single field token `k` (Rust's Unicode `is_alphabetic` / `is_alphanumeric` tables restricted to
  code points < 128 are Lean's ASCII `Char.isAlpha` / `Char.isAlphanum`).
* Refutations: the ASCII side condition is needed (`.é` is accepted by `can_use_dot_notation` but is
  not a jq token sequence); reserved words after a dot are fine for the lexer.
-/
import SuccinctlyVerif.Model.JsonLocate
import SuccinctlyVerif.Model.JqParse
namespace SV.JsonLocate
open SV.Jq

/-! ### one-step equations of `lexStr` -/

theorem lexStr_quote (fuel : Nat) (rest cur : List Char) (parts : List (String × Option (List Tok))) :
    lexStr (fuel + 1) ('"' :: rest) cur parts
      = some (parts.reverse ++ [(String.ofList cur.reverse, none)], rest) := by
  rw [lexStr]

theorem lexStr_plain (fuel : Nat) (c : Char) (rest cur : List Char)
    (parts : List (String × Option (List Tok))) (h1 : c ≠ '"') (h2 : c ≠ '\\') :
    lexStr (fuel + 1) (c :: rest) cur parts = lexStr fuel rest (c :: cur) parts := by
  rw [lexStr]
  · exact h1
  · intro _ _ h; exact absurd h h2

theorem lexStr_esc_quote (fuel : Nat) (rest cur : List Char) (parts : List (String × Option (List Tok))) :
    lexStr (fuel + 1) ('\\' :: '"' :: rest) cur parts = lexStr fuel rest ('"' :: cur) parts := by
  rw [lexStr]; rfl

theorem lexStr_esc_bslash (fuel : Nat) (rest cur : List Char) (parts : List (String × Option (List Tok))) :
    lexStr (fuel + 1) ('\\' :: '\\' :: rest) cur parts = lexStr fuel rest ('\\' :: cur) parts := by
  rw [lexStr]; rfl

theorem lexStr_esc_n (fuel : Nat) (rest cur : List Char) (parts : List (String × Option (List Tok))) :
    lexStr (fuel + 1) ('\\' :: 'n' :: rest) cur parts = lexStr fuel rest ('\n' :: cur) parts := by
  rw [lexStr]; rfl

theorem lexStr_esc_r (fuel : Nat) (rest cur : List Char) (parts : List (String × Option (List Tok))) :
    lexStr (fuel + 1) ('\\' :: 'r' :: rest) cur parts = lexStr fuel rest ('\r' :: cur) parts := by
  rw [lexStr]; rfl

theorem lexStr_esc_t (fuel : Nat) (rest cur : List Char) (parts : List (String × Option (List Tok))) :
    lexStr (fuel + 1) ('\\' :: 't' :: rest) cur parts = lexStr fuel rest ('\t' :: cur) parts := by
  rw [lexStr]; rfl

theorem escapeJqString_cons (c : Char) (k : List Char) :
    escapeJqString (c :: k) = escapeJqString [c] ++ escapeJqString k := by
  simp [escapeJqString]

/-- The jq string-literal lexer reads back every escaped key (no condition on the characters). -/
theorem lexStr_escape (k rest cur : List Char) (parts : List (String × Option (List Tok)))
    (fuel : Nat) (hf : k.length + 1 ≤ fuel) :
    lexStr fuel (escapeJqString k ++ '"' :: rest) cur parts
      = some (parts.reverse ++ [(String.ofList (cur.reverse ++ k), none)], rest) := by
  induction k generalizing cur fuel with
  | nil =>
    obtain ⟨f, rfl⟩ : ∃ f, fuel = f + 1 := ⟨fuel - 1, by simp at hf; omega⟩
    simp [escapeJqString, lexStr_quote]
  | cons c k ih =>
    obtain ⟨f, rfl⟩ : ∃ f, fuel = f + 1 := ⟨fuel - 1, by simp at hf; omega⟩
    have hf' : k.length + 1 ≤ f := by simp at hf; omega
    have hcur : (c :: cur).reverse ++ k = cur.reverse ++ c :: k := by simp
    rw [escapeJqString_cons, List.append_assoc]
    by_cases h1 : c = '"'
    · subst h1
      show lexStr (f + 1) ('\\' :: '"' :: (escapeJqString k ++ '"' :: rest)) cur parts = _
      rw [lexStr_esc_quote, ih _ _ hf', hcur]
    by_cases h2 : c = '\\'
    · subst h2
      show lexStr (f + 1) ('\\' :: '\\' :: (escapeJqString k ++ '"' :: rest)) cur parts = _
      rw [lexStr_esc_bslash, ih _ _ hf', hcur]
    by_cases h3 : c = '\n'
    · subst h3
      show lexStr (f + 1) ('\\' :: 'n' :: (escapeJqString k ++ '"' :: rest)) cur parts = _
      rw [lexStr_esc_n, ih _ _ hf', hcur]
    by_cases h4 : c = '\r'
    · subst h4
      show lexStr (f + 1) ('\\' :: 'r' :: (escapeJqString k ++ '"' :: rest)) cur parts = _
      rw [lexStr_esc_r, ih _ _ hf', hcur]
    by_cases h5 : c = '\t'
    · subst h5
      show lexStr (f + 1) ('\\' :: 't' :: (escapeJqString k ++ '"' :: rest)) cur parts = _
      rw [lexStr_esc_t, ih _ _ hf', hcur]
    have : escapeJqString [c] = [c] := by simp [escapeJqString, h1, h2, h3, h4, h5]
    rw [this]
    show lexStr (f + 1) (c :: (escapeJqString k ++ '"' :: rest)) cur parts = _
    rw [lexStr_plain _ _ _ _ _ h1 h2, ih _ _ hf', hcur]

theorem lex_roundtrip (k : List Char) (fuel : Nat) (hf : k.length + 1 ≤ fuel) :
    lexStr fuel (escapeJqString k ++ ['"']) [] [] = some ([(String.ofList k, none)], []) := by
  simpa using lexStr_escape k [] [] [] fuel hf


/-! ### the bracket form `["…"]` through `lex` -/

theorem lex_open_bracket (fuel : Nat) (rest : List Char) (depth : Nat) (interp : Bool) (acc : List Tok) :
    lex (fuel + 1) ('[' :: rest) depth interp acc = lex fuel rest depth interp (.punct "[" :: acc) := by
  have hd : isDigit '[' = false := by decide
  have hs : isIdStart '[' = false := by decide
  rw [lex.eq_def]
  simp [hd, hs]
  rfl

theorem lex_close_bracket (fuel : Nat) (rest : List Char) (depth : Nat) (interp : Bool) (acc : List Tok) :
    lex (fuel + 1) (']' :: rest) depth interp acc = lex fuel rest depth interp (.punct "]" :: acc) := by
  have hd : isDigit ']' = false := by decide
  have hs : isIdStart ']' = false := by decide
  rw [lex.eq_def]
  simp [hd, hs]
  rfl

/-- a quoted, escaped key is lexed as one string token with the single literal part `k` -/
theorem lex_quoted_key (k rest : List Char) (fuel : Nat) (hf : k.length + 1 ≤ fuel)
    (depth : Nat) (interp : Bool) (acc : List Tok) :
    lex (fuel + 1) ('"' :: (escapeJqString k ++ '"' :: rest)) depth interp acc
      = lex fuel rest depth interp (.str [(String.ofList k, none)] :: acc) := by
  rw [lex.eq_def]
  simp [lexStr_escape k rest [] [] fuel hf]

/-- `["…"]` as printed for a bracket key: `[`, the string literal `k`, `]` -/
theorem lex_bracketKey (k rest : List Char) (fuel : Nat) (hf : k.length ≤ fuel)
    (depth : Nat) (interp : Bool) (acc : List Tok) :
    lex (fuel + 3) (Comp.toJq (.bracketKey k) ++ rest) depth interp acc
      = lex fuel rest depth interp
          (.punct "]" :: .str [(String.ofList k, none)] :: .punct "[" :: acc) := by
  have : Comp.toJq (.bracketKey k) ++ rest
      = '[' :: '"' :: (escapeJqString k ++ '"' :: ']' :: rest) := by simp [Comp.toJq]
  rw [this, lex_open_bracket, lex_quoted_key k _ (fuel + 1) (by omega), lex_close_bracket]

/-! ### ASCII character classes -/

theorem char_isAlpha_eq (c : Char) :
    c.isAlpha = decide (65 ≤ c.toNat ∧ c.toNat ≤ 90 ∨ 97 ≤ c.toNat ∧ c.toNat ≤ 122) := by
  simp [Char.isAlpha, Char.isUpper, Char.isLower, UInt32.le_iff_toNat_le]

theorem char_isDigit_eq (c : Char) :
    c.isDigit = decide (48 ≤ c.toNat ∧ c.toNat ≤ 57) := by
  simp [Char.isDigit, UInt32.le_iff_toNat_le]

theorem jq_isDigit_eq (c : Char) :
    isDigit c = decide (48 ≤ c.toNat ∧ c.toNat ≤ 57) := by
  simp [isDigit, Char.le_def, UInt32.le_iff_toNat_le]


theorem takeWhileL_append (f : Char → Bool) (k rest : List Char)
    (hk : ∀ c ∈ k, f c = true) (hrest : ∀ c, rest.head? = some c → f c = false) :
    takeWhileL f (k ++ rest) = (k, rest) := by
  induction k with
  | nil =>
    cases rest with
    | nil => rfl
    | cons d r => simp [takeWhileL, hrest d rfl]
  | cons c k ih =>
    have hc : f c = true := hk c (by simp)
    have := ih (fun d hd => hk d (by simp [hd]))
    simp [takeWhileL, hc, this]

theorem isIdStart_not_digit (c : Char) (h : isIdStart c = true) : isDigit c = false := by
  rw [jq_isDigit_eq]
  rw [isIdStart, char_isAlpha_eq] at h
  simp only [Bool.or_eq_true, decide_eq_true_eq, beq_iff_eq] at h
  rcases h with h | h
  · simp; omega
  · subst h; decide

/-- `.k` for a key accepted by `can_use_dot_notation` is lexed as the field token `k`. -/
theorem dot_notation_sound (k rest : List Char) (h : canUseDotNotation k = true)
    (hrest : ∀ c, rest.head? = some c → isIdChar c = false)
    (fuel depth : Nat) (interp : Bool) (acc : List Tok) :
    lex (fuel + 1) ('.' :: (k ++ rest)) depth interp acc
      = lex fuel rest depth interp (.field (String.ofList k) :: acc) := by
  cases k with
  | nil => simp [canUseDotNotation] at h
  | cons c k =>
    simp only [canUseDotNotation] at h
    split at h
    · cases h
    · rename_i hfirst
      have hstart : isIdStart c = true := by
        simp only [isIdStart]
        cases hA : c.isAlpha <;> cases hU : (c == '_') <;> simp_all
      have h2 : (k.all fun c => c.isAlphanum || c == '_') = true := by
        simp only [Bool.and_eq_true] at h; exact h.1
      have hall : ∀ d ∈ c :: k, isIdChar d = true := by
        intro d hd
        rcases List.mem_cons.1 hd with rfl | hd
        · revert hstart; simp only [isIdStart, isIdChar, Char.isAlphanum]
          cases d.isAlpha <;> simp <;> exact fun h => Or.inr h
        · exact List.all_eq_true.1 h2 d hd
      have htake : takeIdent (c :: (k ++ rest)) = (c :: k, rest) :=
        takeWhileL_append isIdChar (c :: k) rest hall hrest
      have hdig : isDigit c = false := isIdStart_not_digit c hstart
      have hdot : isDigit '.' = false := by decide
      rw [lex.eq_def]
      simp [hdig, hstart, htake, hdot]

/-- the same for the printed component -/
theorem lex_dotKey (k rest : List Char) (h : canUseDotNotation k = true)
    (hrest : ∀ c, rest.head? = some c → isIdChar c = false)
    (fuel depth : Nat) (interp : Bool) (acc : List Tok) :
    lex (fuel + 1) (Comp.toJq (.dotKey k) ++ rest) depth interp acc
      = lex fuel rest depth interp (.field (String.ofList k) :: acc) :=
  dot_notation_sound k rest h hrest fuel depth interp acc

/-! ### regression witnesses of the repaired findings C28-F1 / C28-F2 -/

/-- a non-ASCII letter is no longer accepted (C28-F2) – and indeed `.é` is not a jq program -/
theorem canUseDotNotation_eacute : canUseDotNotation ['é'] = false := by decide +kernel
theorem tokenize_dot_eacute : tokenize ".é" = none := by decide +kernel
/-- reserved words go to bracket notation (C28-F1) -/
theorem canUseDotNotation_then : canUseDotNotation "then".toList = false := by decide +kernel
theorem canUseDotNotation_foo : canUseDotNotation "foo_1".toList = true := by decide +kernel

end SV.JsonLocate
