/-
Proof/JsonIb — correctness of the interest-bit rank/select model (C07).
-/
import SuccinctlyVerif.Model.JsonIb
import SuccinctlyVerif.Proof.Kernels
import SuccinctlyVerif.Proof.Scan
namespace SV.JsonIb
open SV SV.Scan

/-- ones in words `[0, i)` -/
def cum (ws : List (BitVec 64)) (i : Nat) : Nat := ((ws.take i).map popcount).sum

theorem cum_zero (ws : List (BitVec 64)) : cum ws 0 = 0 := by simp [cum]

theorem cum_cons_succ (w : BitVec 64) (ws : List (BitVec 64)) (i : Nat) :
    cum (w :: ws) (i + 1) = popcount w + cum ws i := by simp [cum]

theorem cum_mono (ws : List (BitVec 64)) (i j : Nat) (h : i ≤ j) : cum ws i ≤ cum ws j := by
  induction ws generalizing i j with
  | nil => simp [cum]
  | cons w ws ih =>
    cases i with
    | zero => simp [cum_zero]
    | succ i =>
      cases j with
      | zero => omega
      | succ j => rw [cum_cons_succ, cum_cons_succ]; have := ih i j (by omega); omega

theorem cum_ge_length (ws : List (BitVec 64)) (i : Nat) (h : ws.length ≤ i) :
    cum ws i = (ws.map popcount).sum := by
  unfold cum; rw [List.take_of_length_le h]

theorem cum_succ (ws : List (BitVec 64)) (i : Nat) (h : i < ws.length) :
    cum ws (i + 1) = cum ws i + popcount (ws.getD i 0) := by
  induction ws generalizing i with
  | nil => simp at h
  | cons w ws ih =>
    cases i with
    | zero => simp [cum]
    | succ i =>
      rw [cum_cons_succ, cum_cons_succ, ih i (by simpa using h), List.getD_cons_succ]; omega

/-! ### the rank array -/

theorem buildIbRankGo_length (ws : List (BitVec 64)) (c : Nat) :
    (buildIbRankGo ws c).length = ws.length := by
  induction ws generalizing c with
  | nil => rfl
  | cons w ws ih => simp [buildIbRankGo, ih]

theorem buildIbRankGo_get (ws : List (BitVec 64)) (c i : Nat) (hi : i < ws.length)
    (hb : c + (ws.map popcount).sum < U32) :
    (buildIbRankGo ws c).getD i 0 = c + cum ws (i + 1) := by
  induction ws generalizing c i with
  | nil => simp at hi
  | cons w ws ih =>
    simp only [List.map_cons, List.sum_cons] at hb
    have hw : (c + popc w) % U32 = c + popcount w := by
      rw [Kernels.popc_eq_popcount]; exact Nat.mod_eq_of_lt (by omega)
    cases i with
    | zero => simp [buildIbRankGo, hw, cum]
    | succ i =>
      simp only [buildIbRankGo, List.getD_cons_succ, hw]
      rw [ih (c + popcount w) i (by simpa using hi) (by omega), cum_cons_succ]; omega

theorem rank_get (ws : List (BitVec 64)) (i : Nat) (hi : i ≤ ws.length)
    (hb : (ws.map popcount).sum < U32) : (buildIbRank ws).getD i 0 = cum ws i := by
  cases i with
  | zero => simp [buildIbRank, cum_zero]
  | succ i =>
    simp only [buildIbRank, List.getD_cons_succ]
    rw [buildIbRankGo_get ws 0 i (by omega) (by omega)]; omega

/-! ### binary search for the least index satisfying a monotone predicate -/

/-- `r` is the least index in `[0, n]` with `rank[r+1] > k` (or `n` if there is none). -/
def IsLeast (rank : List Nat) (k n r : Nat) : Prop :=
  r ≤ n ∧ (∀ i, i < r → rank.getD (i + 1) 0 ≤ k) ∧ (r = n ∨ rank.getD (r + 1) 0 > k)

theorem isLeast_unique (rank : List Nat) (k n r s : Nat)
    (hr : IsLeast rank k n r) (hs : IsLeast rank k n s) : r = s := by
  obtain ⟨hr1, hr2, hr3⟩ := hr
  obtain ⟨hs1, hs2, hs3⟩ := hs
  by_cases h : r < s
  · have := hs2 r h
    rcases hr3 with h3 | h3 <;> omega
  · by_cases h' : s < r
    · have := hr2 s h'
      rcases hs3 with h3 | h3 <;> omega
    · omega

/-- the rank array is monotone on `[0, n]` -/
def Mono (rank : List Nat) (n : Nat) : Prop :=
  ∀ i j, i ≤ j → j ≤ n → rank.getD i 0 ≤ rank.getD j 0

theorem bsearch_spec (rank : List Nat) (k n : Nat) (hm : Mono rank n) (fuel lo hi : Nat)
    (hf : hi - lo ≤ fuel) (hle : lo ≤ hi) (hhi : hi ≤ n)
    (hlo : ∀ i, i < lo → rank.getD (i + 1) 0 ≤ k)
    (hhp : hi = n ∨ rank.getD (hi + 1) 0 > k) :
    IsLeast rank k n (bsearch rank k fuel lo hi) := by
  induction fuel generalizing lo hi with
  | zero =>
    have : lo = hi := by omega
    subst this
    exact ⟨hhi, hlo, hhp⟩
  | succ fuel ih =>
    simp only [bsearch]
    by_cases hlt : lo < hi
    · simp only [hlt, if_true]
      have hmid1 : lo ≤ lo + (hi - lo) / 2 := by omega
      have hmid2 : lo + (hi - lo) / 2 < hi := by omega
      by_cases hc : rank.getD (lo + (hi - lo) / 2 + 1) 0 ≤ k
      · simp only [hc, if_true]
        apply ih (lo + (hi - lo) / 2 + 1) hi (by omega) (by omega) hhi _ hhp
        intro i hi'
        have := hm (i + 1) (lo + (hi - lo) / 2 + 1) (by omega) (by omega)
        omega
      · simp only [hc, if_false]
        apply ih lo (lo + (hi - lo) / 2) (by omega) (by omega) (by omega) hlo
        right; omega
    · simp only [hlt, if_false]
      have : lo = hi := by omega
      subst this
      exact ⟨hhi, hlo, hhp⟩

/-- A bracket `[lo, hi]` that the binary search may start from. -/
def Bracket (rank : List Nat) (k n lo hi : Nat) : Prop :=
  lo ≤ hi ∧ hi ≤ n ∧ (∀ i, i < lo → rank.getD (i + 1) 0 ≤ k) ∧ (hi = n ∨ rank.getD (hi + 1) 0 > k)

theorem gallopFwd_bracket (rank : List Nat) (k n hint : Nat) (hm : Mono rank n)
    (fuel bound prev : Nat) (hp1 : prev ≤ hint + bound) (hp2 : prev ≤ n) (hp0 : hint ≤ prev)
    (hnp : rank.getD (prev + 1) 0 ≤ k) (hpn : prev < n) :
    Bracket rank k n (gallopFwd rank k n hint fuel bound prev).1 (gallopFwd rank k n hint fuel bound prev).2 := by
  have hlo : ∀ i, i < prev → rank.getD (i + 1) 0 ≤ k := by
    intro i hi
    have := hm (i + 1) (prev + 1) (by omega) (by omega)
    omega
  induction fuel generalizing bound prev with
  | zero => exact ⟨by simp [gallopFwd]; omega, by simp [gallopFwd], hlo, Or.inl rfl⟩
  | succ fuel ih =>
    simp only [gallopFwd]
    by_cases hc : min (hint + bound) n ≥ n ∨ rank.getD (min (hint + bound) n + 1) 0 > k
    · simp only [hc, if_true]
      refine ⟨by omega, by omega, hlo, ?_⟩
      rcases hc with h | h
      · left; omega
      · right; exact h
    · simp only [hc, if_false]
      have hc1 : min (hint + bound) n < n := by omega
      have hc2 : rank.getD (min (hint + bound) n + 1) 0 ≤ k := by omega
      apply ih (bound * 2) (min (hint + bound) n) (by omega) (by omega) (by omega) hc2 hc1
      intro i hi
      have := hm (i + 1) (min (hint + bound) n + 1) (by omega) (by omega)
      omega

theorem gallopBwd_bracket (rank : List Nat) (k n hint : Nat) (hm : Mono rank n)
    (fuel bound prev : Nat) (hp1 : hint - bound ≤ prev) (hp2 : prev ≤ hint) (hh : hint < n)
    (hpp : rank.getD (prev + 1) 0 > k) :
    Bracket rank k n (gallopBwd rank k hint fuel bound prev).1 (gallopBwd rank k hint fuel bound prev).2 := by
  induction fuel generalizing bound prev with
  | zero => exact ⟨by simp [gallopBwd], by simp [gallopBwd]; omega, by simp [gallopBwd], Or.inr (by simpa [gallopBwd] using hpp)⟩
  | succ fuel ih =>
    simp only [gallopBwd]
    by_cases hc : hint - bound = 0 ∨ rank.getD (hint - bound + 1) 0 ≤ k
    · simp only [hc, if_true]
      refine ⟨by omega, by omega, ?_, Or.inr hpp⟩
      intro i hi
      rcases hc with h | h
      · omega
      · have := hm (i + 1) (hint - bound + 1) (by omega) (by omega)
        omega
    · simp only [hc, if_false]
      have hc2 : rank.getD (hint - bound + 1) 0 > k := by omega
      exact ih (bound * 2) (hint - bound) (by omega) (by omega) hc2

/-! ### from the word index to the bit position -/

theorem allBits_append (a b : List (BitVec 64)) : allBits (a ++ b) = allBits a ++ allBits b := by
  simp [allBits]

theorem selectB_word_at (ws : List (BitVec 64)) (lo k : Nat) (hlo : lo < ws.length)
    (h1 : cum ws lo ≤ k) (h2 : k < cum ws (lo + 1)) :
    selectB true (allBits ws) k =
      some (lo * 64 + selectInWordSpec (ws.getD lo 0) (k - cum ws lo)) ∧
      selectInWordSpec (ws.getD lo 0) (k - cum ws lo) < 64 := by
  have hsplit : ws = ws.take lo ++ (ws.getD lo 0 :: ws.drop (lo + 1)) := by
    rw [List.getD_eq_getElem?_getD, List.getElem?_eq_getElem hlo, Option.getD_some]
    simp
  have hc1 : (allBits (ws.take lo)).count true = cum ws lo := by rw [count_allBits]; rfl
  have hl1 : (allBits (ws.take lo)).length = 64 * lo := by
    rw [allBits_length, List.length_take]; congr 1; omega
  have hw : k - cum ws lo < popcount (ws.getD lo 0) := by rw [cum_succ ws lo hlo] at h2; omega
  have hsome := selectB_isSome_of_lt true (wordBits (ws.getD lo 0)) (k - cum ws lo) hw
  obtain ⟨p, hp⟩ := Option.isSome_iff_exists.mp hsome
  have hp64 : p < 64 := by
    -- a selected index lies inside the list
    have : ∀ (l : List Bool) (k q : Nat), selectB true l k = some q → q < l.length := by
      intro l
      induction l with
      | nil => intro k q h; simp [selectB] at h
      | cons x xs ih =>
        intro k q h
        unfold selectB at h
        split at h
        · cases k with
          | zero => simp at h; subst h; simp
          | succ k =>
            simp only [Option.map_eq_some_iff] at h
            obtain ⟨a, ha, rfl⟩ := h
            have := ih k a ha; simp; omega
        · simp only [Option.map_eq_some_iff] at h
          obtain ⟨a, ha, rfl⟩ := h
          have := ih k a ha; simp; omega
    have := this _ _ _ hp
    simpa [wordBits] using this
  have hsel : selectInWordSpec (ws.getD lo 0) (k - cum ws lo) = p := by
    unfold selectInWordSpec; rw [hp]; rfl
  refine ⟨?_, by rw [hsel]; exact hp64⟩
  conv => lhs; rw [hsplit, allBits_append, selectB_append, hc1]
  have : ¬ k < cum ws lo := by omega
  simp only [this, if_false, hl1]
  rw [allBits_cons, selectB_append]
  have : k - cum ws lo < (wordBits (ws.getD lo 0)).count true := hw
  simp only [this, if_true, hp, hsel, Option.map_some]
  congr 1; omega

theorem selectB_none_total (ws : List (BitVec 64)) (k : Nat) (h : (ws.map popcount).sum ≤ k) :
    selectB true (allBits ws) k = none :=
  selectB_none_of_count_le true _ k (by rw [count_allBits]; exact h)

/-! ### main results -/

theorem rank_mono (ws : List (BitVec 64)) (hb : (ws.map popcount).sum < U32) :
    Mono (buildIbRank ws) ws.length := by
  intro i j hij hj
  rw [rank_get ws i (by omega) hb, rank_get ws j hj hb]
  exact cum_mono ws i j hij

/-- The shared tail: from the least word index to the answer. -/
theorem finish_spec (ws : List (BitVec 64)) (ibLen k lo : Nat)
    (hb : (ws.map popcount).sum < U32) (hk : k < U32)
    (hl : IsLeast (buildIbRank ws) k ws.length lo) :
    finish ws (buildIbRank ws) ibLen k lo = (selectB true (allBits ws) k).filter (· < ibLen) := by
  obtain ⟨h1, h2, h3⟩ := hl
  unfold finish
  by_cases hn : lo ≥ ws.length
  · simp only [hn, if_true]
    have hlo : lo = ws.length := by omega
    -- no word index satisfies the predicate: all ones ≤ k
    have : (ws.map popcount).sum ≤ k := by
      by_cases h0 : ws.length = 0
      · have : ws = [] := List.length_eq_zero_iff.mp h0
        subst this; simp
      · have := h2 (ws.length - 1) (by omega)
        rw [show ws.length - 1 + 1 = ws.length by omega, rank_get ws _ (Nat.le_refl _) hb,
          cum_ge_length ws _ (Nat.le_refl _)] at this
        exact this
    rw [selectB_none_total ws k this]; rfl
  · simp only [hn, if_false]
    have hlt : lo < ws.length := by omega
    have hr3 : (buildIbRank ws).getD (lo + 1) 0 > k := by
      rcases h3 with h | h
      · omega
      · exact h
    rw [rank_get ws (lo + 1) (by omega) hb] at hr3
    have hr2 : cum ws lo ≤ k := by
      cases lo with
      | zero => simp [cum_zero]
      | succ l =>
        have := h2 l (by omega)
        rwa [rank_get ws (l + 1) (by omega) hb] at this
    obtain ⟨hs, hp⟩ := selectB_word_at ws lo k hlt hr2 hr3
    rw [rank_get ws lo (by omega) hb, hs]
    have hrem : (k - cum ws lo) % U32 = k - cum ws lo := Nat.mod_eq_of_lt (by omega)
    simp only [hrem, Option.filter_some]
    by_cases hres : lo * 64 + selectInWordSpec (ws.getD lo 0) (k - cum ws lo) < ibLen
    · simp [hres]
    · simp [hres]

theorem ibSelect1_least (ws : List (BitVec 64)) (k : Nat) (hb : (ws.map popcount).sum < U32) :
    IsLeast (buildIbRank ws) k ws.length (bsearch (buildIbRank ws) k (ws.length + 1) 0 ws.length) :=
  bsearch_spec _ k ws.length (rank_mono ws hb) _ 0 ws.length (by omega) (by omega) (Nat.le_refl _)
    (by intro i hi; omega) (Or.inl rfl)

theorem ibSelect1_eq (ws : List (BitVec 64)) (ibLen k : Nat)
    (hb : (ws.map popcount).sum < U32) (hk : k < U32) :
    ibSelect1 ws ibLen k = (selectB true (allBits ws) k).filter (· < ibLen) := by
  unfold ibSelect1 ibSelect1With
  by_cases he : ws.isEmpty
  · have : ws = [] := List.isEmpty_iff.mp he
    subst this; simp [allBits, selectB]
  · have hk' : ¬ k ≥ U32 := by omega
    simp only [he, Bool.false_eq_true, if_false, hk']
    exact finish_spec ws ibLen k _ hb hk (ibSelect1_least ws k hb)

theorem ibSelect1From_least (ws : List (BitVec 64)) (k hint : Nat) (hne : ws ≠ [])
    (hb : (ws.map popcount).sum < U32) :
    let rank := buildIbRank ws
    let n := ws.length
    let h := min hint (n - 1)
    let br := if rank.getD (h + 1) 0 ≤ k then gallopFwd rank k n h (n + 2) 1 h
              else gallopBwd rank k h (n + 2) 1 h
    IsLeast rank k n (bsearch rank k (n + 1) br.1 br.2) := by
  intro rank n h br
  have hn : 0 < n := List.length_pos_iff.mpr hne
  have hh : h < n := by show min hint (n - 1) < n; omega
  have hm := rank_mono ws hb
  have hbr : Bracket rank k n br.1 br.2 := by
    show Bracket rank k n (if rank.getD (h + 1) 0 ≤ k then gallopFwd rank k n h (n + 2) 1 h
              else gallopBwd rank k h (n + 2) 1 h).1 (if rank.getD (h + 1) 0 ≤ k then gallopFwd rank k n h (n + 2) 1 h
              else gallopBwd rank k h (n + 2) 1 h).2
    by_cases hc : rank.getD (h + 1) 0 ≤ k
    · simp only [hc, if_true]
      exact gallopFwd_bracket rank k n h hm _ 1 h (by omega) (by omega) (Nat.le_refl _) hc hh
    · simp only [hc, if_false]
      exact gallopBwd_bracket rank k n h hm _ 1 h (by omega) (Nat.le_refl _) hh (by omega)
  obtain ⟨b1, b2, b3, b4⟩ := hbr
  exact bsearch_spec rank k n hm _ br.1 br.2 (by omega) b1 b2 b3 b4

/-- `ib_select1_from` returns what `ib_select1` returns, for every hint. -/
theorem ibSelect1From_eq (ws : List (BitVec 64)) (ibLen k hint : Nat)
    (hb : (ws.map popcount).sum < U32) (hk : k < U32) :
    ibSelect1From ws ibLen k hint = (selectB true (allBits ws) k).filter (· < ibLen) := by
  unfold ibSelect1From ibSelect1FromWith
  by_cases he : ws.isEmpty
  · have : ws = [] := List.isEmpty_iff.mp he
    subst this; simp [allBits, selectB]
  · have hk' : ¬ k ≥ U32 := by omega
    simp only [he, Bool.false_eq_true, if_false, hk']
    have hne : ws ≠ [] := by intro h; subst h; simp at he
    exact finish_spec ws ibLen k _ hb hk (ibSelect1From_least ws k hint hne hb)

/-- Ranks that do not fit `u32` name no interest bit: both selects answer `None`, as the spec. -/
theorem select_big (ws : List (BitVec 64)) (ibLen k : Nat) (hb : (ws.map popcount).sum < U32)
    (hk : U32 ≤ k) : (selectB true (allBits ws) k).filter (· < ibLen) = none := by
  rw [selectB_none_total ws k (by omega)]; rfl

theorem ibSelect1_eq_all (ws : List (BitVec 64)) (ibLen k : Nat) (hb : (ws.map popcount).sum < U32) :
    ibSelect1 ws ibLen k = (selectB true (allBits ws) k).filter (· < ibLen) := by
  by_cases hk : k < U32
  · exact ibSelect1_eq ws ibLen k hb hk
  · rw [select_big ws ibLen k hb (by omega)]
    unfold ibSelect1 ibSelect1With
    have : k ≥ U32 := by omega
    simp [this]

theorem ibSelect1From_eq_all (ws : List (BitVec 64)) (ibLen k hint : Nat)
    (hb : (ws.map popcount).sum < U32) :
    ibSelect1From ws ibLen k hint = (selectB true (allBits ws) k).filter (· < ibLen) := by
  by_cases hk : k < U32
  · exact ibSelect1From_eq ws ibLen k hint hb hk
  · rw [select_big ws ibLen k hb (by omega)]
    unfold ibSelect1From ibSelect1FromWith
    have : k ≥ U32 := by omega
    simp [this]

/-! ### rank -/

theorem rankB_allBits (ws : List (BitVec 64)) (pos : Nat) :
    rankB true (allBits ws) pos =
      cum ws (pos / 64) + ((wordBits (ws.getD (pos / 64) 0)).take (pos % 64)).count true
        * (if pos / 64 < ws.length then 1 else 0) := by
  induction ws generalizing pos with
  | nil => simp [allBits, rankB, cum]
  | cons w ws ih =>
    by_cases h : pos < 64
    · have h0 : pos / 64 = 0 := by omega
      have h1 : pos % 64 = pos := by omega
      rw [h0, h1, cum_zero, allBits_cons]
      unfold rankB
      rw [List.take_append_of_le_length (by rw [wordBits_length]; omega)]
      simp
    · have hq : pos / 64 = (pos - 64) / 64 + 1 := by omega
      have hr : pos % 64 = (pos - 64) % 64 := by omega
      rw [hq, hr, cum_cons_succ, List.getD_cons_succ, allBits_cons]
      unfold rankB
      rw [List.take_append, wordBits_length, List.count_append,
        List.take_of_length_le (by rw [wordBits_length]; omega)]
      have := ih (pos - 64)
      unfold rankB at this
      rw [this]
      simp only [List.length_cons, Nat.add_lt_add_iff_right, popcount, Nat.add_assoc]

theorem popc_low_mask (w : BitVec 64) (b : Nat) (hb : b < 64) :
    popc (w &&& ((1#64 <<< b) - 1)) = ((wordBits w).take b).count true := by
  rw [Kernels.popc_eq_popcount]
  unfold popcount wordBits
  have hbit : ∀ i, i < 64 → (w &&& ((1#64 <<< b) - 1)).getLsbD i = (w.getLsbD i && decide (i < b)) := by
    intro i hi
    have hall : ∀ b : Fin 64, ((1#64 <<< b.val) - 1) = BitVec.allOnes 64 >>> (64 - b.val) := by decide
    have := hall ⟨b, hb⟩
    simp only at this
    rw [BitVec.getLsbD_and, this, BitVec.getLsbD_ushiftRight, BitVec.getLsbD_allOnes]
    congr 1
    simp only [decide_eq_decide]
    omega
  -- both sides count the same bits
  have hl : (List.map (fun i => (w &&& ((1#64 <<< b) - 1)).getLsbD i) (List.range 64)) =
      (List.map (fun i => w.getLsbD i) (List.range 64)).take b ++ List.replicate (64 - b) false := by
    apply List.ext_getElem
    · simp; omega
    · intro i h1 h2
      simp only [List.length_map, List.length_range] at h1
      simp only [List.getElem_map, List.getElem_range]
      rw [hbit i h1]
      by_cases hib : i < b
      · rw [List.getElem_append_left (by simp; omega)]
        simp [hib]
      · rw [List.getElem_append_right (by simp; omega)]
        simp [hib]
  rw [hl, List.count_append, List.count_replicate]
  simp

/-- `ib_rank1` counts the ones strictly below `pos` among all stored bits. -/
theorem ibRank1_eq (ws : List (BitVec 64)) (pos : Nat) (hb : (ws.map popcount).sum < U32) :
    ibRank1 ws pos = rankB true (allBits ws) pos := by
  rw [rankB_allBits]
  unfold ibRank1 ibRank1With
  by_cases h0 : pos = 0
  · subst h0; simp [cum_zero]
  · simp only [h0, if_false]
    by_cases hw : pos / 64 < ws.length
    · have hmin : min (pos / 64) ws.length = pos / 64 := by omega
      rw [hmin, rank_get ws _ (by omega) hb]
      by_cases hbit : pos % 64 > 0
      · simp only [hw, hbit, and_self, if_true, Nat.mul_one]
        rw [popc_low_mask _ _ (by omega)]
      · have : pos % 64 = 0 := by omega
        simp [hw, this]
    · have hmin : min (pos / 64) ws.length = ws.length := by omega
      rw [hmin, rank_get ws _ (Nat.le_refl _) hb]
      simp only [hw, false_and, if_false, Nat.mul_zero, Nat.add_zero]
      rw [cum_ge_length ws _ (Nat.le_refl _), cum_ge_length ws _ (by omega)]

/-! ### cursor_at_offset -/

theorem rankB_succ (b : Bool) (l : List Bool) (i : Nat) :
    rankB b l (i + 1) = rankB b l i + (if l[i]? = some b then 1 else 0) := by
  induction l generalizing i with
  | nil => simp [rankB]
  | cons x xs ih =>
    cases i with
    | zero =>
      simp only [rankB, List.take_succ_cons, List.take_zero, List.count_nil, Nat.zero_add,
        List.getElem?_cons_zero, Option.some.injEq]
      by_cases hx : x = b <;> simp [hx, List.count_cons]
    | succ i =>
      have := ih i
      simp only [rankB, List.take_succ_cons, List.count_cons, List.getElem?_cons_succ] at this ⊢
      omega

theorem rankB_mono (b : Bool) (l : List Bool) (i j : Nat) (h : i ≤ j) : rankB b l i ≤ rankB b l j := by
  induction j with
  | zero => have : i = 0 := by omega
            subst this; exact Nat.le_refl _
  | succ j ih =>
    by_cases hij : i = j + 1
    · subst hij; exact Nat.le_refl _
    · have := ih (by omega)
      rw [rankB_succ]; omega

theorem rankB_le_count (b : Bool) (l : List Bool) (i : Nat) : rankB b l i ≤ l.count b := by
  unfold rankB
  exact List.Sublist.count_le b (List.take_sublist i l)

theorem selectB_some_spec (b : Bool) (l : List Bool) (k p : Nat) (h : selectB b l k = some p) :
    l[p]? = some b ∧ rankB b l p = k := by
  induction l generalizing k p with
  | nil => simp [selectB] at h
  | cons x xs ih =>
    unfold selectB at h
    by_cases hx : x = b
    · simp only [hx, if_true] at h
      cases k with
      | zero =>
        simp only [Option.some.injEq] at h
        subst h; simp [hx, rankB]
      | succ k =>
        simp only [Option.map_eq_some_iff] at h
        obtain ⟨a, ha, rfl⟩ := h
        obtain ⟨h1, h2⟩ := ih k a ha
        refine ⟨by simpa using h1, ?_⟩
        simp only [rankB, List.take_succ_cons, List.count_cons, hx] at h2 ⊢
        simp; omega
    · simp only [hx, if_false, Option.map_eq_some_iff] at h
      obtain ⟨a, ha, rfl⟩ := h
      obtain ⟨h1, h2⟩ := ih k a ha
      refine ⟨by simpa using h1, ?_⟩
      simp only [rankB, List.take_succ_cons, List.count_cons] at h2 ⊢
      simp [hx]; omega

theorem selectB_of_spec (b : Bool) (l : List Bool) (p : Nat) (h : l[p]? = some b) :
    selectB b l (rankB b l p) = some p := by
  induction l generalizing p with
  | nil => simp at h
  | cons x xs ih =>
    cases p with
    | zero =>
      simp only [List.getElem?_cons_zero, Option.some.injEq] at h
      simp [selectB, h, rankB]
    | succ p =>
      simp only [List.getElem?_cons_succ] at h
      have := ih p h
      by_cases hx : x = b
      · have hr : rankB b (x :: xs) (p + 1) = rankB b xs p + 1 := by
          simp [rankB, List.count_cons, hx]
        rw [hr]; simp [selectB, hx, this]
      · have hr : rankB b (x :: xs) (p + 1) = rankB b xs p := by
          simp [rankB, List.count_cons, hx]
        rw [hr]; simp [selectB, hx, this]

/-- The IB index picked by `cursor_at_offset` is the index of the last interest bit at a position
`≤ offset` (none if there is none), for every offset inside the text. -/
theorem ibIdxAtOffset_eq (ws : List (BitVec 64)) (ibLen textLen offset : Nat)
    (hb : (ws.map popcount).sum < U32) (hlen : textLen ≤ ibLen) (hoff : offset < textLen) :
    ibIdxAtOffset ws ibLen textLen offset =
      (if rankB true (allBits ws) (offset + 1) = 0 then none
       else some (rankB true (allBits ws) (offset + 1) - 1)) := by
  unfold ibIdxAtOffset ibIdxAtOffsetWith
  have hno : ¬ offset ≥ textLen := by omega
  simp only [hno, if_false]
  change (match ibSelect1 ws ibLen (ibRank1 ws offset) with
    | some structPos => if structPos = offset then some (ibRank1 ws offset)
        else if ibRank1 ws offset > 0 then some (ibRank1 ws offset - 1) else none
    | none => if ibRank1 ws offset > 0 then some (ibRank1 ws offset - 1) else none) = _
  have hr := ibRank1_eq ws offset hb
  have hk : rankB true (allBits ws) offset < U32 := by
    have := rankB_le_count true (allBits ws) offset
    rw [count_allBits] at this; omega
  rw [hr, ibSelect1_eq ws ibLen _ hb hk, rankB_succ]
  by_cases hbit : (allBits ws)[offset]? = some true
  · rw [selectB_of_spec true _ offset hbit]
    have : offset < ibLen := by omega
    simp [hbit, this, Option.filter]
  · simp only [hbit, if_false, Nat.add_zero]
    cases hs : selectB true (allBits ws) (rankB true (allBits ws) offset) with
    | none => simp; split <;> simp_all <;> omega
    | some p =>
      have ⟨hp1, _⟩ := selectB_some_spec true _ _ _ hs
      have hne : p ≠ offset := by intro h; subst h; exact hbit hp1
      by_cases hpl : p < ibLen
      · simp [Option.filter, hpl, hne]; split <;> simp_all <;> omega
      · simp [Option.filter, hpl]; split <;> simp_all <;> omega

theorem bpSearch_spec (f : Nat → Nat) (k n : Nat) (hm : ∀ i j, i ≤ j → f i ≤ f j) (fuel lo hi : Nat)
    (hf : hi - lo ≤ fuel) (hle : lo ≤ hi) (hhi : hi ≤ n)
    (hlo : ∀ i, i < lo → f (i + 1) ≤ k) (hhp : hi = n ∨ f (hi + 1) > k) :
    let r := bpSearch f k fuel lo hi
    r ≤ n ∧ (∀ i, i < r → f (i + 1) ≤ k) ∧ (r = n ∨ f (r + 1) > k) := by
  induction fuel generalizing lo hi with
  | zero =>
    have : lo = hi := by omega
    subst this
    exact ⟨hhi, hlo, hhp⟩
  | succ fuel ih =>
    simp only [bpSearch]
    by_cases hlt : lo < hi
    · simp only [hlt, if_true]
      by_cases hc : f (lo + (hi - lo) / 2 + 1) ≤ k
      · simp only [hc, if_true]
        apply ih (lo + (hi - lo) / 2 + 1) hi (by omega) (by omega) hhi _ hhp
        intro i hi'
        have := hm (i + 1) (lo + (hi - lo) / 2 + 1) (by omega)
        omega
      · simp only [hc, if_false]
        apply ih lo (lo + (hi - lo) / 2) (by omega) (by omega) (by omega) hlo
        right; omega
    · simp only [hlt, if_false]
      have : lo = hi := by omega
      subst this
      exact ⟨hhi, hlo, hhp⟩

/-- The BP binary search of `cursor_at_offset` finds the position of the `ibIdx`-th open
parenthesis, when `bp.rank1` is the exact rank over the BP bits. -/
theorem bpSearch_select (bp : List Bool) (ibIdx : Nat) :
    (let lo := bpSearch (rankB true bp) ibIdx (bp.length + 1) 0 bp.length
     if lo < bp.length ∧ rankB true bp (lo + 1) = ibIdx + 1 then some lo else none) =
      selectB true bp ibIdx := by
  have hspec := bpSearch_spec (rankB true bp) ibIdx bp.length (rankB_mono true bp) (bp.length + 1) 0
    bp.length (by omega) (by omega) (Nat.le_refl _) (by intro i hi; omega) (Or.inl rfl)
  simp only at hspec ⊢
  generalize bpSearch (rankB true bp) ibIdx (bp.length + 1) 0 bp.length = r at hspec ⊢
  obtain ⟨h1, h2, h3⟩ := hspec
  cases hs : selectB true bp ibIdx with
  | none =>
    have hcnt : bp.count true ≤ ibIdx := by
      by_cases h : ibIdx < bp.count true
      · have := selectB_isSome_of_lt true bp ibIdx h
        rw [hs] at this; simp at this
      · omega
    have hr : r = bp.length := by
      rcases h3 with h | h
      · exact h
      · have := rankB_le_count true bp (r + 1); omega
    simp [hr]
  | some p =>
    obtain ⟨hp1, hp2⟩ := selectB_some_spec true bp ibIdx p hs
    have hpl : p < bp.length := by
      by_cases h : p < bp.length
      · exact h
      · rw [List.getElem?_eq_none (by omega)] at hp1; simp at hp1
    have hp3 : rankB true bp (p + 1) = ibIdx + 1 := by rw [rankB_succ, hp1, hp2]; simp
    have hrp : r = p := by
      by_cases hlt : r < p
      · have : rankB true bp (r + 1) ≤ rankB true bp p := rankB_mono true bp _ _ (by omega)
        rcases h3 with h | h <;> omega
      · by_cases hgt : p < r
        · have := h2 p hgt; omega
        · omega
    subst hrp
    simp [hpl, hp3]

/-- `cursor_at_offset`: the node reached from a byte offset is the one whose open parenthesis is
the `j`-th, where `j` indexes the last interest bit at a position `≤ offset`. -/
theorem cursorAtOffset_eq (ws : List (BitVec 64)) (ibLen textLen offset : Nat) (bp : List Bool)
    (hb : (ws.map popcount).sum < U32) (hlen : textLen ≤ ibLen) (hoff : offset < textLen) :
    cursorAtOffset ws ibLen textLen bp.length (rankB true bp) offset =
      (if rankB true (allBits ws) (offset + 1) = 0 then none
       else selectB true bp (rankB true (allBits ws) (offset + 1) - 1)) := by
  unfold cursorAtOffset cursorAtOffsetWith
  change (match ibIdxAtOffset ws ibLen textLen offset with
    | none => none
    | some ibIdx => if bp.length = 0 then none
        else if bpSearch (rankB true bp) ibIdx (bp.length + 1) 0 bp.length < bp.length ∧
            rankB true bp (bpSearch (rankB true bp) ibIdx (bp.length + 1) 0 bp.length + 1) = ibIdx + 1
          then some (bpSearch (rankB true bp) ibIdx (bp.length + 1) 0 bp.length) else none) = _
  rw [ibIdxAtOffset_eq ws ibLen textLen offset hb hlen hoff]
  by_cases h0 : rankB true (allBits ws) (offset + 1) = 0
  · simp [h0]
  · simp only [h0, if_false]
    by_cases hl : bp.length = 0
    · have : bp = [] := List.length_eq_zero_iff.mp hl
      subst this; simp [selectB]
    · simp only [hl, if_false]
      exact bpSearch_select bp _

end SV.JsonIb
