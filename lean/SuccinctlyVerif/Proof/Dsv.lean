/-
Proof/Dsv — every DSV indexing engine model (scalar byte loop, AVX2/SSE2 prefix-XOR chunk loop,
BMI2 PDEP chunk loop, dispatcher) produces exactly the packed bit-serial spec (C20).
Word-level kernel facts come from Proof/DsvKernels; everything here is list/bit induction.
-/
import SuccinctlyVerif.Proof.DsvKernels
namespace SV.DsvP
open SV SV.Dsv

theorem ite_one_getLsbD (b : Bool) (i : Nat) :
    (if b then 1#64 else 0#64).getLsbD i = (decide (i = 0) && b) := by
  cases b <;> simp [BitVec.getLsbD_one]

/-- Bit `i` of `wordOfBits l` is the `i`-th list element (false beyond the list or beyond bit 63). -/
theorem wordOfBits_getLsbD (l : List Bool) : ∀ i, (wordOfBits l).getLsbD i = (decide (i < 64) && l[i]?.getD false) := by
  induction l with
  | nil => intro i; simp [wordOfBits]
  | cons b bs ih =>
    intro i
    simp only [wordOfBits, BitVec.getLsbD_or, BitVec.getLsbD_shiftLeft, ite_one_getLsbD, ih]
    cases i with
    | zero => simp
    | succ i =>
      simp only [List.getElem?_cons_succ, Nat.add_sub_cancel]
      by_cases h : i + 1 < 64
      · have : i < 64 := by omega
        simp [h, this]
      · simp [h]

theorem word_ext {x y : BitVec 64} (h : ∀ i, i < 64 → x.getLsbD i = y.getLsbD i) : x = y :=
  BitVec.eq_of_getLsbD_eq h

/-- Two 32-lane masks combined = the 64-lane mask. -/
theorem eqMaskAvx2_eq (chunk : List Byte) (c : Byte) :
    eqMaskAvx2 chunk c = wordOfBits ((chunk.take 64).map (· == c)) := by
  apply word_ext; intro i hi
  simp only [eqMaskAvx2, movemask, cmpeq, BitVec.getLsbD_or, BitVec.getLsbD_shiftLeft, wordOfBits_getLsbD,
    List.getElem?_map, List.getElem?_take, List.getElem?_drop, hi, decide_true, Bool.true_and]
  by_cases h : i < 32
  · have : i < 64 := by omega
    simp [h, this]
  · have h1 : i - 32 < 32 := by omega
    have h2 : 32 + (i - 32) = i := by omega
    have h3 : i - 32 < 64 := by omega
    simp [h, h1, h2, h3, hi]

theorem eqMaskSse2_eq (chunk : List Byte) (c : Byte) :
    eqMaskSse2 chunk c = wordOfBits ((chunk.take 64).map (· == c)) := by
  apply word_ext; intro i hi
  simp only [eqMaskSse2, movemask, cmpeq, BitVec.getLsbD_or, BitVec.getLsbD_shiftLeft, wordOfBits_getLsbD,
    List.getElem?_map, List.getElem?_take, List.getElem?_drop, hi, decide_true, Bool.true_and]
  by_cases h : i < 16
  · have b1 : i < 32 := by omega
    have b2 : i < 48 := by omega
    simp [h, b1, b2]
  · by_cases h' : i < 32
    · have a1 : i - 16 < 16 := by omega
      have a2 : 16 + (i - 16) = i := by omega
      have a3 : i - 16 < 64 := by omega
      have b2 : i < 48 := by omega
      simp [h, h', a1, a2, a3, b2]
    · by_cases h'' : i < 48
      · have a1 : i - 32 < 16 := by omega
        have a2 : 32 + (i - 32) = i := by omega
        have a3 : i - 32 < 64 := by omega
        have a4 : ¬ i - 16 < 16 := by omega
        simp [h, h', h'', a1, a2, a3, a4]
      · have a1 : i - 48 < 16 := by omega
        have a2 : 48 + (i - 48) = i := by omega
        have a3 : i - 48 < 64 := by omega
        have a4 : ¬ i - 16 < 16 := by omega
        have a5 : ¬ i - 32 < 16 := by omega
        simp [h, h', h'', a1, a2, a3, a4, a5]

/-! ### spec-level list facts -/

theorem selBitsFrom_length (p : Byte → Bool) (q : Byte) : ∀ (bs : List Byte) (st : Bool),
    (selBitsFrom p q st bs).length = bs.length := by
  intro bs
  induction bs with
  | nil => intro st; rfl
  | cons b bs ih => intro st; simp [selBitsFrom, ih]

theorem selBitsFrom_append (p : Byte → Bool) (q : Byte) : ∀ (a b : List Byte) (st : Bool),
    selBitsFrom p q st (a ++ b) = selBitsFrom p q st a ++ selBitsFrom p q (finalQuote q st a) b := by
  intro a
  induction a with
  | nil => intro b st; rfl
  | cons x a ih => intro b st; simp [selBitsFrom, finalQuote, ih]

theorem finalQuote_take_succ (q : Byte) (st : Bool) (bs : List Byte) (i : Nat) (hi : i < bs.length) :
    finalQuote q st (bs.take (i + 1)) = quoteAfter q (finalQuote q st (bs.take i)) bs[i] := by
  unfold finalQuote
  rw [List.take_succ, List.foldl_append]
  simp [List.getElem?_eq_getElem hi]

theorem selBitsFrom_getElem? (p : Byte → Bool) (q : Byte) : ∀ (bs : List Byte) (st : Bool) (i : Nat),
    (selBitsFrom p q st bs)[i]? = bs[i]?.map (fun b => !(finalQuote q st (bs.take (i + 1))) && p b) := by
  intro bs
  induction bs with
  | nil => intro st i; simp [selBitsFrom]
  | cons b bs ih =>
    intro st i
    cases i with
    | zero => simp [selBitsFrom, finalQuote]
    | succ i => simp [selBitsFrom, ih, finalQuote]

/-- The bit-serial state over the quote bitmap of a chunk is the quote state of the byte scan. -/
theorem serialState_chunk (q : Byte) (st : Bool) (chunk : List Byte) (qm : BitVec 64)
    (hqm : qm = wordOfBits (chunk.map (· == q))) (i : Nat) (hi : i < 64) (hl : i < chunk.length) :
    serialState qm st i = finalQuote q st (chunk.take (i + 1)) := by
  have hbit : ∀ j, j < 64 → j < chunk.length → qm.getLsbD j = (chunk[j]! == q) := by
    intro j hj hjl
    rw [hqm, wordOfBits_getLsbD]
    simp [hj, List.getElem?_eq_getElem hjl, getElem!_pos chunk j hjl]
  induction i with
  | zero =>
    rw [finalQuote_take_succ q st chunk 0 hl]
    simp only [serialState, hbit 0 hi hl, List.take_zero, finalQuote, List.foldl_nil, quoteAfter]
    simp [getElem!_pos chunk 0 hl]
  | succ i ih =>
    rw [finalQuote_take_succ q st chunk (i + 1) hl, ← ih (by omega) (by omega)]
    simp only [serialState, hbit (i + 1) hi hl, quoteAfter]
    simp [getElem!_pos chunk (i + 1) hl]

/-- Equality masks as the engines need them. -/
def EmOK (em : EqMask) : Prop := ∀ chunk c, chunk.length = 64 → em chunk c = wordOfBits (chunk.map (· == c))

theorem ite_word_getLsbD0 (b : Bool) : (if b then 1#64 else 0#64).getLsbD 0 = b := by
  cases b <;> simp

/-- One chunk: bit `i` of a selected-mask word (`em chunk x &&& outside`) is the spec bit. -/
theorem chunk_bit (em : EqMask) (hem : EmOK em) (p : Byte → Bool) (q : Byte) (chunk : List Byte)
    (hl : chunk.length = 64) (c : BitVec 64) (pm : BitVec 64)
    (hpm : ∀ i, i < 64 → pm.getLsbD i = p chunk[i]!) (i : Nat) (hi : i < 64) :
    (pm &&& (togglePrefix c (em chunk q)).1).getLsbD i
      = (selBitsFrom p q (c.getLsbD 0) chunk)[i]?.getD false := by
  rw [BitVec.getLsbD_and, DsvK.togglePrefix_fst_getLsbD _ _ _ hi, hpm i hi,
    serialState_chunk q _ chunk _ (hem chunk q hl) i hi (by omega), selBitsFrom_getElem?]
  have : i < chunk.length := by omega
  simp [List.getElem?_eq_getElem this, getElem!_pos chunk i this, Bool.and_comm]

theorem chunk_carry (em : EqMask) (hem : EmOK em) (q : Byte) (chunk : List Byte)
    (hl : chunk.length = 64) (c : BitVec 64) :
    (togglePrefix c (em chunk q)).2.getLsbD 0 = finalQuote q (c.getLsbD 0) chunk := by
  rw [DsvK.togglePrefix_snd, ite_word_getLsbD0,
    serialState_chunk q _ chunk _ (hem chunk q hl) 63 (by omega) (by omega)]
  have : chunk.take (63 + 1) = chunk := by rw [List.take_of_length_le]; omega
  rw [this]

theorem em_bit (em : EqMask) (hem : EmOK em) (chunk : List Byte) (hl : chunk.length = 64) (x : Byte)
    (i : Nat) (hi : i < 64) : (em chunk x).getLsbD i = (chunk[i]! == x) := by
  rw [hem chunk x hl, wordOfBits_getLsbD]
  have : i < chunk.length := by omega
  simp [hi, List.getElem?_eq_getElem this, getElem!_pos chunk i this]

abbrev pMark (d n : Byte) : Byte → Bool := fun b => b == d || b == n
abbrev pNl (n : Byte) : Byte → Bool := fun b => b == n

/-- `process_chunk_64` bitwise. -/
theorem processChunk_bits (em : EqMask) (hem : EmOK em) (d q n : Byte) (chunk : List Byte)
    (hl : chunk.length = 64) (c : BitVec 64) (i : Nat) (hi : i < 64) :
    (processChunk em togglePrefix d q n chunk c).1.getLsbD i
        = (selBitsFrom (pMark d n) q (c.getLsbD 0) chunk)[i]?.getD false
    ∧ (processChunk em togglePrefix d q n chunk c).2.1.getLsbD i
        = (selBitsFrom (pNl n) q (c.getLsbD 0) chunk)[i]?.getD false := by
  have h1 := chunk_bit em hem (pMark d n) q chunk hl c (em chunk d ||| em chunk n)
    (by intro j hj; rw [BitVec.getLsbD_or, em_bit em hem chunk hl d j hj, em_bit em hem chunk hl n j hj]) i hi
  have h2 := chunk_bit em hem (pNl n) q chunk hl c (em chunk n)
    (by intro j hj; rw [em_bit em hem chunk hl n j hj]) i hi
  constructor
  · rw [← h1]
    simp only [processChunk, BitVec.getLsbD_or, BitVec.getLsbD_and]
    cases (em chunk d).getLsbD i <;> cases (em chunk n).getLsbD i <;> simp
  · rw [← h2]
    simp only [processChunk]

theorem processChunk_carry (em : EqMask) (hem : EmOK em) (d q n : Byte) (chunk : List Byte)
    (hl : chunk.length = 64) (c : BitVec 64) :
    (processChunk em togglePrefix d q n chunk c).2.2.getLsbD 0 = finalQuote q (c.getLsbD 0) chunk := by
  simp only [processChunk]
  exact chunk_carry em hem q chunk hl c

/-! ### packing -/

theorem packWords_nil : packWords [] = [] := by rw [packWords]; simp

theorem packWords_cons_ne (bs : List Bool) (h : bs ≠ []) :
    packWords bs = wordOfBits (bs.take 64) :: packWords (bs.drop 64) := by
  rw [packWords]; simp [h]

theorem packWords_small (bs : List Bool) (h0 : bs ≠ []) (h : bs.length ≤ 64) : packWords bs = [wordOfBits bs] := by
  rw [packWords_cons_ne bs h0, List.take_of_length_le h, List.drop_of_length_le h, packWords_nil]

theorem packWords_append (a : List Bool) : ∀ (b : List Bool), a.length % 64 = 0 →
    packWords (a ++ b) = packWords a ++ packWords b := by
  induction h : a.length using Nat.strongRecOn generalizing a with
  | _ k ih =>
    intro b hk
    by_cases ha : a = []
    · subst ha; simp [packWords_nil]
    · have hlen : 64 ≤ a.length := by
        have : a.length ≠ 0 := by simpa using ha
        omega
      have hne : a ++ b ≠ [] := by simp [ha]
      rw [packWords_cons_ne _ hne, packWords_cons_ne a ha, List.take_append_of_le_length hlen,
        List.drop_append_of_le_length hlen]
      rw [ih (a.drop 64).length (by simp; omega) (a.drop 64) rfl b (by simp; omega)]
      simp

/-! ### BitWriter -/

theorem lowMask_getLsbD (r : Nat) (hr : r < 64) (i : Nat) (hi : i < 64) :
    ((1#64 <<< r) - 1#64).getLsbD i = decide (i < r) := by
  have h1 : ((1#64 <<< r) - 1#64).toNat = 2 ^ r - 1 := by
    have hp : 2 ^ r < 2 ^ 64 := Nat.pow_lt_pow_right (by omega) hr
    have hp1 : 1 ≤ 2 ^ r := Nat.one_le_two_pow
    rw [BitVec.toNat_sub, BitVec.toNat_shiftLeft]
    simp only [BitVec.toNat_ofNat, Nat.one_mod_two_pow_eq_one.mpr (by omega : 0 < 64), Nat.shiftLeft_eq, Nat.one_mul]
    rw [Nat.mod_eq_of_lt hp]
    omega
  rw [BitVec.getLsbD, h1, Nat.testBit_two_pow_sub_one]

theorem writeBits_64_at0 (w : BitWriter) (m : BitVec 64) (hp : w.pos = 0) (hc : w.cur = 0#64) :
    w.writeBits m 64 = ⟨w.words ++ [m], 0#64, 0⟩ := by
  have e : m &&& 18446744073709551615#64 = m := by
    have : (18446744073709551615#64) = BitVec.allOnes 64 := by decide
    rw [this, BitVec.and_allOnes]
  simp [BitWriter.writeBits, hp, hc, e]

theorem writeBits_tail_at0 (w : BitWriter) (m : BitVec 64) (r : Nat) (hr0 : 0 < r) (hr : r < 64)
    (hp : w.pos = 0) (hc : w.cur = 0#64) :
    (w.writeBits m r).finish = w.words ++ [m &&& ((1#64 <<< r) - 1#64)] := by
  have h1 : r ≠ 0 := by omega
  have h2 : r ≠ 64 := by omega
  have h3 : r ≤ 64 := by omega
  simp [BitWriter.writeBits, BitWriter.finish, hp, hc, h1, h2, h3, hr0]

/-! ### the chunk loop -/

theorem finish_at0 (w : BitWriter) (hp : w.pos = 0) : w.finish = w.words := by
  simp [BitWriter.finish, hp]

theorem selBits_split64 (p : Byte → Bool) (q : Byte) (st : Bool) (text : List Byte) (h : 64 ≤ text.length) :
    packWords (selBitsFrom p q st text)
      = wordOfBits (selBitsFrom p q st (text.take 64))
          :: packWords (selBitsFrom p q (finalQuote q st (text.take 64)) (text.drop 64)) := by
  have hs : text = text.take 64 ++ text.drop 64 := (List.take_append_drop 64 text).symm
  have hl : (selBitsFrom p q st (text.take 64)).length = 64 := by
    rw [selBitsFrom_length, List.length_take]; omega
  conv => lhs; rw [hs, selBitsFrom_append]
  have hne : selBitsFrom p q st (text.take 64) ++ selBitsFrom p q (finalQuote q st (text.take 64)) (text.drop 64) ≠ [] := by
    intro h0
    have := congrArg List.length h0
    simp only [List.length_append, hl, List.length_nil] at this
    omega
  rw [packWords_cons_ne _ hne, List.take_append_of_le_length (by omega), List.drop_append_of_le_length (by omega),
    List.take_of_length_le (by omega), List.drop_of_length_le (by omega)]
  simp

theorem tail_word (p : Byte → Bool) (q : Byte) (st : Bool) (text : List Byte) (r : Nat) (hr : text.length = r)
    (hr64 : r < 64) (m : BitVec 64) (pad : List Byte)
    (hm : ∀ i, i < 64 → m.getLsbD i = (selBitsFrom p q st (text ++ pad))[i]?.getD false) :
    (m &&& ((1#64 <<< r) - 1#64)) &&& ((1#64 <<< r) - 1#64) = wordOfBits (selBitsFrom p q st text) := by
  apply word_ext; intro i hi
  simp only [BitVec.getLsbD_and, lowMask_getLsbD r hr64 i hi, hm i hi, wordOfBits_getLsbD, hi, decide_true,
    Bool.true_and, selBitsFrom_append]
  by_cases h : i < r
  · have : i < (selBitsFrom p q st text).length := by rw [selBitsFrom_length]; omega
    simp [h, List.getElem?_append_left this]
  · have : (selBitsFrom p q st text).length ≤ i := by rw [selBitsFrom_length]; omega
    simp [h, List.getElem?_eq_none this]

theorem simdLoop_spec (em : EqMask) (hem : EmOK em) (d q n : Byte) :
    ∀ (k : Nat) (text : List Byte), text.length = k → ∀ (carry : BitVec 64) (mw nw : BitWriter),
      mw.pos = 0 → mw.cur = 0#64 → nw.pos = 0 → nw.cur = 0#64 →
      (simdLoop em togglePrefix d q n text carry mw nw).1.finish
          = mw.words ++ packWords (selBitsFrom (pMark d n) q (carry.getLsbD 0) text)
      ∧ (simdLoop em togglePrefix d q n text carry mw nw).2.finish
          = nw.words ++ packWords (selBitsFrom (pNl n) q (carry.getLsbD 0) text) := by
  intro k
  induction k using Nat.strongRecOn with
  | _ k ih =>
    intro text hk carry mw nw hmp hmc hnp hnc
    rw [simdLoop]
    by_cases h64 : 64 ≤ text.length
    · simp only [h64, dite_true]
      have hl : (text.take 64).length = 64 := by rw [List.length_take]; omega
      have hb := processChunk_bits em hem d q n (text.take 64) hl carry
      have hc := processChunk_carry em hem d q n (text.take 64) hl carry
      generalize processChunk em togglePrefix d q n (text.take 64) carry = pc at hb hc
      obtain ⟨m, nl, c⟩ := pc
      simp only at hb hc ⊢
      have hm : m = wordOfBits (selBitsFrom (pMark d n) q (carry.getLsbD 0) (text.take 64)) := by
        apply word_ext; intro i hi
        rw [(hb i hi).1, wordOfBits_getLsbD]; simp [hi]
      have hn : nl = wordOfBits (selBitsFrom (pNl n) q (carry.getLsbD 0) (text.take 64)) := by
        apply word_ext; intro i hi
        rw [(hb i hi).2, wordOfBits_getLsbD]; simp [hi]
      rw [writeBits_64_at0 mw m hmp hmc, writeBits_64_at0 nw nl hnp hnc]
      have := ih (text.drop 64).length (by rw [List.length_drop]; omega) (text.drop 64) rfl c
        ⟨mw.words ++ [m], 0#64, 0⟩ ⟨nw.words ++ [nl], 0#64, 0⟩ rfl rfl rfl rfl
      rw [this.1, this.2, selBits_split64 _ q _ text h64, selBits_split64 _ q _ text h64, hc, ← hm, ← hn]
      simp
    · simp only [h64, dite_false]
      by_cases h0 : text.length > 0
      · simp only [h0, if_true]
        have hl : (text ++ List.replicate (64 - text.length) 0#8).length = 64 := by
          rw [List.length_append, List.length_replicate]; omega
        have hb := processChunk_bits em hem d q n _ hl carry
        generalize processChunk em togglePrefix d q n (text ++ List.replicate (64 - text.length) 0#8) carry = pc at hb
        obtain ⟨m, nl, c⟩ := pc
        simp only at hb ⊢
        have hne1 : selBitsFrom (pMark d n) q (carry.getLsbD 0) text ≠ [] := by
          intro e; have := congrArg List.length e; rw [selBitsFrom_length, List.length_nil] at this; omega
        have hne2 : selBitsFrom (pNl n) q (carry.getLsbD 0) text ≠ [] := by
          intro e; have := congrArg List.length e; rw [selBitsFrom_length, List.length_nil] at this; omega
        rw [writeBits_tail_at0 mw _ _ h0 (by omega) hmp hmc, writeBits_tail_at0 nw _ _ h0 (by omega) hnp hnc,
          packWords_small _ hne1 (by rw [selBitsFrom_length]; omega),
          packWords_small _ hne2 (by rw [selBitsFrom_length]; omega),
          tail_word _ q _ text text.length rfl (by omega) m _ (fun i hi => (hb i hi).1),
          tail_word _ q _ text text.length rfl (by omega) nl _ (fun i hi => (hb i hi).2)]
        exact ⟨rfl, rfl⟩
      · simp only [h0, if_false]
        have : text = [] := by
          cases text with
          | nil => rfl
          | cons a t => simp at h0
        subst this
        simp [selBitsFrom, packWords_nil, finish_at0, hmp, hnp]

theorem buildIndexSimd_eq_spec (em : EqMask) (hem : EmOK em) (d q n : Byte) (text : List Byte) :
    buildIndexSimd em togglePrefix d q n text = indexSpec d q n text := by
  unfold buildIndexSimd indexSpec markerBits newlineBits
  by_cases h : text = []
  · subst h; simp [selBitsFrom, packWords_nil]
  · have : text.isEmpty = false := by cases text <;> simp_all
    simp only [this, Bool.false_eq_true, if_false]
    have hs := simdLoop_spec em hem d q n text.length text rfl 0#64 BitWriter.empty BitWriter.empty rfl rfl rfl rfl
    generalize simdLoop em togglePrefix d q n text 0#64 BitWriter.empty BitWriter.empty = r at hs
    obtain ⟨mw, nw⟩ := r
    simp only at hs ⊢
    rw [hs.1, hs.2]
    simp [BitWriter.empty]

/-! ### the scalar byte loop -/

/-- A `BitWriter` state represents a bit list: complete words packed, the rest in `cur`. -/
def Rep (w : BitWriter) (l : List Bool) : Prop :=
  ∃ full rem, l = full ++ rem ∧ full.length % 64 = 0 ∧ w.words = packWords full ∧
    rem.length = w.pos ∧ w.pos < 64 ∧ w.cur = wordOfBits rem

theorem Rep_empty : Rep BitWriter.empty [] :=
  ⟨[], [], rfl, rfl, by simp [BitWriter.empty, packWords_nil], rfl, by simp [BitWriter.empty], rfl⟩

theorem wordOfBits_snoc (rem : List Bool) (b : Bool) (h : rem.length < 64) :
    wordOfBits (rem ++ [b]) = if b then wordOfBits rem ||| (1#64 <<< rem.length) else wordOfBits rem := by
  apply word_ext; intro i hi
  cases b
  · simp only [Bool.false_eq_true, if_false, wordOfBits_getLsbD, hi, decide_true, Bool.true_and]
    by_cases h1 : i < rem.length
    · simp [List.getElem?_append_left h1]
    · by_cases h2 : i = rem.length
      · subst h2; simp
      · have : (rem ++ [false]).length ≤ i := by simp; omega
        rw [List.getElem?_eq_none this, List.getElem?_eq_none (by omega)]
  · simp only [if_true, BitVec.getLsbD_or, BitVec.getLsbD_shiftLeft, BitVec.getLsbD_one, wordOfBits_getLsbD, hi,
      decide_true, Bool.true_and]
    by_cases h1 : i < rem.length
    · simp [List.getElem?_append_left h1, h1]
    · by_cases h2 : i = rem.length
      · subst h2; simp
      · have : (rem ++ [true]).length ≤ i := by simp; omega
        rw [List.getElem?_eq_none this, List.getElem?_eq_none (by omega)]
        have : i - rem.length ≠ 0 := by omega
        simp [this]

theorem Rep_writeBit (w : BitWriter) (l : List Bool) (b : Bool) (h : Rep w l) : Rep (w.writeBit b) (l ++ [b]) := by
  obtain ⟨full, rem, hl, hf, hw, hr, hp, hc⟩ := h
  have hcur : (if b then w.cur ||| (1#64 <<< w.pos) else w.cur) = wordOfBits (rem ++ [b]) := by
    rw [wordOfBits_snoc rem b (by omega), hc, hr]
  unfold BitWriter.writeBit
  simp only [hcur]
  by_cases h64 : w.pos + 1 = 64
  · simp only [h64, if_true]
    refine ⟨full ++ (rem ++ [b]), [], by simp [hl], by simp; omega, ?_, rfl, by show 0 < 64; omega, rfl⟩
    have hne : rem ++ [b] ≠ [] := by simp
    rw [packWords_append full _ hf, packWords_small _ hne (by simp; omega), hw]
  · simp only [h64, if_false]
    exact ⟨full, rem ++ [b], by simp [hl], hf, hw, by simp; omega, by show w.pos + 1 < 64; omega, rfl⟩

theorem Rep_finish (w : BitWriter) (l : List Bool) (h : Rep w l) : w.finish = packWords l := by
  obtain ⟨full, rem, hl, hf, hw, hr, hp, hc⟩ := h
  unfold BitWriter.finish
  by_cases h0 : w.pos > 0
  · simp only [h0, if_true]
    have hne : rem ≠ [] := by intro e; subst e; simp at hr; omega
    rw [hl, packWords_append full _ hf, packWords_small _ hne (by omega), hw, hc]
  · simp only [h0, if_false]
    have : rem = [] := by
      cases rem with
      | nil => rfl
      | cons a t => simp at hr; omega
    subst this
    rw [hl, hw]; simp

theorem scalarStep_eq (d q n : Byte) (s : ScalarState) (b : Byte) :
    scalarStep d q n s b =
      ⟨s.mw.writeBit (!(quoteAfter q s.inq b) && pMark d n b),
       s.nw.writeBit (!(quoteAfter q s.inq b) && pNl n b), quoteAfter q s.inq b⟩ := by
  unfold scalarStep quoteAfter
  cases hq : (b == q) <;> cases hi : s.inq <;> simp

theorem scalar_fold (d q n : Byte) : ∀ (text : List Byte) (s : ScalarState) (lm ln : List Bool),
    Rep s.mw lm → Rep s.nw ln →
    Rep (text.foldl (scalarStep d q n) s).mw (lm ++ selBitsFrom (pMark d n) q s.inq text)
    ∧ Rep (text.foldl (scalarStep d q n) s).nw (ln ++ selBitsFrom (pNl n) q s.inq text) := by
  intro text
  induction text with
  | nil => intro s lm ln hm hn; simpa [selBitsFrom] using ⟨hm, hn⟩
  | cons b bs ih =>
    intro s lm ln hm hn
    rw [List.foldl_cons, scalarStep_eq]
    have := ih ⟨s.mw.writeBit (!(quoteAfter q s.inq b) && pMark d n b),
       s.nw.writeBit (!(quoteAfter q s.inq b) && pNl n b), quoteAfter q s.inq b⟩ _ _
       (Rep_writeBit _ _ _ hm) (Rep_writeBit _ _ _ hn)
    simpa [selBitsFrom] using this

theorem buildIndexScalar_eq_spec (d q n : Byte) (text : List Byte) :
    buildIndexScalar d q n text = indexSpec d q n text := by
  unfold buildIndexScalar indexSpec markerBits newlineBits
  by_cases h : text = []
  · subst h; simp [selBitsFrom, packWords_nil]
  · have : text.isEmpty = false := by cases text <;> simp_all
    simp only [this, Bool.false_eq_true, if_false]
    have hs := scalar_fold d q n text ⟨BitWriter.empty, BitWriter.empty, false⟩ [] [] Rep_empty Rep_empty
    rw [Rep_finish _ _ hs.1, Rep_finish _ _ hs.2]
    simp

/-! ### the engines -/

theorem emOK_avx2 : EmOK eqMaskAvx2 := by
  intro chunk c hl
  rw [eqMaskAvx2_eq, List.take_of_length_le (by omega)]

theorem emOK_sse2 : EmOK eqMaskSse2 := by
  intro chunk c hl
  rw [eqMaskSse2_eq, List.take_of_length_le (by omega)]

theorem toggleBmi2_eq : toggleBmi2 = togglePrefix := by
  funext c q; exact DsvK.toggleBmi2_eq_togglePrefix c q

theorem avx2_eq_spec (d q n : Byte) (text : List Byte) : buildIndexAvx2 d q n text = indexSpec d q n text :=
  buildIndexSimd_eq_spec _ emOK_avx2 d q n text

theorem sse2_eq_spec (d q n : Byte) (text : List Byte) : buildIndexSse2 d q n text = indexSpec d q n text :=
  buildIndexSimd_eq_spec _ emOK_sse2 d q n text

theorem bmi2_eq_spec (d q n : Byte) (text : List Byte) : buildIndexBmi2 d q n text = indexSpec d q n text := by
  unfold buildIndexBmi2; rw [toggleBmi2_eq]
  exact buildIndexSimd_eq_spec _ emOK_avx2 d q n text

theorem dispatch_eq_spec (fast avx2 : Bool) (d q n : Byte) (text : List Byte) :
    buildIndexDispatch fast avx2 d q n text = indexSpec d q n text := by
  unfold buildIndexDispatch
  split
  · exact bmi2_eq_spec d q n text
  · split
    · exact avx2_eq_spec d q n text
    · exact sse2_eq_spec d q n text

end SV.DsvP
