/-
Proof/DsvNavAccess — random access of the C21 cursor model: `DsvRow::get(col)` = the `col`-th field of
the row's iteration, `Dsv::row(n)` = the `n`-th row of the iteration.
-/
import SuccinctlyVerif.Proof.DsvNavModel
open SV SV.Dsv SV.Scan SV.DsvRank SV.DsvNavM

namespace SV.DsvNavA

variable {c : Ctx} {M N : List Bool}

/-- Result of `DsvRow::get` after the loop (`getLoop`) finished or returned early. -/
def getFinish (c : Ctx) : Nat ⊕ Option (List Byte) → Option (List Byte)
  | .inr r => r
  | .inl pos =>
    let field := c.currentField pos
    if field.isEmpty && c.atEnd pos then none else some field

theorem get_eq_getFinish (c : Ctx) (p col : Nat) : c.get p col = getFinish c (c.getLoop col p) := by
  unfold Ctx.get getFinish
  cases c.getLoop col p <;> rfl

theorem getLoop_eq (g : Good c M N) (hsub : ∀ j : Nat, N[j]? = some true → M[j]? = some true) :
    ∀ (k p : Nat), p < c.len →
      getFinish c (c.getLoop k p) = (rowFieldsL ((zip3 c.text M N).drop p))[k]? := by
  intro k
  induction k with
  | zero =>
    intro p hp
    have hae : c.atEnd p = false := by simp [Ctx.atEnd]; omega
    rw [rowFieldsL_step g hsub p hp]
    simp [Ctx.getLoop, getFinish, hae, currentField_eq g p hp]
  | succ k ih =>
    intro p hp
    have hl : M.length = c.len := g.lm
    have hae : c.atEnd p = false := by simp [Ctx.atEnd]; omega
    obtain ⟨h1, h2, h3, h4, _⟩ := nextTrue_spec M p (by omega)
    rw [hl] at h2 h4
    rw [rowFieldsL_step g hsub p hp, List.getElem?_cons_succ]
    simp only [Ctx.getLoop, hae, Bool.and_false, Bool.false_eq_true, if_false, nextField_eq g p hp]
    by_cases he : nextTrue M p < c.len
    · simp only [he, if_true]
      by_cases hok : nextTrue M p + 1 < c.len
      · have hae2 : c.atEnd (nextTrue M p + 1) = false := by simp [Ctx.atEnd]; omega
        simp only [hok, decide_true, Bool.not_true, Bool.false_eq_true, if_false, atNewline_eq g _ he, hae2,
          Bool.or_false]
        by_cases hnl : N[nextTrue M p]? = some true
        · simp [hnl, getFinish]
        · have : ¬ (nextTrue M p ≥ c.len ∨ N[nextTrue M p]? = some true) := by
            intro h; rcases h with h | h
            · omega
            · exact hnl h
          rw [if_neg this]
          simp only [hnl, decide_false, Bool.false_eq_true, if_false]
          exact ih _ hok
      · have heq : nextTrue M p + 1 = c.len := by omega
        have e1 : c.len - 1 = nextTrue M p := by omega
        simp only [hok, decide_false, Bool.not_false, if_true, atEndAfterDelimiter_eq g, e1, h4 he]
        by_cases hnl : N[nextTrue M p]? = some true
        · simp [hnl, getFinish]
        · have : ¬ (nextTrue M p ≥ c.len ∨ N[nextTrue M p]? = some true) := by
            intro h; rcases h with h | h
            · omega
            · exact hnl h
          simp only [this, if_false]
          rw [zip3_drop_nil c.text M N g.lm g.ln _ (by simp [Ctx.len] at heq ⊢; omega)]
          have hpos : c.len > 0 := by omega
          cases k with
          | zero => simp [hnl, getFinish, rowFieldsL, heq, hpos]
          | succ k => simp [hnl, getFinish, rowFieldsL]
    · have hge : nextTrue M p ≥ c.len := by omega
      have heq : nextTrue M p = c.len := by omega
      simp only [he, if_false, Bool.not_false, if_true, atEndAfterDelimiter_eq g]
      have hm : M[c.len - 1]? = some false := h3 (c.len - 1) (by omega) (by omega)
      simp [hge, hm, getFinish]

/-- `DsvRow::get(col)` on a row = the `col`-th field the row's iteration yields. -/
theorem get_eq_fields (g : Good c M N) (hsub : ∀ j : Nat, N[j]? = some true → M[j]? = some true)
    (p col : Nat) (hp : p < c.len) : c.get p col = (c.rowFields p)[col]? := by
  rw [get_eq_getFinish, getLoop_eq g hsub col p hp, rowFields_eq g hsub p hp]

/-! ### `Dsv::row(n)` = the n-th row of the iteration -/

theorem rankB_stretch (l : List Bool) (e : Nat) :
    ∀ (k p : Nat), p + k = e → (∀ j : Nat, p ≤ j → j < e → l[j]? = some false) →
      rankB true l e = rankB true l p := by
  intro k
  induction k with
  | zero => intro p hp _; have : p = e := by omega
            subst this; rfl
  | succ k ih =>
    intro p hp hno
    rw [ih (p + 1) (by omega) (fun j h1 h2 => hno j (by omega) h2), JsonIb.rankB_succ,
      hno p (Nat.le_refl _) (by omega)]
    simp

theorem rankB_length (l : List Bool) : rankB true l l.length = l.count true := by
  simp [rankB]

/-- What `goto_row(r + 1)` computes from `select1(r)`. -/
def afterNewline (N : List Bool) (len k : Nat) : Option Nat :=
  (selectB true N k).bind fun nl => if nl + 1 < len then some (nl + 1) else none

theorem collectRows_index (g : Good c M N) :
    ∀ (fuel p : Nat), p < c.len → c.len - p ≤ fuel → ∀ r,
      (c.collectRows fuel p true)[r]? = afterNewline N c.len (rankB true N p + r) := by
  intro fuel
  induction fuel with
  | zero => intro p hp hf; omega
  | succ fuel ih =>
    intro p hp hf r
    have hl : N.length = c.len := g.ln
    obtain ⟨h1, h2, h3, h4, hsel⟩ := nextTrue_spec N p (by omega)
    rw [hl] at h2 h4 hsel
    have hst := rankB_stretch N (nextTrue N p) (nextTrue N p - p) p (by omega) h3
    simp only [Ctx.collectRows, Ctx.rowsNext, Bool.not_true, Bool.false_eq_true, if_false, nextRow_eq g p hp]
    by_cases he : nextTrue N p < c.len
    · have hr1 : rankB true N (nextTrue N p + 1) = rankB true N p + 1 := by
        rw [rankB_succ_true N _ (h4 he), hst]
      simp only [he, if_true] at hsel ⊢
      by_cases hok : nextTrue N p + 1 < c.len
      · simp only [hok, decide_true, if_true]
        cases r with
        | zero => simp [afterNewline, hsel, hok]
        | succ r =>
          rw [List.getElem?_cons_succ, ih _ hok (by omega) r, hr1]
          congr 1; omega
      · simp only [hok, decide_false, Bool.false_eq_true, if_false, List.getElem?_nil]
        cases r with
        | zero => simp [afterNewline, hsel, hok]
        | succ r =>
          have hcnt : N.count true = rankB true N p + 1 := by
            rw [← rankB_length, hl, ← hr1]; congr 1; omega
          simp [afterNewline, selectB_none_of_count_le true N (rankB true N p + (r + 1)) (by omega)]
    · simp only [he, if_false] at hsel ⊢
      have hcnt : N.count true ≤ rankB true N p := by
        by_cases h : N.count true ≤ rankB true N p
        · exact h
        · have := selectB_isSome_of_lt true N (rankB true N p) (by omega)
          rw [hsel] at this; simp at this
      simp [afterNewline, selectB_none_of_count_le true N (rankB true N p + r) (by omega)]

theorem rowStarts_succ (g : Good c M N) (r : Nat) :
    c.rowStarts[r + 1]? = afterNewline N c.len r := by
  unfold Ctx.rowStarts
  rw [Ctx.collectRows]
  simp only [Ctx.rowsNext, Bool.not_false, if_true]
  by_cases h0 : c.len = 0
  · have hN : N = [] := by
      have := g.ln; simp [Ctx.len] at h0; rw [h0] at this; simpa using this
    simp [Ctx.atEnd, h0, afterNewline, hN, selectB]
  · have hae : c.atEnd 0 = false := by simp [Ctx.atEnd]; omega
    simp only [hae, Bool.false_eq_true, if_false, List.getElem?_cons_succ]
    rw [collectRows_index g (c.len + 1) 0 (by omega) (by omega) r]
    simp [rankB]

theorem rowStarts_zero (c : Ctx) : c.rowStarts[0]? = if c.len = 0 then none else some 0 := by
  unfold Ctx.rowStarts
  rw [Ctx.collectRows]
  simp only [Ctx.rowsNext, Bool.not_false, if_true]
  by_cases h0 : c.len = 0
  · simp [Ctx.atEnd, h0]
  · have hae : c.atEnd 0 = false := by simp [Ctx.atEnd]; omega
    simp [hae, h0]

/-- `Dsv::row(n)` positions the cursor at the start of the n-th row of the iteration (and fails
exactly when the iteration has no n-th row). -/
theorem row_eq_rowStarts (g : Good c M N) (r : Nat) : c.row r = c.rowStarts[r]? := by
  cases r with
  | zero =>
    rw [rowStarts_zero]
    unfold Ctx.row Ctx.gotoRow
    by_cases h0 : c.len = 0
    · have : c.text = [] := by simpa [Ctx.len] using h0
      simp [h0, this]
    · have : c.text ≠ [] := by intro h; simp [Ctx.len, h] at h0
      simp [h0, this]
  | succ r =>
    rw [rowStarts_succ g]
    have hl : N.length = c.len := g.ln
    unfold Ctx.row Ctx.gotoRow afterNewline
    simp only [Nat.add_one_ne_zero, if_false, Nat.add_sub_cancel, g.hn, select1_eq]
    cases hs : selectB true N r with
    | none => simp
    | some nl =>
      have := selectB_lt_length true N r nl hs
      have hle : nl + 1 ≤ c.len := by omega
      simp only [hle, if_true, Option.bind_some, Ctx.atEnd]
      by_cases h : nl + 1 < c.len
      · have : ¬ nl + 1 ≥ c.len := by omega
        simp [h, this]
      · have : nl + 1 ≥ c.len := by omega
        simp [h, this]

theorem rowStarts_lt (g : Good c M N) (r st : Nat) (h : c.rowStarts[r]? = some st) : st < c.len := by
  cases r with
  | zero =>
    rw [rowStarts_zero] at h
    by_cases h0 : c.len = 0
    · simp [h0] at h
    · simp [h0] at h; omega
  | succ r =>
    rw [rowStarts_succ g] at h
    unfold afterNewline at h
    cases hs : selectB true N r with
    | none => rw [hs] at h; simp at h
    | some nl =>
      rw [hs] at h
      simp only [Option.bind_some] at h
      by_cases hlt : nl + 1 < c.len
      · simp [hlt] at h; omega
      · simp [hlt] at h

end SV.DsvNavA
