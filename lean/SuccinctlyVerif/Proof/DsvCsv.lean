/-
Proof/DsvCsv — the `@csv`/`@dsv(d)` line splits back into its quoted fields under the quote-aware
splitting spec, and `strip_quotes_and_decode` inverts `quote_csv_field` (C22).  Core Lean only.
-/
import SuccinctlyVerif.Model.DsvCsv
namespace SV.DsvCsvP
open SV SV.Dsv

/-- No byte of `w` is a separator outside quotes (scanning from state `st`). -/
def noSep (sep q : Byte) : Bool → List Byte → Bool
  | _, [] => true
  | st, b :: bs =>
    let s := quoteAfter q st b
    !(!s && b == sep) && noSep sep q s bs

/-- Prepend `w` to the first segment. -/
def consFirst (w : List Byte) : List (List Byte) → List (List Byte)
  | seg :: rest => (w ++ seg) :: rest
  | [] => [w]

theorem segs_ne_nil (sep q : Byte) : ∀ (bs : List Byte) (st : Bool), segs sep q st bs ≠ [] := by
  intro bs
  induction bs with
  | nil => intro st; simp [segs]
  | cons b bs ih =>
    intro st
    unfold segs
    simp only
    split
    · simp
    · split
      · simp
      · simp

theorem segs_cons_noSep (sep q : Byte) (st : Bool) (b : Byte) (bs : List Byte)
    (h : (!(quoteAfter q st b) && b == sep) = false) :
    segs sep q st (b :: bs) = consFirst [b] (segs sep q (quoteAfter q st b) bs) := by
  conv => lhs; unfold segs
  simp only [h, Bool.false_eq_true, if_false]
  have := segs_ne_nil sep q bs (quoteAfter q st b)
  cases hs : segs sep q (quoteAfter q st b) bs with
  | nil => exact absurd hs this
  | cons seg rest => simp [consFirst]

theorem consFirst_consFirst (a b : List Byte) (l : List (List Byte)) (hl : l ≠ []) :
    consFirst a (consFirst b l) = consFirst (a ++ b) l := by
  cases l with
  | nil => exact absurd rfl hl
  | cons s r => simp [consFirst]

theorem segs_append_noSep (sep q : Byte) : ∀ (w : List Byte) (st : Bool) (tail : List Byte),
    noSep sep q st w = true →
    segs sep q st (w ++ tail) = consFirst w (segs sep q (finalQuote q st w) tail) := by
  intro w
  induction w with
  | nil =>
    intro st tail _
    have := segs_ne_nil sep q tail st
    cases hs : segs sep q st tail with
    | nil => exact absurd hs this
    | cons seg rest => simp [consFirst, finalQuote, hs]
  | cons b bs ih =>
    intro st tail h
    simp only [noSep, Bool.and_eq_true, Bool.not_eq_true'] at h
    rw [List.cons_append, segs_cons_noSep sep q st b _ h.1, ih _ _ h.2]
    rw [consFirst_consFirst _ _ _ (segs_ne_nil _ _ _ _)]
    simp [finalQuote]

theorem noSep_append (sep q : Byte) : ∀ (a : List Byte) (st : Bool) (b : List Byte),
    noSep sep q st (a ++ b) = (noSep sep q st a && noSep sep q (finalQuote q st a) b) := by
  intro a
  induction a with
  | nil => intro st b; simp [noSep, finalQuote]
  | cons x a ih => intro st b; simp [noSep, finalQuote, ih, Bool.and_assoc]

theorem finalQuote_append (q : Byte) (st : Bool) (a b : List Byte) :
    finalQuote q st (a ++ b) = finalQuote q (finalQuote q st a) b := by
  simp [finalQuote, List.foldl_append]

/-! ### quoted fields -/

theorem escape_inside (sep : Byte) (hs : sep ≠ QUOTE) : ∀ (s : List Byte),
    noSep sep QUOTE true (escapeQuotes s) = true ∧ finalQuote QUOTE true (escapeQuotes s) = true := by
  intro s
  induction s with
  | nil => simp [escapeQuotes, noSep, finalQuote]
  | cons b s ih =>
    have hc : escapeQuotes (b :: s) = (if b == QUOTE then [QUOTE, QUOTE] else [b]) ++ escapeQuotes s := by
      simp [escapeQuotes]
    have ih' : noSep sep QUOTE true (escapeQuotes s) = true ∧ finalQuote QUOTE true (escapeQuotes s) = true := ih
    have h2 : List.foldl (quoteAfter QUOTE) true (escapeQuotes s) = true := ih'.2
    rw [hc, noSep_append, finalQuote_append]
    by_cases hb : b = QUOTE
    · subst hb
      have hq : (QUOTE == sep) = false := by simp; exact fun h => hs h.symm
      simp [noSep, finalQuote, quoteAfter, hq, ih'.1, h2]
    · have hb' : (b == QUOTE) = false := by simp [hb]
      simp [noSep, finalQuote, quoteAfter, hb', ih'.1, h2]

theorem quoteField_closed (sep : Byte) (hs : sep ≠ QUOTE) (s : List Byte) :
    noSep sep QUOTE false (quoteField s) = true ∧ finalQuote QUOTE false (quoteField s) = false := by
  have ⟨h1, h2⟩ := escape_inside sep hs s
  have hq : (QUOTE == sep) = false := by simp; exact fun h => hs h.symm
  unfold quoteField
  constructor
  · simp only [noSep, quoteAfter, beq_self_eq_true, if_true, Bool.not_false, Bool.not_true, Bool.false_and,
      Bool.true_and]
    rw [noSep_append, h1, h2]
    simp [noSep, quoteAfter, hq]
  · have : finalQuote QUOTE false (QUOTE :: (escapeQuotes s ++ [QUOTE]))
        = finalQuote QUOTE true (escapeQuotes s ++ [QUOTE]) := by
      simp [finalQuote, quoteAfter]
    rw [this, finalQuote_append, h2]
    simp [finalQuote, quoteAfter]

/-! ### decoding a quoted field -/

theorem unescape_escape : ∀ (s : List Byte), unescapeQuotes (escapeQuotes s) = s := by
  intro s
  induction s with
  | nil => simp [escapeQuotes, unescapeQuotes]
  | cons b s ih =>
    have hc : escapeQuotes (b :: s) = (if b == QUOTE then [QUOTE, QUOTE] else [b]) ++ escapeQuotes s := by
      simp [escapeQuotes]
    have ih' : unescapeQuotes (escapeQuotes s) = s := ih
    rw [hc]
    by_cases hb : b = QUOTE
    · subst hb
      simp [unescapeQuotes, ih']
    · have hb' : (b == QUOTE) = false := by simp [hb]
      simp only [hb', Bool.false_eq_true, if_false, List.singleton_append]
      cases he : escapeQuotes s with
      | nil =>
        rw [he] at ih'
        simp [unescapeQuotes] at ih' ⊢
        exact ih'
      | cons c rest =>
        rw [he] at ih'
        simp [unescapeQuotes, hb', ih']

theorem strip_quoteField (s : List Byte) : stripQuotesAndDecode (quoteField s) = s := by
  unfold stripQuotesAndDecode quoteField
  have h1 : (QUOTE :: (escapeQuotes s ++ [QUOTE])).head? = some QUOTE := rfl
  have h2 : (QUOTE :: (escapeQuotes s ++ [QUOTE])).getLast? = some QUOTE := by
    rw [← List.cons_append, List.getLast?_append]; simp
  have h3 : (QUOTE :: (escapeQuotes s ++ [QUOTE])).length ≥ 2 := by simp
  simp only [h1, h2, h3, beq_self_eq_true, Bool.and_self, decide_true, if_true]
  have : (List.drop 1 (QUOTE :: (escapeQuotes s ++ [QUOTE]))).dropLast = escapeQuotes s := by
    simp [List.dropLast_concat]
  rw [this, unescape_escape]

/-! ### the formatted line splits back -/

theorem fields_of_join (d : Byte) (hd : d ≠ QUOTE) : ∀ (xs : List (List Byte)), xs ≠ [] →
    segs d QUOTE false (joinWith d (xs.map quoteField)) = xs.map quoteField := by
  intro xs
  induction xs with
  | nil => intro h; exact absurd rfl h
  | cons x xs ih =>
    intro _
    have ⟨c1, c2⟩ := quoteField_closed d hd x
    cases xs with
    | nil =>
      have := segs_append_noSep d QUOTE (quoteField x) false [] c1
      simp only [List.append_nil] at this
      simp [joinWith, this, c2, segs, consFirst]
    | cons y ys =>
      have ih' := ih (by simp)
      simp only [List.map_cons, joinWith] at ih' ⊢
      rw [segs_append_noSep d QUOTE (quoteField x) false _ c1, c2]
      have hq : (d == QUOTE) = false := by simp [hd]
      conv => lhs; arg 2; unfold segs
      simp only [quoteAfter, hq, Bool.false_eq_true, if_false, Bool.not_false, beq_self_eq_true, Bool.and_self,
        if_true]
      rw [ih']
      simp [consFirst]

theorem join_closed (sep d : Byte) (hs : sep ≠ QUOTE) (hd : d ≠ QUOTE) (hsd : d ≠ sep) :
    ∀ (xs : List (List Byte)),
      noSep sep QUOTE false (joinWith d (xs.map quoteField)) = true
      ∧ finalQuote QUOTE false (joinWith d (xs.map quoteField)) = false := by
  intro xs
  induction xs with
  | nil => simp [joinWith, noSep, finalQuote]
  | cons x xs ih =>
    have ⟨c1, c2⟩ := quoteField_closed sep hs x
    cases xs with
    | nil => simpa [joinWith] using ⟨c1, c2⟩
    | cons y ys =>
      simp only [List.map_cons, joinWith] at ih ⊢
      have hq : (d == QUOTE) = false := by simp [hd]
      have hds : (d == sep) = false := by simp [hsd]
      rw [noSep_append, finalQuote_append, c1, c2]
      constructor
      · simp only [noSep, quoteAfter, hq, hds, Bool.false_eq_true, if_false, ih.1]
        simp
      · have : finalQuote QUOTE false (d :: joinWith d (quoteField y :: List.map quoteField ys))
            = finalQuote QUOTE false (joinWith d (quoteField y :: List.map quoteField ys)) := by
          simp [finalQuote, quoteAfter, hq]
        rw [this]; exact ih.2

theorem format_ne_nil (d : Byte) (xs : List (List Byte)) (h : xs ≠ []) : formatDsv d xs ≠ [] := by
  unfold formatDsv
  cases xs with
  | nil => exact absurd rfl h
  | cons x xs =>
    cases xs with
    | nil => simp [joinWith, quoteField]
    | cons y ys => simp [joinWith, quoteField]

theorem rowSegs_printed (d : Byte) (hd : d ≠ QUOTE) (hdl : d ≠ LF) (xs : List (List Byte)) :
    rowSegs QUOTE LF (printedLine d xs) = [formatDsv d xs] := by
  have hl : LF ≠ QUOTE := by decide
  have ⟨c1, c2⟩ := join_closed LF d hl hd hdl xs
  unfold rowSegs printedLine formatDsv
  rw [segs_append_noSep LF QUOTE _ false [LF] c1, c2]
  have : segs LF QUOTE false [LF] = [[], []] := by decide
  rw [this]
  simp [consFirst]

theorem rowSegs_unterminated (d : Byte) (hd : d ≠ QUOTE) (hdl : d ≠ LF) (xs : List (List Byte)) (hx : xs ≠ []) :
    rowSegs QUOTE LF (formatDsv d xs) = [formatDsv d xs] := by
  have hl : LF ≠ QUOTE := by decide
  have ⟨c1, c2⟩ := join_closed LF d hl hd hdl xs
  have hne := format_ne_nil d xs hx
  unfold rowSegs
  unfold formatDsv at hne ⊢
  have := segs_append_noSep LF QUOTE _ false [] c1
  simp only [List.append_nil] at this
  rw [this, c2]
  simp [segs, consFirst, hne]

theorem readSpec_printed (d : Byte) (hd : d ≠ QUOTE) (hdl : d ≠ LF) (xs : List (List Byte)) (hx : xs ≠ []) :
    readDsvSpec d (printedLine d xs) = [xs] := by
  unfold readDsvSpec rowsSpec
  rw [rowSegs_printed d hd hdl xs]
  simp only [List.map_cons, List.map_nil, fieldsOf, formatDsv]
  rw [fields_of_join d hd xs hx, List.map_map]
  congr 1
  conv => rhs; rw [← List.map_id xs]
  apply List.map_congr_left
  intro s _
  exact strip_quoteField s

theorem readSpec_unterminated (d : Byte) (hd : d ≠ QUOTE) (hdl : d ≠ LF) (xs : List (List Byte)) (hx : xs ≠ []) :
    readDsvSpec d (formatDsv d xs) = [xs] := by
  unfold readDsvSpec rowsSpec
  rw [rowSegs_unterminated d hd hdl xs hx]
  simp only [List.map_cons, List.map_nil, fieldsOf, formatDsv]
  rw [fields_of_join d hd xs hx, List.map_map]
  congr 1
  conv => rhs; rw [← List.map_id xs]
  apply List.map_congr_left
  intro s _
  exact strip_quoteField s

end SV.DsvCsvP
