/-
Proof/JsonLocateIndex — the locate model's node selection on the index of a valid document:
`Idx.build d.text` has IB = first bytes of node tokens, BP = tree encoding, and
`find_node_at_offset` / `text_position` are rank/select between the two.
Composition of C05 (`scalar_eq_reference`), C06 (`index_structure`) and C07 (`cursor_at_offset_eq`,
`text_position_eq`).
-/
import SuccinctlyVerif.Model.JsonLocateBp
import SuccinctlyVerif.Props.C06
import SuccinctlyVerif.Props.C07
namespace SV.JsonLocate
open SV SV.JsonSemi SV.JsonText SV.JsonNav SV.JsonSimple

/-! ### the word vectors of the built index -/

theorem build_ibWords (text : Bytes) :
    (Idx.build text).ibWords = pack (reference text).ib := by
  simp only [Idx.build, SV.Props.C05.scalar_eq_reference, referenceWords]

/-- All bits of the packed words: the bit list followed by zero padding. -/
theorem allBits_pack (bs : List Bool) :
    allBits (pack bs) = bs ++ List.replicate (64 * ((bs.length + 63) / 64) - bs.length) false := by
  rw [pack, allBits_packN _ _ (by omega)]

theorem sum_popcount_pack (bs : List Bool) : ((pack bs).map popcount).sum = bs.count true := by
  have h := sum_popc_pack bs
  have e : (pack bs).map popc = (pack bs).map popcount :=
    List.map_congr_left fun w _ => Kernels.popc_eq_popcount w
  rw [e] at h; exact h

theorem reference_ib_length (text : Bytes) : (reference text).ib.length = text.length :=
  run_ib_length _ _

/-- The popcount side condition of C07 follows from the text fitting a `u32`. -/
theorem build_popcount_bound (text : Bytes) (hsmall : text.length < JsonIb.U32) :
    (((Idx.build text).ibWords).map popcount).sum < JsonIb.U32 := by
  rw [build_ibWords, sum_popcount_pack]
  have := List.count_le_length (a := true) (l := (reference text).ib)
  rw [reference_ib_length] at this
  omega

/-! ### the bit lists of the index of a document -/

theorem toksStdBp_doc (d : Doc) : toksStdBp d.toks = treeBp d.value := by
  simp [Doc.toks, toksStdBp_append, toksStdBp_ws, treeBp_eq]

/-- Every node contributes one interest bit, one open and one close. -/
theorem doc_count (d : Doc) : 2 * (toksStdIb d.toks).count true = (treeBp d.value).length := by
  rw [toksStd_count, toksStdBp_doc, treeBp_balanced]

theorem toksStdIb_doc_length (d : Doc) : (toksStdIb d.toks).length = d.text.length := by
  rw [toksStdIb_length, Doc.text]

theorem build_ib (d : Doc) : (Idx.build d.text).ib = toksStdIb d.toks := by
  have href := SV.Props.C06.index_structure d
  simp only [Idx.build, SV.Props.C05.scalar_eq_reference, referenceWords]
  rw [← reference_ib_length d.text, bitsOf_pack, href.2]

theorem build_bp (d : Doc) : (Idx.build d.text).bp = treeBp d.value := by
  have href := SV.Props.C06.index_structure d
  have hib := build_ib d
  simp only [Idx.build, SV.Props.C05.scalar_eq_reference, referenceWords] at hib ⊢
  rw [hib, doc_count, ← href.1, bitsOf_pack]

theorem build_text (text : Bytes) : (Idx.build text).text = text := rfl

/-- Rank over all bits of the IB words agrees with rank over the document's interest bits for
every position inside the text. -/
theorem rank_ibWords (d : Doc) (i : Nat) (hi : i ≤ d.text.length) :
    rankB true (allBits (Idx.build d.text).ibWords) i = rankB true (toksStdIb d.toks) i := by
  rw [build_ibWords, allBits_pack, (SV.Props.C06.index_structure d).2]
  unfold rankB
  rw [List.take_append_of_le_length (by rw [toksStdIb_doc_length]; exact hi)]

/-! ### `find_node_at_offset` -/

/-- For every valid document and every offset inside its text, `find_node_at_offset` returns the BP
position of the open parenthesis of the `k`-th node in preorder, `k + 1` being the number of node
first bytes at positions `≤ off` (`None` before the first node). -/
theorem findNodeAtOffset_doc (d : Doc) (off : Nat) (h : off < d.text.length)
    (hsmall : d.text.length < JsonIb.U32) :
    (Idx.build d.text).findNodeAtOffset off =
      (if rankB true (toksStdIb d.toks) (off + 1) = 0 then none
       else selectB true (treeBp d.value) (rankB true (toksStdIb d.toks) (off + 1) - 1)) := by
  have hc := SV.Props.C07.cursor_at_offset_eq (Idx.build d.text).ibWords d.text.length d.text.length
    off (Idx.build d.text).bp (build_popcount_bound d.text hsmall) (Nat.le_refl _) h
  have e : (Idx.build d.text).findNodeAtOffset off =
      JsonIb.cursorAtOffset (Idx.build d.text).ibWords d.text.length d.text.length
        (Idx.build d.text).bp.length (rankB true (Idx.build d.text).bp) off := rfl
  rw [e, hc, rank_ibWords d (off + 1) (by omega), build_bp]

/-! ### `text_position` -/

/-- `JsonCursor::text_position` of the locate model on a document index: the position of the
interest bit whose rank is the BP rank of the cursor. -/
theorem textPosition_doc (d : Doc) (p : Nat) :
    (Idx.build d.text).textPosition p =
      (selectB true (toksStdIb d.toks) (rankB true (treeBp d.value) p)).filter (· < d.text.length) := by
  unfold Idx.textPosition Idx.bpRank1
  rw [build_ib, build_bp, build_text]

theorem selectB_pad_false (l : List Bool) (n k : Nat) :
    selectB true (l ++ List.replicate n false) k = selectB true l k := by
  rw [SV.Scan.selectB_append]
  split
  · rfl
  · rw [SV.Scan.selectB_none_of_count_le true l k (by omega),
      SV.Scan.selectB_none_of_count_le true (List.replicate n false) _ (by simp [List.count_replicate])]
    rfl

/-- The word-level `text_position` of C07 (`ib_select1_from` over the IB words with the hint
`bp_rank / 8`), run on the index of a document with the BP rank of cursor `p`, is the model's
`text_position`, i.e. select over the document's interest bits. -/
theorem textPosition_words_doc (d : Doc) (p : Nat) (hsmall : d.text.length < JsonIb.U32) :
    JsonIb.textPosition (Idx.build d.text).ibWords d.text.length ((Idx.build d.text).bpRank1 p) =
      (selectB true (toksStdIb d.toks) (rankB true (treeBp d.value) p)).filter (· < d.text.length) := by
  rw [SV.Props.C07.text_position_eq _ _ _ (build_popcount_bound d.text hsmall)]
  unfold Idx.bpRank1
  rw [build_bp, build_ibWords, allBits_pack, (SV.Props.C06.index_structure d).2, selectB_pad_false]

/-- Round trip: the node found at an offset starts at or before that offset — its text position is
the position of the last interest bit `≤ off`. -/
theorem textPosition_findNode_doc (d : Doc) (off p : Nat) (h : off < d.text.length)
    (hsmall : d.text.length < JsonIb.U32)
    (hp : (Idx.build d.text).findNodeAtOffset off = some p) :
    (Idx.build d.text).textPosition p =
      (selectB true (toksStdIb d.toks) (rankB true (toksStdIb d.toks) (off + 1) - 1)).filter
        (· < d.text.length) := by
  rw [findNodeAtOffset_doc d off h hsmall] at hp
  split at hp
  · cases hp
  · rw [textPosition_doc, (JsonIb.selectB_some_spec true _ _ _ hp).2]

end SV.JsonLocate
