/-
Proof/JsonUtf8 — the decision of `validate_utf8_char` (`utf8Len`) is exactly well-formed UTF-8
(`utf8Wf`, Unicode Table 3-7). The byte-level facts are discharged by `bv_decide`.
-/
import SuccinctlyVerif.Proof.JsonBase
import Std.Tactic.BVDecide
namespace SV.Json.Model
open SV.Json
set_option linter.unusedSimpArgs false
set_option linter.unusedVariables false

theorem utf8Len_1 (a : Byte) (r : Bytes) (h : a ≤ 0x7F) : utf8Len (a :: r) = some 1 := by
  have : a < 0x80 := by bv_decide (timeout := 300)
  simp only [utf8Len, this, ↓reduceIte]

theorem utf8Len_2 (a b : Byte) (r : Bytes)
    (h : 0xC2 ≤ a ∧ a ≤ 0xDF ∧ 0x80 ≤ b ∧ b ≤ 0xBF) : utf8Len (a :: b :: r) = some 2 := by
  obtain ⟨h1, h2, h3, h4⟩ := h
  have e1 : ¬ a < 0x80 := by bv_decide (timeout := 300)
  have e2 : a &&& 0xE0 = 0xC0 := by bv_decide (timeout := 300)
  have e3 : b &&& 0xC0 = 0x80 := by bv_decide (timeout := 300)
  have e4 : ¬ (((a.setWidth 32 &&& 0x1F) <<< 6 ||| (b.setWidth 32 &&& 0x3F) : BitVec 32) < 0x80) := by bv_decide (timeout := 300)
  have e5 : ¬ (((a.setWidth 32 &&& 0x1F) <<< 6 ||| (b.setWidth 32 &&& 0x3F) : BitVec 32) > 0x7FF) := by bv_decide (timeout := 300)
  have e6 : ¬ ((0xD800 : BitVec 32) ≤ ((a.setWidth 32 &&& 0x1F) <<< 6 ||| (b.setWidth 32 &&& 0x3F))) := by bv_decide (timeout := 300)
  simp only [utf8Len, e1, e2, e3, e4, e5, e6, ↓reduceIte, ne_eq, not_true_eq_false, or_self, false_and]


theorem utf8Len_3 (a b c : Byte) (r : Bytes)
    (h : ((a = 0xE0 ∧ 0xA0 ≤ b ∧ b ≤ 0xBF) ∨ (0xE1 ≤ a ∧ a ≤ 0xEC ∧ 0x80 ≤ b ∧ b ≤ 0xBF)
        ∨ (a = 0xED ∧ 0x80 ≤ b ∧ b ≤ 0x9F) ∨ (0xEE ≤ a ∧ a ≤ 0xEF ∧ 0x80 ≤ b ∧ b ≤ 0xBF))
        ∧ 0x80 ≤ c ∧ c ≤ 0xBF) : utf8Len (a :: b :: c :: r) = some 3 := by
  have e1 : ¬ a < 0x80 := by bv_decide (timeout := 300)
  have e2 : ¬ a &&& 0xE0 = 0xC0 := by bv_decide (timeout := 300)
  have e2' : a &&& 0xF0 = 0xE0 := by bv_decide (timeout := 300)
  have e3 : b &&& 0xC0 = 0x80 := by bv_decide (timeout := 300)
  have e3' : c &&& 0xC0 = 0x80 := by bv_decide (timeout := 300)
  have e4 : ¬ (((a.setWidth 32 &&& 0x0F) <<< 12 ||| (b.setWidth 32 &&& 0x3F) <<< 6 ||| (c.setWidth 32 &&& 0x3F) : BitVec 32) < 0x800) := by bv_decide (timeout := 300)
  have e5 : ¬ (((a.setWidth 32 &&& 0x0F) <<< 12 ||| (b.setWidth 32 &&& 0x3F) <<< 6 ||| (c.setWidth 32 &&& 0x3F) : BitVec 32) > 0xFFFF) := by bv_decide (timeout := 300)
  have e6 : ¬ ((0xD800 : BitVec 32) ≤ ((a.setWidth 32 &&& 0x0F) <<< 12 ||| (b.setWidth 32 &&& 0x3F) <<< 6 ||| (c.setWidth 32 &&& 0x3F)) ∧
      ((a.setWidth 32 &&& 0x0F) <<< 12 ||| (b.setWidth 32 &&& 0x3F) <<< 6 ||| (c.setWidth 32 &&& 0x3F) : BitVec 32) ≤ 0xDFFF) := by bv_decide (timeout := 300)
  simp only [utf8Len, e1, e2, e2', e3, e3', e4, e5, e6, ↓reduceIte, ne_eq, not_true_eq_false, or_self, false_and]

theorem utf8Len_4 (a b c d : Byte) (r : Bytes)
    (h : ((a = 0xF0 ∧ 0x90 ≤ b ∧ b ≤ 0xBF) ∨ (0xF1 ≤ a ∧ a ≤ 0xF3 ∧ 0x80 ≤ b ∧ b ≤ 0xBF)
        ∨ (a = 0xF4 ∧ 0x80 ≤ b ∧ b ≤ 0x8F)) ∧ 0x80 ≤ c ∧ c ≤ 0xBF ∧ 0x80 ≤ d ∧ d ≤ 0xBF) :
    utf8Len (a :: b :: c :: d :: r) = some 4 := by
  have e1 : ¬ a < 0x80 := by bv_decide (timeout := 300)
  have e2 : ¬ a &&& 0xE0 = 0xC0 := by bv_decide (timeout := 300)
  have e2' : ¬ a &&& 0xF0 = 0xE0 := by bv_decide (timeout := 300)
  have e2'' : a &&& 0xF8 = 0xF0 := by bv_decide (timeout := 300)
  have e3 : b &&& 0xC0 = 0x80 := by bv_decide (timeout := 300)
  have e3' : c &&& 0xC0 = 0x80 := by bv_decide (timeout := 300)
  have e3'' : d &&& 0xC0 = 0x80 := by bv_decide (timeout := 300)
  have e4 : ¬ (((a.setWidth 32 &&& 0x07) <<< 18 ||| (b.setWidth 32 &&& 0x3F) <<< 12 ||| (c.setWidth 32 &&& 0x3F) <<< 6 ||| (d.setWidth 32 &&& 0x3F) : BitVec 32) < 0x10000) := by bv_decide (timeout := 300)
  have e5 : ¬ (((a.setWidth 32 &&& 0x07) <<< 18 ||| (b.setWidth 32 &&& 0x3F) <<< 12 ||| (c.setWidth 32 &&& 0x3F) <<< 6 ||| (d.setWidth 32 &&& 0x3F) : BitVec 32) > 0x10FFFF) := by bv_decide (timeout := 300)
  have e6 : ¬ ((0xD800 : BitVec 32) ≤ ((a.setWidth 32 &&& 0x07) <<< 18 ||| (b.setWidth 32 &&& 0x3F) <<< 12 ||| (c.setWidth 32 &&& 0x3F) <<< 6 ||| (d.setWidth 32 &&& 0x3F)) ∧
      ((a.setWidth 32 &&& 0x07) <<< 18 ||| (b.setWidth 32 &&& 0x3F) <<< 12 ||| (c.setWidth 32 &&& 0x3F) <<< 6 ||| (d.setWidth 32 &&& 0x3F) : BitVec 32) ≤ 0xDFFF) := by bv_decide (timeout := 300)
  simp only [utf8Len, e1, e2, e2', e2'', e3, e3', e3'', e4, e5, e6, ↓reduceIte, ne_eq, not_true_eq_false, or_self, false_and]

/-- Completeness: a well-formed sequence at the head is accepted with its length. -/
theorem utf8Len_complete (c r : Bytes) (h : utf8Wf c = true) : utf8Len (c ++ r) = some c.length := by
  match c, h with
  | [a], h => simp [utf8Wf] at h; exact utf8Len_1 a r h
  | [a, b], h =>
    simp [utf8Wf, isCont] at h
    exact utf8Len_2 a b r ⟨h.1.1, h.1.2, h.2.1, h.2.2⟩
  | [a, b, c], h =>
    simp [utf8Wf, isCont] at h
    exact utf8Len_3 a b c r (by
      obtain ⟨h1, h2, h3⟩ := h
      refine ⟨?_, h2, h3⟩
      rcases h1 with ((h1 | h1) | h1) | h1
      · exact Or.inl ⟨h1.1.1, h1.1.2, h1.2⟩
      · exact Or.inr (Or.inl ⟨h1.1.1, h1.1.2, h1.2.1, h1.2.2⟩)
      · exact Or.inr (Or.inr (Or.inl ⟨h1.1.1, h1.1.2, h1.2⟩))
      · exact Or.inr (Or.inr (Or.inr ⟨h1.1.1, h1.1.2, h1.2.1, h1.2.2⟩)))
  | [a, b, c, d], h =>
    simp [utf8Wf, isCont] at h
    exact utf8Len_4 a b c d r (by
      obtain ⟨⟨h1, h2, h3⟩, h4, h5⟩ := h
      refine ⟨?_, h2, h3, h4, h5⟩
      rcases h1 with (h1 | h1) | h1
      · exact Or.inl ⟨h1.1.1, h1.1.2, h1.2⟩
      · exact Or.inr (Or.inl ⟨h1.1.1, h1.1.2, h1.2.1, h1.2.2⟩)
      · exact Or.inr (Or.inr ⟨h1.1.1, h1.1.2, h1.2⟩))
  | [], h => simp [utf8Wf] at h
  | _ :: _ :: _ :: _ :: _ :: _, h => simp [utf8Wf] at h


/-- Soundness: whatever `validate_utf8_char` accepts is one well-formed sequence. -/
theorem utf8Len_sound (rest : Bytes) (n : Nat) (h : utf8Len rest = some n) :
    ∃ c r, rest = c ++ r ∧ c.length = n ∧ utf8Wf c = true := by
  cases rest with
  | nil => simp [utf8Len] at h
  | cons a t =>
    by_cases e1 : a < 0x80
    · simp only [utf8Len, e1, ↓reduceIte] at h
      injection h with h; subst h
      exact ⟨[a], t, rfl, rfl, by simp [utf8Wf]; bv_decide (timeout := 300)⟩
    by_cases e2 : a &&& 0xE0 = 0xC0
    · cases t with
      | nil => simp only [utf8Len, e1, e2, ↓reduceIte] at h; cases h
      | cons b1 t' =>
        simp only [utf8Len, e1, e2, ↓reduceIte] at h
        split at h
        · cases h
        · split at h
          · cases h
          · split at h
            · cases h
            · injection h with h; subst h
              refine ⟨[a, b1], t', rfl, rfl, ?_⟩
              simp [utf8Wf, isCont]; bv_decide (timeout := 300)
    by_cases e3 : a &&& 0xF0 = 0xE0
    · match t with
      | [] => simp only [utf8Len, e1, e2, e3, ↓reduceIte] at h; cases h
      | [_] => simp only [utf8Len, e1, e2, e3, ↓reduceIte] at h; cases h
      | b1 :: b2 :: t' =>
        simp only [utf8Len, e1, e2, e3, ↓reduceIte] at h
        split at h
        · cases h
        · split at h
          · cases h
          · split at h
            · cases h
            · injection h with h; subst h
              refine ⟨[a, b1, b2], t', rfl, rfl, ?_⟩
              simp [utf8Wf, isCont]; bv_decide (timeout := 300)
    by_cases e4 : a &&& 0xF8 = 0xF0
    · match t with
      | [] => simp only [utf8Len, e1, e2, e3, e4, ↓reduceIte] at h; cases h
      | [_] => simp only [utf8Len, e1, e2, e3, e4, ↓reduceIte] at h; cases h
      | [_, _] => simp only [utf8Len, e1, e2, e3, e4, ↓reduceIte] at h; cases h
      | b1 :: b2 :: b3 :: t' =>
        simp only [utf8Len, e1, e2, e3, e4, ↓reduceIte] at h
        split at h
        · cases h
        · split at h
          · cases h
          · split at h
            · cases h
            · injection h with h; subst h
              refine ⟨[a, b1, b2, b3], t', rfl, rfl, ?_⟩
              simp [utf8Wf, isCont]; bv_decide (timeout := 300)
    · simp only [utf8Len, e1, e2, e3, e4, ↓reduceIte] at h; cases h

end SV.Json.Model
