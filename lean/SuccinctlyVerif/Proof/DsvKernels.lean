/-
Proof/DsvKernels — the quote-mask kernels of the DSV engines (C20), over the *generated* kernels
`Gen.prefix_xor`, `Gen.next_carry`, `Gen.toggle64_from_prefix_xor`, `Gen.toggle64_from_deposit` and
the PDEP model of Model/Prim.  `bv_decide` is used for the four word-level identities (each adds a
`*_native.bv_decide.ax_*` axiom, listed by the audit); everything else is induction over bit indices.
-/
import Std.Tactic.BVDecide
import SuccinctlyVerif.Model.Dsv
namespace SV.DsvK
open SV SV.Dsv

/-! ### word-level identities (bv_decide) -/

/-- The doubling shift chain satisfies the prefix-XOR recurrence. -/
theorem prefix_xor_spec (q : BitVec 64) : Gen.prefix_xor q = q ^^^ (Gen.prefix_xor q <<< 1) := by
  unfold Gen.prefix_xor
  bv_decide (timeout := 300)

/-- The "inside quotes" word of the prefix-XOR tail: prefix XOR folded with the broadcast carry. -/
def insideP (c q : BitVec 64) : BitVec 64 := Gen.prefix_xor q ^^^ (0#64 - (c &&& 1#64))

/-- `inside_i = q_i xor inside_{i-1}` with `inside_{-1} = carry & 1`. -/
theorem insideP_rec (c q : BitVec 64) :
    insideP c q = q ^^^ ((insideP c q <<< 1) ||| (c &&& 1#64)) := by
  unfold insideP Gen.prefix_xor
  bv_decide (timeout := 300)

/-- `next_carry` (count parity) is bit 63 of the inside word — including a quote at bit 63. -/
theorem next_carry_eq (c q : BitVec 64) : Gen.next_carry c q = insideP c q >>> 63 := by
  unfold Gen.next_carry insideP Gen.prefix_xor popcountBV64
  bv_decide (timeout := 300)

/-- The PDEP-add formula equals the complemented inside word, when the addend is "the quotes that
open a region" (`q` masked by "previous position is outside"). -/
theorem deposit_add_eq (c q a : BitVec 64)
    (ha : a = q &&& ~~~((insideP c q <<< 1) ||| (c &&& 1#64))) :
    (((a <<< 1) ||| (c &&& 1#64)) + ~~~q) = ~~~ insideP c q := by
  subst ha
  unfold insideP Gen.prefix_xor
  bv_decide (timeout := 300)

theorem and_one_cases (c : BitVec 64) : c &&& 1#64 = 0#64 ∨ c &&& 1#64 = 1#64 := by
  bv_decide (timeout := 300)

theorem and_one_eq (c : BitVec 64) : c &&& 1#64 = if c.getLsbD 0 then 1#64 else 0#64 := by
  cases h : c.getLsbD 0 <;> simp only [if_true, if_false, Bool.false_eq_true] <;> bv_decide (timeout := 300)

/-! ### bit-serial reading of the inside word -/

theorem getLsbD_and_one (c : BitVec 64) (i : Nat) :
    (c &&& 1#64).getLsbD i = (decide (i = 0) && c.getLsbD 0) := by
  rw [BitVec.getLsbD_and, BitVec.getLsbD_one]
  by_cases h : i = 0
  · subst h; simp
  · simp [h]

/-- Bit `i` of the inside word is the bit-serial quote state after bits `0..=i`. -/
theorem insideP_getLsbD (c q : BitVec 64) (i : Nat) (hi : i < 64) :
    (insideP c q).getLsbD i = serialState q (c.getLsbD 0) i := by
  induction i with
  | zero =>
    rw [insideP_rec]
    simp only [BitVec.getLsbD_xor, BitVec.getLsbD_or, BitVec.getLsbD_shiftLeft, getLsbD_and_one, serialState]
    cases q.getLsbD 0 <;> cases c.getLsbD 0 <;> simp
  | succ i ih =>
    have ih := ih (by omega)
    rw [insideP_rec]
    simp only [BitVec.getLsbD_xor, BitVec.getLsbD_or, BitVec.getLsbD_shiftLeft, getLsbD_and_one, serialState]
    have h1 : decide (i + 1 < 64) = true := by simp; omega
    have h2 : decide (i + 1 < 1) = false := by simp
    simp only [h1, h2, Nat.add_sub_cancel, ih]
    cases q.getLsbD (i + 1) <;> cases serialState q (c.getLsbD 0) i <;> simp

/-- Number of set bits of `m` strictly below position `i`. -/
def cntBelow (m : BitVec 64) : Nat → Nat
  | 0 => 0
  | i + 1 => cntBelow m i + (if m.getLsbD i then 1 else 0)

theorem cntBelow_le (m : BitVec 64) (i : Nat) : cntBelow m i ≤ i := by
  induction i with
  | zero => simp [cntBelow]
  | succ i ih => unfold cntBelow; split <;> omega

theorem par_step (k : Nat) (b st : Bool) :
    (if b then !(st ^^ decide (k % 2 = 1)) else (st ^^ decide (k % 2 = 1)))
      = (st ^^ decide ((k + (if b then 1 else 0)) % 2 = 1)) := by
  rcases Nat.mod_two_eq_zero_or_one k with hk | hk <;> cases b <;> cases st <;> simp [hk] <;> omega

/-- The serial state is the start state flipped by the parity of the quotes seen so far. -/
theorem serialState_eq_parity (q : BitVec 64) (st : Bool) (i : Nat) :
    serialState q st i = (st ^^ decide (cntBelow q (i + 1) % 2 = 1)) := by
  induction i with
  | zero =>
    have h := par_step 0 (q.getLsbD 0) st
    simpa [serialState, cntBelow] using h
  | succ i ih =>
    have hc : cntBelow q (i + 1 + 1) = cntBelow q (i + 1) + (if q.getLsbD (i + 1) then 1 else 0) := rfl
    rw [serialState, ih, hc]
    exact par_step _ _ _

/-- `prefix_xor`: bit `i` = parity of the quote bits in `[0, i]`. -/
theorem prefix_xor_parity (q : BitVec 64) (i : Nat) (hi : i < 64) :
    (Gen.prefix_xor q).getLsbD i = decide (cntBelow q (i + 1) % 2 = 1) := by
  have h := insideP_getLsbD 0#64 q i hi
  have h0 : insideP 0#64 q = Gen.prefix_xor q := by unfold insideP; simp
  rw [h0, serialState_eq_parity] at h
  simpa using h

/-! ### PDEP -/

/-- PDEP, bitwise: result bit `j` = mask bit `j` ∧ source bit (number of mask bits below `j`). -/
theorem pdepGo_getLsbD (src mask : BitVec 64) (fuel : Nat) :
    ∀ (i : Nat) (acc : BitVec 64), (∀ j, i ≤ j → acc.getLsbD j = false) → ∀ j, j < 64 →
      (pdepGo src mask fuel i (cntBelow mask i) acc).getLsbD j =
        if j < i then acc.getLsbD j
        else if j < i + fuel then (mask.getLsbD j && src.getLsbD (cntBelow mask j))
        else acc.getLsbD j := by
  induction fuel with
  | zero =>
    intro i acc _ j _
    simp only [pdepGo, Nat.add_zero]
    split
    · rfl
    · rfl
  | succ fuel ih =>
    intro i acc hacc j hj
    unfold pdepGo
    by_cases hm : mask.getLsbD i = true
    · simp only [hm, if_true]
      have hc : cntBelow mask i + 1 = cntBelow mask (i + 1) := by
        simp [cntBelow, hm]
      rw [hc, ih (i + 1) _ _ j hj]
      · by_cases h1 : j < i
        · have : j < i + 1 := by omega
          simp only [h1, this, if_true]
          split
          · simp only [BitVec.getLsbD_or, BitVec.getLsbD_shiftLeft, BitVec.getLsbD_one]
            have : ¬ (j - i = 0 ∧ True) ∨ j < i := Or.inr h1
            simp; omega
          · rfl
        · by_cases h2 : j = i
          · subst h2
            have e1 : j < j + 1 := by omega
            have e2 : j < j + (fuel + 1) := by omega
            simp only [e1, if_true, Nat.lt_irrefl, if_false, e2, hm, Bool.true_and]
            split
            · rename_i hs
              simp only [BitVec.getLsbD_or, BitVec.getLsbD_shiftLeft, BitVec.getLsbD_one, hs]
              simp [hj]
            · rename_i hs
              simp only [hacc j (Nat.le_refl _)]
              simp at hs; simp [hs]
          · have e1 : ¬ j < i + 1 := by omega
            simp only [h1, e1, if_false]
            have : (j < i + 1 + fuel) = (j < i + (fuel + 1)) := by
              apply propext; constructor <;> intro h <;> omega
            simp only [this]
            split
            · rfl
            · split
              · simp only [BitVec.getLsbD_or, BitVec.getLsbD_shiftLeft, BitVec.getLsbD_one]
                have : j - i ≠ 0 := by omega
                simp [this]
              · rfl
      · intro j' hj'
        split
        · simp only [BitVec.getLsbD_or, BitVec.getLsbD_shiftLeft, BitVec.getLsbD_one]
          have : j' - i ≠ 0 := by omega
          simp [this, hacc j' (by omega)]
        · exact hacc j' (by omega)
    · simp only [hm]
      have hc : cntBelow mask i = cntBelow mask (i + 1) := by
        simp [cntBelow, hm]
      simp only [Bool.false_eq_true, if_false]
      rw [hc, ih (i + 1) acc (fun j' hj' => hacc j' (by omega)) j hj]
      by_cases h1 : j < i
      · have : j < i + 1 := by omega
        simp [h1, this]
      · by_cases h2 : j = i
        · subst h2
          have e1 : j < j + 1 := by omega
          have e2 : j < j + (fuel + 1) := by omega
          simp only [e1, if_true, Nat.lt_irrefl, if_false, e2]
          simp at hm
          simp [hm, hacc j (Nat.le_refl _)]
        · have e1 : ¬ j < i + 1 := by omega
          simp only [h1, e1, if_false]
          have : (j < i + 1 + fuel) = (j < i + (fuel + 1)) := by
            apply propext; constructor <;> intro h <;> omega
          simp only [this]

theorem pdep_getLsbD (src mask : BitVec 64) (j : Nat) (hj : j < 64) :
    (pdep src mask).getLsbD j = (mask.getLsbD j && src.getLsbD (cntBelow mask j)) := by
  have h := pdepGo_getLsbD src mask 64 0 0#64 (by intro j _; simp) j hj
  unfold pdep
  have h0 : cntBelow mask 0 = 0 := rfl
  rw [h0] at h
  rw [h]
  simp [hj]

/-! ### the deposit tail equals the prefix-XOR tail; both equal the bit-serial toggle -/

theorem odds_bits : ∀ k : Fin 64, (6148914691236517205#64).getLsbD k.val = decide (k.val % 2 = 0) := by decide
theorem odds1_bits : ∀ k : Fin 64, (6148914691236517205#64 <<< 1).getLsbD k.val = decide (k.val % 2 = 1) := by decide

/-- Source of the deposit: bit `k` of `ODDS_MASK << c` is set iff `k + c` is even. -/
theorem odds_shift_getLsbD (c : BitVec 64) (k : Nat) (hk : k < 64) :
    (oddsMask <<< (c &&& 1#64)).getLsbD k = !(c.getLsbD 0 ^^ decide (k % 2 = 1)) := by
  have ho : oddsMask = 6148914691236517205#64 := rfl
  rw [ho, and_one_eq]
  cases hc : c.getLsbD 0
  · simp only [Bool.false_eq_true, if_false]
    have := odds_bits ⟨k, hk⟩
    simp only [BitVec.shiftLeft_eq', BitVec.toNat_ofNat, Nat.zero_mod, BitVec.shiftLeft_zero]
    rw [this]
    rcases Nat.mod_two_eq_zero_or_one k with h | h <;> simp [h]
  · simp only [if_true]
    have := odds1_bits ⟨k, hk⟩
    have e : (6148914691236517205#64 <<< (1#64)) = (6148914691236517205#64 <<< 1) := rfl
    rw [e, this]
    rcases Nat.mod_two_eq_zero_or_one k with h | h <;> simp [h]

/-- The deposited addend is "quotes whose previous position is outside". -/
theorem pdep_odds (c q : BitVec 64) :
    pdep (oddsMask <<< (c &&& 1#64)) q = q &&& ~~~((insideP c q <<< 1) ||| (c &&& 1#64)) := by
  apply BitVec.eq_of_getLsbD_eq
  intro j hj
  rw [pdep_getLsbD _ _ _ hj, odds_shift_getLsbD _ _ (Nat.lt_of_le_of_lt (cntBelow_le q j) hj)]
  have e := getLsbD_and_one c j
  rw [BitVec.getLsbD_and] at e
  simp only [BitVec.getLsbD_and, BitVec.getLsbD_not, BitVec.getLsbD_or, BitVec.getLsbD_shiftLeft, e,
    hj, decide_true, Bool.true_and]
  cases j with
  | zero => simp [cntBelow]
  | succ j =>
    rw [Nat.add_sub_cancel, insideP_getLsbD c q j (by omega), serialState_eq_parity]
    simp

/-- The BMI2 (PDEP deposit) tail computes exactly what the prefix-XOR tail computes, for every
carry word and every quote bitmap — including a quote at bit 63. -/
theorem toggleBmi2_eq_togglePrefix (c q : BitVec 64) : toggleBmi2 c q = togglePrefix c q := by
  unfold toggleBmi2 togglePrefix Gen.toggle64_from_deposit Gen.toggle64_from_prefix_xor
  simp only
  rw [deposit_add_eq c q _ (pdep_odds c q)]
  rfl

/-- Prefix-XOR tail = bit-serial toggle: outside bit `i` is the negated serial state. -/
theorem togglePrefix_fst_getLsbD (c q : BitVec 64) (i : Nat) (hi : i < 64) :
    (togglePrefix c q).1.getLsbD i = !(serialState q (c.getLsbD 0) i) := by
  have : (togglePrefix c q).1 = ~~~ insideP c q := rfl
  rw [this, BitVec.getLsbD_not, insideP_getLsbD c q i hi]
  simp [hi]

/-- … and the outgoing carry is the serial state after all 64 bits. -/
theorem togglePrefix_snd (c q : BitVec 64) :
    (togglePrefix c q).2 = if serialState q (c.getLsbD 0) 63 then 1#64 else 0#64 := by
  have : (togglePrefix c q).2 = Gen.next_carry c q := rfl
  rw [this, next_carry_eq, ← insideP_getLsbD c q 63 (by omega)]
  generalize insideP c q = x
  cases h : x.getLsbD 63 <;> simp only [if_true, if_false, Bool.false_eq_true] <;> bv_decide (timeout := 300)

end SV.DsvK
