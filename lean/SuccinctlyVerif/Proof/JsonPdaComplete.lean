/-
Proof/JsonPdaComplete — completeness of the reference automaton (Spec/JsonPda) w.r.t. the grammar
(Spec/Json): every valid text is accepted, every viable prefix is survived.
-/
import SuccinctlyVerif.Proof.JsonPdaWF
import SuccinctlyVerif.Proof.JsonComplete
namespace SV.Json.Pda.Cpl
open SV.Json SV.Json.Model
set_option linter.unusedSimpArgs false
set_option linter.unusedVariables false
set_option linter.constructorNameAsVariable false

/-! ### composition -/

theorem run_comp {max : Nat} {s s' s'' : PState} {a b : Bytes}
    (h1 : runFrom max s a = some s') (h2 : runFrom max s' b = some s'') :
    runFrom max s (a ++ b) = some s'' := by
  rw [runFrom_append, h1]; exact h2

theorem run_comp_eq {max : Nat} {s s' : PState} {a b : Bytes}
    (h1 : runFrom max s a = some s') :
    runFrom max s (a ++ b) = runFrom max s' b := by
  rw [runFrom_append, h1]; rfl

theorem run_cons {max : Nat} {s s' : PState} {c : Byte} {r : Bytes}
    (h1 : step max s c = some s') :
    runFrom max s (c :: r) = runFrom max s' r := by
  simp only [runFrom, h1]

/-! ### whitespace -/

/-- positions where whitespace is skipped -/
def WsTol (l : Lex) : Prop :=
  l = .top ∨ l = .after ∨ l = .arrStart ∨ l = .arrNext ∨ l = .objStart ∨ l = .objKey ∨
    l = .objColon ∨ l = .objVal

theorem step_ws {max : Nat} {l : Lex} (hl : WsTol l) (stk : List Bool) {b : Byte}
    (hb : isWs b = true) : step max ⟨l, stk⟩ b = some ⟨l, stk⟩ := by
  rcases hl with rfl | rfl | rfl | rfl | rfl | rfl | rfl | rfl <;> simp [step, afterStep, hb]

theorem run_ws {max : Nat} {l : Lex} (hl : WsTol l) (stk : List Bool) {w : Bytes} (hw : Ws w) :
    runFrom max ⟨l, stk⟩ w = some ⟨l, stk⟩ := by
  induction w with
  | nil => rfl
  | cons b w ih =>
    rw [run_cons (step_ws hl stk (hw b (by simp)))]
    exact ih (fun x hx => hw x (by simp [hx]))

/-! ### hex digits -/

theorem hexVal_lt (b : Byte) : hexVal b < 16 := by
  unfold hexVal isDigit isLowerHex isUpperHex
  split
  · rename_i h; simp at h; bv_omega
  · split
    · rename_i h; simp at h; bv_omega
    · split
      · rename_i h; simp at h; bv_omega
      · omega

theorem hexVal_13 {b : Byte} (h : hexVal b = 13) : b = 0x44 ∨ b = 0x64 := by
  unfold hexVal isDigit isLowerHex isUpperHex at h
  split at h
  · rename_i h'; simp at h'; bv_omega
  · split at h
    · rename_i h'; simp at h'; bv_omega
    · split at h
      · rename_i h'; simp at h'; bv_omega
      · omega

theorem isLowSurr_iff (n : Nat) : isLowSurr n = true ↔ 0xDC00 ≤ n ∧ n ≤ 0xDFFF := by
  unfold isLowSurr
  rw [Bool.and_eq_true, decide_eq_true_eq, decide_eq_true_eq]

theorem isHighSurr_iff (n : Nat) : isHighSurr n = true ↔ 0xD800 ≤ n ∧ n ≤ 0xDBFF := by
  unfold isHighSurr
  rw [Bool.and_eq_true, decide_eq_true_eq, decide_eq_true_eq]

theorem isLowSurr_false (n : Nat) : isLowSurr n = false ↔ ¬ (0xDC00 ≤ n ∧ n ≤ 0xDFFF) := by
  rw [← isLowSurr_iff]; simp

/-! ### strings -/

theorem step_str_ascii {max : Nat} (k : Bool) (stk : List Bool) {a : Byte}
    (h1 : a ≤ 0x7F) (h2 : 0x20 ≤ a) (h3 : a ≠ 0x22) (h4 : a ≠ 0x5C) :
    step max ⟨.str k, stk⟩ a = some ⟨.str k, stk⟩ := by
  have n1 : ¬ a < 0x20 := by bv_omega
  simp only [step, if_neg h3, if_neg h4, if_neg n1, if_pos h1]

theorem step_str_lead {max : Nat} (k : Bool) (stk : List Bool) {a : Byte} (h : 0xC2 ≤ a) :
    step max ⟨.str k, stk⟩ a =
      if a ≤ 0xDF then some ⟨.utf8 k 1 0x80 0xBF, stk⟩
      else if a = 0xE0 then some ⟨.utf8 k 2 0xA0 0xBF, stk⟩
      else if a = 0xED then some ⟨.utf8 k 2 0x80 0x9F, stk⟩
      else if a ≤ 0xEF then some ⟨.utf8 k 2 0x80 0xBF, stk⟩
      else if a = 0xF0 then some ⟨.utf8 k 3 0x90 0xBF, stk⟩
      else if a ≤ 0xF3 then some ⟨.utf8 k 3 0x80 0xBF, stk⟩
      else if a = 0xF4 then some ⟨.utf8 k 3 0x80 0x8F, stk⟩
      else none := by
  have n1 : a ≠ 0x22 := by bv_omega
  have n2 : a ≠ 0x5C := by bv_omega
  have n3 : ¬ a < 0x20 := by bv_omega
  have n4 : ¬ a ≤ 0x7F := by bv_omega
  simp only [step, if_neg n1, if_neg n2, if_neg n3, if_neg n4, h, true_and]
  repeat' split
  all_goals first | rfl | (exfalso; bv_omega)

theorem step_utf8 {max : Nat} (k : Bool) (n : Nat) (lo hi : Byte) (stk : List Bool) {b : Byte}
    (h1 : lo ≤ b) (h2 : b ≤ hi) :
    step max ⟨.utf8 k n lo hi, stk⟩ b =
      if n ≤ 1 then some ⟨.str k, stk⟩ else some ⟨.utf8 k (n - 1) 0x80 0xBF, stk⟩ := by
  simp only [step, h1, h2, and_self, if_true]

theorem step_str_3 {max : Nat} (k : Bool) (stk : List Bool) {a : Byte}
    (h : (0xE1 ≤ a ∧ a ≤ 0xEC) ∨ (0xEE ≤ a ∧ a ≤ 0xEF)) :
    step max ⟨.str k, stk⟩ a = some ⟨.utf8 k 2 0x80 0xBF, stk⟩ := by
  have n0 : 0xC2 ≤ a := by bv_omega
  have n1 : ¬ a ≤ 0xDF := by bv_omega
  have n2 : a ≠ 0xE0 := by bv_omega
  have n3 : a ≠ 0xED := by bv_omega
  have n4 : a ≤ 0xEF := by bv_omega
  simp only [step_str_lead k stk n0, if_neg n1, if_neg n2, if_neg n3, if_pos n4]

theorem step_str_4 {max : Nat} (k : Bool) (stk : List Bool) {a : Byte}
    (h1 : 0xF1 ≤ a) (h2 : a ≤ 0xF3) :
    step max ⟨.str k, stk⟩ a = some ⟨.utf8 k 3 0x80 0xBF, stk⟩ := by
  have n0 : 0xC2 ≤ a := by bv_omega
  have n1 : ¬ a ≤ 0xDF := by bv_omega
  have n2 : a ≠ 0xE0 := by bv_omega
  have n3 : a ≠ 0xED := by bv_omega
  have n4 : ¬ a ≤ 0xEF := by bv_omega
  have n5 : a ≠ 0xF0 := by bv_omega
  simp only [step_str_lead k stk n0, if_neg n1, if_neg n2, if_neg n3, if_neg n4, if_neg n5,
    if_pos h2]

theorem run_char {max : Nat} (k : Bool) (stk : List Bool) {c : Bytes} (hc : strCharOk c = true) :
    runFrom max ⟨.str k, stk⟩ c = some ⟨.str k, stk⟩ := by
  match c, hc with
  | [a], hc =>
    simp [strCharOk, utf8Wf] at hc
    rw [run_cons (step_str_ascii k stk hc.1 hc.2.1.1 hc.2.1.2 hc.2.2)]; rfl
  | [a, b], hc =>
    simp [strCharOk, utf8Wf, isCont] at hc
    simp only [← BitVec.ofNat_eq_ofNat] at hc
    obtain ⟨⟨h1, h2⟩, h3, h4⟩ := hc
    rw [run_cons (s' := ⟨.utf8 k 1 0x80 0xBF, stk⟩) (by simp only [step_str_lead k stk h1, h2, if_true])]
    rw [run_cons (step_utf8 k 1 _ _ stk h3 h4)]; rfl
  | [a, b, c], hc =>
    simp [strCharOk, utf8Wf, isCont] at hc
    simp only [← BitVec.ofNat_eq_ofNat] at hc
    obtain ⟨hc, h5, h6⟩ := hc
    rcases hc with ((⟨⟨rfl, h3⟩, h4⟩ | ⟨⟨h1, h2⟩, h3, h4⟩) | ⟨⟨rfl, h3⟩, h4⟩) | ⟨⟨h1, h2⟩, h3, h4⟩
    · rw [run_cons (s' := ⟨.utf8 k 2 0xA0 0xBF, stk⟩) (by rw [step_str_lead k stk (by decide)]; rfl)]
      rw [run_cons (step_utf8 k 2 _ _ stk h3 h4)]
      rw [run_cons (step_utf8 k 1 _ _ stk h5 h6)]; rfl
    · rw [run_cons (step_str_3 k stk (Or.inl ⟨h1, h2⟩))]
      rw [run_cons (step_utf8 k 2 _ _ stk h3 h4)]
      rw [run_cons (step_utf8 k 1 _ _ stk h5 h6)]; rfl
    · rw [run_cons (s' := ⟨.utf8 k 2 0x80 0x9F, stk⟩) (by rw [step_str_lead k stk (by decide)]; rfl)]
      rw [run_cons (step_utf8 k 2 _ _ stk h3 h4)]
      rw [run_cons (step_utf8 k 1 _ _ stk h5 h6)]; rfl
    · rw [run_cons (step_str_3 k stk (Or.inr ⟨h1, h2⟩))]
      rw [run_cons (step_utf8 k 2 _ _ stk h3 h4)]
      rw [run_cons (step_utf8 k 1 _ _ stk h5 h6)]; rfl
  | [a, b, c, d], hc =>
    simp [strCharOk, utf8Wf, isCont] at hc
    simp only [← BitVec.ofNat_eq_ofNat] at hc
    obtain ⟨⟨hc, h5, h6⟩, h7, h8⟩ := hc
    rcases hc with (⟨⟨rfl, h3⟩, h4⟩ | ⟨⟨h1, h2⟩, h3, h4⟩) | ⟨⟨rfl, h3⟩, h4⟩
    · rw [run_cons (s' := ⟨.utf8 k 3 0x90 0xBF, stk⟩) (by rw [step_str_lead k stk (by decide)]; rfl)]
      rw [run_cons (step_utf8 k 3 _ _ stk h3 h4)]
      rw [run_cons (step_utf8 k 2 _ _ stk h5 h6)]
      rw [run_cons (step_utf8 k 1 _ _ stk h7 h8)]; rfl
    · rw [run_cons (step_str_4 k stk h1 h2)]
      rw [run_cons (step_utf8 k 3 _ _ stk h3 h4)]
      rw [run_cons (step_utf8 k 2 _ _ stk h5 h6)]
      rw [run_cons (step_utf8 k 1 _ _ stk h7 h8)]; rfl
    · rw [run_cons (s' := ⟨.utf8 k 3 0x80 0x8F, stk⟩) (by rw [step_str_lead k stk (by decide)]; rfl)]
      rw [run_cons (step_utf8 k 3 _ _ stk h3 h4)]
      rw [run_cons (step_utf8 k 2 _ _ stk h5 h6)]
      rw [run_cons (step_utf8 k 1 _ _ stk h7 h8)]; rfl
  | [], hc => simp [strCharOk, utf8Wf] at hc
  | _ :: _ :: _ :: _ :: _ :: _, hc => simp [strCharOk, utf8Wf] at hc

theorem step_str_bs {max : Nat} (k : Bool) (stk : List Bool) :
    step max ⟨.str k, stk⟩ 0x5C = some ⟨.esc k, stk⟩ := by
  simp [step]

theorem step_str_quote {max : Nat} (k : Bool) (stk : List Bool) :
    step max ⟨.str k, stk⟩ 0x22 = some (strEnd k stk) := by
  simp [step]

theorem step_esc_simple {max : Nat} (k : Bool) (stk : List Bool) {e : Byte}
    (he : isSimpleEsc e = true) : step max ⟨.esc k, stk⟩ e = some ⟨.str k, stk⟩ := by
  simp [step, he]

theorem step_esc_u {max : Nat} (k : Bool) (stk : List Bool) :
    step max ⟨.esc k, stk⟩ 0x75 = some ⟨.uni k 0 0, stk⟩ := by
  simp [step, isSimpleEsc]

theorem step_uni0 {max : Nat} (k : Bool) (stk : List Bool) {a : Byte} (ha : isHex a = true) :
    step max ⟨.uni k 0 0, stk⟩ a = some ⟨.uni k 1 (hexVal a), stk⟩ := by
  simp [step, ha]

theorem step_uni1 {max : Nat} (k : Bool) (stk : List Bool) (v : Nat) {a : Byte}
    (ha : isHex a = true) (hn : ¬ (0xDC ≤ v * 16 + hexVal a ∧ v * 16 + hexVal a ≤ 0xDF)) :
    step max ⟨.uni k 1 v, stk⟩ a = some ⟨.uni k 2 (v * 16 + hexVal a), stk⟩ := by
  simp only [step, ha, if_true, true_and, if_neg hn]
  simp

theorem step_uni2 {max : Nat} (k : Bool) (stk : List Bool) (v : Nat) {a : Byte}
    (ha : isHex a = true) :
    step max ⟨.uni k 2 v, stk⟩ a = some ⟨.uni k 3 (v * 16 + hexVal a), stk⟩ := by
  simp [step, ha]

theorem step_uni3 {max : Nat} (k : Bool) (stk : List Bool) (v : Nat) {a : Byte}
    (ha : isHex a = true) :
    step max ⟨.uni k 3 v, stk⟩ a =
      some (if isHighSurr (v * 16 + hexVal a) then ⟨.hiDone k, stk⟩ else ⟨.str k, stk⟩) := by
  simp [step, ha]
  split <;> rfl

theorem run_uni4 {max : Nat} (k : Bool) (stk : List Bool) {a b c d : Byte} (r : Bytes)
    (ha : isHex a = true) (hb : isHex b = true) (hc : isHex c = true) (hd : isHex d = true)
    (hn : ¬ (0xDC ≤ hexVal a * 16 + hexVal b ∧ hexVal a * 16 + hexVal b ≤ 0xDF)) :
    runFrom max ⟨.str k, stk⟩ (0x5C :: 0x75 :: a :: b :: c :: d :: r) =
      runFrom max (if isHighSurr (hex4 a b c d) then ⟨.hiDone k, stk⟩ else ⟨.str k, stk⟩) r := by
  rw [run_cons (step_str_bs k stk), run_cons (step_esc_u k stk), run_cons (step_uni0 k stk ha),
    run_cons (step_uni1 k stk _ hb hn), run_cons (step_uni2 k stk _ hc),
    run_cons (step_uni3 k stk _ hd)]
  rfl

theorem run_lo {max : Nat} (k : Bool) (stk : List Bool) {a b c d : Byte} (r : Bytes)
    (ha : isHex a = true) (hb : isHex b = true) (hc : isHex c = true) (hd : isHex d = true)
    (hl : isLowSurr (hex4 a b c d) = true) :
    runFrom max ⟨.hiDone k, stk⟩ (0x5C :: 0x75 :: a :: b :: c :: d :: r) =
      runFrom max ⟨.str k, stk⟩ r := by
  have la := hexVal_lt a
  have lb := hexVal_lt b
  have lc := hexVal_lt c
  have ld := hexVal_lt d
  rw [isLowSurr_iff] at hl
  unfold hex4 at hl
  have h13 : hexVal a = 13 := by omega
  have h12 : 0xC ≤ hexVal b := by omega
  have ha' := hexVal_13 h13
  rw [run_cons (s' := ⟨.hiBs k, stk⟩) (by simp [step]),
    run_cons (s' := ⟨.lo k 0, stk⟩) (by simp [step]),
    run_cons (s' := ⟨.lo k 1, stk⟩) (by simp only [step, if_true, if_pos ha']),
    run_cons (s' := ⟨.lo k 2, stk⟩) (by simp [step, hb, h12]),
    run_cons (s' := ⟨.lo k 3, stk⟩) (by simp [step, hc]),
    run_cons (s' := ⟨.str k, stk⟩) (by simp [step, hd])]

theorem run_strBody {max : Nat} (k : Bool) (stk : List Bool) {body : Bytes} (h : StrBody body) :
    runFrom max ⟨.str k, stk⟩ body = some ⟨.str k, stk⟩ := by
  induction h with
  | nil => rfl
  | char c r hc _ ih => exact run_comp (run_char k stk hc) ih
  | esc e r he _ ih =>
    rw [run_cons (step_str_bs k stk), run_cons (step_esc_simple k stk he)]; exact ih
  | uni a b c d r ha hb hc hd hh hl _ ih =>
    have la := hexVal_lt a
    have lb := hexVal_lt b
    have lc := hexVal_lt c
    have ld := hexVal_lt d
    have hn : ¬ (0xDC ≤ hexVal a * 16 + hexVal b ∧ hexVal a * 16 + hexVal b ≤ 0xDF) := by
      rw [isLowSurr_false] at hl
      unfold hex4 at hl
      omega
    rw [run_uni4 k stk r ha hb hc hd hn, hh]
    exact ih
  | pair a b c d a' b' c' d' r ha hb hc hd ha' hb' hc' hd' hh hl _ ih =>
    have la := hexVal_lt a
    have lb := hexVal_lt b
    have lc := hexVal_lt c
    have ld := hexVal_lt d
    have hn : ¬ (0xDC ≤ hexVal a * 16 + hexVal b ∧ hexVal a * 16 + hexVal b ≤ 0xDF) := by
      have hh' := hh
      rw [isHighSurr_iff] at hh'
      unfold hex4 at hh'
      omega
    rw [run_uni4 k stk _ ha hb hc hd hn, hh]
    simp only [if_true]
    rw [run_lo k stk r ha' hb' hc' hd' hl]
    exact ih

theorem run_stringLit {max : Nat} (k : Bool) (stk : List Bool) {s : Bytes} (h : StringLit s) :
    ∃ r, s = 0x22 :: r ∧ runFrom max ⟨.str k, stk⟩ r = some (strEnd k stk) := by
  obtain ⟨body, hb, rfl⟩ := h
  refine ⟨_, rfl, run_comp (run_strBody k stk hb) ?_⟩
  rw [run_cons (step_str_quote k stk)]; rfl

/-! ### starting a value -/

/-- run a value text from a position where a value is expected: `startValue` on the first byte. -/
def startRun (max : Nat) (stk : List Bool) : Bytes → Option PState
  | [] => none
  | c :: r => (startValue max stk c).bind (fun s => runFrom max s r)

/-- positions where a value may start -/
def VPos (l : Lex) : Prop := l = .top ∨ l = .arrStart ∨ l = .arrNext ∨ l = .objVal

theorem runFrom_cons_bind (max : Nat) (s : PState) (c : Byte) (r : Bytes) :
    runFrom max s (c :: r) = (step max s c).bind (fun s' => runFrom max s' r) := by
  simp only [runFrom]; cases step max s c <;> rfl

theorem run_vpos {max : Nat} {l : Lex} (hl : VPos l) (stk : List Bool) {c : Byte} (r : Bytes)
    (hc : ValueStart c) : runFrom max ⟨l, stk⟩ (c :: r) = startRun max stk (c :: r) := by
  obtain ⟨f1, f2, _, _⟩ := valueStart_facts hc
  have hs : step max ⟨l, stk⟩ c = startValue max stk c := by
    rcases hl with rfl | rfl | rfl | rfl <;>
      simp only [step, f1, Bool.false_eq_true, if_false, if_neg f2]
  rw [runFrom_cons_bind, hs]; rfl

theorem startRun_append {max : Nat} {stk : List Bool} {v : Bytes} {s : PState}
    (h : startRun max stk v = some s) (t : Bytes) :
    startRun max stk (v ++ t) = runFrom max s t := by
  cases v with
  | nil => simp [startRun] at h
  | cons c r =>
    simp only [startRun, List.cons_append] at h ⊢
    cases hs : startValue max stk c with
    | none => rw [hs] at h; simp at h
    | some s0 =>
      rw [hs] at h
      simp only [Option.bind_some] at h ⊢
      exact run_comp_eq h

/-! ### numbers -/

def EndNum (e : Lex) : Prop := e = .zero ∨ e = .int ∨ e = .frac ∨ e = .exp

theorem run_digits {max : Nat} {l : Lex} (hl : l = .int ∨ l = .frac ∨ l = .exp) (stk : List Bool)
    {ds : Bytes} (hds : Digits ds) : runFrom max ⟨l, stk⟩ ds = some ⟨l, stk⟩ := by
  induction ds with
  | nil => rfl
  | cons d ds ih =>
    have hd : isDigit d = true := hds d (by simp)
    rw [run_cons (s' := ⟨l, stk⟩) (by rcases hl with rfl | rfl | rfl <;> simp [step, hd])]
    exact ih (fun x hx => hds x (by simp [hx]))

theorem startValue_digit19 {max : Nat} (stk : List Bool) {d : Byte} (hd : isDigit19 d = true) :
    startValue max stk d = some ⟨.int, stk⟩ := by
  have hd' := hd
  simp [isDigit19] at hd'
  have n1 : d ≠ 0x5B := by bv_omega
  have n2 : d ≠ 0x7B := by bv_omega
  have n3 : d ≠ 0x22 := by bv_omega
  have n4 : d ≠ 0x2D := by bv_omega
  have n5 : d ≠ 0x30 := by bv_omega
  simp only [startValue, if_neg n1, if_neg n2, if_neg n3, if_neg n4, if_neg n5, hd, if_true]

theorem run_intPart {max : Nat} (stk : List Bool) {ip : Bytes} (hip : IntPart ip) :
    ∃ z, (z = Lex.zero ∨ z = Lex.int) ∧ startRun max stk ip = some ⟨z, stk⟩ ∧
      runFrom max ⟨.minus, stk⟩ ip = some ⟨z, stk⟩ := by
  rcases hip with rfl | ⟨d, ds, rfl, hd, hds⟩
  · exact ⟨.zero, Or.inl rfl, by simp [startRun, startValue, runFrom], by simp [runFrom, step]⟩
  · refine ⟨.int, Or.inr rfl, ?_, ?_⟩
    · simp only [startRun, startValue_digit19 stk hd, Option.bind_some]
      exact run_digits (Or.inl rfl) stk hds
    · have hd' := hd
      simp [isDigit19] at hd'
      have n5 : d ≠ 0x30 := by bv_omega
      rw [run_cons (s' := ⟨.int, stk⟩) (by simp only [step, if_neg n5, hd, if_true])]
      exact run_digits (Or.inl rfl) stk hds

theorem run_fracPart {max : Nat} (stk : List Bool) {z : Lex} (hz : z = Lex.zero ∨ z = Lex.int)
    {fp : Bytes} (hfp : FracPart fp) :
    ∃ e, (e = z ∨ e = Lex.frac) ∧ runFrom max ⟨z, stk⟩ fp = some ⟨e, stk⟩ := by
  rcases hfp with rfl | ⟨ds, rfl, hne, hds⟩
  · exact ⟨z, Or.inl rfl, rfl⟩
  · cases ds with
    | nil => exact absurd rfl hne
    | cons d ds =>
      have hd : isDigit d = true := hds d (by simp)
      refine ⟨.frac, Or.inr rfl, ?_⟩
      rw [run_cons (s' := ⟨.dot, stk⟩) (by rcases hz with rfl | rfl <;> simp [step, isDigit]),
        run_cons (s' := ⟨.frac, stk⟩) (by simp [step, hd])]
      exact run_digits (Or.inr (Or.inl rfl)) stk (fun x hx => hds x (by simp [hx]))

theorem run_expPart {max : Nat} (stk : List Bool) {z : Lex}
    (hz : z = Lex.zero ∨ z = Lex.int ∨ z = Lex.frac) {ep : Bytes} (hep : ExpPart ep) :
    ∃ e, (e = z ∨ e = Lex.exp) ∧ runFrom max ⟨z, stk⟩ ep = some ⟨e, stk⟩ := by
  rcases hep with rfl | ⟨e, sg, ds, rfl, he, hsg, hne, hds⟩
  · exact ⟨z, Or.inl rfl, rfl⟩
  · refine ⟨.exp, Or.inr rfl, ?_⟩
    rw [run_cons (s' := ⟨.e, stk⟩) (by
      rcases he with rfl | rfl <;> rcases hz with rfl | rfl | rfl <;> simp [step, isDigit, Pda.isE])]
    cases ds with
    | nil => exact absurd rfl hne
    | cons d ds =>
      have hd : isDigit d = true := hds d (by simp)
      have hd' := hd
      simp [isDigit] at hd'
      have n1 : ¬ (d = 0x2B ∨ d = 0x2D) := by
        intro h; rcases h with rfl | rfl <;> simp at hd'
      have hds' : Digits ds := fun x hx => hds x (by simp [hx])
      rcases hsg with rfl | rfl | rfl
      · rw [List.nil_append,
          run_cons (s' := ⟨.exp, stk⟩) (by simp only [step, if_neg n1, hd, if_true])]
        exact run_digits (Or.inr (Or.inr rfl)) stk hds'
      · rw [List.singleton_append, run_cons (s' := ⟨.esign, stk⟩) (by simp [step]),
          run_cons (s' := ⟨.exp, stk⟩) (by simp [step, hd])]
        exact run_digits (Or.inr (Or.inr rfl)) stk hds'
      · rw [List.singleton_append, run_cons (s' := ⟨.esign, stk⟩) (by simp [step]),
          run_cons (s' := ⟨.exp, stk⟩) (by simp [step, hd])]
        exact run_digits (Or.inr (Or.inr rfl)) stk hds'

theorem run_number {max : Nat} (stk : List Bool) {v : Bytes} (h : NumberLit v) :
    ∃ e, EndNum e ∧ startRun max stk v = some ⟨e, stk⟩ := by
  obtain ⟨sg, ip, fp, ep, rfl, hsg, hip, hfp, hep⟩ := h
  obtain ⟨z, hz, hz1, hz2⟩ := run_intPart (max := max) stk hip
  obtain ⟨e1, he1, hr1⟩ := run_fracPart (max := max) stk hz hfp
  have he1' : e1 = Lex.zero ∨ e1 = Lex.int ∨ e1 = Lex.frac := by
    rcases he1 with rfl | rfl
    · rcases hz with rfl | rfl <;> simp
    · simp
  obtain ⟨e2, he2, hr2⟩ := run_expPart (max := max) stk he1' hep
  have hend : EndNum e2 := by
    rcases he2 with rfl | rfl
    · rcases he1' with rfl | rfl | rfl <;> simp [EndNum]
    · simp [EndNum]
  refine ⟨e2, hend, ?_⟩
  rcases hsg with rfl | rfl
  · rw [List.nil_append, startRun_append hz1]
    exact run_comp hr1 hr2
  · have : startRun max stk ([0x2D] ++ (ip ++ (fp ++ ep))) =
        runFrom max ⟨.minus, stk⟩ (ip ++ (fp ++ ep)) := by
      simp [startRun, startValue]
    rw [this]
    exact run_comp hz2 (run_comp hr1 hr2)

/-! ### scalars -/

/-- positions after a complete value -/
def EndOk (e : Lex) : Prop := e = .after ∨ EndNum e

theorem run_scalar {max : Nat} (stk : List Bool) {v : Bytes} (h : Scalar v) :
    ∃ e, EndOk e ∧ startRun max stk v = some ⟨e, stk⟩ := by
  rcases h with rfl | rfl | rfl | h | h
  · exact ⟨.after, Or.inl rfl, by simp [startRun, startValue, kwNull, runFrom, step, isDigit19]⟩
  · exact ⟨.after, Or.inl rfl, by simp [startRun, startValue, kwTrue, runFrom, step, isDigit19]⟩
  · exact ⟨.after, Or.inl rfl, by simp [startRun, startValue, kwFalse, runFrom, step, isDigit19]⟩
  · obtain ⟨e, he, hr⟩ := run_number (max := max) stk h
    exact ⟨e, Or.inr he, hr⟩
  · obtain ⟨r, rfl, hr⟩ := run_stringLit (max := max) false stk h
    refine ⟨.after, Or.inl rfl, ?_⟩
    have : startRun max stk (0x22 :: r) = runFrom max ⟨.str false, stk⟩ r := by
      simp [startRun, startValue]
    rw [this, hr]; rfl

/-! ### after a value -/

theorem step_end_follow {max : Nat} {e : Lex} (he : EndOk e) (stk : List Bool) {c : Byte}
    (hc : isWs c = true ∨ c = 0x2C ∨ c = 0x5D ∨ c = 0x7D) :
    step max ⟨e, stk⟩ c = afterStep stk c := by
  rcases he with rfl | he
  · simp [step]
  · have h1 : isDigit c = false ∧ c ≠ 0x2E ∧ Pda.isE c = false := by
      rcases hc with h | rfl | rfl | rfl
      · simp [isWs] at h
        rcases h with ((rfl | rfl) | rfl) | rfl <;> decide
      · decide
      · decide
      · decide
    obtain ⟨d1, d2, d3⟩ := h1
    rcases he with rfl | rfl | rfl | rfl <;>
      simp only [step, d1, d3, if_neg d2, Bool.false_eq_true, if_false]

theorem run_end_ws {max : Nat} {e : Lex} (he : EndOk e) (stk : List Bool) {w : Bytes} (hw : Ws w) :
    ∃ e', EndOk e' ∧ runFrom max ⟨e, stk⟩ w = some ⟨e', stk⟩ := by
  cases w with
  | nil => exact ⟨e, he, rfl⟩
  | cons y w =>
    have hy : isWs y = true := hw y (by simp)
    refine ⟨.after, Or.inl rfl, ?_⟩
    rw [run_cons (s' := ⟨.after, stk⟩) (by
      rw [step_end_follow he stk (Or.inl hy)]; simp [afterStep, hy])]
    exact run_ws (Or.inr (Or.inl rfl)) stk (fun x hx => hw x (by simp [hx]))

theorem run_end_then {max : Nat} {e : Lex} (he : EndOk e) (stk : List Bool) {w : Bytes} (hw : Ws w)
    {c : Byte} (hc : c = 0x2C ∨ c = 0x5D ∨ c = 0x7D) (t : Bytes) :
    runFrom max ⟨e, stk⟩ (w ++ c :: t) = (afterStep stk c).bind (fun s => runFrom max s t) := by
  have hc' : isWs c = true ∨ c = 0x2C ∨ c = 0x5D ∨ c = 0x7D := Or.inr hc
  cases w with
  | nil =>
    rw [List.nil_append, runFrom_cons_bind, step_end_follow he stk hc']
  | cons y w =>
    have hy : isWs y = true := hw y (by simp)
    rw [List.cons_append, run_cons (s' := ⟨.after, stk⟩) (by
      rw [step_end_follow he stk (Or.inl hy)]; simp [afterStep, hy])]
    rw [run_comp_eq (run_ws (Or.inr (Or.inl rfl)) stk (fun x hx => hw x (by simp [hx])))]
    rw [runFrom_cons_bind, step_end_follow (Or.inl rfl) stk hc']

/-- whitespace, then a value, from a value position -/
theorem run_ws_value {max : Nat} {l : Lex} (hl : VPos l) (stk : List Bool) {w v : Bytes} {s : PState}
    (hw : Ws w) (hS : ∃ c r, v = c :: r ∧ ValueStart c) (hv : startRun max stk v = some s)
    (t : Bytes) : runFrom max ⟨l, stk⟩ (w ++ (v ++ t)) = runFrom max s t := by
  have hl' : WsTol l := by
    rcases hl with rfl | rfl | rfl | rfl <;> simp [WsTol]
  rw [run_comp_eq (run_ws hl' stk hw)]
  obtain ⟨c, r, rfl, hc⟩ := hS
  rw [List.cons_append, run_vpos hl stk _ hc, ← List.cons_append, startRun_append hv]

/-! ### arrays and objects -/

theorem run_elems {max : Nat} {P : Bytes → Prop} {stk : List Bool}
    (hP : ∀ v, P v → ∃ e, EndOk e ∧ startRun max (true :: stk) v = some ⟨e, true :: stk⟩)
    (hS : ∀ v, P v → ∃ c r, v = c :: r ∧ ValueStart c) {body : Bytes} (hb : Elems P body) :
    ∀ l, (l = Lex.arrStart ∨ l = Lex.arrNext) →
      runFrom max ⟨l, true :: stk⟩ (body ++ [0x5D]) = some ⟨.after, stk⟩ := by
  induction hb with
  | one w1 v w2 hw1 hv hw2 =>
    intro l hl
    have hl' : VPos l := by rcases hl with rfl | rfl <;> simp [VPos]
    obtain ⟨e, he, hr⟩ := hP v hv
    simp only [List.append_assoc]
    rw [run_ws_value hl' _ hw1 (hS v hv) hr, run_end_then he _ hw2 (Or.inr (Or.inl rfl))]
    simp [afterStep, isWs, runFrom]
  | cons w1 v w2 r hw1 hv hw2 _ ih =>
    intro l hl
    have hl' : VPos l := by rcases hl with rfl | rfl <;> simp [VPos]
    obtain ⟨e, he, hr⟩ := hP v hv
    simp only [List.append_assoc, List.cons_append]
    rw [run_ws_value hl' _ hw1 (hS v hv) hr, run_end_then he _ hw2 (Or.inl rfl)]
    have := ih .arrNext (Or.inr rfl)
    simpa [afterStep, isWs] using this

theorem run_members {max : Nat} {P : Bytes → Prop} {stk : List Bool}
    (hP : ∀ v, P v → ∃ e, EndOk e ∧ startRun max (false :: stk) v = some ⟨e, false :: stk⟩)
    (hS : ∀ v, P v → ∃ c r, v = c :: r ∧ ValueStart c) {body : Bytes} (hb : Members P body) :
    ∀ l, (l = Lex.objStart ∨ l = Lex.objKey) →
      runFrom max ⟨l, false :: stk⟩ (body ++ [0x7D]) = some ⟨.after, stk⟩ := by
  have key : ∀ l, (l = Lex.objStart ∨ l = Lex.objKey) → ∀ w1 k w2 w3 v w4 t, Ws w1 → StringLit k →
      Ws w2 → Ws w3 → P v → Ws w4 → ∀ c, (c = 0x2C ∨ c = 0x5D ∨ c = 0x7D) →
      runFrom max ⟨l, false :: stk⟩ (w1 ++ (k ++ (w2 ++ 0x3A :: (w3 ++ (v ++ (w4 ++ c :: t)))))) =
        (afterStep (false :: stk) c).bind (fun s => runFrom max s t) := by
    intro l hl w1 k w2 w3 v w4 t hw1 hk hw2 hw3 hv hw4 c hc
    have hl' : WsTol l := by rcases hl with rfl | rfl <;> simp [WsTol]
    obtain ⟨e, he, hr⟩ := hP v hv
    obtain ⟨kr, rfl, hkr⟩ := run_stringLit (max := max) true (false :: stk) hk
    rw [run_comp_eq (run_ws hl' _ hw1), List.cons_append,
      run_cons (s' := ⟨.str true, false :: stk⟩) (by
        rcases hl with rfl | rfl <;> simp [step, isWs]),
      run_comp_eq hkr]
    simp only [strEnd, if_true]
    rw [run_comp_eq (run_ws (by simp [WsTol]) _ hw2),
      run_cons (s' := ⟨.objVal, false :: stk⟩) (by simp [step, isWs]),
      run_ws_value (by simp [VPos]) _ hw3 (hS v hv) hr, run_end_then he _ hw4 hc]
  induction hb with
  | one w1 k w2 w3 v w4 hw1 hk hw2 hw3 hv hw4 =>
    intro l hl
    simp only [List.append_assoc, List.cons_append]
    rw [key l hl w1 k w2 w3 v w4 [] hw1 hk hw2 hw3 hv hw4 _ (Or.inr (Or.inr rfl))]
    simp [afterStep, isWs, runFrom]
  | cons w1 k w2 w3 v w4 r hw1 hk hw2 hw3 hv hw4 _ ih =>
    intro l hl
    simp only [List.append_assoc, List.cons_append]
    rw [key l hl w1 k w2 w3 v w4 _ hw1 hk hw2 hw3 hv hw4 _ (Or.inl rfl)]
    have := ih .objKey (Or.inr rfl)
    simpa [afterStep, isWs] using this

/-! ### values -/

theorem run_value (max : Nat) : ∀ (d : Nat) (v : Bytes), JValueAt d v → ∀ stk : List Bool,
    stk.length + d ≤ max → ∃ e, EndOk e ∧ startRun max stk v = some ⟨e, stk⟩ := by
  intro d
  induction d with
  | zero => intro v hv stk _; exact run_scalar stk hv
  | succ d ih =>
    intro v hv stk hlen
    have hlt : ¬ stk.length ≥ max := by omega
    rcases hv with hv | ⟨w, hw, rfl⟩ | ⟨body, hbody, rfl⟩ | ⟨w, hw, rfl⟩ | ⟨body, hbody, rfl⟩
    · exact run_scalar stk hv
    · refine ⟨.after, Or.inl rfl, ?_⟩
      simp only [startRun, startValue, if_true, if_neg hlt, Option.bind_some]
      rw [run_comp_eq (run_ws (by simp [WsTol]) _ hw)]
      simp [runFrom, step, isWs]
    · refine ⟨.after, Or.inl rfl, ?_⟩
      simp only [startRun, startValue, if_true, if_neg hlt, Option.bind_some]
      exact run_elems (fun v hv => ih v hv (true :: stk) (by simp; omega))
        (fun v hv => value_start hv) hbody _ (Or.inl rfl)
    · refine ⟨.after, Or.inl rfl, ?_⟩
      have n1 : (0x7B : Byte) ≠ 0x5B := by decide
      simp only [startRun, startValue, if_neg n1, if_true, if_neg hlt, Option.bind_some]
      rw [run_comp_eq (run_ws (by simp [WsTol]) _ hw)]
      simp [runFrom, step, isWs]
    · refine ⟨.after, Or.inl rfl, ?_⟩
      have n1 : (0x7B : Byte) ≠ 0x5B := by decide
      simp only [startRun, startValue, if_neg n1, if_true, if_neg hlt, Option.bind_some]
      exact run_members (fun v hv => ih v hv (false :: stk) (by simp; omega))
        (fun v hv => value_start hv) hbody _ (Or.inl rfl)

/-! ### whole texts -/

theorem accepting_end {e : Lex} (he : EndOk e) : accepting ⟨e, []⟩ = true := by
  rcases he with rfl | rfl | rfl | rfl | rfl <;> rfl

theorem run_valid (max : Nat) (b : Bytes) (h : Valid max b) :
    ∃ e, EndOk e ∧ runFrom max init b = some ⟨e, []⟩ := by
  obtain ⟨w1, v, w2, hw1, hv, hw2, rfl⟩ := h
  obtain ⟨e, he, hr⟩ := run_value max max v hv [] (by simp)
  obtain ⟨e', he', hr'⟩ := run_end_ws (max := max) he [] hw2
  refine ⟨e', he', ?_⟩
  show runFrom max ⟨.top, []⟩ _ = _
  rw [run_ws_value (Or.inl rfl) [] hw1 (value_start hv) hr]
  exact hr'

/-- Completeness of the automaton: every valid text is accepted. -/
theorem acceptB_complete (max : Nat) (b : Bytes) : Valid max b → acceptB max b = true := by
  intro h
  obtain ⟨e, he, hr⟩ := run_valid max b h
  simp only [acceptB, hr]
  exact accepting_end he

/-- Every viable prefix is survived by the automaton. -/
theorem viableB_of_viable (max : Nat) (p : Bytes) : Viable max p → viableB max p = true := by
  rintro ⟨s, hs⟩
  obtain ⟨e, he, hr⟩ := run_valid max _ hs
  rw [runFrom_append] at hr
  unfold viableB
  cases h : runFrom max init p with
  | none => rw [h] at hr; simp at hr
  | some s' => rfl

end SV.Json.Pda.Cpl
