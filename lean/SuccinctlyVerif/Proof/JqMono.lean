/-
Proof/JqMono — `evalStep` is monotone in its recursive-call argument for the flat order on
`Option` (`none` = no verdict below everything). The combinators of Model/Jq.lean get their
monotonicity lemmas here (tagged for Lean's `monotonicity` tactic, the one `partial_fixpoint` uses).
-/
import SuccinctlyVerif.Model.Jq
open Lean.Order
namespace SV.Jq
variable {N : Type} [NumOps N]

theorem flat_some {α} {a b : Option α} (h : a ⊑ b) (r : α) (ha : a = some r) : b = some r := by
  subst ha
  generalize hx : some r = x at h
  cases h with
  | bot => cases hx
  | refl => rfl

@[partial_fixpoint_monotone]
theorem monotone_bindOut {γ} [PartialOrder γ] (xs : List (Out N))
    (f : γ → JV N → PInfo N → Option (List (Out N))) (h : monotone f) :
    monotone (fun x => bindOut xs (f x)) := by
  induction xs with
  | nil => exact monotone_const _
  | cons a rest ih =>
    cases a with
    | val v p =>
      simp only [bindOut]
      apply monotone_bind
      · exact monotone_apply p _ (monotone_apply v f h)
      · apply monotone_of_monotone_apply; intro r
        split
        · exact monotone_const _
        · apply monotone_bind
          · exact ih
          · exact monotone_const _
    | err _ => exact monotone_const _
    | brk _ => exact monotone_const _
    | halt _ _ => exact monotone_const _

@[partial_fixpoint_monotone]
theorem monotone_foldOut {γ σ} [PartialOrder γ] (xs : List (Out N)) (st : σ)
    (f : γ → σ → JV N → PInfo N → Option (σ × List (Out N))) (h : monotone f) :
    monotone (fun x => foldOut xs st (f x)) := by
  induction xs generalizing st with
  | nil => exact monotone_const _
  | cons a rest ih =>
    cases a with
    | val v p =>
      simp only [foldOut]
      apply monotone_bind
      · exact monotone_apply p _ (monotone_apply v _ (monotone_apply st f h))
      · apply monotone_of_monotone_apply; intro r
        split
        · exact monotone_const _
        · apply monotone_bind
          · exact ih _
          · exact monotone_const _
    | err _ => exact monotone_const _
    | brk _ => exact monotone_const _
    | halt _ _ => exact monotone_const _

end SV.Jq

namespace SV.Jq
variable {N : Type} [NumOps N]

@[partial_fixpoint_monotone]
theorem monotone_objGo {γ} [PartialOrder γ] (ev : γ → Expr → Option (List (Out N)))
    (keyErr : JV N → Option (List (Out N))) (entries : List (Expr × Expr))
    (acc : List (String × JV N)) (p : PInfo N) (h : monotone ev) :
    monotone (fun x => objGo (ev x) keyErr entries acc p) := by
  induction entries generalizing acc with
  | nil => exact monotone_const _
  | cons e rest ih =>
    obtain ⟨ke, ve⟩ := e
    simp only [objGo]
    apply monotone_bind
    · exact monotone_apply ke ev h
    · apply monotone_of_monotone_apply; intro ks
      apply monotone_bindOut
      apply monotone_of_monotone_apply; intro kv
      apply monotone_of_monotone_apply; intro _
      apply monotone_bind
      · exact monotone_apply ve ev h
      · apply monotone_of_monotone_apply; intro vs
        apply monotone_bindOut
        apply monotone_of_monotone_apply; intro vv
        apply monotone_of_monotone_apply; intro _
        split
        · exact ih _
        · exact monotone_const _

@[partial_fixpoint_monotone]
theorem monotone_interpGo {γ} [PartialOrder γ] (ev : γ → Expr → Option (List (Out N)))
    (fmtV : JV N → Option String) (parts : List (String × Option Expr)) (suffix : String)
    (p : PInfo N) (h : monotone ev) :
    monotone (fun x => interpGo (ev x) fmtV parts suffix p) := by
  induction parts generalizing suffix with
  | nil => exact monotone_const _
  | cons e rest ih =>
    obtain ⟨s, oe⟩ := e
    cases oe with
    | none => simp only [interpGo]; exact ih _
    | some a =>
      simp only [interpGo]
      apply monotone_bind
      · exact monotone_apply a ev h
      · apply monotone_of_monotone_apply; intro vs
        apply monotone_bindOut
        apply monotone_of_monotone_apply; intro x
        apply monotone_of_monotone_apply; intro _
        split
        · exact ih _
        · exact monotone_const _

@[partial_fixpoint_monotone]
theorem monotone_bindParams {γ} [PartialOrder γ] (d : Dialect) (rc : γ → Rec N) (env : Env N) (v : JV N)
    (p : PInfo N) (body : Expr) (ps : List String) (as : List Expr) (fenv : Env N) (h : monotone rc) :
    monotone (fun x => evalStep.bindParams d (rc x) env v p body ps as fenv) := by
  induction ps generalizing as fenv with
  | nil =>
    unfold evalStep.bindParams
    exact monotone_apply p _ (monotone_apply v _ (monotone_apply fenv _ (monotone_apply body rc h)))
  | cons p1 prest ih =>
    cases as with
    | nil => unfold evalStep.bindParams; exact monotone_const _
    | cons a arest =>
      unfold evalStep.bindParams
      split
      · apply monotone_bind
        · exact monotone_apply _ _ (monotone_apply v _ (monotone_apply env _ (monotone_apply a rc h)))
        · apply monotone_of_monotone_apply; intro vs
          split
          · exact monotone_const _
          · apply monotone_bindOut
            apply monotone_of_monotone_apply; intro x
            apply monotone_of_monotone_apply; intro _
            exact ih _ _
      · exact ih _ _

theorem evalStep_mono (d : Dialect) (e : Expr) (env : Env N) (v : JV N) (p : PInfo N) :
    monotone (fun rc : Rec N => evalStep d rc e env v p) := by
  unfold evalStep
  split <;> repeat' monotonicity

end SV.Jq
