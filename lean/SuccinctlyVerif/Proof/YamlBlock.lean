/-
Proof/YamlBlock — reading back the block-mapping layout, given that key and value tokens read back.
-/
import SuccinctlyVerif.Model.YamlBlock
namespace SV.Yaml.Block
open SV.Yaml SV.Yaml.Emit

theorem emitLines_head (rev : Rev) (step n : Nat) :
    ∀ (t : Tree), t ≠ .nil → ∃ l ls, emitLines rev step n t = l :: ls ∧ l.indent = n
  | .nil, h => absurd rfl h
  | .cons key (some s) ch rest, _ => ⟨_, _, rfl, rfl⟩
  | .cons key none ch rest, _ => ⟨_, _, rfl, rfl⟩

/-- The first line after a block at indentation `n + step`, when what follows is a block at
indentation `n` and then lines indented less than `n`. -/
theorem head_lt (rev : Rev) (step n : Nat) (hstep : 0 < step) (rest : Tree) (tail : List Line)
    (htail : ∀ l, tail.head? = some l → l.indent < n) :
    ∀ l, (emitLines rev step n rest ++ tail).head? = some l → l.indent < n + step := by
  intro l hl
  by_cases hr : rest = .nil
  · subst hr
    simp only [emitLines, List.nil_append] at hl
    have := htail l hl
    omega
  · obtain ⟨l0, ls, he, hi⟩ := emitLines_head rev step n rest hr
    rw [he] at hl
    simp at hl
    subst hl
    omega

theorem readBlock_emit (resolve : List Char → Scalar) (rev : Rev) (step : Nat) (hstep : 0 < step)
    (hkey : ∀ top key, loadKeyText (.blockKey top) (yamlQuoteKey rev false key) = some key)
    (hval : ∀ s, loadScalar resolve .blockValue (yamlQuoteString rev false s) = some (.str s)) :
    ∀ (t : Tree) (n : Nat) (tail : List Line) (fuel : Nat),
      wf t = true →
      (∀ l, tail.head? = some l → l.indent < n) →
      (emitLines rev step n t).length + tail.length < fuel →
      readBlock resolve fuel n (emitLines rev step n t ++ tail) = some (t, tail)
  | .nil, n, tail, fuel, _, htail, hfuel => by
    cases fuel with
    | zero => omega
    | succ f =>
      cases tail with
      | nil => simp [emitLines, readBlock]
      | cons l r =>
        have := htail l rfl
        simp [emitLines, readBlock, this]
  | .cons key (some s) ch rest, n, tail, fuel, hw, htail, hfuel => by
    simp only [wf, Bool.and_eq_true, decide_eq_true_eq] at hw
    obtain ⟨hch, hwr⟩ := hw
    subst hch
    cases fuel with
    | zero => omega
    | succ f =>
      simp only [emitLines, List.length_cons] at hfuel
      have ih := readBlock_emit resolve rev step hstep hkey hval rest n tail f hwr htail (by omega)
      simp only [emitLines, List.cons_append, readBlock, Nat.lt_irrefl, if_false, hkey, hval, ih]
  | .cons key none ch rest, n, tail, fuel, hw, htail, hfuel => by
    simp only [wf, Bool.and_eq_true, decide_eq_true_eq, ne_eq] at hw
    obtain ⟨⟨hch, hwc⟩, hwr⟩ := hw
    have hch' : ch ≠ .nil := by simpa using hch
    cases fuel with
    | zero => omega
    | succ f =>
      simp only [emitLines, List.length_cons, List.length_append] at hfuel
      obtain ⟨l2, ls, he, hi⟩ := emitLines_head rev step (n + step) ch hch'
      have ih1 := readBlock_emit resolve rev step hstep hkey hval ch (n + step)
        (emitLines rev step n rest ++ tail) f hwc (head_lt rev step n hstep rest tail htail)
        (by simp only [List.length_append]; omega)
      have ih2 := readBlock_emit resolve rev step hstep hkey hval rest n tail f hwr htail (by omega)
      have hgt : l2.indent > n := by omega
      simp only [emitLines, List.cons_append, List.append_assoc, readBlock, Nat.lt_irrefl, if_false, hkey]
      rw [he] at ih1 ⊢
      simp only [List.cons_append] at ih1 ⊢
      simp only [hgt, if_true, hi]
      have hgt' : n + step > n := by omega
      simp only [hgt', if_true, ih1, hch', if_false, ih2]

end SV.Yaml.Block
