/-
Proof/YamlBlock — layer 2 of `render_load` (C14): block collections (nesting, indentation steps,
compact forms) with plain / single- / double-quoted scalars and keys and every null / bool / int
spelling; line-level view of the renderer and of the loader.
-/
import SuccinctlyVerif.Proof.YamlRoundTrip
namespace SV.YamlRef

/-! ## Plain scalars in general (any `plainSafe` string) -/

/-- What may follow a plain scalar: end of line, a value indicator, a comment, or (flow) a flow
indicator. -/
def Stop (flow : Bool) (rest : Str) : Prop :=
  rest = [] ∨ rest = [':'] ∨ (∃ r, rest = ':' :: ' ' :: r) ∨ (∃ r, rest = ' ' :: '#' :: r)
    ∨ (flow = true ∧ ∃ d r, rest = d :: r ∧ isFlowInd d = true)
    ∨ (flow = true ∧ ∃ d r, rest = ':' :: d :: r ∧ isFlowInd d = true)

theorem plainLen_stop (flow : Bool) (rest : Str) (h : Stop flow rest) : plainLen flow rest = 0 := by
  rcases h with rfl | rfl | ⟨r, rfl⟩ | ⟨r, rfl⟩ | ⟨rfl, d, r, rfl, hd⟩ | ⟨rfl, d, r, rfl, hd⟩
  · rfl
  · simp [plainLen]
  · simp [plainLen]
  · simp [plainLen]
  · exact plainLen_flowInd d r hd
  · simp [plainLen, hd]

/-- First character of what follows, as far as the junction with the scalar's last character is
concerned. -/
theorem stop_head (flow : Bool) (rest : Str) (h : Stop flow rest) :
    rest = [] ∨ ∃ d r, rest = d :: r ∧ (d = ':' ∨ d = ' ' ∨ (flow = true ∧ isFlowInd d = true)) := by
  rcases h with rfl | rfl | ⟨r, rfl⟩ | ⟨r, rfl⟩ | ⟨hf, d, r, rfl, hd⟩ | ⟨hf, d, r, rfl, hd⟩
  · exact Or.inl rfl
  · exact Or.inr ⟨_, _, rfl, Or.inl rfl⟩
  · exact Or.inr ⟨_, _, rfl, Or.inl rfl⟩
  · exact Or.inr ⟨_, _, rfl, Or.inr (Or.inl rfl)⟩
  · exact Or.inr ⟨_, _, rfl, Or.inr (Or.inr ⟨hf, hd⟩)⟩
  · exact Or.inr ⟨_, _, rfl, Or.inl rfl⟩

theorem plainLen_safe (flow : Bool) (s rest : Str) (hb : plainBodyOk flow s = true)
    (hl : s.getLast? ≠ some ' ') (hr : Stop flow rest) :
    plainLen flow (s ++ rest) = s.length := by
  induction s with
  | nil => simpa using plainLen_stop flow rest hr
  | cons c t ih =>
    cases t with
    | nil =>
      -- last character: c ≠ ':' , not a flow indicator (flow), c ≠ ' '
      have hc : c ≠ ':' ∧ (flow = true → isFlowInd c = false) := by
        simp only [plainBodyOk, Bool.and_eq_true, bne_iff_ne, ne_eq, Bool.not_eq_true', Bool.and_eq_false_imp] at hb
        refine ⟨hb.1, ?_⟩
        intro hf; subst hf
        have := hb.2; simpa using this
      have hsp : c ≠ ' ' := by intro e; subst e; exact hl rfl
      rcases stop_head flow rest hr with rfl | ⟨d, r, rfl, hd⟩
      · simp only [List.append_nil, plainLen]
        cases flow
        · simp [hc.1]
        · simp [hc.1, hc.2 rfl]
      · have h0 := plainLen_stop flow (d :: r) hr
        simp only [List.cons_append, List.nil_append, List.length_cons, List.length_nil]
        rw [plainLen]
        have hnf : (flow && isFlowInd c) = false := by
          cases flow
          · rfl
          · simp [hc.2 rfl]
        simp only [hnf, Bool.false_eq_true, if_false, h0]
        simp [hc.1, hsp]
    | cons d t' =>
      have hb' : plainBodyOk flow (d :: t') = true := by
        simp only [plainBodyOk, Bool.and_eq_true] at hb; exact hb.2
      have hl' : (d :: t').getLast? ≠ some ' ' := by
        simpa [List.getLast?_cons_cons] using hl
      have ih' := ih hb' hl'
      simp only [plainBodyOk, Bool.and_eq_true, Bool.not_eq_true', Bool.and_eq_false_imp, beq_iff_eq] at hb
      obtain ⟨⟨⟨h1, h2⟩, h3⟩, _⟩ := hb
      simp only [List.cons_append, List.length_cons] at ih' ⊢
      rw [plainLen]
      have hnf : (flow && isFlowInd c) = false := by
        cases flow
        · rfl
        · simpa using h3
      have hcd1 : (c == ':' && (d == ' ' || (flow && isFlowInd d))) = false := by
        by_cases hc : c = ':'
        · subst hc
          have hd : d ≠ ' ' := by
            intro e; subst e; simp at h1
          have hfd : (flow && isFlowInd d) = false := by
            -- d is followed in the body check by the same flow-indicator exclusion
            cases flow
            · rfl
            · cases t' with
              | nil => simp [plainBodyOk] at hb'; simpa using hb'.2
              | cons x t'' =>
                simp only [plainBodyOk, Bool.and_eq_true, Bool.not_eq_true', Bool.and_eq_false_imp] at hb'
                simpa using hb'.1.2
          simp [hd, hfd]
        · simp [hc]
      have hcd2 : (c == ' ' && d == '#') = false := by
        by_cases hc : c = ' '
        · subst hc
          have : d ≠ '#' := by intro e; subst e; simp at h2
          simp [this]
        · simp [hc]
      simp only [hnf, hcd1, hcd2, Bool.false_eq_true, if_false, ih']
      omega


theorem plainFirstOk_append (flow : Bool) (s rest : Str) (h : plainFirstOk flow s = true) :
    plainFirstOk flow (s ++ rest) = true := by
  cases s with
  | nil => simp [plainFirstOk] at h
  | cons c t =>
    cases t with
    | nil =>
      simp only [plainFirstOk] at h ⊢
      split at h
      · simp at h
      · rename_i hc
        simp only [List.cons_append, List.nil_append, plainFirstOk, hc, if_false]
        exact h
    | cons d t' => simpa [plainFirstOk] using h

theorem printable_ne_tab (c : Char) (h : isPrintable c = true) : c ≠ '\t' := by
  intro hc; subst hc; revert h; decide

/-- A plain-safe string followed by a stop is read back as a plain scalar. -/
theorem parsePlain_safe (flow : Bool) (s rest : Str) (hs : plainSafe flow s = true) (hr : Stop flow rest) :
    parsePlain flow (s ++ rest) = .ok (s, rest) := by
  simp only [plainSafe, Bool.and_eq_true, bne_iff_ne, ne_eq, Bool.not_eq_true'] at hs
  obtain ⟨⟨⟨⟨⟨hpr, hfirst⟩, hlast⟩, hbody⟩, _⟩, _⟩ := hs
  have hlen := plainLen_safe flow s rest hbody hlast hr
  unfold parsePlain
  simp only [plainFirstOk_append flow s rest hfirst, Bool.not_true, Bool.false_eq_true, if_false, hlen,
    List.take_left', List.drop_left']
  rw [trimRight_of_last s hlast]
  have hnotab : s.any (· == '\t') = false := by
    rw [List.any_eq_false]
    intro x hx
    have := List.all_eq_true.mp hpr x hx
    simpa using printable_ne_tab x this
  simp [hnotab]

/-! ## Single-quoted scalars -/

def sqBody (s : Str) : Str := s.flatMap fun c => if c == '\'' then ['\'', '\''] else [c]

theorem parseSQ_body (s rest : Str) (hs : s.all isPrintable = true) (hr : rest.head? ≠ some '\'') :
    parseSQ (sqBody s ++ '\'' :: rest) = .ok (s, rest) := by
  induction s with
  | nil =>
    simp only [sqBody, List.flatMap_nil, List.nil_append]
    rw [parseSQ.eq_def]
    split
    · rename_i heq; simp at heq
    · rename_i heq; exact absurd (List.cons.inj heq).1 (by decide)
    · rename_i r heq
      have := (List.cons.inj heq).2
      subst this; simp at hr
    · rename_i r _ heq
      have := (List.cons.inj heq).2
      subst this; rfl
    · rename_i hq heq
      exact absurd (List.cons.inj heq).1.symm hq
  | cons c t ih =>
    simp only [List.all_cons, Bool.and_eq_true] at hs
    have ih' := ih hs.2
    have hnl : c ≠ '\n' := printable_ne_nl c hs.1
    by_cases hq : c = '\''
    · subst hq
      simp only [sqBody, List.flatMap_cons, beq_self_eq_true, if_true, List.cons_append, List.nil_append] at ih' ⊢
      rw [parseSQ.eq_def]
      simp only [ih']
      rfl
    · have hq2 : (c == '\'') = false := by simp [hq]
      simp only [sqBody, List.flatMap_cons, hq2, Bool.false_eq_true, if_false, List.cons_append, List.nil_append] at ih' ⊢
      rw [parseSQ.eq_def]
      split
      · rename_i heq; simp at heq
      · rename_i heq; exact absurd (List.cons.inj heq).1 hnl
      · rename_i heq; exact absurd (List.cons.inj heq).1 hq
      · rename_i heq; exact absurd (List.cons.inj heq).1 hq
      · rename_i c' r _ _ _ heq
        obtain ⟨rfl, rfl⟩ := List.cons.inj heq
        rw [ih']; rfl

theorem sqText_eq (s : Str) : sqText s = '\'' :: (sqBody s ++ ['\'']) := rfl


/-! ## Every int spelling -/

theorem digitChar_simple (d : Nat) (h : d < 16) :
    simpleChar (Nat.digitChar d) = true ∧ isHexDigit (Nat.digitChar d) = true ∧ (d < 8 → isOctDigit (Nat.digitChar d) = true)
      ∧ (d < 10 → isDigit (Nat.digitChar d) = true) := by
  have : d = 0 ∨ d = 1 ∨ d = 2 ∨ d = 3 ∨ d = 4 ∨ d = 5 ∨ d = 6 ∨ d = 7 ∨ d = 8 ∨ d = 9 ∨ d = 10 ∨
      d = 11 ∨ d = 12 ∨ d = 13 ∨ d = 14 ∨ d = 15 := by omega
  rcases this with h | h | h | h | h | h | h | h | h | h | h | h | h | h | h | h <;> subst h <;> decide

/-- All digits of `toDigits b n` satisfy a predicate that holds for every digit character below `b`. -/
theorem toDigits_all (b : Nat) (hb : 1 < b) (P : Char → Bool) (hP : ∀ d, d < b → P (Nat.digitChar d) = true) (n : Nat) :
    (Nat.toDigits b n).all P = true := by
  induction n using Nat.strongRecOn with
  | _ n ih =>
    rw [Nat.toDigits_eq_if hb]
    split
    · rename_i h; simp [hP n h]
    · rename_i h
      have hlt : n / b < n := Nat.div_lt_self (by omega) hb
      simp only [List.all_append, ih _ hlt, List.all_cons, List.all_nil, Bool.and_true, Bool.true_and]
      exact hP _ (Nat.mod_lt n (by omega))

theorem toDigits16_simple (n : Nat) : (Nat.toDigits 16 n).all simpleChar = true :=
  toDigits_all 16 (by decide) simpleChar (fun d h => (digitChar_simple d h).1) n
theorem toDigits8_simple (n : Nat) : (Nat.toDigits 8 n).all simpleChar = true :=
  toDigits_all 8 (by decide) simpleChar (fun d h => (digitChar_simple d (by omega)).1) n
theorem toDigits16_hex (n : Nat) : (Nat.toDigits 16 n).all isHexDigit = true :=
  toDigits_all 16 (by decide) isHexDigit (fun d h => (digitChar_simple d h).2.1) n
theorem toDigits8_oct (n : Nat) : (Nat.toDigits 8 n).all isOctDigit = true :=
  toDigits_all 8 (by decide) isOctDigit (fun d h => (digitChar_simple d (by omega)).2.2.1 h) n

/-- Token facts of an int spelling: simple characters, the way it starts, how it resolves. -/
theorem intText_facts (i : Int) (v : Nat) :
    tokOk (intText i v) ∧ resolvePlain (intText i v) = .int i ∧ ("---".toList).isPrefixOf (intText i v) = false := by
  have hv : v % 5 = 0 ∨ v % 5 = 1 ∨ v % 5 = 2 ∨ v % 5 = 3 ∨ v % 5 = 4 := by omega
  by_cases hneg : i ≥ 0
  · -- non-negative
    have hi : ((i.toNat : Nat) : Int) = i := Int.toNat_of_nonneg hneg
    rcases hv with h | h | h | h | h
    · exact ⟨tokOk_intText i v h, resolvePlain_intText i v h, notMarker_int i v h⟩
    · -- +decimal
      have e : intText i v = '+' :: natDigits 10 i.toNat := by simp [intText, h, hneg]
      rw [e]
      refine ⟨⟨by simp only [List.all_cons, natDigits, toDigits10_all, Bool.and_true]; decide, by simp, by intro h'; simp at h'⟩, ?_,
        notMarker_of_head _ _ (by decide)⟩
      have hd := toDigits10_isDigit i.toNat
      unfold resolvePlain
      rw [if_neg (by simp), if_neg (by simp), if_neg (by simp)]
      simp only [natDigits, allDigits, hd, Nat.toDigits_ne_nil, List.isEmpty_iff, Bool.not_false, Bool.and_self, if_true,
        natOfDigits_toDigits 10 (by decide) (by decide)]
      simp [hi]
    · -- 0x hex
      have e : intText i v = '0' :: 'x' :: natDigits 16 i.toNat := by simp [intText, h, hneg]
      rw [e]
      refine ⟨⟨by simp only [List.all_cons, natDigits, toDigits16_simple, Bool.and_true]; decide, by simp, by intro h'; simp at h'⟩, ?_,
        notMarker_of_head _ _ (by decide)⟩
      unfold resolvePlain
      rw [if_neg (by simp), if_neg (by simp), if_neg (by simp)]
      simp only [natDigits, toDigits16_hex, Nat.toDigits_ne_nil, List.isEmpty_iff, Bool.not_false, Bool.and_self, if_true,
        natOfDigits_toDigits 16 (by decide) (by decide)]
      simp [hi]
    · -- 0o octal
      have e : intText i v = '0' :: 'o' :: natDigits 8 i.toNat := by simp [intText, h, hneg]
      rw [e]
      refine ⟨⟨by simp only [List.all_cons, natDigits, toDigits8_simple, Bool.and_true]; decide, by simp, by intro h'; simp at h'⟩, ?_,
        notMarker_of_head _ _ (by decide)⟩
      unfold resolvePlain
      rw [if_neg (by simp), if_neg (by simp), if_neg (by simp)]
      simp only [natDigits, toDigits8_oct, Nat.toDigits_ne_nil, List.isEmpty_iff, Bool.not_false, Bool.and_self, if_true,
        natOfDigits_toDigits 8 (by decide) (by decide)]
      simp [hi]
    · -- zero-padded decimal
      have e : intText i v = '0' :: '0' :: natDigits 10 i.toNat := by simp [intText, h, hneg]
      rw [e]
      have hd := toDigits10_isDigit i.toNat
      refine ⟨⟨by simp only [List.all_cons, natDigits, toDigits10_all, Bool.and_true]; decide, by simp, by intro h'; simp at h'⟩, ?_,
        notMarker_of_head _ _ (by decide)⟩
      have hall : ('0' :: '0' :: natDigits 10 i.toNat).all isDigit = true := by
        simp only [List.all_cons, natDigits, hd, Bool.and_true]; decide
      rw [resolvePlain_digits _ (by simp) hall]
      have : natOfDigits 10 ('0' :: '0' :: natDigits 10 i.toNat) = natOfDigits 10 (Nat.toDigits 10 i.toNat) := by
        simp [natOfDigits, natDigits, digitVal]
      rw [this, natOfDigits_toDigits 10 (by decide) (by decide), hi]
  · -- negative: `-` decimal, or `-0` decimal for variant 4
    have hlt : i < 0 := by omega
    have hab : (-(i.natAbs : Int)) = i := by omega
    by_cases h4 : v % 5 = 4
    · have e : intText i v = '-' :: '0' :: natDigits 10 i.natAbs := by simp [intText, h4, hneg]
      rw [e]
      have hd := toDigits10_isDigit i.natAbs
      have hall : ('0' :: natDigits 10 i.natAbs).all isDigit = true := by
        simp only [List.all_cons, natDigits, hd, Bool.and_true]; decide
      refine ⟨⟨by simp only [List.all_cons, natDigits, toDigits10_all, Bool.and_true]; decide, by simp, by intro _; simp⟩, ?_, ?_⟩
      · rw [resolvePlain_neg _ (by simp) hall]
        have : natOfDigits 10 ('0' :: natDigits 10 i.natAbs) = natOfDigits 10 (Nat.toDigits 10 i.natAbs) := by
          simp [natOfDigits, natDigits, digitVal]
        rw [this, natOfDigits_toDigits 10 (by decide) (by decide), hab]
      · have e3 : "---".toList = ['-', '-', '-'] := by decide
        rw [e3]; simp [List.isPrefixOf]
    · have e : intText i v = '-' :: natDigits 10 i.natAbs := by
        rcases hv with h | h | h | h | h <;> simp [intText, h, hneg] <;> omega
      rw [e]
      have hd := toDigits10_isDigit i.natAbs
      refine ⟨⟨by simp only [List.all_cons, natDigits, toDigits10_all, Bool.and_true]; decide, by simp, ?_⟩, ?_, ?_⟩
      · intro _
        have := Nat.length_toDigits_pos (b := 10) (n := i.natAbs)
        simp [natDigits]; omega
      · rw [natDigits, resolvePlain_neg _ Nat.toDigits_ne_nil hd, natOfDigits_toDigits 10 (by decide) (by decide), hab]
      · cases hdg : natDigits 10 i.natAbs with
        | nil => exact absurd hdg (by simp [natDigits, Nat.toDigits_ne_nil])
        | cons c t =>
          have hm : c ∈ Nat.toDigits 10 i.natAbs := by
            have : natDigits 10 i.natAbs = Nat.toDigits 10 i.natAbs := rfl
            rw [← this, hdg]; simp
          have := Nat.isDigit_of_mem_toDigits (b := 10) (by decide) (by decide) hm
          have h2 : ('-' == c) = false := by
            have : c ≠ '-' := by intro hc; subst hc; exact absurd this (by decide)
            simp [Ne.symm this]
          have e3 : "---".toList = ['-', '-', '-'] := by decide
          rw [e3]; simp only [List.isPrefixOf, beq_self_eq_true, Bool.true_and, h2, Bool.false_and]


/-! ## Heads of plain scalars -/

/-- First character of a plain scalar: not a space, and either `-`/`?`/`:` or no indicator. -/
def plainHead (c : Char) : Prop := c ≠ ' ' ∧ (c = '-' ∨ c = '?' ∨ c = ':' ∨ isIndicator c = false)

theorem plainFirst_head (flow : Bool) (s : Str) (h : plainFirstOk flow s = true) :
    ∃ c t, s = c :: t ∧ plainHead c := by
  cases s with
  | nil => simp [plainFirstOk] at h
  | cons c t =>
    refine ⟨c, t, rfl, ?_⟩
    simp only [plainFirstOk] at h
    split at h
    · rename_i hc
      have hc' : c = '-' ∨ c = '?' ∨ c = ':' := by
        have : (c = '-' ∨ c = '?') ∨ c = ':' := by simpa using hc
        rcases this with (h' | h') | h'
        · exact Or.inl h'
        · exact Or.inr (Or.inl h')
        · exact Or.inr (Or.inr h')
      refine ⟨?_, ?_⟩
      · rintro rfl; rcases hc' with h' | h' | h' <;> cases h'
      · rcases hc' with h' | h' | h'
        · exact Or.inl h'
        · exact Or.inr (Or.inl h')
        · exact Or.inr (Or.inr (Or.inl h'))
    · simp only [Bool.and_eq_true, Bool.not_eq_true', bne_iff_ne, ne_eq] at h
      exact ⟨h.2, Or.inr (Or.inr (Or.inr h.1))⟩

theorem plainHead_ne (c : Char) (h : plainHead c) (d : Char)
    (hd : isIndicator d = true ∧ d ≠ '-' ∧ d ≠ '?' ∧ d ≠ ':') : c ≠ d := by
  rintro rfl
  rcases h.2 with h' | h' | h' | h'
  · exact hd.2.1 h'
  · exact hd.2.2.1 h'
  · exact hd.2.2.2 h'
  · rw [hd.1] at h'; cases h'

theorem stopF_stop (rest : Str) (h : rest = [] ∨ (∃ d r, rest = d :: r ∧ isFlowInd d = true) ∨ (∃ r, rest = ':' :: ' ' :: r)) :
    Stop true rest := by
  rcases h with h | ⟨d, r, h, hd⟩ | ⟨r, h⟩
  · exact Or.inl h
  · exact Or.inr (Or.inr (Or.inr (Or.inr (Or.inl ⟨rfl, d, r, h, hd⟩))))
  · exact Or.inr (Or.inr (Or.inl ⟨r, h⟩))

/-- What may follow a flow node: end, a flow indicator, or `: ` (after a key). -/
def StopF (rest : Str) : Prop :=
  rest = [] ∨ (∃ d r, rest = d :: r ∧ isFlowInd d = true) ∨ (∃ r, rest = ':' :: ' ' :: r)

theorem delim_stopF (rest : Str) (h : Delim rest) : StopF rest := by
  rcases h with h | ⟨d, r, h, hd⟩
  · exact Or.inl h
  · exact Or.inr (Or.inl ⟨d, r, h, hd⟩)

theorem stopF_head_ne_quote (rest : Str) (h : StopF rest) : rest.head? ≠ some '\'' := by
  rcases h with rfl | ⟨d, r, rfl, hd⟩ | ⟨r, rfl⟩
  · simp
  · intro e; simp at e; subst e; revert hd; decide
  · simp

theorem parseFlow_plain (f k : Nat) (s rest : Str) (hs : plainSafe true s = true) (hr : StopF rest) :
    parseFlow (f + 1) (spaces k ++ s ++ rest) = .ok (.scalar true s, rest) := by
  have hp := parsePlain_safe true s rest hs (stopF_stop rest hr)
  have hfirst : plainFirstOk true s = true := by
    simp only [plainSafe, Bool.and_eq_true] at hs; exact hs.1.1.1.1.2
  obtain ⟨c, t, rfl, hc⟩ := plainFirst_head true _ hfirst
  rw [parseFlow]
  simp only [List.append_assoc, List.cons_append, dropSpaces_spaces k c _ hc.1]
  simp only [List.cons_append] at hp
  split
  · rename_i heq; simp at heq
  · rename_i heq; exact absurd (List.cons.inj heq).1 (plainHead_ne c hc '[' (by decide))
  · rename_i heq; exact absurd (List.cons.inj heq).1 (plainHead_ne c hc '{' (by decide))
  · rename_i heq; exact absurd (List.cons.inj heq).1 (plainHead_ne c hc '"' (by decide))
  · rename_i heq; exact absurd (List.cons.inj heq).1 (plainHead_ne c hc '\'' (by decide))
  · rename_i heq; exact absurd (List.cons.inj heq).1 (plainHead_ne c hc '*' (by decide))
  · rename_i heq; exact absurd (List.cons.inj heq).1 (plainHead_ne c hc '&' (by decide))
  · rw [hp]; rfl

theorem parseFlow_sq (f k : Nat) (s rest : Str) (hs : s.all isPrintable = true) (hr : StopF rest) :
    parseFlow (f + 1) (spaces k ++ sqText s ++ rest) = .ok (.scalar false s, rest) := by
  rw [parseFlow]
  simp only [sqText_eq, List.append_assoc, List.cons_append, dropSpaces_spaces k '\'' _ (by decide)]
  have := parseSQ_body s rest hs (stopF_head_ne_quote rest hr)
  simp only [List.nil_append, List.cons_append] at this ⊢
  rw [this]; rfl


/-! ## Layer-2 scalars and flow collections -/

/-- Scalar presentations of layer 2 (no block scalars, anchors, aliases). -/
def PNode.sc2 (flow : Bool) : PNode → Bool
  | .null v => !(flow && v % 5 == 4)
  | .bool _ _ => true
  | .int _ _ => true
  | .str s .plain => plainSafe flow s && resolvePlain s == .str
  | .str s .single => s.all isPrintable
  | .str _ (.double _ _) => true
  | _ => false

mutual
/-- Flow nodes of layer 2. -/
def PNode.fl2 : PNode → Bool
  | .seq true _ _ items => items.fl2
  | .map true _ _ es => es.fl2
  | .seq false _ _ _ => false
  | .map false _ _ _ => false
  | x => x.sc2 true
def PItems.fl2 : PItems → Bool
  | .nil => true
  | .cons _ n r => n.fl2 && r.fl2
def PEntries.fl2 : PEntries → Bool
  | .nil => true
  | .cons _ k ks n r => keyOk true k ks && n.fl2 && r.fl2
end

/-- Everything the flow parser and the resolver need to know about a scalar's text. -/
structure ScalarFacts (flow : Bool) (X : Str) (nd : Node) (t : Tree) : Prop where
  ok : X.all okc = true
  res : ∀ env, nd.resolve env = .ok (t, env)
  head : X = [] ∨ goodHead X

theorem goodHead_plain (flow : Bool) (s : Str) (h : plainFirstOk flow s = true) : goodHead s := by
  obtain ⟨c, t, rfl, hc⟩ := plainFirst_head flow s h
  exact ⟨c, t, rfl, hc.1, plainHead_ne c hc ']' (by decide), plainHead_ne c hc '}' (by decide),
    plainHead_ne c hc ',' (by decide)⟩

theorem okc_of_printable (s : Str) (h : s.all isPrintable = true) : s.all okc = true := by
  rw [List.all_eq_true] at h ⊢
  intro c hc; exact okc_printable c (h c hc)

theorem okc_sqText (s : Str) (h : s.all isPrintable = true) : (sqText s).all okc = true := by
  simp only [sqText, List.all_cons, List.all_append, List.all_nil, Bool.and_true]
  refine Bool.and_eq_true_iff.mpr ⟨by decide, Bool.and_eq_true_iff.mpr ⟨?_, by decide⟩⟩
  rw [List.all_eq_true]
  intro x hx
  obtain ⟨c, hc, hxc⟩ := List.mem_flatMap.mp hx
  have hp := List.all_eq_true.mp h c hc
  by_cases hq : c = '\''
  · subst hq
    have : x = '\'' := by simpa using hxc
    subst this; decide
  · have hq2 : (c == '\'') = false := by simp [hq]
    have : x = c := by simpa [hq2] using hxc
    subst this; exact okc_printable x hp

/-- The text of a layer-2 scalar in flow position (`x.flow`). -/
theorem scalarFacts (flow : Bool) (x : PNode) (h : x.sc2 flow = true)
    (hx : ∀ fl st c items, x ≠ .seq fl st c items) (hm : ∀ fl st c es, x ≠ .map fl st c es) :
    ScalarFacts flow x.flow x.node x.tree := by
  cases x with
  | null v =>
    by_cases h4 : v % 5 = 4
    · refine ⟨by simp [PNode.flow, nullText, h4], ?_, Or.inl (by simp [PNode.flow, nullText, h4])⟩
      intro env; simp [PNode.node, Node.resolve, resolveScalar, resolvePlain_nullText, PNode.tree]; rfl
    · have ht := tokOk_nullText v h4
      refine ⟨okc_tok _ ht, ?_, Or.inr (goodHead_tok _ ht)⟩
      intro env; simp [PNode.node, Node.resolve, resolveScalar, resolvePlain_nullText, PNode.tree]; rfl
  | bool b v =>
    have ht := tokOk_boolText b v
    refine ⟨okc_tok _ ht, ?_, Or.inr (goodHead_tok _ ht)⟩
    intro env; simp [PNode.node, Node.resolve, resolveScalar, resolvePlain_boolText, PNode.tree]; rfl
  | int i v =>
    obtain ⟨ht, hres, _⟩ := intText_facts i v
    refine ⟨okc_tok _ ht, ?_, Or.inr (goodHead_tok _ ht)⟩
    intro env; simp [PNode.node, Node.resolve, resolveScalar, hres, PNode.tree]; rfl
  | str s st =>
    cases st with
    | plain =>
      simp only [PNode.sc2, Bool.and_eq_true, beq_iff_eq] at h
      have hs := h.1
      simp only [plainSafe, Bool.and_eq_true] at hs
      refine ⟨okc_of_printable s hs.1.1.1.1.1, ?_, Or.inr (goodHead_plain flow s hs.1.1.1.1.2)⟩
      intro env; simp [PNode.node, Node.resolve, resolveScalar, h.2, PNode.tree]; rfl
    | single =>
      simp only [PNode.sc2] at h
      refine ⟨okc_sqText s h, ?_, Or.inr ⟨'\'', _, rfl, by decide, by decide, by decide, by decide⟩⟩
      intro env; simp [PNode.node, Node.resolve, resolveScalar, PNode.tree]; rfl
    | double sh eu =>
      refine ⟨okc_dqText sh eu s, ?_, Or.inr ⟨'"', _, rfl, by decide, by decide, by decide, by decide⟩⟩
      intro env; simp [PNode.node, Node.resolve, resolveScalar, PNode.tree]; rfl
    | literal ch ind ex => simp [PNode.sc2] at h
    | folded ch ind ex fo => simp [PNode.sc2] at h
  | seq fl st c items => exact absurd rfl (hx fl st c items)
  | map fl st c es => exact absurd rfl (hm fl st c es)
  | anchored a n => simp [PNode.sc2] at h
  | alias a t => simp [PNode.sc2] at h

/-- A layer-2 scalar in flow context is read back by `parseFlow`. -/
theorem parseFlow_scalar (x : PNode) (h : x.sc2 true = true)
    (hx : ∀ fl st c items, x ≠ .seq fl st c items) (hm : ∀ fl st c es, x ≠ .map fl st c es)
    (f k : Nat) (rest : Str) (hr : Delim rest) :
    parseFlow (f + 1) (spaces k ++ x.flow ++ rest) = .ok (x.node, rest) := by
  cases x with
  | null v =>
    have h4 : v % 5 ≠ 4 := by simpa [PNode.sc2] using h
    exact parseFlow_tok f k _ rest (tokOk_nullText v h4) hr
  | bool b v => exact parseFlow_tok f k _ rest (tokOk_boolText b v) hr
  | int i v => exact parseFlow_tok f k _ rest (intText_facts i v).1 hr
  | str s st =>
    cases st with
    | plain =>
      simp only [PNode.sc2, Bool.and_eq_true] at h
      exact parseFlow_plain f k s rest h.1 (delim_stopF rest hr)
    | single =>
      simp only [PNode.sc2] at h
      exact parseFlow_sq f k s rest h (delim_stopF rest hr)
    | double sh eu => exact parseFlow_dq f k sh eu s rest
    | literal ch ind ex => simp [PNode.sc2] at h
    | folded ch ind ex fo => simp [PNode.sc2] at h
  | seq fl st c items => exact absurd rfl (hx fl st c items)
  | map fl st c es => exact absurd rfl (hm fl st c es)
  | anchored a n => simp [PNode.sc2] at h
  | alias a t => simp [PNode.sc2] at h

/-- Keys (any style) in flow or block context: text facts. -/
theorem keyFacts (flow : Bool) (k : Str) (ks : KStyle) (h : keyOk flow k ks = true) :
    goodHead (keyText k ks) ∧ (keyText k ks).all okc = true ∧ resolveKey (keyNode k ks) = .ok k := by
  cases ks with
  | plain =>
    simp only [keyOk, Bool.and_eq_true, beq_iff_eq] at h
    have hs := h.1.1
    simp only [plainSafe, Bool.and_eq_true] at hs
    refine ⟨goodHead_plain flow k hs.1.1.1.1.2, okc_of_printable k hs.1.1.1.1.1, ?_⟩
    simp [keyNode, resolveKey, h.1.2]
  | single =>
    simp only [keyOk, Bool.and_eq_true] at h
    exact ⟨⟨'\'', _, rfl, by decide, by decide, by decide, by decide⟩, okc_sqText k h.1, by simp [keyNode, resolveKey]⟩
  | double sh eu =>
    exact ⟨⟨'"', _, rfl, by decide, by decide, by decide, by decide⟩, okc_dqText sh eu k, by simp [keyNode, resolveKey]⟩

/-- A key in flow context followed by `: `. -/
theorem parseFlow_key (k : Str) (ks : KStyle) (h : keyOk true k ks = true) (f j : Nat) (T : Str) :
    parseFlow (f + 1) (spaces j ++ keyText k ks ++ ':' :: ' ' :: T) = .ok (keyNode k ks, ':' :: ' ' :: T) := by
  have hr : StopF (':' :: ' ' :: T) := Or.inr (Or.inr ⟨T, rfl⟩)
  cases ks with
  | plain =>
    simp only [keyOk, Bool.and_eq_true] at h
    exact parseFlow_plain f j k _ h.1.1 hr
  | single =>
    simp only [keyOk, Bool.and_eq_true] at h
    exact parseFlow_sq f j k _ h.1 hr
  | double sh eu => exact parseFlow_dq f j sh eu k _


/-! ## Flow collections of layer 2 -/

/-- One entry of a flow mapping (key of any style). -/
theorem entryStep2 (f j g : Nat) (KT xt R : Str) (kn xn : Node) (acc : List (Node × Node))
    (hkh : goodHead KT) (hg : goodHead xt)
    (hkey : parseFlow f (KT ++ ':' :: (spaces (g + 1) ++ (xt ++ R))) = .ok (kn, ':' :: (spaces (g + 1) ++ (xt ++ R))))
    (hx : parseFlow f (spaces (g + 1) ++ xt ++ R) = .ok (xn, R)) :
    parseFlowMap (f + 1) (spaces j ++ KT ++ (':' :: spaces (g + 1)) ++ xt ++ R) acc
      = parseFlowMapTail f R ((kn, xn) :: acc) := by
  obtain ⟨k0, kt, rfl, q1, q2, q3, q4⟩ := hkh
  obtain ⟨c0, t0, rfl, g1, g2, g3, g4⟩ := hg
  rw [parseFlowMap]
  simp only [List.append_assoc, List.cons_append] at hx hkey ⊢
  rw [dropSpaces_spaces j k0 _ q1]
  split
  · rename_i heq; exact absurd (List.cons.inj heq).1 q3
  · rw [hkey]
    simp only [dropSpaces, List.dropWhile_cons, show ((':' : Char) == ' ') = false by decide, Bool.false_eq_true, if_false]
    have hd : List.dropWhile (fun x => x == ' ') (spaces (g + 1) ++ c0 :: (t0 ++ R)) = c0 :: (t0 ++ R) := by
      have := dropSpaces_spaces (g + 1) c0 (t0 ++ R) g1
      simpa [dropSpaces] using this
    rw [hd]
    split
    · rename_i heq; exact absurd (List.cons.inj heq).1 g4
    · rename_i heq; exact absurd (List.cons.inj heq).1 g3
    · rw [hx]

theorem goodHead_flow2 (n : PNode) (h : n.fl2 = true) : goodHead n.flow := by
  cases n with
  | seq fl st c items => exact ⟨'[', _, rfl, by decide, by decide, by decide, by decide⟩
  | map fl st c es => exact ⟨'{', _, rfl, by decide, by decide, by decide, by decide⟩
  | null v =>
    have hs : (PNode.null v).sc2 true = true := by simpa [PNode.fl2] using h
    have h4 : v % 5 ≠ 4 := by simpa [PNode.sc2] using hs
    exact goodHead_tok _ (tokOk_nullText v h4)
  | bool b v => exact goodHead_tok _ (tokOk_boolText b v)
  | int i v => exact goodHead_tok _ (intText_facts i v).1
  | str s st =>
    have hs : (PNode.str s st).sc2 true = true := by simpa [PNode.fl2] using h
    rcases (scalarFacts true _ hs (by intros; simp) (by intros; simp)).head with h0 | h0
    · exfalso
      cases st <;> simp [PNode.flow, strFlowText, dqText, sqText, PNode.sc2] at h0 hs
      subst h0; simp [plainSafe, plainFirstOk] at hs
    · exact h0
  | anchored a n => simp [PNode.fl2, PNode.sc2] at h
  | alias a t => simp [PNode.fl2, PNode.sc2] at h

mutual
theorem flowNode2 : (n : PNode) → n.fl2 = true → ∀ (f : Nat) (rest : Str) (k : Nat), n.need ≤ f → Delim rest →
    parseFlow f (spaces k ++ n.flow ++ rest) = .ok (n.node, rest)
  | .null v, h, f, rest, k, hf, hd => by
    obtain ⟨f', rfl⟩ : ∃ f', f = f' + 1 := ⟨f - 1, by simp [PNode.need] at hf; omega⟩
    exact parseFlow_scalar _ (by simpa [PNode.fl2] using h) (by intros; simp) (by intros; simp) f' k rest hd
  | .bool b v, h, f, rest, k, hf, hd => by
    obtain ⟨f', rfl⟩ : ∃ f', f = f' + 1 := ⟨f - 1, by simp [PNode.need] at hf; omega⟩
    exact parseFlow_scalar _ (by simpa [PNode.fl2] using h) (by intros; simp) (by intros; simp) f' k rest hd
  | .int i v, h, f, rest, k, hf, hd => by
    obtain ⟨f', rfl⟩ : ∃ f', f = f' + 1 := ⟨f - 1, by simp [PNode.need] at hf; omega⟩
    exact parseFlow_scalar _ (by simpa [PNode.fl2] using h) (by intros; simp) (by intros; simp) f' k rest hd
  | .str s st, h, f, rest, k, hf, hd => by
    obtain ⟨f', rfl⟩ : ∃ f', f = f' + 1 := ⟨f - 1, by simp [PNode.need] at hf; omega⟩
    exact parseFlow_scalar _ (by simpa [PNode.fl2] using h) (by intros; simp) (by intros; simp) f' k rest hd
  | .seq fl st c items, h, f, rest, k, hf, hd => by
    have hfl : fl = true := by cases fl <;> simp [PNode.fl2] at h ⊢
    subst hfl
    have hi : items.fl2 = true := by simpa [PNode.fl2] using h
    obtain ⟨f', rfl⟩ : ∃ f', f = f' + 2 := ⟨f - 2, by simp [PNode.need] at hf; omega⟩
    have hf' : items.need ≤ f' := by simp [PNode.need] at hf; omega
    rw [parseFlow]
    simp only [PNode.flow, List.append_assoc, List.cons_append, dropSpaces_spaces k '[' _ (by decide), PNode.node]
    cases items with
    | nil =>
      rw [parseFlowSeq]
      simp [PItems.flow, dropSpaces, PItems.nodes]
    | cons m x r =>
      have hx : x.fl2 = true := by simp [PItems.fl2] at hi; exact hi.1
      have hr : r.fl2 = true := by simp [PItems.fl2] at hi; exact hi.2
      have hneed : x.need + r.need + 2 ≤ f' := by simpa [PItems.need] using hf'
      have e2 := flowNode2 x hx f' (r.flow false ++ ']' :: rest) 0 (by omega) (delim_items r rest)
      simp only [spaces, List.replicate_zero, List.nil_append, List.append_assoc] at e2
      have st := itemStep f' m.gap x.flow (r.flow false ++ ']' :: rest) x.node [] (goodHead_flow2 x hx) e2
      simp only [PItems.flow, if_true, List.nil_append, List.append_assoc] at st ⊢
      rw [st, flowItemsTail2 r hr f' rest [x.node] (by omega)]
      simp [PItems.nodes]
  | .map fl st c es, h, f, rest, k, hf, hd => by
    have hfl : fl = true := by cases fl <;> simp [PNode.fl2] at h ⊢
    subst hfl
    have hi : es.fl2 = true := by simpa [PNode.fl2] using h
    obtain ⟨f', rfl⟩ : ∃ f', f = f' + 2 := ⟨f - 2, by simp [PNode.need] at hf; omega⟩
    have hf' : es.need ≤ f' := by simp [PNode.need] at hf; omega
    rw [parseFlow]
    simp only [PNode.flow, List.append_assoc, List.cons_append, dropSpaces_spaces k '{' _ (by decide), PNode.node]
    cases es with
    | nil =>
      rw [parseFlowMap]
      simp [PEntries.flow, dropSpaces, PEntries.nodes]
    | cons m key ks x r =>
      have hk : keyOk true key ks = true := by simp [PEntries.fl2] at hi; exact hi.1.1
      have hx : x.fl2 = true := by simp [PEntries.fl2] at hi; exact hi.1.2
      have hr : r.fl2 = true := by simp [PEntries.fl2] at hi; exact hi.2
      have hneed : x.need + r.need + 3 ≤ f' := by simpa [PEntries.need] using hf'
      obtain ⟨f'', rfl⟩ : ∃ f'', f' = f'' + 1 := ⟨f' - 1, by omega⟩
      have e2 := flowNode2 x hx (f'' + 1) (r.flow false ++ '}' :: rest) (m.gap + 1) (by omega) (delim_entries r rest)
      have ek := parseFlow_key key ks hk f'' 0 (spaces m.gap ++ (x.flow ++ (r.flow false ++ '}' :: rest)))
      have hsp : spaces (m.gap + 1) = ' ' :: spaces m.gap := by simp [spaces, List.replicate_succ]
      simp only [show spaces 0 = ([] : Str) from rfl, List.nil_append] at ek
      have st := entryStep2 (f'' + 1) 0 m.gap (keyText key ks) x.flow (r.flow false ++ '}' :: rest) (keyNode key ks) x.node []
        (keyFacts true key ks hk).1 (goodHead_flow2 x hx)
        (by rw [hsp]; simpa [List.append_assoc] using ek) e2
      simp only [spaces, List.replicate_zero, PEntries.flow, if_true, List.nil_append, List.append_assoc, List.cons_append] at st ⊢
      rw [st, flowEntriesTail2 r hr (f'' + 1) rest [(keyNode key ks, x.node)] (by omega)]
      simp [PEntries.nodes]
  | .anchored a n, h, _, _, _, _, _ => by simp [PNode.fl2, PNode.sc2] at h
  | .alias a t, h, _, _, _, _, _ => by simp [PNode.fl2, PNode.sc2] at h
theorem flowItemsTail2 : (items : PItems) → items.fl2 = true → ∀ (f : Nat) (rest : Str) (acc : List Node), items.need ≤ f →
    parseFlowSeqTail f (items.flow false ++ ']' :: rest) acc = .ok (.seq (acc.reverse ++ items.nodes), rest)
  | .nil, _, f, rest, acc, hf => by
    obtain ⟨f', rfl⟩ : ∃ f', f = f' + 1 := ⟨f - 1, by simp [PItems.need] at hf; omega⟩
    rw [parseFlowSeqTail]
    simp [PItems.flow, dropSpaces, PItems.nodes]
  | .cons m x r, hi, f, rest, acc, hf => by
    have hx : x.fl2 = true := by simp [PItems.fl2] at hi; exact hi.1
    have hr : r.fl2 = true := by simp [PItems.fl2] at hi; exact hi.2
    have hneed : x.need + r.need + 2 ≤ f := by simpa [PItems.need] using hf
    obtain ⟨f'', rfl⟩ : ∃ f'', f = f'' + 2 := ⟨f - 2, by omega⟩
    rw [parseFlowSeqTail]
    simp only [PItems.flow, Bool.false_eq_true, if_false, List.append_assoc, List.cons_append, List.nil_append,
      dropSpaces, List.dropWhile_cons]
    simp only [show ((',' : Char) == ' ') = false by decide, Bool.false_eq_true, if_false]
    have e2 := flowNode2 x hx f'' (r.flow false ++ ']' :: rest) 0 (by omega) (delim_items r rest)
    simp only [spaces, List.replicate_zero, List.nil_append, List.append_assoc] at e2
    have st := itemStep f'' (m.gap + 1) x.flow (r.flow false ++ ']' :: rest) x.node acc (goodHead_flow2 x hx) e2
    simp only [List.append_assoc] at st
    rw [st, flowItemsTail2 r hr f'' rest (x.node :: acc) (by omega)]
    simp [PItems.nodes]
theorem flowEntriesTail2 : (es : PEntries) → es.fl2 = true → ∀ (f : Nat) (rest : Str) (acc : List (Node × Node)), es.need ≤ f →
    parseFlowMapTail f (es.flow false ++ '}' :: rest) acc = .ok (.map (acc.reverse ++ es.nodes), rest)
  | .nil, _, f, rest, acc, hf => by
    obtain ⟨f', rfl⟩ : ∃ f', f = f' + 1 := ⟨f - 1, by simp [PEntries.need] at hf; omega⟩
    rw [parseFlowMapTail]
    simp [PEntries.flow, dropSpaces, PEntries.nodes]
  | .cons m key ks x r, hi, f, rest, acc, hf => by
    have hk : keyOk true key ks = true := by simp [PEntries.fl2] at hi; exact hi.1.1
    have hx : x.fl2 = true := by simp [PEntries.fl2] at hi; exact hi.1.2
    have hr : r.fl2 = true := by simp [PEntries.fl2] at hi; exact hi.2
    have hneed : x.need + r.need + 3 ≤ f := by simpa [PEntries.need] using hf
    obtain ⟨f'', rfl⟩ : ∃ f'', f = f'' + 3 := ⟨f - 3, by omega⟩
    rw [parseFlowMapTail]
    simp only [PEntries.flow, Bool.false_eq_true, if_false, List.append_assoc, List.cons_append, List.nil_append,
      dropSpaces, List.dropWhile_cons]
    simp only [show ((',' : Char) == ' ') = false by decide, Bool.false_eq_true, if_false]
    have e2 := flowNode2 x hx (f'' + 1) (r.flow false ++ '}' :: rest) (m.gap + 1) (by omega) (delim_entries r rest)
    have ek := parseFlow_key key ks hk f'' 0 (spaces m.gap ++ (x.flow ++ (r.flow false ++ '}' :: rest)))
    have hsp : spaces (m.gap + 1) = ' ' :: spaces m.gap := by simp [spaces, List.replicate_succ]
    simp only [show spaces 0 = ([] : Str) from rfl, List.nil_append] at ek
    have st := entryStep2 (f'' + 1) 1 m.gap (keyText key ks) x.flow (r.flow false ++ '}' :: rest) (keyNode key ks) x.node acc
      (keyFacts true key ks hk).1 (goodHead_flow2 x hx)
      (by rw [hsp]; simpa [List.append_assoc] using ek) e2
    simp only [spaces, List.replicate_succ, List.replicate_zero, List.append_assoc, List.cons_append, List.nil_append] at st ⊢
    rw [st, flowEntriesTail2 r hr (f'' + 1) rest ((keyNode key ks, x.node) :: acc) (by omega)]
    simp [PEntries.nodes]
end


/-! ### flow text of layer-2 nodes: no line breaks, fuel bound, resolution -/

theorem scalar_of_fl2 (x : PNode) (h : x.fl2 = true)
    (hx : ∀ fl st c items, x ≠ .seq fl st c items) (hm : ∀ fl st c es, x ≠ .map fl st c es) : x.sc2 true = true := by
  cases x with
  | seq fl st c items => exact absurd rfl (hx fl st c items)
  | map fl st c es => exact absurd rfl (hm fl st c es)
  | _ => simpa [PNode.fl2] using h

mutual
theorem okc_flow2 : (n : PNode) → n.fl2 = true → n.flow.all okc = true
  | .null v, h => (scalarFacts true _ (scalar_of_fl2 _ h (by intros; simp) (by intros; simp)) (by intros; simp) (by intros; simp)).ok
  | .bool b v, h => (scalarFacts true _ (scalar_of_fl2 _ h (by intros; simp) (by intros; simp)) (by intros; simp) (by intros; simp)).ok
  | .int i v, h => (scalarFacts true _ (scalar_of_fl2 _ h (by intros; simp) (by intros; simp)) (by intros; simp) (by intros; simp)).ok
  | .str s st, h => (scalarFacts true _ (scalar_of_fl2 _ h (by intros; simp) (by intros; simp)) (by intros; simp) (by intros; simp)).ok
  | .seq fl st c items, h => by
    have hfl : fl = true := by cases fl <;> simp [PNode.fl2] at h ⊢
    subst hfl
    have hi : items.fl2 = true := by simpa [PNode.fl2] using h
    simp only [PNode.flow, List.all_cons, List.all_append, okc_flowItems2 items hi true, List.all_nil, Bool.and_true]
    decide
  | .map fl st c es, h => by
    have hfl : fl = true := by cases fl <;> simp [PNode.fl2] at h ⊢
    subst hfl
    have hi : es.fl2 = true := by simpa [PNode.fl2] using h
    simp only [PNode.flow, List.all_cons, List.all_append, okc_flowEntries2 es hi true, List.all_nil, Bool.and_true]
    decide
  | .anchored a n, h => by simp [PNode.fl2, PNode.sc2] at h
  | .alias a t, h => by simp [PNode.fl2, PNode.sc2] at h
theorem okc_flowItems2 : (items : PItems) → items.fl2 = true → ∀ first, (items.flow first).all okc = true
  | .nil, _, _ => by simp [PItems.flow]
  | .cons m x r, hi, first => by
    have hx : x.fl2 = true := by simp [PItems.fl2] at hi; exact hi.1
    have hr : r.fl2 = true := by simp [PItems.fl2] at hi; exact hi.2
    simp only [PItems.flow, List.all_append, okc_spaces, okc_flow2 x hx, okc_flowItems2 r hr false, Bool.and_true]
    cases first <;> decide
theorem okc_flowEntries2 : (es : PEntries) → es.fl2 = true → ∀ first, (es.flow first).all okc = true
  | .nil, _, _ => by simp [PEntries.flow]
  | .cons m k ks x r, hi, first => by
    have hk : keyOk true k ks = true := by simp [PEntries.fl2] at hi; exact hi.1.1
    have hx : x.fl2 = true := by simp [PEntries.fl2] at hi; exact hi.1.2
    have hr : r.fl2 = true := by simp [PEntries.fl2] at hi; exact hi.2
    simp only [PEntries.flow, List.all_append, List.all_cons, okc_spaces, (keyFacts true k ks hk).2.1, okc_flow2 x hx,
      okc_flowEntries2 r hr false, Bool.and_true]
    cases first <;> decide
end

theorem flow_length_pos2 (n : PNode) (h : n.fl2 = true) : 1 ≤ n.flow.length := by
  obtain ⟨c, r, hc, _⟩ := goodHead_flow2 n h
  rw [hc]; simp

theorem keyText_length_pos (flow : Bool) (k : Str) (ks : KStyle) (h : keyOk flow k ks = true) : 1 ≤ (keyText k ks).length := by
  obtain ⟨c, r, hc, _⟩ := (keyFacts flow k ks h).1
  rw [hc]; simp

mutual
theorem need_bound2 : (n : PNode) → n.fl2 = true → n.need + 2 ≤ 4 * n.flow.length
  | .null v, h => by have := flow_length_pos2 (.null v) h; simp [PNode.need] at *; omega
  | .bool b v, h => by have := flow_length_pos2 (.bool b v) h; simp [PNode.need] at *; omega
  | .int i v, h => by have := flow_length_pos2 (.int i v) h; simp [PNode.need] at *; omega
  | .str s st, h => by have := flow_length_pos2 (.str s st) h; simp [PNode.need] at *; omega
  | .seq fl st c items, h => by
    have hfl : fl = true := by cases fl <;> simp [PNode.fl2] at h ⊢
    subst hfl
    have hi : items.fl2 = true := by simpa [PNode.fl2] using h
    have := need_boundItems2 items hi true
    simp [PNode.need, PNode.flow] at *; omega
  | .map fl st c es, h => by
    have hfl : fl = true := by cases fl <;> simp [PNode.fl2] at h ⊢
    subst hfl
    have hi : es.fl2 = true := by simpa [PNode.fl2] using h
    have := need_boundEntries2 es hi true
    simp [PNode.need, PNode.flow] at *; omega
  | .anchored a n, h => by simp [PNode.fl2, PNode.sc2] at h
  | .alias a t, h => by simp [PNode.fl2, PNode.sc2] at h
theorem need_boundItems2 : (items : PItems) → items.fl2 = true → ∀ first, items.need ≤ 4 * (items.flow first).length + 4
  | .nil, _, _ => by simp [PItems.need]
  | .cons m x r, hi, first => by
    have hx : x.fl2 = true := by simp [PItems.fl2] at hi; exact hi.1
    have hr : r.fl2 = true := by simp [PItems.fl2] at hi; exact hi.2
    have h1 := need_bound2 x hx
    have h2 := need_boundItems2 r hr false
    simp only [PItems.need, PItems.flow, List.length_append]
    omega
theorem need_boundEntries2 : (es : PEntries) → es.fl2 = true → ∀ first, es.need ≤ 4 * (es.flow first).length + 4
  | .nil, _, _ => by simp [PEntries.need]
  | .cons m k ks x r, hi, first => by
    have hk : keyOk true k ks = true := by simp [PEntries.fl2] at hi; exact hi.1.1
    have hx : x.fl2 = true := by simp [PEntries.fl2] at hi; exact hi.1.2
    have hr : r.fl2 = true := by simp [PEntries.fl2] at hi; exact hi.2
    have h1 := need_bound2 x hx
    have h2 := need_boundEntries2 r hr false
    have h3 := keyText_length_pos true k ks hk
    simp only [PEntries.need, PEntries.flow, List.length_append, List.length_cons]
    omega
end

mutual
theorem resolveNode2 : (n : PNode) → n.fl2 = true → ∀ env, n.node.resolve env = .ok (n.tree, env)
  | .null v, h, env => (scalarFacts true _ (scalar_of_fl2 _ h (by intros; simp) (by intros; simp)) (by intros; simp) (by intros; simp)).res env
  | .bool b v, h, env => (scalarFacts true _ (scalar_of_fl2 _ h (by intros; simp) (by intros; simp)) (by intros; simp) (by intros; simp)).res env
  | .int i v, h, env => (scalarFacts true _ (scalar_of_fl2 _ h (by intros; simp) (by intros; simp)) (by intros; simp) (by intros; simp)).res env
  | .str s st, h, env => (scalarFacts true _ (scalar_of_fl2 _ h (by intros; simp) (by intros; simp)) (by intros; simp) (by intros; simp)).res env
  | .seq fl st c items, h, env => by
    have hfl : fl = true := by cases fl <;> simp [PNode.fl2] at h ⊢
    subst hfl
    have hi : items.fl2 = true := by simpa [PNode.fl2] using h
    simp [PNode.node, Node.resolve, resolveItems2 items hi env, PNode.tree]; rfl
  | .map fl st c es, h, env => by
    have hfl : fl = true := by cases fl <;> simp [PNode.fl2] at h ⊢
    subst hfl
    have hi : es.fl2 = true := by simpa [PNode.fl2] using h
    simp [PNode.node, Node.resolve, resolveEntries2 es hi env, PNode.tree]; rfl
  | .anchored a n, h, _ => by simp [PNode.fl2, PNode.sc2] at h
  | .alias a t, h, _ => by simp [PNode.fl2, PNode.sc2] at h
theorem resolveItems2 : (items : PItems) → items.fl2 = true → ∀ env, resolveList env items.nodes = .ok (items.trees, env)
  | .nil, _, env => by simp [PItems.nodes, resolveList, PItems.trees]
  | .cons m x r, hi, env => by
    have hx : x.fl2 = true := by simp [PItems.fl2] at hi; exact hi.1
    have hr : r.fl2 = true := by simp [PItems.fl2] at hi; exact hi.2
    simp [PItems.nodes, resolveList, resolveNode2 x hx env, resolveItems2 r hr env, PItems.trees]; rfl
theorem resolveEntries2 : (es : PEntries) → es.fl2 = true → ∀ env, resolveKVs env es.nodes = .ok (es.trees, env)
  | .nil, _, env => by simp [PEntries.nodes, resolveKVs, PEntries.trees]
  | .cons m k ks x r, hi, env => by
    have hk : keyOk true k ks = true := by simp [PEntries.fl2] at hi; exact hi.1.1
    have hx : x.fl2 = true := by simp [PEntries.fl2] at hi; exact hi.1.2
    have hr : r.fl2 = true := by simp [PEntries.fl2] at hi; exact hi.2
    simp [PEntries.nodes, resolveKVs, (keyFacts true k ks hk).2.2, resolveNode2 x hx env, resolveEntries2 r hr env, PEntries.trees]; rfl
end


end SV.YamlRef
