/-
Proof/Utf8Engines — the engine models of Model/Utf8 against the Table 3-7 automaton:
word lemmas (`bv_decide`), `skip_ascii`, the leaf facts of the scalar validator's case analysis.
-/
import Std.Tactic.BVDecide
import SuccinctlyVerif.Model.Utf8
import SuccinctlyVerif.Proof.Utf8
set_option linter.unusedSimpArgs false
namespace SV.Utf8
open SV

/-! ### `skip_ascii` = length of the leading ASCII run -/

theorem nonAscii_zero_iff (b0 b1 b2 b3 b4 b5 b6 b7 : BitVec 8) :
    Gen.utf8_non_ascii (leWord b0 b1 b2 b3 b4 b5 b6 b7) = 0#64 ↔ (b0 < 0x80#8 ∧ b1 < 0x80#8 ∧ b2 < 0x80#8 ∧ b3 < 0x80#8 ∧ b4 < 0x80#8 ∧ b5 < 0x80#8 ∧ b6 < 0x80#8 ∧ b7 < 0x80#8) := by
  simp only [Gen.utf8_non_ascii, leWord]; bv_decide

theorem nonAscii_first_0 (b0 b1 b2 b3 b4 b5 b6 b7 : BitVec 8) (h0 : ¬ b0 < 0x80#8) :
    (Gen.utf8_non_ascii (leWord b0 b1 b2 b3 b4 b5 b6 b7)).ctz >>> 3 = 0#64 := by
  simp only [Gen.utf8_non_ascii, leWord]; bv_decide

theorem nonAscii_first_1 (b0 b1 b2 b3 b4 b5 b6 b7 : BitVec 8) (h0 : b0 < 0x80#8) (h1 : ¬ b1 < 0x80#8) :
    (Gen.utf8_non_ascii (leWord b0 b1 b2 b3 b4 b5 b6 b7)).ctz >>> 3 = 1#64 := by
  simp only [Gen.utf8_non_ascii, leWord]; bv_decide

theorem nonAscii_first_2 (b0 b1 b2 b3 b4 b5 b6 b7 : BitVec 8) (h0 : b0 < 0x80#8) (h1 : b1 < 0x80#8) (h2 : ¬ b2 < 0x80#8) :
    (Gen.utf8_non_ascii (leWord b0 b1 b2 b3 b4 b5 b6 b7)).ctz >>> 3 = 2#64 := by
  simp only [Gen.utf8_non_ascii, leWord]; bv_decide

theorem nonAscii_first_3 (b0 b1 b2 b3 b4 b5 b6 b7 : BitVec 8) (h0 : b0 < 0x80#8) (h1 : b1 < 0x80#8) (h2 : b2 < 0x80#8) (h3 : ¬ b3 < 0x80#8) :
    (Gen.utf8_non_ascii (leWord b0 b1 b2 b3 b4 b5 b6 b7)).ctz >>> 3 = 3#64 := by
  simp only [Gen.utf8_non_ascii, leWord]; bv_decide

theorem nonAscii_first_4 (b0 b1 b2 b3 b4 b5 b6 b7 : BitVec 8) (h0 : b0 < 0x80#8) (h1 : b1 < 0x80#8) (h2 : b2 < 0x80#8) (h3 : b3 < 0x80#8) (h4 : ¬ b4 < 0x80#8) :
    (Gen.utf8_non_ascii (leWord b0 b1 b2 b3 b4 b5 b6 b7)).ctz >>> 3 = 4#64 := by
  simp only [Gen.utf8_non_ascii, leWord]; bv_decide

theorem nonAscii_first_5 (b0 b1 b2 b3 b4 b5 b6 b7 : BitVec 8) (h0 : b0 < 0x80#8) (h1 : b1 < 0x80#8) (h2 : b2 < 0x80#8) (h3 : b3 < 0x80#8) (h4 : b4 < 0x80#8) (h5 : ¬ b5 < 0x80#8) :
    (Gen.utf8_non_ascii (leWord b0 b1 b2 b3 b4 b5 b6 b7)).ctz >>> 3 = 5#64 := by
  simp only [Gen.utf8_non_ascii, leWord]; bv_decide

theorem nonAscii_first_6 (b0 b1 b2 b3 b4 b5 b6 b7 : BitVec 8) (h0 : b0 < 0x80#8) (h1 : b1 < 0x80#8) (h2 : b2 < 0x80#8) (h3 : b3 < 0x80#8) (h4 : b4 < 0x80#8) (h5 : b5 < 0x80#8) (h6 : ¬ b6 < 0x80#8) :
    (Gen.utf8_non_ascii (leWord b0 b1 b2 b3 b4 b5 b6 b7)).ctz >>> 3 = 6#64 := by
  simp only [Gen.utf8_non_ascii, leWord]; bv_decide

theorem nonAscii_first_7 (b0 b1 b2 b3 b4 b5 b6 b7 : BitVec 8) (h0 : b0 < 0x80#8) (h1 : b1 < 0x80#8) (h2 : b2 < 0x80#8) (h3 : b3 < 0x80#8) (h4 : b4 < 0x80#8) (h5 : b5 < 0x80#8) (h6 : b6 < 0x80#8) (h7 : ¬ b7 < 0x80#8) :
    (Gen.utf8_non_ascii (leWord b0 b1 b2 b3 b4 b5 b6 b7)).ctz >>> 3 = 7#64 := by
  simp only [Gen.utf8_non_ascii, leWord]; bv_decide


theorem skipAsciiTail_eq (l : List Byte) : skipAsciiTail l = (l.takeWhile (· < 0x80#8)).length := by
  induction l with
  | nil => rfl
  | cons b r ih =>
    unfold skipAsciiTail
    by_cases h : b < 0x80#8
    · simp [List.takeWhile_cons, h, ih]; omega
    · simp [List.takeWhile_cons, h]

theorem skipAscii_eq (l : List Byte) : skipAscii l = (l.takeWhile (· < 0x80#8)).length := by
  fun_induction skipAscii l with
  | case1 b0 b1 b2 b3 b4 b5 b6 b7 rest nonAscii h =>
    have htz : tz nonAscii >>> 3 = (nonAscii.ctz >>> 3).toNat := by
      simp [tz, BitVec.toNat_ushiftRight]
    rw [htz]
    show ((Gen.utf8_non_ascii (leWord b0 b1 b2 b3 b4 b5 b6 b7)).ctz >>> 3).toNat = _
    replace h : Gen.utf8_non_ascii (leWord b0 b1 b2 b3 b4 b5 b6 b7) ≠ 0#64 := h
    by_cases h0 : b0 < 0x80#8
    · 
      by_cases h1 : b1 < 0x80#8
      · 
        by_cases h2 : b2 < 0x80#8
        · 
          by_cases h3 : b3 < 0x80#8
          · 
            by_cases h4 : b4 < 0x80#8
            · 
              by_cases h5 : b5 < 0x80#8
              · 
                by_cases h6 : b6 < 0x80#8
                · 
                  by_cases h7 : b7 < 0x80#8
                  · 
                    exact absurd ((nonAscii_zero_iff b0 b1 b2 b3 b4 b5 b6 b7).2 ⟨h0, h1, h2, h3, h4, h5, h6, h7⟩) h
                  · rw [nonAscii_first_7 b0 b1 b2 b3 b4 b5 b6 b7 h0 h1 h2 h3 h4 h5 h6 h7]
                    simp [List.takeWhile_cons, h0, h1, h2, h3, h4, h5, h6, h7]
                · rw [nonAscii_first_6 b0 b1 b2 b3 b4 b5 b6 b7 h0 h1 h2 h3 h4 h5 h6]
                  simp [List.takeWhile_cons, h0, h1, h2, h3, h4, h5, h6]
              · rw [nonAscii_first_5 b0 b1 b2 b3 b4 b5 b6 b7 h0 h1 h2 h3 h4 h5]
                simp [List.takeWhile_cons, h0, h1, h2, h3, h4, h5]
            · rw [nonAscii_first_4 b0 b1 b2 b3 b4 b5 b6 b7 h0 h1 h2 h3 h4]
              simp [List.takeWhile_cons, h0, h1, h2, h3, h4]
          · rw [nonAscii_first_3 b0 b1 b2 b3 b4 b5 b6 b7 h0 h1 h2 h3]
            simp [List.takeWhile_cons, h0, h1, h2, h3]
        · rw [nonAscii_first_2 b0 b1 b2 b3 b4 b5 b6 b7 h0 h1 h2]
          simp [List.takeWhile_cons, h0, h1, h2]
      · rw [nonAscii_first_1 b0 b1 b2 b3 b4 b5 b6 b7 h0 h1]
        simp [List.takeWhile_cons, h0, h1]
    · rw [nonAscii_first_0 b0 b1 b2 b3 b4 b5 b6 b7 h0]
      simp [List.takeWhile_cons, h0]
  | case2 b0 b1 b2 b3 b4 b5 b6 b7 rest nonAscii h ih =>
    have hz : Gen.utf8_non_ascii (leWord b0 b1 b2 b3 b4 b5 b6 b7) = 0#64 := by
      simpa using h
    obtain ⟨h0, h1, h2, h3, h4, h5, h6, h7⟩ := (nonAscii_zero_iff b0 b1 b2 b3 b4 b5 b6 b7).1 hz
    simp [List.takeWhile_cons, h0, h1, h2, h3, h4, h5, h6, h7, ih]; omega
  | case3 l hx => exact skipAsciiTail_eq l

/-! ### `validate_utf8_scalar` -/

theorem isCont_eq (b : Byte) : isContinuationByte b = isContByte b := by
  revert b; decide

theorem cpb2 (cp : BitVec 32) :
    cpBoundsViolation cp 2 = if cp < 0x80#32 then some .overlongEncoding else none := by
  simp [cpBoundsViolation]

theorem cpb3 (cp : BitVec 32) :
    cpBoundsViolation cp 3 = if cp < 0x800#32 then some .overlongEncoding
      else if 0xD800#32 ≤ cp ∧ cp ≤ 0xDFFF#32 then some .surrogateCodepoint else none := by
  simp [cpBoundsViolation]

theorem cpb4 (cp : BitVec 32) :
    cpBoundsViolation cp 4 = if cp < 0x10000#32 then some .overlongEncoding
      else if cp > 0x10FFFF#32 then some .outOfRangeCodepoint else none := by
  simp [cpBoundsViolation]

/-- Meaning of a result of the scalar loop at `(pos, rest)`: `Ok` = the rest is well-formed; an
error `(kind, off)` = after a well-formed `pre` the head of `suf` is ill-formed, `kind` is the first
violated rule there and `off` points `i` bytes into that sequence (`i` = index of the offending
continuation byte, 0 for every other kind). -/
def ScalarPost (pos : Nat) (rest : List Byte) : Option (ErrKind × Nat) → Prop
  | none => run .start rest = .start
  | some (k, off) => ∃ pre suf i, rest = pre ++ suf ∧ run .start pre = .start ∧ HeadBad suf ∧
      firstViolation suf = some (k, i) ∧ off = pos + pre.length + i

theorem ScalarPost.prepend {pos : Nat} {rest : List Byte} {r : Option (ErrKind × Nat)} (p : List Byte)
    (hp : run .start p = .start) (h : ScalarPost (pos + p.length) rest r) : ScalarPost pos (p ++ rest) r := by
  match r, h with
  | none, h => simpa [ScalarPost, run_append, hp] using h
  | some (k, off), ⟨pre, suf, i, h1, h2, h3, h4, h5⟩ =>
    refine ⟨p ++ pre, suf, i, by simp [h1], by simp [run_append, hp, h2], h3, h4, ?_⟩
    simp [h5]; omega

theorem ScalarPost.err {pos : Nat} {suf : List Byte} {k : ErrKind} {i : Nat}
    (hb : HeadBad suf) (hv : firstViolation suf = some (k, i)) : ScalarPost pos suf (some (k, pos + i)) :=
  ⟨[], suf, i, rfl, rfl, hb, hv, by simp⟩

section leaves
variable {b0 b1 b2 b3 : Byte} {r : List Byte}

theorem leaf_lead_lo (h0 : ¬ b0 ≤ 0x7F#8) (h1 : b0 ≤ 0xBF#8) :
    HeadBad (b0 :: r) ∧ firstViolation (b0 :: r) = some (.invalidLeadByte, 0) := by
  constructor
  · rw [headBad_cons]
    have : step .start b0 = .dead := by st_decide
    rw [this]; exact neverStart_dead _
  · simp [firstViolation, violates, declaredLen, h0, h1]

theorem leaf_lead_hi (h4 : ¬ b0 ≤ 0xF7#8) :
    HeadBad (b0 :: r) ∧ firstViolation (b0 :: r) = some (.invalidLeadByte, 0) := by
  have h0 : ¬ b0 ≤ 0x7F#8 := by bv_decide
  have h1 : ¬ b0 ≤ 0xBF#8 := by bv_decide
  have h2 : ¬ b0 ≤ 0xDF#8 := by bv_decide
  have h3 : ¬ b0 ≤ 0xEF#8 := by bv_decide
  constructor
  · rw [headBad_cons]
    have : step .start b0 = .dead := by st_decide
    rw [this]; exact neverStart_dead _
  · simp [firstViolation, violates, declaredLen, h0, h1, h2, h3, h4]


macro "byte_decide" : tactic =>
  `(tactic| (simp only [Byte, inR, isContinuationByte, isContByte, cp2, cp3, cp4] at *
             bv_decide))

theorem hb1 (h : step .start b0 = .dead) : HeadBad (b0 :: r) := by
  rw [headBad_cons, h]; exact neverStart_dead _
theorem hb2 (h1 : step .start b0 ≠ .start) (h2 : step (step .start b0) b1 = .dead) :
    HeadBad (b0 :: b1 :: r) := by
  rw [headBad_cons, neverStart_cons, h2]; exact ⟨h1, neverStart_dead _⟩
theorem hb3 (h1 : step .start b0 ≠ .start) (h2 : step (step .start b0) b1 ≠ .start)
    (h3 : step (step (step .start b0) b1) b2 = .dead) : HeadBad (b0 :: b1 :: b2 :: r) := by
  rw [headBad_cons, neverStart_cons, neverStart_cons, h3]; exact ⟨h1, h2, neverStart_dead _⟩
theorem hb4 (h1 : step .start b0 ≠ .start) (h2 : step (step .start b0) b1 ≠ .start)
    (h3 : step (step (step .start b0) b1) b2 ≠ .start)
    (h4 : step (step (step (step .start b0) b1) b2) b3 = .dead) : HeadBad (b0 :: b1 :: b2 :: b3 :: r) := by
  rw [headBad_cons, neverStart_cons, neverStart_cons, neverStart_cons, h4]; exact ⟨h1, h2, h3, neverStart_dead _⟩
theorem hbt1 (h1 : step .start b0 ≠ .start) : HeadBad [b0] := by
  rw [headBad_cons, neverStart_nil]; exact h1
theorem hbt2 (h1 : step .start b0 ≠ .start) (h2 : step (step .start b0) b1 ≠ .start) : HeadBad [b0, b1] := by
  rw [headBad_cons, neverStart_cons, neverStart_nil]; exact ⟨h1, h2⟩
theorem hbt3 (h1 : step .start b0 ≠ .start) (h2 : step (step .start b0) b1 ≠ .start)
    (h3 : step (step (step .start b0) b1) b2 ≠ .start) : HeadBad [b0, b1, b2] := by
  rw [headBad_cons, neverStart_cons, neverStart_cons, neverStart_nil]; exact ⟨h1, h2, h3⟩

theorem dl2 (h1 : ¬ b0 ≤ 0xBF#8) (h2 : b0 ≤ 0xDF#8) : declaredLen b0 = 2 := by
  have h0 : ¬ b0 ≤ 0x7F#8 := by bv_decide
  simp [declaredLen, h0, h1, h2]
theorem dl3 (h2 : ¬ b0 ≤ 0xDF#8) (h3 : b0 ≤ 0xEF#8) : declaredLen b0 = 3 := by
  have h0 : ¬ b0 ≤ 0x7F#8 := by bv_decide
  have h1 : ¬ b0 ≤ 0xBF#8 := by bv_decide
  simp [declaredLen, h0, h1, h2, h3]
theorem dl4 (h3 : ¬ b0 ≤ 0xEF#8) (h4 : b0 ≤ 0xF7#8) : declaredLen b0 = 4 := by
  have h0 : ¬ b0 ≤ 0x7F#8 := by bv_decide
  have h1 : ¬ b0 ≤ 0xBF#8 := by bv_decide
  have h2 : ¬ b0 ≤ 0xDF#8 := by bv_decide
  simp [declaredLen, h0, h1, h2, h3, h4]

/-! two-byte sequences (`C0..DF`) -/

theorem l2_trunc (h1 : ¬ b0 ≤ 0xBF#8) (h2 : b0 ≤ 0xDF#8) :
    HeadBad [b0] ∧ firstViolation [b0] = some (.truncatedSequence, 0) :=
  ⟨hbt1 (by st_decide), by simp [firstViolation, violates, dl2 h1 h2]⟩

theorem l2_bad1 (h1 : ¬ b0 ≤ 0xBF#8) (h2 : b0 ≤ 0xDF#8) (c1 : isContinuationByte b1 = false) :
    HeadBad (b0 :: b1 :: r) ∧ firstViolation (b0 :: b1 :: r) = some (.invalidContinuationByte, 1) := by
  have c1' : isContByte b1 = false := by rw [← isCont_eq]; exact c1
  refine ⟨hb2 (by st_decide) (by simp only [isContByte] at c1'; st_decide), ?_⟩
  simp [firstViolation, violates, dl2 h1 h2, c1']

theorem l2_over (h1 : ¬ b0 ≤ 0xBF#8) (h2 : b0 ≤ 0xDF#8) (c1 : isContinuationByte b1 = true)
    (hc : cp2 b0 b1 < 0x80#32) :
    HeadBad (b0 :: b1 :: r) ∧ firstViolation (b0 :: b1 :: r) = some (.overlongEncoding, 0) := by
  have c1' : isContByte b1 = true := by rw [← isCont_eq]; exact c1
  have hov : inR 0xC0#8 0xC1#8 b0 = true := by byte_decide
  refine ⟨hb1 (by simp only [cp2] at hc; st_decide), ?_⟩
  simp [firstViolation, violates, dl2 h1 h2, c1', hov]

theorem l2_ok (h1 : ¬ b0 ≤ 0xBF#8) (h2 : b0 ≤ 0xDF#8) (c1 : isContinuationByte b1 = true)
    (hc : ¬ cp2 b0 b1 < 0x80#32) : step (step .start b0) b1 = .start := by
  simp only [isContinuationByte, cp2] at *; st_decide

end leaves

end SV.Utf8
