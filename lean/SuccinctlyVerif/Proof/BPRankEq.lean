/-
Proof/BPRankEq — `rank1` of the model equals the linear count over `bitsOf` (C04).
-/
import SuccinctlyVerif.Proof.BPRank
namespace SV.BPR
open SV SV.BP SV.BPM SV.BPP

theorem blockOffs_bound' (st : List (BitVec 64)) (len : Nat) (rest : List Nat) (i cum : Nat) :
    ∀ o ∈ blockOffs st len rest i cum, o + 64 ≤ cum + 64 * rest.length := by
  induction rest generalizing i cum with
  | nil => simp [blockOffs]
  | cons w r ih =>
    intro o ho
    simp only [blockOffs, List.mem_append] at ho
    have hc := cw_le st len w
    rcases ho with ho | ho
    · by_cases h : 0 < i
      · simp [h] at ho; simp; omega
      · simp [h] at ho
    · have := ih (i + 1) (cum + cw st len w) o ho
      simp only [List.length_cons]; omega

/-- The 9-bit field `wib - 1` of a block's packed word is the count of its first `wib` words. -/
theorem blockPacked_extract (st : List (BitVec 64)) (len s m wib : Nat) (h1 : 1 ≤ wib) (h2 : wib < min 8 m) :
    (blockPacked st len s m >>> ((wib - 1) * 9)) &&& 0x1FF = sumC st len s wib := by
  unfold blockPacked
  have hmm : min 8 m = (min 8 m - 1) + 1 := by omega
  rw [packOffsets_extract]
  · rw [hmm, List.range'_succ]
    simp only [blockOffs, Nat.lt_irrefl, if_false, List.nil_append, Nat.zero_add]
    rw [blockOffs_getD st len _ 1 _ (wib - 1) (by omega) (by simp; omega)]
    unfold sumC
    have e : List.range' s wib = s :: (List.range' (s + 1) (min 8 m - 1)).take (wib - 1) := by
      rw [take_range']
      have : wib = (wib - 1) + 1 := by omega
      conv => lhs; rw [this, List.range'_succ]
      congr 2; omega
    rw [e]
    simp [sumL]
  · intro o ho
    have := blockOffs_bound' st len _ 0 0 o ho
    simp at this
    omega

theorem buildRank_spec (st : List (BitVec 64)) (len : Nat) (hn : 64 * st.length < 2 ^ 64) :
    let r := buildRank st len
    (∀ b, 8 * b < st.length → r.1.getD b 0 = (sumC st len 0 (8 * b)) % 2 ^ 32) ∧
    (∀ b, 8 * b < st.length → r.2.1.getD b 0 = blockPacked st len (8 * b) (st.length - 8 * b)) ∧
    r.2.2 = sumC st len 0 st.length := by
  have h := rankSpec_chunks st len st.length 0 st.length 0 (Nat.le_refl _) (by omega)
  simp only [Nat.zero_add] at h
  unfold buildRank
  have h8 : Gen.BP_WORDS_PER_RANK_BLOCK = 8 := rfl
  rw [h8, List.range_eq_range', rankLoop_eq]
  simpa using h

/-- `sumC` over words that are not the masked final word is the plain popcount sum. -/
theorem cw_eq_popcount (st : List (BitVec 64)) (len i : Nat) (h : i + 1 < st.length ∨ len % 64 = 0) :
    cw st len i = popcount (st.getD i 0) := by
  unfold cw countedWord
  have : ¬ (i = st.length - 1 ∧ len % 64 ≠ 0) := by omega
  simp only [this, if_false]
  exact Kernels.popc_eq_popcount _

theorem sumC_eq_take (st : List (BitVec 64)) (len t : Nat) (h : t < st.length ∨ (t ≤ st.length ∧ len % 64 = 0)) :
    sumC st len 0 t = ((st.take t).map popcount).sum := by
  induction t with
  | zero => simp [sumC, sumL]
  | succ t ih =>
    have e : t + 1 = t + 1 := rfl
    rw [sumC_add st len 0 t 1, ih (by omega)]
    have hlt : t < st.length := by omega
    rw [List.take_succ_eq_append_getElem hlt, List.map_append, List.sum_append]
    simp only [sumC, sumL, Nat.zero_add, List.range'_one, List.map_cons, List.map_nil, List.sum_cons, List.sum_nil,
      Nat.add_zero]
    rw [cw_eq_popcount st len t (by omega)]
    simp [List.getD_eq_getElem?_getD, List.getElem?_eq_getElem hlt]

/-! ### rank1 -/

theorem toArray_getD {α} (l : List α) (i : Nat) (d : α) : l.toArray.getD i d = l.getD i d := by simp

/-- Linear count through `count_take_allBits` for a clamped position. -/
theorem rankB_bitsOf (st : List (BitVec 64)) (len p : Nat) (hp : p ≤ len) :
    rankB true (bitsOf st len) p =
      ((st.take (p / 64)).map popcount).sum + ((wordBits (st.getD (p / 64) 0)).take (p % 64)).count true := by
  unfold rankB bitsOf
  rw [List.take_take, Nat.min_eq_left hp, count_take_allBits]

theorem rankB_clamp (bs : List Bool) (p : Nat) : rankB b bs p = rankB b bs (min p bs.length) := by
  unfold rankB
  by_cases h : p ≤ bs.length
  · rw [Nat.min_eq_left h]
  · rw [Nat.min_eq_right (by omega), List.take_of_length_le (by omega), List.take_of_length_le (by omega)]

theorem rank1Slow_eq (simd : Bool) (st : List (BitVec 64)) (len : Nat) (k : SelKind) (p : Nat) (hp : p ≤ len) :
    (mkBP simd st len k).rank1Slow p = rankB true (bitsOf st len) p := by
  rw [rankB_bitsOf st len p hp]
  unfold BP.rank1Slow BP.word
  simp only [mkBP, List.toList_toArray, List.size_toArray, toArray_getD]
  have hpop : (st.take (p / 64)).map popc = (st.take (p / 64)).map popcount := by
    apply List.map_congr_left; intro w _; exact Kernels.popc_eq_popcount w
  rw [hpop]
  by_cases h : p % 64 > 0 ∧ p / 64 < st.length
  · simp only [h, and_self, if_true]
    rw [popcBelow_eq _ _ (by omega)]
  · simp only [h, if_false]
    have : ((wordBits (st.getD (p / 64) 0)).take (p % 64)).count true = 0 := by
      by_cases h0 : p % 64 = 0
      · simp [h0]
      · have : st.length ≤ p / 64 := by omega
        rw [List.getD_eq_getElem?_getD, List.getElem?_eq_none this]
        exact wordBits_zero_count
    omega

/-- `rank1` of the structure built over `st` (any storage of exactly ⌈len/64⌉ words, any bits above
`len`) is the number of opens among the first `min p len` bits. -/
theorem rank1_eq (simd : Bool) (st : List (BitVec 64)) (len : Nat) (k : SelKind) (p : Nat)
    (hw : st.length = (len + 63) / 64) (hlen : len < 2 ^ 32) :
    (mkBP simd st len k).rank1 p = rankB true (bitsOf st len) p := by
  have hblen : (bitsOf st len).length = len := bitsOf_length st len (by omega)
  rw [rankB_clamp, hblen]
  unfold BPM.BP.rank1
  by_cases hp0 : p = 0
  · simp [hp0, rankB]
  simp only [hp0, if_false]
  have hlenf : (mkBP simd st len k).len = len := rfl
  rw [hlenf]
  generalize hq : min p len = q
  have hq' : q ≤ len := by omega
  by_cases hs1 : q / 64 ≥ (mkBP simd st len k).words.size
  · simp only [hs1, if_true]; exact rank1Slow_eq simd st len k q hq'
  simp only [hs1, if_false]
  by_cases hs2 : q / 64 / Gen.BP_WORDS_PER_RANK_BLOCK ≥ (mkBP simd st len k).rankL1.size
  · simp only [hs2, if_true]; exact rank1Slow_eq simd st len k q hq'
  simp only [hs2, if_false]
  by_cases hs3 : q / 64 % Gen.BP_WORDS_PER_RANK_BLOCK ≠ 0 ∧
      q / 64 / Gen.BP_WORDS_PER_RANK_BLOCK ≥ (mkBP simd st len k).rankL2.size
  · rw [if_pos hs3]; exact rank1Slow_eq simd st len k q hq'
  rw [if_neg hs3]
  -- main path
  have h8 : Gen.BP_WORDS_PER_RANK_BLOCK = 8 := rfl
  have hsz : (mkBP simd st len k).words.size = st.length := by simp [mkBP]
  rw [hsz] at hs1
  have hwi : q / 64 < st.length := by omega
  have hne : ¬ (st = [] ∨ len = 0) := by
    intro h; rcases h with h | h
    · rw [h] at hwi; simp at hwi
    · omega
  have hr1 : (mkBP simd st len k).rankL1 = (buildRank st len).1.toArray := by simp [mkBP, hne]
  have hr2 : (mkBP simd st len k).rankL2 = (buildRank st len).2.1.toArray := by simp [mkBP, hne]
  have hword : ∀ i, (mkBP simd st len k).word i = st.getD i 0 := by
    intro i; simp [BP.word, mkBP]
  obtain ⟨d1, d2, _⟩ := buildRank_spec st len (by omega)
  rw [hr1, hr2, hword, h8]
  simp only [toArray_getD]
  generalize hwi' : q / 64 = wi at *
  have hb : 8 * (wi / 8) < st.length := by omega
  rw [d1 _ hb, rankB_bitsOf st len q hq', hwi']
  have hl1 : sumC st len 0 (8 * (wi / 8)) % 2 ^ 32 = sumC st len 0 (8 * (wi / 8)) := by
    apply Nat.mod_eq_of_lt
    have := sumC_le st len 0 (8 * (wi / 8))
    omega
  rw [hl1]
  have hsplit : ((st.take wi).map popcount).sum = sumC st len 0 (8 * (wi / 8)) + sumC st len (8 * (wi / 8)) (wi % 8) := by
    rw [← sumC_eq_take st len wi (Or.inl hwi)]
    have e : wi = 8 * (wi / 8) + wi % 8 := by omega
    conv => lhs; rw [e, sumC_add]
    simp
  have hpart : (if q % 64 > 0 then popcBelow (st.getD wi 0) (q % 64) else 0) =
      ((wordBits (st.getD wi 0)).take (q % 64)).count true := by
    by_cases h0 : q % 64 > 0
    · simp only [h0, if_true]; exact popcBelow_eq _ _ (by omega)
    · have : q % 64 = 0 := by omega
      simp [this]
  rw [hpart, hsplit]
  by_cases hwib : wi % 8 = 0
  · simp [hwib, sumC, sumL]
  · simp only [hwib, if_false]
    rw [d2 _ hb, blockPacked_extract st len _ _ (wi % 8) (by omega) (by omega)]

end SV.BPR
