/-
Proof/BPSse2 — the SSE4.1 lane model of the L2 builder equals the scalar `i32` fold when the L1
lanes are within ±2048 (which `index_exact` guarantees) (C04).
-/
import SuccinctlyVerif.Proof.BPSse
namespace SV.BPX
open SV SV.BPM

theorem w32_wrap_add (a b : Int) : wrapI32 (wrapI32 a + b) = wrapI32 (a + b) := by unfold wrapI32; omega
theorem w32_id (x : Int) (h1 : -2147483648 ≤ x) (h2 : x ≤ 2147483647) : wrapI32 x = x := by
  unfold wrapI32; omega
theorem w16_id (x : Int) (h1 : -32768 ≤ x) (h2 : x ≤ 32767) : wrapI16 x = x := by unfold wrapI16; omega
theorem add_min (c x y : Int) : c + min x y = min (c + x) (c + y) := by omega
theorem min_bd (x y B : Int) (hx : -B ≤ x ∧ x ≤ B) (hy : -B ≤ y ∧ y ≤ B) : -B ≤ min x y ∧ min x y ≤ B := by omega

/-- Lane bound: an L1 entry is within ±2048. -/
def Bd (x : Int) : Prop := -2048 ≤ x ∧ x ≤ 2048

theorem sseChunkL2_eq (m0 m1 m2 m3 m4 m5 m6 m7 e0 e1 e2 e3 e4 e5 e6 e7 r bm : Int)
    (hm0 : Bd m0) (hm1 : Bd m1) (hm2 : Bd m2) (hm3 : Bd m3) (hm4 : Bd m4) (hm5 : Bd m5) (hm6 : Bd m6) (hm7 : Bd m7)
    (he0 : Bd e0) (he1 : Bd e1) (he2 : Bd e2) (he3 : Bd e3) (he4 : Bd e4) (he5 : Bd e5) (he6 : Bd e6) (he7 : Bd e7)
    (hr : -1073741824 ≤ r ∧ r ≤ 1073741824) :
    (min bm (wrapI32 (r + (sseChunkL2 [m0, m1, m2, m3, m4, m5, m6, m7] [e0, e1, e2, e3, e4, e5, e6, e7]).1)),
      wrapI32 (r + (sseChunkL2 [m0, m1, m2, m3, m4, m5, m6, m7] [e0, e1, e2, e3, e4, e5, e6, e7]).2)) =
    foldI32 [(m0, e0), (m1, e1), (m2, e2), (m3, e3), (m4, e4), (m5, e5), (m6, e6), (m7, e7)] bm r := by
  unfold Bd at *
  unfold sseChunkL2
  rw [lanePrefix8, laneHSum8]
  simp only [List.take, laneAdd, List.zipWith, wrap_add_wrap, foldI32, Int.add_zero, w32_wrap_add]
  -- i16 lanes do not wrap
  rw [w16_id m0 (by omega) (by omega), w16_id (m1 + e0) (by omega) (by omega),
    w16_id (m2 + (e0 + e1)) (by omega) (by omega), w16_id (m3 + (e0 + e1 + e2)) (by omega) (by omega),
    w16_id (m4 + (e0 + e1 + e2 + e3)) (by omega) (by omega),
    w16_id (m5 + (e0 + e1 + e2 + e3 + e4)) (by omega) (by omega),
    w16_id (m6 + (e0 + e1 + e2 + e3 + e4 + e5)) (by omega) (by omega),
    w16_id (m7 + (e0 + e1 + e2 + e3 + e4 + e5 + e6)) (by omega) (by omega),
    w16_id (e0 + e1 + e2 + e3 + e4 + e5 + e6 + e7) (by omega) (by omega)]
  rw [laneMinBiased8 _ _ _ _ _ _ _ _ (by omega) (by omega) (by omega) (by omega) (by omega) (by omega) (by omega)
    (by omega)]
  have b0 : -18432 ≤ m0 ∧ m0 ≤ 18432 := by omega
  have b1 : -18432 ≤ m1 + e0 ∧ m1 + e0 ≤ 18432 := by omega
  have b2 : -18432 ≤ m2 + (e0 + e1) ∧ m2 + (e0 + e1) ≤ 18432 := by omega
  have b3 : -18432 ≤ m3 + (e0 + e1 + e2) ∧ m3 + (e0 + e1 + e2) ≤ 18432 := by omega
  have b4 : -18432 ≤ m4 + (e0 + e1 + e2 + e3) ∧ m4 + (e0 + e1 + e2 + e3) ≤ 18432 := by omega
  have b5 : -18432 ≤ m5 + (e0 + e1 + e2 + e3 + e4) ∧ m5 + (e0 + e1 + e2 + e3 + e4) ≤ 18432 := by omega
  have b6 : -18432 ≤ m6 + (e0 + e1 + e2 + e3 + e4 + e5) ∧ m6 + (e0 + e1 + e2 + e3 + e4 + e5) ≤ 18432 := by omega
  have b7 : -18432 ≤ m7 + (e0 + e1 + e2 + e3 + e4 + e5 + e6) ∧ m7 + (e0 + e1 + e2 + e3 + e4 + e5 + e6) ≤ 18432 := by
    omega
  have c1 := min_bd _ _ 18432 b0 b1
  have c2 := min_bd _ _ 18432 c1 b2
  have c3 := min_bd _ _ 18432 c2 b3
  have c4 := min_bd _ _ 18432 c3 b4
  have c5 := min_bd _ _ 18432 c4 b5
  have c6 := min_bd _ _ 18432 c5 b6
  have c7 := min_bd _ _ 18432 c6 b7
  rw [w32_id (r + min _ _) (by omega) (by omega)]
  -- the scalar side does not wrap either
  rw [w32_id (r + m0) (by omega) (by omega), w32_id (r + e0 + m1) (by omega) (by omega),
    w32_id (r + e0 + e1 + m2) (by omega) (by omega), w32_id (r + e0 + e1 + e2 + m3) (by omega) (by omega),
    w32_id (r + e0 + e1 + e2 + e3 + m4) (by omega) (by omega),
    w32_id (r + e0 + e1 + e2 + e3 + e4 + m5) (by omega) (by omega),
    w32_id (r + e0 + e1 + e2 + e3 + e4 + e5 + m6) (by omega) (by omega),
    w32_id (r + e0 + e1 + e2 + e3 + e4 + e5 + e6 + m7) (by omega) (by omega)]
  simp only [add_min, ← Int.min_assoc]
  have l1 : r + (m1 + e0) = r + e0 + m1 := by omega
  have l2 : r + (m2 + (e0 + e1)) = r + e0 + e1 + m2 := by omega
  have l3 : r + (m3 + (e0 + e1 + e2)) = r + e0 + e1 + e2 + m3 := by omega
  have l4 : r + (m4 + (e0 + e1 + e2 + e3)) = r + e0 + e1 + e2 + e3 + m4 := by omega
  have l5 : r + (m5 + (e0 + e1 + e2 + e3 + e4)) = r + e0 + e1 + e2 + e3 + e4 + m5 := by omega
  have l6 : r + (m6 + (e0 + e1 + e2 + e3 + e4 + e5)) = r + e0 + e1 + e2 + e3 + e4 + e5 + m6 := by omega
  have l7 : r + (m7 + (e0 + e1 + e2 + e3 + e4 + e5 + e6)) = r + e0 + e1 + e2 + e3 + e4 + e5 + e6 + m7 := by omega
  have ls : r + (e0 + e1 + e2 + e3 + e4 + e5 + e6 + e7) = r + e0 + e1 + e2 + e3 + e4 + e5 + e6 + e7 := by omega
  rw [l1, l2, l3, l4, l5, l6, l7, ls]

end SV.BPX
