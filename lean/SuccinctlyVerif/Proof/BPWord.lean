/-
Proof/BPWord — the per-word summaries (`word_min_excess`, `_i32`, `_unrolled`, `word_max_excess_rev`)
computed through the byte tables equal the definitional scans of the word's bits, and the `i8`
clamp is lossless (C04).
-/
import SuccinctlyVerif.Proof.BPTables
import SuccinctlyVerif.Proof.BP
namespace SV.BPW
open SV SV.BP SV.BPM SV.BPP SV.BPT

/-! ### segments of a word's bits -/

/-- Bits `[a, a + n)` of a word, LSB first. -/
def seg (w : BitVec 64) (a n : Nat) : List Bool := (List.range n).map fun j => w.getLsbD (a + j)

theorem seg_length (w : BitVec 64) (a n : Nat) : (seg w a n).length = n := by simp [seg]

theorem seg_zero (w : BitVec 64) (a : Nat) : seg w a 0 = [] := rfl

theorem seg_succ_left (w : BitVec 64) (a n : Nat) : seg w a (n + 1) = w.getLsbD a :: seg w (a + 1) n := by
  unfold seg
  rw [List.range_succ_eq_map, List.map_cons, List.map_map]
  simp only [Nat.add_zero, List.cons.injEq, true_and]
  apply List.map_congr_left
  intro j _
  simp only [Function.comp]
  congr 1; omega

theorem seg_append (w : BitVec 64) (a m n : Nat) : seg w a (m + n) = seg w a m ++ seg w (a + m) n := by
  induction m generalizing a with
  | zero => simp [seg_zero]
  | succ m ih =>
    have e : m + 1 + n = (m + n) + 1 := by omega
    rw [e, seg_succ_left, seg_succ_left, ih]
    simp only [List.cons_append, List.cons.injEq, true_and]
    congr 2; omega

theorem wordBits_eq_seg (w : BitVec 64) : wordBits w = seg w 0 64 := by
  unfold wordBits seg; simp

theorem wordBits_take_eq_seg (w : BitVec 64) (n : Nat) (hn : n ≤ 64) : (wordBits w).take n = seg w 0 n := by
  have e : 64 = n + (64 - n) := by omega
  rw [wordBits_eq_seg, e, seg_append, List.take_left' (seg_length w 0 n)]

theorem byteOf_testBit (w : BitVec 64) (i j : Nat) (hj : j < 8) :
    (byteOf w i).testBit j = w.getLsbD (8 * i + j) := by
  unfold byteOf
  have : (256 : Nat) = 2 ^ 8 := rfl
  rw [this, Nat.testBit_mod_two_pow, Nat.testBit_shiftRight]
  simp [hj, BitVec.getLsbD]

theorem byteOf_lt (w : BitVec 64) (i : Nat) : byteOf w i < 256 := by
  unfold byteOf; omega

/-- The bits of byte `i` of a word are the segment `[8i, 8i + 8)`. -/
theorem byteOfNat_byteOf (w : BitVec 64) (i : Nat) : byteOfNat (byteOf w i) = seg w (8 * i) 8 := by
  unfold byteOfNat byteBits seg
  apply List.map_congr_left
  intro j hj
  have hj8 : j < 8 := by simpa using hj
  rw [BitVec.getLsbD_ofNat, byteOf_testBit w i j hj8]
  simp [hj8]

/-! ### table entries -/

theorem toArray_getD {α} (l : List α) (i : Nat) (d : α) : l.toArray.getD i d = l.getD i d := by simp

theorem byteMin_spec (b : Nat) (hb : b < 256) : byteMin b = minExc (byteOfNat b) := by
  unfold byteMin byteMinA
  rw [toArray_getD, byteMin_eq]
  unfold specByteMin
  rw [List.getD_eq_getElem?_getD, List.getElem?_map, List.getElem?_range hb]
  rfl

theorem byteTot_spec (b : Nat) (hb : b < 256) : byteTot b = totExc (byteOfNat b) := by
  unfold byteTot byteTotA
  rw [toArray_getD, byteTot_eq]
  unfold specByteTot
  rw [List.getD_eq_getElem?_getD, List.getElem?_map, List.getElem?_range hb]
  rfl

theorem byteMaxRev_spec (b : Nat) (hb : b < 256) : byteMaxRev b = maxSufExc (byteOfNat b) := by
  unfold byteMaxRev byteMaxRevA
  rw [toArray_getD, byteMaxRev_eq]
  unfold specByteMaxRev
  rw [List.getD_eq_getElem?_getD, List.getElem?_map, List.getElem?_range hb]
  rfl

/-! ### algebra of the summaries -/

theorem totExc_append (a b : List Bool) : totExc (a ++ b) = totExc a + totExc b := by
  induction a with
  | nil => simp [totExc]
  | cons x xs ih => simp only [List.cons_append, totExc, ih]; omega

theorem minExc_append (a b : List Bool) : minExc (a ++ b) = min (minExc a) (totExc a + minExc b) := by
  induction a with
  | nil => simp only [List.nil_append, minExc, totExc]; have := show minExc b ≤ 0 from by cases b <;> simp [minExc] <;> omega
           omega
  | cons x xs ih => simp only [List.cons_append, minExc, totExc, ih]; omega

theorem minExc_le_zero (a : List Bool) : minExc a ≤ 0 := by cases a <;> simp [minExc] <;> omega

theorem minExc_le_tot (a : List Bool) : minExc a ≤ totExc a := by
  induction a with
  | nil => simp [minExc, totExc]
  | cons x xs ih => simp only [minExc, totExc]; omega

theorem delta_bound (b : Bool) : -1 ≤ delta b ∧ delta b ≤ 1 := by cases b <;> simp [delta]

theorem minExc_ge (a : List Bool) : -(a.length : Int) ≤ minExc a := by
  induction a with
  | nil => simp [minExc]
  | cons x xs ih =>
    have := delta_bound x
    simp only [minExc, List.length_cons]; omega

theorem totExc_bound (a : List Bool) : -(a.length : Int) ≤ totExc a ∧ totExc a ≤ a.length := by
  induction a with
  | nil => simp [totExc]
  | cons x xs ih =>
    have := delta_bound x
    simp only [totExc, List.length_cons]; omega

theorem maxSufExc_ge_zero (a : List Bool) : 0 ≤ maxSufExc a := by
  induction a with
  | nil => simp [maxSufExc]
  | cons x xs ih => simp only [maxSufExc]; omega

theorem maxSufExc_ge_tot (a : List Bool) : totExc a ≤ maxSufExc a := by
  induction a with
  | nil => simp [maxSufExc, totExc]
  | cons x xs ih => simp only [maxSufExc, totExc]; omega

theorem maxSufExc_append (a b : List Bool) :
    maxSufExc (a ++ b) = max (maxSufExc b) (totExc b + maxSufExc a) := by
  induction a with
  | nil => simp only [List.nil_append, maxSufExc]; have := maxSufExc_ge_tot b; omega
  | cons x xs ih => simp only [List.cons_append, maxSufExc, totExc_append, ih]; omega

/-! ### the byte loops -/

theorem fullBytes_spec (w : BitVec 64) (n i : Nat) (r g : Int) (hg : g ≤ r) :
    fullBytes w n i r g =
      (min g (r + minExc (seg w (8 * i) (8 * n))), r + totExc (seg w (8 * i) (8 * n))) := by
  induction n generalizing i r g with
  | zero => simp only [fullBytes, Nat.mul_zero, seg_zero, minExc, totExc]; congr 1 <;> omega
  | succ n ih =>
    have e : 8 * (n + 1) = 8 + 8 * n := by omega
    have e2 : 8 * i + 8 = 8 * (i + 1) := by omega
    rw [e, seg_append, e2, minExc_append, totExc_append]
    simp only [fullBytes]
    have hmt := minExc_le_tot (seg w (8 * i) 8)
    rw [byteMin_spec _ (byteOf_lt w i), byteTot_spec _ (byteOf_lt w i), byteOfNat_byteOf, ih _ _ _ (by omega)]
    congr 1 <;> omega

theorem partialBits_spec (w : BitVec 64) (fb n bit : Nat) (e g : Int) (hbit : bit + n ≤ 8) (hg : g ≤ e) :
    partialBits (byteOf w fb) n bit e g =
      (min g (e + minExc (seg w (8 * fb + bit) n)), e + totExc (seg w (8 * fb + bit) n)) := by
  induction n generalizing bit e g with
  | zero => simp only [partialBits, seg_zero, minExc, totExc]; congr 1 <;> omega
  | succ n ih =>
    rw [seg_succ_left]
    unfold partialBits bitOf
    rw [byteOf_testBit w fb bit (by omega)]
    have hm := minExc_le_zero (seg w (8 * fb + bit + 1) n)
    cases hb : w.getLsbD (8 * fb + bit)
    · simp only [Bool.false_eq_true, if_false, minExc, totExc, delta]
      rw [ih (bit + 1) (e - 1) (min g (e - 1)) (by omega) (by omega)]
      have : 8 * fb + (bit + 1) = 8 * fb + bit + 1 := by omega
      rw [this]
      congr 1 <;> omega
    · simp only [if_true, minExc, totExc, delta]
      rw [ih (bit + 1) (e + 1) g (by omega) (by omega)]
      have : 8 * fb + (bit + 1) = 8 * fb + bit + 1 := by omega
      rw [this]
      congr 1 <;> omega

/-- `word_min_excess_i32(word, valid_bits)` (and the unclamped `word_min_excess`) = (minimum prefix
excess, total excess) of the first `valid_bits` bits. -/
theorem wordMinExcessRaw_spec (w : BitVec 64) (vb : Nat) (hvb : vb ≤ 64) :
    wordMinExcessRaw w vb = (minExc ((wordBits w).take vb), totExc ((wordBits w).take vb)) := by
  rw [wordBits_take_eq_seg w vb hvb]
  unfold wordMinExcessRaw
  by_cases h0 : vb = 0
  · subst h0; simp [seg_zero, minExc, totExc]
  simp only [h0, if_false]
  have hfb : min (vb / 8) 8 = vb / 8 := by omega
  rw [hfb, fullBytes_spec w _ 0 0 0 (by omega)]
  have e : vb = 8 * (vb / 8) + vb % 8 := by omega
  have hm := minExc_le_zero (seg w (8 * 0) (8 * (vb / 8)))
  have hmt := minExc_le_tot (seg w (8 * 0) (8 * (vb / 8)))
  by_cases hr : vb % 8 > 0
  · simp only [hr, if_true]
    rw [partialBits_spec w (vb / 8) (vb % 8) 0 _ _ (by omega) (by omega)]
    conv => rhs; rw [e, seg_append, minExc_append, totExc_append]
    simp only [Nat.mul_zero, Nat.add_zero, Nat.zero_add] at *
    congr 1 <;> omega
  · have h8 : vb % 8 = 0 := by omega
    simp only [hr, if_false]
    conv => rhs; rw [e, h8, Nat.add_zero]
    simp only [Nat.mul_zero] at *
    congr 1 <;> omega

theorem clampI8_id (x : Int) (h1 : -128 ≤ x) (h2 : x ≤ 127) : clampI8 x = x := by
  unfold clampI8; rw [if_neg (by omega), if_neg (by omega)]

/-- `word_min_excess(word, valid_bits) -> (i8, i16)`: the `i8` clamp is lossless. -/
theorem wordMinExcess_spec (w : BitVec 64) (vb : Nat) (hvb : vb ≤ 64) :
    wordMinExcess w vb = (minExc ((wordBits w).take vb), totExc ((wordBits w).take vb)) := by
  unfold wordMinExcess
  rw [wordMinExcessRaw_spec w vb hvb]
  simp only
  have h1 := minExc_ge ((wordBits w).take vb)
  have h2 := minExc_le_zero ((wordBits w).take vb)
  have h3 : ((wordBits w).take vb).length ≤ 64 := by simp [wordBits_length]; omega
  rw [clampI8_id _ (by omega) (by omega)]

attribute [local irreducible] byteMin byteTot byteOf clampI8 in
theorem fullBytes8 (w : BitVec 64) : fullBytes w 8 0 0 0 =
    ((min (min (min (min (min (min (min (min 0 (0 + (byteMin (byteOf w 0)))) ((0 + (byteTot (byteOf w 0))) + (byteMin (byteOf w 1)))) (((0 + (byteTot (byteOf w 0))) + (byteTot (byteOf w 1))) + (byteMin (byteOf w 2)))) ((((0 + (byteTot (byteOf w 0))) + (byteTot (byteOf w 1))) + (byteTot (byteOf w 2))) + (byteMin (byteOf w 3)))) (((((0 + (byteTot (byteOf w 0))) + (byteTot (byteOf w 1))) + (byteTot (byteOf w 2))) + (byteTot (byteOf w 3))) + (byteMin (byteOf w 4)))) ((((((0 + (byteTot (byteOf w 0))) + (byteTot (byteOf w 1))) + (byteTot (byteOf w 2))) + (byteTot (byteOf w 3))) + (byteTot (byteOf w 4))) + (byteMin (byteOf w 5)))) (((((((0 + (byteTot (byteOf w 0))) + (byteTot (byteOf w 1))) + (byteTot (byteOf w 2))) + (byteTot (byteOf w 3))) + (byteTot (byteOf w 4))) + (byteTot (byteOf w 5))) + (byteMin (byteOf w 6)))) ((((((((0 + (byteTot (byteOf w 0))) + (byteTot (byteOf w 1))) + (byteTot (byteOf w 2))) + (byteTot (byteOf w 3))) + (byteTot (byteOf w 4))) + (byteTot (byteOf w 5))) + (byteTot (byteOf w 6))) + (byteMin (byteOf w 7)))), ((((((((0 + (byteTot (byteOf w 0))) + (byteTot (byteOf w 1))) + (byteTot (byteOf w 2))) + (byteTot (byteOf w 3))) + (byteTot (byteOf w 4))) + (byteTot (byteOf w 5))) + (byteTot (byteOf w 6))) + (byteTot (byteOf w 7)))) := rfl

attribute [local irreducible] byteMin byteTot byteOf clampI8 in
theorem unrolled_explicit (w : BitVec 64) : wordMinExcessUnrolled w =
    (clampI8 (min (min (min (min (min (min (min (byteMin (byteOf w 0)) ((byteTot (byteOf w 0)) + (byteMin (byteOf w 1)))) (((byteTot (byteOf w 0)) + (byteTot (byteOf w 1))) + (byteMin (byteOf w 2)))) ((((byteTot (byteOf w 0)) + (byteTot (byteOf w 1))) + (byteTot (byteOf w 2))) + (byteMin (byteOf w 3)))) (((((byteTot (byteOf w 0)) + (byteTot (byteOf w 1))) + (byteTot (byteOf w 2))) + (byteTot (byteOf w 3))) + (byteMin (byteOf w 4)))) ((((((byteTot (byteOf w 0)) + (byteTot (byteOf w 1))) + (byteTot (byteOf w 2))) + (byteTot (byteOf w 3))) + (byteTot (byteOf w 4))) + (byteMin (byteOf w 5)))) (((((((byteTot (byteOf w 0)) + (byteTot (byteOf w 1))) + (byteTot (byteOf w 2))) + (byteTot (byteOf w 3))) + (byteTot (byteOf w 4))) + (byteTot (byteOf w 5))) + (byteMin (byteOf w 6)))) ((((((((byteTot (byteOf w 0)) + (byteTot (byteOf w 1))) + (byteTot (byteOf w 2))) + (byteTot (byteOf w 3))) + (byteTot (byteOf w 4))) + (byteTot (byteOf w 5))) + (byteTot (byteOf w 6))) + (byteMin (byteOf w 7)))), ((((((((byteTot (byteOf w 0)) + (byteTot (byteOf w 1))) + (byteTot (byteOf w 2))) + (byteTot (byteOf w 3))) + (byteTot (byteOf w 4))) + (byteTot (byteOf w 5))) + (byteTot (byteOf w 6))) + (byteTot (byteOf w 7)))) := by
  unfold wordMinExcessUnrolled
  rfl

/-- `word_min_excess_unrolled(word)`: same summaries for a full word, clamp lossless. -/
theorem wordMinExcessUnrolled_spec (w : BitVec 64) :
    wordMinExcessUnrolled w = (minExc (wordBits w), totExc (wordBits w)) := by
  have h := fullBytes_spec w 8 0 0 0 (by omega)
  have hm0 := minExc_le_zero (byteOfNat (byteOf w 0))
  rw [← byteMin_spec _ (byteOf_lt w 0)] at hm0
  have e : 8 * 8 = 64 := rfl
  have h1 := minExc_ge (seg w 0 64)
  have h2 := minExc_le_zero (seg w 0 64)
  rw [seg_length] at h1
  rw [fullBytes8] at h
  simp only [Nat.mul_zero, e, Int.zero_add] at h
  rw [Int.min_eq_right hm0, Int.min_eq_right h2] at h
  obtain ⟨hA, hB⟩ := Prod.mk.inj h
  rw [unrolled_explicit, wordBits_eq_seg, hA, hB, clampI8_id _ (by omega) (by omega)]

theorem maxRevBytes_spec (w : BitVec 64) (n : Nat) (r g : Int) (hg : r ≤ g) :
    maxRevBytes w n r g =
      (max g (r + maxSufExc (seg w 0 (8 * n))), r + totExc (seg w 0 (8 * n))) := by
  induction n generalizing r g with
  | zero => simp only [maxRevBytes, Nat.mul_zero, seg_zero, maxSufExc, totExc]; congr 1 <;> omega
  | succ n ih =>
    have e : 8 * (n + 1) = 8 * n + 8 := by omega
    rw [e, seg_append, maxSufExc_append, totExc_append]
    simp only [maxRevBytes]
    have hmt := maxSufExc_ge_tot (seg w (8 * n) 8)
    rw [byteMaxRev_spec _ (byteOf_lt w n), byteTot_spec _ (byteOf_lt w n), byteOfNat_byteOf, ih _ _ (by omega)]
    simp only [Nat.zero_add]
    congr 1 <;> omega

/-- `word_max_excess_rev(word)` = (maximum running excess of the right-to-left scan, total). -/
theorem wordMaxExcessRev_spec (w : BitVec 64) :
    wordMaxExcessRev w = (maxSufExc (wordBits w), totExc (wordBits w)) := by
  unfold wordMaxExcessRev
  rw [maxRevBytes_spec w 8 0 0 (by omega), wordBits_eq_seg]
  have e : 8 * 8 = 64 := rfl
  rw [e]
  have := maxSufExc_ge_zero (seg w 0 64)
  congr 1 <;> omega

end SV.BPW
