/-
Proof/EliasFanoWord — word-level facts used by the Elias–Fano cursor proofs: `trailing_zeros`,
`x & (x - 1)` (clear the lowest set bit), the "mask from offset" word, and their readings on
`wordBits` / `selectB` / `popcount`.
-/
import SuccinctlyVerif.Spec.Bits
import SuccinctlyVerif.Model.EliasFano
import SuccinctlyVerif.Proof.Scan
import SuccinctlyVerif.Proof.Kernels
namespace SV.EF
open SV

/-! ### trailing zeros -/

theorem tz_lt {x : BitVec 64} (hx : x ≠ 0) : tz x < 64 := by
  have h := (BitVec.ctz_lt_iff_ne_zero (x := x)).2 hx
  have h2 := (BitVec.lt_def).1 h
  simpa [tz] using h2

theorem getLsbD_tz {x : BitVec 64} (hx : x ≠ 0) : x.getLsbD (tz x) = true :=
  BitVec.getLsbD_true_ctz_of_ne_zero hx

theorem getLsbD_of_lt_tz {x : BitVec 64} {i : Nat} (h : i < tz x) : x.getLsbD i = false :=
  BitVec.getLsbD_false_of_lt_ctz h

theorem tz_zero : tz (0 : BitVec 64) = 64 := by
  have h : (0#64).ctz = 64#64 := by
    rw [BitVec.ctz_eq_reverse_clz]
    have : (0#64).reverse = 0#64 := by
      apply BitVec.eq_of_getLsbD_eq; intro i hi; simp [BitVec.getLsbD_reverse]
    rw [this]
    exact (BitVec.clz_eq_iff_eq_zero).2 rfl
  simp [tz, h]

/-! ### `n - 1` on naturals, bitwise -/

theorem nat_split (n t : Nat) (ht : n.testBit t = true) (hlow : ∀ i, i < t → n.testBit i = false) :
    n = 2 ^ (t + 1) * (n / 2 ^ (t + 1)) + 2 ^ t := by
  have hmod : n % 2 ^ (t + 1) = 2 ^ t := by
    apply Nat.eq_of_testBit_eq
    intro j
    rw [Nat.testBit_mod_two_pow, Nat.testBit_two_pow]
    by_cases h1 : j < t
    · have : ¬ t = j := by omega
      simp [hlow j h1, this]
    · by_cases h2 : j = t
      · subst h2; simp [ht]
      · have h3 : ¬ j < t + 1 := by omega
        have : ¬ t = j := by omega
        simp [h3, this]
  have := Nat.div_add_mod n (2 ^ (t + 1))
  omega

theorem nat_testBit_pred (n t : Nat) (ht : n.testBit t = true)
    (hlow : ∀ i, i < t → n.testBit i = false) (i : Nat) :
    (n - 1).testBit i = if i < t then true else if i = t then false else n.testBit i := by
  have hs := nat_split n t ht hlow
  generalize n / 2 ^ (t + 1) = m at hs
  have hpos : 0 < 2 ^ t := Nat.two_pow_pos t
  have hlt : 2 ^ t - 1 < 2 ^ (t + 1) := by
    have : 2 ^ (t + 1) = 2 * 2 ^ t := by rw [Nat.pow_succ]; omega
    omega
  have hlt' : 2 ^ t < 2 ^ (t + 1) := by
    have : 2 ^ (t + 1) = 2 * 2 ^ t := by rw [Nat.pow_succ]; omega
    omega
  have e1 : n - 1 = 2 ^ (t + 1) * m + (2 ^ t - 1) := by omega
  rw [e1, Nat.testBit_two_pow_mul_add m hlt i]
  by_cases h1 : i < t
  · have : i < t + 1 := by omega
    simp [h1, this]
  · by_cases h2 : i = t
    · subst h2; simp
    · have h3 : ¬ i < t + 1 := by omega
      rw [hs, Nat.testBit_two_pow_mul_add m hlt' i]
      simp [h1, h2, h3]

/-! ### clearing the lowest set bit -/

theorem getLsbD_clearLowest (x : BitVec 64) (i : Nat) :
    (clearLowest x).getLsbD i = (x.getLsbD i && decide (i ≠ tz x)) := by
  by_cases hx : x = 0
  · subst hx; simp [clearLowest]
  · have hne : x.toNat ≠ 0 := fun h => hx (BitVec.eq_of_toNat_eq (by simpa using h))
    have hlt := x.isLt
    have hsub : (x - 1).toNat = x.toNat - 1 := by
      rw [BitVec.toNat_sub]
      simp
      omega
    have hp := nat_testBit_pred x.toNat (tz x) (getLsbD_tz hx)
      (fun j hj => getLsbD_of_lt_tz hj) i
    unfold clearLowest
    rw [BitVec.getLsbD_and]
    rw [← BitVec.testBit_toNat (x := x - 1), hsub, hp]
    by_cases h1 : i < tz x
    · have : i ≠ tz x := by omega
      simp [h1, this]
    · by_cases h2 : i = tz x
      · simp [h2]
      · simp [h1, h2, BitVec.testBit_toNat]

/-! ### the mask `!((1 << off) - 1)` -/

theorem getLsbD_maskFrom (w : BitVec 64) (off i : Nat) (hoff : off < 64) :
    (w &&& ~~~((1#64 <<< off) - 1)).getLsbD i = (w.getLsbD i && decide (off ≤ i)) := by
  have hpow : 2 ^ off < 2 ^ 64 := Nat.pow_lt_pow_right (by omega) hoff
  have hpos : 0 < 2 ^ off := Nat.two_pow_pos off
  have h1 : (1#64 <<< off).toNat = 2 ^ off := by
    rw [← BitVec.twoPow_eq, BitVec.toNat_twoPow_of_lt hoff]
  have h2 : ((1#64 <<< off) - 1).toNat = 2 ^ off - 1 := by
    rw [BitVec.toNat_sub, h1]
    simp
    omega
  rw [BitVec.getLsbD_and, BitVec.getLsbD_not, ← BitVec.testBit_toNat (x := (1#64 <<< off) - 1), h2,
    Nat.testBit_two_pow_sub_one]
  by_cases hi : i < 64
  · by_cases h : off ≤ i
    · have : ¬ i < off := by omega
      simp [hi, h, this]
    · have : i < off := by omega
      simp [hi, h, this]
  · have : w.getLsbD i = false := BitVec.getLsbD_of_ge w i (by omega)
    simp [this]

/-! ### `wordBits` readings -/

theorem wordBits_getElem? (w : BitVec 64) (i : Nat) :
    (wordBits w)[i]? = if i < 64 then some (w.getLsbD i) else none := by
  unfold wordBits
  by_cases h : i < 64
  · rw [List.getElem?_map, List.getElem?_range h]; simp [h]
  · rw [List.getElem?_eq_none (by simp; omega)]; simp [h]

theorem wordBits_maskFrom (w : BitVec 64) (off : Nat) (hoff : off < 64) :
    wordBits (w &&& ~~~((1#64 <<< off) - 1)) = List.replicate off false ++ (wordBits w).drop off := by
  apply List.ext_getElem?
  intro i
  rw [wordBits_getElem?, getLsbD_maskFrom w off i hoff, List.getElem?_append, List.length_replicate,
    List.getElem?_replicate, List.getElem?_drop, wordBits_getElem?]
  by_cases h1 : i < off
  · have h2 : i < 64 := by omega
    have h3 : ¬ off ≤ i := by omega
    simp [h1, h2, h3]
  · have h3 : off ≤ i := by omega
    have h4 : off + (i - off) = i := by omega
    simp [h1, h3, h4]

theorem wordBits_clearLowest (x : BitVec 64) :
    wordBits (clearLowest x) = (wordBits x).set (tz x) false := by
  apply List.ext_getElem?
  intro i
  rw [wordBits_getElem?, getLsbD_clearLowest, List.getElem?_set, wordBits_getElem?,
    Scan.wordBits_length]
  by_cases h1 : i < 64
  · by_cases h2 : tz x = i
    · subst h2; simp [h1]
    · have : ¬ i = tz x := fun h => h2 h.symm
      simp [h1, h2, this]
  · by_cases h2 : tz x = i
    · subst h2; simp [h1]
    · simp [h1, h2]

/-! ### list-level: clearing the first `true` -/

theorem selectB_set_first (l : List Bool) (t : Nat) (ht : t < l.length) (h1 : l[t]'ht = true)
    (h0 : ∀ i, i < t → l[i]? = some false) (j : Nat) :
    selectB true (l.set t false) j = selectB true l (j + 1) := by
  induction l generalizing t with
  | nil => simp at ht
  | cons x xs ih =>
    cases t with
    | zero =>
      simp only [List.getElem_cons_zero] at h1
      subst h1
      simp [selectB]
    | succ t =>
      have hx : x = false := by simpa using h0 0 (by omega)
      subst hx
      have ht' : t < xs.length := by simpa using ht
      have h1' : xs[t]'ht' = true := by simpa using h1
      have h0' : ∀ i, i < t → xs[i]? = some false := by
        intro i hi
        have := h0 (i + 1) (by omega)
        simpa using this
      simp only [List.set_cons_succ, selectB, Bool.false_eq_true, if_false]
      rw [ih t ht' h1' h0']

theorem selectB_zero_first (l : List Bool) (t : Nat) (ht : t < l.length) (h1 : l[t]'ht = true)
    (h0 : ∀ i, i < t → l[i]? = some false) : selectB true l 0 = some t := by
  induction l generalizing t with
  | nil => simp at ht
  | cons x xs ih =>
    cases t with
    | zero =>
      simp only [List.getElem_cons_zero] at h1
      subst h1
      simp [selectB]
    | succ t =>
      have hx : x = false := by simpa using h0 0 (by omega)
      subst hx
      have ht' : t < xs.length := by simpa using ht
      have h1' : xs[t]'ht' = true := by simpa using h1
      have h0' : ∀ i, i < t → xs[i]? = some false := by
        intro i hi
        have := h0 (i + 1) (by omega)
        simpa using this
      simp only [selectB, Bool.false_eq_true, if_false]
      rw [ih t ht' h1' h0']
      rfl

theorem count_set_first (l : List Bool) (t : Nat) (ht : t < l.length) (h1 : l[t]'ht = true) :
    (l.set t false).count true + 1 = l.count true := by
  induction l generalizing t with
  | nil => simp at ht
  | cons x xs ih =>
    cases t with
    | zero =>
      simp only [List.getElem_cons_zero] at h1
      subst h1
      simp
    | succ t =>
      have ht' : t < xs.length := by simpa using ht
      have h1' : xs[t]'ht' = true := by simpa using h1
      have := ih t ht' h1'
      simp only [List.set_cons_succ, List.count_cons]
      omega

theorem selectB_lt_length (b : Bool) (l : List Bool) (k p : Nat) (h : selectB b l k = some p) :
    p < l.length := by
  induction l generalizing k p with
  | nil => simp [selectB] at h
  | cons x xs ih =>
    by_cases hx : x = b
    · cases k with
      | zero =>
        simp [selectB, hx] at h
        subst h; simp
      | succ k =>
        simp only [selectB, hx, if_true] at h
        cases hs : selectB b xs k with
        | none => simp [hs] at h
        | some q =>
          have := ih k q hs
          simp [hs] at h
          subst h; simp; omega
    · simp only [selectB, hx, if_false] at h
      cases hs : selectB b xs k with
      | none => simp [hs] at h
      | some q =>
        have := ih k q hs
        simp [hs] at h
        subst h; simp; omega

/-! ### word-level select / popcount under `clearLowest` -/

theorem wordBits_getElem_tz {x : BitVec 64} (hx : x ≠ 0) :
    (wordBits x)[tz x]'(by rw [Scan.wordBits_length]; exact tz_lt hx) = true := by
  have h := wordBits_getElem? x (tz x)
  rw [if_pos (tz_lt hx), getLsbD_tz hx] at h
  have hlt : tz x < (wordBits x).length := by rw [Scan.wordBits_length]; exact tz_lt hx
  rw [List.getElem?_eq_getElem hlt] at h
  exact Option.some.inj h

theorem wordBits_getElem?_lt_tz (x : BitVec 64) (i : Nat) (hi : i < tz x) (hx : x ≠ 0) :
    (wordBits x)[i]? = some false := by
  have := tz_lt hx
  rw [wordBits_getElem?, if_pos (by omega), getLsbD_of_lt_tz hi]

theorem selectB_wordBits_zero {x : BitVec 64} (hx : x ≠ 0) :
    selectB true (wordBits x) 0 = some (tz x) :=
  selectB_zero_first (wordBits x) (tz x) (by rw [Scan.wordBits_length]; exact tz_lt hx)
    (wordBits_getElem_tz hx) (fun i hi => wordBits_getElem?_lt_tz x i hi hx)

theorem clearLowest_zero : clearLowest (0 : BitVec 64) = 0 := by simp [clearLowest]

theorem popcount_zero : popcount (0 : BitVec 64) = 0 := by
  unfold popcount
  rw [List.count_eq_zero]
  intro h
  rw [List.mem_iff_getElem?] at h
  obtain ⟨i, hi⟩ := h
  rw [wordBits_getElem?] at hi
  split at hi <;> simp at hi

theorem selectB_wordBits_clearLowest (x : BitVec 64) (j : Nat) :
    selectB true (wordBits (clearLowest x)) j = selectB true (wordBits x) (j + 1) := by
  by_cases hx : x = 0
  · subst hx
    rw [clearLowest_zero, Scan.selectB_none_of_count_le true _ j (by
        show popcount 0 ≤ j
        rw [popcount_zero]; omega),
      Scan.selectB_none_of_count_le true _ (j + 1) (by
        show popcount 0 ≤ j + 1
        rw [popcount_zero]; omega)]
  · rw [wordBits_clearLowest]
    exact selectB_set_first (wordBits x) (tz x) (by rw [Scan.wordBits_length]; exact tz_lt hx)
      (wordBits_getElem_tz hx) (fun i hi => wordBits_getElem?_lt_tz x i hi hx) j

theorem popcount_clearLowest {x : BitVec 64} (hx : x ≠ 0) :
    popcount (clearLowest x) + 1 = popcount x := by
  unfold popcount
  rw [wordBits_clearLowest]
  exact count_set_first (wordBits x) (tz x) (by rw [Scan.wordBits_length]; exact tz_lt hx)
    (wordBits_getElem_tz hx)

theorem popcount_eq_zero_iff (x : BitVec 64) : popcount x = 0 ↔ x = 0 := by
  constructor
  · intro h
    apply Classical.byContradiction
    intro hx
    have := popcount_clearLowest hx
    omega
  · intro h; subst h; exact popcount_zero

theorem selectB_wordBits_clearLowestN (n : Nat) (x : BitVec 64) (j : Nat) :
    selectB true (wordBits (clearLowestN n x)) j = selectB true (wordBits x) (j + n) := by
  induction n generalizing x j with
  | zero => rfl
  | succ n ih =>
    show selectB true (wordBits (clearLowestN n (clearLowest x))) j = _
    rw [ih, selectB_wordBits_clearLowest]
    rfl

theorem popcount_clearLowestN (n : Nat) (x : BitVec 64) :
    popcount (clearLowestN n x) = popcount x - n := by
  induction n generalizing x with
  | zero => rfl
  | succ n ih =>
    show popcount (clearLowestN n (clearLowest x)) = _
    rw [ih]
    by_cases hx : x = 0
    · subst hx; rw [clearLowest_zero, popcount_zero]; omega
    · have := popcount_clearLowest hx
      omega

theorem selectB_wordBits_eq {w : BitVec 64} {k : Nat} (hk : k < popcount w) :
    selectB true (wordBits w) k = some (selectInWordSpec w k) := by
  have h := Scan.selectB_isSome_of_lt true (wordBits w) k hk
  unfold selectInWordSpec
  cases hs : selectB true (wordBits w) k with
  | none => simp [hs] at h
  | some p => rfl

theorem selectInWordSpec_lt {w : BitVec 64} {k : Nat} (hk : k < popcount w) :
    selectInWordSpec w k < 64 := by
  have := selectB_lt_length true (wordBits w) k _ (selectB_wordBits_eq hk)
  rwa [Scan.wordBits_length] at this

theorem clearLowestN_ne_zero {x : BitVec 64} {n : Nat} (hn : n < popcount x) :
    clearLowestN n x ≠ 0 := by
  intro h
  have h1 := popcount_clearLowestN n x
  rw [h, popcount_zero] at h1
  omega

theorem tz_clearLowestN {x : BitVec 64} {n : Nat} (hn : n < popcount x) :
    tz (clearLowestN n x) = selectInWordSpec x n := by
  have h1 := selectB_wordBits_zero (clearLowestN_ne_zero hn)
  rw [selectB_wordBits_clearLowestN, Nat.zero_add, selectB_wordBits_eq hn] at h1
  exact (Option.some.inj h1).symm

theorem selectB_replicate_false_append (n : Nat) (l : List Bool) (k : Nat) :
    selectB true (List.replicate n false ++ l) k = (selectB true l k).map (· + n) := by
  induction n with
  | zero => simp
  | succ n ih =>
    rw [List.replicate_succ, List.cons_append]
    simp only [selectB, Bool.false_eq_true, if_false]
    rw [ih]
    cases selectB true l k <;> simp
    omega

end SV.EF
