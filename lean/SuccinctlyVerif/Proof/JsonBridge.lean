/-
Proof/JsonBridge — the documents of C06 / C32 (`Doc` renderings) against the RFC 8259 grammar of C08
(`Spec/Json.lean`).
-/
import SuccinctlyVerif.Spec.Json
import SuccinctlyVerif.Proof.JsonNavTree
namespace SV.JsonNav
open SV SV.JsonText SV.JsonSimple

/-! ### bridge: renderings of documents are RFC 8259 texts in the sense of C08's grammar -/

open SV.JsonText in
mutual
  /-- Every string of the value (string values and object keys) has a body accepted by C08's
  `StrBody`: unescaped characters are well-formed UTF-8 scalars ≥ U+0020 other than `"` and `\`,
  `\u` escapes are non-surrogates or high/low pairs. -/
  def StrsOk : JVal → Prop
    | .lit _ | .num _ | .arr0 _ | .obj0 _ => True
    | .str b => Json.StrBody (b.flatMap SChar.bytes)
    | .arr _ v _ rest => StrsOk v ∧ ItemsOk rest
    | .obj _ k _ _ v _ rest => Json.StrBody (k.flatMap SChar.bytes) ∧ StrsOk v ∧ MembersOk rest
  def ItemsOk : JItems → Prop
    | .nil => True
    | .cons _ v _ rest => StrsOk v ∧ ItemsOk rest
  def MembersOk : JMembers → Prop
    | .nil => True
    | .cons _ k _ _ v _ rest => Json.StrBody (k.flatMap SChar.bytes) ∧ StrsOk v ∧ MembersOk rest
end

theorem ws_bytes (w : Ws) : Json.Ws (toksBytes (wsToks w)) := by
  induction w with
  | nil => intro b hb; simp [wsToks, toksBytes] at hb
  | cons c cs ih =>
    intro b hb
    simp only [wsToks, List.map_cons, toksBytes_cons, List.mem_append] at hb
    rcases hb with hb | hb
    · cases c <;> simp [Tok.bytes, WsChar.byte] at hb <;> subst hb <;> decide
    · exact ih b (by simpa [wsToks] using hb)

theorem digit_isDigit : ∀ d : Fin 10, Json.isDigit (Digit.byte d) = true := by decide
theorem digit19 : ∀ d : Fin 9, Json.isDigit19 (BitVec.ofNat 8 (0x31 + d.val)) = true := by decide

theorem digits_map (ds : List Digit) : Json.Digits (ds.map Digit.byte) := by
  intro b hb
  simp only [List.mem_map] at hb
  obtain ⟨d, _, rfl⟩ := hb
  exact digit_isDigit d

theorem number_lit (n : NumLit) : Json.NumberLit n.bytes := by
  refine ⟨if n.neg then [0x2D#8] else [], n.int.bytes,
    (match n.frac with | none => [] | some (d, ds) => 0x2E#8 :: d.byte :: ds.map Digit.byte),
    (match n.exp with | none => [] | some e => e.bytes), ?_, ?_, ?_, ?_, ?_⟩
  · obtain ⟨ng, ip, fr, ex⟩ := n
    cases fr <;> cases ex <;> simp [NumLit.bytes, List.append_assoc]
  · cases n.neg <;> simp
  · cases n.int with
    | zero => exact Or.inl rfl
    | nonzero d rest => exact Or.inr ⟨_, _, rfl, digit19 d, digits_map rest⟩
  · cases n.frac with
    | none => exact Or.inl rfl
    | some p =>
      obtain ⟨d, ds⟩ := p
      refine Or.inr ⟨d.byte :: ds.map Digit.byte, rfl, by simp, ?_⟩
      intro b hb
      simp only [List.mem_cons] at hb
      rcases hb with rfl | hb
      · exact digit_isDigit d
      · exact digits_map ds b hb
  · cases n.exp with
    | none => exact Or.inl rfl
    | some e =>
      refine Or.inr ⟨if e.upper then 0x45#8 else 0x65#8,
        (match e.sign with | none => [] | some true => [0x2B#8] | some false => [0x2D#8]),
        e.first.byte :: e.rest.map Digit.byte, rfl, ?_, ?_, by simp, ?_⟩
      · cases e.upper <;> simp
      · cases e.sign with
        | none => simp
        | some s => cases s <;> simp
      · intro b hb
        simp only [List.mem_cons] at hb
        rcases hb with rfl | hb
        · exact digit_isDigit e.first
        · exact digits_map e.rest b hb

theorem scalar_lit (l : Lit) : Json.Scalar l.bytes := by
  cases l
  · exact Or.inr (Or.inl rfl)
  · exact Or.inr (Or.inr (Or.inl rfl))
  · exact Or.inl rfl

theorem jvalue_of_scalar (D : Nat) (s : Json.Bytes) (h : Json.Scalar s) : Json.JValueAt D s := by
  cases D with
  | zero => exact h
  | succ D => exact Or.inl h

theorem string_lit (body : List SChar) (h : Json.StrBody (body.flatMap SChar.bytes)) :
    Json.StringLit (Tok.str body).bytes := ⟨_, h, rfl⟩

theorem bytes_arr0 (ws : Ws) : toksBytes (JVal.arr0 ws).toks = 0x5B#8 :: (toksBytes (wsToks ws) ++ [0x5D#8]) := by
  simp [JVal.toks, toksBytes_cons, toksBytes_append, Tok.bytes, toksBytes]
theorem bytes_obj0 (ws : Ws) : toksBytes (JVal.obj0 ws).toks = 0x7B#8 :: (toksBytes (wsToks ws) ++ [0x7D#8]) := by
  simp [JVal.toks, toksBytes_cons, toksBytes_append, Tok.bytes, toksBytes]
theorem bytes_arr (ws0 : Ws) (v : JVal) (ws1 : Ws) (rest : JItems) :
    toksBytes (JVal.arr ws0 v ws1 rest).toks =
      0x5B#8 :: ((toksBytes (wsToks ws0) ++ (toksBytes v.toks ++ (toksBytes (wsToks ws1) ++ toksBytes rest.toks))) ++ [0x5D#8]) := by
  simp [JVal.toks, toksBytes_cons, toksBytes_append, Tok.bytes, toksBytes]
theorem bytes_obj (ws0 : Ws) (k : List SChar) (ws1 ws2 : Ws) (v : JVal) (ws3 : Ws) (rest : JMembers) :
    toksBytes (JVal.obj ws0 k ws1 ws2 v ws3 rest).toks =
      0x7B#8 :: ((toksBytes (wsToks ws0) ++ ((Tok.str k).bytes ++ (toksBytes (wsToks ws1) ++ 0x3A#8 ::
        (toksBytes (wsToks ws2) ++ (toksBytes v.toks ++ (toksBytes (wsToks ws3) ++ toksBytes rest.toks)))))) ++ [0x7D#8]) := by
  simp [JVal.toks, toksBytes_cons, toksBytes_append, Tok.bytes, toksBytes]
theorem bytes_items (ws0 : Ws) (v : JVal) (ws1 : Ws) (rest : JItems) :
    toksBytes (JItems.cons ws0 v ws1 rest).toks =
      0x2C#8 :: (toksBytes (wsToks ws0) ++ (toksBytes v.toks ++ (toksBytes (wsToks ws1) ++ toksBytes rest.toks))) := by
  simp [JItems.toks, toksBytes_cons, toksBytes_append, Tok.bytes, toksBytes]
theorem bytes_members (ws0 : Ws) (k : List SChar) (ws1 ws2 : Ws) (v : JVal) (ws3 : Ws) (rest : JMembers) :
    toksBytes (JMembers.cons ws0 k ws1 ws2 v ws3 rest).toks =
      0x2C#8 :: (toksBytes (wsToks ws0) ++ ((Tok.str k).bytes ++ (toksBytes (wsToks ws1) ++ 0x3A#8 ::
        (toksBytes (wsToks ws2) ++ (toksBytes v.toks ++ (toksBytes (wsToks ws3) ++ toksBytes rest.toks)))))) := by
  simp [JMembers.toks, toksBytes_cons, toksBytes_append, Tok.bytes, toksBytes]

mutual
  theorem val_valid : ∀ (v : JVal) (D : Nat), StrsOk v → depth v ≤ D → Json.JValueAt D (toksBytes v.toks)
    | .lit l, D, _, _ => by
      have : toksBytes (JVal.lit l).toks = l.bytes := by simp [JVal.toks, toksBytes, Tok.bytes]
      rw [this]; exact jvalue_of_scalar D _ (scalar_lit l)
    | .num n, D, _, _ => by
      have : toksBytes (JVal.num n).toks = n.bytes := by simp [JVal.toks, toksBytes, Tok.bytes]
      rw [this]; exact jvalue_of_scalar D _ (Or.inr (Or.inr (Or.inr (Or.inl (number_lit n)))))
    | .str b, D, h, _ => by
      have : toksBytes (JVal.str b).toks = (Tok.str b).bytes := by simp [JVal.toks, toksBytes]
      rw [this]
      exact jvalue_of_scalar D _ (Or.inr (Or.inr (Or.inr (Or.inr (string_lit b (by simpa [StrsOk] using h))))))
    | .arr0 ws, D, _, hd => by
      obtain ⟨D', rfl⟩ : ∃ D', D = D' + 1 := ⟨D - 1, by simp [depth] at hd; omega⟩
      rw [bytes_arr0]
      exact Or.inr (Or.inl ⟨_, ws_bytes ws, rfl⟩)
    | .obj0 ws, D, _, hd => by
      obtain ⟨D', rfl⟩ : ∃ D', D = D' + 1 := ⟨D - 1, by simp [depth] at hd; omega⟩
      rw [bytes_obj0]
      exact Or.inr (Or.inr (Or.inr (Or.inl ⟨_, ws_bytes ws, rfl⟩)))
    | .arr ws0 v ws1 rest, D, h, hd => by
      obtain ⟨D', rfl⟩ : ∃ D', D = D' + 1 := ⟨D - 1, by simp [depth] at hd; omega⟩
      have hdv : depth v ≤ D' := by simp [depth] at hd; omega
      have hdr : itemsDepth rest ≤ D' := by simp [depth] at hd; omega
      simp only [StrsOk] at h
      rw [bytes_arr]
      exact Or.inr (Or.inr (Or.inl ⟨_, items_valid rest D' _ _ _ h.2 hdr (ws_bytes ws0) (val_valid v D' h.1 hdv)
        (ws_bytes ws1), rfl⟩))
    | .obj ws0 k ws1 ws2 v ws3 rest, D, h, hd => by
      obtain ⟨D', rfl⟩ : ∃ D', D = D' + 1 := ⟨D - 1, by simp [depth] at hd; omega⟩
      have hdv : depth v ≤ D' := by simp [depth] at hd; omega
      have hdr : membersDepth rest ≤ D' := by simp [depth] at hd; omega
      simp only [StrsOk] at h
      rw [bytes_obj]
      exact Or.inr (Or.inr (Or.inr (Or.inr ⟨_, members_valid rest D' _ _ _ _ _ _ h.2.2 hdr (ws_bytes ws0)
        (string_lit k h.1) (ws_bytes ws1) (ws_bytes ws2) (val_valid v D' h.2.1 hdv) (ws_bytes ws3), rfl⟩)))
  theorem items_valid : ∀ (r : JItems) (D : Nat) (w1 vb w2 : Json.Bytes), ItemsOk r → itemsDepth r ≤ D →
      Json.Ws w1 → Json.JValueAt D vb → Json.Ws w2 →
      Json.Elems (Json.JValueAt D) (w1 ++ (vb ++ (w2 ++ toksBytes r.toks)))
    | .nil, D, w1, vb, w2, _, _, h1, hv, h2 => by
      have : toksBytes JItems.nil.toks = [] := rfl
      rw [this, List.append_nil]; exact Json.Elems.one w1 vb w2 h1 hv h2
    | .cons ws0 v ws1 rest, D, w1, vb, w2, h, hd, h1, hv, h2 => by
      have hdv : depth v ≤ D := by simp [itemsDepth] at hd; omega
      have hdr : itemsDepth rest ≤ D := by simp [itemsDepth] at hd; omega
      simp only [ItemsOk] at h
      rw [bytes_items]
      exact Json.Elems.cons w1 vb w2 _ h1 hv h2
        (items_valid rest D _ _ _ h.2 hdr (ws_bytes ws0) (val_valid v D h.1 hdv) (ws_bytes ws1))
  theorem members_valid : ∀ (r : JMembers) (D : Nat) (w1 k w2 w3 vb w4 : Json.Bytes), MembersOk r →
      membersDepth r ≤ D → Json.Ws w1 → Json.StringLit k → Json.Ws w2 → Json.Ws w3 → Json.JValueAt D vb →
      Json.Ws w4 →
      Json.Members (Json.JValueAt D) (w1 ++ (k ++ (w2 ++ 0x3A#8 :: (w3 ++ (vb ++ (w4 ++ toksBytes r.toks))))))
    | .nil, D, w1, k, w2, w3, vb, w4, _, _, h1, hk, h2, h3, hv, h4 => by
      have : toksBytes JMembers.nil.toks = [] := rfl
      rw [this, List.append_nil]; exact Json.Members.one w1 k w2 w3 vb w4 h1 hk h2 h3 hv h4
    | .cons ws0 k' ws1 ws2 v ws3 rest, D, w1, k, w2, w3, vb, w4, h, hd, h1, hk, h2, h3, hv, h4 => by
      have hdv : depth v ≤ D := by simp [membersDepth] at hd; omega
      have hdr : membersDepth rest ≤ D := by simp [membersDepth] at hd; omega
      simp only [MembersOk] at h
      rw [bytes_members]
      exact Json.Members.cons w1 k w2 w3 vb w4 _ h1 hk h2 h3 hv h4
        (members_valid rest D _ _ _ _ _ _ h.2.2 hdr (ws_bytes ws0) (string_lit k' h.1) (ws_bytes ws1)
          (ws_bytes ws2) (val_valid v D h.2.1 hdv) (ws_bytes ws3))
end

/-- Every document whose strings are well-formed renders to a valid RFC 8259 text in the sense of
C08's grammar, with nesting bound `depth d.value`. -/
theorem doc_valid (d : Doc) (h : StrsOk d.value) : Json.Valid (depth d.value) d.text := by
  refine ⟨toksBytes (wsToks d.ws0), toksBytes d.value.toks, toksBytes (wsToks d.ws1), ws_bytes _,
    val_valid d.value _ h (Nat.le_refl _), ws_bytes _, ?_⟩
  simp [Doc.text, Doc.toks, toksBytes_append]

/-! ### converse: every valid text (C08) is the rendering of a document -/

theorem ws_lift_byte : ∀ b : BitVec 8, Json.isWs b = true → ∃ c : WsChar, c.byte = b := by
  intro b h
  simp only [Json.isWs, Bool.or_eq_true, beq_iff_eq] at h
  rcases h with ((h | h) | h) | h
  · exact ⟨.sp, h.symm⟩
  · exact ⟨.tab, h.symm⟩
  · exact ⟨.lf, h.symm⟩
  · exact ⟨.cr, h.symm⟩

theorem ws_lift (w : Json.Bytes) (h : Json.Ws w) : ∃ ws : Ws, toksBytes (wsToks ws) = w := by
  induction w with
  | nil => exact ⟨[], rfl⟩
  | cons b bs ih =>
    obtain ⟨c, hc⟩ := ws_lift_byte b (h b (by simp))
    obtain ⟨ws, hws⟩ := ih (fun x hx => h x (by simp [hx]))
    refine ⟨c :: ws, ?_⟩
    simp only [wsToks, List.map_cons, toksBytes_cons, Tok.bytes, hc] at hws ⊢
    simp [wsToks, hws]

theorem digit_lift : ∀ b : BitVec 8, Json.isDigit b = true → ∃ d : Fin 10, Digit.byte d = b := by decide
theorem digit19_lift : ∀ b : BitVec 8, Json.isDigit19 b = true → ∃ d : Fin 9, BitVec.ofNat 8 (0x31 + d.val) = b := by
  decide
theorem esc_lift : ∀ b : BitVec 8, Json.isSimpleEsc b = true →
    b = Esc.quote.byte ∨ b = Esc.backslash.byte ∨ b = Esc.slash.byte ∨ b = Esc.b.byte ∨ b = Esc.f.byte ∨
    b = Esc.n.byte ∨ b = Esc.r.byte ∨ b = Esc.t.byte := by decide
theorem hex_lift : ∀ b : BitVec 8, Json.isHex b = true →
    ∃ v : Fin 16, ∃ u : Bool, HexDigit.byte ⟨v, u⟩ = b := by decide

theorem digits_lift (ds : Json.Bytes) (h : Json.Digits ds) : ∃ l : List Digit, l.map Digit.byte = ds := by
  induction ds with
  | nil => exact ⟨[], rfl⟩
  | cons b bs ih =>
    obtain ⟨d, hd⟩ := digit_lift b (h b (by simp))
    obtain ⟨l, hl⟩ := ih (fun x hx => h x (by simp [hx]))
    exact ⟨d :: l, by simp [hd, hl]⟩

theorem number_lift (s : Json.Bytes) (h : Json.NumberLit s) : ∃ n : NumLit, n.bytes = s := by
  obtain ⟨sg, ip, fp, ep, rfl, hsg, hip, hfp, hep⟩ := h
  -- integer part
  obtain ⟨ipv, hipv⟩ : ∃ i : IntPart, i.bytes = ip := by
    rcases hip with rfl | ⟨d, ds, rfl, hd, hds⟩
    · exact ⟨.zero, rfl⟩
    · obtain ⟨d', hd'⟩ := digit19_lift d hd
      obtain ⟨l, hl⟩ := digits_lift ds hds
      exact ⟨.nonzero d' l, by simp [IntPart.bytes, hd', hl]⟩
  obtain ⟨fr, hfr⟩ : ∃ f : Option (Digit × List Digit),
      (match f with | none => [] | some (d, ds) => 0x2E#8 :: d.byte :: ds.map Digit.byte) = fp := by
    rcases hfp with rfl | ⟨ds, rfl, hne, hds⟩
    · exact ⟨none, rfl⟩
    · obtain ⟨l, hl⟩ := digits_lift ds hds
      cases l with
      | nil => simp at hl; exact absurd hl hne
      | cons d l' => exact ⟨some (d, l'), by simpa using hl⟩
  obtain ⟨ex, hex⟩ : ∃ e : Option Exp, (match e with | none => [] | some e => e.bytes) = ep := by
    rcases hep with rfl | ⟨e, sgn, ds, rfl, he, hsgn, hne, hds⟩
    · exact ⟨none, rfl⟩
    · obtain ⟨l, hl⟩ := digits_lift ds hds
      cases l with
      | nil => simp at hl; exact absurd hl hne
      | cons d l' =>
        have hup : ∃ u : Bool, (if u then 0x45#8 else 0x65#8) = e := by
          rcases he with rfl | rfl
          · exact ⟨false, rfl⟩
          · exact ⟨true, rfl⟩
        obtain ⟨u, hu⟩ := hup
        have hs : ∃ sg' : Option Bool,
            (match sg' with | none => [] | some true => [0x2B#8] | some false => [0x2D#8]) = sgn := by
          rcases hsgn with rfl | rfl | rfl
          · exact ⟨none, rfl⟩
          · exact ⟨some true, rfl⟩
          · exact ⟨some false, rfl⟩
        obtain ⟨sg', hsg'⟩ := hs
        subst hu; subst hsg'; subst hl
        exact ⟨some ⟨u, sg', d, l'⟩, by cases sg' with | none => simp [Exp.bytes] | some b => cases b <;> simp [Exp.bytes]⟩
  obtain ⟨ng, hng⟩ : ∃ ng : Bool, (if ng then [0x2D#8] else []) = sg := by
    rcases hsg with rfl | rfl
    · exact ⟨false, rfl⟩
    · exact ⟨true, rfl⟩
  subst hng; subst hipv; subst hfr; subst hex
  exact ⟨⟨ng, ipv, fr, ex⟩, by cases fr <;> cases ex <;> simp [NumLit.bytes, List.append_assoc]⟩

/-- every byte of a well-formed unescaped character may be written as a `plain` string byte -/
theorem char_bytes_plain (c : Json.Bytes) (h : Json.strCharOk c = true) :
    ∀ b ∈ c, b ≠ 0x22#8 ∧ b ≠ 0x5C#8 ∧ 0x20 ≤ b.toNat := by
  have one : ∀ a : BitVec 8, Json.strCharOk [a] = true → a ≠ 0x22#8 ∧ a ≠ 0x5C#8 ∧ 0x20 ≤ a.toNat := by decide
  have hi : ∀ a : BitVec 8, (decide (0x80 ≤ a) = true) → a ≠ 0x22#8 ∧ a ≠ 0x5C#8 ∧ 0x20 ≤ a.toNat := by decide
  have lead2 : ∀ a : BitVec 8, (decide (0xC2 ≤ a) = true) → decide (0x80 ≤ a) = true := by decide
  have cont : ∀ a : BitVec 8, Json.isCont a = true → decide (0x80 ≤ a) = true := by decide
  have eqE0 : ∀ a : BitVec 8, (a == 0xE0) = true → decide (0x80 ≤ a) = true := by decide
  have eqED : ∀ a : BitVec 8, (a == 0xED) = true → decide (0x80 ≤ a) = true := by decide
  have eqF0 : ∀ a : BitVec 8, (a == 0xF0) = true → decide (0x80 ≤ a) = true := by decide
  have eqF4 : ∀ a : BitVec 8, (a == 0xF4) = true → decide (0x80 ≤ a) = true := by decide
  have geE1 : ∀ a : BitVec 8, decide (0xE1 ≤ a) = true → decide (0x80 ≤ a) = true := by decide
  have geEE : ∀ a : BitVec 8, decide (0xEE ≤ a) = true → decide (0x80 ≤ a) = true := by decide
  have geF1 : ∀ a : BitVec 8, decide (0xF1 ≤ a) = true → decide (0x80 ≤ a) = true := by decide
  have geA0 : ∀ a : BitVec 8, decide (0xA0 ≤ a) = true → decide (0x80 ≤ a) = true := by decide
  have ge90 : ∀ a : BitVec 8, decide (0x90 ≤ a) = true → decide (0x80 ≤ a) = true := by decide
  have lead3 : ∀ a b : BitVec 8, ((a == 0xE0 && decide (0xA0 ≤ b) && decide (b ≤ 0xBF))
      || (decide (0xE1 ≤ a) && decide (a ≤ 0xEC) && Json.isCont b)
      || (a == 0xED && decide (0x80 ≤ b) && decide (b ≤ 0x9F))
      || (decide (0xEE ≤ a) && decide (a ≤ 0xEF) && Json.isCont b)) = true →
      decide (0x80 ≤ a) = true ∧ decide (0x80 ≤ b) = true := by
    intro a b h
    simp only [Bool.or_eq_true, Bool.and_eq_true] at h
    rcases h with ((h | h) | h) | h
    · exact ⟨eqE0 a h.1.1, geA0 b h.1.2⟩
    · exact ⟨geE1 a h.1.1, cont b h.2⟩
    · exact ⟨eqED a h.1.1, h.1.2⟩
    · exact ⟨geEE a h.1.1, cont b h.2⟩
  have lead4 : ∀ a b : BitVec 8, ((a == 0xF0 && decide (0x90 ≤ b) && decide (b ≤ 0xBF))
      || (decide (0xF1 ≤ a) && decide (a ≤ 0xF3) && Json.isCont b)
      || (a == 0xF4 && decide (0x80 ≤ b) && decide (b ≤ 0x8F))) = true →
      decide (0x80 ≤ a) = true ∧ decide (0x80 ≤ b) = true := by
    intro a b h
    simp only [Bool.or_eq_true, Bool.and_eq_true] at h
    rcases h with (h | h) | h
    · exact ⟨eqF0 a h.1.1, ge90 b h.1.2⟩
    · exact ⟨geF1 a h.1.1, cont b h.2⟩
    · exact ⟨eqF4 a h.1.1, h.1.2⟩
  rcases c with _ | ⟨a, _ | ⟨b, _ | ⟨c3, _ | ⟨d, _ | ⟨e, r⟩⟩⟩⟩⟩
  · simp [Json.strCharOk, Json.utf8Wf] at h
  · intro x hx; simp at hx; subst hx; exact one _ h
  · simp only [Json.strCharOk, Json.utf8Wf, Bool.and_eq_true, Bool.and_true] at h
    intro x hx; simp at hx
    rcases hx with rfl | rfl
    · exact hi _ (lead2 _ h.1.1)
    · exact hi _ (cont _ h.2)
  · simp only [Json.strCharOk, Json.utf8Wf, Bool.and_eq_true, Bool.and_true] at h
    obtain ⟨h12, h3⟩ := h
    obtain ⟨ha, hb⟩ := lead3 a b h12
    intro x hx; simp at hx
    rcases hx with rfl | rfl | rfl
    · exact hi _ ha
    · exact hi _ hb
    · exact hi _ (cont _ h3)
  · simp only [Json.strCharOk, Json.utf8Wf, Bool.and_eq_true, Bool.and_true] at h
    obtain ⟨⟨h12, h3⟩, h4⟩ := h
    obtain ⟨ha, hb⟩ := lead4 a b h12
    intro x hx; simp at hx
    rcases hx with rfl | rfl | rfl | rfl
    · exact hi _ ha
    · exact hi _ hb
    · exact hi _ (cont _ h3)
    · exact hi _ (cont _ h4)
  · simp [Json.strCharOk, Json.utf8Wf] at h

theorem plain_lift (c : Json.Bytes) (h : ∀ b ∈ c, b ≠ 0x22#8 ∧ b ≠ 0x5C#8 ∧ 0x20 ≤ b.toNat) :
    ∃ l : List SChar, l.flatMap SChar.bytes = c := by
  induction c with
  | nil => exact ⟨[], rfl⟩
  | cons b bs ih =>
    obtain ⟨l, hl⟩ := ih (fun x hx => h x (by simp [hx]))
    exact ⟨.plain ⟨b, h b (by simp)⟩ :: l, by simp [SChar.bytes, hl]⟩

theorem hexdigit_lift (b : BitVec 8) (h : Json.isHex b = true) : ∃ hd : HexDigit, hd.byte = b := by
  obtain ⟨v, u, hvu⟩ := hex_lift b h
  exact ⟨⟨v, u⟩, hvu⟩

theorem esc_lift' (b : BitVec 8) (h : Json.isSimpleEsc b = true) : ∃ e : Esc, e.byte = b := by
  rcases esc_lift b h with h | h | h | h | h | h | h | h
  · exact ⟨.quote, h.symm⟩
  · exact ⟨.backslash, h.symm⟩
  · exact ⟨.slash, h.symm⟩
  · exact ⟨.b, h.symm⟩
  · exact ⟨.f, h.symm⟩
  · exact ⟨.n, h.symm⟩
  · exact ⟨.r, h.symm⟩
  · exact ⟨.t, h.symm⟩

/-- every string body of C08's grammar is the byte rendering of a list of `SChar`s -/
theorem body_lift (body : Json.Bytes) (h : Json.StrBody body) : ∃ l : List SChar, l.flatMap SChar.bytes = body := by
  induction h with
  | nil => exact ⟨[], rfl⟩
  | char c r hc _ ih =>
    obtain ⟨l1, h1⟩ := plain_lift c (char_bytes_plain c hc)
    obtain ⟨l2, h2⟩ := ih
    exact ⟨l1 ++ l2, by simp [h1, h2]⟩
  | esc e r he _ ih =>
    obtain ⟨e', he'⟩ := esc_lift' e he
    obtain ⟨l2, h2⟩ := ih
    exact ⟨.esc e' :: l2, by simp [SChar.bytes, he', h2]⟩
  | uni a b c d r ha hb hc hd _ _ _ ih =>
    obtain ⟨a', ha'⟩ := hexdigit_lift a ha; obtain ⟨b', hb'⟩ := hexdigit_lift b hb
    obtain ⟨c', hc'⟩ := hexdigit_lift c hc; obtain ⟨d', hd'⟩ := hexdigit_lift d hd
    obtain ⟨l2, h2⟩ := ih
    exact ⟨.uni a' b' c' d' :: l2, by simp [SChar.bytes, ha', hb', hc', hd', h2]⟩
  | pair a b c d a2 b2 c2 d2 r ha hb hc hd ha2 hb2 hc2 hd2 _ _ _ ih =>
    obtain ⟨a', ha'⟩ := hexdigit_lift a ha; obtain ⟨b', hb'⟩ := hexdigit_lift b hb
    obtain ⟨c', hc'⟩ := hexdigit_lift c hc; obtain ⟨d', hd'⟩ := hexdigit_lift d hd
    obtain ⟨a3, ha3⟩ := hexdigit_lift a2 ha2; obtain ⟨b3, hb3⟩ := hexdigit_lift b2 hb2
    obtain ⟨c3, hc3⟩ := hexdigit_lift c2 hc2; obtain ⟨d3, hd3⟩ := hexdigit_lift d2 hd2
    obtain ⟨l2, h2⟩ := ih
    exact ⟨.uni a' b' c' d' :: .uni a3 b3 c3 d3 :: l2,
      by simp [SChar.bytes, ha', hb', hc', hd', ha3, hb3, hc3, hd3, h2]⟩

theorem string_lift (s : Json.Bytes) (h : Json.StringLit s) :
    ∃ k : List SChar, (Tok.str k).bytes = s ∧ Json.StrBody (k.flatMap SChar.bytes) := by
  obtain ⟨body, hb, rfl⟩ := h
  obtain ⟨l, hl⟩ := body_lift body hb
  exact ⟨l, by simp [Tok.bytes, hl], by rw [hl]; exact hb⟩

theorem scalar_lift (s : Json.Bytes) (h : Json.Scalar s) : ∃ v : JVal, toksBytes v.toks = s ∧ StrsOk v := by
  rcases h with rfl | rfl | rfl | h | h
  · exact ⟨.lit .null, rfl, trivial⟩
  · exact ⟨.lit .tru, rfl, trivial⟩
  · exact ⟨.lit .fls, rfl, trivial⟩
  · obtain ⟨n, hn⟩ := number_lift s h
    exact ⟨.num n, by simp [JVal.toks, toksBytes, Tok.bytes, hn], trivial⟩
  · obtain ⟨k, hk, hok⟩ := string_lift s h
    exact ⟨.str k, by simp [JVal.toks, toksBytes, hk], hok⟩

theorem elems_lift (P : Json.Bytes → Prop) (hP : ∀ s, P s → ∃ v : JVal, toksBytes v.toks = s ∧ StrsOk v)
    (body : Json.Bytes) (h : Json.Elems P body) :
    ∃ (ws0 : Ws) (v : JVal) (ws1 : Ws) (rest : JItems),
      body = toksBytes (wsToks ws0) ++ (toksBytes v.toks ++ (toksBytes (wsToks ws1) ++ toksBytes rest.toks)) ∧
      StrsOk v ∧ ItemsOk rest := by
  induction h with
  | one w1 v w2 h1 hv h2 =>
    obtain ⟨ws0, e0⟩ := ws_lift w1 h1
    obtain ⟨v', ev, hok⟩ := hP v hv
    obtain ⟨ws1, e1⟩ := ws_lift w2 h2
    subst e0; subst ev; subst e1
    exact ⟨ws0, v', ws1, .nil, by simp [show toksBytes JItems.nil.toks = [] from rfl], hok, trivial⟩
  | cons w1 v w2 r h1 hv h2 _ ih =>
    obtain ⟨ws0, e0⟩ := ws_lift w1 h1
    obtain ⟨v', ev, hok⟩ := hP v hv
    obtain ⟨ws1, e1⟩ := ws_lift w2 h2
    obtain ⟨ws0', v'', ws1', rest', er, hok', hr⟩ := ih
    subst e0; subst ev; subst e1
    refine ⟨ws0, v', ws1, .cons ws0' v'' ws1' rest', ?_, hok, ⟨hok', hr⟩⟩
    rw [bytes_items, ← er]; rfl

theorem members_lift (P : Json.Bytes → Prop) (hP : ∀ s, P s → ∃ v : JVal, toksBytes v.toks = s ∧ StrsOk v)
    (body : Json.Bytes) (h : Json.Members P body) :
    ∃ (ws0 : Ws) (k : List SChar) (ws1 ws2 : Ws) (v : JVal) (ws3 : Ws) (rest : JMembers),
      body = toksBytes (wsToks ws0) ++ ((Tok.str k).bytes ++ (toksBytes (wsToks ws1) ++ 0x3A#8 ::
        (toksBytes (wsToks ws2) ++ (toksBytes v.toks ++ (toksBytes (wsToks ws3) ++ toksBytes rest.toks))))) ∧
      Json.StrBody (k.flatMap SChar.bytes) ∧ StrsOk v ∧ MembersOk rest := by
  induction h with
  | one w1 k w2 w3 v w4 h1 hk h2 h3 hv h4 =>
    obtain ⟨ws0, e0⟩ := ws_lift w1 h1
    obtain ⟨k', ek, hkok⟩ := string_lift k hk
    obtain ⟨ws1, e1⟩ := ws_lift w2 h2
    obtain ⟨ws2, e2⟩ := ws_lift w3 h3
    obtain ⟨v', ev, hok⟩ := hP v hv
    obtain ⟨ws3, e3⟩ := ws_lift w4 h4
    subst e0; subst ek; subst e1; subst e2; subst ev; subst e3
    exact ⟨ws0, k', ws1, ws2, v', ws3, .nil, by simp [show toksBytes JMembers.nil.toks = [] from rfl], hkok, hok, trivial⟩
  | cons w1 k w2 w3 v w4 r h1 hk h2 h3 hv h4 _ ih =>
    obtain ⟨ws0, e0⟩ := ws_lift w1 h1
    obtain ⟨k', ek, hkok⟩ := string_lift k hk
    obtain ⟨ws1, e1⟩ := ws_lift w2 h2
    obtain ⟨ws2, e2⟩ := ws_lift w3 h3
    obtain ⟨v', ev, hok⟩ := hP v hv
    obtain ⟨ws3, e3⟩ := ws_lift w4 h4
    obtain ⟨a0, ak, a1, a2, av, a3, arest, er, hk2, hv2, hr2⟩ := ih
    subst e0; subst ek; subst e1; subst e2; subst ev; subst e3
    refine ⟨ws0, k', ws1, ws2, v', ws3, .cons a0 ak a1 a2 av a3 arest, ?_, hkok, hok, ⟨hk2, hv2, hr2⟩⟩
    rw [bytes_members, ← er]; rfl

theorem jvalue_lift : ∀ (d : Nat) (s : Json.Bytes), Json.JValueAt d s → ∃ v : JVal, toksBytes v.toks = s ∧ StrsOk v
  | 0, s, h => scalar_lift s h
  | d + 1, s, h => by
    rcases h with h | ⟨w, hw, rfl⟩ | ⟨body, hb, rfl⟩ | ⟨w, hw, rfl⟩ | ⟨body, hb, rfl⟩
    · exact scalar_lift s h
    · obtain ⟨ws, e⟩ := ws_lift w hw
      subst e; exact ⟨.arr0 ws, by rw [bytes_arr0]; rfl, trivial⟩
    · obtain ⟨ws0, v, ws1, rest, e, hv, hr⟩ := elems_lift _ (jvalue_lift d) body hb
      subst e; exact ⟨.arr ws0 v ws1 rest, by rw [bytes_arr]; rfl, ⟨hv, hr⟩⟩
    · obtain ⟨ws, e⟩ := ws_lift w hw
      subst e; exact ⟨.obj0 ws, by rw [bytes_obj0]; rfl, trivial⟩
    · obtain ⟨ws0, k, ws1, ws2, v, ws3, rest, e, hk, hv, hr⟩ := members_lift _ (jvalue_lift d) body hb
      subst e; exact ⟨.obj ws0 k ws1 ws2 v ws3 rest, by rw [bytes_obj]; rfl, ⟨hk, hv, hr⟩⟩

/-- Every valid RFC 8259 text (C08's grammar, any nesting bound) is the rendering of a document whose
strings are well-formed. -/
theorem valid_lift (D : Nat) (b : Json.Bytes) (h : Json.Valid D b) : ∃ d : Doc, d.text = b ∧ StrsOk d.value := by
  obtain ⟨w1, v, w2, h1, hv, h2, rfl⟩ := h
  obtain ⟨ws0, e0⟩ := ws_lift w1 h1
  obtain ⟨v', ev, hok⟩ := jvalue_lift D v hv
  obtain ⟨ws1, e1⟩ := ws_lift w2 h2
  subst e0; subst ev; subst e1
  exact ⟨⟨ws0, v', ws1⟩, by simp [Doc.text, Doc.toks, toksBytes_append], hok⟩

end SV.JsonNav
