/-
Proof/BPClose — forward scans: `scanClose` algebra (append, block skipping = `block_min_sound`),
the bit loops and the word loop of `trees::find_close` (C04).
-/
import SuccinctlyVerif.Proof.BPScan
import SuccinctlyVerif.Proof.BPWord
namespace SV.BPC
open SV SV.BP SV.BPM SV.BPP SV.BPW SV.BPS

/-! ### scanClose algebra -/

theorem delta_true : delta true = 1 := rfl
theorem delta_false : delta false = -1 := rfl

theorem scanClose_bounds (a : List Bool) (i d r : Nat) (h : scanClose a i d = some r) :
    i ≤ r ∧ r < i + a.length := by
  induction a generalizing i d with
  | nil => simp [scanClose] at h
  | cons x xs ih =>
    cases x
    · simp only [scanClose] at h
      by_cases hd : d = 0
      · simp only [hd, if_true, Option.some.injEq] at h; simp only [List.length_cons]; omega
      · simp only [hd, if_false] at h
        have := ih _ _ h; simp only [List.length_cons]; omega
    · simp only [scanClose] at h
      have := ih _ _ h; simp only [List.length_cons]; omega

/-- If the scan passes `a` without stopping, the pending-open count never went negative. -/
theorem scanClose_none_tot (a : List Bool) (i d : Nat) (h : scanClose a i d = none) :
    0 ≤ (d : Int) + totExc a := by
  induction a generalizing i d with
  | nil => simp [totExc]
  | cons x xs ih =>
    cases x
    · simp only [scanClose] at h
      by_cases hd : d = 0
      · simp [hd] at h
      · simp only [hd, if_false] at h
        have := ih _ _ h
        simp only [totExc, delta_true, delta_false]; omega
    · simp only [scanClose] at h
      have := ih _ _ h
      simp only [totExc, delta_true, delta_false]; omega

theorem scanClose_append (a b : List Bool) (i d : Nat) :
    scanClose (a ++ b) i d =
      match scanClose a i d with
      | some r => some r
      | none => scanClose b (i + a.length) ((d : Int) + totExc a).toNat := by
  induction a generalizing i d with
  | nil => simp [scanClose, totExc]
  | cons x xs ih =>
    cases x
    · simp only [List.cons_append, scanClose]
      by_cases hd : d = 0
      · simp [hd]
      · simp only [hd, if_false]
        rw [ih]
        cases scanClose xs (i + 1) (d - 1) with
        | some r => rfl
        | none =>
          simp only [totExc, delta_true, delta_false, List.length_cons]
          congr 1 <;> omega
    · simp only [List.cons_append, scanClose]
      rw [ih]
      cases scanClose xs (i + 1) (d + 1) with
      | some r => rfl
      | none =>
        simp only [totExc, delta_true, delta_false, List.length_cons]
        congr 1 <;> omega

/-- **block_min_sound**: if the running excess `d + 1` plus the block's minimum prefix excess stays
positive, no position of the block is the matching close. -/
theorem block_min_sound (a : List Bool) (i d : Nat) (h : 0 < (d : Int) + 1 + minExc a) :
    scanClose a i d = none := by
  induction a generalizing i d with
  | nil => rfl
  | cons x xs ih =>
    have hm := minExc_le_zero xs
    cases x
    · simp only [minExc, delta_true, delta_false] at h
      have hd : d ≠ 0 := by omega
      simp only [scanClose, hd, if_false]
      exact ih _ _ (by omega)
    · simp only [minExc, delta_true, delta_false] at h
      simp only [scanClose]
      exact ih _ _ (by omega)

/-- Skipping a block: the scan continues after it with the block's total excess added. -/
theorem scanClose_skip (a b : List Bool) (i d : Nat) (h : 0 < (d : Int) + 1 + minExc a) :
    scanClose (a ++ b) i d = scanClose b (i + a.length) ((d : Int) + totExc a).toNat := by
  rw [scanClose_append, block_min_sound a i d h]

theorem totExc_eq_count (a : List Bool) : totExc a = 2 * (a.count true : Int) - a.length := by
  induction a with
  | nil => simp [totExc]
  | cons x xs ih => cases x <;> simp [totExc, delta_true, delta_false, ih] <;> omega

/-! ### the forward bit loop -/

theorem fcBitLoop_scanClose (w : BitVec 64) (base n bit : Nat) (e : Int) (he : 1 ≤ e) :
    fcBitLoop w base n bit e = scanClose (seg w bit n) (base + bit) (e - 1).toNat := by
  induction n generalizing bit e with
  | zero => simp [fcBitLoop, seg_zero, scanClose]
  | succ n ih =>
    rw [seg_succ_left]
    unfold fcBitLoop
    cases hb : w.getLsbD bit
    · simp only [Bool.false_eq_true, if_false, scanClose]
      by_cases h0 : e - 1 = 0
      · have : (e - 1).toNat = 0 := by omega
        simp [h0, this]
      · have : (e - 1).toNat ≠ 0 := by omega
        simp only [h0, this, if_false]
        rw [ih (bit + 1) (e - 1) (by omega)]
        congr 1 <;> omega
    · simp only [if_true, scanClose]
      rw [ih (bit + 1) (e + 1) (by omega)]
      congr 1 <;> omega

end SV.BPC
