/-
Proof/EliasFanoLow — C03: the packed low bits written by `build` and read by `read_low_bits`
(including the two-word straddle).
-/
import SuccinctlyVerif.Proof.EliasFano
namespace SV.EF
open SV SV.Scan
set_option linter.unusedSimpArgs false

theorem mask_eq (w : Nat) (hw : w < 64) : (1#64 <<< w) - 1 = BitVec.ofNat 64 (2 ^ w - 1) := by
  apply BitVec.eq_of_toNat_eq
  have h1 : 2 ^ w < 2 ^ 64 := Nat.pow_lt_pow_right (by omega) hw
  have h2 : 0 < 2 ^ w := Nat.pow_pos (by omega)
  have h3 : (1#64).toNat = 1 := rfl
  have h4 : (1 : BitVec 64).toNat = 1 := rfl
  simp only [BitVec.toNat_sub, BitVec.toNat_shiftLeft, Nat.shiftLeft_eq, BitVec.toNat_ofNat, h3, h4, Nat.one_mul]
  generalize 2 ^ w = P at *
  simp only [Nat.reducePow] at *
  omega

theorem getLsbD_lowMask (w t : Nat) (hw : w < 64) : ((1#64 <<< w) - 1).getLsbD t = decide (t < w) := by
  rw [mask_eq w hw, BitVec.getLsbD_ofNat, Nat.testBit_two_pow_sub_one]
  by_cases h : t < w
  · simp [h]; omega
  · simp [h]

/-- One element's low bits are OR-ed into bit positions `[i*w, i*w + w)`. -/
theorem encodeLow_spec (w : Nat) (hw0 : 0 < w) (hw : w < 64) (v : BitVec 64) (i : Nat)
    (low : List (BitVec 64)) (hsz : i * w + w ≤ 64 * low.length) :
    ∃ low', encodeLow w ((1#64 <<< w) - 1) v i low = some low' ∧ low'.length = low.length ∧
      ∀ q, getBit low' q =
        (getBit low q || (decide (i * w ≤ q ∧ q < i * w + w) && v.getLsbD (q - i * w))) := by
  unfold encodeLow
  rw [if_pos hw0]
  generalize i * w = bp at *
  dsimp only
  obtain ⟨low1, h1⟩ := orAt_isSome (ws := low) (i := bp / 64)
    ((v &&& ((1#64 <<< w) - 1)) <<< (bp % 64)) (by omega)
  obtain ⟨_, hl1, hb1⟩ := orAt_spec h1
  rw [h1]
  dsimp only
  have hlv : ∀ t, (v &&& ((1#64 <<< w) - 1)).getLsbD t = (v.getLsbD t && decide (t < w)) := by
    intro t; rw [BitVec.getLsbD_and, getLsbD_lowMask w t hw]
  by_cases hov : bp % 64 + w > 64
  · have hw1 : bp / 64 + 1 < low1.length := by omega
    rw [if_pos ⟨hov, hw1⟩]
    obtain ⟨low2, h2⟩ := orAt_isSome (ws := low1) (i := bp / 64 + 1)
      ((v &&& ((1#64 <<< w) - 1)) >>> (64 - bp % 64)) hw1
    obtain ⟨_, hl2, hb2⟩ := orAt_spec h2
    refine ⟨low2, h2, by omega, fun q => ?_⟩
    rw [hb2, hb1, BitVec.getLsbD_shiftLeft, BitVec.getLsbD_ushiftRight, hlv, hlv]
    have hq64 : q % 64 < 64 := Nat.mod_lt _ (by omega)
    by_cases c1 : q / 64 = bp / 64
    · have c2 : ¬ q / 64 = bp / 64 + 1 := by omega
      by_cases c3 : q % 64 < bp % 64
      · have : ¬ (bp ≤ q ∧ q < bp + w) := by omega
        simp [c1, c3, this]
      · have e : q % 64 - bp % 64 = q - bp := by omega
        have : (bp ≤ q ∧ q < bp + w) ↔ (q - bp < w) := by omega
        simp only [c1, c2, c3, e, hq64, this, decide_true, decide_false, Bool.true_and, Bool.false_and,
          Bool.not_false, Bool.or_false]
        cases v.getLsbD (q - bp) <;> simp
    · by_cases c2 : q / 64 = bp / 64 + 1
      · have e : 64 - bp % 64 + q % 64 = q - bp := by omega
        have : (bp ≤ q ∧ q < bp + w) ↔ (q - bp < w) := by omega
        simp only [c1, c2, e, this, decide_true, decide_false, Bool.true_and, Bool.false_and, Bool.or_false]
        cases v.getLsbD (q - bp) <;> simp
      · have : ¬ (bp ≤ q ∧ q < bp + w) := by omega
        simp [c1, c2, this]
  · have hne : ¬ (bp % 64 + w > 64 ∧ bp / 64 + 1 < low1.length) := fun h => hov h.1
    rw [if_neg hne]
    refine ⟨low1, rfl, hl1, fun q => ?_⟩
    rw [hb1, BitVec.getLsbD_shiftLeft, hlv]
    have hq64 : q % 64 < 64 := Nat.mod_lt _ (by omega)
    by_cases c1 : q / 64 = bp / 64
    · by_cases c3 : q % 64 < bp % 64
      · have : ¬ (bp ≤ q ∧ q < bp + w) := by omega
        simp [c1, c3, this]
      · have e : q % 64 - bp % 64 = q - bp := by omega
        have : (bp ≤ q ∧ q < bp + w) ↔ (q - bp < w) := by omega
        simp only [c1, c3, e, hq64, this, decide_true, decide_false, Bool.true_and,
          Bool.not_false]
        cases v.getLsbD (q - bp) <;> simp
    · have : ¬ (bp ≤ q ∧ q < bp + w) := by omega
      simp [c1, this]

/-- Bit `q` of the low-bits area after encoding `vs` from bit position `bp` on. -/
def lowBitAt (w : Nat) : List Nat → Nat → Nat → Bool
  | [], _, _ => false
  | v :: vs, bp, q => (decide (bp ≤ q ∧ q < bp + w) && v.testBit (q - bp)) || lowBitAt w vs (bp + w) q

theorem lowBitAt_of_lt (w : Nat) (vs : List Nat) (bp q : Nat) (h : q < bp) : lowBitAt w vs bp q = false := by
  induction vs generalizing bp with
  | nil => rfl
  | cons v vs ih =>
    have : ¬ (bp ≤ q ∧ q < bp + w) := by omega
    simp [lowBitAt, this, ih (bp + w) (by omega)]

theorem lowBitAt_elem (w : Nat) (vs : List Nat) (bp j t : Nat) (v : Nat) (hj : vs[j]? = some v) (ht : t < w) :
    lowBitAt w vs bp (bp + j * w + t) = v.testBit t := by
  induction vs generalizing bp j with
  | nil => simp at hj
  | cons x xs ih =>
    cases j with
    | zero =>
      simp only [List.getElem?_cons_zero, Option.some.injEq] at hj
      subst hj
      simp only [Nat.zero_mul, Nat.add_zero]
      have h1 : bp ≤ bp + t ∧ bp + t < bp + w := by omega
      have h2 : bp + t - bp = t := by omega
      simp [lowBitAt, h1, h2, lowBitAt_of_lt w xs (bp + w) (bp + t) (by omega)]
    | succ j =>
      simp only [List.getElem?_cons_succ] at hj
      have e : bp + (j + 1) * w + t = (bp + w) + j * w + t := by rw [Nat.succ_mul]; omega
      have h1 : ¬ (bp ≤ bp + w + j * w + t ∧ bp + w + j * w + t < bp + w) := by omega
      rw [e]
      simp only [lowBitAt, h1, decide_false, Bool.false_and, Bool.false_or]
      exact ih (bp + w) j hj

theorem lowLoop_spec (w : Nat) (hw0 : 0 < w) (hw : w < 64) (vs : List Nat) (i : Nat)
    (low : List (BitVec 64)) (hsz : (i + vs.length) * w ≤ 64 * low.length) :
    ∃ low', lowLoop w ((1#64 <<< w) - 1) vs i low = some low' ∧ low'.length = low.length ∧
      ∀ q, getBit low' q = (getBit low q || lowBitAt w vs (i * w) q) := by
  induction vs generalizing i low with
  | nil => exact ⟨low, rfl, rfl, by simp [lowBitAt]⟩
  | cons v vs ih =>
    have e1 : (i + (v :: vs).length) * w = i * w + w + vs.length * w := by
      simp only [List.length_cons]
      rw [show i + (vs.length + 1) = (i + 1) + vs.length by omega, Nat.add_mul, Nat.succ_mul]
    have e2 : (i + 1) * w = i * w + w := Nat.succ_mul i w
    obtain ⟨low1, h1, hl1, hb1⟩ := encodeLow_spec w hw0 hw (BitVec.ofNat 64 v) i low (by omega)
    simp only [lowLoop, h1]
    obtain ⟨low2, h2, hl2, hb2⟩ := ih (i + 1) low1 (by
      rw [hl1, Nat.add_mul, e2]; omega)
    refine ⟨low2, h2, by omega, fun q => ?_⟩
    rw [hb2, hb1, e2]
    simp only [lowBitAt, Bool.or_assoc]
    congr 2
    by_cases hr : i * w ≤ q ∧ q < i * w + w
    · have : q - i * w < 64 := by omega
      rw [BitVec.getLsbD_ofNat]
      simp [hr, this]
    · simp [hr]

theorem lowLoop_zero (m : BitVec 64) (vs : List Nat) (i : Nat) (low : List (BitVec 64)) :
    lowLoop 0 m vs i low = some low := by
  induction vs generalizing i with
  | nil => rfl
  | cons v vs ih => simp [lowLoop, encodeLow, ih]

/-! ### reading the low bits back -/

/-- The packed low bits hold bit `t` of element `j` at position `j*w + t`. -/
def LowOK (w : Nat) (low : List (BitVec 64)) (vs : List Nat) : Prop :=
  ∀ j v t, vs[j]? = some v → t < w → getBit low (j * w + t) = v.testBit t

theorem readLowBits_spec (ef : EliasFano) (vs : List Nat) (hw : ef.lowWidth < 64)
    (hsz : vs.length * ef.lowWidth ≤ 64 * ef.lowBits.length)
    (hok : LowOK ef.lowWidth ef.lowBits vs) (j v : Nat) (hj : vs[j]? = some v) :
    readLowBits ef j = some (BitVec.ofNat 64 (v % 2 ^ ef.lowWidth)) := by
  unfold readLowBits
  by_cases hw0 : ef.lowWidth = 0
  · simp [hw0, Nat.mod_one]
  rw [if_neg hw0]
  have hjl : j < vs.length := by
    rcases Nat.lt_or_ge j vs.length with h | h
    · exact h
    · rw [List.getElem?_eq_none h] at hj; simp at hj
  have hmul : (j + 1) * ef.lowWidth ≤ vs.length * ef.lowWidth := Nat.mul_le_mul_right _ hjl
  rw [Nat.succ_mul] at hmul
  have hgb : ∀ t, t < ef.lowWidth → getBit ef.lowBits (j * ef.lowWidth + t) = v.testBit t :=
    fun t ht => hok j v t hj ht
  generalize ef.lowWidth = w at *
  generalize ef.lowBits = low at *
  generalize j * w = bp at *
  dsimp only
  have hwi : bp / 64 < low.length := by omega
  rw [List.getElem?_eq_getElem hwi]
  dsimp only
  have key1 : ∀ t, t < w → bp % 64 + t < 64 → low[bp / 64].getLsbD (bp % 64 + t) = v.testBit t := by
    intro t ht h
    rw [← hgb t ht]
    have e1 : (bp + t) / 64 = bp / 64 := by omega
    have e2 : (bp + t) % 64 = bp % 64 + t := by omega
    simp [getBit, e1, e2, List.getD_eq_getElem?_getD, List.getElem?_eq_getElem hwi]
  have tgt : ∀ t, t < 64 → (BitVec.ofNat 64 (v % 2 ^ w)).getLsbD t = (decide (t < w) && v.testBit t) := by
    intro t ht
    rw [BitVec.getLsbD_ofNat, Nat.testBit_mod_two_pow]
    simp [ht]
  by_cases hov : bp % 64 + w > 64
  · have hw1 : bp / 64 + 1 < low.length := by omega
    rw [if_pos ⟨hov, hw1⟩, List.getElem?_eq_getElem hw1]
    dsimp only
    have key2 : ∀ t, t < w → 64 ≤ bp % 64 + t →
        low[bp / 64 + 1].getLsbD (bp % 64 + t - 64) = v.testBit t := by
      intro t ht h
      rw [← hgb t ht]
      have e1 : (bp + t) / 64 = bp / 64 + 1 := by omega
      have e2 : (bp + t) % 64 = bp % 64 + t - 64 := by omega
      simp [getBit, e1, e2, List.getD_eq_getElem?_getD, List.getElem?_eq_getElem hw1]
    congr 1
    apply BitVec.eq_of_getLsbD_eq
    intro t ht
    rw [tgt t ht, BitVec.getLsbD_or, BitVec.getLsbD_and, BitVec.getLsbD_ushiftRight,
      getLsbD_lowMask w t hw, BitVec.getLsbD_shiftLeft, BitVec.getLsbD_and,
      getLsbD_lowMask _ _ (by omega)]
    by_cases c1 : t < w
    · by_cases c2 : bp % 64 + t < 64
      · have c3 : t < w - (bp % 64 + w - 64) := by omega
        simp [c1, c3, key1 t c1 c2]
      · have c3 : ¬ t < w - (bp % 64 + w - 64) := by omega
        have e : t - (w - (bp % 64 + w - 64)) = bp % 64 + t - 64 := by omega
        have c4 : bp % 64 + t - 64 < bp % 64 + w - 64 := by omega
        rw [BitVec.getLsbD_of_ge _ _ (by omega : 64 ≤ bp % 64 + t)]
        simp [c1, c3, e, c4, ht, key2 t c1 (by omega)]
    · have c3 : ¬ t < w - (bp % 64 + w - 64) := by omega
      have c4 : ¬ t - (w - (bp % 64 + w - 64)) < bp % 64 + w - 64 := by omega
      simp [c1, c4]
  · have hne : ¬ (bp % 64 + w > 64 ∧ bp / 64 + 1 < low.length) := fun h => hov h.1
    rw [if_neg hne]
    congr 1
    apply BitVec.eq_of_getLsbD_eq
    intro t ht
    rw [tgt t ht, BitVec.getLsbD_and, BitVec.getLsbD_ushiftRight, getLsbD_lowMask w t hw]
    by_cases c1 : t < w
    · simp [c1, key1 t c1 (by omega)]
    · simp [c1]

/-- `((high_value as u64) << low_width) | low_value) as u32` reassembles the element. -/
theorem combine_spec (ef : EliasFano) (v : Nat) (hv : v < 2 ^ 32) (hw : ef.lowWidth < 64) :
    combine ef (v >>> ef.lowWidth) (BitVec.ofNat 64 (v % 2 ^ ef.lowWidth)) = v := by
  unfold combine
  generalize ef.lowWidth = w at *
  have : (BitVec.ofNat 64 (v >>> w) <<< w ||| BitVec.ofNat 64 (v % 2 ^ w)) = BitVec.ofNat 64 v := by
    apply BitVec.eq_of_getLsbD_eq
    intro t ht
    rw [BitVec.getLsbD_or, BitVec.getLsbD_shiftLeft, BitVec.getLsbD_ofNat, BitVec.getLsbD_ofNat,
      BitVec.getLsbD_ofNat, Nat.testBit_shiftRight, Nat.testBit_mod_two_pow]
    by_cases c : t < w
    · simp [c, ht]
    · have : w + (t - w) = t := by omega
      have h2 : t - w < 64 := by omega
      simp [c, ht, this, h2]
  rw [this, BitVec.toNat_ofNat]
  have : v < 2 ^ 64 := by omega
  rw [Nat.mod_eq_of_lt this, Nat.mod_eq_of_lt hv]

end SV.EF
