/-
Proof/JsonString — `validate_string` accepts exactly `StringLit` (soundness and completeness).
-/
import SuccinctlyVerif.Proof.JsonUtf8
namespace SV.Json.Model
open SV.Json
set_option linter.unusedSimpArgs false
set_option linter.unusedVariables false

/-! ### advanceN -/

theorem advanceN_adv (c : Bytes) : ∀ (s : St) (r : Bytes), s.rest = c ++ r →
    Adv s c (advanceN c.length s) ∧ (advanceN c.length s).rest = r := by
  induction c with
  | nil => intro s r h; simp [advanceN, Adv.refl]; simpa using h
  | cons x c ih =>
    intro s r h
    have hr : s.rest = x :: (c ++ r) := by simpa using h
    have ha := advance_cons hr
    obtain ⟨h1, h2⟩ := ih s.advance r ha.1
    refine ⟨?_, by simpa [advanceN] using h2⟩
    have := (adv_advance hr).trans h1
    simpa [advanceN] using this

/-! ### hex digits -/

def hexFold (v : Nat) (hs : Bytes) : Nat := hs.foldl (fun acc h => acc * 16 + hexVal h) v

theorem hexDigits_sound : ∀ (k v : Nat) (s s' : St) (v' : Nat), hexDigits k v s = .ok v' s' →
    ∃ hs, hs.length = k ∧ (∀ h ∈ hs, isHex h = true) ∧ Adv s hs s' ∧ v' = hexFold v hs := by
  intro k
  induction k with
  | zero =>
    intro v s s' v' h
    simp [hexDigits] at h
    obtain ⟨rfl, rfl⟩ := h
    exact ⟨[], rfl, by simp, Adv.refl _, rfl⟩
  | succ k ih =>
    intro v s s' v' h
    unfold hexDigits at h
    split at h
    · cases h
    · rename_i b hb
      obtain ⟨r, hr⟩ := peek_eq_some hb
      have key : ∀ w, hexDigits k w s.advance = .ok v' s' → w = v * 16 + hexVal b → isHex b = true →
          ∃ hs, hs.length = k + 1 ∧ (∀ h ∈ hs, isHex h = true) ∧ Adv s hs s' ∧ v' = hexFold v hs := by
        intro w hw hweq hhex
        obtain ⟨hs, hl, hall, hadv, hv⟩ := ih w s.advance s' v' hw
        refine ⟨b :: hs, by simp [hl], ?_, ?_, ?_⟩
        · intro h hh; simp at hh; rcases hh with rfl | hh
          · exact hhex
          · exact hall h hh
        · simpa using (adv_advance hr).trans hadv
        · rw [hv, hweq]; simp [hexFold]
      split at h
      · rename_i hd
        exact key _ h (by simp [hexVal, hd]) (by simp [isHex, hd])
      · rename_i hd
        split at h
        · rename_i hl
          exact key _ h (by simp [hexVal, hd, hl]) (by simp [isHex, hl])
        · rename_i hl
          split at h
          · rename_i hu
            exact key _ h (by simp [hexVal, hd, hl, hu]) (by simp [isHex, hu])
          · cases h

theorem hexDigits_complete : ∀ (hs : Bytes) (v : Nat) (s : St) (t : Bytes),
    (∀ h ∈ hs, isHex h = true) → s.rest = hs ++ t →
    ∃ s', hexDigits hs.length v s = .ok (hexFold v hs) s' ∧ s'.rest = t ∧ s'.depth = s.depth := by
  intro hs
  induction hs with
  | nil => intro v s t _ h; exact ⟨s, by simp [hexDigits, hexFold], by simpa using h, rfl⟩
  | cons b hs ih =>
    intro v s t hall h
    have hr : s.rest = b :: (hs ++ t) := by simpa using h
    have ha := advance_cons hr
    have hb : isHex b = true := hall b (by simp)
    obtain ⟨s', h1, h2, h3⟩ := ih (v * 16 + hexVal b) s.advance t (fun x hx => hall x (by simp [hx])) ha.1
    refine ⟨s', ?_, h2, by rw [h3, ha.2.2]⟩
    have hf : hexFold v (b :: hs) = hexFold (v * 16 + hexVal b) hs := by simp [hexFold]
    rw [hf]
    simp only [List.length_cons]
    unfold hexDigits
    rw [peek_cons hr]
    simp only
    by_cases hd : isDigit b = true
    · simp only [hd, if_true]; simpa [hexVal, hd] using h1
    · by_cases hl : isLowerHex b = true
      · simp only [hd, hl, if_true, if_false]; simpa [hexVal, hd, hl] using h1
      · have hu : isUpperHex b = true := by simpa [isHex, hd, hl] using hb
        simp only [hd, hl, hu, if_true, if_false]; simpa [hexVal, hd, hl, hu] using h1

theorem hexFold4 (a b c d : Byte) : hexFold 0 [a, b, c, d] = hex4 a b c d := by
  simp [hexFold, hex4]


theorem len4 (hs : Bytes) (h : hs.length = 4) : ∃ a b c d, hs = [a, b, c, d] := by
  match hs, h with
  | [a, b, c, d], _ => exact ⟨a, b, c, d, rfl⟩

theorem unicodeEscape_sound {s s' : St} {v : Nat} (h : validateUnicodeEscape s = .ok v s') :
    ∃ a b c d, isHex a = true ∧ isHex b = true ∧ isHex c = true ∧ isHex d = true ∧
      Adv s [a, b, c, d] s' ∧ v = hex4 a b c d := by
  obtain ⟨hs, hl, hall, hadv, hv⟩ := hexDigits_sound 4 0 s s' v h
  obtain ⟨a, b, c, d, rfl⟩ := len4 hs hl
  exact ⟨a, b, c, d, hall a (by simp), hall b (by simp), hall c (by simp), hall d (by simp), hadv,
    by rw [hv, hexFold4]⟩

theorem unicodeEscape_complete (s : St) (a b c d : Byte) (t : Bytes)
    (ha : isHex a = true) (hb : isHex b = true) (hc : isHex c = true) (hd : isHex d = true)
    (h : s.rest = a :: b :: c :: d :: t) :
    ∃ s', validateUnicodeEscape s = .ok (hex4 a b c d) s' ∧ s'.rest = t ∧ s'.depth = s.depth := by
  have := hexDigits_complete [a, b, c, d] 0 s t (by
    intro x hx; simp at hx; rcases hx with rfl | rfl | rfl | rfl <;> assumption) (by simpa using h)
  rw [hexFold4] at this
  exact this

/-! ### escapes -/

/-- One escape sequence of a string body. -/
inductive EscSeq : Bytes → Prop
  | simple (e : Byte) : isSimpleEsc e = true → EscSeq [0x5C, e]
  | uni (a b c d : Byte) : isHex a = true → isHex b = true → isHex c = true → isHex d = true →
      isHighSurr (hex4 a b c d) = false → isLowSurr (hex4 a b c d) = false →
      EscSeq [0x5C, 0x75, a, b, c, d]
  | pair (a b c d a' b' c' d' : Byte) :
      isHex a = true → isHex b = true → isHex c = true → isHex d = true →
      isHex a' = true → isHex b' = true → isHex c' = true → isHex d' = true →
      isHighSurr (hex4 a b c d) = true → isLowSurr (hex4 a' b' c' d') = true →
      EscSeq [0x5C, 0x75, a, b, c, d, 0x5C, 0x75, a', b', c', d']

theorem StrBody.ofEsc {e r : Bytes} (he : EscSeq e) (hr : StrBody r) : StrBody (e ++ r) := by
  cases he with
  | simple e h => exact StrBody.esc e r h hr
  | uni a b c d h1 h2 h3 h4 h5 h6 => exact StrBody.uni a b c d r h1 h2 h3 h4 h5 h6 hr
  | pair a b c d a' b' c' d' h1 h2 h3 h4 h5 h6 h7 h8 h9 h10 =>
    exact StrBody.pair a b c d a' b' c' d' r h1 h2 h3 h4 h5 h6 h7 h8 h9 h10 hr

theorem escape_sound {s s' : St} {u : Unit} (hp : s.peek = some 0x5C)
    (h : validateEscape s = .ok u s') : ∃ e, EscSeq e ∧ Adv s e s' := by
  obtain ⟨r, hr⟩ := peek_eq_some hp
  have a0 := adv_advance hr
  unfold validateEscape at h
  simp only at h
  split at h
  · cases h
  · rename_i c hc
    obtain ⟨r1, hr1⟩ := peek_eq_some hc
    have a1 := adv_advance hr1
    split at h
    · rename_i hs
      injection h with _ h; subst h
      exact ⟨[0x5C, c], EscSeq.simple c hs, by simpa using a0.trans a1⟩
    · split at h
      · rename_i hcu
        subst hcu
        split at h
        · cases h
        · cases h
        · rename_i high s2 h2
          obtain ⟨a, b, c, d, ha, hb, hc', hd, adv2, hv⟩ := unicodeEscape_sound h2
          split at h
          · rename_i hhigh
            split at h
            · cases h
            · rename_i hp2
              have hp2' : s2.peek = some 0x5C := by simpa using hp2
              obtain ⟨r2, hr2⟩ := peek_eq_some hp2'
              have a2 := adv_advance hr2
              split at h
              · cases h
              · rename_i hp3
                have hp3' : s2.advance.peek = some 0x75 := by simpa using hp3
                obtain ⟨r3, hr3⟩ := peek_eq_some hp3'
                have a3 := adv_advance hr3
                split at h
                · cases h
                · cases h
                · rename_i low s5 h5
                  obtain ⟨a', b', c'', d', ha', hb', hc'', hd', adv5, hv'⟩ := unicodeEscape_sound h5
                  split at h
                  · cases h
                  · rename_i hlow
                    injection h with _ h; subst h
                    refine ⟨[0x5C, 0x75, a, b, c, d, 0x5C, 0x75, a', b', c'', d'],
                      EscSeq.pair a b c d a' b' c'' d' ha hb hc' hd ha' hb' hc'' hd' ?_ ?_, ?_⟩
                    · rw [← hv]; simp [isHighSurr]; exact hhigh
                    · rw [← hv']; simp [isLowSurr]; simpa using hlow
                    · simpa using a0.trans (a1.trans (adv2.trans (a2.trans (a3.trans adv5))))
          · rename_i hhigh
            split at h
            · cases h
            · rename_i hlow
              injection h with _ h; subst h
              refine ⟨[0x5C, 0x75, a, b, c, d], EscSeq.uni a b c d ha hb hc' hd ?_ ?_, ?_⟩
              · rw [← hv]; simp [isHighSurr]; simpa using hhigh
              · rw [← hv]; simp [isLowSurr]; simpa using hlow
              · simpa using a0.trans (a1.trans adv2)
      · cases h


theorem escape_complete (s : St) (e t : Bytes) (he : EscSeq e) (h : s.rest = e ++ t) :
    ∃ s', validateEscape s = .ok () s' ∧ s'.rest = t ∧ s'.depth = s.depth := by
  cases he with
  | simple c hc =>
    have hr : s.rest = 0x5C :: c :: t := by simpa using h
    have ha := advance_cons hr
    have ha1 := advance_cons ha.1
    unfold validateEscape
    simp only [peek_cons ha.1, hc, if_true]
    exact ⟨_, rfl, ha1.1, by rw [ha1.2.2, ha.2.2]⟩
  | uni a b c d h1 h2 h3 h4 h5 h6 =>
    have hr : s.rest = 0x5C :: 0x75 :: a :: b :: c :: d :: t := by simpa using h
    have ha := advance_cons hr
    have ha1 := advance_cons ha.1
    obtain ⟨s2, e2, r2, d2⟩ := unicodeEscape_complete s.advance.advance a b c d t h1 h2 h3 h4 ha1.1
    have nh : ¬ (0xD800 ≤ hex4 a b c d ∧ hex4 a b c d ≤ 0xDBFF) := by
      simpa [isHighSurr] using h5
    have nl : ¬ (0xDC00 ≤ hex4 a b c d ∧ hex4 a b c d ≤ 0xDFFF) := by
      simpa [isLowSurr] using h6
    have hse : isSimpleEsc (0x75 : Byte) = false := by decide
    unfold validateEscape
    simp only [peek_cons ha.1, hse, e2, if_neg nh, if_neg nl, if_true, if_false]
    exact ⟨_, rfl, r2, by rw [d2, ha1.2.2, ha.2.2]⟩
  | pair a b c d a' b' c' d' h1 h2 h3 h4 h1' h2' h3' h4' h5 h6 =>
    have hr : s.rest = 0x5C :: 0x75 :: a :: b :: c :: d :: 0x5C :: 0x75 :: a' :: b' :: c' :: d' :: t := by
      simpa using h
    have ha := advance_cons hr
    have ha1 := advance_cons ha.1
    obtain ⟨s2, e2, r2, d2⟩ := unicodeEscape_complete s.advance.advance a b c d _ h1 h2 h3 h4 ha1.1
    have ha2 := advance_cons r2
    have ha3 := advance_cons ha2.1
    obtain ⟨s5, e5, r5, d5⟩ := unicodeEscape_complete s2.advance.advance a' b' c' d' t h1' h2' h3' h4' ha3.1
    have yh : (0xD800 ≤ hex4 a b c d ∧ hex4 a b c d ≤ 0xDBFF) := by
      simpa [isHighSurr] using h5
    have yl : (0xDC00 ≤ hex4 a' b' c' d' ∧ hex4 a' b' c' d' ≤ 0xDFFF) := by
      simpa [isLowSurr] using h6
    have hse : isSimpleEsc (0x75 : Byte) = false := by decide
    have p2 : ¬ (s2.peek ≠ some 0x5C) := by rw [peek_cons r2]; simp
    have p3 : ¬ (s2.advance.peek ≠ some 0x75) := by rw [peek_cons ha2.1]; simp
    unfold validateEscape
    simp only [peek_cons ha.1, hse, e2, if_pos yh, if_neg p2, if_neg p3, e5, if_neg (Classical.not_not.mpr yl),
      if_true, if_false, Bool.false_eq_true]
    exact ⟨_, rfl, r5, by rw [d5, ha3.2.2, ha2.2.2, d2, ha1.2.2, ha.2.2]⟩

/-! ### the string loop -/

theorem stringLoop_sound : ∀ (f : Nat) (s s' : St) (u : Unit), stringLoop f s = .ok u s' →
    ∃ body, StrBody body ∧ Adv s (body ++ [0x22]) s' := by
  intro f
  induction f with
  | zero => intro s s' u h; simp [stringLoop] at h
  | succ f ih =>
    intro s s' u h
    unfold stringLoop at h
    split at h
    · cases h
    · rename_i b hb
      obtain ⟨r, hr⟩ := peek_eq_some hb
      split at h
      · rename_i hq
        subst hq
        injection h with _ h; subst h
        exact ⟨[], StrBody.nil, by simpa using adv_advance hr⟩
      · rename_i hq
        split at h
        · rename_i hbs
          subst hbs
          split at h
          · rename_i u1 s1 h1
            obtain ⟨e, he, adv1⟩ := escape_sound hb h1
            obtain ⟨body, hbody, adv2⟩ := ih s1 s' u h
            exact ⟨e ++ body, StrBody.ofEsc he hbody, by simpa using adv1.trans adv2⟩
          · rename_i hne
            exact absurd h (by intro hh; exact hne _ _ hh)
        · rename_i hbs
          split at h
          · cases h
          · rename_i hctl
            split at h
            · rename_i u1 s1 h1
              unfold validateUtf8Char at h1
              split at h1
              · cases h1
              · rename_i n hn
                injection h1 with _ h1; subst h1
                obtain ⟨c, r', hcr, hcl, hwf⟩ := utf8Len_sound _ _ hn
                obtain ⟨adv1, hrest⟩ := advanceN_adv c s r' hcr
                rw [hcl] at adv1
                obtain ⟨body, hbody, adv2⟩ := ih _ s' u h
                refine ⟨c ++ body, StrBody.char c body ?_ hbody, by simpa using adv1.trans adv2⟩
                simp only [strCharOk, hwf, Bool.true_and]
                match c, hcr, hwf with
                | [a], hcr, _ =>
                  have : a = b := by rw [hr] at hcr; simp at hcr; exact hcr.1.symm
                  subst this
                  simp [hq, hbs]
                  exact ⟨⟨BitVec.not_lt.mp hctl, hq⟩, hbs⟩
                | [], _, hwf => simp [utf8Wf] at hwf
                | _ :: _ :: _, _, _ => rfl
            · rename_i hne
              exact absurd h (by intro hh; exact hne _ _ hh)

theorem strChar_head {c : Bytes} (h : strCharOk c = true) :
    ∃ a c', c = a :: c' ∧ a ≠ 0x22 ∧ a ≠ 0x5C ∧ ¬ a < 0x20 := by
  simp only [strCharOk, Bool.and_eq_true] at h
  obtain ⟨hwf, h2⟩ := h
  match c, hwf, h2 with
  | [a], _, h2 =>
    simp at h2
    exact ⟨a, [], rfl, h2.1.2, h2.2, BitVec.not_lt.mpr h2.1.1⟩
  | [a, b], hwf, _ =>
    simp [utf8Wf] at hwf
    refine ⟨a, [b], rfl, ?_, ?_, ?_⟩ <;> bv_decide (timeout := 300)
  | [a, b, c], hwf, _ =>
    simp [utf8Wf] at hwf
    refine ⟨a, [b, c], rfl, ?_, ?_, ?_⟩ <;> bv_decide (timeout := 300)
  | [a, b, c, d], hwf, _ =>
    simp [utf8Wf] at hwf
    refine ⟨a, [b, c, d], rfl, ?_, ?_, ?_⟩ <;> bv_decide (timeout := 300)
  | [], hwf, _ => simp [utf8Wf] at hwf
  | _ :: _ :: _ :: _ :: _ :: _, hwf, _ => simp [utf8Wf] at hwf

theorem stringLoop_complete (body : Bytes) (hb : StrBody body) : ∀ (f : Nat) (s : St) (t : Bytes),
    body.length < f → s.rest = body ++ 0x22 :: t →
    ∃ s', stringLoop f s = .ok () s' ∧ s'.rest = t ∧ s'.depth = s.depth := by
  induction hb with
  | nil =>
    intro f s t hf h
    obtain ⟨f, rfl⟩ : ∃ g, f = g + 1 := ⟨f - 1, by omega⟩
    have hr : s.rest = 0x22 :: t := by simpa using h
    have ha := advance_cons hr
    unfold stringLoop
    simp only [peek_cons hr, if_true]
    exact ⟨_, rfl, ha.1, ha.2.2⟩
  | char c r hc hr' ih =>
    intro f s t hf h
    obtain ⟨a, c', rfl, n1, n2, n3⟩ := strChar_head hc
    obtain ⟨f, rfl⟩ : ∃ g, f = g + 1 := ⟨f - 1, by omega⟩
    have hwf : utf8Wf (a :: c') = true := by
      simp only [strCharOk, Bool.and_eq_true] at hc; exact hc.1
    have hr : s.rest = a :: (c' ++ (r ++ 0x22 :: t)) := by simpa using h
    have hlen : utf8Len s.rest = some (a :: c').length := by
      have := utf8Len_complete (a :: c') (r ++ 0x22 :: t) hwf
      rw [h]; simpa using this
    obtain ⟨adv1, hrest⟩ := advanceN_adv (a :: c') s (r ++ 0x22 :: t) (by simpa using h)
    obtain ⟨s', h1, h2, h3⟩ := ih f (advanceN (a :: c').length s) t
      (by simp at hf; omega) hrest
    refine ⟨s', ?_, h2, by rw [h3]; exact adv1.2.2⟩
    unfold stringLoop
    simp only [peek_cons hr, if_neg n1, if_neg n2, if_neg n3, validateUtf8Char, hlen]
    exact h1
  | esc e r he hr' ih =>
    intro f s t hf h
    obtain ⟨f, rfl⟩ : ∃ g, f = g + 1 := ⟨f - 1, by omega⟩
    have hr : s.rest = 0x5C :: (e :: (r ++ 0x22 :: t)) := by simpa using h
    obtain ⟨s1, e1, r1, d1⟩ := escape_complete s [0x5C, e] (r ++ 0x22 :: t) (EscSeq.simple e he)
      (by simpa using h)
    obtain ⟨s', h1, h2, h3⟩ := ih f s1 t (by simp at hf; omega) r1
    refine ⟨s', ?_, h2, by rw [h3, d1]⟩
    unfold stringLoop
    have n1 : ¬ ((0x5C : Byte) = 0x22) := by decide
    simp only [peek_cons hr, if_neg n1, if_true, e1]
    exact h1
  | uni a b c d r h1 h2 h3 h4 h5 h6 hr' ih =>
    intro f s t hf h
    obtain ⟨f, rfl⟩ : ∃ g, f = g + 1 := ⟨f - 1, by omega⟩
    have hr : s.rest = 0x5C :: (0x75 :: a :: b :: c :: d :: (r ++ 0x22 :: t)) := by simpa using h
    obtain ⟨s1, e1, r1, d1⟩ := escape_complete s [0x5C, 0x75, a, b, c, d] (r ++ 0x22 :: t)
      (EscSeq.uni a b c d h1 h2 h3 h4 h5 h6) (by simpa using h)
    obtain ⟨s', g1, g2, g3⟩ := ih f s1 t (by simp at hf; omega) r1
    refine ⟨s', ?_, g2, by rw [g3, d1]⟩
    unfold stringLoop
    have n1 : ¬ ((0x5C : Byte) = 0x22) := by decide
    simp only [peek_cons hr, if_neg n1, if_true, e1]
    exact g1
  | pair a b c d a' b' c' d' r h1 h2 h3 h4 h1' h2' h3' h4' h5 h6 hr' ih =>
    intro f s t hf h
    obtain ⟨f, rfl⟩ : ∃ g, f = g + 1 := ⟨f - 1, by omega⟩
    have hr : s.rest = 0x5C :: (0x75 :: a :: b :: c :: d :: 0x5C :: 0x75 :: a' :: b' :: c' :: d' ::
        (r ++ 0x22 :: t)) := by simpa using h
    obtain ⟨s1, e1, r1, d1⟩ := escape_complete s
      [0x5C, 0x75, a, b, c, d, 0x5C, 0x75, a', b', c', d'] (r ++ 0x22 :: t)
      (EscSeq.pair a b c d a' b' c' d' h1 h2 h3 h4 h1' h2' h3' h4' h5 h6) (by simpa using h)
    obtain ⟨s', g1, g2, g3⟩ := ih f s1 t (by simp at hf; omega) r1
    refine ⟨s', ?_, g2, by rw [g3, d1]⟩
    unfold stringLoop
    have n1 : ¬ ((0x5C : Byte) = 0x22) := by decide
    simp only [peek_cons hr, if_neg n1, if_true, e1]
    exact g1

/-! ### `validate_string` -/

theorem string_sound {s s' : St} {u : Unit} (hp : s.peek = some 0x22)
    (h : validateString s = .ok u s') : ∃ v, StringLit v ∧ Adv s v s' := by
  obtain ⟨r, hr⟩ := peek_eq_some hp
  obtain ⟨body, hbody, adv⟩ := stringLoop_sound _ _ _ _ h
  exact ⟨0x22 :: (body ++ [0x22]), ⟨body, hbody, rfl⟩, by simpa using (adv_advance hr).trans adv⟩

theorem string_complete (s : St) (v t : Bytes) (hv : StringLit v) (h : s.rest = v ++ t) :
    ∃ s', validateString s = .ok () s' ∧ s'.rest = t ∧ s'.depth = s.depth := by
  obtain ⟨body, hbody, rfl⟩ := hv
  have hr : s.rest = 0x22 :: (body ++ 0x22 :: t) := by simpa using h
  have ha := advance_cons hr
  obtain ⟨s', h1, h2, h3⟩ := stringLoop_complete body hbody (s.rest.length + 1) s.advance t
    (by rw [hr]; simp; omega) ha.1
  exact ⟨s', h1, h2, by rw [h3, ha.2.2]⟩

end SV.Json.Model
