/-
Proof/BPPart — `slice::partition_point(|r| r <= k)` as core's branch-free binary search returns,
on a slice where the predicate is partitioned (true on a prefix), the length of that prefix (C04).
-/
import SuccinctlyVerif.Model.BP
namespace SV.BPQ
open SV SV.BPM

theorem ppLoop_spec (w : List Nat) (k : Nat)
    (hanti : ∀ i j, i ≤ j → j < w.length → w.getD j 0 ≤ k → w.getD i 0 ≤ k)
    (f size base : Nat) (hf : size ≤ f) (hs : 1 ≤ size) (hb : base + size ≤ w.length)
    (h1 : base = 0 ∨ w.getD base 0 ≤ k)
    (h2 : ∀ j, base + size ≤ j → j < w.length → ¬ w.getD j 0 ≤ k) :
    let b := ppLoop w.toArray k f size base
    b < w.length ∧ (b = 0 ∨ w.getD b 0 ≤ k) ∧ ∀ j, b + 1 ≤ j → j < w.length → ¬ w.getD j 0 ≤ k := by
  induction f generalizing size base with
  | zero => omega
  | succ f ih =>
    unfold ppLoop
    by_cases hgt : size > 1
    · simp only [hgt, if_true]
      have hg : w.toArray.getD (base + size / 2) 0 = w.getD (base + size / 2) 0 := by simp
      rw [hg]
      by_cases hp : w.getD (base + size / 2) 0 ≤ k
      · simp only [hp, if_true]
        exact ih (size - size / 2) (base + size / 2) (by omega) (by omega) (by omega) (Or.inr hp)
          (fun j hj hjl => h2 j (by omega) hjl)
      · simp only [hp, if_false]
        refine ih (size - size / 2) base (by omega) (by omega) (by omega) h1 ?_
        intro j hj hjl hle
        exact hp (hanti (base + size / 2) j (by omega) hjl hle)
    · simp only [hgt, if_false]
      have : size = 1 := by omega
      subst this
      exact ⟨by omega, h1, h2⟩

/-- `partition_point(|r| r <= k)` on an antitone-predicate slice: everything before the result
satisfies `r ≤ k`, the element at the result (if any) does not. -/
theorem partitionPointLe_spec (w : List Nat) (k : Nat)
    (hanti : ∀ i j, i ≤ j → j < w.length → w.getD j 0 ≤ k → w.getD i 0 ≤ k) :
    let pp := partitionPointLe w k
    pp ≤ w.length ∧ (∀ i, i < pp → w.getD i 0 ≤ k) ∧ (pp < w.length → ¬ w.getD pp 0 ≤ k) := by
  unfold partitionPointLe
  simp only [List.size_toArray]
  by_cases h0 : w.length = 0
  · simp [h0]
  · simp only [h0, if_false]
    have hsp := ppLoop_spec w k hanti w.length w.length 0 (Nat.le_refl _) (by omega) (by omega) (Or.inl rfl)
      (fun j hj hjl => by omega)
    simp only at hsp
    generalize ppLoop w.toArray k w.length w.length 0 = b at hsp
    obtain ⟨hb, h1, h2⟩ := hsp
    have hg : w.toArray.getD b 0 = w.getD b 0 := by simp
    rw [hg]
    by_cases hp : w.getD b 0 ≤ k
    · simp only [hp, if_true]
      refine ⟨by omega, ?_, ?_⟩
      · intro i hi
        exact hanti i b (by omega) hb hp
      · intro hlt; exact h2 (b + 1) (Nat.le_refl _) hlt
    · simp only [hp, if_false, Nat.add_zero]
      have hb0 : b = 0 := by rcases h1 with h | h; exact h; exact absurd h hp
      subst hb0
      exact ⟨by omega, fun i hi => by omega, fun _ => by simp⟩

end SV.BPQ
