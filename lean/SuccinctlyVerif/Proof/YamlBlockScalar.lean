/-
Proof/YamlBlockScalar — the streaming emitter's literal block scalars: the indentation-indicator
decision makes the written lines read back, line by line, as the content lines.
-/
import SuccinctlyVerif.Model.YamlEmit
namespace SV.Yaml.Emit
open SV.Yaml

theorem splitLines_ne_nil : ∀ s : List Char, splitLines s ≠ []
  | [] => by simp [splitLines]
  | c :: rest => by
    unfold splitLines
    by_cases h : c = '\n'
    · simp [h]
    · simp only [h, if_false]
      cases hs : splitLines rest with
      | nil => simp
      | cons l ls => simp

theorem splitLines_append_nl : ∀ s : List Char, splitLines (s ++ ['\n']) = splitLines s ++ [[]]
  | [] => by simp [splitLines]
  | c :: rest => by
    simp only [List.cons_append, splitLines]
    rw [splitLines_append_nl rest]
    by_cases h : c = '\n'
    · simp [h]
    · simp only [h, if_false]
      cases hs : splitLines rest with
      | nil => exact absurd hs (splitLines_ne_nil rest)
      | cons l ls => simp

/-- The content lines are the value's lines, less a final empty one when the value ends in a break. -/
theorem contentLines_cases (decoded : List Char) :
    literalContentLines decoded = splitLines decoded ∨
      splitLines decoded = literalContentLines decoded ++ [[]] := by
  unfold literalContentLines
  cases h : decoded.reverse with
  | nil => left; rfl
  | cons c r =>
    by_cases hc : c = '\n'
    · subst hc
      right
      have : decoded = r.reverse ++ ['\n'] := by
        have := congrArg List.reverse h
        simpa using this
      simp only []
      rw [this, splitLines_append_nl]
    · left
      split
      · rename_i r' heq; simp at heq; exact absurd heq.1 hc
      · rfl

theorem mem_contentLines {decoded l : List Char} (h : l ∈ literalContentLines decoded) :
    l ∈ splitLines decoded := by
  rcases contentLines_cases decoded with e | e
  · rw [← e]; exact h
  · rw [e]; simp [h]

theorem find_contentLines (decoded : List Char) :
    (literalContentLines decoded).find? (fun l => !l.isEmpty) =
      (splitLines decoded).find? (fun l => !l.isEmpty) := by
  rcases contentLines_cases decoded with e | e
  · rw [e]
  · rw [e, List.find?_append]
    cases (literalContentLines decoded).find? (fun l => !l.isEmpty) <;> simp

theorem leadingSpaces_replicate (m : Nat) (l : List Char) :
    leadingSpaces (List.replicate m ' ' ++ l) = m + leadingSpaces l := by
  induction m with
  | zero => simp
  | succ m ih => simp [List.replicate_succ, leadingSpaces, ih]; omega

theorem not_blank_of_last {l : List Char} (hne : l ≠ []) (hl : l.getLast? ≠ some ' ') (m : Nat) :
    isBlankLine (List.replicate m ' ' ++ l) = false := by
  obtain ⟨ys, c, rfl⟩ : ∃ ys c, l = ys ++ [c] := by
    cases h : l.getLast? with
    | none => exact absurd (List.getLast?_eq_none_iff.mp h) hne
    | some c => exact ⟨_, c, (List.getLast?_eq_some_iff.mp h).choose_spec⟩
  have hc : c ≠ ' ' := by
    intro e; subst e; simp at hl
  simp [isBlankLine, hc]

def bodyLine (m : Nat) (l : List Char) : List Char :=
  if l.isEmpty then [] else List.replicate m ' ' ++ l

theorem stripContent_bodyLine (m : Nat) (l : List Char) (hl : l.getLast? ≠ some ' ') :
    stripContent m (bodyLine m l) = some l := by
  unfold bodyLine
  cases l with
  | nil => simp [stripContent, isBlankLine]
  | cons c r =>
    have hb := not_blank_of_last (l := c :: r) (by simp) hl m
    simp only [List.isEmpty_cons, Bool.false_eq_true, if_false, stripContent, hb, Bool.false_and,
      leadingSpaces_replicate]
    simp

theorem stripAll_body (m : Nat) : ∀ (ls : List (List Char)),
    (∀ l ∈ ls, l.getLast? ≠ some ' ') → stripAll m (ls.map (bodyLine m)) = some ls
  | [], _ => rfl
  | l :: ls, h => by
    simp only [List.map_cons, stripAll, stripContent_bodyLine m l (h l (by simp)),
      stripAll_body m ls (fun x hx => h x (by simp [hx]))]

/-- Auto-detection on the written lines finds the emitter's indentation, provided the first
non-empty content line does not itself start with a space — the indicator decision. -/
theorem autoIndent_body (m : Nat) : ∀ (ls : List (List Char)),
    (∀ l ∈ ls, l.getLast? ≠ some ' ') →
    (∀ l, ls.find? (fun l => !l.isEmpty) = some l → l.head? ≠ some ' ') →
    autoIndent (ls.map (bodyLine m)) = none ∧ (∀ l ∈ ls, l = []) ∨
      autoIndent (ls.map (bodyLine m)) = some m
  | [], _, _ => by left; simp [autoIndent]
  | l :: ls, hts, hf => by
    cases l with
    | nil =>
      have ih := autoIndent_body m ls (fun x hx => hts x (by simp [hx]))
        (fun x hx => hf x (by simpa using hx))
      simp only [List.map_cons, bodyLine, List.isEmpty_nil, if_true, autoIndent, isBlankLine,
        List.all_nil]
      rcases ih with ⟨h1, h2⟩ | h
      · left; exact ⟨h1, fun x hx => by
          simp only [List.mem_cons] at hx
          rcases hx with rfl | hx
          · rfl
          · exact h2 x hx⟩
      · right; exact h
    | cons c r =>
      right
      have hb := not_blank_of_last (l := c :: r) (by simp) (hts _ (by simp)) m
      have hh := hf (c :: r) (by simp)
      have hc : c ≠ ' ' := by simpa using hh
      simp [bodyLine, autoIndent, hb, leadingSpaces_replicate, leadingSpaces, hc]

theorem map_const_nil_of_all_nil : ∀ (ls : List (List Char)) (f : List Char → List Char),
    (∀ l ∈ ls, l = []) → (ls.map f).map (fun _ => ([] : List Char)) = ls
  | [], _, _ => rfl
  | l :: ls, f, h => by
    have hl : l = [] := h l (by simp)
    subst hl
    simp [map_const_nil_of_all_nil ls f (fun x hx => h x (by simp [hx]))]

/-- What a `some e` decision says about the value. -/
theorem decision_facts {k m : Nat} {decoded : List Char} {e : Option Nat}
    (hd : blockScalarDecision k m decoded = some e) :
    (∀ l ∈ splitLines decoded, l.getLast? ≠ some ' ') ∧
    ((e = some k ∧ needsExplicitIndent decoded = true) ∨
     (e = none ∧ needsExplicitIndent decoded = false)) := by
  unfold blockScalarDecision at hd
  by_cases h0 : (k = 0 || m = 0) = true
  · simp [h0] at hd
  simp only [h0, Bool.false_eq_true, if_false] at hd
  by_cases hn : needsExplicitIndent decoded = true
  · simp only [hn, if_true] at hd
    by_cases hr : (1 ≤ k && k ≤ 9) = true
    · simp only [hr, if_true] at hd
      split at hd
      · rename_i hc
        simp only [Option.some.injEq] at hd
        refine ⟨?_, Or.inl ⟨hd.symm, hn⟩⟩
        simp only [Bool.and_eq_true, Bool.not_eq_true', List.any_eq_false] at hc
        intro l hl
        have := hc.1.2 l hl
        simpa using this
      · cases hd
    · simp [hr] at hd
  · have hn' : needsExplicitIndent decoded = false := by simpa using hn
    simp only [hn', Bool.false_eq_true, if_false] at hd
    split at hd
    · rename_i hc
      simp only [Option.some.injEq] at hd
      refine ⟨?_, Or.inr ⟨hd.symm, hn'⟩⟩
      simp only [Bool.and_eq_true, Bool.not_eq_true', List.any_eq_false] at hc
      intro l hl
      have := hc.1.2 l hl
      simpa using this
    · cases hd

/-- The written lines of a literal block scalar read back, line by line, as its content lines:
with the explicit indicator the decision chose, or by auto-detection when it chose none. -/
theorem literal_lines_reread (n k : Nat) (decoded : List Char) (e : Option Nat)
    (hd : blockScalarDecision k (n + k) decoded = some e) :
    readLiteralLines n e (literalBodyLines (n + k) decoded) = some (literalContentLines decoded) := by
  obtain ⟨hts, hcase⟩ := decision_facts hd
  have hts' : ∀ l ∈ literalContentLines decoded, l.getLast? ≠ some ' ' :=
    fun l hl => hts l (mem_contentLines hl)
  have hbody : literalBodyLines (n + k) decoded = (literalContentLines decoded).map (bodyLine (n + k)) := rfl
  rw [hbody]
  rcases hcase with ⟨he, _⟩ | ⟨he, hn⟩
  · subst he
    simp only [readLiteralLines]
    exact stripAll_body (n + k) _ hts'
  · subst he
    have hfirst : ∀ l, (literalContentLines decoded).find? (fun l => !l.isEmpty) = some l →
        l.head? ≠ some ' ' := by
      intro l hl
      rw [find_contentLines] at hl
      unfold needsExplicitIndent at hn
      rw [hl] at hn
      simpa using hn
    rcases autoIndent_body (n + k) _ hts' hfirst with ⟨ha, hall⟩ | ha
    · simp only [readLiteralLines, ha]
      rw [map_const_nil_of_all_nil _ _ hall]
    · simp only [readLiteralLines, ha]
      exact stripAll_body (n + k) _ hts'

end SV.Yaml.Emit
