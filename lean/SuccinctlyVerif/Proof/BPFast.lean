/-
Proof/BPFast — `find_close_in_word_fast` (partial first byte, full bytes through BYTE_MIN_EXCESS /
BYTE_FIND_CLOSE with the bit-scan fallback, partial last byte) equals the forward scan over the
valid bits of the word (C04).
-/
import SuccinctlyVerif.Proof.BPFcf3
namespace SV.BPF
open SV SV.BP SV.BPM SV.BPP SV.BPW SV.BPS SV.BPC SV.BPI SV.BPT

theorem byteFindClose_spec (b i : Nat) (hb : b < 256) (hi : i < 16) :
    byteFindClose b i = (scanClose (byteOfNat b) 0 i).getD 8 := by
  unfold byteFindClose byteFindCloseA
  rw [byteFindClose_eq]
  unfold specByteFindClose
  simp [List.getD_eq_getElem?_getD, hb, hi]

theorem scanByteBits_spec (w : BitVec 64) (fb base n bit : Nat) (e : Int) (hbit : bit + n ≤ 8) (he : 1 ≤ e) :
    scanByteBits (byteOf w fb) base n bit e =
      match scanClose (seg w (8 * fb + bit) n) (base + bit) (e - 1).toNat with
      | some r => .inl r
      | none => .inr (e + totExc (seg w (8 * fb + bit) n)) := by
  induction n generalizing bit e with
  | zero => simp [scanByteBits, seg_zero, scanClose, totExc]
  | succ n ih =>
    rw [seg_succ_left]
    unfold scanByteBits bitOf
    rw [byteOf_testBit w fb bit (by omega)]
    have e8 : 8 * fb + (bit + 1) = 8 * fb + bit + 1 := by omega
    have eb : base + (bit + 1) = base + bit + 1 := by omega
    cases hb : w.getLsbD (8 * fb + bit)
    · simp only [Bool.false_eq_true, if_false, scanClose, totExc, BPC.delta_false]
      by_cases h0 : e - 1 = 0
      · have : (e - 1).toNat = 0 := by omega
        simp [h0, this]
      · have hne : (e - 1).toNat ≠ 0 := by omega
        simp only [h0, hne, if_false]
        rw [ih (bit + 1) (e - 1) (by omega) (by omega), e8, eb]
        have ed : (e - 1 - 1).toNat = (e - 1).toNat - 1 := by omega
        rw [ed]
        cases scanClose (seg w (8 * fb + bit + 1) n) (base + bit + 1) ((e - 1).toNat - 1) with
        | some r => rfl
        | none => simp only; congr 1; omega
    · simp only [if_true, scanClose, totExc, BPC.delta_true]
      rw [ih (bit + 1) (e + 1) (by omega) (by omega), e8, eb]
      have ed : (e + 1 - 1).toNat = (e - 1).toNat + 1 := by omega
      rw [ed]
      cases scanClose (seg w (8 * fb + bit + 1) n) (base + bit + 1) ((e - 1).toNat + 1) with
      | some r => rfl
      | none => simp only; congr 1; omega

/-- One full byte of the table loop: the hit computed through BYTE_MIN_EXCESS / BYTE_FIND_CLOSE and
the fallback bit scan is the forward scan of the byte. -/
theorem byteHit_spec (w : BitVec 64) (pos : Nat) (e : Int) (h8 : pos % 8 = 0) (he : 1 ≤ e) :
    (if e + byteMin (byteOf w (pos / 8)) ≤ 0 then
        match (if e ≤ 16 then
            (if byteFindClose (byteOf w (pos / 8)) (e - 1).toNat < 8 then
              some (pos + byteFindClose (byteOf w (pos / 8)) (e - 1).toNat) else none)
          else none) with
        | some r => some r
        | none =>
          match scanByteBits (byteOf w (pos / 8)) pos 8 0 e with
          | .inl r => some r
          | .inr _ => none
      else none) = scanClose (seg w pos 8) pos (e - 1).toNat := by
  have hpos : 8 * (pos / 8) = pos := by omega
  have hB : byteOfNat (byteOf w (pos / 8)) = seg w pos 8 := by rw [byteOfNat_byteOf, hpos]
  rw [byteMin_spec _ (byteOf_lt w _), hB]
  by_cases hc : e + minExc (seg w pos 8) ≤ 0
  · simp only [hc, if_true]
    have hsb := scanByteBits_spec w (pos / 8) pos 8 0 e (by omega) he
    rw [Nat.add_zero, hpos] at hsb
    have hfall : (match scanByteBits (byteOf w (pos / 8)) pos 8 0 e with
        | .inl r => some r
        | .inr _ => (none : Option Nat)) = scanClose (seg w pos 8) pos (e - 1).toNat := by
      rw [hsb]
      cases scanClose (seg w pos 8) pos (e - 1).toNat <;> rfl
    by_cases h16 : e ≤ 16
    · simp only [h16, if_true]
      rw [byteFindClose_spec _ _ (byteOf_lt w _) (by omega), hB]
      have hsh := scanClose_shift (seg w pos 8) 0 pos (e - 1).toNat
      rw [Nat.zero_add] at hsh
      cases hs : scanClose (seg w pos 8) 0 (e - 1).toNat with
      | some m =>
        have hbd := scanClose_bounds _ _ _ _ hs
        rw [seg_length] at hbd
        have hm : m < 8 := by omega
        rw [hs] at hsh
        simp only [Option.getD_some, hm, if_true, hsh, Option.map_some]
        congr 1; omega
      | none =>
        simp only [Option.getD_none, Nat.lt_irrefl, if_false]
        exact hfall
    · simp only [h16, if_false]
      exact hfall
  · simp only [hc, if_false]
    symm
    exact block_min_sound _ _ _ (by omega)

theorem fastFullBytes_spec (w : BitVec 64) (vb f pos : Nat) (e : Int) (h8 : pos % 8 = 0) (he : 1 ≤ e)
    (hf : (vb - pos) / 8 < f) :
    fastFullBytes w vb f pos e =
      match scanClose (seg w pos (8 * ((vb - pos) / 8))) pos (e - 1).toNat with
      | some r => .inl r
      | none => .inr (pos + 8 * ((vb - pos) / 8), e + totExc (seg w pos (8 * ((vb - pos) / 8)))) := by
  induction f generalizing pos e with
  | zero => omega
  | succ f ih =>
    unfold fastFullBytes
    by_cases hc : pos + 8 ≤ vb ∧ e > 0
    · simp only [hc, and_self, if_true]
      have hk : (vb - pos) / 8 = (vb - (pos + 8)) / 8 + 1 := by omega
      have hsplit : seg w pos (8 * ((vb - pos) / 8)) = seg w pos 8 ++ seg w (pos + 8) (8 * ((vb - (pos + 8)) / 8)) := by
        rw [hk, Nat.mul_add, Nat.mul_one, Nat.add_comm (8 * _) 8, seg_append]
      have hpos : 8 * (pos / 8) = pos := by omega
      have hB : byteOfNat (byteOf w (pos / 8)) = seg w pos 8 := by rw [byteOfNat_byteOf, hpos]
      suffices h : ∀ X : Option Nat, X = scanClose (seg w pos 8) pos (e - 1).toNat →
          (match X with
            | some r => (Sum.inl r : Sum Nat (Nat × Int))
            | none => fastFullBytes w vb f (pos + 8) (e + byteTot (byteOf w (pos / 8)))) =
          (match scanClose (seg w pos (8 * ((vb - pos) / 8))) pos (e - 1).toNat with
            | some r => Sum.inl r
            | none => Sum.inr (pos + 8 * ((vb - pos) / 8), e + totExc (seg w pos (8 * ((vb - pos) / 8))))) from
        h _ (byteHit_spec w pos e h8 he)
      intro X hX
      subst hX
      rw [hsplit, scanClose_append, seg_length]
      cases hs : scanClose (seg w pos 8) pos (e - 1).toNat with
      | some r => rfl
      | none =>
        simp only
        have htot := scanClose_none_tot _ _ _ hs
        rw [byteTot_spec _ (byteOf_lt w _), hB, ih (pos + 8) _ (by omega) (by omega) (by omega)]
        have ed : (((e - 1).toNat : Nat) : Int) + totExc (seg w pos 8) = e + totExc (seg w pos 8) - 1 := by omega
        rw [ed, totExc_append]
        cases scanClose (seg w (pos + 8) (8 * ((vb - (pos + 8)) / 8))) (pos + 8) (e + totExc (seg w pos 8) - 1).toNat with
        | some r => rfl
        | none =>
          simp only
          have hcc := hc.1
          congr 2 <;> omega
    · simp only [hc, if_false]
      have hk : (vb - pos) / 8 = 0 := by omega
      simp [hk, seg_zero, scanClose, totExc]

end SV.BPF
