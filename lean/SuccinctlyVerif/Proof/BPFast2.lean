/-
Proof/BPFast2 — `find_close_in_word_fast` = forward scan (`FastSpec`), and with it
`find_close_from` / `find_close` of the structure = linear-scan definition (C04).
-/
import SuccinctlyVerif.Proof.BPFast
namespace SV.BPF
open SV SV.BP SV.BPM SV.BPP SV.BPW SV.BPS SV.BPC SV.BPI SV.BPT

/-- From a byte-aligned position: full bytes by table, then the partial last byte. -/
theorem tail_spec (w : BitVec 64) (vb pos : Nat) (e : Int) (hvb : vb ≤ 64) (h8 : pos % 8 = 0) (he : 1 ≤ e) :
    (match fastFullBytes w vb 9 pos e with
      | .inl r => some r
      | .inr (pos, e) =>
        if pos < vb ∧ e > 0 ∧ pos / 8 < 8 then
          match scanByteBits (byteOf w (pos / 8)) pos (vb - pos) 0 e with
          | .inl r => some r
          | .inr _ => none
        else none) = scanClose (seg w pos (vb - pos)) pos (e - 1).toNat := by
  rw [fastFullBytes_spec w vb 9 pos e h8 he (by omega)]
  have hsplit : seg w pos (vb - pos) =
      seg w pos (8 * ((vb - pos) / 8)) ++ seg w (pos + 8 * ((vb - pos) / 8)) ((vb - pos) % 8) := by
    have : vb - pos = 8 * ((vb - pos) / 8) + (vb - pos) % 8 := by omega
    conv => lhs; rw [this, seg_append]
  rw [hsplit, scanClose_append, seg_length]
  cases hs : scanClose (seg w pos (8 * ((vb - pos) / 8))) pos (e - 1).toNat with
  | some r => rfl
  | none =>
    simp only
    have htot := scanClose_none_tot _ _ _ hs
    generalize hp2 : pos + 8 * ((vb - pos) / 8) = pos2
    generalize he2 : e + totExc (seg w pos (8 * ((vb - pos) / 8))) = e2
    have he2' : 1 ≤ e2 := by omega
    have hed : (((e - 1).toNat : Nat) : Int) + totExc (seg w pos (8 * ((vb - pos) / 8))) = e2 - 1 := by omega
    rw [hed]
    have h82 : pos2 % 8 = 0 := by omega
    by_cases hc : pos2 < vb ∧ e2 > 0 ∧ pos2 / 8 < 8
    · simp only [hc, and_self, if_true]
      have hsb := scanByteBits_spec w (pos2 / 8) pos2 (vb - pos2) 0 e2 (by omega) he2'
      have e8 : 8 * (pos2 / 8) + 0 = pos2 := by omega
      rw [e8, Nat.add_zero] at hsb
      rw [hsb]
      have er : (vb - pos) % 8 = vb - pos2 := by omega
      rw [er]
      cases scanClose (seg w pos2 (vb - pos2)) pos2 (e2 - 1).toNat <;> rfl
    · simp only [hc, if_false]
      have : (vb - pos) % 8 = 0 := by omega
      rw [this, seg_zero]; rfl

/-- `find_close_in_word_fast(word, start_bit, e, valid_bits)` = the forward scan over bits
`[start_bit, valid_bits)` with start excess `e ≥ 1`. -/
theorem fast_spec : FastSpec := by
  intro w sb e vb hsb hvb he
  unfold findCloseInWordFast
  have hnot : ¬ (sb ≥ vb ∨ e ≤ 0) := by omega
  simp only [hnot, if_false]
  by_cases hbb : sb % 8 = 0
  · have hnb : ¬ sb % 8 ≠ 0 := by omega
    simp only [hnb, if_false]
    exact tail_spec w vb sb e hvb hbb he
  · simp only [ne_eq, hbb, not_false_eq_true, if_true]
    have hsbs := scanByteBits_spec w (sb / 8) (sb / 8 * 8) (min 8 (vb - sb / 8 * 8) - sb % 8) (sb % 8) e
      (by omega) he
    have e1 : 8 * (sb / 8) + sb % 8 = sb := by omega
    have e2 : sb / 8 * 8 + sb % 8 = sb := by omega
    rw [e1, e2] at hsbs
    rw [hsbs]
    generalize hn1 : min 8 (vb - sb / 8 * 8) - sb % 8 = n1
    have hsplit : seg w sb (vb - sb) = seg w sb n1 ++ seg w (sb + n1) (vb - sb - n1) := by
      have : vb - sb = n1 + (vb - sb - n1) := by omega
      conv => lhs; rw [this, seg_append]
    rw [hsplit, scanClose_append, seg_length]
    cases hs : scanClose (seg w sb n1) sb (e - 1).toNat with
    | some r => rfl
    | none =>
      simp only
      have htot := scanClose_none_tot _ _ _ hs
      have ht := tail_spec w vb ((sb / 8 + 1) * 8) (e + totExc (seg w sb n1)) hvb (by omega) (by omega)
      have hed : (((e - 1).toNat : Nat) : Int) + totExc (seg w sb n1) = e + totExc (seg w sb n1) - 1 := by omega
      rw [hed]
      by_cases hend : vb - sb / 8 * 8 < 8
      · -- the valid bits end inside the first byte: nothing follows
        have h0 : vb - (sb / 8 + 1) * 8 = 0 := by omega
        have h1 : vb - sb - n1 = 0 := by omega
        rw [h0, seg_zero] at ht
        rw [h1, seg_zero]
        exact ht
      · have h0 : sb + n1 = (sb / 8 + 1) * 8 := by omega
        have h1 : vb - sb - n1 = vb - (sb / 8 + 1) * 8 := by omega
        rw [h0, h1]
        exact ht

/-- `find_close_from(start, e)` of the structure (scalar builders) = the linear-scan answer. -/
theorem findCloseFrom_eq (st : List (BitVec 64)) (len : Nat) (k : SelKind)
    (hw : st.length = (len + 63) / 64) (hlen : len < 2 ^ 31) (start : Nat) (e : Int) (he : 1 ≤ e)
    (hb : e + ((len - start : Nat) : Int) < 2 ^ 31) :
    (mkBP false st len k).findCloseFrom start e = R (bitsOf st len) start e := by
  unfold BPM.BP.findCloseFrom
  have hlenf : (mkBP false st len k).len = len := rfl
  have hl := bitsOf_length st len (by omega)
  rw [hlenf]
  by_cases hs : start ≥ len
  · simp only [hs, if_true]
    exact (R_out _ _ _ (by omega)).symm
  · simp only [hs, if_false]
    apply fcfLoop_sound fast_spec st len k hw hlen (by omega) _ .fromL0 e start _ he hb trivial
    simp only [fcfFuel, mu, rank, hlenf]
    omega

/-- `find_close(p)` of the structure (scalar builders) = matching close by the linear scan. -/
theorem findClose_eq (st : List (BitVec 64)) (len : Nat) (k : SelKind)
    (hw : st.length = (len + 63) / 64) (hlen : len < 2 ^ 31) (p : Nat) :
    (mkBP false st len k).findClose p = BP.findClose (bitsOf st len) p := by
  unfold BPM.BP.findClose BP.findClose
  rw [BPR.isClose_eq false st len k p hw]
  have hlenf : (mkBP false st len k).len = len := rfl
  have hl := bitsOf_length st len (by omega)
  rw [hlenf]
  by_cases hp : p ≥ len
  · simp only [hp, true_or, if_true]
    rw [List.getElem?_eq_none (by omega)]; simp
  · have hp' : p < (bitsOf st len).length := by omega
    unfold BP.isClose
    rw [List.getElem?_eq_getElem hp']
    cases hb : (bitsOf st len)[p]
    · simp
    · simp only [hp, false_or]
      have : ¬ ((some true == some false) = true) := by decide
      simp only [this, if_false, if_true]
      rw [findCloseFrom_eq st len k hw hlen (p + 1) 1 (by omega) (by omega)]
      rfl

end SV.BPF
