/-
Proof/Utf8LineCol — `line_and_column`: the 8-byte newline kernel (generated `utf8_newline_mask`,
popcount + highest set bit) does what the byte loop does, and the byte loop computes `lineColLF`.
-/
import Std.Tactic.BVDecide
import SuccinctlyVerif.Model.Utf8
import SuccinctlyVerif.Proof.Utf8
set_option linter.unusedSimpArgs false
namespace SV.Utf8
open SV

/-! ### word lemmas (bv_decide) -/

theorem nl_count (b0 b1 b2 b3 b4 b5 b6 b7 : BitVec 8) :
    (Gen.utf8_newline_mask (leWord b0 b1 b2 b3 b4 b5 b6 b7)).cpop =
      (BitVec.ofBool (b0 == 0x0A#8)).setWidth 64 + (BitVec.ofBool (b1 == 0x0A#8)).setWidth 64 + (BitVec.ofBool (b2 == 0x0A#8)).setWidth 64 + (BitVec.ofBool (b3 == 0x0A#8)).setWidth 64 + (BitVec.ofBool (b4 == 0x0A#8)).setWidth 64 + (BitVec.ofBool (b5 == 0x0A#8)).setWidth 64 + (BitVec.ofBool (b6 == 0x0A#8)).setWidth 64 + (BitVec.ofBool (b7 == 0x0A#8)).setWidth 64 := by
  simp only [Gen.utf8_newline_mask, leWord]; bv_decide (timeout := 300)

theorem nl_zero_iff (b0 b1 b2 b3 b4 b5 b6 b7 : BitVec 8) :
    (Gen.utf8_newline_mask (leWord b0 b1 b2 b3 b4 b5 b6 b7)) = 0#64 ↔ (b0 ≠ 0x0A#8 ∧ b1 ≠ 0x0A#8 ∧ b2 ≠ 0x0A#8 ∧ b3 ≠ 0x0A#8 ∧ b4 ≠ 0x0A#8 ∧ b5 ≠ 0x0A#8 ∧ b6 ≠ 0x0A#8 ∧ b7 ≠ 0x0A#8) := by
  simp only [Gen.utf8_newline_mask, leWord]; bv_decide (timeout := 300)

theorem nl_last_7 (b0 b1 b2 b3 b4 b5 b6 b7 : BitVec 8) (h7 : b7 = 0x0A#8) :
    (Gen.utf8_newline_mask (leWord b0 b1 b2 b3 b4 b5 b6 b7)).clz ≤ 63#64 ∧ (63#64 - (Gen.utf8_newline_mask (leWord b0 b1 b2 b3 b4 b5 b6 b7)).clz) >>> 3 = 7#64 := by
  simp only [Gen.utf8_newline_mask, leWord]; bv_decide (timeout := 300)

theorem nl_last_6 (b0 b1 b2 b3 b4 b5 b6 b7 : BitVec 8) (h7 : b7 ≠ 0x0A#8) (h6 : b6 = 0x0A#8) :
    (Gen.utf8_newline_mask (leWord b0 b1 b2 b3 b4 b5 b6 b7)).clz ≤ 63#64 ∧ (63#64 - (Gen.utf8_newline_mask (leWord b0 b1 b2 b3 b4 b5 b6 b7)).clz) >>> 3 = 6#64 := by
  simp only [Gen.utf8_newline_mask, leWord]; bv_decide (timeout := 300)

theorem nl_last_5 (b0 b1 b2 b3 b4 b5 b6 b7 : BitVec 8) (h7 : b7 ≠ 0x0A#8) (h6 : b6 ≠ 0x0A#8) (h5 : b5 = 0x0A#8) :
    (Gen.utf8_newline_mask (leWord b0 b1 b2 b3 b4 b5 b6 b7)).clz ≤ 63#64 ∧ (63#64 - (Gen.utf8_newline_mask (leWord b0 b1 b2 b3 b4 b5 b6 b7)).clz) >>> 3 = 5#64 := by
  simp only [Gen.utf8_newline_mask, leWord]; bv_decide (timeout := 300)

theorem nl_last_4 (b0 b1 b2 b3 b4 b5 b6 b7 : BitVec 8) (h7 : b7 ≠ 0x0A#8) (h6 : b6 ≠ 0x0A#8) (h5 : b5 ≠ 0x0A#8) (h4 : b4 = 0x0A#8) :
    (Gen.utf8_newline_mask (leWord b0 b1 b2 b3 b4 b5 b6 b7)).clz ≤ 63#64 ∧ (63#64 - (Gen.utf8_newline_mask (leWord b0 b1 b2 b3 b4 b5 b6 b7)).clz) >>> 3 = 4#64 := by
  simp only [Gen.utf8_newline_mask, leWord]; bv_decide (timeout := 300)

theorem nl_last_3 (b0 b1 b2 b3 b4 b5 b6 b7 : BitVec 8) (h7 : b7 ≠ 0x0A#8) (h6 : b6 ≠ 0x0A#8) (h5 : b5 ≠ 0x0A#8) (h4 : b4 ≠ 0x0A#8) (h3 : b3 = 0x0A#8) :
    (Gen.utf8_newline_mask (leWord b0 b1 b2 b3 b4 b5 b6 b7)).clz ≤ 63#64 ∧ (63#64 - (Gen.utf8_newline_mask (leWord b0 b1 b2 b3 b4 b5 b6 b7)).clz) >>> 3 = 3#64 := by
  simp only [Gen.utf8_newline_mask, leWord]; bv_decide (timeout := 300)

theorem nl_last_2 (b0 b1 b2 b3 b4 b5 b6 b7 : BitVec 8) (h7 : b7 ≠ 0x0A#8) (h6 : b6 ≠ 0x0A#8) (h5 : b5 ≠ 0x0A#8) (h4 : b4 ≠ 0x0A#8) (h3 : b3 ≠ 0x0A#8) (h2 : b2 = 0x0A#8) :
    (Gen.utf8_newline_mask (leWord b0 b1 b2 b3 b4 b5 b6 b7)).clz ≤ 63#64 ∧ (63#64 - (Gen.utf8_newline_mask (leWord b0 b1 b2 b3 b4 b5 b6 b7)).clz) >>> 3 = 2#64 := by
  simp only [Gen.utf8_newline_mask, leWord]; bv_decide (timeout := 300)

theorem nl_last_1 (b0 b1 b2 b3 b4 b5 b6 b7 : BitVec 8) (h7 : b7 ≠ 0x0A#8) (h6 : b6 ≠ 0x0A#8) (h5 : b5 ≠ 0x0A#8) (h4 : b4 ≠ 0x0A#8) (h3 : b3 ≠ 0x0A#8) (h2 : b2 ≠ 0x0A#8) (h1 : b1 = 0x0A#8) :
    (Gen.utf8_newline_mask (leWord b0 b1 b2 b3 b4 b5 b6 b7)).clz ≤ 63#64 ∧ (63#64 - (Gen.utf8_newline_mask (leWord b0 b1 b2 b3 b4 b5 b6 b7)).clz) >>> 3 = 1#64 := by
  simp only [Gen.utf8_newline_mask, leWord]; bv_decide (timeout := 300)

theorem nl_last_0 (b0 b1 b2 b3 b4 b5 b6 b7 : BitVec 8) (h7 : b7 ≠ 0x0A#8) (h6 : b6 ≠ 0x0A#8) (h5 : b5 ≠ 0x0A#8) (h4 : b4 ≠ 0x0A#8) (h3 : b3 ≠ 0x0A#8) (h2 : b2 ≠ 0x0A#8) (h1 : b1 ≠ 0x0A#8) (h0 : b0 = 0x0A#8) :
    (Gen.utf8_newline_mask (leWord b0 b1 b2 b3 b4 b5 b6 b7)).clz ≤ 63#64 ∧ (63#64 - (Gen.utf8_newline_mask (leWord b0 b1 b2 b3 b4 b5 b6 b7)).clz) >>> 3 = 0#64 := by
  simp only [Gen.utf8_newline_mask, leWord]; bv_decide (timeout := 300)

/-! ### the byte loop in closed form -/

/-- Position after the last `\n` of `l` (whose first byte sits at `pos`), `ls` if there is none. -/
def lastLS : List Byte → Nat → Nat → Nat
  | [], _, ls => ls
  | b :: r, pos, ls => lastLS r (pos + 1) (if b = 0x0A#8 then pos + 1 else ls)

theorem lineColTail_append (xs rest : List Byte) : ∀ (pos line ls : Nat),
    lineColTail (xs ++ rest) pos line ls =
      lineColTail rest (pos + xs.length) (line + xs.count 0x0A#8) (lastLS xs pos ls) := by
  induction xs with
  | nil => intro pos line ls; simp [lastLS]
  | cons b r ih =>
    intro pos line ls
    simp only [List.cons_append, lineColTail, lastLS, List.length_cons, List.count_cons]
    by_cases h : b = 0x0A#8
    · simp only [h, if_true, ih, beq_self_eq_true]
      congr 1 <;> omega
    · have h' : (b == 0x0A#8) = false := by simpa using h
      simp only [h, if_false, ih, h', Bool.false_eq_true]
      congr 1 <;> omega

theorem lineColTail_eq (l : List Byte) (pos line ls : Nat) :
    lineColTail l pos line ls = (line + l.count 0x0A#8, lastLS l pos ls) := by
  have := lineColTail_append l [] pos line ls
  simpa [lineColTail] using this

theorem ite_toNat (c : Bool) : (if c = true then 1 else 0) = c.toNat := by cases c <;> rfl

/-- Popcount of the newline mask = number of `\n` among the eight bytes. -/
theorem word_count (b0 b1 b2 b3 b4 b5 b6 b7 : BitVec 8) :
    popc (Gen.utf8_newline_mask (leWord b0 b1 b2 b3 b4 b5 b6 b7)) = ([b0, b1, b2, b3, b4, b5, b6, b7] : List Byte).count 0x0A#8 := by
  unfold popc
  rw [nl_count]
  simp only [BitVec.toNat_add, BitVec.toNat_setWidth, BitVec.toNat_ofBool, List.count_cons, List.count_nil,
    ite_toNat]
  have := Bool.toNat_le (b0 == 0x0A#8)
  have := Bool.toNat_le (b1 == 0x0A#8)
  have := Bool.toNat_le (b2 == 0x0A#8)
  have := Bool.toNat_le (b3 == 0x0A#8)
  have := Bool.toNat_le (b4 == 0x0A#8)
  have := Bool.toNat_le (b5 == 0x0A#8)
  have := Bool.toNat_le (b6 == 0x0A#8)
  have := Bool.toNat_le (b7 == 0x0A#8)
  omega

/-- Highest set bit of the newline mask locates the last `\n` of the eight bytes. -/
theorem word_last (b0 b1 b2 b3 b4 b5 b6 b7 : BitVec 8) (pos ls : Nat) :
    (if Gen.utf8_newline_mask (leWord b0 b1 b2 b3 b4 b5 b6 b7) ≠ 0#64 then pos + (63 - (Gen.utf8_newline_mask (leWord b0 b1 b2 b3 b4 b5 b6 b7)).clz.toNat) / 8 + 1 else ls) =
      lastLS [b0, b1, b2, b3, b4, b5, b6, b7] pos ls := by
  by_cases h7 : b7 = 0x0A#8
  ·
    have hne : Gen.utf8_newline_mask (leWord b0 b1 b2 b3 b4 b5 b6 b7) ≠ 0#64 := by
      intro h0; exact absurd h7 (by have := (nl_zero_iff b0 b1 b2 b3 b4 b5 b6 b7).1 h0; simp_all)
    obtain ⟨hle, hsh⟩ := nl_last_7 b0 b1 b2 b3 b4 b5 b6 b7 h7
    have hN : (63 - (Gen.utf8_newline_mask (leWord b0 b1 b2 b3 b4 b5 b6 b7)).clz.toNat) / 8 = 7 := by
      have h1 := congrArg BitVec.toNat hsh
      simp only [BitVec.toNat_ushiftRight, BitVec.toNat_sub_of_le hle, BitVec.toNat_ofNat, Nat.shiftRight_eq_div_pow] at h1
      simpa using h1
    simp only [hne, ne_eq, not_false_eq_true, if_true, hN]
    simp [lastLS, h7]
  ·
    by_cases h6 : b6 = 0x0A#8
    ·
      have hne : Gen.utf8_newline_mask (leWord b0 b1 b2 b3 b4 b5 b6 b7) ≠ 0#64 := by
        intro h0; exact absurd h6 (by have := (nl_zero_iff b0 b1 b2 b3 b4 b5 b6 b7).1 h0; simp_all)
      obtain ⟨hle, hsh⟩ := nl_last_6 b0 b1 b2 b3 b4 b5 b6 b7 h7 h6
      have hN : (63 - (Gen.utf8_newline_mask (leWord b0 b1 b2 b3 b4 b5 b6 b7)).clz.toNat) / 8 = 6 := by
        have h1 := congrArg BitVec.toNat hsh
        simp only [BitVec.toNat_ushiftRight, BitVec.toNat_sub_of_le hle, BitVec.toNat_ofNat, Nat.shiftRight_eq_div_pow] at h1
        simpa using h1
      simp only [hne, ne_eq, not_false_eq_true, if_true, hN]
      simp [lastLS, h7, h6]
    ·
      by_cases h5 : b5 = 0x0A#8
      ·
        have hne : Gen.utf8_newline_mask (leWord b0 b1 b2 b3 b4 b5 b6 b7) ≠ 0#64 := by
          intro h0; exact absurd h5 (by have := (nl_zero_iff b0 b1 b2 b3 b4 b5 b6 b7).1 h0; simp_all)
        obtain ⟨hle, hsh⟩ := nl_last_5 b0 b1 b2 b3 b4 b5 b6 b7 h7 h6 h5
        have hN : (63 - (Gen.utf8_newline_mask (leWord b0 b1 b2 b3 b4 b5 b6 b7)).clz.toNat) / 8 = 5 := by
          have h1 := congrArg BitVec.toNat hsh
          simp only [BitVec.toNat_ushiftRight, BitVec.toNat_sub_of_le hle, BitVec.toNat_ofNat, Nat.shiftRight_eq_div_pow] at h1
          simpa using h1
        simp only [hne, ne_eq, not_false_eq_true, if_true, hN]
        simp [lastLS, h7, h6, h5]
      ·
        by_cases h4 : b4 = 0x0A#8
        ·
          have hne : Gen.utf8_newline_mask (leWord b0 b1 b2 b3 b4 b5 b6 b7) ≠ 0#64 := by
            intro h0; exact absurd h4 (by have := (nl_zero_iff b0 b1 b2 b3 b4 b5 b6 b7).1 h0; simp_all)
          obtain ⟨hle, hsh⟩ := nl_last_4 b0 b1 b2 b3 b4 b5 b6 b7 h7 h6 h5 h4
          have hN : (63 - (Gen.utf8_newline_mask (leWord b0 b1 b2 b3 b4 b5 b6 b7)).clz.toNat) / 8 = 4 := by
            have h1 := congrArg BitVec.toNat hsh
            simp only [BitVec.toNat_ushiftRight, BitVec.toNat_sub_of_le hle, BitVec.toNat_ofNat, Nat.shiftRight_eq_div_pow] at h1
            simpa using h1
          simp only [hne, ne_eq, not_false_eq_true, if_true, hN]
          simp [lastLS, h7, h6, h5, h4]
        ·
          by_cases h3 : b3 = 0x0A#8
          ·
            have hne : Gen.utf8_newline_mask (leWord b0 b1 b2 b3 b4 b5 b6 b7) ≠ 0#64 := by
              intro h0; exact absurd h3 (by have := (nl_zero_iff b0 b1 b2 b3 b4 b5 b6 b7).1 h0; simp_all)
            obtain ⟨hle, hsh⟩ := nl_last_3 b0 b1 b2 b3 b4 b5 b6 b7 h7 h6 h5 h4 h3
            have hN : (63 - (Gen.utf8_newline_mask (leWord b0 b1 b2 b3 b4 b5 b6 b7)).clz.toNat) / 8 = 3 := by
              have h1 := congrArg BitVec.toNat hsh
              simp only [BitVec.toNat_ushiftRight, BitVec.toNat_sub_of_le hle, BitVec.toNat_ofNat, Nat.shiftRight_eq_div_pow] at h1
              simpa using h1
            simp only [hne, ne_eq, not_false_eq_true, if_true, hN]
            simp [lastLS, h7, h6, h5, h4, h3]
          ·
            by_cases h2 : b2 = 0x0A#8
            ·
              have hne : Gen.utf8_newline_mask (leWord b0 b1 b2 b3 b4 b5 b6 b7) ≠ 0#64 := by
                intro h0; exact absurd h2 (by have := (nl_zero_iff b0 b1 b2 b3 b4 b5 b6 b7).1 h0; simp_all)
              obtain ⟨hle, hsh⟩ := nl_last_2 b0 b1 b2 b3 b4 b5 b6 b7 h7 h6 h5 h4 h3 h2
              have hN : (63 - (Gen.utf8_newline_mask (leWord b0 b1 b2 b3 b4 b5 b6 b7)).clz.toNat) / 8 = 2 := by
                have h1 := congrArg BitVec.toNat hsh
                simp only [BitVec.toNat_ushiftRight, BitVec.toNat_sub_of_le hle, BitVec.toNat_ofNat, Nat.shiftRight_eq_div_pow] at h1
                simpa using h1
              simp only [hne, ne_eq, not_false_eq_true, if_true, hN]
              simp [lastLS, h7, h6, h5, h4, h3, h2]
            ·
              by_cases h1 : b1 = 0x0A#8
              ·
                have hne : Gen.utf8_newline_mask (leWord b0 b1 b2 b3 b4 b5 b6 b7) ≠ 0#64 := by
                  intro h0; exact absurd h1 (by have := (nl_zero_iff b0 b1 b2 b3 b4 b5 b6 b7).1 h0; simp_all)
                obtain ⟨hle, hsh⟩ := nl_last_1 b0 b1 b2 b3 b4 b5 b6 b7 h7 h6 h5 h4 h3 h2 h1
                have hN : (63 - (Gen.utf8_newline_mask (leWord b0 b1 b2 b3 b4 b5 b6 b7)).clz.toNat) / 8 = 1 := by
                  have h1 := congrArg BitVec.toNat hsh
                  simp only [BitVec.toNat_ushiftRight, BitVec.toNat_sub_of_le hle, BitVec.toNat_ofNat, Nat.shiftRight_eq_div_pow] at h1
                  simpa using h1
                simp only [hne, ne_eq, not_false_eq_true, if_true, hN]
                simp [lastLS, h7, h6, h5, h4, h3, h2, h1]
              ·
                by_cases h0 : b0 = 0x0A#8
                ·
                  have hne : Gen.utf8_newline_mask (leWord b0 b1 b2 b3 b4 b5 b6 b7) ≠ 0#64 := by
                    intro h0; exact absurd h0 (by have := (nl_zero_iff b0 b1 b2 b3 b4 b5 b6 b7).1 h0; simp_all)
                  obtain ⟨hle, hsh⟩ := nl_last_0 b0 b1 b2 b3 b4 b5 b6 b7 h7 h6 h5 h4 h3 h2 h1 h0
                  have hN : (63 - (Gen.utf8_newline_mask (leWord b0 b1 b2 b3 b4 b5 b6 b7)).clz.toNat) / 8 = 0 := by
                    have h1 := congrArg BitVec.toNat hsh
                    simp only [BitVec.toNat_ushiftRight, BitVec.toNat_sub_of_le hle, BitVec.toNat_ofNat, Nat.shiftRight_eq_div_pow] at h1
                    simpa using h1
                  simp only [hne, ne_eq, not_false_eq_true, if_true, hN]
                  simp [lastLS, h7, h6, h5, h4, h3, h2, h1, h0]
                ·
                  have hz : Gen.utf8_newline_mask (leWord b0 b1 b2 b3 b4 b5 b6 b7) = 0#64 := (nl_zero_iff b0 b1 b2 b3 b4 b5 b6 b7).2 ⟨h0, h1, h2, h3, h4, h5, h6, h7⟩
                  simp only [hz, ne_eq, not_true_eq_false, if_false]
                  simp [lastLS, h0, h1, h2, h3, h4, h5, h6, h7]

/-- The generated per-word line increment (`mask.count_ones() as usize`) is the popcount. -/
theorem line_inc_toNat (m : BitVec 64) : (Gen.utf8_line_inc m).toNat = popc m := by
  have e : Gen.utf8_line_inc m = m.cpop := by
    simp only [Gen.utf8_line_inc, popcountBV64]; bv_decide (timeout := 300)
  rw [e]; rfl

/-- The word loop of `line_and_column` computes what its byte loop computes. -/
theorem lineColGo_eq_tail (l : List Byte) (pos line ls : Nat) :
    lineColGo l pos line ls = lineColTail l pos line ls := by
  fun_induction lineColGo l pos line ls with
  | case1 b0 b1 b2 b3 b4 b5 b6 b7 rest pos line ls mask hm ih =>
    rw [ih]
    have e : b0 :: b1 :: b2 :: b3 :: b4 :: b5 :: b6 :: b7 :: rest = [b0, b1, b2, b3, b4, b5, b6, b7] ++ rest := rfl
    rw [e, lineColTail_append, ← word_count, ← word_last b0 b1 b2 b3 b4 b5 b6 b7 pos ls]
    have hm' : Gen.utf8_newline_mask (leWord b0 b1 b2 b3 b4 b5 b6 b7) ≠ 0#64 := hm
    simp only [hm', ne_eq, not_false_eq_true, if_true]
    rfl
  | case2 b0 b1 b2 b3 b4 b5 b6 b7 rest pos line ls mask hm ih =>
    rw [ih]
    have e : b0 :: b1 :: b2 :: b3 :: b4 :: b5 :: b6 :: b7 :: rest = [b0, b1, b2, b3, b4, b5, b6, b7] ++ rest := rfl
    have hz : Gen.utf8_newline_mask (leWord b0 b1 b2 b3 b4 b5 b6 b7) = 0#64 := by simpa using hm
    rw [e, lineColTail_append, ← word_count, ← word_last b0 b1 b2 b3 b4 b5 b6 b7 pos ls]
    simp only [hz, ne_eq, not_true_eq_false, if_false]
    simp [popc]
  | case3 l pos line ls hx => rfl

/-! ### the byte loop computes `lineColLF` -/

theorem lastLS_append (xs ys : List Byte) : ∀ (pos ls : Nat),
    lastLS (xs ++ ys) pos ls = lastLS ys (pos + xs.length) (lastLS xs pos ls) := by
  induction xs with
  | nil => intro pos ls; simp [lastLS]
  | cons b r ih =>
    intro pos ls
    simp only [List.cons_append, lastLS, ih, List.length_cons]
    congr 1; omega

theorem lastLS_reverse (r : List Byte) :
    lastLS r.reverse 0 0 ≤ r.length ∧
      r.length - lastLS r.reverse 0 0 = (r.takeWhile (· ≠ 0x0A#8)).length := by
  induction r with
  | nil => simp [lastLS]
  | cons x r ih =>
    rw [List.reverse_cons, lastLS_append]
    simp only [lastLS, Nat.zero_add, List.length_reverse, List.length_cons, List.takeWhile_cons]
    by_cases h : x = 0x0A#8
    · simp [h]
    · obtain ⟨ih1, ih2⟩ := ih
      simp only [h, if_false, ne_eq, not_false_eq_true, decide_true, if_true, List.length_cons] at ih2 ⊢
      omega

/-- `line_and_column` = the LF line/column of Spec/Utf8, for every input and every offset in range;
an offset past the end panics (slice bound). -/
theorem lineAndColumn_eq (input : List Byte) (offset : Nat) :
    lineAndColumn input offset = if offset > input.length then none else some (lineColLF input offset) := by
  unfold lineAndColumn
  by_cases h : offset > input.length
  · simp [h]
  · simp only [h, if_false, lineColGo_eq_tail, lineColTail_eq, lineColLF]
    have hlen : (input.take offset).length = offset := by simp; omega
    have hr := lastLS_reverse (input.take offset).reverse
    rw [List.reverse_reverse, List.length_reverse, hlen] at hr
    congr 1
    refine Prod.ext (by simp) ?_
    simp only
    omega

end SV.Utf8
