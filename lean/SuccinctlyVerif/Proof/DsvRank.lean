/-
Proof/DsvRank — `DsvIndexLightweight` rank/select (cumulative counts + `partition_point` + CTZ select)
over words packed from a bit list equal the naive `rankB` / `selectB` of that bit list (C21), and
`select1(rank1(p))` is the first set bit at or after `p`.  Reuses the generic cumulative-count lemmas
of Proof/JsonIb.lean and `selectCtz_eq` of Proof/Kernels.lean.
-/
import SuccinctlyVerif.Model.DsvNav
import SuccinctlyVerif.Proof.Dsv
import SuccinctlyVerif.Proof.JsonIb
open SV SV.Dsv SV.Scan

namespace SV.DsvRank

/-! ### packed words as a bit list -/

theorem wordBits_wordOfBits (l : List Bool) (h : l.length ≤ 64) :
    wordBits (wordOfBits l) = l ++ List.replicate (64 - l.length) false := by
  apply List.ext_getElem
  · simp [wordBits]; omega
  · intro i h1 h2
    simp only [wordBits, List.length_map, List.length_range] at h1
    simp only [wordBits, List.getElem_map, List.getElem_range, DsvP.wordOfBits_getLsbD, h1, decide_true,
      Bool.true_and]
    by_cases hi : i < l.length
    · rw [List.getElem_append_left hi, List.getElem?_eq_getElem hi]; rfl
    · rw [List.getElem_append_right (by omega), List.getElem?_eq_none (by omega)]; simp

theorem allBits_packWords (bits : List Bool) :
    ∃ n, allBits (packWords bits) = bits ++ List.replicate n false := by
  induction h : bits.length using Nat.strongRecOn generalizing bits with
  | _ k ih =>
    by_cases hb : bits = []
    · subst hb; exact ⟨0, by simp [DsvP.packWords_nil, allBits]⟩
    · rw [DsvP.packWords_cons_ne bits hb, allBits_cons]
      by_cases h64 : bits.length ≤ 64
      · rw [List.take_of_length_le h64, List.drop_of_length_le h64, DsvP.packWords_nil,
          wordBits_wordOfBits bits h64]
        exact ⟨64 - bits.length, by simp [allBits]⟩
      · have hl : (bits.take 64).length = 64 := by rw [List.length_take]; omega
        obtain ⟨n, hn⟩ := ih (bits.drop 64).length (by rw [List.length_drop]; omega) (bits.drop 64) rfl
        rw [wordBits_wordOfBits _ (by omega), hl, hn]
        refine ⟨n, ?_⟩
        simp only [Nat.sub_self, List.replicate_zero, List.append_nil]
        rw [← List.append_assoc, List.take_append_drop]

theorem packWords_length (bits : List Bool) : (packWords bits).length = (bits.length + 63) / 64 := by
  induction h : bits.length using Nat.strongRecOn generalizing bits with
  | _ k ih =>
    by_cases hb : bits = []
    · subst hb; simp [DsvP.packWords_nil] at h ⊢; omega
    · rw [DsvP.packWords_cons_ne bits hb, List.length_cons,
        ih (bits.drop 64).length (by
          have : bits.length ≠ 0 := by simpa using hb
          rw [List.length_drop]; omega) (bits.drop 64) rfl, List.length_drop]
      have : bits.length ≠ 0 := by simpa using hb
      omega

/-- Padding with `false` changes neither rank (below the length), count nor select. -/
theorem rankB_pad (l : List Bool) (n i : Nat) (hi : i ≤ l.length) :
    rankB true (l ++ List.replicate n false) i = rankB true l i := by
  unfold rankB
  rw [List.take_append_of_le_length hi]

theorem count_pad (l : List Bool) (n : Nat) : (l ++ List.replicate n false).count true = l.count true := by
  simp [List.count_append, List.count_replicate]

theorem selectB_pad (l : List Bool) (n k : Nat) :
    selectB true (l ++ List.replicate n false) k = selectB true l k := by
  rw [selectB_append]
  by_cases h : k < l.count true
  · simp [h]
  · simp only [h, if_false]
    rw [selectB_none_of_count_le true _ _ (by simp [List.count_replicate]),
      selectB_none_of_count_le true l k (by omega)]
    rfl

/-! ### the cumulative rank array -/

theorem buildRankGo_spec (ws : List (BitVec 64)) (c : Nat) :
    (buildRank.go ws c).length = ws.length ∧
    ∀ i, i < ws.length → (buildRank.go ws c).getD i 0 = c + JsonIb.cum ws (i + 1) := by
  induction ws generalizing c with
  | nil => simp [buildRank.go]
  | cons w ws ih =>
    obtain ⟨h1, h2⟩ := ih (c + popc w)
    refine ⟨by simp [buildRank.go, h1], ?_⟩
    intro i hi
    cases i with
    | zero => simp [buildRank.go, JsonIb.cum, Kernels.popc_eq_popcount]
    | succ i =>
      simp only [buildRank.go, List.getD_cons_succ]
      rw [h2 i (by simpa using hi), JsonIb.cum_cons_succ, Kernels.popc_eq_popcount]; omega

theorem buildRank_length (ws : List (BitVec 64)) : (buildRank ws).length = ws.length + 1 := by
  simp [buildRank, (buildRankGo_spec ws 0).1]

theorem buildRank_get (ws : List (BitVec 64)) (i : Nat) (hi : i ≤ ws.length) :
    (buildRank ws).getD i 0 = JsonIb.cum ws i := by
  cases i with
  | zero => simp [buildRank, JsonIb.cum_zero]
  | succ i =>
    simp only [buildRank, List.getD_cons_succ]
    rw [(buildRankGo_spec ws 0).2 i (by omega)]; omega

theorem buildRank_last (ws : List (BitVec 64)) :
    (buildRank ws).getLast?.getD 0 = (ws.map popcount).sum := by
  have hl := buildRank_length ws
  rw [List.getLast?_eq_getElem?, hl, Nat.add_sub_cancel]
  have := buildRank_get ws ws.length (Nat.le_refl _)
  rw [List.getD_eq_getElem?_getD] at this
  rw [this, JsonIb.cum_ge_length ws _ (Nat.le_refl _)]


/-! ### partition_point (binary search of core) on a monotone array -/

/-- `xs` is non-decreasing. -/
def MonoL (xs : List Nat) : Prop := ∀ i j, i ≤ j → j < xs.length → xs.getD i 0 ≤ xs.getD j 0

theorem bsearchLoop_spec (k : Nat) (xs : List Nat) (hm : MonoL xs) :
    ∀ (fuel base size : Nat), size ≤ fuel → 1 ≤ size → base + size ≤ xs.length →
      (base = 0 ∨ xs.getD base 0 ≤ k) →
      (∀ i, base + size ≤ i → i < xs.length → k < xs.getD i 0) →
      let r := bsearchLoop (fun r => decide (r ≤ k)) xs fuel base size
      r < xs.length ∧ (r = 0 ∨ xs.getD r 0 ≤ k) ∧ (∀ i, r + 1 ≤ i → i < xs.length → k < xs.getD i 0) := by
  intro fuel
  induction fuel with
  | zero => intro base size h1 h2; omega
  | succ fuel ih =>
    intro base size hf h1 hb hlo hhi
    simp only [bsearchLoop]
    by_cases hs : size > 1
    · simp only [hs, if_true]
      by_cases hp : xs.getD (base + size / 2) 0 ≤ k
      · simp only [hp, decide_true, if_true]
        apply ih (base + size / 2) (size - size / 2) (by omega) (by omega) (by omega) (Or.inr hp)
        intro i hi1 hi2
        exact hhi i (by omega) hi2
      · simp only [hp, decide_false, Bool.false_eq_true, if_false]
        apply ih base (size - size / 2) (by omega) (by omega) (by omega) hlo
        intro i hi1 hi2
        have := hm (base + size / 2) i (by omega) hi2
        omega
    · simp only [hs, if_false]
      have : size = 1 := by omega
      subst this
      exact ⟨by omega, hlo, hhi⟩

/-- `partition_point(|r| r <= k)` on a non-decreasing array: every entry before the point is
`≤ k`, every entry from the point on is `> k`. -/
theorem partitionPoint_spec (k : Nat) (xs : List Nat) (hm : MonoL xs) :
    let r := partitionPoint (fun r => decide (r ≤ k)) xs
    r ≤ xs.length ∧ (∀ i, i < r → xs.getD i 0 ≤ k) ∧ (∀ i, r ≤ i → i < xs.length → k < xs.getD i 0) := by
  simp only [partitionPoint]
  by_cases h0 : xs.length = 0
  · simp [h0]
  · simp only [h0, if_false]
    obtain ⟨h1, h2, h3⟩ := bsearchLoop_spec k xs hm xs.length 0 xs.length (Nat.le_refl _) (by omega) (by omega)
      (Or.inl rfl) (by intro i hi1 hi2; omega)
    generalize bsearchLoop (fun r => decide (r ≤ k)) xs xs.length 0 xs.length = b at h1 h2 h3
    by_cases hp : xs.getD b 0 ≤ k
    · simp only [hp, decide_true, if_true]
      refine ⟨by omega, ?_, h3⟩
      intro i hi
      have := hm i b (by omega) h1
      omega
    · simp only [hp, decide_false, Bool.false_eq_true, if_false, Nat.add_zero]
      have hb0 : b = 0 := by
        rcases h2 with h | h
        · exact h
        · exact absurd h hp
      subst hb0
      refine ⟨by omega, by intro i hi; omega, ?_⟩
      intro i _ hi2
      have := hm 0 i (by omega) hi2
      omega


/-! ### rank1 / select1 of a bit vector built from a bit list -/

/-- The `RankVec` the index builder produces for a bit list of the text's length. -/
def mkVec (bits : List Bool) : RankVec := ⟨packWords bits, buildRank (packWords bits), bits.length⟩

theorem sum_popcount_pack (bits : List Bool) : ((packWords bits).map popcount).sum = bits.count true := by
  obtain ⟨n, hn⟩ := allBits_packWords bits
  rw [← count_allBits, hn, count_pad]

theorem total_eq (bits : List Bool) : (mkVec bits).total = bits.count true := by
  unfold RankVec.total mkVec
  rw [buildRank_last, sum_popcount_pack]

theorem monoL_buildRank (ws : List (BitVec 64)) : MonoL (buildRank ws) := by
  intro i j hij hj
  rw [buildRank_length] at hj
  rw [buildRank_get ws i (by omega), buildRank_get ws j (by omega)]
  exact JsonIb.cum_mono ws i j hij

theorem rank1_eq (bits : List Bool) (i : Nat) : (mkVec bits).rank1 i = some (rankB true bits i) := by
  unfold RankVec.rank1
  by_cases h0 : i = 0
  · subst h0; simp [rankB]
  · simp only [h0, if_false]
    by_cases hge : i ≥ (mkVec bits).textLen
    · simp only [hge, if_true, total_eq]
      have : bits.length ≤ i := hge
      simp [rankB, List.take_of_length_le this]
    · simp only [hge, if_false]
      have hlt : i < bits.length := by
        have : (mkVec bits).textLen = bits.length := rfl
        omega
      have hwl : (packWords bits).length = (bits.length + 63) / 64 := packWords_length bits
      have hw : i / 64 < (packWords bits).length := by omega
      have hr : (mkVec bits).rank[i / 64]? = some (JsonIb.cum (packWords bits) (i / 64)) := by
        have hl : i / 64 < (buildRank (packWords bits)).length := by rw [buildRank_length]; omega
        have := buildRank_get (packWords bits) (i / 64) (by omega)
        rw [List.getD_eq_getElem?_getD, List.getElem?_eq_getElem hl, Option.getD_some] at this
        show (buildRank (packWords bits))[i / 64]? = _
        rw [List.getElem?_eq_getElem hl, this]
      have hwd : (mkVec bits).words[i / 64]? = some ((packWords bits).getD (i / 64) 0) := by
        show (packWords bits)[i / 64]? = _
        rw [List.getD_eq_getElem?_getD, List.getElem?_eq_getElem hw]; rfl
      simp only [hr, hwd]
      rw [show popc ((packWords bits).getD (i / 64) 0 &&& ((1#64 <<< (i % 64)) - 1#64)) = _ from
        JsonIb.popc_low_mask ((packWords bits).getD (i / 64) 0) (i % 64) (by omega)]
      obtain ⟨n, hn⟩ := allBits_packWords bits
      have := JsonIb.rankB_allBits (packWords bits) i
      rw [hn, rankB_pad bits n i (by omega)] at this
      rw [this]
      simp [hw]

theorem selectB_lt_length (b : Bool) (l : List Bool) (k p : Nat) (h : selectB b l k = some p) : p < l.length := by
  have := (JsonIb.selectB_some_spec b l k p h).1
  by_cases hp : p < l.length
  · exact hp
  · rw [List.getElem?_eq_none (by omega)] at this; simp at this

theorem select1_eq (bits : List Bool) (k : Nat) : (mkVec bits).select1 k = selectB true bits k := by
  unfold RankVec.select1
  rw [total_eq]
  by_cases hk : k ≥ bits.count true
  · simp only [hk, if_true]
    exact (selectB_none_of_count_le true bits k hk).symm
  · simp only [hk, if_false]
    have hkt : k < bits.count true := by omega
    have hpp := partitionPoint_spec k (buildRank (packWords bits)) (monoL_buildRank _)
    simp only at hpp
    have e1 : (mkVec bits).rank = buildRank (packWords bits) := rfl
    have e2 : (mkVec bits).words = packWords bits := rfl
    have e3 : (mkVec bits).textLen = bits.length := rfl
    rw [e1, e2, e3]
    generalize partitionPoint (fun r => decide (r ≤ k)) (buildRank (packWords bits)) = r at hpp
    obtain ⟨h1, h2, h3⟩ := hpp
    rw [buildRank_length] at h1 h3
    have hr1 : 1 ≤ r := by
      by_cases h : r = 0
      · have := h3 0 (by omega) (by omega)
        rw [buildRank_get _ 0 (by omega), JsonIb.cum_zero] at this; omega
      · omega
    have hr2 : r ≤ (packWords bits).length := by
      by_cases h : r ≤ (packWords bits).length
      · exact h
      · have := h2 (packWords bits).length (by omega)
        rw [buildRank_get _ _ (Nat.le_refl _), JsonIb.cum_ge_length _ _ (Nat.le_refl _), sum_popcount_pack] at this
        omega
    have hlo : r - 1 < (packWords bits).length := by omega
    have c1 : JsonIb.cum (packWords bits) (r - 1) ≤ k := by
      have := h2 (r - 1) (by omega)
      rwa [buildRank_get _ _ (by omega)] at this
    have c2 : k < JsonIb.cum (packWords bits) (r - 1 + 1) := by
      have := h3 r (Nat.le_refl _) (by omega)
      rw [buildRank_get _ _ hr2] at this
      have e : r - 1 + 1 = r := by omega
      rwa [e]
    obtain ⟨s1, s2⟩ := JsonIb.selectB_word_at (packWords bits) (r - 1) k hlo c1 c2
    obtain ⟨n, hn⟩ := allBits_packWords bits
    rw [hn, selectB_pad] at s1
    have hw : (packWords bits)[r - 1]? = some ((packWords bits).getD (r - 1) 0) := by
      rw [List.getD_eq_getElem?_getD, List.getElem?_eq_getElem hlo]; rfl
    rw [hw]
    simp only
    have hrk : (buildRank (packWords bits)).getD (r - 1) 0 = JsonIb.cum (packWords bits) (r - 1) :=
      buildRank_get _ _ (by omega)
    rw [hrk, Kernels.selectCtz_eq]
    have hlt := selectB_lt_length true bits k _ s1
    simp only [hlt, if_true, s1]


/-! ### select(rank(p)) = the first set bit at or after `p` -/

/-- First index `≥ p` holding `true`, or the length: what `select1(rank1(p)).unwrap_or(len)` computes. -/
def nextTrue (l : List Bool) (p : Nat) : Nat := (selectB true l (rankB true l p)).getD l.length

theorem rankB_succ_true (l : List Bool) (j : Nat) (h : l[j]? = some true) :
    rankB true l (j + 1) = rankB true l j + 1 := by
  rw [JsonIb.rankB_succ]; simp [h]

theorem nextTrue_spec (l : List Bool) (p : Nat) (hp : p ≤ l.length) :
    p ≤ nextTrue l p ∧ nextTrue l p ≤ l.length ∧
    (∀ j, p ≤ j → j < nextTrue l p → l[j]? = some false) ∧
    (nextTrue l p < l.length → l[nextTrue l p]? = some true) ∧
    selectB true l (rankB true l p) = (if nextTrue l p < l.length then some (nextTrue l p) else none) := by
  unfold nextTrue
  have notTrue : ∀ j, j < l.length → l[j]? ≠ some true → l[j]? = some false := by
    intro j hj h
    rw [List.getElem?_eq_getElem hj] at h ⊢
    cases hb : l[j] <;> simp_all
  cases hs : selectB true l (rankB true l p) with
  | none =>
    simp only [Option.getD_none]
    refine ⟨hp, Nat.le_refl _, ?_, fun h => absurd h (Nat.lt_irrefl _), by simp⟩
    intro j hpj hj
    apply notTrue j hj
    intro ht
    have h1 := JsonIb.selectB_of_spec true l j ht
    have hlt : rankB true l j < l.count true := by
      by_cases h : rankB true l j < l.count true
      · exact h
      · rw [selectB_none_of_count_le true l _ (by omega)] at h1; simp at h1
    have hm := JsonIb.rankB_mono true l p j hpj
    have := selectB_isSome_of_lt true l (rankB true l p) (by omega)
    rw [hs] at this; simp at this
  | some e =>
    simp only [Option.getD_some]
    obtain ⟨s1, s2⟩ := JsonIb.selectB_some_spec true l _ e hs
    have he : e < l.length := selectB_lt_length true l _ e hs
    have hpe : p ≤ e := by
      by_cases h : p ≤ e
      · exact h
      · have hm := JsonIb.rankB_mono true l (e + 1) p (by omega)
        rw [rankB_succ_true l e s1] at hm; omega
    refine ⟨hpe, by omega, ?_, fun _ => s1, by simp [he]⟩
    intro j hpj hje
    apply notTrue j (by omega)
    intro ht
    have hm1 := JsonIb.rankB_mono true l (j + 1) e (by omega)
    have hm2 := JsonIb.rankB_mono true l p j hpj
    rw [rankB_succ_true l j ht] at hm1
    omega

/-- Whether position `j` holds a set bit, read off two ranks (the `rank(j+1) > rank(j)` idiom). -/
theorem rank_step_iff (l : List Bool) (j : Nat) :
    (rankB true l (j + 1) > rankB true l j) ↔ l[j]? = some true := by
  rw [JsonIb.rankB_succ]
  by_cases h : l[j]? = some true <;> simp [h]

end SV.DsvRank
