/-
Proof/YamlBlockScalar — layer 3 of `render_load` (C14): literal and folded block scalars.
-/
import SuccinctlyVerif.Proof.YamlRoundTrip
namespace SV.YamlRef

/-! ## Layer 3: block scalars — text lemmas -/

/-- `splitNl` of a text without line feed is the text as a single line. -/
theorem splitNl_noNl (a : Str) (h : a.all (· != '\n') = true) : splitNl a = [a] := by
  induction a with
  | nil => rfl
  | cons c t ih =>
    simp only [List.all_cons, Bool.and_eq_true, bne_iff_ne] at h
    simp [splitNl, ih h.2, h.1]

theorem splitNl_cons_nl (b : Str) : splitNl ('\n' :: b) = [] :: splitNl b := by
  simp only [splitNl]
  cases hs : splitNl b with
  | nil => exact absurd hs (splitNl_ne_nil b)
  | cons l ls => simp

theorem splitNl_cons_other (c : Char) (b : Str) (h : c ≠ '\n') :
    ∃ l ls, splitNl b = l :: ls ∧ splitNl (c :: b) = (c :: l) :: ls := by
  cases hs : splitNl b with
  | nil => exact absurd hs (splitNl_ne_nil b)
  | cons l ls => exact ⟨l, ls, rfl, by simp [splitNl, hs, h]⟩

/-- Joining the lines again gives the text back. -/
theorem intercalate_splitNl (s : Str) : ['\n'].intercalate (splitNl s) = s := by
  induction s with
  | nil => simp [splitNl, List.intercalate]
  | cons c t ih =>
    by_cases h : c = '\n'
    · subst h
      rw [splitNl_cons_nl]
      cases hs : splitNl t with
      | nil => exact absurd hs (splitNl_ne_nil t)
      | cons l ls =>
        rw [hs] at ih
        simp only [List.intercalate, List.intersperse_cons_cons, List.flatten_cons, List.nil_append] at ih ⊢
        simp [ih]
    · obtain ⟨l, ls, hs, hc⟩ := splitNl_cons_other c t h
      rw [hc]
      rw [hs] at ih
      cases ls with
      | nil =>
        simp only [List.intercalate, List.intersperse_singleton, List.flatten_cons, List.flatten_nil, List.append_nil] at ih ⊢
        rw [ih]
      | cons l2 ls2 =>
        simp only [List.intercalate, List.intersperse_cons_cons, List.flatten_cons, List.cons_append] at ih ⊢
        rw [ih]


theorem splitNl_snoc_nl (a : Str) : splitNl (a ++ ['\n']) = splitNl a ++ [[]] := by
  induction a with
  | nil => simp [splitNl]
  | cons c t ih =>
    by_cases h : c = '\n'
    · subst h
      simp only [List.cons_append, splitNl_cons_nl, ih, List.cons_append]
    · obtain ⟨l, ls, hs, hc⟩ := splitNl_cons_other c t h
      obtain ⟨l', ls', hs', hc'⟩ := splitNl_cons_other c (t ++ ['\n']) h
      rw [ih, hs] at hs'
      simp only [List.cons_append, List.cons.injEq] at hs'
      simp only [List.cons_append, hc', hc, ← hs'.1, ← hs'.2]

theorem splitNl_append_newlines (z : Str) (k : Nat) : splitNl (z ++ newlines k) = splitNl z ++ List.replicate k [] := by
  induction k with
  | zero => simp [newlines]
  | succ k ih =>
    have : z ++ newlines (k + 1) = (z ++ newlines k) ++ ['\n'] := by
      simp [newlines, List.replicate_succ', List.append_assoc]
    rw [this, splitNl_snoc_nl, ih, List.replicate_succ', List.append_assoc]

/-- The last line of a non-empty text that does not end in a line feed is non-empty. -/
theorem splitNl_last_nonempty (z : Str) (hne : z ≠ []) (hl : z.getLast? ≠ some '\n') :
    ∃ L l, splitNl z = L ++ [l] ∧ l ≠ [] := by
  induction z with
  | nil => exact absurd rfl hne
  | cons c t ih =>
    cases t with
    | nil =>
      have hc : c ≠ '\n' := by intro e; subst e; exact hl rfl
      exact ⟨[], [c], by simp [splitNl, hc], by simp⟩
    | cons d t' =>
      have hl' : (d :: t').getLast? ≠ some '\n' := by simpa [List.getLast?_cons_cons] using hl
      obtain ⟨L, l, hs, hln⟩ := ih (by simp) hl'
      by_cases h : c = '\n'
      · subst h
        exact ⟨[] :: L, l, by rw [splitNl_cons_nl, hs]; simp, hln⟩
      · obtain ⟨l0, ls0, hs0, hc0⟩ := splitNl_cons_other c (d :: t') h
        rw [hs] at hs0
        cases L with
        | nil =>
          simp only [List.nil_append, List.cons.injEq] at hs0
          exact ⟨[], c :: l0, by rw [hc0, ← hs0.2]; rfl, by simp⟩
        | cons x L' =>
          simp only [List.cons_append, List.cons.injEq] at hs0
          exact ⟨(c :: l0) :: L', l, by rw [hc0, ← hs0.2]; simp, hln⟩

def dropTrailingEmpty (ls : List Str) : List Str := (ls.reverse.dropWhile (·.isEmpty)).reverse

theorem dropTrailingEmpty_replicate (k : Nat) : dropTrailingEmpty (List.replicate k ([] : Str)) = [] := by
  simp only [dropTrailingEmpty, List.reverse_replicate]
  induction k with
  | zero => rfl
  | succ k ih => simp [List.replicate_succ, List.dropWhile_cons, ih]

theorem dropTrailingEmpty_snoc (L : List Str) (l : Str) (hl : l ≠ []) (k : Nat) :
    dropTrailingEmpty (L ++ [l] ++ List.replicate k []) = L ++ [l] := by
  simp only [dropTrailingEmpty, List.reverse_append, List.reverse_replicate, List.reverse_cons, List.reverse_nil,
    List.nil_append, List.singleton_append]
  have : ∀ k (R : List Str), List.dropWhile (·.isEmpty) (List.replicate k ([] : Str) ++ l :: R) = l :: R := by
    intro k R
    induction k with
    | zero =>
      have : l.isEmpty = false := by cases l <;> simp_all
      simp [List.dropWhile_cons, this]
    | succ k ih => simp [List.replicate_succ, List.dropWhile_cons, ih]
  rw [this]
  simp

theorem literalText_eq (ch : Chomp) (ls : List Str) :
    literalText ch ls = ['\n'].intercalate (dropTrailingEmpty ls)
      ++ chompText ch (!(dropTrailingEmpty ls).isEmpty) (ls.length - (dropTrailingEmpty ls).length) := rfl

/-- Literal style: the lines of `z ++ "\n"^k` (with `z` empty or not ending in a line feed) read back as
`z` plus the chomped line feeds. -/
theorem literalText_lines (ch : Chomp) (z : Str) (k : Nat) (hz : z = [] ∨ z.getLast? ≠ some '\n') :
    literalText ch (splitNl (z ++ newlines k)) = z ++ chompText ch (!z.isEmpty) (if z.isEmpty then k + 1 else k) := by
  rw [literalText_eq, splitNl_append_newlines]
  by_cases hne : z = []
  · subst hne
    have : splitNl [] ++ List.replicate k ([] : Str) = List.replicate (k + 1) [] := by
      simp [splitNl, List.replicate_succ]
    rw [this, dropTrailingEmpty_replicate]
    simp [List.intercalate]
  · have hl : z.getLast? ≠ some '\n' := by
      rcases hz with h | h
      · exact absurd h hne
      · exact h
    obtain ⟨L, l, hs, hln⟩ := splitNl_last_nonempty z hne hl
    rw [hs, dropTrailingEmpty_snoc L l hln k, ← hs, intercalate_splitNl]
    have hne' : z.isEmpty = false := by cases z <;> simp_all
    have hne2 : (splitNl z).isEmpty = false := by
      cases h : splitNl z with
      | nil => exact absurd h (splitNl_ne_nil z)
      | cons a b => rfl
    simp [hne', hne2]


theorem blockBodyLines_literal (f : List Nat) (ch : Chomp) (s : Str) :
    blockBodyLines false f ch s = splitNl (if ch == .strip then s else s.dropLast) := by
  simp [blockBodyLines]

theorem decomp_newlines_rev (r : Str) :
    ∃ z k, r.reverse = z ++ newlines k ∧ (z = [] ∨ z.getLast? ≠ some '\n') := by
  induction r with
  | nil => exact ⟨[], 0, rfl, Or.inl rfl⟩
  | cons c t ih =>
    by_cases hc : c = '\n'
    · subst hc
      obtain ⟨z, k, ht, hz⟩ := ih
      refine ⟨z, k + 1, ?_, hz⟩
      rw [List.reverse_cons, ht]; simp [newlines, List.replicate_succ', List.append_assoc]
    · exact ⟨t.reverse ++ [c], 0, by simp [newlines], Or.inr (by simp [hc])⟩

/-- Every text is some `z` (empty or not ending in a line feed) followed by `k` line feeds. -/
theorem decomp_newlines (y : Str) :
    ∃ z k, y = z ++ newlines k ∧ (z = [] ∨ z.getLast? ≠ some '\n') := by
  have := decomp_newlines_rev y.reverse
  simpa using this

theorem dropLast_append_getLast (s : Str) (c : Char) (h : s.getLast? = some c) :
    s = s.dropLast ++ [c] := by
  have h1 : s ≠ [] := by intro e; subst e; simp at h
  have h2 := List.dropLast_concat_getLast h1
  rw [List.getLast?_eq_some_getLast h1] at h
  have : s.getLast h1 = c := by simpa using h
  rw [this] at h2; exact h2.symm

/-- Literal block scalars: the body lines read back as the string. -/
theorem literal_roundtrip (f : List Nat) (ch : Chomp) (s : Str) (h : chompOk ch s = true) :
    literalText ch (blockBodyLines false f ch s) = s := by
  rw [blockBodyLines_literal]
  cases ch with
  | strip =>
    simp only [chompOk, bne_iff_ne, ne_eq] at h
    simp only [beq_self_eq_true, if_true]
    have := literalText_lines .strip s 0 (Or.inr h)
    simpa [newlines, chompText] using this
  | clip =>
    simp only [chompOk, Bool.and_eq_true, beq_iff_eq, bne_iff_ne, ne_eq, decide_eq_true_eq] at h
    obtain ⟨⟨h1, h2⟩, h3⟩ := h
    have hs := dropLast_append_getLast s '\n' h1
    have hne : s.dropLast ≠ [] := by
      intro e; rw [e] at hs; rw [hs] at h3; simp at h3
    simp only [show (Chomp.clip == Chomp.strip) = false by rfl, Bool.false_eq_true, if_false]
    have := literalText_lines .clip s.dropLast 0 (Or.inr h2)
    have hie : s.dropLast.isEmpty = false := by
      cases hd : s.dropLast with
      | nil => exact absurd hd hne
      | cons _ _ => rfl
    simp only [newlines, List.replicate_zero, List.append_nil, hie, Bool.not_false, chompText, if_true] at this
    rw [this]; exact hs.symm
  | keep =>
    simp only [chompOk, beq_iff_eq] at h
    have hs := dropLast_append_getLast s '\n' h
    simp only [show (Chomp.keep == Chomp.strip) = false by rfl, Bool.false_eq_true, if_false]
    obtain ⟨z, k, hy, hz⟩ := decomp_newlines s.dropLast
    rw [hy, literalText_lines .keep z k hz]
    rw [hs, hy]
    by_cases hze : z = []
    · subst hze; simp [chompText, newlines, List.replicate_succ']
    · have : z.isEmpty = false := by
        cases z with
        | nil => exact absurd rfl hze
        | cons _ _ => rfl
      simp [this, chompText, newlines, List.replicate_succ', List.append_assoc]


/-! ## Block-scalar body lines as `Line`s -/

/-- Body lines of a block scalar as `Line`s. -/
def bsLines (ci : Nat) (body : List Str) : List Line := body.map fun l => mkLine (indentLine ci l)

/-- A writable body line: empty, or with a character that is not a space. -/
def bodyOk (l : Str) : Prop := l = [] ∨ l.any (· != ' ') = true

theorem mkLine_spaces_append (n : Nat) (l : Str) :
    mkLine (spaces n ++ l) = ⟨n + (mkLine l).ind, (mkLine l).txt⟩ := by
  induction n with
  | zero => simp [spaces, mkLine]
  | succ n ih =>
    have : spaces (n + 1) ++ l = ' ' :: (spaces n ++ l) := by simp [spaces, List.replicate_succ]
    rw [this]
    simp only [mkLine, List.takeWhile_cons, List.dropWhile_cons, beq_self_eq_true, if_true, List.length_cons] at ih ⊢
    simp only [Line.mk.injEq] at ih ⊢
    exact ⟨by rw [ih.1]; omega, ih.2⟩

theorem mkLine_txt_ne (l : Str) (h : l.any (· != ' ') = true) : (mkLine l).txt ≠ [] := by
  induction l with
  | nil => simp at h
  | cons c t ih =>
    by_cases hc : c = ' '
    · subst hc
      have : t.any (· != ' ') = true := by simpa using h
      simpa [mkLine, List.dropWhile_cons] using ih this
    · simp [mkLine, List.dropWhile_cons, hc]

theorem mkLine_split (l : Str) : spaces (mkLine l).ind ++ (mkLine l).txt = l := by
  induction l with
  | nil => rfl
  | cons c t ih =>
    by_cases hc : c = ' '
    · subst hc
      simp only [mkLine, List.takeWhile_cons, List.dropWhile_cons, beq_self_eq_true, if_true, List.length_cons, spaces,
        List.replicate_succ, List.cons_append] at ih ⊢
      rw [ih]
    · simp [mkLine, List.takeWhile_cons, List.dropWhile_cons, hc, spaces]

/-- What the reader needs of one rendered body line. -/
theorem bsLine_facts (ci : Nat) (l : Str) (h : bodyOk l) :
    bsLineText ci (mkLine (indentLine ci l)) = l ∧
      (((mkLine (indentLine ci l)).txt = [] ∧ (mkLine (indentLine ci l)).ind = 0 ∧ l = []) ∨
        ((mkLine (indentLine ci l)).txt ≠ [] ∧ ci ≤ (mkLine (indentLine ci l)).ind ∧ l ≠ [] ∧
          (mkLine (indentLine ci l)).ind = ci + (mkLine l).ind)) := by
  by_cases he : l = []
  · subst he
    simp [indentLine, mkLine, bsLineText, spaces]
  · have ha : l.any (· != ' ') = true := by
      rcases h with h | h
      · exact absurd h he
      · exact h
    have hie : l.isEmpty = false := by cases l <;> simp_all
    have hm : mkLine (indentLine ci l) = ⟨ci + (mkLine l).ind, (mkLine l).txt⟩ := by
      simp only [indentLine, hie, Bool.false_eq_true, if_false]
      exact mkLine_spaces_append ci l
    have hne := mkLine_txt_ne l ha
    have hte : (mkLine l).txt.isEmpty = false := by cases h' : (mkLine l).txt <;> simp_all
    rw [hm]
    refine ⟨?_, Or.inr ⟨hne, Nat.le_add_right _ _, he, rfl⟩⟩
    simp only [bsLineText, hte, Bool.false_eq_true, if_false, Nat.add_sub_cancel_left]
    exact mkLine_split l

theorem takeBs_append (ci : Nat) (A rest : List Line)
    (hA : ∀ l ∈ A, (l.txt.isEmpty || decide (l.ind ≥ ci)) = true) :
    takeBsLines ci (A ++ rest) = (A ++ (takeBsLines ci rest).1, (takeBsLines ci rest).2) := by
  induction A with
  | nil => simp
  | cons a A ih =>
    have h1 := hA a (List.mem_cons_self ..)
    have h2 := ih (fun l hl => hA l (List.mem_cons_of_mem _ hl))
    simp only [List.cons_append, takeBsLines, h1, if_true, h2]

theorem takeBs_rest (ci : Nat) (rest : List Line)
    (hr : ∀ l r, rest.dropWhile (·.txt.isEmpty) = l :: r → l.ind < ci) :
    takeBsLines ci rest = (rest.takeWhile (·.txt.isEmpty), rest.dropWhile (·.txt.isEmpty)) := by
  induction rest with
  | nil => rfl
  | cons a rest ih =>
    by_cases ha : a.txt.isEmpty = true
    · have := ih (by intro l r h; exact hr l r (by simpa [List.dropWhile_cons, ha] using h))
      simp only [takeBsLines, ha, Bool.true_or, if_true, this, List.takeWhile_cons, List.dropWhile_cons]
    · have ha' : a.txt.isEmpty = false := by simpa using ha
      have hlt := hr a rest (by simp [List.dropWhile_cons, ha'])
      have : ¬ (a.ind ≥ ci) := by omega
      simp [takeBsLines, ha', this, List.takeWhile_cons, List.dropWhile_cons]


abbrev blankL (l : Line) : Bool := l.txt.isEmpty

theorem mem_takeWhile_imp {α : Type} {p : α → Bool} {l : List α} {a : α} (h : a ∈ l.takeWhile p) : p a = true := by
  induction l with
  | nil => simp at h
  | cons x t ih =>
    by_cases hx : p x = true
    · simp only [List.takeWhile_cons, hx, if_true, List.mem_cons] at h
      rcases h with rfl | h
      · exact hx
      · exact ih h
    · simp [List.takeWhile_cons, hx] at h

theorem bsLines_mem (ci : Nat) (body : List Str) (hb : ∀ l ∈ body, bodyOk l) :
    ∀ L ∈ bsLines ci body, (L.txt = [] ∧ L.ind = 0) ∨ (L.txt ≠ [] ∧ ci ≤ L.ind) := by
  intro L hL
  obtain ⟨l, hl, rfl⟩ := List.mem_map.mp hL
  rcases (bsLine_facts ci l (hb l hl)).2 with ⟨h1, h2, _⟩ | ⟨h1, h2, _⟩
  · exact Or.inl ⟨h1, h2⟩
  · exact Or.inr ⟨h1, h2⟩

theorem bsLines_blank (ci : Nat) (body : List Str) (hall : ∀ l ∈ body, l = []) :
    bsLines ci body = List.replicate body.length ⟨0, []⟩ := by
  induction body with
  | nil => rfl
  | cons b t ih =>
    have hb : b = [] := hall b (List.mem_cons_self ..)
    subst hb
    have := ih (fun l hl => hall l (List.mem_cons_of_mem _ hl))
    simp only [bsLines, List.map_cons, List.length_cons, List.replicate_succ] at this ⊢
    rw [this]; rfl

theorem bsLines_texts (ci : Nat) (body : List Str) (hb : ∀ l ∈ body, bodyOk l) :
    (bsLines ci body).map (bsLineText ci) = body := by
  induction body with
  | nil => rfl
  | cons b t ih =>
    have := ih (fun l hl => hb l (List.mem_cons_of_mem _ hl))
    simp only [bsLines, List.map_cons, List.map_map] at this ⊢
    rw [(bsLine_facts ci b (hb b (List.mem_cons_self ..))).1]
    congr 1

theorem readBs_core (c ciR : Nat) (body : List Str) (rest : List Line)
    (hb : ∀ l ∈ body, bodyOk l) (hc : c = ciR ∨ ∀ l ∈ body, l = [])
    (hr : ∀ l r, rest.dropWhile blankL = l :: r → l.ind < c)
    (h0 : ∀ l ∈ rest.takeWhile blankL, l.ind = 0) :
    takeBsLines c (bsLines ciR body ++ rest) = (bsLines ciR body ++ rest.takeWhile blankL, rest.dropWhile blankL) ∧
    ((bsLines ciR body ++ rest.takeWhile blankL).takeWhile blankL).any (fun l => decide (l.ind > c)) = false ∧
    (bsLines ciR body ++ rest.takeWhile blankL).any (fun l => l.txt.head? == some '\t' && decide (l.ind < c)) = false ∧
    (bsLines ciR body ++ rest.takeWhile blankL).map (bsLineText c) = body ++ List.replicate (rest.takeWhile blankL).length [] := by
  have hmem := bsLines_mem ciR body hb
  -- every blank line of `mine` has indentation 0, every other one at least `c`
  have hmine : ∀ L ∈ bsLines ciR body ++ rest.takeWhile blankL, (L.txt = [] ∧ L.ind = 0) ∨ (L.txt ≠ [] ∧ c ≤ L.ind) := by
    intro L hL
    rcases List.mem_append.mp hL with h | h
    · rcases hc with rfl | hall
      · exact hmem L h
      · rw [bsLines_blank ciR body hall] at h
        have := List.eq_of_mem_replicate h
        subst this; exact Or.inl ⟨rfl, rfl⟩
    · have hbl : blankL L = true := (mem_takeWhile_imp h)
      have : L.txt = [] := by simpa [blankL] using hbl
      exact Or.inl ⟨this, h0 L h⟩
  refine ⟨?_, ?_, ?_, ?_⟩
  · rw [takeBs_append c _ rest, takeBs_rest c rest hr]
    intro l hl
    rcases hmine l (List.mem_append_left _ hl) with ⟨h1, _⟩ | ⟨_, h2⟩
    · simp [h1]
    · simp [h2]
  · rw [List.any_eq_false]
    intro L hL
    have hL' := mem_takeWhile_imp hL
    have hm := (List.takeWhile_sublist _).subset hL
    rcases hmine L hm with ⟨_, h2⟩ | ⟨h1, _⟩
    · simp [h2]
    · simp [blankL, h1] at hL'
  · rw [List.any_eq_false]
    intro L hL
    rcases hmine L hL with ⟨h1, _⟩ | ⟨_, h2⟩
    · simp [h1]
    · have : ¬ (L.ind < c) := by omega
      simp [this]
  · rw [List.map_append]
    congr 1
    · rcases hc with rfl | hall
      · exact bsLines_texts c body hb
      · rw [bsLines_blank ciR body hall]
        have hbody : body = List.replicate body.length [] := by
          apply List.eq_replicate_iff.mpr
          exact ⟨rfl, hall⟩
        conv => rhs; rw [hbody]
        simp [bsLineText, spaces]
    · apply List.eq_replicate_iff.mpr
      refine ⟨by simp, ?_⟩
      intro t ht
      obtain ⟨L, hL, rfl⟩ := List.mem_map.mp ht
      have hbl : blankL L = true := (mem_takeWhile_imp hL)
      have h1 : L.txt = [] := by simpa [blankL] using hbl
      simp [bsLineText, h1, h0 L hL, spaces]


/-- The content indentation `readBlockScalar` works with. -/
def bsCi (hd : BsHeader) (pn : Nat) (ls : List Line) : Nat :=
  match hd.indent with
  | some d => pn + d - 1
  | none =>
    match ls.find? (fun l => !l.txt.isEmpty) with
    | some l => if l.ind ≥ pn then l.ind else pn
    | none => ls.foldl (fun a l => if l.txt.isEmpty then max a l.ind else a) pn

theorem readBs_eq (hd : BsHeader) (pn : Nat) (ls : List Line) :
    readBlockScalar hd pn ls =
      (if hd.indent.isNone && (ls.find? (fun l => !l.txt.isEmpty)).isSome &&
          ((takeBsLines (bsCi hd pn ls) ls).1.takeWhile (·.txt.isEmpty)).any (fun l => l.ind > bsCi hd pn ls) then
        .error (.syntax "leading empty line of block scalar is over-indented")
      else if (takeBsLines (bsCi hd pn ls) ls).1.any (fun l => l.txt.head? == some '\t' && l.ind < bsCi hd pn ls) then
        .error (.unsupported "tab")
      else
        .ok (if hd.folded then foldedText hd.chomp ((takeBsLines (bsCi hd pn ls) ls).1.map (bsLineText (bsCi hd pn ls)))
             else literalText hd.chomp ((takeBsLines (bsCi hd pn ls) ls).1.map (bsLineText (bsCi hd pn ls))),
             (takeBsLines (bsCi hd pn ls) ls).2)) := by
  unfold readBlockScalar bsCi
  cases hd.indent with
  | some d => rfl
  | none =>
    cases ls.find? (fun l => !l.txt.isEmpty) with
    | some l => rfl
    | none => rfl

theorem find_not_dropWhile {α : Type} (p : α → Bool) (l : List α) :
    l.find? (fun x => !p x) = (l.dropWhile p).head? := by
  induction l with
  | nil => rfl
  | cons x t ih =>
    by_cases hx : p x = true
    · simp [List.find?_cons, List.dropWhile_cons, hx, ih]
    · simp [List.find?_cons, List.dropWhile_cons, hx]

theorem bsLines_find (ci : Nat) (body : List Str) (hb : ∀ l ∈ body, bodyOk l) :
    (bsLines ci body).find? (fun l => !l.txt.isEmpty) =
      (body.find? (fun l => !l.isEmpty)).map (fun l => mkLine (indentLine ci l)) := by
  induction body with
  | nil => rfl
  | cons b t ih =>
    have := ih (fun l hl => hb l (List.mem_cons_of_mem _ hl))
    simp only [bsLines, List.map_cons, List.find?_cons] at this ⊢
    rcases (bsLine_facts ci b (hb b (List.mem_cons_self ..))).2 with ⟨h1, _, h3⟩ | ⟨h1, _, h3, _⟩
    · subst h3
      simp only [h1, List.isEmpty_nil, Bool.not_true]
      exact this
    · have e1 : (mkLine (indentLine ci b)).txt.isEmpty = false := by
        cases h : (mkLine (indentLine ci b)).txt <;> simp_all
      have e2 : b.isEmpty = false := by cases b <;> simp_all
      simp [e1, e2]

/-- Lines that may follow a block scalar held by an entry at indentation `e`: the first non-blank one
is not deeper than the entry, blank ones are empty, and after `keep` chomping no blank line follows. -/
def Tail (e : Nat) (keep : Bool) (rest : List Line) : Prop :=
  (∀ l r, rest.dropWhile blankL = l :: r → l.ind ≤ e) ∧
  (∀ l ∈ rest.takeWhile blankL, l.ind = 0) ∧
  (keep = true → ∀ l r, rest = l :: r → l.txt.isEmpty = false)

/-- Reading back the rendered body lines of a block scalar. -/
theorem readBs (hd : BsHeader) (pn e ciR : Nat) (body : List Str) (rest : List Line)
    (hb : ∀ l ∈ body, bodyOk l) (ht : Tail e (hd.chomp == .keep) rest) (hlt : e < ciR)
    (hind : (∃ d, hd.indent = some d ∧ pn + d - 1 = ciR) ∨
      (hd.indent = none ∧ pn ≤ ciR ∧ (e < pn ∨ ∃ l ∈ body, l ≠ []) ∧
        ∀ l, body.find? (fun l => !l.isEmpty) = some l → l.head? ≠ some ' ')) :
    ∃ j, readBlockScalar hd pn (bsLines ciR body ++ rest) =
        .ok (if hd.folded then foldedText hd.chomp (body ++ List.replicate j [])
             else literalText hd.chomp (body ++ List.replicate j []), rest.dropWhile blankL) ∧
      (hd.chomp = .keep → j = 0) := by
  obtain ⟨t1, t2, t3⟩ := ht
  -- the content indentation the reader computes
  have hci : (bsCi hd pn (bsLines ciR body ++ rest) = ciR ∨ ∀ l ∈ body, l = []) ∧
      ∀ l r, rest.dropWhile blankL = l :: r → l.ind < bsCi hd pn (bsLines ciR body ++ rest) := by
    rcases hind with ⟨d, hd1, hd2⟩ | ⟨hn, hpn, hcont, hsp⟩
    · have : bsCi hd pn (bsLines ciR body ++ rest) = ciR := by simp [bsCi, hd1, hd2]
      rw [this]
      exact ⟨Or.inl rfl, fun l r h => by have := t1 l r h; omega⟩
    · cases hf : body.find? (fun l => !l.isEmpty) with
      | some b0 =>
        have hb0 : b0 ∈ body := List.mem_of_find?_eq_some hf
        have hne : b0.isEmpty = false := by simpa using List.find?_some hf
        have hne' : b0 ≠ [] := by intro e0; subst e0; simp at hne
        have hfacts := bsLine_facts ciR b0 (hb b0 hb0)
        have hind0 : (mkLine b0).ind = 0 := by
          cases b0 with
          | nil => exact absurd rfl hne'
          | cons c t =>
            have hc : c ≠ ' ' := by simpa using hsp _ hf
            simp [mkLine, List.takeWhile_cons, hc]
        have hL : (mkLine (indentLine ciR b0)).ind = ciR := by
          rcases hfacts.2 with ⟨_, _, h3⟩ | ⟨_, _, _, h4⟩
          · exact absurd h3 hne'
          · rw [h4, hind0]; rfl
        have hfind : (bsLines ciR body ++ rest).find? (fun l => !l.txt.isEmpty) = some (mkLine (indentLine ciR b0)) := by
          rw [List.find?_append, bsLines_find ciR body hb, hf]; rfl
        have : bsCi hd pn (bsLines ciR body ++ rest) = ciR := by
          simp only [bsCi, hn, hfind, hL]
          simp [hpn]
        rw [this]
        exact ⟨Or.inl rfl, fun l r h => by have := t1 l r h; omega⟩
      | none =>
        have hall : ∀ l ∈ body, l = [] := by
          intro l hl
          have := List.find?_eq_none.mp hf l hl
          cases l with
          | nil => rfl
          | cons _ _ => simp at this
        have hepn : e < pn := by
          rcases hcont with h | ⟨l, hl, hne⟩
          · exact h
          · exact absurd (hall l hl) hne
        have hfind : (bsLines ciR body ++ rest).find? (fun l => !l.txt.isEmpty) = (rest.dropWhile blankL).head? := by
          rw [List.find?_append, bsLines_find ciR body hb, hf]
          simp only [Option.map_none, Option.none_or]
          exact find_not_dropWhile blankL rest
        refine ⟨Or.inr hall, ?_⟩
        intro l r h
        have hle := t1 l r h
        have : bsCi hd pn (bsLines ciR body ++ rest) = pn := by
          simp only [bsCi, hn, hfind, h, List.head?_cons]
          have : ¬ (l.ind ≥ pn) := by omega
          simp [this]
        rw [this]; omega
  obtain ⟨hc1, hc2⟩ := hci
  obtain ⟨k1, k2, k3, k4⟩ := readBs_core (bsCi hd pn (bsLines ciR body ++ rest)) ciR body rest hb hc1 hc2 t2
  refine ⟨(rest.takeWhile blankL).length, ?_, ?_⟩
  · rw [readBs_eq, k1]
    simp only [k2, k3, k4, Bool.and_false, Bool.false_eq_true, if_false]
  · intro hk
    have hk' : (hd.chomp == Chomp.keep) = true := by rw [hk]; rfl
    cases hrest : rest with
    | nil => rfl
    | cons a r =>
      have := t3 hk' a r hrest
      simp [List.takeWhile_cons, blankL, this]


theorem dropWhile_replicate_empty (j : Nat) (X : List Str) :
    List.dropWhile (·.isEmpty) (List.replicate j ([] : Str) ++ X) = List.dropWhile (·.isEmpty) X := by
  induction j with
  | zero => rfl
  | succ j ih => simp [List.replicate_succ, List.dropWhile_cons, ih]

theorem dropTrailingEmpty_append_empties (ls : List Str) (j : Nat) :
    dropTrailingEmpty (ls ++ List.replicate j []) = dropTrailingEmpty ls := by
  simp only [dropTrailingEmpty, List.reverse_append, List.reverse_replicate, dropWhile_replicate_empty]

theorem chompText_notKeep (ch : Chomp) (b : Bool) (a c : Nat) (h : ch ≠ .keep) : chompText ch b a = chompText ch b c := by
  cases ch <;> simp_all [chompText]

/-- Blank lines after the body change nothing unless the chomping indicator is `keep`. -/
theorem literalText_append_empties (ch : Chomp) (ls : List Str) (j : Nat) (h : ch = .keep → j = 0) :
    literalText ch (ls ++ List.replicate j []) = literalText ch ls := by
  by_cases hk : ch = .keep
  · rw [h hk]; simp
  · rw [literalText_eq, literalText_eq, dropTrailingEmpty_append_empties]
    congr 1
    exact chompText_notKeep ch _ _ _ hk

theorem foldedText_eq (ch : Chomp) (ls : List Str) :
    foldedText ch ls =
      (match (dropTrailingEmpty ls).dropWhile (·.isEmpty) with
       | [] => []
       | l :: rest => newlines ((dropTrailingEmpty ls).takeWhile (·.isEmpty)).length ++ l ++ foldGo (isSpaced l) 0 rest)
        ++ chompText ch (!(dropTrailingEmpty ls).isEmpty) (ls.length - (dropTrailingEmpty ls).length) := rfl

theorem foldedText_append_empties (ch : Chomp) (ls : List Str) (j : Nat) (h : ch = .keep → j = 0) :
    foldedText ch (ls ++ List.replicate j []) = foldedText ch ls := by
  by_cases hk : ch = .keep
  · rw [h hk]; simp
  · rw [foldedText_eq, foldedText_eq, dropTrailingEmpty_append_empties]
    congr 1
    exact chompText_notKeep ch _ _ _ hk

/-- The text of a trailing comment (or nothing). -/
def TrailOk (T : Str) : Prop := T = [] ∨ ∃ c, T = ' ' :: '#' :: c

theorem trailOk_trailText (t : Option Str) : TrailOk (trailText t) := by
  cases t with
  | none => exact Or.inl rfl
  | some c => exact Or.inr ⟨c, rfl⟩

theorem restOk_trail (T : Str) (h : TrailOk T) : restOk T = true := by
  rcases h with rfl | ⟨c, rfl⟩
  · rfl
  · simp [restOk, isBlankOrComment, dropSpaces, List.dropWhile_cons]

/-- The header the renderer writes (with or without a trailing comment) is read back. -/
theorem parseBsHeader_rendered (f : Bool) (ch : Chomp) (ind : Nat) (ex : Bool) (h1 : 1 ≤ ind) (h9 : ind ≤ 9)
    (T : Str) (hT : TrailOk T) :
    parseBsHeader f ((if ex then natDigits 10 ind else []) ++ chompChar ch ++ T) =
      .ok ⟨f, ch, if ex then some ind else none⟩ := by
  rcases hT with rfl | ⟨cm, rfl⟩
  · cases ex with
    | false => cases ch <;> rfl
    | true =>
      have : ind = 1 ∨ ind = 2 ∨ ind = 3 ∨ ind = 4 ∨ ind = 5 ∨ ind = 6 ∨ ind = 7 ∨ ind = 8 ∨ ind = 9 := by omega
      rcases this with rfl | rfl | rfl | rfl | rfl | rfl | rfl | rfl | rfl <;> cases ch <;> rfl
  · cases ex with
    | false => cases ch <;> rfl
    | true =>
      have : ind = 1 ∨ ind = 2 ∨ ind = 3 ∨ ind = 4 ∨ ind = 5 ∨ ind = 6 ∨ ind = 7 ∨ ind = 8 ∨ ind = 9 := by omega
      rcases this with rfl | rfl | rfl | rfl | rfl | rfl | rfl | rfl | rfl <;> cases ch <;> rfl


/-- A block-scalar header (with or without a trailing comment) after an indicator. -/
theorem parseAfter_bs (f g col pn : Nat) (cOk sSame : Bool) (folded : Bool) (ch : Chomp) (ind : Nat) (ex : Bool)
    (h1 : 1 ≤ ind) (h9 : ind ≤ 9) (T : Str) (hT : TrailOk T) (ls : List Line) :
    parseAfter (f + 1) (spaces g ++ (if folded then '>' else '|') :: ((if ex then natDigits 10 ind else []) ++ chompChar ch) ++ T)
        col pn cOk sSame ls
      = (readBlockScalar ⟨folded, ch, if ex then some ind else none⟩ pn ls).map fun (s, r) => (.scalar false s, r) := by
  have hh := parseBsHeader_rendered folded ch ind ex h1 h9 T hT
  cases folded with
  | false =>
    have hds : dropSpaces (spaces g ++ '|' :: ((if ex then natDigits 10 ind else []) ++ chompChar ch) ++ T)
        = '|' :: ((if ex then natDigits 10 ind else []) ++ chompChar ch ++ T) := by
      have := dropSpaces_spaces g '|' (((if ex then natDigits 10 ind else []) ++ chompChar ch) ++ T) (by decide)
      simpa [List.append_assoc] using this
    rw [parseAfter]
    simp only [Bool.false_eq_true, if_false, hds, List.head?_cons, show (some '|' == some '\t') = false by decide,
      List.isEmpty_cons, show (some '|' == some '#') = false by decide, Bool.false_and, Bool.or_self, hh]
  | true =>
    have hds : dropSpaces (spaces g ++ '>' :: ((if ex then natDigits 10 ind else []) ++ chompChar ch) ++ T)
        = '>' :: ((if ex then natDigits 10 ind else []) ++ chompChar ch ++ T) := by
      have := dropSpaces_spaces g '>' (((if ex then natDigits 10 ind else []) ++ chompChar ch) ++ T) (by decide)
      simpa [List.append_assoc] using this
    rw [parseAfter]
    simp only [if_true, hds, List.head?_cons, show (some '>' == some '\t') = false by decide,
      List.isEmpty_cons, show (some '>' == some '#') = false by decide, Bool.false_and, Bool.or_self, hh,
      Bool.false_eq_true, if_false]

theorem bodyOk_of_bsLineOk (l : Str) (h : bsLineOk l = true) : bodyOk l := by
  simp only [bsLineOk, Bool.and_eq_true, Bool.or_eq_true] at h
  rcases h.2 with h | h
  · left; cases l with
    | nil => rfl
    | cons _ _ => simp at h
  · right; exact h

/-- A text whose lines are all empty consists of line feeds. -/
theorem all_nl_of_lines_empty (t : Str) (h : ∀ l ∈ splitNl t, l = []) : t.all (· == '\n') = true := by
  induction t with
  | nil => rfl
  | cons c b ih =>
    by_cases hc : c = '\n'
    · subst hc
      rw [splitNl_cons_nl] at h
      simp only [List.all_cons, beq_self_eq_true, Bool.true_and]
      exact ih (fun l hl => h l (List.mem_cons_of_mem _ hl))
    · obtain ⟨l, ls, _, h2⟩ := splitNl_cons_other c b hc
      rw [h2] at h
      exact absurd (h _ (List.mem_cons_self ..)) (by simp)

/-- The string whose lines are written: the whole string (`strip`) or the string without its final
line feed. -/
def bsBase (ch : Chomp) (s : Str) : Str := if ch == .strip then s else s.dropLast

theorem splitNl_base (ch : Chomp) (s : Str) (h : chompOk ch s = true) :
    splitNl s = splitNl (bsBase ch s) ∨ splitNl s = splitNl (bsBase ch s) ++ [[]] := by
  cases ch with
  | strip => left; rfl
  | clip =>
    simp only [chompOk, Bool.and_eq_true, beq_iff_eq] at h
    right
    have hs := dropLast_append_getLast s '\n' h.1.1
    conv => lhs; rw [hs]
    exact splitNl_snoc_nl _
  | keep =>
    simp only [chompOk, beq_iff_eq] at h
    right
    have hs := dropLast_append_getLast s '\n' h
    conv => lhs; rw [hs]
    exact splitNl_snoc_nl _

theorem find_base (ch : Chomp) (s : Str) (h : chompOk ch s = true) :
    (splitNl (bsBase ch s)).find? (fun l => !l.isEmpty) = (splitNl s).find? (fun l => !l.isEmpty) := by
  rcases splitNl_base ch s h with e | e
  · rw [e]
  · rw [e, List.find?_append]
    cases (splitNl (bsBase ch s)).find? (fun l => !l.isEmpty) <;> simp

theorem any_base (ch : Chomp) (s : Str) (h : chompOk ch s = true) (ha : s.any (· != '\n') = true) :
    ∃ l ∈ splitNl (bsBase ch s), l ≠ [] := by
  by_cases hex : ∃ l ∈ splitNl (bsBase ch s), l ≠ []
  · exact hex
  · exfalso
    have hall : ∀ l ∈ splitNl s, l = [] := by
      intro l hl
      rcases splitNl_base ch s h with e | e
      · rw [e] at hl
        cases l with
        | nil => rfl
        | cons c t => exact absurd ⟨_, hl, by simp⟩ hex
      · rw [e, List.mem_append] at hl
        rcases hl with hl | hl
        · cases l with
          | nil => rfl
          | cons c t => exact absurd ⟨_, hl, by simp⟩ hex
        · simpa using hl
    have := all_nl_of_lines_empty s hall
    rw [List.any_eq_true] at ha
    obtain ⟨c, hc, hne⟩ := ha
    have := List.all_eq_true.mp this c hc
    simp_all


theorem skipFill_dropBlank (rest : List Line) : skipFill (rest.dropWhile blankL) = skipFill rest := by
  induction rest with
  | nil => rfl
  | cons a r ih =>
    by_cases ha : a.txt.isEmpty = true
    · simp only [List.dropWhile_cons, blankL, ha, if_true, skipFill, Line.isFiller, Bool.true_or]
      exact ih
    · simp [List.dropWhile_cons, blankL, ha]

/-- The side conditions of `readBs` for a rendered block scalar (either style), from `strOk`. -/
theorem bs_side (root : Bool) (s : Str) (ch : Chomp) (ind : Nat) (ex : Bool) (e pn : Nat)
    (hpn : pn = if root then 0 else e + 1) (he : root = true → e = 0)
    (hind : (if root then 2 else 1) ≤ ind) (hlines : (splitNl s).all bsLineOk = true) (hch : chompOk ch s = true)
    (hex : (ex || !needsExplicit s) = true) (hroot : (!root || (!ex && s.any (· != '\n'))) = true) :
    e < pn + ind - 1 ∧
    ((∃ d, (if ex then some ind else none) = some d ∧ pn + d - 1 = pn + ind - 1) ∨
      ((if ex then some ind else none) = none ∧ pn ≤ pn + ind - 1 ∧ (e < pn ∨ ∃ l ∈ splitNl (bsBase ch s), l ≠ []) ∧
        ∀ l, (splitNl (bsBase ch s)).find? (fun l => !l.isEmpty) = some l → l.head? ≠ some ' ')) := by
  cases root with
  | true =>
    have he0 := he rfl
    simp only [if_true] at hpn hind
    simp only [Bool.not_true, Bool.false_or, Bool.and_eq_true, Bool.not_eq_true'] at hroot
    obtain ⟨hexf, hany⟩ := hroot
    subst hexf
    refine ⟨by omega, Or.inr ⟨rfl, by omega, Or.inr (any_base ch s hch hany), ?_⟩⟩
    intro l hl
    rw [find_base ch s hch] at hl
    have : needsExplicit s = false := by simpa using hex
    simp only [needsExplicit, hl] at this
    simpa using this
  | false =>
    simp only [Bool.false_eq_true, if_false] at hpn hind
    refine ⟨by omega, ?_⟩
    cases ex with
    | true => exact Or.inl ⟨ind, rfl, rfl⟩
    | false =>
      refine Or.inr ⟨rfl, by omega, Or.inl (by omega), ?_⟩
      intro l hl
      rw [find_base ch s hch] at hl
      have : needsExplicit s = false := by simpa using hex
      simp only [needsExplicit, hl] at this
      simpa using this

theorem body_lines_ok (ch : Chomp) (s : Str) (hlines : (splitNl s).all bsLineOk = true) (hch : chompOk ch s = true) :
    ∀ l ∈ splitNl (bsBase ch s), bodyOk l := by
  intro l hl
  apply bodyOk_of_bsLineOk
  rw [List.all_eq_true] at hlines
  apply hlines
  rcases splitNl_base ch s hch with e | e
  · rw [e]; exact hl
  · rw [e]; exact List.mem_append_left _ hl

/-- A literal block scalar after its indicator. -/
theorem after_literal (f g col pn e : Nat) (cOk sSame : Bool) (root : Bool) (s : Str) (ch : Chomp) (ind : Nat) (ex : Bool)
    (hpn : pn = if root then 0 else e + 1) (he : root = true → e = 0)
    (h : strOk false root s (.literal ch ind ex) = true) (rest : List Line) (ht : Tail e (ch == .keep) rest)
    (T : Str) (hT : TrailOk T) :
    parseAfter (f + 1) (spaces g ++ '|' :: ((if ex then natDigits 10 ind else []) ++ chompChar ch) ++ T) col pn cOk sSame
        (bsLines (pn + ind - 1) (blockBodyLines false [] ch s) ++ rest)
      = .ok (.scalar false s, rest.dropWhile blankL) := by
  simp only [strOk, Bool.not_false, Bool.true_and, Bool.and_eq_true, decide_eq_true_eq] at h
  obtain ⟨⟨⟨⟨⟨hind, h9⟩, hlines⟩, hch⟩, hex⟩, hroot⟩ := h
  have h1 : 1 ≤ ind := by cases root <;> simp at hind <;> omega
  have hpa := parseAfter_bs f g col pn cOk sSame false ch ind ex h1 h9 T hT
    (bsLines (pn + ind - 1) (blockBodyLines false [] ch s) ++ rest)
  simp only [Bool.false_eq_true, if_false] at hpa
  rw [hpa]
  obtain ⟨hlt, hside⟩ := bs_side root s ch ind ex e pn hpn he hind hlines hch hex hroot
  have hbody : blockBodyLines false [] ch s = splitNl (bsBase ch s) := blockBodyLines_literal [] ch s
  rw [hbody]
  obtain ⟨j, hr, hj⟩ := readBs ⟨false, ch, if ex then some ind else none⟩ pn e (pn + ind - 1) (splitNl (bsBase ch s)) rest
    (body_lines_ok ch s hlines hch) ht hlt hside
  rw [hr]
  simp only [Bool.false_eq_true, if_false, Except.map]
  rw [literalText_append_empties ch _ j hj, ← hbody, literal_roundtrip [] ch s hch]


theorem hdr_okc (c0 : Char) (h0 : okc c0 = true) (ex : Bool) (ind : Nat) (ch : Chomp) (h9 : ind ≤ 9) :
    (c0 :: ((if ex then natDigits 10 ind else []) ++ chompChar ch)).all okc = true := by
  simp only [List.all_cons, h0, Bool.true_and]
  cases ex with
  | false => cases ch <;> simp [chompChar, okc]
  | true =>
    have : ind = 0 ∨ ind = 1 ∨ ind = 2 ∨ ind = 3 ∨ ind = 4 ∨ ind = 5 ∨ ind = 6 ∨ ind = 7 ∨ ind = 8 ∨ ind = 9 := by omega
    rcases this with rfl | rfl | rfl | rfl | rfl | rfl | rfl | rfl | rfl | rfl <;> cases ch <;> decide

theorem dropWhile_space_head (l : Str) : (l.dropWhile (· == ' ')).head? ≠ some ' ' := by
  induction l with
  | nil => simp
  | cons c t ih =>
    by_cases hc : c = ' '
    · subst hc; simpa [List.dropWhile_cons] using ih
    · simp [List.dropWhile_cons, hc]

theorem all_dropWhile {p q : Char → Bool} (l : Str) (h : l.all p = true) : (l.dropWhile q).all p = true := by
  rw [List.all_eq_true] at h ⊢
  intro c hc
  exact h c ((List.dropWhile_sublist q).subset hc)

/-- Rendered body lines are in the form `mkLine` produces and contain no line break. -/
theorem bsLines_canon (ci : Nat) (body : List Str) (hp : ∀ l ∈ body, l.all isPrintable = true) :
    ∀ L ∈ bsLines ci body, L.txt.head? ≠ some ' ' ∧ L.txt.all okc = true := by
  intro L hL
  obtain ⟨l, hl, rfl⟩ := List.mem_map.mp hL
  refine ⟨dropWhile_space_head _, ?_⟩
  apply all_dropWhile
  simp only [indentLine]
  split
  · rfl
  · rw [List.all_append]
    have h1 : (spaces ci).all okc = true := by
      simp only [spaces, List.all_eq_true]
      intro c hc
      rw [List.eq_of_mem_replicate hc]; decide
    have h2 : l.all okc = true := by
      rw [List.all_eq_true]
      intro c hc
      exact okc_printable c (List.all_eq_true.mp (hp l hl) c hc)
    simp [h1, h2]

/-- Rendered body lines (content indentation at least 1) are not document markers. -/
theorem bsLines_notMark (ci : Nat) (hci : 1 ≤ ci) (body : List Str) (hb : ∀ l ∈ body, bodyOk l) :
    ∀ L ∈ bsLines ci body, isDocStart L = false ∧ isDocEnd L = false := by
  intro L hL
  rcases bsLines_mem ci body hb L hL with ⟨h1, _⟩ | ⟨_, h2⟩
  · constructor <;> simp [isDocStart, isDocEnd, isMarker, h1, List.isPrefixOf]
  · have : ¬ (L.ind = 0) := by omega
    constructor <;> simp [isDocStart, isDocEnd, isMarker, this]

theorem body_lines_printable (ch : Chomp) (s : Str) (hlines : (splitNl s).all bsLineOk = true) (hch : chompOk ch s = true) :
    ∀ l ∈ splitNl (bsBase ch s), l.all isPrintable = true := by
  intro l hl
  rw [List.all_eq_true] at hlines
  have hm : l ∈ splitNl s := by
    rcases splitNl_base ch s hch with e | e
    · rw [e]; exact hl
    · rw [e]; exact List.mem_append_left _ hl
  have := hlines l hm
  simp only [bsLineOk, Bool.and_eq_true] at this
  exact this.1


theorem Tail_mono (e n : Nat) (k : Bool) (rest : List Line) (h : e ≤ n) (ht : Tail e k rest) : Tail n k rest :=
  ⟨fun l r hl => Nat.le_trans (ht.1 l r hl) h, ht.2.1, ht.2.2⟩

theorem Tail_weaken (e : Nat) (k : Bool) (rest : List Line) (ht : Tail e k rest) : Tail e false rest :=
  ⟨ht.1, ht.2.1, fun h => by cases h⟩

theorem Tail_nil (e : Nat) (k : Bool) : Tail e k [] :=
  ⟨fun l r h => by simp at h, fun l h => by simp at h, fun _ l r h => by cases h⟩

/-- A first line with content that is not deeper than `e` bounds whatever precedes it. -/
theorem Tail_of_head (e : Nat) (k : Bool) (L : Line) (more : List Line) (hne : L.txt.isEmpty = false) (hle : L.ind ≤ e) :
    Tail e k (L :: more) := by
  refine ⟨?_, ?_, ?_⟩
  · intro l r h
    simp only [List.dropWhile_cons, blankL, hne, Bool.false_eq_true, if_false, List.cons.injEq] at h
    rw [← h.1]; exact hle
  · intro l h
    simp [List.takeWhile_cons, blankL, hne] at h
  · intro _ l r h
    rw [← (List.cons.inj h).1]; exact hne

/-! ## Folded style: reading the folded lines, character by character -/

/-- The first line, then the folding of the following lines. -/
def fK (X : Str) : Str := match splitNl X with | l :: ls => l ++ foldGo false 0 ls | [] => []
/-- The folding of the lines of `X` after `p` empty lines. -/
def fJ (p : Nat) (X : Str) : Str := foldGo false p (splitNl X)
def sepP (p : Nat) : Str := if p = 0 then [' '] else newlines p

theorem fK_nil : fK [] = [] := by simp [fK, splitNl, foldGo]
theorem fK_cons (c : Char) (X : Str) (h : c ≠ '\n') : fK (c :: X) = c :: fK X := by
  obtain ⟨l, ls, h1, h2⟩ := splitNl_cons_other c X h
  simp [fK, h1, h2]
theorem fK_nl (X : Str) : fK ('\n' :: X) = fJ 0 X := by
  simp [fK, fJ, splitNl_cons_nl]
theorem fJ_nil (p : Nat) : fJ p [] = [] := by simp [fJ, splitNl, foldGo]
theorem fJ_nl (p : Nat) (X : Str) : fJ p ('\n' :: X) = fJ (p + 1) X := by
  simp [fJ, splitNl_cons_nl, foldGo]
theorem fJ_cons (p : Nat) (c : Char) (X : Str) (h1 : c ≠ '\n') (h2 : c ≠ ' ') (h3 : c ≠ '\t') :
    fJ p (c :: X) = sepP p ++ c :: fK X := by
  obtain ⟨l, ls, e1, e2⟩ := splitNl_cons_other c X h1
  simp only [fJ, fK, e1, e2, foldGo, List.isEmpty_cons, Bool.false_eq_true, if_false, isSpaced, List.head?_cons]
  have q1 : (some c == some ' ') = false := by simp [h2]
  have q2 : (some c == some '\t') = false := by simp [h3]
  simp only [q1, q2, Bool.or_self, Bool.false_eq_true, if_false, sepP]
  by_cases hp : p = 0 <;> simp [hp, List.append_assoc]

/-- The fold mark the renderer works with. -/
def markC : Char := '\u0001'

def unmark (m : Str) : Str := m.map fun c => if c == markC then ' ' else c

/-- Marked text the reader folds back: state 0 after an ordinary character, 1 after a line feed,
2 after a fold mark. -/
def mOk : Nat → Str → Bool
  | st, [] => st == 0
  | st, c :: r =>
    if c == '\n' then st != 2 && mOk 1 r
    else if c == markC then st == 0 && mOk 2 r
    else (st == 0 || (c != ' ' && c != '\t')) && mOk 0 r

theorem newlines_succ' (p : Nat) : newlines (p + 1) = newlines p ++ ['\n'] := by
  simp [newlines, List.replicate_succ']

theorem fold_read (m : Str) :
    (mOk 0 m = true → fK (foldBreaks false m) = unmark m) ∧
    (mOk 1 m = true → ∀ p, 1 ≤ p → fJ p (foldBreaks true m) = newlines p ++ unmark m) ∧
    (mOk 2 m = true → fJ 0 (foldBreaks false m) = ' ' :: unmark m) := by
  induction m with
  | nil =>
    refine ⟨fun _ => by simp [foldBreaks, fK_nil, unmark], fun h => by simp [mOk] at h, fun h => by simp [mOk] at h⟩
  | cons c r ih =>
    obtain ⟨ih0, ih1, ih2⟩ := ih
    by_cases hn : c = '\n'
    · subst hn
      refine ⟨?_, ?_, ?_⟩
      · intro h
        have h1 : mOk 1 r = true := by simpa [mOk] using h
        have := ih1 h1 1 (Nat.le_refl 1)
        simp only [foldBreaks, beq_self_eq_true, if_true, Bool.false_eq_true, if_false, List.cons_append, List.nil_append,
          fK_nl, fJ_nl, this]
        simp [unmark, newlines, markC]
      · intro h p hp
        have h1 : mOk 1 r = true := by simpa [mOk] using h
        have := ih1 h1 (p + 1) (by omega)
        simp only [foldBreaks, beq_self_eq_true, if_true, List.cons_append, List.nil_append, fJ_nl, this, newlines_succ']
        simp [unmark, markC]
      · intro h
        simp [mOk] at h
    · by_cases hm : c = markC
      · subst hm
        refine ⟨?_, ?_, ?_⟩
        · intro h
          have h2 : mOk 2 r = true := by simpa [mOk, markC] using h
          have := ih2 h2
          have e : foldBreaks false (markC :: r) = '\n' :: foldBreaks false r := by
            simp [foldBreaks, markC]
          rw [e, fK_nl, this]
          simp [unmark]
        · intro h; simp [mOk, markC] at h
        · intro h; simp [mOk, markC] at h
      · have hfb : ∀ b, foldBreaks b (c :: r) = c :: foldBreaks false r := by
          intro b
          have q1 : (c == '\n') = false := by simp [hn]
          have q2 : (c == '\u0001') = false := by
            have : c ≠ '\u0001' := hm
            simp [this]
          simp [foldBreaks, q1, q2]
        have hum : unmark (c :: r) = c :: unmark r := by
          simp [unmark, hm]
        have q1 : (c == '\n') = false := by simp [hn]
        have q2 : (c == markC) = false := by simp [hm]
        refine ⟨?_, ?_, ?_⟩
        · intro h
          have h0 : mOk 0 r = true := by
            simp only [mOk, q1, q2, Bool.false_eq_true, if_false, Bool.and_eq_true] at h; exact h.2
          rw [hfb, fK_cons c _ hn, ih0 h0, hum]
        · intro h p hp
          simp only [mOk, q1, q2, Bool.false_eq_true, if_false, Bool.and_eq_true, Bool.or_eq_true, bne_iff_ne, ne_eq] at h
          obtain ⟨hc, h0⟩ := h
          have hc' : c ≠ ' ' ∧ c ≠ '\t' := by
            rcases hc with hc | hc
            · simp at hc
            · exact hc
          rw [hfb, fJ_cons p c _ hn hc'.1 hc'.2, ih0 h0, hum]
          have : p ≠ 0 := by omega
          simp [sepP, this]
        · intro h
          simp only [mOk, q1, q2, Bool.false_eq_true, if_false, Bool.and_eq_true, Bool.or_eq_true, bne_iff_ne, ne_eq] at h
          obtain ⟨hc, h0⟩ := h
          have hc' : c ≠ ' ' ∧ c ≠ '\t' := by
            rcases hc with hc | hc
            · simp at hc
            · exact hc
          rw [hfb, fJ_cons 0 c _ hn hc'.1 hc'.2, ih0 h0, hum]
          simp [sepP]


/-- Folded style: the lines of a text that starts with an ordinary character and does not end in a
line feed, followed by `n` empty lines. -/
theorem foldedText_lines (ch : Chomp) (c0 : Char) (X' : Str) (h1 : c0 ≠ '\n') (h2 : c0 ≠ ' ') (h3 : c0 ≠ '\t')
    (hl : (c0 :: X').getLast? ≠ some '\n') (n : Nat) :
    foldedText ch (splitNl (c0 :: X') ++ List.replicate n []) = fK (c0 :: X') ++ chompText ch true n := by
  obtain ⟨L, l, hs, hln⟩ := splitNl_last_nonempty (c0 :: X') (by simp) hl
  obtain ⟨l0, ls0, e1, e2⟩ := splitNl_cons_other c0 X' h1
  have hdrop : dropTrailingEmpty (splitNl (c0 :: X') ++ List.replicate n []) = splitNl (c0 :: X') := by
    rw [hs]; exact dropTrailingEmpty_snoc L l hln n
  rw [foldedText_eq, hdrop]
  have hlen : (splitNl (c0 :: X') ++ List.replicate n ([] : Str)).length - (splitNl (c0 :: X')).length = n := by
    simp
  rw [hlen]
  have hne : (splitNl (c0 :: X')).isEmpty = false := by rw [e2]; rfl
  simp only [hne, Bool.not_false]
  congr 1
  rw [e2]
  have q1 : (some c0 == some ' ') = false := by simp [h2]
  have q2 : (some c0 == some '\t') = false := by simp [h3]
  simp [List.takeWhile_cons, List.dropWhile_cons, fK, e2, isSpaced, q1, q2, newlines]


/-- `applyFolds` from index `n`. -/
def goF (folds : List Nat) (n : Nat) : Str → Str
  | [] => []
  | c :: r => (if folds.contains n then '\u0001' else c) :: goF folds (n + 1) r

theorem goF_zip (folds : List Nat) (s : Str) (n : Nat) :
    (s.zipIdx n).map (fun (c, i) => if folds.contains i then '\u0001' else c) = goF folds n s := by
  induction s generalizing n with
  | nil => rfl
  | cons c r ih => rw [List.zipIdx_cons, List.map_cons, goF, ih]

theorem applyFolds_eq (folds : List Nat) (s : Str) : applyFolds folds s = goF folds 0 s := by
  simp only [applyFolds]; exact goF_zip folds s 0

/-- Like `mOk`, but the text may end in line feeds. -/
def mOkT : Nat → Str → Bool
  | st, [] => st != 2
  | st, c :: r =>
    if c == '\n' then st != 2 && mOkT 1 r
    else if c == markC then st == 0 && mOkT 2 r
    else (st == 0 || (c != ' ' && c != '\t')) && mOkT 0 r

theorem mOkT_newlines2 (t : Nat) : mOkT 2 (newlines t) = false := by
  cases t with
  | zero => rfl
  | succ t => simp [newlines, List.replicate_succ, mOkT]

theorem mOkT_core (t : Nat) : ∀ (core : Str) (st : Nat), (core = [] ∨ core.getLast? ≠ some '\n') → (core = [] → st = 0) →
    mOkT st (core ++ newlines t) = true → mOk st core = true := by
  intro core
  induction core with
  | nil => intro st _ h0 _; simp [mOk, h0 rfl]
  | cons c r ih =>
    intro st hl _ h
    have hl' : r = [] ∨ r.getLast? ≠ some '\n' := by
      cases r with
      | nil => exact Or.inl rfl
      | cons d r' =>
        right
        rcases hl with hl | hl
        · cases hl
        · simpa [List.getLast?_cons_cons] using hl
    by_cases hn : c = '\n'
    · subst hn
      have hr : r ≠ [] := by
        intro e; subst e
        rcases hl with hl | hl
        · cases hl
        · exact hl rfl
      simp only [List.cons_append, mOkT, beq_self_eq_true, if_true, Bool.and_eq_true] at h
      simp only [mOk, beq_self_eq_true, if_true, Bool.and_eq_true]
      exact ⟨h.1, ih 1 hl' (fun e => absurd e hr) h.2⟩
    · have q1 : (c == '\n') = false := by simp [hn]
      by_cases hm : c = markC
      · subst hm
        simp only [List.cons_append, mOkT, q1, Bool.false_eq_true, if_false, beq_self_eq_true, if_true, Bool.and_eq_true] at h
        simp only [mOk, q1, Bool.false_eq_true, if_false, beq_self_eq_true, if_true, Bool.and_eq_true]
        refine ⟨h.1, ih 2 hl' ?_ h.2⟩
        intro e; subst e
        have := h.2
        simp only [List.nil_append, mOkT_newlines2] at this
        cases this
      · have q2 : (c == markC) = false := by simp [hm]
        simp only [List.cons_append, mOkT, q1, q2, Bool.false_eq_true, if_false, Bool.and_eq_true] at h
        simp only [mOk, q1, q2, Bool.false_eq_true, if_false, Bool.and_eq_true]
        exact ⟨h.1, ih 0 hl' (fun _ => rfl) h.2⟩

/-- Splitting off the final run of line feeds the way `blockBodyLines` does. -/
theorem strip_newlines (core : Str) (t : Nat) (hl : core = [] ∨ core.getLast? ≠ some '\n') :
    ((core ++ newlines t).reverse.dropWhile (· == '\n')).reverse = core ∧
      (core ++ newlines t).length - core.length = t := by
  refine ⟨?_, by simp [newlines]⟩
  have h1 : ∀ (t : Nat) (R : Str), List.dropWhile (· == '\n') (List.replicate t '\n' ++ R) = List.dropWhile (· == '\n') R := by
    intro t R
    induction t with
    | zero => rfl
    | succ t ih => simp [List.replicate_succ, List.dropWhile_cons, ih]
  simp only [List.reverse_append, newlines, List.reverse_replicate, h1]
  by_cases hne : core = []
  · subst hne; rfl
  · have hl : core.getLast? ≠ some '\n' := by
      rcases hl with h | h
      · exact absurd h hne
      · exact h
    have hrev : core.reverse = core.getLast hne :: core.dropLast.reverse := by
      conv => lhs; rw [← List.dropLast_concat_getLast hne]
      simp
    have hlast : core.getLast hne ≠ '\n' := by
      intro e
      apply hl
      rw [List.getLast?_eq_some_getLast hne, e]
    rw [hrev]
    simp only [List.dropWhile_cons, show (core.getLast hne == '\n') = false by simp [hlast], Bool.false_eq_true, if_false]
    rw [← hrev]; simp


/-- What `foldOk` at the junction of `pre` and `r` says about the two parts. -/
theorem foldOk_at (pre r : Str) (h : foldOk (pre ++ r) pre.length = true) :
    ∃ p0 a d r2, pre = p0 ++ [a] ∧ r = ' ' :: d :: r2 ∧ a ≠ ' ' ∧ a ≠ '\n' ∧ d ≠ ' ' ∧ d ≠ '\n' := by
  simp only [foldOk, Bool.and_eq_true, decide_eq_true_eq, beq_iff_eq] at h
  obtain ⟨⟨⟨h1, h2⟩, h3⟩, h4⟩ := h
  rw [List.getElem?_append_right (Nat.le_refl _), Nat.sub_self] at h2
  rw [List.getElem?_append_right (Nat.le_succ _)] at h4
  have e1 : pre.length + 1 - pre.length = 1 := by omega
  rw [e1] at h4
  rw [List.getElem?_append_left (by omega)] at h3
  cases r with
  | nil => simp at h2
  | cons c r' =>
    have hc : c = ' ' := by simpa using h2
    subst hc
    cases r' with
    | nil => simp at h4
    | cons d r2 =>
      simp only [List.getElem?_cons_succ, List.getElem?_cons_zero, Bool.and_eq_true, bne_iff_ne, ne_eq] at h4
      have hg : pre.getLast? = pre[pre.length - 1]? := List.getLast?_eq_getElem? 
      cases hp : pre[pre.length - 1]? with
      | none => rw [hp] at h3; simp at h3
      | some a =>
        rw [hp] at h3
        simp only [Bool.and_eq_true, bne_iff_ne, ne_eq] at h3
        rw [hp] at hg
        exact ⟨pre.dropLast, a, d, r2, dropLast_append_getLast pre a hg, rfl, h3.1, h3.2, h4.1, h4.2⟩

/-- The marking state after the prefix `pre`. -/
def stOf (folds : List Nat) (pre : Str) : Nat :=
  match pre.getLast? with
  | none => 0
  | some a => if folds.contains (pre.length - 1) then 2 else if a == '\n' then 1 else 0

structure FoldHyp (folds : List Nat) (s' tl : Str) : Prop where
  hf : ∀ i, folds.contains i = true → foldOk (s' ++ tl) i = true
  htl : tl = [] ∨ tl = ['\n']
  hstart : ∀ pre c r, s' = pre ++ c :: r → (pre = [] ∨ pre.getLast? = some '\n') → c ≠ ' '
  hpr : ∀ c ∈ s', c = '\n' ∨ isPrintable c = true

theorem stOf_snoc (folds : List Nat) (pre : Str) (c : Char) :
    stOf folds (pre ++ [c]) = if folds.contains pre.length then 2 else if c == '\n' then 1 else 0 := by
  simp [stOf]

theorem goF_ok (folds : List Nat) (s' tl : Str) (H : FoldHyp folds s' tl) :
    ∀ r pre, pre ++ r = s' →
      mOkT (stOf folds pre) (goF folds pre.length r) = true ∧ unmark (goF folds pre.length r) = r := by
  intro r
  induction r with
  | nil =>
    intro pre hs
    simp only [List.append_nil] at hs
    refine ⟨?_, rfl⟩
    simp only [goF, mOkT, bne_iff_ne, ne_eq]
    intro h2
    -- state 2 at the very end: the fold mark would need a following character
    cases hg : pre.getLast? with
    | none => simp [stOf, hg] at h2
    | some a =>
      simp only [stOf, hg] at h2
      have hc : folds.contains (pre.length - 1) = true := by
        by_cases hc : folds.contains (pre.length - 1) = true
        · exact hc
        · simp only [hc, Bool.false_eq_true, if_false] at h2
          split at h2 <;> cases h2
      have hpre := dropLast_append_getLast pre a hg
      have hlen : pre.length - 1 = pre.dropLast.length := by simp
      have hfo := H.hf _ hc
      rw [← hs, hlen] at hfo
      have e : pre ++ tl = pre.dropLast ++ (a :: tl) := by
        conv => lhs; rw [hpre]
        simp
      rw [e] at hfo
      obtain ⟨p0, a', d, r2, _, hr, _, _, _, hd⟩ := foldOk_at _ _ hfo
      rcases H.htl with ht | ht
      · rw [ht] at hr; simp at hr
      · rw [ht] at hr
        simp only [List.cons.injEq] at hr
        exact hd hr.2.1.symm
  | cons c r ih =>
    intro pre hs
    have hs' : (pre ++ [c]) ++ r = s' := by rw [← hs]; simp
    have hlen : (pre ++ [c]).length = pre.length + 1 := by simp
    obtain ⟨ih1, ih2⟩ := ih (pre ++ [c]) hs'
    rw [hlen, stOf_snoc] at ih1
    rw [hlen] at ih2
    -- facts about a mark on the previous character
    have hprev : stOf folds pre = 2 → c ≠ ' ' ∧ c ≠ '\n' := by
      intro h2
      cases hg : pre.getLast? with
      | none => simp [stOf, hg] at h2
      | some a =>
        simp only [stOf, hg] at h2
        have hc : folds.contains (pre.length - 1) = true := by
          by_cases hc : folds.contains (pre.length - 1) = true
          · exact hc
          · simp only [hc, Bool.false_eq_true, if_false] at h2
            split at h2 <;> cases h2
        have hpre := dropLast_append_getLast pre a hg
        have hlen' : pre.length - 1 = pre.dropLast.length := by simp
        have hfo := H.hf _ hc
        rw [← hs, hlen'] at hfo
        have e : pre ++ c :: r ++ tl = pre.dropLast ++ (a :: c :: (r ++ tl)) := by
          conv => lhs; rw [hpre]
          simp
        rw [e] at hfo
        obtain ⟨p0, a', d, r2, _, hr, _, _, hd1, hd2⟩ := foldOk_at _ _ hfo
        simp only [List.cons.injEq] at hr
        rw [← hr.2.1] at hd1 hd2
        exact ⟨hd1, hd2⟩
    by_cases hc : folds.contains pre.length = true
    · -- a fold mark here
      have hfo := H.hf _ hc
      rw [← hs] at hfo
      have e : pre ++ c :: r ++ tl = pre ++ (c :: (r ++ tl)) := by simp
      rw [e] at hfo
      obtain ⟨p0, a, d, r2, hpre, hr, ha1, ha2, _, _⟩ := foldOk_at _ _ hfo
      have hcs : c = ' ' := by
        simp only [List.cons.injEq] at hr; exact hr.1
      subst hcs
      simp only [hc, if_true] at ih1
      have hst : stOf folds pre = 0 := by
        have hg : pre.getLast? = some a := by rw [hpre]; simp
        simp only [stOf, hg]
        have hnc : folds.contains (pre.length - 1) = false := by
          by_cases hc2 : folds.contains (pre.length - 1) = true
          · exfalso
            have : stOf folds pre = 2 := by simp only [stOf, hg, hc2, if_true]
            exact (hprev this).1 rfl
          · simpa using hc2
        have : (a == '\n') = false := by simp [ha2]
        simp only [hnc, this, Bool.false_eq_true, if_false]
      refine ⟨?_, ?_⟩
      · simp only [goF, hc, if_true, hst, mOkT, show ('\u0001' == '\n') = false by decide,
          show ('\u0001' == markC) = true by decide, Bool.false_eq_true, if_false, beq_self_eq_true, Bool.true_and]
        exact ih1
      · simp only [goF, hc, if_true, unmark, List.map_cons, show ('\u0001' == markC) = true by decide]
        have := ih2; simp only [unmark] at this; rw [this]
    · have hc' : folds.contains pre.length = false := by simpa using hc
      simp only [hc', Bool.false_eq_true, if_false] at ih1
      by_cases hn : c = '\n'
      · subst hn
        simp only [beq_self_eq_true, if_true] at ih1
        refine ⟨?_, ?_⟩
        · simp only [goF, hc', Bool.false_eq_true, if_false, mOkT, beq_self_eq_true, if_true, Bool.and_eq_true, bne_iff_ne, ne_eq]
          exact ⟨fun h2 => (hprev h2).2 rfl, ih1⟩
        · simp only [goF, hc', Bool.false_eq_true, if_false, unmark, List.map_cons, show ('\n' == markC) = false by decide]
          have := ih2; simp only [unmark] at this; rw [this]
      · have q1 : (c == '\n') = false := by simp [hn]
        simp only [q1, Bool.false_eq_true, if_false] at ih1
        have hp : isPrintable c = true := by
          rcases H.hpr c (by rw [← hs]; simp) with h | h
          · exact absurd h hn
          · exact h
        have hm : c ≠ markC := by intro e; subst e; exact absurd hp (by decide)
        have htab : c ≠ '\t' := by intro e; subst e; exact absurd hp (by decide)
        have q2 : (c == markC) = false := by simp [hm]
        refine ⟨?_, ?_⟩
        · simp only [goF, hc', Bool.false_eq_true, if_false, mOkT, q1, q2, Bool.and_eq_true, Bool.or_eq_true, beq_iff_eq,
            bne_iff_ne, ne_eq]
          refine ⟨?_, ih1⟩
          -- the state is 0, or the character is not a space
          cases hg : pre.getLast? with
          | none => left; simp [stOf, hg]
          | some a =>
            by_cases h2 : stOf folds pre = 2
            · right; exact ⟨(hprev h2).1, htab⟩
            · by_cases ha : a = '\n'
              · right
                refine ⟨?_, htab⟩
                exact H.hstart pre c r hs.symm (Or.inr (by rw [hg, ha]))
              · left
                simp only [stOf, hg] at h2 ⊢
                have : (a == '\n') = false := by simp [ha]
                by_cases hc2 : folds.contains (pre.length - 1) = true
                · simp only [hc2, if_true] at h2; exact absurd trivial h2
                · simp only [hc2, this, Bool.false_eq_true, if_false]
        · simp only [goF, hc', Bool.false_eq_true, if_false, unmark, List.map_cons, q2]
          have := ih2; simp only [unmark] at this; rw [this]


theorem splitNl_append_nl (a b : Str) : splitNl (a ++ '\n' :: b) = splitNl a ++ splitNl b := by
  induction a with
  | nil => simp [splitNl_cons_nl, splitNl]
  | cons x a ih =>
    by_cases hx : x = '\n'
    · subst hx
      simp only [List.cons_append, splitNl_cons_nl, ih]
    · obtain ⟨l, ls, e1, e2⟩ := splitNl_cons_other x a hx
      obtain ⟨l', ls', e1', e2'⟩ := splitNl_cons_other x (a ++ '\n' :: b) hx
      rw [ih, e1] at e1'
      simp only [List.cons_append, List.cons.injEq] at e1'
      simp only [List.cons_append, e2', e2, ← e1'.1, ← e1'.2]

/-- A character that starts a line of `t` is the head of one of its lines. -/
theorem line_head (t : Str) (h : ∀ l ∈ splitNl t, l.head? ≠ some ' ') :
    ∀ pre c r, t = pre ++ c :: r → (pre = [] ∨ pre.getLast? = some '\n') → c ≠ ' ' := by
  intro pre c r ht hp hc
  subst hc
  have key : ∀ r : Str, ∃ l ls, splitNl (' ' :: r) = (' ' :: l) :: ls := by
    intro r
    obtain ⟨l, ls, _, e2⟩ := splitNl_cons_other ' ' r (by decide)
    exact ⟨l, ls, e2⟩
  obtain ⟨l, ls, e⟩ := key r
  rcases hp with rfl | hp
  · simp only [List.nil_append] at ht
    rw [ht, e] at h
    exact h _ (List.mem_cons_self ..) rfl
  · have hpre := dropLast_append_getLast pre '\n' hp
    rw [hpre] at ht
    have : t = pre.dropLast ++ '\n' :: (' ' :: r) := by rw [ht]; simp
    rw [this, splitNl_append_nl, e] at h
    exact h _ (List.mem_append_right _ (List.mem_cons_self ..)) rfl

theorem mem_splitNl (t : Str) (c : Char) (hc : c ∈ t) (hn : c ≠ '\n') : ∃ l ∈ splitNl t, c ∈ l := by
  induction t with
  | nil => simp at hc
  | cons x t ih =>
    by_cases hx : x = '\n'
    · subst hx
      have : c ∈ t := by
        rcases List.mem_cons.mp hc with h | h
        · exact absurd h hn
        · exact h
      obtain ⟨l, hl, hcl⟩ := ih this
      exact ⟨l, by rw [splitNl_cons_nl]; exact List.mem_cons_of_mem _ hl, hcl⟩
    · obtain ⟨l0, ls, e1, e2⟩ := splitNl_cons_other x t hx
      rcases List.mem_cons.mp hc with h | h
      · exact ⟨x :: l0, by rw [e2]; exact List.mem_cons_self .., by rw [h]; exact List.mem_cons_self ..⟩
      · obtain ⟨l, hl, hcl⟩ := ih h
        rw [e1] at hl
        rcases List.mem_cons.mp hl with h' | h'
        · exact ⟨x :: l0, by rw [e2]; exact List.mem_cons_self .., by rw [← h']; exact List.mem_cons_of_mem _ hcl⟩
        · exact ⟨l, by rw [e2]; exact List.mem_cons_of_mem _ h', hcl⟩

/-- The string is its base plus (unless stripped) the final line feed. -/
theorem base_tl (ch : Chomp) (s : Str) (h : chompOk ch s = true) :
    ∃ tl, s = bsBase ch s ++ tl ∧ (tl = [] ∨ tl = ['\n']) ∧ (ch = .strip → tl = []) ∧ (ch ≠ .strip → tl = ['\n']) := by
  cases ch with
  | strip => exact ⟨[], by simp [bsBase], Or.inl rfl, fun _ => rfl, fun h => absurd rfl h⟩
  | clip =>
    simp only [chompOk, Bool.and_eq_true, beq_iff_eq] at h
    exact ⟨['\n'], dropLast_append_getLast s '\n' h.1.1, Or.inr rfl, (fun h => by cases h), fun _ => rfl⟩
  | keep =>
    simp only [chompOk, beq_iff_eq] at h
    exact ⟨['\n'], dropLast_append_getLast s '\n' h, Or.inr rfl, (fun h => by cases h), fun _ => rfl⟩

theorem foldHyp_of (folds : List Nat) (ch : Chomp) (s tl : Str) (hs : s = bsBase ch s ++ tl) (htl : tl = [] ∨ tl = ['\n'])
    (hch : chompOk ch s = true) (hlines : (splitNl s).all bsLineOk = true)
    (hsp : (splitNl s).all (fun l => l.head? != some ' ') = true) (hf : folds.all (foldOk s) = true) :
    FoldHyp folds (bsBase ch s) tl := by
  have hsub : ∀ l ∈ splitNl (bsBase ch s), l ∈ splitNl s := by
    intro l hl
    rcases splitNl_base ch s hch with e | e
    · rw [e]; exact hl
    · rw [e]; exact List.mem_append_left _ hl
  refine ⟨?_, htl, ?_, ?_⟩
  · intro i hi
    rw [← hs]
    exact List.all_eq_true.mp hf i (List.contains_iff_mem.mp hi)
  · apply line_head
    intro l hl
    have := List.all_eq_true.mp hsp l (hsub l hl)
    simpa using this
  · intro c hc
    by_cases hn : c = '\n'
    · exact Or.inl hn
    · right
      obtain ⟨l, hl, hcl⟩ := mem_splitNl _ c hc hn
      have := List.all_eq_true.mp hlines l (hsub l hl)
      simp only [bsLineOk, Bool.and_eq_true] at this
      exact List.all_eq_true.mp this.1 c hcl


theorem foldBreaks_ne_nil (b : Bool) (c : Char) (r : Str) : foldBreaks b (c :: r) ≠ [] := by
  simp only [foldBreaks]
  split
  · split <;> simp
  · simp

theorem getLast?_append_ne_nil {α : Type} (a b : List α) (h : b ≠ []) : (a ++ b).getLast? = b.getLast? := by
  cases b with
  | nil => exact absurd rfl h
  | cons x t =>
    rw [List.getLast?_append, List.getLast?_eq_some_getLast (List.cons_ne_nil x t)]
    rfl

/-- The folded rendering of a marked text that ends after an ordinary character does not end in a
line feed. -/
theorem foldBreaks_last : ∀ (m : Str) (st : Nat) (b : Bool), mOk st m = true → m ≠ [] →
    (foldBreaks b m).getLast? ≠ some '\n' := by
  intro m
  induction m with
  | nil => intro _ _ _ h; exact absurd rfl h
  | cons c r ih =>
    intro st b hm _
    cases r with
    | nil =>
      by_cases hn : c = '\n'
      · subst hn; simp [mOk] at hm
      · have q1 : (c == '\n') = false := by simp [hn]
        by_cases hk : c = markC
        · subst hk; simp [mOk, markC] at hm
        · have q2 : (c == '\u0001') = false := by
            have : c ≠ '\u0001' := hk
            simp [this]
          simp [foldBreaks, q1, q2, hn]
    | cons d r' =>
      have hne : foldBreaks true (d :: r') ≠ [] := foldBreaks_ne_nil _ _ _
      have hne' : foldBreaks false (d :: r') ≠ [] := foldBreaks_ne_nil _ _ _
      by_cases hn : c = '\n'
      · subst hn
        have h1 : mOk 1 (d :: r') = true := by
          simp only [mOk, beq_self_eq_true, if_true, Bool.and_eq_true] at hm; exact hm.2
        have := ih 1 true h1 (by simp)
        rw [foldBreaks]
        simp only [beq_self_eq_true, if_true]
        rw [getLast?_append_ne_nil _ _ hne]; exact this
      · have q1 : (c == '\n') = false := by simp [hn]
        by_cases hk : c = markC
        · subst hk
          have h2 : mOk 2 (d :: r') = true := by
            simp only [mOk, q1, Bool.false_eq_true, if_false, beq_self_eq_true, if_true, Bool.and_eq_true] at hm; exact hm.2
          have := ih 2 false h2 (by simp)
          rw [foldBreaks]
          simp only [q1, Bool.false_eq_true, if_false]
          rw [show ∀ (x : Char) (Y : Str), x :: Y = [x] ++ Y from fun _ _ => rfl, getLast?_append_ne_nil _ _ hne']
          exact this
        · have q2 : (c == markC) = false := by simp [hk]
          have h0 : mOk 0 (d :: r') = true := by
            simp only [mOk, q1, q2, Bool.false_eq_true, if_false, Bool.and_eq_true] at hm; exact hm.2
          have := ih 0 false h0 (by simp)
          rw [foldBreaks]
          simp only [q1, Bool.false_eq_true, if_false]
          rw [show ∀ (x : Char) (Y : Str), x :: Y = [x] ++ Y from fun _ _ => rfl, getLast?_append_ne_nil _ _ hne']
          exact this

theorem unmark_append (a b : Str) : unmark (a ++ b) = unmark a ++ unmark b := by simp [unmark]
theorem unmark_newlines (t : Nat) : unmark (newlines t) = newlines t := by
  simp [unmark, newlines, markC]


theorem blockBodyLines_folded (folds : List Nat) (ch : Chomp) (s : Str) :
    blockBodyLines true folds ch s =
      splitNl (foldBreaks false ((applyFolds folds (bsBase ch s)).reverse.dropWhile (· == '\n')).reverse ++
        List.replicate ((applyFolds folds (bsBase ch s)).length -
          ((applyFolds folds (bsBase ch s)).reverse.dropWhile (· == '\n')).reverse.length) '\n') := by
  simp [blockBodyLines, bsBase]

/-- Folded block scalars: the rendered body lines (plus blank lines after them) read back as the string. -/
theorem folded_roundtrip (folds : List Nat) (ch : Chomp) (s : Str) (j : Nat)
    (hch : chompOk ch s = true) (hlines : (splitNl s).all bsLineOk = true)
    (hsp : (splitNl s).all (fun l => l.head? != some ' ') = true) (hhead : s.head? ≠ some '\n')
    (hf : folds.all (foldOk s) = true) (hj : ch = .keep → j = 0) :
    foldedText ch (blockBodyLines true folds ch s ++ List.replicate j []) = s := by
  obtain ⟨tl, hs, htl, htl1, htl2⟩ := base_tl ch s hch
  have H := foldHyp_of folds ch s tl hs htl hch hlines hsp hf
  obtain ⟨hm, hu⟩ := goF_ok folds (bsBase ch s) tl H (bsBase ch s) [] (by simp)
  simp only [List.length_nil] at hm hu
  have hst0 : stOf folds [] = 0 := rfl
  rw [hst0] at hm
  obtain ⟨core, t, hdec, hlast⟩ := decomp_newlines (goF folds 0 (bsBase ch s))
  obtain ⟨e1, e2⟩ := strip_newlines core t hlast
  have hbody : blockBodyLines true folds ch s = splitNl (foldBreaks false core ++ newlines t) := by
    rw [blockBodyLines_folded, applyFolds_eq, hdec, e1, e2]; rfl
  have hcore : mOk 0 core = true := mOkT_core t core 0 hlast (fun _ => rfl) (by rw [← hdec]; exact hm)
  have hs' : bsBase ch s = unmark core ++ newlines t := by rw [← hu, hdec, unmark_append, unmark_newlines]
  rw [hbody, splitNl_append_newlines, List.append_assoc, List.replicate_append_replicate]
  cases core with
  | nil =>
    simp only [unmark, List.map_nil, List.nil_append] at hs'
    have ht : t = 0 := by
      cases t with
      | zero => rfl
      | succ t =>
        exfalso; apply hhead
        rw [hs, hs']; simp [newlines, List.replicate_succ]
    subst ht
    have hb0 : bsBase ch s = [] := by rw [hs']; rfl
    have htl0 : tl = [] := by
      rcases htl with h | h
      · exact h
      · exfalso; apply hhead; rw [hs, hb0, h]; rfl
    have hs0 : s = [] := by rw [hs, hb0, htl0]; rfl
    have hstrip : ch = .strip := by
      cases ch with
      | strip => rfl
      | clip => have := htl2 (by simp); rw [htl0] at this; cases this
      | keep => have := htl2 (by simp); rw [htl0] at this; cases this
    subst hstrip
    rw [hs0]
    have : splitNl (foldBreaks false []) ++ List.replicate (0 + j) ([] : Str) = List.replicate (j + 1) [] := by
      simp [foldBreaks, splitNl, List.replicate_succ]
    rw [this, foldedText_eq, dropTrailingEmpty_replicate]
    simp [chompText]
  | cons c0 core' =>
    -- the first character is an ordinary one
    have hb : ∃ b r, bsBase ch s = b :: r := by
      cases hb : bsBase ch s with
      | nil =>
        rw [hb] at hdec; simp [goF] at hdec
      | cons b r => exact ⟨b, r, rfl⟩
    obtain ⟨b, rb, hbr⟩ := hb
    have hc0 : folds.contains 0 = false := by
      cases hc : folds.contains 0 with
      | false => rfl
      | true =>
        have := H.hf 0 hc
        simp [foldOk] at this
    have hc0b : c0 = b := by
      rw [hbr] at hdec
      simp only [goF, hc0, Bool.false_eq_true, if_false, List.cons_append, List.cons.injEq] at hdec
      exact hdec.1.symm
    have hbn : b ≠ '\n' := by
      intro e; apply hhead; rw [hs, hbr, e]; rfl
    have hbs : b ≠ ' ' := H.hstart [] b rb (by rw [hbr]; rfl) (Or.inl rfl)
    have hbp : isPrintable b = true := by
      rcases H.hpr b (by rw [hbr]; exact List.mem_cons_self ..) with h | h
      · exact absurd h hbn
      · exact h
    have hbt : b ≠ '\t' := by intro e; subst e; exact absurd hbp (by decide)
    have hbm : b ≠ markC := by intro e; subst e; exact absurd hbp (by decide)
    subst hc0b
    have hX : foldBreaks false (c0 :: core') = c0 :: foldBreaks false core' := by
      have q1 : (c0 == '\n') = false := by simp [hbn]
      have q2 : (c0 == '\u0001') = false := by
        have : c0 ≠ '\u0001' := hbm
        simp [this]
      simp [foldBreaks, q1, q2]
    have hXl := foldBreaks_last (c0 :: core') 0 false hcore (by simp)
    rw [hX] at hXl ⊢
    rw [foldedText_lines ch c0 _ hbn hbs hbt hXl (t + j), ← hX, (fold_read (c0 :: core')).1 hcore]
    -- the chomped end
    have hs2 : s = unmark (c0 :: core') ++ newlines t ++ tl := by rw [← hs']; exact hs
    have hune : unmark (c0 :: core') ≠ [] := by simp [unmark]
    cases ch with
    | strip =>
      have htl0 := htl1 rfl
      have ht : t = 0 := by
        cases t with
        | zero => rfl
        | succ t =>
          exfalso
          simp only [chompOk, bne_iff_ne, ne_eq] at hch
          apply hch
          rw [hs2, htl0, newlines_succ']; simp
      subst ht
      rw [hs2, htl0]; simp [chompText, newlines]
    | clip =>
      have htl0 := htl2 (by simp)
      have ht : t = 0 := by
        cases t with
        | zero => rfl
        | succ t =>
          exfalso
          simp only [chompOk, Bool.and_eq_true, bne_iff_ne, ne_eq] at hch
          apply hch.1.2
          have : s.dropLast = unmark (c0 :: core') ++ newlines (t + 1) := by
            rw [hs2, htl0, List.dropLast_concat]
          rw [this, newlines_succ']; simp
      subst ht
      rw [hs2, htl0]; simp [chompText, newlines]
    | keep =>
      have htl0 := htl2 (by simp)
      have hj0 := hj rfl
      subst hj0
      rw [hs2, htl0]
      simp [chompText, newlines_succ', List.append_assoc]


/-- A line that is empty or starts with a character other than a space. -/
def headOk (l : Str) : Prop := l = [] ∨ ∃ c r, l = c :: r ∧ c ≠ ' '

theorem bodyOk_of_headOk (l : Str) (h : headOk l) : bodyOk l := by
  rcases h with h | ⟨c, r, rfl, hc⟩
  · exact Or.inl h
  · right; simp [hc]

/-- Lines of the folded rendering: every line after the first is empty or starts with a non-space
character; so does the first one unless it continues a line (state 0). -/
theorem foldBreaks_lines : ∀ (m : Str) (st : Nat) (b : Bool), mOk st m = true →
    (∀ l ∈ (splitNl (foldBreaks b m)).tail, headOk l) ∧ (st ≠ 0 → ∀ l, (splitNl (foldBreaks b m)).head? = some l → headOk l) := by
  intro m
  induction m with
  | nil =>
    intro st b _
    simp [foldBreaks, splitNl, headOk]
  | cons c r ih =>
    intro st b hm
    by_cases hn : c = '\n'
    · subst hn
      have h1 : mOk 1 r = true := by
        simp only [mOk, beq_self_eq_true, if_true, Bool.and_eq_true] at hm; exact hm.2
      obtain ⟨i1, i2⟩ := ih 1 true h1
      have hall : ∀ l ∈ splitNl (foldBreaks true r), headOk l := by
        intro l hl
        cases hsp : splitNl (foldBreaks true r) with
        | nil => rw [hsp] at hl; cases hl
        | cons x xs =>
          rw [hsp] at hl i1 i2
          rcases List.mem_cons.mp hl with h | h
          · rw [h]; exact i2 (by decide) x rfl
          · exact i1 l h
      rw [foldBreaks]
      simp only [beq_self_eq_true, if_true]
      cases b with
      | true =>
        simp only [if_true, List.cons_append, List.nil_append, splitNl_cons_nl, List.tail_cons, List.head?_cons]
        exact ⟨hall, fun _ l hl => by rw [← Option.some.inj hl]; exact Or.inl rfl⟩
      | false =>
        simp only [Bool.false_eq_true, if_false, List.cons_append, List.nil_append, splitNl_cons_nl, List.tail_cons, List.head?_cons]
        refine ⟨?_, fun _ l hl => by rw [← Option.some.inj hl]; exact Or.inl rfl⟩
        intro l hl
        rcases List.mem_cons.mp hl with h | h
        · rw [h]; exact Or.inl rfl
        · exact hall l h
    · have q1 : (c == '\n') = false := by simp [hn]
      by_cases hk : c = markC
      · subst hk
        have h2 : mOk 2 r = true := by
          simp only [mOk, q1, Bool.false_eq_true, if_false, beq_self_eq_true, if_true, Bool.and_eq_true] at hm; exact hm.2
        have hst : st = 0 := by
          simp only [mOk, q1, Bool.false_eq_true, if_false, beq_self_eq_true, if_true, Bool.and_eq_true, beq_iff_eq] at hm; exact hm.1
        obtain ⟨i1, i2⟩ := ih 2 false h2
        have hall : ∀ l ∈ splitNl (foldBreaks false r), headOk l := by
          intro l hl
          cases hsp : splitNl (foldBreaks false r) with
          | nil => rw [hsp] at hl; cases hl
          | cons x xs =>
            rw [hsp] at hl i1 i2
            rcases List.mem_cons.mp hl with h | h
            · rw [h]; exact i2 (by decide) x rfl
            · exact i1 l h
        have e : foldBreaks b (markC :: r) = '\n' :: foldBreaks false r := by
          simp [foldBreaks, markC]
        rw [e, splitNl_cons_nl]
        exact ⟨hall, fun h => absurd hst h⟩
      · have q2 : (c == markC) = false := by simp [hk]
        have q2' : (c == '\u0001') = false := by
          have : c ≠ '\u0001' := hk
          simp [this]
        simp only [mOk, q1, q2, Bool.false_eq_true, if_false, Bool.and_eq_true, Bool.or_eq_true, beq_iff_eq, bne_iff_ne, ne_eq] at hm
        obtain ⟨hc, h0⟩ := hm
        obtain ⟨i1, _⟩ := ih 0 false h0
        have e : foldBreaks b (c :: r) = c :: foldBreaks false r := by
          simp [foldBreaks, q1, q2']
        obtain ⟨l0, ls, e1, e2⟩ := splitNl_cons_other c (foldBreaks false r) hn
        rw [e, e2]
        rw [e1] at i1
        refine ⟨i1, ?_⟩
        intro hst l hl
        simp only [List.head?_cons, Option.some.injEq] at hl
        rw [← hl]
        rcases hc with hc | hc
        · exact absurd hc hst
        · exact Or.inr ⟨c, l0, rfl, hc.1⟩

theorem mem_foldBreaks (m : Str) (b : Bool) : ∀ c ∈ foldBreaks b m, c = '\n' ∨ (c ∈ m ∧ c ≠ markC) := by
  induction m generalizing b with
  | nil => intro c hc; simp [foldBreaks] at hc
  | cons x r ih =>
    intro c hc
    rw [foldBreaks] at hc
    split at hc
    · rcases List.mem_append.mp hc with h | h
      · left; split at h <;> simp at h <;> simp [h]
      · rcases ih true c h with h' | h'
        · exact Or.inl h'
        · exact Or.inr ⟨List.mem_cons_of_mem _ h'.1, h'.2⟩
    · rcases List.mem_cons.mp hc with h | h
      · by_cases hx : x = '\u0001'
        · left; simp [hx] at h; exact h
        · right
          have : (x == '\u0001') = false := by simp [hx]
          simp only [this, Bool.false_eq_true, if_false] at h
          rw [h]; exact ⟨List.mem_cons_self .., hx⟩
      · rcases ih false c h with h' | h'
        · exact Or.inl h'
        · exact Or.inr ⟨List.mem_cons_of_mem _ h'.1, h'.2⟩

theorem mem_of_mem_splitNl (t : Str) : ∀ l ∈ splitNl t, ∀ c ∈ l, c ∈ t ∧ c ≠ '\n' := by
  induction t with
  | nil => intro l hl c hc; simp [splitNl] at hl; subst hl; cases hc
  | cons x t ih =>
    intro l hl c hc
    by_cases hx : x = '\n'
    · subst hx
      rw [splitNl_cons_nl] at hl
      rcases List.mem_cons.mp hl with h | h
      · subst h; cases hc
      · have := ih l h c hc
        exact ⟨List.mem_cons_of_mem _ this.1, this.2⟩
    · obtain ⟨l0, ls, e1, e2⟩ := splitNl_cons_other x t hx
      rw [e2] at hl
      rw [e1] at ih
      rcases List.mem_cons.mp hl with h | h
      · subst h
        rcases List.mem_cons.mp hc with h' | h'
        · rw [h']; exact ⟨List.mem_cons_self .., hx⟩
        · have := ih l0 (List.mem_cons_self ..) c h'
          exact ⟨List.mem_cons_of_mem _ this.1, this.2⟩
      · have := ih l (List.mem_cons_of_mem _ h) c hc
        exact ⟨List.mem_cons_of_mem _ this.1, this.2⟩


theorem mem_goF (folds : List Nat) (s : Str) (n : Nat) : ∀ c ∈ goF folds n s, c = '\u0001' ∨ c ∈ s := by
  induction s generalizing n with
  | nil => intro c hc; cases hc
  | cons x r ih =>
    intro c hc
    rw [goF] at hc
    rcases List.mem_cons.mp hc with h | h
    · split at h
      · exact Or.inl h
      · exact Or.inr (by rw [h]; exact List.mem_cons_self ..)
    · rcases ih (n + 1) c h with h' | h'
      · exact Or.inl h'
      · exact Or.inr (List.mem_cons_of_mem _ h')

/-- The shape of a folded block scalar's rendering. -/
theorem folded_shape (folds : List Nat) (ch : Chomp) (s : Str)
    (hch : chompOk ch s = true) (hlines : (splitNl s).all bsLineOk = true)
    (hsp : (splitNl s).all (fun l => l.head? != some ' ') = true) (hhead : s.head? ≠ some '\n')
    (hf : folds.all (foldOk s) = true) :
    ∃ core t tl, FoldHyp folds (bsBase ch s) tl ∧ goF folds 0 (bsBase ch s) = core ++ newlines t ∧
      blockBodyLines true folds ch s = splitNl (foldBreaks false core ++ newlines t) ∧ mOk 0 core = true ∧
      (core = [] ∨ ∃ c0 core', core = c0 :: core' ∧ c0 ≠ '\n' ∧ c0 ≠ ' ' ∧ c0 ≠ '\t' ∧ c0 ≠ markC) := by
  obtain ⟨tl, hs, htl, htl1, htl2⟩ := base_tl ch s hch
  have H := foldHyp_of folds ch s tl hs htl hch hlines hsp hf
  obtain ⟨hm, hu⟩ := goF_ok folds (bsBase ch s) tl H (bsBase ch s) [] (by simp)
  simp only [List.length_nil] at hm hu
  have hst0 : stOf folds [] = 0 := rfl
  rw [hst0] at hm
  obtain ⟨core, t, hdec, hlast⟩ := decomp_newlines (goF folds 0 (bsBase ch s))
  obtain ⟨e1, e2⟩ := strip_newlines core t hlast
  have hbody : blockBodyLines true folds ch s = splitNl (foldBreaks false core ++ newlines t) := by
    rw [blockBodyLines_folded, applyFolds_eq, hdec, e1, e2]; rfl
  have hcore : mOk 0 core = true := mOkT_core t core 0 hlast (fun _ => rfl) (by rw [← hdec]; exact hm)
  refine ⟨core, t, tl, H, hdec, hbody, hcore, ?_⟩
  cases core with
  | nil => exact Or.inl rfl
  | cons c0 core' =>
    right
    have hb : ∃ b r, bsBase ch s = b :: r := by
      cases hb : bsBase ch s with
      | nil => rw [hb] at hdec; simp [goF] at hdec
      | cons b r => exact ⟨b, r, rfl⟩
    obtain ⟨b, rb, hbr⟩ := hb
    have hc0 : folds.contains 0 = false := by
      cases hc : folds.contains 0 with
      | false => rfl
      | true => have := H.hf 0 hc; simp [foldOk] at this
    have hc0b : c0 = b := by
      rw [hbr] at hdec
      simp only [goF, hc0, Bool.false_eq_true, if_false, List.cons_append, List.cons.injEq] at hdec
      exact hdec.1.symm
    have hbn : b ≠ '\n' := by intro e; apply hhead; rw [hs, hbr, e]; rfl
    have hbs : b ≠ ' ' := H.hstart [] b rb (by rw [hbr]; rfl) (Or.inl rfl)
    have hbp : isPrintable b = true := by
      rcases H.hpr b (by rw [hbr]; exact List.mem_cons_self ..) with h | h
      · exact absurd h hbn
      · exact h
    have hbt : b ≠ '\t' := by intro e; subst e; exact absurd hbp (by decide)
    have hbm : b ≠ markC := by intro e; subst e; exact absurd hbp (by decide)
    subst hc0b
    exact ⟨c0, core', rfl, hbn, hbs, hbt, hbm⟩

theorem folded_lines_ok (folds : List Nat) (ch : Chomp) (s : Str)
    (hch : chompOk ch s = true) (hlines : (splitNl s).all bsLineOk = true)
    (hsp : (splitNl s).all (fun l => l.head? != some ' ') = true) (hhead : s.head? ≠ some '\n')
    (hf : folds.all (foldOk s) = true) :
    ∀ l ∈ blockBodyLines true folds ch s, headOk l ∧ l.all isPrintable = true := by
  obtain ⟨core, t, tl, H, hdec, hbody, hcore, hshape⟩ := folded_shape folds ch s hch hlines hsp hhead hf
  intro l hl
  rw [hbody, splitNl_append_newlines] at hl
  rcases List.mem_append.mp hl with hl | hl
  · constructor
    · rcases hshape with rfl | ⟨c0, core', rfl, hbn, hbs, hbt, hbm⟩
      · simp [foldBreaks, splitNl] at hl; subst hl; exact Or.inl rfl
      · have hX : foldBreaks false (c0 :: core') = c0 :: foldBreaks false core' := by
          have q1 : (c0 == '\n') = false := by simp [hbn]
          have q2 : (c0 == '\u0001') = false := by
            have : c0 ≠ '\u0001' := hbm
            simp [this]
          simp [foldBreaks, q1, q2]
        obtain ⟨i1, _⟩ := foldBreaks_lines (c0 :: core') 0 false hcore
        obtain ⟨l0, ls, e1, e2⟩ := splitNl_cons_other c0 (foldBreaks false core') hbn
        rw [hX, e2] at hl i1
        rcases List.mem_cons.mp hl with h | h
        · rw [h]; exact Or.inr ⟨c0, l0, rfl, hbs⟩
        · exact i1 l h
    · rw [List.all_eq_true]
      intro c hc
      obtain ⟨h1, h2⟩ := mem_of_mem_splitNl _ l hl c hc
      rcases mem_foldBreaks core false c h1 with h | ⟨h3, h4⟩
      · exact absurd h h2
      · have : c ∈ goF folds 0 (bsBase ch s) := by rw [hdec]; exact List.mem_append_left _ h3
        rcases mem_goF folds _ 0 c this with h | h
        · exact absurd h h4
        · rcases H.hpr c h with h' | h'
          · exact absurd h' h2
          · exact h'
  · have := List.eq_of_mem_replicate hl
    subst this
    exact ⟨Or.inl rfl, rfl⟩

theorem goF_newlines (folds : List Nat) : ∀ (s' : Str) (n t : Nat), goF folds n s' = newlines t → s'.all (· == '\n') = true := by
  intro s'
  induction s' with
  | nil => intros; rfl
  | cons c r ih =>
    intro n t h
    cases t with
    | zero => simp [goF, newlines] at h
    | succ t =>
      simp only [goF, newlines, List.replicate_succ, List.cons.injEq] at h
      have hc : c = '\n' := by
        by_cases hf : folds.contains n = true
        · simp only [hf, if_true] at h; exact absurd h.1 (by decide)
        · simp only [hf, Bool.false_eq_true, if_false] at h; exact h.1
      simp only [List.all_cons, hc, beq_self_eq_true, Bool.true_and]
      exact ih (n + 1) t h.2

/-- A folded scalar with content has a non-empty body line. -/
theorem folded_has_content (folds : List Nat) (ch : Chomp) (s : Str)
    (hch : chompOk ch s = true) (hlines : (splitNl s).all bsLineOk = true)
    (hsp : (splitNl s).all (fun l => l.head? != some ' ') = true) (hhead : s.head? ≠ some '\n')
    (hf : folds.all (foldOk s) = true) (hany : s.any (· != '\n') = true) :
    ∃ l ∈ blockBodyLines true folds ch s, l ≠ [] := by
  obtain ⟨core, t, tl, H, hdec, hbody, hcore, hshape⟩ := folded_shape folds ch s hch hlines hsp hhead hf
  rcases hshape with rfl | ⟨c0, core', rfl, hbn, hbs, hbt, hbm⟩
  · exfalso
    simp only [List.nil_append] at hdec
    have hall := goF_newlines folds _ 0 t hdec
    obtain ⟨l, hl, hne⟩ := any_base ch s hch hany
    cases l with
    | nil => exact hne rfl
    | cons c r =>
      obtain ⟨h1, h2⟩ := mem_of_mem_splitNl _ _ hl c (List.mem_cons_self ..)
      have := List.all_eq_true.mp hall c h1
      simp at this; exact h2 this
  · have hX : foldBreaks false (c0 :: core') = c0 :: foldBreaks false core' := by
      have q1 : (c0 == '\n') = false := by simp [hbn]
      have q2 : (c0 == '\u0001') = false := by
        have : c0 ≠ '\u0001' := hbm
        simp [this]
      simp [foldBreaks, q1, q2]
    obtain ⟨l0, ls, e1, e2⟩ := splitNl_cons_other c0 (foldBreaks false core') hbn
    refine ⟨c0 :: l0, ?_, by simp⟩
    rw [hbody, splitNl_append_newlines, hX, e2]
    exact List.mem_append_left _ (List.mem_cons_self ..)

/-- A folded block scalar after its indicator. -/
theorem after_folded (f g col pn e : Nat) (cOk sSame : Bool) (root : Bool) (s : Str) (ch : Chomp) (ind : Nat) (ex : Bool)
    (folds : List Nat) (hpn : pn = if root then 0 else e + 1) (he : root = true → e = 0)
    (h : strOk false root s (.folded ch ind ex folds) = true) (rest : List Line) (ht : Tail e (ch == .keep) rest)
    (T : Str) (hT : TrailOk T) :
    parseAfter (f + 1) (spaces g ++ '>' :: ((if ex then natDigits 10 ind else []) ++ chompChar ch) ++ T) col pn cOk sSame
        (bsLines (pn + ind - 1) (blockBodyLines true folds ch s) ++ rest)
      = .ok (.scalar false s, rest.dropWhile blankL) := by
  simp only [strOk, Bool.not_false, Bool.true_and, Bool.and_eq_true, decide_eq_true_eq, bne_iff_ne, ne_eq] at h
  obtain ⟨⟨⟨⟨⟨⟨⟨⟨⟨hind, h9⟩, hlines⟩, hch⟩, hex⟩, hroot⟩, hsp⟩, hhead⟩, hf⟩, _⟩ := h
  have h1 : 1 ≤ ind := by cases root <;> simp at hind <;> omega
  have hpa := parseAfter_bs f g col pn cOk sSame true ch ind ex h1 h9 T hT
    (bsLines (pn + ind - 1) (blockBodyLines true folds ch s) ++ rest)
  simp only [if_true] at hpa
  rw [hpa]
  have hlk := folded_lines_ok folds ch s hch hlines hsp hhead hf
  have hfirst : ∀ l, (blockBodyLines true folds ch s).find? (fun l => !l.isEmpty) = some l → l.head? ≠ some ' ' := by
    intro l hl
    have hm := List.mem_of_find?_eq_some hl
    rcases (hlk l hm).1 with h0 | ⟨c, r, rfl, hc⟩
    · subst h0; simp
    · simpa using hc
  have hlt : e < pn + ind - 1 := by
    cases root with
    | true => have := he rfl; simp at hpn hind; omega
    | false => simp at hpn hind; omega
  have hside : (∃ d, (if ex then some ind else none) = some d ∧ pn + d - 1 = pn + ind - 1) ∨
      ((if ex then some ind else none) = none ∧ pn ≤ pn + ind - 1 ∧ (e < pn ∨ ∃ l ∈ blockBodyLines true folds ch s, l ≠ []) ∧
        ∀ l, (blockBodyLines true folds ch s).find? (fun l => !l.isEmpty) = some l → l.head? ≠ some ' ') := by
    cases ex with
    | true => exact Or.inl ⟨ind, rfl, rfl⟩
    | false =>
      refine Or.inr ⟨rfl, by omega, ?_, hfirst⟩
      cases root with
      | false => left; simp at hpn; omega
      | true =>
        right
        simp only [Bool.not_true, Bool.false_or, Bool.and_eq_true] at hroot
        exact folded_has_content folds ch s hch hlines hsp hhead hf hroot.2
  obtain ⟨j, hr, hj⟩ := readBs ⟨true, ch, if ex then some ind else none⟩ pn e (pn + ind - 1) (blockBodyLines true folds ch s) rest
    (fun l hl => bodyOk_of_headOk l (hlk l hl).1) ht hlt hside
  rw [hr]
  simp only [if_true, Except.map]
  rw [folded_roundtrip folds ch s j hch hlines hsp hhead hf hj]


end SV.YamlRef
