/-
Proof/YamlBlockScalar — layer 3 of `render_load` (C14): literal and folded block scalars.
-/
import SuccinctlyVerif.Proof.YamlRoundTrip
namespace SV.YamlRef

/-! ## Layer 3: block scalars — text lemmas -/

/-- `splitNl` of a text without line feed is the text as a single line. -/
theorem splitNl_noNl (a : Str) (h : a.all (· != '\n') = true) : splitNl a = [a] := by
  induction a with
  | nil => rfl
  | cons c t ih =>
    simp only [List.all_cons, Bool.and_eq_true, bne_iff_ne] at h
    simp [splitNl, ih h.2, h.1]

theorem splitNl_cons_nl (b : Str) : splitNl ('\n' :: b) = [] :: splitNl b := by
  simp only [splitNl]
  cases hs : splitNl b with
  | nil => exact absurd hs (splitNl_ne_nil b)
  | cons l ls => simp

theorem splitNl_cons_other (c : Char) (b : Str) (h : c ≠ '\n') :
    ∃ l ls, splitNl b = l :: ls ∧ splitNl (c :: b) = (c :: l) :: ls := by
  cases hs : splitNl b with
  | nil => exact absurd hs (splitNl_ne_nil b)
  | cons l ls => exact ⟨l, ls, rfl, by simp [splitNl, hs, h]⟩

/-- Joining the lines again gives the text back. -/
theorem intercalate_splitNl (s : Str) : ['\n'].intercalate (splitNl s) = s := by
  induction s with
  | nil => simp [splitNl, List.intercalate]
  | cons c t ih =>
    by_cases h : c = '\n'
    · subst h
      rw [splitNl_cons_nl]
      cases hs : splitNl t with
      | nil => exact absurd hs (splitNl_ne_nil t)
      | cons l ls =>
        rw [hs] at ih
        simp only [List.intercalate, List.intersperse_cons_cons, List.flatten_cons, List.nil_append] at ih ⊢
        simp [ih]
    · obtain ⟨l, ls, hs, hc⟩ := splitNl_cons_other c t h
      rw [hc]
      rw [hs] at ih
      cases ls with
      | nil =>
        simp only [List.intercalate, List.intersperse_singleton, List.flatten_cons, List.flatten_nil, List.append_nil] at ih ⊢
        rw [ih]
      | cons l2 ls2 =>
        simp only [List.intercalate, List.intersperse_cons_cons, List.flatten_cons, List.cons_append] at ih ⊢
        rw [ih]


theorem splitNl_snoc_nl (a : Str) : splitNl (a ++ ['\n']) = splitNl a ++ [[]] := by
  induction a with
  | nil => simp [splitNl]
  | cons c t ih =>
    by_cases h : c = '\n'
    · subst h
      simp only [List.cons_append, splitNl_cons_nl, ih, List.cons_append]
    · obtain ⟨l, ls, hs, hc⟩ := splitNl_cons_other c t h
      obtain ⟨l', ls', hs', hc'⟩ := splitNl_cons_other c (t ++ ['\n']) h
      rw [ih, hs] at hs'
      simp only [List.cons_append, List.cons.injEq] at hs'
      simp only [List.cons_append, hc', hc, ← hs'.1, ← hs'.2]

theorem splitNl_append_newlines (z : Str) (k : Nat) : splitNl (z ++ newlines k) = splitNl z ++ List.replicate k [] := by
  induction k with
  | zero => simp [newlines]
  | succ k ih =>
    have : z ++ newlines (k + 1) = (z ++ newlines k) ++ ['\n'] := by
      simp [newlines, List.replicate_succ', List.append_assoc]
    rw [this, splitNl_snoc_nl, ih, List.replicate_succ', List.append_assoc]

/-- The last line of a non-empty text that does not end in a line feed is non-empty. -/
theorem splitNl_last_nonempty (z : Str) (hne : z ≠ []) (hl : z.getLast? ≠ some '\n') :
    ∃ L l, splitNl z = L ++ [l] ∧ l ≠ [] := by
  induction z with
  | nil => exact absurd rfl hne
  | cons c t ih =>
    cases t with
    | nil =>
      have hc : c ≠ '\n' := by intro e; subst e; exact hl rfl
      exact ⟨[], [c], by simp [splitNl, hc], by simp⟩
    | cons d t' =>
      have hl' : (d :: t').getLast? ≠ some '\n' := by simpa [List.getLast?_cons_cons] using hl
      obtain ⟨L, l, hs, hln⟩ := ih (by simp) hl'
      by_cases h : c = '\n'
      · subst h
        exact ⟨[] :: L, l, by rw [splitNl_cons_nl, hs]; simp, hln⟩
      · obtain ⟨l0, ls0, hs0, hc0⟩ := splitNl_cons_other c (d :: t') h
        rw [hs] at hs0
        cases L with
        | nil =>
          simp only [List.nil_append, List.cons.injEq] at hs0
          exact ⟨[], c :: l0, by rw [hc0, ← hs0.2]; rfl, by simp⟩
        | cons x L' =>
          simp only [List.cons_append, List.cons.injEq] at hs0
          exact ⟨(c :: l0) :: L', l, by rw [hc0, ← hs0.2]; simp, hln⟩

def dropTrailingEmpty (ls : List Str) : List Str := (ls.reverse.dropWhile (·.isEmpty)).reverse

theorem dropTrailingEmpty_replicate (k : Nat) : dropTrailingEmpty (List.replicate k ([] : Str)) = [] := by
  simp only [dropTrailingEmpty, List.reverse_replicate]
  induction k with
  | zero => rfl
  | succ k ih => simp [List.replicate_succ, List.dropWhile_cons, ih]

theorem dropTrailingEmpty_snoc (L : List Str) (l : Str) (hl : l ≠ []) (k : Nat) :
    dropTrailingEmpty (L ++ [l] ++ List.replicate k []) = L ++ [l] := by
  simp only [dropTrailingEmpty, List.reverse_append, List.reverse_replicate, List.reverse_cons, List.reverse_nil,
    List.nil_append, List.singleton_append]
  have : ∀ k (R : List Str), List.dropWhile (·.isEmpty) (List.replicate k ([] : Str) ++ l :: R) = l :: R := by
    intro k R
    induction k with
    | zero =>
      have : l.isEmpty = false := by cases l <;> simp_all
      simp [List.dropWhile_cons, this]
    | succ k ih => simp [List.replicate_succ, List.dropWhile_cons, ih]
  rw [this]
  simp

theorem literalText_eq (ch : Chomp) (ls : List Str) :
    literalText ch ls = ['\n'].intercalate (dropTrailingEmpty ls)
      ++ chompText ch (!(dropTrailingEmpty ls).isEmpty) (ls.length - (dropTrailingEmpty ls).length) := rfl

/-- Literal style: the lines of `z ++ "\n"^k` (with `z` empty or not ending in a line feed) read back as
`z` plus the chomped line feeds. -/
theorem literalText_lines (ch : Chomp) (z : Str) (k : Nat) (hz : z = [] ∨ z.getLast? ≠ some '\n') :
    literalText ch (splitNl (z ++ newlines k)) = z ++ chompText ch (!z.isEmpty) (if z.isEmpty then k + 1 else k) := by
  rw [literalText_eq, splitNl_append_newlines]
  by_cases hne : z = []
  · subst hne
    have : splitNl [] ++ List.replicate k ([] : Str) = List.replicate (k + 1) [] := by
      simp [splitNl, List.replicate_succ]
    rw [this, dropTrailingEmpty_replicate]
    simp [List.intercalate]
  · have hl : z.getLast? ≠ some '\n' := by
      rcases hz with h | h
      · exact absurd h hne
      · exact h
    obtain ⟨L, l, hs, hln⟩ := splitNl_last_nonempty z hne hl
    rw [hs, dropTrailingEmpty_snoc L l hln k, ← hs, intercalate_splitNl]
    have hne' : z.isEmpty = false := by cases z <;> simp_all
    have hne2 : (splitNl z).isEmpty = false := by
      cases h : splitNl z with
      | nil => exact absurd h (splitNl_ne_nil z)
      | cons a b => rfl
    simp [hne', hne2]


theorem blockBodyLines_literal (f : List Nat) (ch : Chomp) (s : Str) :
    blockBodyLines false f ch s = splitNl (if ch == .strip then s else s.dropLast) := by
  simp [blockBodyLines]

theorem decomp_newlines_rev (r : Str) :
    ∃ z k, r.reverse = z ++ newlines k ∧ (z = [] ∨ z.getLast? ≠ some '\n') := by
  induction r with
  | nil => exact ⟨[], 0, rfl, Or.inl rfl⟩
  | cons c t ih =>
    by_cases hc : c = '\n'
    · subst hc
      obtain ⟨z, k, ht, hz⟩ := ih
      refine ⟨z, k + 1, ?_, hz⟩
      rw [List.reverse_cons, ht]; simp [newlines, List.replicate_succ', List.append_assoc]
    · exact ⟨t.reverse ++ [c], 0, by simp [newlines], Or.inr (by simp [hc])⟩

/-- Every text is some `z` (empty or not ending in a line feed) followed by `k` line feeds. -/
theorem decomp_newlines (y : Str) :
    ∃ z k, y = z ++ newlines k ∧ (z = [] ∨ z.getLast? ≠ some '\n') := by
  have := decomp_newlines_rev y.reverse
  simpa using this

theorem dropLast_append_getLast (s : Str) (c : Char) (h : s.getLast? = some c) :
    s = s.dropLast ++ [c] := by
  have h1 : s ≠ [] := by intro e; subst e; simp at h
  have h2 := List.dropLast_concat_getLast h1
  rw [List.getLast?_eq_some_getLast h1] at h
  have : s.getLast h1 = c := by simpa using h
  rw [this] at h2; exact h2.symm

/-- Literal block scalars: the body lines read back as the string. -/
theorem literal_roundtrip (f : List Nat) (ch : Chomp) (s : Str) (h : chompOk ch s = true) :
    literalText ch (blockBodyLines false f ch s) = s := by
  rw [blockBodyLines_literal]
  cases ch with
  | strip =>
    simp only [chompOk, bne_iff_ne, ne_eq] at h
    simp only [beq_self_eq_true, if_true]
    have := literalText_lines .strip s 0 (Or.inr h)
    simpa [newlines, chompText] using this
  | clip =>
    simp only [chompOk, Bool.and_eq_true, beq_iff_eq, bne_iff_ne, ne_eq, decide_eq_true_eq] at h
    obtain ⟨⟨h1, h2⟩, h3⟩ := h
    have hs := dropLast_append_getLast s '\n' h1
    have hne : s.dropLast ≠ [] := by
      intro e; rw [e] at hs; rw [hs] at h3; simp at h3
    simp only [show (Chomp.clip == Chomp.strip) = false by rfl, Bool.false_eq_true, if_false]
    have := literalText_lines .clip s.dropLast 0 (Or.inr h2)
    have hie : s.dropLast.isEmpty = false := by
      cases hd : s.dropLast with
      | nil => exact absurd hd hne
      | cons _ _ => rfl
    simp only [newlines, List.replicate_zero, List.append_nil, hie, Bool.not_false, chompText, if_true] at this
    rw [this]; exact hs.symm
  | keep =>
    simp only [chompOk, beq_iff_eq] at h
    have hs := dropLast_append_getLast s '\n' h
    simp only [show (Chomp.keep == Chomp.strip) = false by rfl, Bool.false_eq_true, if_false]
    obtain ⟨z, k, hy, hz⟩ := decomp_newlines s.dropLast
    rw [hy, literalText_lines .keep z k hz]
    rw [hs, hy]
    by_cases hze : z = []
    · subst hze; simp [chompText, newlines, List.replicate_succ']
    · have : z.isEmpty = false := by
        cases z with
        | nil => exact absurd rfl hze
        | cons _ _ => rfl
      simp [this, chompText, newlines, List.replicate_succ', List.append_assoc]


/-! ## Block-scalar body lines as `Line`s -/

/-- Body lines of a block scalar as `Line`s. -/
def bsLines (ci : Nat) (body : List Str) : List Line := body.map fun l => mkLine (indentLine ci l)

/-- A writable body line: empty, or with a character that is not a space. -/
def bodyOk (l : Str) : Prop := l = [] ∨ l.any (· != ' ') = true

theorem mkLine_spaces_append (n : Nat) (l : Str) :
    mkLine (spaces n ++ l) = ⟨n + (mkLine l).ind, (mkLine l).txt⟩ := by
  induction n with
  | zero => simp [spaces, mkLine]
  | succ n ih =>
    have : spaces (n + 1) ++ l = ' ' :: (spaces n ++ l) := by simp [spaces, List.replicate_succ]
    rw [this]
    simp only [mkLine, List.takeWhile_cons, List.dropWhile_cons, beq_self_eq_true, if_true, List.length_cons] at ih ⊢
    simp only [Line.mk.injEq] at ih ⊢
    exact ⟨by rw [ih.1]; omega, ih.2⟩

theorem mkLine_txt_ne (l : Str) (h : l.any (· != ' ') = true) : (mkLine l).txt ≠ [] := by
  induction l with
  | nil => simp at h
  | cons c t ih =>
    by_cases hc : c = ' '
    · subst hc
      have : t.any (· != ' ') = true := by simpa using h
      simpa [mkLine, List.dropWhile_cons] using ih this
    · simp [mkLine, List.dropWhile_cons, hc]

theorem mkLine_split (l : Str) : spaces (mkLine l).ind ++ (mkLine l).txt = l := by
  induction l with
  | nil => rfl
  | cons c t ih =>
    by_cases hc : c = ' '
    · subst hc
      simp only [mkLine, List.takeWhile_cons, List.dropWhile_cons, beq_self_eq_true, if_true, List.length_cons, spaces,
        List.replicate_succ, List.cons_append] at ih ⊢
      rw [ih]
    · simp [mkLine, List.takeWhile_cons, List.dropWhile_cons, hc, spaces]

/-- What the reader needs of one rendered body line. -/
theorem bsLine_facts (ci : Nat) (l : Str) (h : bodyOk l) :
    bsLineText ci (mkLine (indentLine ci l)) = l ∧
      (((mkLine (indentLine ci l)).txt = [] ∧ (mkLine (indentLine ci l)).ind = 0 ∧ l = []) ∨
        ((mkLine (indentLine ci l)).txt ≠ [] ∧ ci ≤ (mkLine (indentLine ci l)).ind ∧ l ≠ [] ∧
          (mkLine (indentLine ci l)).ind = ci + (mkLine l).ind)) := by
  by_cases he : l = []
  · subst he
    simp [indentLine, mkLine, bsLineText, spaces]
  · have ha : l.any (· != ' ') = true := by
      rcases h with h | h
      · exact absurd h he
      · exact h
    have hie : l.isEmpty = false := by cases l <;> simp_all
    have hm : mkLine (indentLine ci l) = ⟨ci + (mkLine l).ind, (mkLine l).txt⟩ := by
      simp only [indentLine, hie, Bool.false_eq_true, if_false]
      exact mkLine_spaces_append ci l
    have hne := mkLine_txt_ne l ha
    have hte : (mkLine l).txt.isEmpty = false := by cases h' : (mkLine l).txt <;> simp_all
    rw [hm]
    refine ⟨?_, Or.inr ⟨hne, Nat.le_add_right _ _, he, rfl⟩⟩
    simp only [bsLineText, hte, Bool.false_eq_true, if_false, Nat.add_sub_cancel_left]
    exact mkLine_split l

theorem takeBs_append (ci : Nat) (A rest : List Line)
    (hA : ∀ l ∈ A, (l.txt.isEmpty || decide (l.ind ≥ ci)) = true) :
    takeBsLines ci (A ++ rest) = (A ++ (takeBsLines ci rest).1, (takeBsLines ci rest).2) := by
  induction A with
  | nil => simp
  | cons a A ih =>
    have h1 := hA a (List.mem_cons_self ..)
    have h2 := ih (fun l hl => hA l (List.mem_cons_of_mem _ hl))
    simp only [List.cons_append, takeBsLines, h1, if_true, h2]

theorem takeBs_rest (ci : Nat) (rest : List Line)
    (hr : ∀ l r, rest.dropWhile (·.txt.isEmpty) = l :: r → l.ind < ci) :
    takeBsLines ci rest = (rest.takeWhile (·.txt.isEmpty), rest.dropWhile (·.txt.isEmpty)) := by
  induction rest with
  | nil => rfl
  | cons a rest ih =>
    by_cases ha : a.txt.isEmpty = true
    · have := ih (by intro l r h; exact hr l r (by simpa [List.dropWhile_cons, ha] using h))
      simp only [takeBsLines, ha, Bool.true_or, if_true, this, List.takeWhile_cons, List.dropWhile_cons]
    · have ha' : a.txt.isEmpty = false := by simpa using ha
      have hlt := hr a rest (by simp [List.dropWhile_cons, ha'])
      have : ¬ (a.ind ≥ ci) := by omega
      simp [takeBsLines, ha', this, List.takeWhile_cons, List.dropWhile_cons]


abbrev blankL (l : Line) : Bool := l.txt.isEmpty

theorem mem_takeWhile_imp {α : Type} {p : α → Bool} {l : List α} {a : α} (h : a ∈ l.takeWhile p) : p a = true := by
  induction l with
  | nil => simp at h
  | cons x t ih =>
    by_cases hx : p x = true
    · simp only [List.takeWhile_cons, hx, if_true, List.mem_cons] at h
      rcases h with rfl | h
      · exact hx
      · exact ih h
    · simp [List.takeWhile_cons, hx] at h

theorem bsLines_mem (ci : Nat) (body : List Str) (hb : ∀ l ∈ body, bodyOk l) :
    ∀ L ∈ bsLines ci body, (L.txt = [] ∧ L.ind = 0) ∨ (L.txt ≠ [] ∧ ci ≤ L.ind) := by
  intro L hL
  obtain ⟨l, hl, rfl⟩ := List.mem_map.mp hL
  rcases (bsLine_facts ci l (hb l hl)).2 with ⟨h1, h2, _⟩ | ⟨h1, h2, _⟩
  · exact Or.inl ⟨h1, h2⟩
  · exact Or.inr ⟨h1, h2⟩

theorem bsLines_blank (ci : Nat) (body : List Str) (hall : ∀ l ∈ body, l = []) :
    bsLines ci body = List.replicate body.length ⟨0, []⟩ := by
  induction body with
  | nil => rfl
  | cons b t ih =>
    have hb : b = [] := hall b (List.mem_cons_self ..)
    subst hb
    have := ih (fun l hl => hall l (List.mem_cons_of_mem _ hl))
    simp only [bsLines, List.map_cons, List.length_cons, List.replicate_succ] at this ⊢
    rw [this]; rfl

theorem bsLines_texts (ci : Nat) (body : List Str) (hb : ∀ l ∈ body, bodyOk l) :
    (bsLines ci body).map (bsLineText ci) = body := by
  induction body with
  | nil => rfl
  | cons b t ih =>
    have := ih (fun l hl => hb l (List.mem_cons_of_mem _ hl))
    simp only [bsLines, List.map_cons, List.map_map] at this ⊢
    rw [(bsLine_facts ci b (hb b (List.mem_cons_self ..))).1]
    congr 1

theorem readBs_core (c ciR : Nat) (body : List Str) (rest : List Line)
    (hb : ∀ l ∈ body, bodyOk l) (hc : c = ciR ∨ ∀ l ∈ body, l = [])
    (hr : ∀ l r, rest.dropWhile blankL = l :: r → l.ind < c)
    (h0 : ∀ l ∈ rest.takeWhile blankL, l.ind = 0) :
    takeBsLines c (bsLines ciR body ++ rest) = (bsLines ciR body ++ rest.takeWhile blankL, rest.dropWhile blankL) ∧
    ((bsLines ciR body ++ rest.takeWhile blankL).takeWhile blankL).any (fun l => decide (l.ind > c)) = false ∧
    (bsLines ciR body ++ rest.takeWhile blankL).any (fun l => l.txt.head? == some '\t' && decide (l.ind < c)) = false ∧
    (bsLines ciR body ++ rest.takeWhile blankL).map (bsLineText c) = body ++ List.replicate (rest.takeWhile blankL).length [] := by
  have hmem := bsLines_mem ciR body hb
  -- every blank line of `mine` has indentation 0, every other one at least `c`
  have hmine : ∀ L ∈ bsLines ciR body ++ rest.takeWhile blankL, (L.txt = [] ∧ L.ind = 0) ∨ (L.txt ≠ [] ∧ c ≤ L.ind) := by
    intro L hL
    rcases List.mem_append.mp hL with h | h
    · rcases hc with rfl | hall
      · exact hmem L h
      · rw [bsLines_blank ciR body hall] at h
        have := List.eq_of_mem_replicate h
        subst this; exact Or.inl ⟨rfl, rfl⟩
    · have hbl : blankL L = true := (mem_takeWhile_imp h)
      have : L.txt = [] := by simpa [blankL] using hbl
      exact Or.inl ⟨this, h0 L h⟩
  refine ⟨?_, ?_, ?_, ?_⟩
  · rw [takeBs_append c _ rest, takeBs_rest c rest hr]
    intro l hl
    rcases hmine l (List.mem_append_left _ hl) with ⟨h1, _⟩ | ⟨_, h2⟩
    · simp [h1]
    · simp [h2]
  · rw [List.any_eq_false]
    intro L hL
    have hL' := mem_takeWhile_imp hL
    have hm := (List.takeWhile_sublist _).subset hL
    rcases hmine L hm with ⟨_, h2⟩ | ⟨h1, _⟩
    · simp [h2]
    · simp [blankL, h1] at hL'
  · rw [List.any_eq_false]
    intro L hL
    rcases hmine L hL with ⟨h1, _⟩ | ⟨_, h2⟩
    · simp [h1]
    · have : ¬ (L.ind < c) := by omega
      simp [this]
  · rw [List.map_append]
    congr 1
    · rcases hc with rfl | hall
      · exact bsLines_texts c body hb
      · rw [bsLines_blank ciR body hall]
        have hbody : body = List.replicate body.length [] := by
          apply List.eq_replicate_iff.mpr
          exact ⟨rfl, hall⟩
        conv => rhs; rw [hbody]
        simp [bsLineText, spaces]
    · apply List.eq_replicate_iff.mpr
      refine ⟨by simp, ?_⟩
      intro t ht
      obtain ⟨L, hL, rfl⟩ := List.mem_map.mp ht
      have hbl : blankL L = true := (mem_takeWhile_imp hL)
      have h1 : L.txt = [] := by simpa [blankL] using hbl
      simp [bsLineText, h1, h0 L hL, spaces]


/-- The content indentation `readBlockScalar` works with. -/
def bsCi (hd : BsHeader) (pn : Nat) (ls : List Line) : Nat :=
  match hd.indent with
  | some d => pn + d - 1
  | none =>
    match ls.find? (fun l => !l.txt.isEmpty) with
    | some l => if l.ind ≥ pn then l.ind else pn
    | none => ls.foldl (fun a l => if l.txt.isEmpty then max a l.ind else a) pn

theorem readBs_eq (hd : BsHeader) (pn : Nat) (ls : List Line) :
    readBlockScalar hd pn ls =
      (if hd.indent.isNone && (ls.find? (fun l => !l.txt.isEmpty)).isSome &&
          ((takeBsLines (bsCi hd pn ls) ls).1.takeWhile (·.txt.isEmpty)).any (fun l => l.ind > bsCi hd pn ls) then
        .error (.syntax "leading empty line of block scalar is over-indented")
      else if (takeBsLines (bsCi hd pn ls) ls).1.any (fun l => l.txt.head? == some '\t' && l.ind < bsCi hd pn ls) then
        .error (.unsupported "tab")
      else
        .ok (if hd.folded then foldedText hd.chomp ((takeBsLines (bsCi hd pn ls) ls).1.map (bsLineText (bsCi hd pn ls)))
             else literalText hd.chomp ((takeBsLines (bsCi hd pn ls) ls).1.map (bsLineText (bsCi hd pn ls))),
             (takeBsLines (bsCi hd pn ls) ls).2)) := by
  unfold readBlockScalar bsCi
  cases hd.indent with
  | some d => rfl
  | none =>
    cases ls.find? (fun l => !l.txt.isEmpty) with
    | some l => rfl
    | none => rfl

theorem find_not_dropWhile {α : Type} (p : α → Bool) (l : List α) :
    l.find? (fun x => !p x) = (l.dropWhile p).head? := by
  induction l with
  | nil => rfl
  | cons x t ih =>
    by_cases hx : p x = true
    · simp [List.find?_cons, List.dropWhile_cons, hx, ih]
    · simp [List.find?_cons, List.dropWhile_cons, hx]

theorem bsLines_find (ci : Nat) (body : List Str) (hb : ∀ l ∈ body, bodyOk l) :
    (bsLines ci body).find? (fun l => !l.txt.isEmpty) =
      (body.find? (fun l => !l.isEmpty)).map (fun l => mkLine (indentLine ci l)) := by
  induction body with
  | nil => rfl
  | cons b t ih =>
    have := ih (fun l hl => hb l (List.mem_cons_of_mem _ hl))
    simp only [bsLines, List.map_cons, List.find?_cons] at this ⊢
    rcases (bsLine_facts ci b (hb b (List.mem_cons_self ..))).2 with ⟨h1, _, h3⟩ | ⟨h1, _, h3, _⟩
    · subst h3
      simp only [h1, List.isEmpty_nil, Bool.not_true]
      exact this
    · have e1 : (mkLine (indentLine ci b)).txt.isEmpty = false := by
        cases h : (mkLine (indentLine ci b)).txt <;> simp_all
      have e2 : b.isEmpty = false := by cases b <;> simp_all
      simp [e1, e2]

/-- Lines that may follow a block scalar held by an entry at indentation `e`: the first non-blank one
is not deeper than the entry, blank ones are empty, and after `keep` chomping no blank line follows. -/
def Tail (e : Nat) (keep : Bool) (rest : List Line) : Prop :=
  (∀ l r, rest.dropWhile blankL = l :: r → l.ind ≤ e) ∧
  (∀ l ∈ rest.takeWhile blankL, l.ind = 0) ∧
  (keep = true → ∀ l r, rest = l :: r → l.txt.isEmpty = false)

/-- Reading back the rendered body lines of a block scalar. -/
theorem readBs (hd : BsHeader) (pn e ciR : Nat) (body : List Str) (rest : List Line)
    (hb : ∀ l ∈ body, bodyOk l) (ht : Tail e (hd.chomp == .keep) rest) (hlt : e < ciR)
    (hind : (∃ d, hd.indent = some d ∧ pn + d - 1 = ciR) ∨
      (hd.indent = none ∧ pn ≤ ciR ∧ (e < pn ∨ ∃ l ∈ body, l ≠ []) ∧
        ∀ l, body.find? (fun l => !l.isEmpty) = some l → l.head? ≠ some ' ')) :
    ∃ j, readBlockScalar hd pn (bsLines ciR body ++ rest) =
        .ok (if hd.folded then foldedText hd.chomp (body ++ List.replicate j [])
             else literalText hd.chomp (body ++ List.replicate j []), rest.dropWhile blankL) ∧
      (hd.chomp = .keep → j = 0) := by
  obtain ⟨t1, t2, t3⟩ := ht
  -- the content indentation the reader computes
  have hci : (bsCi hd pn (bsLines ciR body ++ rest) = ciR ∨ ∀ l ∈ body, l = []) ∧
      ∀ l r, rest.dropWhile blankL = l :: r → l.ind < bsCi hd pn (bsLines ciR body ++ rest) := by
    rcases hind with ⟨d, hd1, hd2⟩ | ⟨hn, hpn, hcont, hsp⟩
    · have : bsCi hd pn (bsLines ciR body ++ rest) = ciR := by simp [bsCi, hd1, hd2]
      rw [this]
      exact ⟨Or.inl rfl, fun l r h => by have := t1 l r h; omega⟩
    · cases hf : body.find? (fun l => !l.isEmpty) with
      | some b0 =>
        have hb0 : b0 ∈ body := List.mem_of_find?_eq_some hf
        have hne : b0.isEmpty = false := by simpa using List.find?_some hf
        have hne' : b0 ≠ [] := by intro e0; subst e0; simp at hne
        have hfacts := bsLine_facts ciR b0 (hb b0 hb0)
        have hind0 : (mkLine b0).ind = 0 := by
          cases b0 with
          | nil => exact absurd rfl hne'
          | cons c t =>
            have hc : c ≠ ' ' := by simpa using hsp _ hf
            simp [mkLine, List.takeWhile_cons, hc]
        have hL : (mkLine (indentLine ciR b0)).ind = ciR := by
          rcases hfacts.2 with ⟨_, _, h3⟩ | ⟨_, _, _, h4⟩
          · exact absurd h3 hne'
          · rw [h4, hind0]; rfl
        have hfind : (bsLines ciR body ++ rest).find? (fun l => !l.txt.isEmpty) = some (mkLine (indentLine ciR b0)) := by
          rw [List.find?_append, bsLines_find ciR body hb, hf]; rfl
        have : bsCi hd pn (bsLines ciR body ++ rest) = ciR := by
          simp only [bsCi, hn, hfind, hL]
          simp [hpn]
        rw [this]
        exact ⟨Or.inl rfl, fun l r h => by have := t1 l r h; omega⟩
      | none =>
        have hall : ∀ l ∈ body, l = [] := by
          intro l hl
          have := List.find?_eq_none.mp hf l hl
          cases l with
          | nil => rfl
          | cons _ _ => simp at this
        have hepn : e < pn := by
          rcases hcont with h | ⟨l, hl, hne⟩
          · exact h
          · exact absurd (hall l hl) hne
        have hfind : (bsLines ciR body ++ rest).find? (fun l => !l.txt.isEmpty) = (rest.dropWhile blankL).head? := by
          rw [List.find?_append, bsLines_find ciR body hb, hf]
          simp only [Option.map_none, Option.none_or]
          exact find_not_dropWhile blankL rest
        refine ⟨Or.inr hall, ?_⟩
        intro l r h
        have hle := t1 l r h
        have : bsCi hd pn (bsLines ciR body ++ rest) = pn := by
          simp only [bsCi, hn, hfind, h, List.head?_cons]
          have : ¬ (l.ind ≥ pn) := by omega
          simp [this]
        rw [this]; omega
  obtain ⟨hc1, hc2⟩ := hci
  obtain ⟨k1, k2, k3, k4⟩ := readBs_core (bsCi hd pn (bsLines ciR body ++ rest)) ciR body rest hb hc1 hc2 t2
  refine ⟨(rest.takeWhile blankL).length, ?_, ?_⟩
  · rw [readBs_eq, k1]
    simp only [k2, k3, k4, Bool.and_false, Bool.false_eq_true, if_false]
  · intro hk
    have hk' : (hd.chomp == Chomp.keep) = true := by rw [hk]; rfl
    cases hrest : rest with
    | nil => rfl
    | cons a r =>
      have := t3 hk' a r hrest
      simp [List.takeWhile_cons, blankL, this]


theorem dropWhile_replicate_empty (j : Nat) (X : List Str) :
    List.dropWhile (·.isEmpty) (List.replicate j ([] : Str) ++ X) = List.dropWhile (·.isEmpty) X := by
  induction j with
  | zero => rfl
  | succ j ih => simp [List.replicate_succ, List.dropWhile_cons, ih]

theorem dropTrailingEmpty_append_empties (ls : List Str) (j : Nat) :
    dropTrailingEmpty (ls ++ List.replicate j []) = dropTrailingEmpty ls := by
  simp only [dropTrailingEmpty, List.reverse_append, List.reverse_replicate, dropWhile_replicate_empty]

theorem chompText_notKeep (ch : Chomp) (b : Bool) (a c : Nat) (h : ch ≠ .keep) : chompText ch b a = chompText ch b c := by
  cases ch <;> simp_all [chompText]

/-- Blank lines after the body change nothing unless the chomping indicator is `keep`. -/
theorem literalText_append_empties (ch : Chomp) (ls : List Str) (j : Nat) (h : ch = .keep → j = 0) :
    literalText ch (ls ++ List.replicate j []) = literalText ch ls := by
  by_cases hk : ch = .keep
  · rw [h hk]; simp
  · rw [literalText_eq, literalText_eq, dropTrailingEmpty_append_empties]
    congr 1
    exact chompText_notKeep ch _ _ _ hk

theorem foldedText_eq (ch : Chomp) (ls : List Str) :
    foldedText ch ls =
      (match (dropTrailingEmpty ls).dropWhile (·.isEmpty) with
       | [] => []
       | l :: rest => newlines ((dropTrailingEmpty ls).takeWhile (·.isEmpty)).length ++ l ++ foldGo (isSpaced l) 0 rest)
        ++ chompText ch (!(dropTrailingEmpty ls).isEmpty) (ls.length - (dropTrailingEmpty ls).length) := rfl

theorem foldedText_append_empties (ch : Chomp) (ls : List Str) (j : Nat) (h : ch = .keep → j = 0) :
    foldedText ch (ls ++ List.replicate j []) = foldedText ch ls := by
  by_cases hk : ch = .keep
  · rw [h hk]; simp
  · rw [foldedText_eq, foldedText_eq, dropTrailingEmpty_append_empties]
    congr 1
    exact chompText_notKeep ch _ _ _ hk

/-- The header the renderer writes is read back. -/
theorem parseBsHeader_rendered (f : Bool) (ch : Chomp) (ind : Nat) (ex : Bool) (h1 : 1 ≤ ind) (h9 : ind ≤ 9) :
    parseBsHeader f ((if ex then natDigits 10 ind else []) ++ chompChar ch) =
      .ok ⟨f, ch, if ex then some ind else none⟩ := by
  cases ex with
  | false => cases ch <;> rfl
  | true =>
    have : ind = 1 ∨ ind = 2 ∨ ind = 3 ∨ ind = 4 ∨ ind = 5 ∨ ind = 6 ∨ ind = 7 ∨ ind = 8 ∨ ind = 9 := by omega
    rcases this with rfl | rfl | rfl | rfl | rfl | rfl | rfl | rfl | rfl <;> cases ch <;> rfl


/-- A block-scalar header after an indicator. -/
theorem parseAfter_bs (f g col pn : Nat) (cOk sSame : Bool) (folded : Bool) (ch : Chomp) (ind : Nat) (ex : Bool)
    (h1 : 1 ≤ ind) (h9 : ind ≤ 9) (ls : List Line) :
    parseAfter (f + 1) (spaces (g + 1) ++ (if folded then '>' else '|') :: ((if ex then natDigits 10 ind else []) ++ chompChar ch))
        col pn cOk sSame ls
      = (readBlockScalar ⟨folded, ch, if ex then some ind else none⟩ pn ls).map fun (s, r) => (.scalar false s, r) := by
  have hh := parseBsHeader_rendered folded ch ind ex h1 h9
  cases folded with
  | false =>
    have hds : dropSpaces (spaces (g + 1) ++ '|' :: ((if ex then natDigits 10 ind else []) ++ chompChar ch))
        = '|' :: ((if ex then natDigits 10 ind else []) ++ chompChar ch) := dropSpaces_spaces (g + 1) '|' _ (by decide)
    rw [parseAfter]
    simp only [Bool.false_eq_true, if_false, hds, List.head?_cons, show (some '|' == some '\t') = false by decide,
      List.isEmpty_cons, show (some '|' == some '#') = false by decide, Bool.false_and, Bool.or_self, hh]
  | true =>
    have hds : dropSpaces (spaces (g + 1) ++ '>' :: ((if ex then natDigits 10 ind else []) ++ chompChar ch))
        = '>' :: ((if ex then natDigits 10 ind else []) ++ chompChar ch) := dropSpaces_spaces (g + 1) '>' _ (by decide)
    rw [parseAfter]
    simp only [if_true, hds, List.head?_cons, show (some '>' == some '\t') = false by decide,
      List.isEmpty_cons, show (some '>' == some '#') = false by decide, Bool.false_and, Bool.or_self, hh,
      Bool.false_eq_true, if_false]

theorem bodyOk_of_bsLineOk (l : Str) (h : bsLineOk l = true) : bodyOk l := by
  simp only [bsLineOk, Bool.and_eq_true, Bool.or_eq_true] at h
  rcases h.2 with h | h
  · left; cases l with
    | nil => rfl
    | cons _ _ => simp at h
  · right; exact h

/-- A text whose lines are all empty consists of line feeds. -/
theorem all_nl_of_lines_empty (t : Str) (h : ∀ l ∈ splitNl t, l = []) : t.all (· == '\n') = true := by
  induction t with
  | nil => rfl
  | cons c b ih =>
    by_cases hc : c = '\n'
    · subst hc
      rw [splitNl_cons_nl] at h
      simp only [List.all_cons, beq_self_eq_true, Bool.true_and]
      exact ih (fun l hl => h l (List.mem_cons_of_mem _ hl))
    · obtain ⟨l, ls, _, h2⟩ := splitNl_cons_other c b hc
      rw [h2] at h
      exact absurd (h _ (List.mem_cons_self ..)) (by simp)

/-- The string whose lines are written: the whole string (`strip`) or the string without its final
line feed. -/
def bsBase (ch : Chomp) (s : Str) : Str := if ch == .strip then s else s.dropLast

theorem splitNl_base (ch : Chomp) (s : Str) (h : chompOk ch s = true) :
    splitNl s = splitNl (bsBase ch s) ∨ splitNl s = splitNl (bsBase ch s) ++ [[]] := by
  cases ch with
  | strip => left; rfl
  | clip =>
    simp only [chompOk, Bool.and_eq_true, beq_iff_eq] at h
    right
    have hs := dropLast_append_getLast s '\n' h.1.1
    conv => lhs; rw [hs]
    exact splitNl_snoc_nl _
  | keep =>
    simp only [chompOk, beq_iff_eq] at h
    right
    have hs := dropLast_append_getLast s '\n' h
    conv => lhs; rw [hs]
    exact splitNl_snoc_nl _

theorem find_base (ch : Chomp) (s : Str) (h : chompOk ch s = true) :
    (splitNl (bsBase ch s)).find? (fun l => !l.isEmpty) = (splitNl s).find? (fun l => !l.isEmpty) := by
  rcases splitNl_base ch s h with e | e
  · rw [e]
  · rw [e, List.find?_append]
    cases (splitNl (bsBase ch s)).find? (fun l => !l.isEmpty) <;> simp

theorem any_base (ch : Chomp) (s : Str) (h : chompOk ch s = true) (ha : s.any (· != '\n') = true) :
    ∃ l ∈ splitNl (bsBase ch s), l ≠ [] := by
  by_cases hex : ∃ l ∈ splitNl (bsBase ch s), l ≠ []
  · exact hex
  · exfalso
    have hall : ∀ l ∈ splitNl s, l = [] := by
      intro l hl
      rcases splitNl_base ch s h with e | e
      · rw [e] at hl
        cases l with
        | nil => rfl
        | cons c t => exact absurd ⟨_, hl, by simp⟩ hex
      · rw [e, List.mem_append] at hl
        rcases hl with hl | hl
        · cases l with
          | nil => rfl
          | cons c t => exact absurd ⟨_, hl, by simp⟩ hex
        · simpa using hl
    have := all_nl_of_lines_empty s hall
    rw [List.any_eq_true] at ha
    obtain ⟨c, hc, hne⟩ := ha
    have := List.all_eq_true.mp this c hc
    simp_all


theorem skipFill_dropBlank (rest : List Line) : skipFill (rest.dropWhile blankL) = skipFill rest := by
  induction rest with
  | nil => rfl
  | cons a r ih =>
    by_cases ha : a.txt.isEmpty = true
    · simp only [List.dropWhile_cons, blankL, ha, if_true, skipFill, Line.isFiller, Bool.true_or]
      exact ih
    · simp [List.dropWhile_cons, blankL, ha]

/-- The side conditions of `readBs` for a rendered block scalar (either style), from `strOk`. -/
theorem bs_side (root : Bool) (s : Str) (ch : Chomp) (ind : Nat) (ex : Bool) (e pn : Nat)
    (hpn : pn = if root then 0 else e + 1) (he : root = true → e = 0)
    (hind : (if root then 2 else 1) ≤ ind) (hlines : (splitNl s).all bsLineOk = true) (hch : chompOk ch s = true)
    (hex : (ex || !needsExplicit s) = true) (hroot : (!root || (!ex && s.any (· != '\n'))) = true) :
    e < pn + ind - 1 ∧
    ((∃ d, (if ex then some ind else none) = some d ∧ pn + d - 1 = pn + ind - 1) ∨
      ((if ex then some ind else none) = none ∧ pn ≤ pn + ind - 1 ∧ (e < pn ∨ ∃ l ∈ splitNl (bsBase ch s), l ≠ []) ∧
        ∀ l, (splitNl (bsBase ch s)).find? (fun l => !l.isEmpty) = some l → l.head? ≠ some ' ')) := by
  cases root with
  | true =>
    have he0 := he rfl
    simp only [if_true] at hpn hind
    simp only [Bool.not_true, Bool.false_or, Bool.and_eq_true, Bool.not_eq_true'] at hroot
    obtain ⟨hexf, hany⟩ := hroot
    subst hexf
    refine ⟨by omega, Or.inr ⟨rfl, by omega, Or.inr (any_base ch s hch hany), ?_⟩⟩
    intro l hl
    rw [find_base ch s hch] at hl
    have : needsExplicit s = false := by simpa using hex
    simp only [needsExplicit, hl] at this
    simpa using this
  | false =>
    simp only [Bool.false_eq_true, if_false] at hpn hind
    refine ⟨by omega, ?_⟩
    cases ex with
    | true => exact Or.inl ⟨ind, rfl, rfl⟩
    | false =>
      refine Or.inr ⟨rfl, by omega, Or.inl (by omega), ?_⟩
      intro l hl
      rw [find_base ch s hch] at hl
      have : needsExplicit s = false := by simpa using hex
      simp only [needsExplicit, hl] at this
      simpa using this

theorem body_lines_ok (ch : Chomp) (s : Str) (hlines : (splitNl s).all bsLineOk = true) (hch : chompOk ch s = true) :
    ∀ l ∈ splitNl (bsBase ch s), bodyOk l := by
  intro l hl
  apply bodyOk_of_bsLineOk
  rw [List.all_eq_true] at hlines
  apply hlines
  rcases splitNl_base ch s hch with e | e
  · rw [e]; exact hl
  · rw [e]; exact List.mem_append_left _ hl

/-- A literal block scalar after its indicator. -/
theorem after_literal (f g col pn e : Nat) (cOk sSame : Bool) (root : Bool) (s : Str) (ch : Chomp) (ind : Nat) (ex : Bool)
    (hpn : pn = if root then 0 else e + 1) (he : root = true → e = 0)
    (h : strOk false root s (.literal ch ind ex) = true) (rest : List Line) (ht : Tail e (ch == .keep) rest) :
    parseAfter (f + 1) (spaces (g + 1) ++ '|' :: ((if ex then natDigits 10 ind else []) ++ chompChar ch)) col pn cOk sSame
        (bsLines (pn + ind - 1) (blockBodyLines false [] ch s) ++ rest)
      = .ok (.scalar false s, rest.dropWhile blankL) := by
  simp only [strOk, Bool.not_false, Bool.true_and, Bool.and_eq_true, decide_eq_true_eq] at h
  obtain ⟨⟨⟨⟨⟨hind, h9⟩, hlines⟩, hch⟩, hex⟩, hroot⟩ := h
  have h1 : 1 ≤ ind := by cases root <;> simp at hind <;> omega
  have hpa := parseAfter_bs f g col pn cOk sSame false ch ind ex h1 h9
    (bsLines (pn + ind - 1) (blockBodyLines false [] ch s) ++ rest)
  simp only [Bool.false_eq_true, if_false] at hpa
  rw [hpa]
  obtain ⟨hlt, hside⟩ := bs_side root s ch ind ex e pn hpn he hind hlines hch hex hroot
  have hbody : blockBodyLines false [] ch s = splitNl (bsBase ch s) := blockBodyLines_literal [] ch s
  rw [hbody]
  obtain ⟨j, hr, hj⟩ := readBs ⟨false, ch, if ex then some ind else none⟩ pn e (pn + ind - 1) (splitNl (bsBase ch s)) rest
    (body_lines_ok ch s hlines hch) ht hlt hside
  rw [hr]
  simp only [Bool.false_eq_true, if_false, Except.map]
  rw [literalText_append_empties ch _ j hj, ← hbody, literal_roundtrip [] ch s hch]


theorem hdr_okc (c0 : Char) (h0 : okc c0 = true) (ex : Bool) (ind : Nat) (ch : Chomp) (h9 : ind ≤ 9) :
    (c0 :: ((if ex then natDigits 10 ind else []) ++ chompChar ch)).all okc = true := by
  simp only [List.all_cons, h0, Bool.true_and]
  cases ex with
  | false => cases ch <;> simp [chompChar, okc]
  | true =>
    have : ind = 0 ∨ ind = 1 ∨ ind = 2 ∨ ind = 3 ∨ ind = 4 ∨ ind = 5 ∨ ind = 6 ∨ ind = 7 ∨ ind = 8 ∨ ind = 9 := by omega
    rcases this with rfl | rfl | rfl | rfl | rfl | rfl | rfl | rfl | rfl | rfl <;> cases ch <;> decide

theorem dropWhile_space_head (l : Str) : (l.dropWhile (· == ' ')).head? ≠ some ' ' := by
  induction l with
  | nil => simp
  | cons c t ih =>
    by_cases hc : c = ' '
    · subst hc; simpa [List.dropWhile_cons] using ih
    · simp [List.dropWhile_cons, hc]

theorem all_dropWhile {p q : Char → Bool} (l : Str) (h : l.all p = true) : (l.dropWhile q).all p = true := by
  rw [List.all_eq_true] at h ⊢
  intro c hc
  exact h c ((List.dropWhile_sublist q).subset hc)

/-- Rendered body lines are in the form `mkLine` produces and contain no line break. -/
theorem bsLines_canon (ci : Nat) (body : List Str) (hp : ∀ l ∈ body, l.all isPrintable = true) :
    ∀ L ∈ bsLines ci body, L.txt.head? ≠ some ' ' ∧ L.txt.all okc = true := by
  intro L hL
  obtain ⟨l, hl, rfl⟩ := List.mem_map.mp hL
  refine ⟨dropWhile_space_head _, ?_⟩
  apply all_dropWhile
  simp only [indentLine]
  split
  · rfl
  · rw [List.all_append]
    have h1 : (spaces ci).all okc = true := by
      simp only [spaces, List.all_eq_true]
      intro c hc
      rw [List.eq_of_mem_replicate hc]; decide
    have h2 : l.all okc = true := by
      rw [List.all_eq_true]
      intro c hc
      exact okc_printable c (List.all_eq_true.mp (hp l hl) c hc)
    simp [h1, h2]

/-- Rendered body lines (content indentation at least 1) are not document markers. -/
theorem bsLines_notMark (ci : Nat) (hci : 1 ≤ ci) (body : List Str) (hb : ∀ l ∈ body, bodyOk l) :
    ∀ L ∈ bsLines ci body, isDocStart L = false ∧ isDocEnd L = false := by
  intro L hL
  rcases bsLines_mem ci body hb L hL with ⟨h1, _⟩ | ⟨_, h2⟩
  · constructor <;> simp [isDocStart, isDocEnd, isMarker, h1, List.isPrefixOf]
  · have : ¬ (L.ind = 0) := by omega
    constructor <;> simp [isDocStart, isDocEnd, isMarker, this]

theorem body_lines_printable (ch : Chomp) (s : Str) (hlines : (splitNl s).all bsLineOk = true) (hch : chompOk ch s = true) :
    ∀ l ∈ splitNl (bsBase ch s), l.all isPrintable = true := by
  intro l hl
  rw [List.all_eq_true] at hlines
  have hm : l ∈ splitNl s := by
    rcases splitNl_base ch s hch with e | e
    · rw [e]; exact hl
    · rw [e]; exact List.mem_append_left _ hl
  have := hlines l hm
  simp only [bsLineOk, Bool.and_eq_true] at this
  exact this.1


theorem Tail_mono (e n : Nat) (k : Bool) (rest : List Line) (h : e ≤ n) (ht : Tail e k rest) : Tail n k rest :=
  ⟨fun l r hl => Nat.le_trans (ht.1 l r hl) h, ht.2.1, ht.2.2⟩

theorem Tail_weaken (e : Nat) (k : Bool) (rest : List Line) (ht : Tail e k rest) : Tail e false rest :=
  ⟨ht.1, ht.2.1, fun h => by cases h⟩

theorem Tail_nil (e : Nat) (k : Bool) : Tail e k [] :=
  ⟨fun l r h => by simp at h, fun l h => by simp at h, fun _ l r h => by cases h⟩

/-- A first line with content that is not deeper than `e` bounds whatever precedes it. -/
theorem Tail_of_head (e : Nat) (k : Bool) (L : Line) (more : List Line) (hne : L.txt.isEmpty = false) (hle : L.ind ≤ e) :
    Tail e k (L :: more) := by
  refine ⟨?_, ?_, ?_⟩
  · intro l r h
    simp only [List.dropWhile_cons, blankL, hne, Bool.false_eq_true, if_false, List.cons.injEq] at h
    rw [← h.1]; exact hle
  · intro l h
    simp [List.takeWhile_cons, blankL, hne] at h
  · intro _ l r h
    rw [← (List.cons.inj h).1]; exact hne

end SV.YamlRef
