/-
Proof/YamlBlockScalar — layer 3 of `render_load` (C14): literal and folded block scalars.
-/
import SuccinctlyVerif.Proof.YamlRefBlock
namespace SV.YamlRef

/-! ## Layer 3: block scalars — text lemmas -/

/-- `splitNl` of a text without line feed is the text as a single line. -/
theorem splitNl_noNl (a : Str) (h : a.all (· != '\n') = true) : splitNl a = [a] := by
  induction a with
  | nil => rfl
  | cons c t ih =>
    simp only [List.all_cons, Bool.and_eq_true, bne_iff_ne] at h
    simp [splitNl, ih h.2, h.1]

theorem splitNl_cons_nl (b : Str) : splitNl ('\n' :: b) = [] :: splitNl b := by
  simp only [splitNl]
  cases hs : splitNl b with
  | nil => exact absurd hs (splitNl_ne_nil b)
  | cons l ls => simp

theorem splitNl_cons_other (c : Char) (b : Str) (h : c ≠ '\n') :
    ∃ l ls, splitNl b = l :: ls ∧ splitNl (c :: b) = (c :: l) :: ls := by
  cases hs : splitNl b with
  | nil => exact absurd hs (splitNl_ne_nil b)
  | cons l ls => exact ⟨l, ls, rfl, by simp [splitNl, hs, h]⟩

/-- Joining the lines again gives the text back. -/
theorem intercalate_splitNl (s : Str) : ['\n'].intercalate (splitNl s) = s := by
  induction s with
  | nil => simp [splitNl, List.intercalate]
  | cons c t ih =>
    by_cases h : c = '\n'
    · subst h
      rw [splitNl_cons_nl]
      cases hs : splitNl t with
      | nil => exact absurd hs (splitNl_ne_nil t)
      | cons l ls =>
        rw [hs] at ih
        simp only [List.intercalate, List.intersperse_cons_cons, List.flatten_cons, List.nil_append] at ih ⊢
        simp [ih]
    · obtain ⟨l, ls, hs, hc⟩ := splitNl_cons_other c t h
      rw [hc]
      rw [hs] at ih
      cases ls with
      | nil =>
        simp only [List.intercalate, List.intersperse_singleton, List.flatten_cons, List.flatten_nil, List.append_nil] at ih ⊢
        rw [ih]
      | cons l2 ls2 =>
        simp only [List.intercalate, List.intersperse_cons_cons, List.flatten_cons, List.cons_append] at ih ⊢
        rw [ih]


theorem splitNl_snoc_nl (a : Str) : splitNl (a ++ ['\n']) = splitNl a ++ [[]] := by
  induction a with
  | nil => simp [splitNl]
  | cons c t ih =>
    by_cases h : c = '\n'
    · subst h
      simp only [List.cons_append, splitNl_cons_nl, ih, List.cons_append]
    · obtain ⟨l, ls, hs, hc⟩ := splitNl_cons_other c t h
      obtain ⟨l', ls', hs', hc'⟩ := splitNl_cons_other c (t ++ ['\n']) h
      rw [ih, hs] at hs'
      simp only [List.cons_append, List.cons.injEq] at hs'
      simp only [List.cons_append, hc', hc, ← hs'.1, ← hs'.2]

theorem splitNl_append_newlines (z : Str) (k : Nat) : splitNl (z ++ newlines k) = splitNl z ++ List.replicate k [] := by
  induction k with
  | zero => simp [newlines]
  | succ k ih =>
    have : z ++ newlines (k + 1) = (z ++ newlines k) ++ ['\n'] := by
      simp [newlines, List.replicate_succ', List.append_assoc]
    rw [this, splitNl_snoc_nl, ih, List.replicate_succ', List.append_assoc]

/-- The last line of a non-empty text that does not end in a line feed is non-empty. -/
theorem splitNl_last_nonempty (z : Str) (hne : z ≠ []) (hl : z.getLast? ≠ some '\n') :
    ∃ L l, splitNl z = L ++ [l] ∧ l ≠ [] := by
  induction z with
  | nil => exact absurd rfl hne
  | cons c t ih =>
    cases t with
    | nil =>
      have hc : c ≠ '\n' := by intro e; subst e; exact hl rfl
      exact ⟨[], [c], by simp [splitNl, hc], by simp⟩
    | cons d t' =>
      have hl' : (d :: t').getLast? ≠ some '\n' := by simpa [List.getLast?_cons_cons] using hl
      obtain ⟨L, l, hs, hln⟩ := ih (by simp) hl'
      by_cases h : c = '\n'
      · subst h
        exact ⟨[] :: L, l, by rw [splitNl_cons_nl, hs]; simp, hln⟩
      · obtain ⟨l0, ls0, hs0, hc0⟩ := splitNl_cons_other c (d :: t') h
        rw [hs] at hs0
        cases L with
        | nil =>
          simp only [List.nil_append, List.cons.injEq] at hs0
          exact ⟨[], c :: l0, by rw [hc0, ← hs0.2]; rfl, by simp⟩
        | cons x L' =>
          simp only [List.cons_append, List.cons.injEq] at hs0
          exact ⟨(c :: l0) :: L', l, by rw [hc0, ← hs0.2]; simp, hln⟩

def dropTrailingEmpty (ls : List Str) : List Str := (ls.reverse.dropWhile (·.isEmpty)).reverse

theorem dropTrailingEmpty_replicate (k : Nat) : dropTrailingEmpty (List.replicate k ([] : Str)) = [] := by
  simp only [dropTrailingEmpty, List.reverse_replicate]
  induction k with
  | zero => rfl
  | succ k ih => simp [List.replicate_succ, List.dropWhile_cons, ih]

theorem dropTrailingEmpty_snoc (L : List Str) (l : Str) (hl : l ≠ []) (k : Nat) :
    dropTrailingEmpty (L ++ [l] ++ List.replicate k []) = L ++ [l] := by
  simp only [dropTrailingEmpty, List.reverse_append, List.reverse_replicate, List.reverse_cons, List.reverse_nil,
    List.nil_append, List.singleton_append]
  have : ∀ k (R : List Str), List.dropWhile (·.isEmpty) (List.replicate k ([] : Str) ++ l :: R) = l :: R := by
    intro k R
    induction k with
    | zero =>
      have : l.isEmpty = false := by cases l <;> simp_all
      simp [List.dropWhile_cons, this]
    | succ k ih => simp [List.replicate_succ, List.dropWhile_cons, ih]
  rw [this]
  simp

theorem literalText_eq (ch : Chomp) (ls : List Str) :
    literalText ch ls = ['\n'].intercalate (dropTrailingEmpty ls)
      ++ chompText ch (!(dropTrailingEmpty ls).isEmpty) (ls.length - (dropTrailingEmpty ls).length) := rfl

/-- Literal style: the lines of `z ++ "\n"^k` (with `z` empty or not ending in a line feed) read back as
`z` plus the chomped line feeds. -/
theorem literalText_lines (ch : Chomp) (z : Str) (k : Nat) (hz : z = [] ∨ z.getLast? ≠ some '\n') :
    literalText ch (splitNl (z ++ newlines k)) = z ++ chompText ch (!z.isEmpty) (if z.isEmpty then k + 1 else k) := by
  rw [literalText_eq, splitNl_append_newlines]
  by_cases hne : z = []
  · subst hne
    have : splitNl [] ++ List.replicate k ([] : Str) = List.replicate (k + 1) [] := by
      simp [splitNl, List.replicate_succ]
    rw [this, dropTrailingEmpty_replicate]
    simp [List.intercalate]
  · have hl : z.getLast? ≠ some '\n' := by
      rcases hz with h | h
      · exact absurd h hne
      · exact h
    obtain ⟨L, l, hs, hln⟩ := splitNl_last_nonempty z hne hl
    rw [hs, dropTrailingEmpty_snoc L l hln k, ← hs, intercalate_splitNl]
    have hne' : z.isEmpty = false := by cases z <;> simp_all
    have hne2 : (splitNl z).isEmpty = false := by
      cases h : splitNl z with
      | nil => exact absurd h (splitNl_ne_nil z)
      | cons a b => rfl
    simp [hne', hne2]


theorem blockBodyLines_literal (f : List Nat) (ch : Chomp) (s : Str) :
    blockBodyLines false f ch s = splitNl (if ch == .strip then s else s.dropLast) := by
  simp [blockBodyLines]

theorem decomp_newlines_rev (r : Str) :
    ∃ z k, r.reverse = z ++ newlines k ∧ (z = [] ∨ z.getLast? ≠ some '\n') := by
  induction r with
  | nil => exact ⟨[], 0, rfl, Or.inl rfl⟩
  | cons c t ih =>
    by_cases hc : c = '\n'
    · subst hc
      obtain ⟨z, k, ht, hz⟩ := ih
      refine ⟨z, k + 1, ?_, hz⟩
      rw [List.reverse_cons, ht]; simp [newlines, List.replicate_succ', List.append_assoc]
    · exact ⟨t.reverse ++ [c], 0, by simp [newlines], Or.inr (by simp [hc])⟩

/-- Every text is some `z` (empty or not ending in a line feed) followed by `k` line feeds. -/
theorem decomp_newlines (y : Str) :
    ∃ z k, y = z ++ newlines k ∧ (z = [] ∨ z.getLast? ≠ some '\n') := by
  have := decomp_newlines_rev y.reverse
  simpa using this

theorem dropLast_append_getLast (s : Str) (c : Char) (h : s.getLast? = some c) :
    s = s.dropLast ++ [c] := by
  have h1 : s ≠ [] := by intro e; subst e; simp at h
  have h2 := List.dropLast_concat_getLast h1
  rw [List.getLast?_eq_some_getLast h1] at h
  have : s.getLast h1 = c := by simpa using h
  rw [this] at h2; exact h2.symm

/-- Literal block scalars: the body lines read back as the string. -/
theorem literal_roundtrip (f : List Nat) (ch : Chomp) (s : Str) (h : chompOk ch s = true) :
    literalText ch (blockBodyLines false f ch s) = s := by
  rw [blockBodyLines_literal]
  cases ch with
  | strip =>
    simp only [chompOk, bne_iff_ne, ne_eq] at h
    simp only [beq_self_eq_true, if_true]
    have := literalText_lines .strip s 0 (Or.inr h)
    simpa [newlines, chompText] using this
  | clip =>
    simp only [chompOk, Bool.and_eq_true, beq_iff_eq, bne_iff_ne, ne_eq, decide_eq_true_eq] at h
    obtain ⟨⟨h1, h2⟩, h3⟩ := h
    have hs := dropLast_append_getLast s '\n' h1
    have hne : s.dropLast ≠ [] := by
      intro e; rw [e] at hs; rw [hs] at h3; simp at h3
    simp only [show (Chomp.clip == Chomp.strip) = false by rfl, Bool.false_eq_true, if_false]
    have := literalText_lines .clip s.dropLast 0 (Or.inr h2)
    have hie : s.dropLast.isEmpty = false := by
      cases hd : s.dropLast with
      | nil => exact absurd hd hne
      | cons _ _ => rfl
    simp only [newlines, List.replicate_zero, List.append_nil, hie, Bool.not_false, chompText, if_true] at this
    rw [this]; exact hs.symm
  | keep =>
    simp only [chompOk, beq_iff_eq] at h
    have hs := dropLast_append_getLast s '\n' h
    simp only [show (Chomp.keep == Chomp.strip) = false by rfl, Bool.false_eq_true, if_false]
    obtain ⟨z, k, hy, hz⟩ := decomp_newlines s.dropLast
    rw [hy, literalText_lines .keep z k hz]
    rw [hs, hy]
    by_cases hze : z = []
    · subst hze; simp [chompText, newlines, List.replicate_succ']
    · have : z.isEmpty = false := by
        cases z with
        | nil => exact absurd rfl hze
        | cons _ _ => rfl
      simp [this, chompText, newlines, List.replicate_succ', List.append_assoc]


end SV.YamlRef
