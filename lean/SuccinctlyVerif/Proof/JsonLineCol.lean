import SuccinctlyVerif.Model.JsonValidate
namespace SV.Json.Model.LC
open SV.Json SV.Json.Model

/-! ## `lcOf` over runs of non-terminator bytes -/

theorem lcOf_append (p v : Bytes) : lcOf (p ++ v) = v.foldl LC.step (lcOf p) := by
  simp [lcOf, List.foldl_append]

theorem step_noterm (x : LC) (c : Byte) (h1 : c ≠ 0x0A) (h2 : c ≠ 0x0D) :
    x.step c = ⟨x.line, x.column + 1, false⟩ := by
  unfold LC.step; rw [if_neg h1, if_neg h2]

theorem foldl_noterm (v : Bytes) : ∀ (x : LC), (∀ c ∈ v, c ≠ 0x0A ∧ c ≠ 0x0D) →
    v.foldl LC.step x = ⟨x.line, x.column + v.length, if v = [] then x.cr else false⟩ := by
  induction v with
  | nil => intro x _; simp
  | cons c v ih =>
    intro x h
    have hc := h c (by simp)
    rw [List.foldl_cons, step_noterm x c hc.1 hc.2, ih _ (fun d hd => h d (by simp [hd]))]
    simp only [List.length_cons, reduceCtorEq, if_false]
    congr 1
    · omega
    · split <;> rfl

/-! ## The invariant -/

def Inv (b : Bytes) (s : St) : Prop :=
  ∃ p cr, b = p ++ s.rest ∧ p.length = s.offset ∧ lcOf p = ⟨s.line, s.column, cr⟩ ∧
    (cr = true → s.rest.head? ≠ some 0x0A)

def ErrOk (b : Bytes) (e : Err) : Prop :=
  (e.line, e.column) = lineCol b e.offset ∧ e.offset ≤ b.length

def ResInv {α : Type} (b : Bytes) : Res α → Prop
  | .ok _ s => Inv b s
  | .err e => ErrOk b e
  | .fuel => True

theorem Inv.consume {b : Bytes} {s : St} (h : Inv b s) (v r : Bytes) (hr : s.rest = v ++ r)
    (hv : ∀ c ∈ v, c ≠ 0x0A ∧ c ≠ 0x0D) :
    Inv b { s with rest := r, offset := s.offset + v.length, column := s.column + v.length } := by
  obtain ⟨p, cr, hb, hl, hlc, hcr⟩ := h
  refine ⟨p ++ v, if v = [] then cr else false, ?_, ?_, ?_, ?_⟩
  · simp [hb, hr]
  · simp [hl]
  · rw [lcOf_append, foldl_noterm v _ hv, hlc]
  · by_cases hve : v = []
    · subst hve
      simp only [if_true]
      simpa [hr] using hcr
    · simp [hve]

theorem Inv.error {b : Bytes} {s : St} (h : Inv b s) (k : Kind) : ErrOk b (s.error k) := by
  obtain ⟨p, cr, hb, hl, hlc, _⟩ := h
  simp only [ErrOk, St.error, lineCol]
  subst hb
  rw [← hl]
  simp [hlc]

theorem Inv.advance {b : Bytes} {s : St} (h : Inv b s) (c : Byte) (hp : s.peek = some c)
    (h1 : c ≠ 0x0A) (h2 : c ≠ 0x0D) : Inv b s.advance := by
  cases s with
  | mk rest o l col d =>
    cases rest with
    | nil => simp [St.peek] at hp
    | cons c' r =>
      simp only [St.peek, List.head?_cons, Option.some.injEq] at hp
      subst hp
      exact h.consume [c'] r rfl (by intro d hd; rw [List.mem_singleton] at hd; subst hd; exact ⟨h1, h2⟩)

theorem advance_eof {s : St} (hp : s.peek = none) : s.advance = s := by
  cases s with
  | mk rest o l col d =>
    cases rest with
    | nil => rfl
    | cons c' r => simp [St.peek] at hp

theorem Inv.depth {b : Bytes} {s : St} (h : Inv b s) (d : Nat) : Inv b { s with depth := d } := h

/-! ## `skip_whitespace` -/

theorem skipWsL_inv (b : Bytes) : ∀ (rest : Bytes) (afterCr : Bool) (o l c : Nat) (p : Bytes)
    (cr : Bool), b = p ++ rest → p.length = o → lcOf p = ⟨l, c, cr⟩ → (afterCr = true → cr = true) →
    (afterCr = false → cr = true → rest.head? ≠ some 0x0A) →
    ∃ p' cr', b = p' ++ (skipWsL rest afterCr o l c).1 ∧ p'.length = (skipWsL rest afterCr o l c).2.1 ∧
      lcOf p' = ⟨(skipWsL rest afterCr o l c).2.2.1, (skipWsL rest afterCr o l c).2.2.2, cr'⟩ ∧
      (cr' = true → (skipWsL rest afterCr o l c).1.head? ≠ some 0x0A) := by
  intro rest
  induction rest with
  | nil =>
    intro afterCr o l c p cr hb hl hlc _ _
    exact ⟨p, cr, by simpa [skipWsL] using hb, by simpa [skipWsL] using hl, by simpa [skipWsL] using hlc,
      by simp [skipWsL]⟩
  | cons x r ih =>
    intro afterCr o l c p cr hb hl hlc h1 h2
    have hb' : b = (p ++ [x]) ++ r := by simp [hb]
    have hl' : (p ++ [x]).length = o + 1 := by simp [hl]
    have hlc' : lcOf (p ++ [x]) = LC.step ⟨l, c, cr⟩ x := by rw [lcOf_append, hlc]; rfl
    unfold skipWsL
    split
    · -- CRLF
      rename_i hc
      have hcr : cr = true := h1 hc.1
      have hx : x = 0x0A := hc.2
      refine ih false (o + 1) l c (p ++ [x]) false hb' hl' ?_ (by simp) (by simp)
      rw [hlc', hcr, hx]; rfl
    · rename_i hc
      split
      · rename_i hsp
        refine ih false (o + 1) l (c + 1) (p ++ [x]) false hb' hl' ?_ (by simp) (by simp)
        rw [hlc']
        rcases hsp with hx | hx <;> (rw [hx]; rfl)
      · split
        · rename_i hx
          have hac : afterCr = false := by
            cases afterCr with
            | false => rfl
            | true => exact absurd ⟨rfl, hx⟩ hc
          have hcr : cr = false := by
            cases cr with
            | false => rfl
            | true => exact absurd (by rw [hx]; rfl) (h2 hac rfl)
          refine ih false (o + 1) (l + 1) 1 (p ++ [x]) false hb' hl' ?_ (by simp) (by simp)
          rw [hlc', hcr, hx]; rfl
        · rename_i hnl
          split
          · rename_i hx
            refine ih true (o + 1) (l + 1) 1 (p ++ [x]) true hb' hl' ?_ (by simp) (by simp)
            rw [hlc', hx]; rfl
          · refine ⟨p, cr, hb, hl, hlc, ?_⟩
            intro _
            simp only [List.head?_cons, ne_eq, Option.some.injEq]
            exact hnl

theorem Inv.skipWs {b : Bytes} {s : St} (h : Inv b s) : Inv b s.skipWs := by
  obtain ⟨p, cr, hb, hl, hlc, hcr⟩ := h
  exact skipWsL_inv b s.rest false s.offset s.line s.column p cr hb hl hlc (by simp) (fun _ => hcr)

/-! ## Byte facts -/

theorem isDigit_noterm {c : Byte} (h : isDigit c = true) : c ≠ 0x0A ∧ c ≠ 0x0D := by
  constructor <;> (intro hc; subst hc; exact absurd h (by decide))
theorem isDigit19_noterm {c : Byte} (h : isDigit19 c = true) : c ≠ 0x0A ∧ c ≠ 0x0D := by
  constructor <;> (intro hc; subst hc; exact absurd h (by decide))
theorem isLowerHex_noterm {c : Byte} (h : isLowerHex c = true) : c ≠ 0x0A ∧ c ≠ 0x0D := by
  constructor <;> (intro hc; subst hc; exact absurd h (by decide))
theorem isUpperHex_noterm {c : Byte} (h : isUpperHex c = true) : c ≠ 0x0A ∧ c ≠ 0x0D := by
  constructor <;> (intro hc; subst hc; exact absurd h (by decide))
theorem isLower_noterm {c : Byte} (h : isLower c = true) : c ≠ 0x0A ∧ c ≠ 0x0D := by
  constructor <;> (intro hc; subst hc; exact absurd h (by decide))
theorem isSimpleEsc_noterm {c : Byte} (h : isSimpleEsc c = true) : c ≠ 0x0A ∧ c ≠ 0x0D := by
  constructor <;> (intro hc; subst hc; exact absurd h (by decide))
theorem isE_noterm {c : Byte} (h : isE c = true) : c ≠ 0x0A ∧ c ≠ 0x0D := by
  constructor <;> (intro hc; subst hc; exact absurd h (by decide))
theorem ge20_noterm {c : Byte} (h : ¬ c < 0x20) : c ≠ 0x0A ∧ c ≠ 0x0D := by
  constructor <;> (intro hc; subst hc; exact absurd (by decide) h)
theorem ge80_noterm {c : Byte} (h : ¬ c < 0x80) : c ≠ 0x0A ∧ c ≠ 0x0D := by
  constructor <;> (intro hc; subst hc; exact absurd (by decide) h)
theorem cont_noterm {c : Byte} (h : c &&& 0xC0 = 0x80) : c ≠ 0x0A ∧ c ≠ 0x0D := by
  constructor <;> (intro hc; subst hc; exact absurd h (by decide))

/-! ## `skip_digits`, `advanceN` -/

theorem mem_takeWhile_imp' {α : Type} {p : α → Bool} : ∀ {l : List α} {a : α},
    a ∈ l.takeWhile p → p a = true := by
  intro l
  induction l with
  | nil => intro a h; simp at h
  | cons x l ih =>
    intro a h
    rw [List.takeWhile_cons] at h
    split at h
    · rename_i hx
      rcases List.mem_cons.mp h with h | h
      · subst h; exact hx
      · exact ih h
    · simp at h

theorem Inv.skipDigits {b : Bytes} {s : St} (h : Inv b s) : Inv b s.skipDigits.2 := by
  refine h.consume (s.rest.takeWhile isDigit) (s.rest.dropWhile isDigit)
    (List.takeWhile_append_dropWhile).symm ?_
  intro c hc
  exact isDigit_noterm (mem_takeWhile_imp' hc)

theorem Inv.advanceN {b : Bytes} : ∀ (v : Bytes) (s : St) (r : Bytes), Inv b s → s.rest = v ++ r →
    (∀ c ∈ v, c ≠ 0x0A ∧ c ≠ 0x0D) → Inv b (advanceN v.length s) := by
  intro v
  induction v with
  | nil => intro s r h _ _; exact h
  | cons x v ih =>
    intro s r h hr hv
    have hx := hv x (by simp)
    have hp : s.peek = some x := by simp [St.peek, hr]
    have hr' : s.advance.rest = v ++ r := by
      cases s with
      | mk rest o l col d =>
        simp only at hr
        subst hr
        rfl
    exact ih s.advance r (h.advance x hp hx.1 hx.2) hr' (fun c hc => hv c (by simp [hc]))

/-! ## `validate_utf8_char` -/

theorem ite2_some {A B : Prop} [Decidable A] [Decidable B] {k n : Nat}
    (h : (if A then none else if B then none else some k) = some n) : n = k := by
  split at h
  · simp at h
  · split at h
    · simp at h
    · cases h; rfl

theorem utf8Len_spec (rest : Bytes) (n : Nat) (h : utf8Len rest = some n)
    (h20 : ∀ c, rest.head? = some c → ¬ c < 0x20) :
    ∃ v r, rest = v ++ r ∧ v.length = n ∧ ∀ c ∈ v, c ≠ 0x0A ∧ c ≠ 0x0D := by
  unfold utf8Len at h
  split at h
  · simp at h
  · rename_i b t
    have hb20 := ge20_noterm (h20 b rfl)
    split at h
    · cases h
      exact ⟨[b], t, rfl, rfl, by intro c hc; rw [List.mem_singleton] at hc; subst hc; exact hb20⟩
    · rename_i hb80
      have hb := ge80_noterm hb80
      split at h
      · split at h
        · rename_i b1 t'
          split at h
          · simp at h
          · rename_i hc1
            have hc1' := cont_noterm (Decidable.not_not.mp hc1)
            have : n = 2 := ite2_some h
            subst this
            refine ⟨[b, b1], t', rfl, rfl, ?_⟩
            intro c hc
            simp only [List.mem_cons, List.not_mem_nil, or_false] at hc
            rcases hc with hc | hc <;> (subst hc; assumption)
        · simp at h
      · split at h
        · split at h
          · rename_i b1 b2 t'
            split at h
            · simp at h
            · rename_i hc
              have hc' := not_or.mp hc
              have hc1 := cont_noterm (Decidable.not_not.mp hc'.1)
              have hc2 := cont_noterm (Decidable.not_not.mp hc'.2)
              have : n = 3 := ite2_some h
              subst this
              refine ⟨[b, b1, b2], t', rfl, rfl, ?_⟩
              intro c hc
              simp only [List.mem_cons, List.not_mem_nil, or_false] at hc
              rcases hc with hc | hc | hc <;> (subst hc; assumption)
          · simp at h
        · split at h
          · split at h
            · rename_i b1 b2 b3 t'
              split at h
              · simp at h
              · rename_i hc
                have hc' := not_or.mp hc
                have hc'' := not_or.mp hc'.2
                have hc1 := cont_noterm (Decidable.not_not.mp hc'.1)
                have hc2 := cont_noterm (Decidable.not_not.mp hc''.1)
                have hc3 := cont_noterm (Decidable.not_not.mp hc''.2)
                have : n = 4 := ite2_some h
                subst this
                refine ⟨[b, b1, b2, b3], t', rfl, rfl, ?_⟩
                intro c hc
                simp only [List.mem_cons, List.not_mem_nil, or_false] at hc
                rcases hc with hc | hc | hc | hc <;> (subst hc; assumption)
            · simp at h
          · simp at h

theorem validateUtf8Char_inv {b : Bytes} {s : St} (h : Inv b s)
    (h20 : ∀ c, s.peek = some c → ¬ c < 0x20) : ResInv b (validateUtf8Char s) := by
  unfold validateUtf8Char
  split
  · exact h.error _
  · rename_i n hn
    obtain ⟨v, r, hr, hl, hv⟩ := utf8Len_spec s.rest n hn h20
    subst hl
    exact Inv.advanceN v s r h hr hv

/-! ## `validate_unicode_escape` -/

theorem hexDigits_inv {b : Bytes} : ∀ (k v : Nat) (s : St), Inv b s → ResInv b (hexDigits k v s) := by
  intro k
  induction k with
  | zero => intro v s h; exact h
  | succ k ih =>
    intro v s h
    unfold hexDigits
    split
    · exact h.error _
    · rename_i c hc
      split
      · rename_i hd
        exact ih _ _ (h.advance c hc (isDigit_noterm hd).1 (isDigit_noterm hd).2)
      · split
        · rename_i hd
          exact ih _ _ (h.advance c hc (isLowerHex_noterm hd).1 (isLowerHex_noterm hd).2)
        · split
          · rename_i hd
            exact ih _ _ (h.advance c hc (isUpperHex_noterm hd).1 (isUpperHex_noterm hd).2)
          · exact h.error _

/-! ## `validate_keyword` -/

theorem validateKeyword_inv {b : Bytes} {s : St} (h : Inv b s) : ResInv b (validateKeyword s) := by
  unfold validateKeyword
  simp only []
  split
  · refine h.consume (s.rest.takeWhile isLower) (s.rest.dropWhile isLower)
      (List.takeWhile_append_dropWhile).symm ?_
    intro c hc
    exact isLower_noterm (mem_takeWhile_imp' hc)
  · have := h.error .invalidUtf8
    simp only [ErrOk, St.error] at this
    simp only [ResInv, ErrOk]
    have hcol : s.column + (List.takeWhile isLower s.rest).length -
        (s.offset + (List.takeWhile isLower s.rest).length - s.offset) = s.column := by omega
    rw [hcol]
    exact this

/-! ## `validate_escape`, `validate_string` -/

theorem validateEscape_inv {b : Bytes} {s : St} (h : Inv b s) (hp : s.peek = some 0x5C) :
    ResInv b (validateEscape s) := by
  have h1 : Inv b s.advance := h.advance _ hp (by decide) (by decide)
  unfold validateEscape
  simp only []
  split
  · exact h1.error _
  · rename_i c hc
    split
    · rename_i hs
      exact h1.advance c hc (isSimpleEsc_noterm hs).1 (isSimpleEsc_noterm hs).2
    · split
      · rename_i hu
        have h2 : Inv b s.advance.advance :=
          h1.advance c hc (by rw [hu]; decide) (by rw [hu]; decide)
        have h3 := hexDigits_inv 4 0 _ h2
        unfold validateUnicodeEscape
        split
        · rename_i e he; rw [he] at h3; exact h3
        · trivial
        · rename_i high s' he
          rw [he] at h3
          split
          · split
            · exact Inv.error h3 _
            · rename_i hp1
              have h4 := Inv.advance h3 _ (Decidable.not_not.mp hp1) (by decide) (by decide)
              split
              · exact h4.error _
              · rename_i hp2
                have h5 := Inv.advance h4 _ (Decidable.not_not.mp hp2) (by decide) (by decide)
                have h6 := hexDigits_inv 4 0 _ h5
                split
                · rename_i e he2; rw [he2] at h6; exact h6
                · trivial
                · rename_i low s'' he2
                  rw [he2] at h6
                  split
                  · exact Inv.error h6 _
                  · exact h6
          · split
            · exact Inv.error h3 _
            · exact h3
      · exact h1.error _

theorem stringLoop_inv {b : Bytes} : ∀ (f : Nat) (s : St), Inv b s → ResInv b (stringLoop f s) := by
  intro f
  induction f with
  | zero => intro s _; trivial
  | succ f ih =>
    intro s h
    unfold stringLoop
    split
    · exact h.error _
    · rename_i c hc
      split
      · rename_i hq
        exact h.advance c hc (by rw [hq]; decide) (by rw [hq]; decide)
      · split
        · rename_i hbs
          have h1 := validateEscape_inv h (by rw [hc, hbs])
          split
          · rename_i s' he; rw [he] at h1; exact ih _ h1
          · exact h1
        · split
          · exact h.error _
          · rename_i h20
            have h1 := validateUtf8Char_inv h (by intro c' hc'; rw [hc] at hc'; cases hc'; exact h20)
            split
            · rename_i s' he; rw [he] at h1; exact ih _ h1
            · exact h1

theorem validateString_inv {b : Bytes} {s : St} (h : Inv b s) (hp : s.peek = some 0x22) :
    ResInv b (validateString s) :=
  stringLoop_inv _ _ (h.advance _ hp (by decide) (by decide))

/-! ## `validate_number` -/

def numInt (s : St) : Res Unit :=
  match s.peek with
  | some b =>
    if b = 0x30 then
      let s := s.advance
      match s.peek with
      | some d => if isDigit d then .err (s.error .leadingZero) else .ok () s
      | none => .ok () s
    else if isDigit19 b then .ok () s.advance.skipDigits.2
    else .err (s.error (.invalidNumber .minus))
  | none => .err (s.error (.invalidNumber .minus))

def numFrac (s : St) : Res Unit :=
  if s.peek = some 0x2E then
    let (n, s) := s.advance.skipDigits
    if n = 0 then .err (s.error (.invalidNumber .frac)) else .ok () s
  else .ok () s

def numExp (s : St) : Res Unit :=
  match s.peek with
  | some e =>
    if isE e then
      let s := s.advance
      let s := match s.peek with
        | some g => if g = 0x2B ∨ g = 0x2D then s.advance else s
        | none => s
      let (n, s) := s.skipDigits
      if n = 0 then .err (s.error (.invalidNumber .exp)) else .ok () s
    else .ok () s
  | none => .ok () s

theorem validateNumber_eq (s : St) : validateNumber s =
    match numInt (if s.peek = some 0x2D then s.advance else s) with
    | .err e => .err e
    | .fuel => .fuel
    | .ok _ s =>
      match numFrac s with
      | .err e => .err e
      | .fuel => .fuel
      | .ok _ s => numExp s := rfl

theorem ResInv_ite {α : Type} {b : Bytes} {P : Prop} [Decidable P] {x y : Res α}
    (hx : ResInv b x) (hy : ResInv b y) : ResInv b (if P then x else y) := by
  split <;> assumption

theorem numInt_inv {b : Bytes} {s : St} (h : Inv b s) : ResInv b (numInt s) := by
  unfold numInt
  split
  · rename_i c hc
    split
    · rename_i h0
      have h1 := h.advance c hc (by rw [h0]; decide) (by rw [h0]; decide)
      simp only []
      split
      · split
        · exact h1.error _
        · exact h1
      · exact h1
    · split
      · rename_i hd
        exact (h.advance c hc (isDigit19_noterm hd).1 (isDigit19_noterm hd).2).skipDigits
      · exact h.error _
  · exact h.error _

theorem numFrac_inv {b : Bytes} {s : St} (h : Inv b s) : ResInv b (numFrac s) := by
  unfold numFrac
  split
  · rename_i hp
    have h1 := (h.advance _ hp (by decide) (by decide)).skipDigits
    exact ResInv_ite (P := s.advance.skipDigits.1 = 0) (Inv.error h1 _) h1
  · exact h

theorem numExp_inv {b : Bytes} {s : St} (h : Inv b s) : ResInv b (numExp s) := by
  unfold numExp
  split
  · rename_i c hc
    split
    · rename_i he
      have h1 := h.advance c hc (isE_noterm he).1 (isE_noterm he).2
      have h2 : Inv b (match s.advance.peek with
          | some g => if g = 0x2B ∨ g = 0x2D then s.advance.advance else s.advance
          | none => s.advance) := by
        split
        · rename_i g hg
          split
          · rename_i hpm
            exact h1.advance g hg (by rcases hpm with hpm | hpm <;> (rw [hpm]; decide))
              (by rcases hpm with hpm | hpm <;> (rw [hpm]; decide))
          · exact h1
        · exact h1
      have h3 := h2.skipDigits
      exact ResInv_ite (P := (St.skipDigits _).1 = 0) (Inv.error h3 _) h3
    · exact h
  · exact h

theorem validateNumber_inv {b : Bytes} {s : St} (h : Inv b s) : ResInv b (validateNumber s) := by
  rw [validateNumber_eq]
  have h0 : Inv b (if s.peek = some 0x2D then s.advance else s) := by
    split
    · rename_i hp; exact h.advance _ hp (by decide) (by decide)
    · exact h
  have h1 := numInt_inv h0
  split
  · rename_i e he; rw [he] at h1; exact h1
  · trivial
  · rename_i s1 he
    rw [he] at h1
    have h2 := numFrac_inv h1
    split
    · rename_i e he2; rw [he2] at h2; exact h2
    · trivial
    · rename_i s2 he2
      rw [he2] at h2
      exact numExp_inv h2

/-! ## `validate_value` / array loop / object loop -/

theorem run_inv {b : Bytes} (maxDepth : Nat) : ∀ (f : Nat) (m : Mode) (s : St), Inv b s →
    ResInv b (run maxDepth f m s) := by
  intro f
  induction f with
  | zero => intro m s _; trivial
  | succ f ih =>
    intro m s h
    cases m with
    | value =>
      unfold run
      split
      · exact h.error _
      · rename_i c hc
        split
        · rename_i hcb
          split
          · exact h.error _
          · have h1 : Inv b ({ s with depth := s.depth + 1 }).advance.skipWs :=
              (Inv.advance (h.depth (s.depth + 1)) c hc (by rw [hcb]; decide) (by rw [hcb]; decide)).skipWs
            simp only []
            split
            · rename_i hp
              exact (h1.advance _ hp (by decide) (by decide)).depth _
            · have h2 := ih .objectLoop _ h1
              split
              · rename_i s2 he; rw [he] at h2; exact h2.depth _
              · exact h2
        · split
          · rename_i hcb
            split
            · exact h.error _
            · have h1 : Inv b ({ s with depth := s.depth + 1 }).advance.skipWs :=
                (Inv.advance (h.depth (s.depth + 1)) c hc (by rw [hcb]; decide) (by rw [hcb]; decide)).skipWs
              simp only []
              split
              · rename_i hp
                exact (h1.advance _ hp (by decide) (by decide)).depth _
              · have h2 := ih .arrayLoop _ h1
                split
                · rename_i s2 he; rw [he] at h2; exact h2.depth _
                · exact h2
          · split
            · rename_i hq
              exact validateString_inv h (by rw [hc, hq])
            · split
              · exact validateNumber_inv h
              · split
                · exact validateKeyword_inv h
                · split
                  · exact h.error _
                  · exact h.error _
    | arrayLoop =>
      unfold run
      have h1 := ih .value s h
      split
      · rename_i s1 he
        rw [he] at h1
        have h2 : Inv b s1.skipWs := Inv.skipWs h1
        simp only []
        split
        · exact h2.error _
        · rename_i c hc
          split
          · rename_i hcc
            have h3 : Inv b s1.skipWs.advance.skipWs :=
              (h2.advance c hc (by rw [hcc]; decide) (by rw [hcc]; decide)).skipWs
            split
            · exact h3.error _
            · exact ih .arrayLoop _ h3
          · split
            · rename_i hcc
              exact h2.advance c hc (by rw [hcc]; decide) (by rw [hcc]; decide)
            · exact h2.error _
      · exact h1
    | objectLoop =>
      unfold run
      split
      · exact h.error _
      · rename_i hq
        have h1 := validateString_inv h (Decidable.not_not.mp hq)
        split
        · rename_i s1 he
          rw [he] at h1
          have h2 : Inv b s1.skipWs := Inv.skipWs h1
          simp only []
          split
          · exact h2.error _
          · rename_i hcol
            have h3 : Inv b s1.skipWs.advance.skipWs :=
              (h2.advance _ (Decidable.not_not.mp hcol) (by decide) (by decide)).skipWs
            have h4 := ih .value _ h3
            split
            · rename_i s2 he2
              rw [he2] at h4
              have h5 : Inv b s2.skipWs := Inv.skipWs h4
              split
              · exact h5.error _
              · rename_i c hc
                split
                · rename_i hcc
                  have h6 : Inv b s2.skipWs.advance.skipWs :=
                    (h5.advance c hc (by rw [hcc]; decide) (by rw [hcc]; decide)).skipWs
                  split
                  · exact h6.error _
                  · exact ih .objectLoop _ h6
                · split
                  · rename_i hcc
                    exact h5.advance c hc (by rw [hcc]; decide) (by rw [hcc]; decide)
                  · exact h5.error _
            · exact h4
        · exact h1

/-! ## `validate` -/

theorem Inv.init (b : Bytes) : Inv b (St.init b) :=
  ⟨[], false, rfl, rfl, rfl, by simp⟩

theorem validate_inv (maxDepth : Nat) (b : Bytes) : ResInv b (validate maxDepth b) := by
  have h0 : Inv b (St.init b).skipWs := (Inv.init b).skipWs
  unfold validate
  simp only []
  split
  · exact h0.error _
  · have h1 := run_inv maxDepth (2 * b.length + 2) .value _ h0
    split
    · rename_i s1 he
      rw [he] at h1
      have h2 : Inv b s1.skipWs := Inv.skipWs h1
      exact ResInv_ite (h2.error _) h2
    · exact h1

/-- Every error reported by the validator carries the line/column of its offset (the module's
`lineCol` definition), and the offset lies inside the input. -/
theorem validate_error_linecol (maxDepth : Nat) (b : Bytes) (e : Err) :
    validate maxDepth b = .err e → (e.line, e.column) = lineCol b e.offset ∧ e.offset ≤ b.length := by
  intro h
  have := validate_inv maxDepth b
  rw [h] at this
  exact this

end SV.Json.Model.LC
