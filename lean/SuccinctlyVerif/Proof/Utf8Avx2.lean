/-
Proof/Utf8Avx2 — the AVX2 accept kernel: the `err` lane of `check_block` is non-zero exactly when
the Table 3-7 automaton dies on that byte, given that it was alive and that the window
`(prev1, prev2, prev3)` determines its state (`stOfC`, invariant `Good`).
-/
import Std.Tactic.BVDecide
import SuccinctlyVerif.Model.Utf8
import SuccinctlyVerif.Proof.Utf8
namespace SV.Utf8
open SV

/-- Automaton state (as a code) implied by the last three bytes of an error-free stream. -/
def stOfC (p1 p2 p3 : BitVec 8) : BitVec 4 :=
  if 0xC0#8 ≤ p1 then stepC 0 p1
  else if 0xE0#8 ≤ p2 then stepC (stepC 0 p2) p1
  else if 0xF0#8 ≤ p3 then stepC (stepC (stepC 0 p3) p2) p1
  else 0

/-- The window is consistent: the implied state is alive and a lead was preceded by a boundary. -/
def Good (p1 p2 p3 : BitVec 8) : Bool :=
  stOfC p1 p2 p3 != 8 &&
  (if 0xC0#8 ≤ p1 then p2 < 0xC0#8 && p3 < 0xE0#8
   else if 0xE0#8 ≤ p2 then p3 < 0xC0#8 else true)

theorem lane_iff (c p1 p2 p3 : BitVec 8) (h : Good p1 p2 p3 = true) :
    (checkBlockLane c p1 p2 p3 = 0x00#8) ↔ (stepC (stOfC p1 p2 p3) c ≠ 8) := by
  simp only [Byte, Good, stOfC, checkBlockLane, ult, uge, cmpeq, maxu, stepC, inR] at h ⊢
  bv_decide

theorem lane_good (c p1 p2 p3 : BitVec 8) (h : Good p1 p2 p3 = true)
    (hs : stepC (stOfC p1 p2 p3) c ≠ 8) : Good c p1 p2 = true := by
  simp only [Byte, Good, stOfC, stepC, inR] at h hs ⊢
  bv_decide

theorem lane_state (c p1 p2 p3 : BitVec 8) (h : Good p1 p2 p3 = true)
    (hs : stepC (stOfC p1 p2 p3) c ≠ 8) : stOfC c p1 p2 = stepC (stOfC p1 p2 p3) c := by
  simp only [Byte, Good, stOfC, stepC, inR] at h hs ⊢
  bv_decide

theorem avx2Go_eq (l : List Byte) : ∀ (p1 p2 p3 : Byte) (s : St),
    code s = stOfC p1 p2 p3 → Good p1 p2 p3 = true → avx2Go p1 p2 p3 l = (run s l != .dead) := by
  induction l with
  | nil =>
    intro p1 p2 p3 s hs hg
    have : s ≠ .dead := by
      intro h; subst h
      simp only [Good, ← hs, code_dead] at hg
      simp at hg
    simp [avx2Go, this]
  | cons c r ih =>
    intro p1 p2 p3 s hs hg
    simp only [avx2Go, run_cons]
    by_cases hd : step s c = .dead
    · have hl : ¬ checkBlockLane c p1 p2 p3 = 0x00#8 := by
        rw [lane_iff c p1 p2 p3 hg, ← hs, ← code_step, hd, code_dead]; simp
      simp [hd, hl]
    · have hne : stepC (stOfC p1 p2 p3) c ≠ 8 := by
        rw [← hs, ← code_step, ← code_dead]; exact fun h => hd (code_inj.2 h)
      have hl : checkBlockLane c p1 p2 p3 = 0x00#8 := (lane_iff c p1 p2 p3 hg).2 hne
      rw [ih c p1 p2 (step s c) (by rw [code_step, hs]; exact (lane_state c p1 p2 p3 hg hne).symm)
        (lane_good c p1 p2 p3 hg hne)]
      simp [hl]

theorem avx2Accepts_iff (b : List Byte) : avx2Accepts b = true ↔ WellFormed b := by
  unfold avx2Accepts
  cases b with
  | nil => simp [WellFormed]
  | cons x xs =>
    simp only [List.isEmpty_cons, Bool.false_eq_true, if_false]
    have hk : 32 - (x :: xs).length % 32 = (31 - (x :: xs).length % 32) + 1 := by
      have := Nat.mod_lt (x :: xs).length (by decide : 32 > 0); omega
    rw [hk, avx2Go_eq _ 0#8 0#8 0#8 .start (by decide) (by decide), run_append, run_zeros]
    simp only [WellFormed]
    generalize run .start (x :: xs) = s
    cases s <;> simp

end SV.Utf8
