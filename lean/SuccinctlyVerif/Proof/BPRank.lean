/-
Proof/BPRank — the rank directory of `build_bp_index` (absolute `u32` block ranks, 7 × 9-bit packed
in-block offsets) is exact, and `rank1` over it equals the linear count (C04).
-/
import SuccinctlyVerif.Proof.BP
namespace SV.BPR
open SV SV.BP SV.BPM SV.BPP

/-! ### base-512 packing -/

/-- Little-endian base-512 digits. -/
def packOffsets : List Nat → Nat
  | [] => 0
  | o :: os => o + 512 * packOffsets os

theorem and_1FF (x : Nat) : x &&& 0x1FF = x % 512 := by
  have := Nat.and_two_pow_sub_one_eq_mod x 9
  simpa using this

theorem packOffsets_extract (offs : List Nat) (h : ∀ o ∈ offs, o < 512) (t : Nat) :
    (packOffsets offs >>> (t * 9)) &&& 0x1FF = offs.getD t 0 := by
  induction offs generalizing t with
  | nil => simp [packOffsets]
  | cons o os ih =>
    have ho : o < 512 := h o (by simp)
    have hos : ∀ x ∈ os, x < 512 := fun x hx => h x (by simp [hx])
    cases t with
    | zero =>
      simp only [Nat.zero_mul, Nat.shiftRight_zero, packOffsets, and_1FF, List.getD_cons_zero]
      omega
    | succ t =>
      have e : (t + 1) * 9 = 9 + t * 9 := by omega
      rw [e, Nat.shiftRight_add]
      have : (packOffsets (o :: os)) >>> 9 = packOffsets os := by
        rw [Nat.shiftRight_eq_div_pow]
        simp only [packOffsets]; omega
      rw [this, ih hos t]
      simp

theorem packOffsets_append (l : List Nat) (o : Nat) :
    packOffsets (l ++ [o]) = packOffsets l + o * 512 ^ l.length := by
  induction l with
  | nil => simp [packOffsets]
  | cons x xs ih =>
    simp only [List.cons_append, packOffsets, ih, List.length_cons, Nat.pow_succ]
    rw [Nat.mul_add]
    have : 512 * (o * 512 ^ xs.length) = o * (512 ^ xs.length * 512) := by
      rw [Nat.mul_comm 512, Nat.mul_assoc]
    omega

theorem packOffsets_lt (l : List Nat) (h : ∀ o ∈ l, o < 512) : packOffsets l < 512 ^ l.length := by
  induction l with
  | nil => simp [packOffsets]
  | cons x xs ih =>
    have hx : x < 512 := h x (by simp)
    have := ih (fun o ho => h o (by simp [ho]))
    simp only [packOffsets, List.length_cons, Nat.pow_succ]
    omega

/-- `packed |= (cum as u64) << ((i-1)*9)` appends one base-512 digit. -/
theorem pack_step (offs : List Nat) (c : Nat) (h : ∀ o ∈ offs, o < 512) (hc : c < 512)
    (hl : offs.length ≤ 6) :
    packOffsets offs ||| ((c <<< (offs.length * 9)) % 2 ^ 64) = packOffsets (offs ++ [c]) := by
  have hp : (2 : Nat) ^ (offs.length * 9) = 512 ^ offs.length := by
    rw [Nat.mul_comm, Nat.pow_mul]
  have hlt := packOffsets_lt offs h
  have hle : (2 : Nat) ^ (offs.length * 9) ≤ 2 ^ 54 := Nat.pow_le_pow_right (by omega) (by omega)
  have hb : c <<< (offs.length * 9) < 2 ^ 64 := by
    rw [Nat.shiftLeft_eq]
    calc c * 2 ^ (offs.length * 9) ≤ c * 2 ^ 54 := Nat.mul_le_mul_left _ hle
      _ < 2 ^ 64 := by omega
  rw [Nat.mod_eq_of_lt hb, Nat.or_comm, ← Nat.shiftLeft_add_eq_or_of_lt (by rw [hp]; exact hlt),
    packOffsets_append, Nat.shiftLeft_eq, hp]
  omega

/-! ### one rank block -/

/-- Ones counted for word `i` by the directory loop. -/
def cw (st : List (BitVec 64)) (len i : Nat) : Nat := popc (countedWord st len i)

theorem popc_le (w : BitVec 64) : popc w ≤ 64 := by
  rw [Kernels.popc_eq_popcount]; exact Kernels.popcount_le w

theorem cw_le (st : List (BitVec 64)) (len i : Nat) : cw st len i ≤ 64 := popc_le _

/-- Sum of the counted ones of the words listed in `l`. -/
def sumL (st : List (BitVec 64)) (len : Nat) (l : List Nat) : Nat := (l.map (cw st len)).sum

theorem sumL_le (st : List (BitVec 64)) (len : Nat) (l : List Nat) : sumL st len l ≤ 64 * l.length := by
  induction l with
  | nil => simp [sumL]
  | cons x xs ih =>
    have := cw_le st len x
    simp only [sumL, List.map_cons, List.sum_cons, List.length_cons] at *
    omega

/-- Offsets appended by the remaining iterations of the inner loop. -/
def blockOffs (st : List (BitVec 64)) (len : Nat) : List Nat → Nat → Nat → List Nat
  | [], _, _ => []
  | wi :: rest, i, cum => (if 0 < i then [cum] else []) ++ blockOffs st len rest (i + 1) (cum + cw st len wi)

theorem blockOffs_length (st : List (BitVec 64)) (len : Nat) (rest : List Nat) (i cum : Nat) :
    (blockOffs st len rest i cum).length = if 0 < i then rest.length else rest.length - 1 := by
  induction rest generalizing i cum with
  | nil => simp [blockOffs]
  | cons w r ih =>
    simp only [blockOffs, List.length_append, ih]
    by_cases h : 0 < i <;> simp [h]
    omega

theorem blockOffs_bound (st : List (BitVec 64)) (len : Nat) (rest : List Nat) (i cum : Nat) :
    ∀ o ∈ blockOffs st len rest i cum, o ≤ cum + 64 * rest.length := by
  induction rest generalizing i cum with
  | nil => simp [blockOffs]
  | cons w r ih =>
    intro o ho
    simp only [blockOffs, List.mem_append] at ho
    have hc := cw_le st len w
    rcases ho with ho | ho
    · by_cases h : 0 < i
      · simp [h] at ho; simp; omega
      · simp [h] at ho
    · have := ih (i + 1) (cum + cw st len w) o ho
      simp only [List.length_cons]; omega

theorem blockOffs_getD (st : List (BitVec 64)) (len : Nat) (rest : List Nat) (i cum t : Nat)
    (hi : 0 < i) (ht : t < rest.length) :
    (blockOffs st len rest i cum).getD t 0 = cum + sumL st len (rest.take t) := by
  induction rest generalizing i cum t with
  | nil => simp at ht
  | cons w r ih =>
    simp only [blockOffs, hi, if_true]
    cases t with
    | zero => simp [sumL]
    | succ t =>
      simp only [List.length_cons] at ht
      simp only [List.singleton_append, List.getD_cons_succ, List.take_succ_cons]
      rw [ih (i + 1) (cum + cw st len w) t (by omega) (by omega)]
      simp only [sumL, List.map_cons, List.sum_cons]
      omega

/-- The inner loop: packs the in-block prefix counts and returns the block's count. -/
theorem rankBlock_spec (st : List (BitVec 64)) (len : Nat) (rest : List Nat) (i cum : Nat) (offs : List Nat)
    (hlen : offs.length = i - 1) (hoffs : ∀ o ∈ offs, o < 512) (hcum : cum ≤ 64 * i)
    (hi8 : i + rest.length ≤ 8) :
    rankBlock st len rest i (packOffsets offs) cum =
      (packOffsets (offs ++ blockOffs st len rest i cum), cum + sumL st len rest) := by
  induction rest generalizing i cum offs with
  | nil => simp [rankBlock, blockOffs, sumL]
  | cons w r ih =>
    simp only [List.length_cons] at hi8
    have hc := cw_le st len w
    have hmod : (cum + popc (countedWord st len w)) % 65536 = cum + cw st len w := by
      unfold cw at *; omega
    simp only [rankBlock, hmod]
    by_cases h0 : 0 < i
    · have hi : i < 8 := by omega
      have hshift : (i - 1) * 9 = offs.length * 9 := by rw [hlen]
      simp only [h0, hi, and_self, if_true, hshift]
      rw [pack_step offs cum hoffs (by omega) (by omega)]
      rw [ih (i + 1) (cum + cw st len w) (offs ++ [cum]) (by simp; omega)
        (by intro o ho; simp at ho; rcases ho with ho | ho; exact hoffs o ho; omega) (by omega) (by omega)]
      simp only [blockOffs, h0, if_true, sumL, List.map_cons, List.sum_cons, List.append_assoc]
      congr 1; omega
    · have hi0 : i = 0 := by omega
      subst hi0
      have : offs = [] := List.eq_nil_of_length_eq_zero (by omega)
      subst this
      simp only [Nat.lt_irrefl, false_and, if_false]
      rw [ih 1 (cum + cw st len w) [] (by simp) (by simp) (by omega) (by omega)]
      simp only [blockOffs, Nat.lt_irrefl, if_false, sumL, List.map_cons, List.sum_cons, List.nil_append]
      congr 1; omega

/-! ### the outer loop -/

/-- Non-accumulating form of `rankLoop`. -/
def rankSpec (st : List (BitVec 64)) (len : Nat) : List (List Nat) → Nat → List Nat × List Nat × Nat
  | [], cum => ([], [], cum)
  | blk :: rest, cum =>
    let pb := rankBlock st len blk 0 0 0
    let r := rankSpec st len rest ((cum + pb.2) % 2 ^ 64)
    ((cum % 2 ^ 32) :: r.1, pb.1 :: r.2.1, r.2.2)

theorem rankLoop_eq (st : List (BitVec 64)) (len : Nat) (blks : List (List Nat)) (cum : Nat) (l1 l2 : List Nat) :
    rankLoop st len blks cum l1 l2 =
      (l1.reverse ++ (rankSpec st len blks cum).1, l2.reverse ++ (rankSpec st len blks cum).2.1,
        (rankSpec st len blks cum).2.2) := by
  induction blks generalizing cum l1 l2 with
  | nil => simp [rankLoop, rankSpec]
  | cons b r ih =>
    simp only [rankLoop, rankSpec]
    rw [ih]
    simp

theorem take_range' (k s n : Nat) : (List.range' s n).take k = List.range' s (min k n) := by
  induction n generalizing k s with
  | zero => simp
  | succ n ih =>
    cases k with
    | zero => simp
    | succ k =>
      rw [List.range'_succ, List.take_succ_cons, ih]
      have : min (k + 1) (n + 1) = min k n + 1 := by omega
      rw [this, List.range'_succ]

theorem chunksOf_range' (k f s m : Nat) (hm : 0 < m) :
    chunksOf k (f + 1) (List.range' s m) =
      List.range' s (min k m) :: chunksOf k f (List.range' (s + k) (m - k)) := by
  have hne : (List.range' s m).isEmpty = false := by
    cases m with
    | zero => omega
    | succ m => simp [List.range'_succ]
  simp only [chunksOf, hne, Bool.false_eq_true, if_false, take_range', List.drop_range', Nat.mul_one]

/-- Counted ones of words `[s, s + t)`. -/
def sumC (st : List (BitVec 64)) (len s t : Nat) : Nat := sumL st len (List.range' s t)

theorem sumC_le (st : List (BitVec 64)) (len s t : Nat) : sumC st len s t ≤ 64 * t := by
  have := sumL_le st len (List.range' s t)
  simpa [sumC] using this

theorem sumC_add (st : List (BitVec 64)) (len s a b : Nat) :
    sumC st len s (a + b) = sumC st len s a + sumC st len (s + a) b := by
  unfold sumC sumL
  have : List.range' s (a + b) = List.range' s a ++ List.range' (s + a) b := by
    simp
  rw [this, List.map_append, List.sum_append]

/-- Packed offsets of the block starting at word `s` with `m` words remaining overall. -/
def blockPacked (st : List (BitVec 64)) (len s m : Nat) : Nat :=
  packOffsets (blockOffs st len (List.range' s (min 8 m)) 0 0)

theorem rankBlock_range (st : List (BitVec 64)) (len s m : Nat) :
    rankBlock st len (List.range' s (min 8 m)) 0 0 0 = (blockPacked st len s m, sumC st len s (min 8 m)) := by
  have := rankBlock_spec st len (List.range' s (min 8 m)) 0 0 [] (by simp) (by simp) (by omega)
    (by simp; omega)
  simpa [packOffsets, blockPacked, sumC] using this

/-- Characterisation of the directory built over words `[s, s + m)` when `cum` ones precede. -/
theorem rankSpec_chunks (st : List (BitVec 64)) (len : Nat) (f s m cum : Nat) (hf : m ≤ f)
    (hbound : cum + 64 * m < 2 ^ 64) :
    let r := rankSpec st len (chunksOf 8 f (List.range' s m)) cum
    (∀ b, 8 * b < m → r.1.getD b 0 = (cum + sumC st len s (8 * b)) % 2 ^ 32) ∧
    (∀ b, 8 * b < m → r.2.1.getD b 0 = blockPacked st len (s + 8 * b) (m - 8 * b)) ∧
    r.2.2 = cum + sumC st len s m := by
  induction f generalizing s m cum with
  | zero =>
    have : m = 0 := by omega
    subst this
    simp [chunksOf, rankSpec, sumC, sumL]
  | succ f ih =>
    by_cases hm : m = 0
    · subst hm
      simp [chunksOf, rankSpec, sumC, sumL]
    · have hm' : 0 < m := by omega
      rw [chunksOf_range' 8 f s m hm']
      simp only [rankSpec, rankBlock_range]
      have hs8 := sumC_le st len s (min 8 m)
      have hmod : (cum + sumC st len s (min 8 m)) % 2 ^ 64 = cum + sumC st len s (min 8 m) :=
        Nat.mod_eq_of_lt (by omega)
      rw [hmod]
      have IH := ih (s + 8) (m - 8) (cum + sumC st len s (min 8 m)) (by omega) (by omega)
      simp only at IH
      obtain ⟨h1, h2, h3⟩ := IH
      refine ⟨?_, ?_, ?_⟩
      · intro b hb
        cases b with
        | zero => simp [sumC, sumL]
        | succ b =>
          simp only [List.getD_cons_succ]
          rw [h1 b (by omega)]
          have hmin : min 8 m = 8 := by omega
          have e : 8 * (b + 1) = 8 + 8 * b := by omega
          rw [hmin, e, sumC_add]
          congr 1; omega
      · intro b hb
        cases b with
        | zero => simp
        | succ b =>
          simp only [List.getD_cons_succ]
          rw [h2 b (by omega)]
          congr 1 <;> omega
      · rw [h3]
        by_cases h8 : m ≤ 8
        · have hmin : min 8 m = m := by omega
          have : m - 8 = 0 := by omega
          rw [hmin, this]; simp [sumC, sumL]
        · have hmin : min 8 m = 8 := by omega
          have e : m = 8 + (m - 8) := by omega
          rw [hmin]
          conv => rhs; rw [e, sumC_add]
          omega

end SV.BPR
