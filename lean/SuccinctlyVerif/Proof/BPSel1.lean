/-
Proof/BPSel1 — locating the k-th open: if word `w` holds it (cumulative counted ones before `w`
≤ k < cumulative after `w`), then `selectB true` over the first `len` bits is `64·w +
select_in_word(word w, k − before)`, also when the final word carries stray bits (C04).
-/
import SuccinctlyVerif.Proof.BPSelect0
import SuccinctlyVerif.Proof.BPClose2
import SuccinctlyVerif.Proof.Scan
namespace SV.BPR
open SV SV.BP SV.BPM SV.BPP SV.BPS SV.BPC

theorem selectB_lt_length' (b : Bool) (l : List Bool) (k x : Nat) (h : selectB b l k = some x) : x < l.length := by
  induction l generalizing k x with
  | nil => simp [selectB] at h
  | cons y ys ih =>
    unfold selectB at h
    by_cases hy : y = b
    · simp only [hy, if_true] at h
      cases k with
      | zero => simp at h; subst h; simp
      | succ k =>
        simp only at h
        cases hs : selectB b ys k with
        | none => simp [hs] at h
        | some z => simp [hs] at h; subst h; have := ih k z hs; simp; omega
    · simp only [hy, if_false] at h
      cases hs : selectB b ys k with
      | none => simp [hs] at h
      | some z => simp [hs] at h; subst h; have := ih k z hs; simp; omega

/-- Counted ones of word `w` = opens among its valid bits. -/
theorem cw_eq_valid (st : List (BitVec 64)) (len w : Nat) (hw : st.length = (len + 63) / 64) (hwn : w < st.length) :
    cw st len w = ((wordBits (st.getD w 0)).take (vbits len w)).count true := by
  unfold cw countedWord
  by_cases hc : w = st.length - 1 ∧ len % 64 ≠ 0
  · have hv : vbits len w = len % 64 := by unfold vbits; split <;> omega
    have := popcBelow_eq (st.getD w 0) (len % 64) (by omega)
    unfold popcBelow at this
    rw [if_pos hc, hv]; exact this
  · simp only [hc, if_false]
    have hv : vbits len w = 64 := by unfold vbits; split <;> omega
    rw [hv, List.take_of_length_le (by rw [wordBits_length]; omega)]
    exact popc_eq_count _

theorem sumC_succ (st : List (BitVec 64)) (len w : Nat) : sumC st len 0 (w + 1) = sumC st len 0 w + cw st len w := by
  rw [sumC_add st len 0 w 1]
  simp [sumC, sumL]

theorem sumC_mono (st : List (BitVec 64)) (len a b : Nat) (h : a ≤ b) : sumC st len 0 a ≤ sumC st len 0 b := by
  have e : b = a + (b - a) := by omega
  rw [e, sumC_add]; omega

/-- "The `k`-th open (0-based) lies in word `w`." -/
def Holds (st : List (BitVec 64)) (len k w : Nat) : Prop :=
  w < st.length ∧ sumC st len 0 w ≤ k ∧ k < sumC st len 0 (w + 1)

theorem holds_unique (st : List (BitVec 64)) (len k w w' : Nat) (h : Holds st len k w) (h' : Holds st len k w') : w = w' := by
  obtain ⟨_, h1, h2⟩ := h
  obtain ⟨_, h1', h2'⟩ := h'
  by_cases hlt : w < w'
  · have := sumC_mono st len (w + 1) w' (by omega); omega
  · by_cases hgt : w' < w
    · have := sumC_mono st len (w' + 1) w (by omega); omega
    · omega

/-- The word that holds the `k`-th open determines `selectB`: position `64·w + select_in_word`. -/
theorem selectB_of_holds (st : List (BitVec 64)) (len k w : Nat) (hw : st.length = (len + 63) / 64)
    (h : Holds st len k w) :
    selectB true (bitsOf st len) k = some (64 * w + selectInWordSpec (st.getD w 0) (k - sumC st len 0 w)) ∧
    64 * w + selectInWordSpec (st.getD w 0) (k - sumC st len 0 w) < len := by
  obtain ⟨hwn, h1, h2⟩ := h
  have hl := bitsOf_length st len (by omega)
  have hpos : w * 64 < len := by omega
  have hvb2 : vbits len w ≤ 64 := by unfold vbits; split <;> omega
  have hvb3 : w * 64 + vbits len w ≤ len := by unfold vbits; split <;> omega
  have hsplit : bitsOf st len = allBits (st.take w) ++ ((wordBits (st.getD w 0)).take (vbits len w) ++
      (bitsOf st len).drop ((w + 1) * 64)) := by
    conv => lhs; rw [← List.take_append_drop (w * 64) (bitsOf st len)]
    rw [bitsOf_drop_word st len w hwn (by omega) hpos]
    congr 1
    have := bitsOf_take st len (w * 64) (by omega) (by omega : w * 64 / 64 < st.length)
    have e1 : w * 64 / 64 = w := by omega
    have e2 : w * 64 % 64 = 0 := by omega
    rw [e1, e2, List.take_zero, List.append_nil] at this
    exact this
  have hcnt : (allBits (st.take w)).count true = sumC st len 0 w := by
    rw [Scan.count_allBits, sumC_eq_take st len w (Or.inl hwn)]
  have hlen1 : (allBits (st.take w)).length = 64 * w := by
    rw [allBits_length, List.length_take]; congr 1; omega
  rw [sumC_succ, cw_eq_valid st len w hw hwn] at h2
  generalize hW : (wordBits (st.getD w 0)).take (vbits len w) = W at *
  have hj : k - sumC st len 0 w < W.count true := by omega
  -- select inside the valid bits = select inside the whole word
  have hword : selectB true (wordBits (st.getD w 0)) (k - sumC st len 0 w) = selectB true W (k - sumC st len 0 w) := by
    conv => lhs; rw [← List.take_append_drop (vbits len w) (wordBits (st.getD w 0)), hW, Scan.selectB_append]
    simp [hj]
  have hsome := Scan.selectB_isSome_of_lt true W _ hj
  obtain ⟨s, hs⟩ := Option.isSome_iff_exists.mp hsome
  have hsl := selectB_lt_length' true W _ s hs
  have hWl : W.length = vbits len w := by rw [← hW, List.length_take, wordBits_length]; omega
  have hspec : selectInWordSpec (st.getD w 0) (k - sumC st len 0 w) = s := by
    unfold selectInWordSpec; rw [hword, hs]; rfl
  rw [hspec]
  refine ⟨?_, by omega⟩
  rw [hsplit, Scan.selectB_append, hcnt]
  have hnot : ¬ k < sumC st len 0 w := by omega
  simp only [hnot, if_false]
  rw [Scan.selectB_append]
  simp only [hj, if_true, hs, Option.map_some, hlen1]
  congr 1; omega

end SV.BPR
