/-
Proof/YamlBlock — layer 2 of `render_load` (C14): block collections (nesting, indentation steps,
compact forms) with plain / single- / double-quoted scalars and keys and every null / bool / int
spelling; line-level view of the renderer and of the loader.
-/
import SuccinctlyVerif.Proof.YamlRoundTrip
import SuccinctlyVerif.Proof.YamlRefBlockScalar
namespace SV.YamlRef

/-! ## Plain scalars in general (any `plainSafe` string) -/

/-- What may follow a plain scalar: end of line, a value indicator, a comment, or (flow) a flow
indicator. -/
def Stop (flow : Bool) (rest : Str) : Prop :=
  rest = [] ∨ rest = [':'] ∨ (∃ r, rest = ':' :: ' ' :: r) ∨ (∃ r, rest = ' ' :: '#' :: r)
    ∨ (flow = true ∧ ∃ d r, rest = d :: r ∧ isFlowInd d = true)
    ∨ (flow = true ∧ ∃ d r, rest = ':' :: d :: r ∧ isFlowInd d = true)

theorem plainLen_stop (flow : Bool) (rest : Str) (h : Stop flow rest) : plainLen flow rest = 0 := by
  rcases h with rfl | rfl | ⟨r, rfl⟩ | ⟨r, rfl⟩ | ⟨rfl, d, r, rfl, hd⟩ | ⟨rfl, d, r, rfl, hd⟩
  · rfl
  · simp [plainLen]
  · simp [plainLen]
  · simp [plainLen]
  · exact plainLen_flowInd d r hd
  · simp [plainLen, hd]

/-- First character of what follows, as far as the junction with the scalar's last character is
concerned. -/
theorem stop_head (flow : Bool) (rest : Str) (h : Stop flow rest) :
    rest = [] ∨ ∃ d r, rest = d :: r ∧ (d = ':' ∨ d = ' ' ∨ (flow = true ∧ isFlowInd d = true)) := by
  rcases h with rfl | rfl | ⟨r, rfl⟩ | ⟨r, rfl⟩ | ⟨hf, d, r, rfl, hd⟩ | ⟨hf, d, r, rfl, hd⟩
  · exact Or.inl rfl
  · exact Or.inr ⟨_, _, rfl, Or.inl rfl⟩
  · exact Or.inr ⟨_, _, rfl, Or.inl rfl⟩
  · exact Or.inr ⟨_, _, rfl, Or.inr (Or.inl rfl)⟩
  · exact Or.inr ⟨_, _, rfl, Or.inr (Or.inr ⟨hf, hd⟩)⟩
  · exact Or.inr ⟨_, _, rfl, Or.inl rfl⟩

theorem plainLen_safe (flow : Bool) (s rest : Str) (hb : plainBodyOk flow s = true)
    (hl : s.getLast? ≠ some ' ') (hr : Stop flow rest) :
    plainLen flow (s ++ rest) = s.length := by
  induction s with
  | nil => simpa using plainLen_stop flow rest hr
  | cons c t ih =>
    cases t with
    | nil =>
      -- last character: c ≠ ':' , not a flow indicator (flow), c ≠ ' '
      have hc : c ≠ ':' ∧ (flow = true → isFlowInd c = false) := by
        simp only [plainBodyOk, Bool.and_eq_true, bne_iff_ne, ne_eq, Bool.not_eq_true', Bool.and_eq_false_imp] at hb
        refine ⟨hb.1, ?_⟩
        intro hf; subst hf
        have := hb.2; simpa using this
      have hsp : c ≠ ' ' := by intro e; subst e; exact hl rfl
      rcases stop_head flow rest hr with rfl | ⟨d, r, rfl, hd⟩
      · simp only [List.append_nil, plainLen]
        cases flow
        · simp [hc.1]
        · simp [hc.1, hc.2 rfl]
      · have h0 := plainLen_stop flow (d :: r) hr
        simp only [List.cons_append, List.nil_append, List.length_cons, List.length_nil]
        rw [plainLen]
        have hnf : (flow && isFlowInd c) = false := by
          cases flow
          · rfl
          · simp [hc.2 rfl]
        simp only [hnf, Bool.false_eq_true, if_false, h0]
        simp [hc.1, hsp]
    | cons d t' =>
      have hb' : plainBodyOk flow (d :: t') = true := by
        simp only [plainBodyOk, Bool.and_eq_true] at hb; exact hb.2
      have hl' : (d :: t').getLast? ≠ some ' ' := by
        simpa [List.getLast?_cons_cons] using hl
      have ih' := ih hb' hl'
      simp only [plainBodyOk, Bool.and_eq_true, Bool.not_eq_true', Bool.and_eq_false_imp, beq_iff_eq] at hb
      obtain ⟨⟨⟨h1, h2⟩, h3⟩, _⟩ := hb
      simp only [List.cons_append, List.length_cons] at ih' ⊢
      rw [plainLen]
      have hnf : (flow && isFlowInd c) = false := by
        cases flow
        · rfl
        · simpa using h3
      have hcd1 : (c == ':' && (d == ' ' || (flow && isFlowInd d))) = false := by
        by_cases hc : c = ':'
        · subst hc
          have hd : d ≠ ' ' := by
            intro e; subst e; simp at h1
          have hfd : (flow && isFlowInd d) = false := by
            -- d is followed in the body check by the same flow-indicator exclusion
            cases flow
            · rfl
            · cases t' with
              | nil => simp [plainBodyOk] at hb'; simpa using hb'.2
              | cons x t'' =>
                simp only [plainBodyOk, Bool.and_eq_true, Bool.not_eq_true', Bool.and_eq_false_imp] at hb'
                simpa using hb'.1.2
          simp [hd, hfd]
        · simp [hc]
      have hcd2 : (c == ' ' && d == '#') = false := by
        by_cases hc : c = ' '
        · subst hc
          have : d ≠ '#' := by intro e; subst e; simp at h2
          simp [this]
        · simp [hc]
      simp only [hnf, hcd1, hcd2, Bool.false_eq_true, if_false, ih']
      omega


theorem plainFirstOk_append (flow : Bool) (s rest : Str) (h : plainFirstOk flow s = true) :
    plainFirstOk flow (s ++ rest) = true := by
  cases s with
  | nil => simp [plainFirstOk] at h
  | cons c t =>
    cases t with
    | nil =>
      simp only [plainFirstOk] at h ⊢
      split at h
      · simp at h
      · rename_i hc
        simp only [List.cons_append, List.nil_append, plainFirstOk, hc, if_false]
        exact h
    | cons d t' => simpa [plainFirstOk] using h

theorem printable_ne_tab (c : Char) (h : isPrintable c = true) : c ≠ '\t' := by
  intro hc; subst hc; revert h; decide

/-- A plain-safe string followed by a stop is read back as a plain scalar. -/
theorem parsePlain_safe (flow : Bool) (s rest : Str) (hs : plainSafe flow s = true) (hr : Stop flow rest) :
    parsePlain flow (s ++ rest) = .ok (s, rest) := by
  simp only [plainSafe, Bool.and_eq_true, bne_iff_ne, ne_eq, Bool.not_eq_true'] at hs
  obtain ⟨⟨⟨⟨⟨hpr, hfirst⟩, hlast⟩, hbody⟩, _⟩, _⟩ := hs
  have hlen := plainLen_safe flow s rest hbody hlast hr
  unfold parsePlain
  simp only [plainFirstOk_append flow s rest hfirst, Bool.not_true, Bool.false_eq_true, if_false, hlen,
    List.take_left', List.drop_left']
  rw [trimRight_of_last s hlast]
  have hnotab : s.any (· == '\t') = false := by
    rw [List.any_eq_false]
    intro x hx
    have := List.all_eq_true.mp hpr x hx
    simpa using printable_ne_tab x this
  simp [hnotab]

/-! ## Single-quoted scalars -/

def sqBody (s : Str) : Str := s.flatMap fun c => if c == '\'' then ['\'', '\''] else [c]

theorem parseSQ_body (s rest : Str) (hs : s.all isPrintable = true) (hr : rest.head? ≠ some '\'') :
    parseSQ (sqBody s ++ '\'' :: rest) = .ok (s, rest) := by
  induction s with
  | nil =>
    simp only [sqBody, List.flatMap_nil, List.nil_append]
    rw [parseSQ.eq_def]
    split
    · rename_i heq; simp at heq
    · rename_i heq; exact absurd (List.cons.inj heq).1 (by decide)
    · rename_i r heq
      have := (List.cons.inj heq).2
      subst this; simp at hr
    · rename_i r _ heq
      have := (List.cons.inj heq).2
      subst this; rfl
    · rename_i hq heq
      exact absurd (List.cons.inj heq).1.symm hq
  | cons c t ih =>
    simp only [List.all_cons, Bool.and_eq_true] at hs
    have ih' := ih hs.2
    have hnl : c ≠ '\n' := printable_ne_nl c hs.1
    by_cases hq : c = '\''
    · subst hq
      simp only [sqBody, List.flatMap_cons, beq_self_eq_true, if_true, List.cons_append, List.nil_append] at ih' ⊢
      rw [parseSQ.eq_def]
      simp only [ih']
      rfl
    · have hq2 : (c == '\'') = false := by simp [hq]
      simp only [sqBody, List.flatMap_cons, hq2, Bool.false_eq_true, if_false, List.cons_append, List.nil_append] at ih' ⊢
      rw [parseSQ.eq_def]
      split
      · rename_i heq; simp at heq
      · rename_i heq; exact absurd (List.cons.inj heq).1 hnl
      · rename_i heq; exact absurd (List.cons.inj heq).1 hq
      · rename_i heq; exact absurd (List.cons.inj heq).1 hq
      · rename_i c' r _ _ _ heq
        obtain ⟨rfl, rfl⟩ := List.cons.inj heq
        rw [ih']; rfl

theorem sqText_eq (s : Str) : sqText s = '\'' :: (sqBody s ++ ['\'']) := rfl


/-! ## Every int spelling -/

theorem digitChar_simple (d : Nat) (h : d < 16) :
    simpleChar (Nat.digitChar d) = true ∧ isHexDigit (Nat.digitChar d) = true ∧ (d < 8 → isOctDigit (Nat.digitChar d) = true)
      ∧ (d < 10 → isDigit (Nat.digitChar d) = true) := by
  have : d = 0 ∨ d = 1 ∨ d = 2 ∨ d = 3 ∨ d = 4 ∨ d = 5 ∨ d = 6 ∨ d = 7 ∨ d = 8 ∨ d = 9 ∨ d = 10 ∨
      d = 11 ∨ d = 12 ∨ d = 13 ∨ d = 14 ∨ d = 15 := by omega
  rcases this with h | h | h | h | h | h | h | h | h | h | h | h | h | h | h | h <;> subst h <;> decide

/-- All digits of `toDigits b n` satisfy a predicate that holds for every digit character below `b`. -/
theorem toDigits_all (b : Nat) (hb : 1 < b) (P : Char → Bool) (hP : ∀ d, d < b → P (Nat.digitChar d) = true) (n : Nat) :
    (Nat.toDigits b n).all P = true := by
  induction n using Nat.strongRecOn with
  | _ n ih =>
    rw [Nat.toDigits_eq_if hb]
    split
    · rename_i h; simp [hP n h]
    · rename_i h
      have hlt : n / b < n := Nat.div_lt_self (by omega) hb
      simp only [List.all_append, ih _ hlt, List.all_cons, List.all_nil, Bool.and_true, Bool.true_and]
      exact hP _ (Nat.mod_lt n (by omega))

theorem toDigits16_simple (n : Nat) : (Nat.toDigits 16 n).all simpleChar = true :=
  toDigits_all 16 (by decide) simpleChar (fun d h => (digitChar_simple d h).1) n
theorem toDigits8_simple (n : Nat) : (Nat.toDigits 8 n).all simpleChar = true :=
  toDigits_all 8 (by decide) simpleChar (fun d h => (digitChar_simple d (by omega)).1) n
theorem toDigits16_hex (n : Nat) : (Nat.toDigits 16 n).all isHexDigit = true :=
  toDigits_all 16 (by decide) isHexDigit (fun d h => (digitChar_simple d h).2.1) n
theorem toDigits8_oct (n : Nat) : (Nat.toDigits 8 n).all isOctDigit = true :=
  toDigits_all 8 (by decide) isOctDigit (fun d h => (digitChar_simple d (by omega)).2.2.1 h) n

/-- Token facts of an int spelling: simple characters, the way it starts, how it resolves. -/
theorem intText_facts (i : Int) (v : Nat) :
    tokOk (intText i v) ∧ resolvePlain (intText i v) = .int i ∧ ("---".toList).isPrefixOf (intText i v) = false := by
  have hv : v % 5 = 0 ∨ v % 5 = 1 ∨ v % 5 = 2 ∨ v % 5 = 3 ∨ v % 5 = 4 := by omega
  by_cases hneg : i ≥ 0
  · -- non-negative
    have hi : ((i.toNat : Nat) : Int) = i := Int.toNat_of_nonneg hneg
    rcases hv with h | h | h | h | h
    · exact ⟨tokOk_intText i v h, resolvePlain_intText i v h, notMarker_int i v h⟩
    · -- +decimal
      have e : intText i v = '+' :: natDigits 10 i.toNat := by simp [intText, h, hneg]
      rw [e]
      refine ⟨⟨by simp only [List.all_cons, natDigits, toDigits10_all, Bool.and_true]; decide, by simp, by intro h'; simp at h'⟩, ?_,
        notMarker_of_head _ _ (by decide)⟩
      have hd := toDigits10_isDigit i.toNat
      unfold resolvePlain
      rw [if_neg (by simp), if_neg (by simp), if_neg (by simp)]
      simp only [natDigits, allDigits, hd, Nat.toDigits_ne_nil, List.isEmpty_iff, Bool.not_false, Bool.and_self, if_true,
        natOfDigits_toDigits 10 (by decide) (by decide)]
      simp [hi]
    · -- 0x hex
      have e : intText i v = '0' :: 'x' :: natDigits 16 i.toNat := by simp [intText, h, hneg]
      rw [e]
      refine ⟨⟨by simp only [List.all_cons, natDigits, toDigits16_simple, Bool.and_true]; decide, by simp, by intro h'; simp at h'⟩, ?_,
        notMarker_of_head _ _ (by decide)⟩
      unfold resolvePlain
      rw [if_neg (by simp), if_neg (by simp), if_neg (by simp)]
      simp only [natDigits, toDigits16_hex, Nat.toDigits_ne_nil, List.isEmpty_iff, Bool.not_false, Bool.and_self, if_true,
        natOfDigits_toDigits 16 (by decide) (by decide)]
      simp [hi]
    · -- 0o octal
      have e : intText i v = '0' :: 'o' :: natDigits 8 i.toNat := by simp [intText, h, hneg]
      rw [e]
      refine ⟨⟨by simp only [List.all_cons, natDigits, toDigits8_simple, Bool.and_true]; decide, by simp, by intro h'; simp at h'⟩, ?_,
        notMarker_of_head _ _ (by decide)⟩
      unfold resolvePlain
      rw [if_neg (by simp), if_neg (by simp), if_neg (by simp)]
      simp only [natDigits, toDigits8_oct, Nat.toDigits_ne_nil, List.isEmpty_iff, Bool.not_false, Bool.and_self, if_true,
        natOfDigits_toDigits 8 (by decide) (by decide)]
      simp [hi]
    · -- zero-padded decimal
      have e : intText i v = '0' :: '0' :: natDigits 10 i.toNat := by simp [intText, h, hneg]
      rw [e]
      have hd := toDigits10_isDigit i.toNat
      refine ⟨⟨by simp only [List.all_cons, natDigits, toDigits10_all, Bool.and_true]; decide, by simp, by intro h'; simp at h'⟩, ?_,
        notMarker_of_head _ _ (by decide)⟩
      have hall : ('0' :: '0' :: natDigits 10 i.toNat).all isDigit = true := by
        simp only [List.all_cons, natDigits, hd, Bool.and_true]; decide
      rw [resolvePlain_digits _ (by simp) hall]
      have : natOfDigits 10 ('0' :: '0' :: natDigits 10 i.toNat) = natOfDigits 10 (Nat.toDigits 10 i.toNat) := by
        simp [natOfDigits, natDigits, digitVal]
      rw [this, natOfDigits_toDigits 10 (by decide) (by decide), hi]
  · -- negative: `-` decimal, or `-0` decimal for variant 4
    have hlt : i < 0 := by omega
    have hab : (-(i.natAbs : Int)) = i := by omega
    by_cases h4 : v % 5 = 4
    · have e : intText i v = '-' :: '0' :: natDigits 10 i.natAbs := by simp [intText, h4, hneg]
      rw [e]
      have hd := toDigits10_isDigit i.natAbs
      have hall : ('0' :: natDigits 10 i.natAbs).all isDigit = true := by
        simp only [List.all_cons, natDigits, hd, Bool.and_true]; decide
      refine ⟨⟨by simp only [List.all_cons, natDigits, toDigits10_all, Bool.and_true]; decide, by simp, by intro _; simp⟩, ?_, ?_⟩
      · rw [resolvePlain_neg _ (by simp) hall]
        have : natOfDigits 10 ('0' :: natDigits 10 i.natAbs) = natOfDigits 10 (Nat.toDigits 10 i.natAbs) := by
          simp [natOfDigits, natDigits, digitVal]
        rw [this, natOfDigits_toDigits 10 (by decide) (by decide), hab]
      · have e3 : "---".toList = ['-', '-', '-'] := by decide
        rw [e3]; simp [List.isPrefixOf]
    · have e : intText i v = '-' :: natDigits 10 i.natAbs := by
        rcases hv with h | h | h | h | h <;> simp [intText, h, hneg] <;> omega
      rw [e]
      have hd := toDigits10_isDigit i.natAbs
      refine ⟨⟨by simp only [List.all_cons, natDigits, toDigits10_all, Bool.and_true]; decide, by simp, ?_⟩, ?_, ?_⟩
      · intro _
        have := Nat.length_toDigits_pos (b := 10) (n := i.natAbs)
        simp [natDigits]; omega
      · rw [natDigits, resolvePlain_neg _ Nat.toDigits_ne_nil hd, natOfDigits_toDigits 10 (by decide) (by decide), hab]
      · cases hdg : natDigits 10 i.natAbs with
        | nil => exact absurd hdg (by simp [natDigits, Nat.toDigits_ne_nil])
        | cons c t =>
          have hm : c ∈ Nat.toDigits 10 i.natAbs := by
            have : natDigits 10 i.natAbs = Nat.toDigits 10 i.natAbs := rfl
            rw [← this, hdg]; simp
          have := Nat.isDigit_of_mem_toDigits (b := 10) (by decide) (by decide) hm
          have h2 : ('-' == c) = false := by
            have : c ≠ '-' := by intro hc; subst hc; exact absurd this (by decide)
            simp [Ne.symm this]
          have e3 : "---".toList = ['-', '-', '-'] := by decide
          rw [e3]; simp only [List.isPrefixOf, beq_self_eq_true, Bool.true_and, h2, Bool.false_and]


/-! ## Heads of plain scalars -/

/-- First character of a plain scalar: not a space, and either `-`/`?`/`:` or no indicator. -/
def plainHead (c : Char) : Prop := c ≠ ' ' ∧ (c = '-' ∨ c = '?' ∨ c = ':' ∨ isIndicator c = false)

theorem plainFirst_head (flow : Bool) (s : Str) (h : plainFirstOk flow s = true) :
    ∃ c t, s = c :: t ∧ plainHead c := by
  cases s with
  | nil => simp [plainFirstOk] at h
  | cons c t =>
    refine ⟨c, t, rfl, ?_⟩
    simp only [plainFirstOk] at h
    split at h
    · rename_i hc
      have hc' : c = '-' ∨ c = '?' ∨ c = ':' := by
        have : (c = '-' ∨ c = '?') ∨ c = ':' := by simpa using hc
        rcases this with (h' | h') | h'
        · exact Or.inl h'
        · exact Or.inr (Or.inl h')
        · exact Or.inr (Or.inr h')
      refine ⟨?_, ?_⟩
      · rintro rfl; rcases hc' with h' | h' | h' <;> cases h'
      · rcases hc' with h' | h' | h'
        · exact Or.inl h'
        · exact Or.inr (Or.inl h')
        · exact Or.inr (Or.inr (Or.inl h'))
    · simp only [Bool.and_eq_true, Bool.not_eq_true', bne_iff_ne, ne_eq] at h
      exact ⟨h.2, Or.inr (Or.inr (Or.inr h.1))⟩

theorem plainHead_ne (c : Char) (h : plainHead c) (d : Char)
    (hd : isIndicator d = true ∧ d ≠ '-' ∧ d ≠ '?' ∧ d ≠ ':') : c ≠ d := by
  rintro rfl
  rcases h.2 with h' | h' | h' | h'
  · exact hd.2.1 h'
  · exact hd.2.2.1 h'
  · exact hd.2.2.2 h'
  · rw [hd.1] at h'; cases h'

theorem stopF_stop (rest : Str) (h : rest = [] ∨ (∃ d r, rest = d :: r ∧ isFlowInd d = true) ∨ (∃ r, rest = ':' :: ' ' :: r)) :
    Stop true rest := by
  rcases h with h | ⟨d, r, h, hd⟩ | ⟨r, h⟩
  · exact Or.inl h
  · exact Or.inr (Or.inr (Or.inr (Or.inr (Or.inl ⟨rfl, d, r, h, hd⟩))))
  · exact Or.inr (Or.inr (Or.inl ⟨r, h⟩))

/-- What may follow a flow node: end, a flow indicator, or `: ` (after a key). -/
def StopF (rest : Str) : Prop :=
  rest = [] ∨ (∃ d r, rest = d :: r ∧ isFlowInd d = true) ∨ (∃ r, rest = ':' :: ' ' :: r)

theorem delim_stopF (rest : Str) (h : Delim rest) : StopF rest := by
  rcases h with h | ⟨d, r, h, hd⟩
  · exact Or.inl h
  · exact Or.inr (Or.inl ⟨d, r, h, hd⟩)

theorem stopF_head_ne_quote (rest : Str) (h : StopF rest) : rest.head? ≠ some '\'' := by
  rcases h with rfl | ⟨d, r, rfl, hd⟩ | ⟨r, rfl⟩
  · simp
  · intro e; simp at e; subst e; revert hd; decide
  · simp

theorem parseFlow_plain (f k : Nat) (s rest : Str) (hs : plainSafe true s = true) (hr : StopF rest) :
    parseFlow (f + 1) (spaces k ++ s ++ rest) = .ok (.scalar true s, rest) := by
  have hp := parsePlain_safe true s rest hs (stopF_stop rest hr)
  have hfirst : plainFirstOk true s = true := by
    simp only [plainSafe, Bool.and_eq_true] at hs; exact hs.1.1.1.1.2
  obtain ⟨c, t, rfl, hc⟩ := plainFirst_head true _ hfirst
  rw [parseFlow]
  simp only [List.append_assoc, List.cons_append, dropSpaces_spaces k c _ hc.1]
  simp only [List.cons_append] at hp
  split
  · rename_i heq; simp at heq
  · rename_i heq; exact absurd (List.cons.inj heq).1 (plainHead_ne c hc '[' (by decide))
  · rename_i heq; exact absurd (List.cons.inj heq).1 (plainHead_ne c hc '{' (by decide))
  · rename_i heq; exact absurd (List.cons.inj heq).1 (plainHead_ne c hc '"' (by decide))
  · rename_i heq; exact absurd (List.cons.inj heq).1 (plainHead_ne c hc '\'' (by decide))
  · rename_i heq; exact absurd (List.cons.inj heq).1 (plainHead_ne c hc '*' (by decide))
  · rename_i heq; exact absurd (List.cons.inj heq).1 (plainHead_ne c hc '&' (by decide))
  · rw [hp]; rfl

theorem parseFlow_sq (f k : Nat) (s rest : Str) (hs : s.all isPrintable = true) (hr : StopF rest) :
    parseFlow (f + 1) (spaces k ++ sqText s ++ rest) = .ok (.scalar false s, rest) := by
  rw [parseFlow]
  simp only [sqText_eq, List.append_assoc, List.cons_append, dropSpaces_spaces k '\'' _ (by decide)]
  have := parseSQ_body s rest hs (stopF_head_ne_quote rest hr)
  simp only [List.nil_append, List.cons_append] at this ⊢
  rw [this]; rfl


/-! ## Layer-2 scalars and flow collections -/

/-- Scalar presentations of layer 2 (no block scalars, anchors, aliases). -/
def PNode.sc2 (flow : Bool) : PNode → Bool
  | .null v => !(flow && v % 5 == 4)
  | .bool _ _ => true
  | .int _ _ => true
  | .str s .plain => plainSafe flow s && resolvePlain s == .str
  | .str s .single => s.all isPrintable
  | .str _ (.double _ _) => true
  | _ => false

/-- What may carry an anchor: not an anchored node or an alias, not a compact block collection, in
flow context not the empty null. -/
def PNode.anchorable (flow : Bool) : PNode → Bool
  | .anchored _ _ => false
  | .alias _ _ => false
  | .seq false _ c _ => !c
  | .map false _ c _ => !c
  | .null v => !flow || v % 5 != 4
  | _ => true

theorem anchorChar_facts (c : Char) (h : isAnchorChar c = true) :
    okc c = true ∧ c ≠ ' ' ∧ c ≠ ',' ∧ c ≠ ']' ∧ c ≠ '}' ∧ c ≠ '[' ∧ c ≠ '{' ∧ c ≠ '#' ∧ c ≠ ':' := by
  refine ⟨?_, ?_, ?_, ?_, ?_, ?_, ?_, ?_, ?_⟩
  · simp only [okc, Bool.and_eq_true, bne_iff_ne]
    constructor <;> (intro e; subst e; revert h; decide)
  all_goals (intro e; subst e; revert h; decide)

theorem anchorChar_not_flowInd (d : Char) (h : isAnchorChar d = true) : isFlowInd d = false := by
  cases hf : isFlowInd d with
  | false => rfl
  | true =>
    exfalso
    have : d = ',' ∨ d = '[' ∨ d = ']' ∨ d = '{' ∨ d = '}' := by
      simp [isFlowInd] at hf; omega
    rcases this with h' | h' | h' | h' | h' <;> subst h' <;> revert h <;> decide

theorem anchorName_okc (a : Str) (h : a.all isAnchorChar = true) : a.all okc = true := by
  rw [List.all_eq_true] at h ⊢
  intro c hc
  exact (anchorChar_facts c (h c hc)).1

theorem anchorName_split (a r : Str) (ha : a.all isAnchorChar = true) (hr : r = [] ∨ ∃ d t, r = d :: t ∧ isAnchorChar d = false) :
    (a ++ r).takeWhile isAnchorChar = a ∧ (a ++ r).dropWhile isAnchorChar = r := by
  induction a with
  | nil =>
    rcases hr with rfl | ⟨d, t, rfl, hd⟩
    · simp
    · simp [List.takeWhile_cons, List.dropWhile_cons, hd]
  | cons c a ih =>
    simp only [List.all_cons, Bool.and_eq_true] at ha
    obtain ⟨i1, i2⟩ := ih ha.2
    simp only [List.cons_append, List.takeWhile_cons, List.dropWhile_cons, ha.1, if_true, i1, i2, and_self]

theorem anchorName_facts (a : Str) (h : anchorNameOk a = true) : a ≠ [] ∧ a.all isAnchorChar = true ∧ a.isEmpty = false := by
  simp only [anchorNameOk, Bool.and_eq_true, Bool.not_eq_true'] at h
  refine ⟨?_, h.1.2, h.1.1⟩
  intro e; subst e; simp at h

mutual
/-- Flow nodes of layers 2 and 6. -/
def PNode.fl2 : PNode → Bool
  | .seq true _ _ items => items.fl2
  | .map true _ _ es => es.fl2
  | .seq false _ _ _ => false
  | .map false _ _ _ => false
  | .anchored a n => anchorNameOk a && n.anchorable true && n.fl2
  | .alias a _ => anchorNameOk a
  | x => x.sc2 true
def PItems.fl2 : PItems → Bool
  | .nil => true
  | .cons _ n r => n.fl2 && r.fl2
def PEntries.fl2 : PEntries → Bool
  | .nil => true
  | .cons _ k ks n r => keyOk true k ks && n.fl2 && r.fl2
end

/-- Everything the flow parser and the resolver need to know about a scalar's text. -/
structure ScalarFacts (flow : Bool) (X : Str) (nd : Node) (t : Tree) : Prop where
  ok : X.all okc = true
  res : ∀ env, nd.resolve env = .ok (t, env)
  head : X = [] ∨ goodHead X

theorem goodHead_plain (flow : Bool) (s : Str) (h : plainFirstOk flow s = true) : goodHead s := by
  obtain ⟨c, t, rfl, hc⟩ := plainFirst_head flow s h
  exact ⟨c, t, rfl, hc.1, plainHead_ne c hc ']' (by decide), plainHead_ne c hc '}' (by decide),
    plainHead_ne c hc ',' (by decide)⟩

theorem okc_of_printable (s : Str) (h : s.all isPrintable = true) : s.all okc = true := by
  rw [List.all_eq_true] at h ⊢
  intro c hc; exact okc_printable c (h c hc)

theorem okc_sqText (s : Str) (h : s.all isPrintable = true) : (sqText s).all okc = true := by
  simp only [sqText, List.all_cons, List.all_append, List.all_nil, Bool.and_true]
  refine Bool.and_eq_true_iff.mpr ⟨by decide, Bool.and_eq_true_iff.mpr ⟨?_, by decide⟩⟩
  rw [List.all_eq_true]
  intro x hx
  obtain ⟨c, hc, hxc⟩ := List.mem_flatMap.mp hx
  have hp := List.all_eq_true.mp h c hc
  by_cases hq : c = '\''
  · subst hq
    have : x = '\'' := by simpa using hxc
    subst this; decide
  · have hq2 : (c == '\'') = false := by simp [hq]
    have : x = c := by simpa [hq2] using hxc
    subst this; exact okc_printable x hp

/-- The text of a layer-2 scalar in flow position (`x.flow`). -/
theorem scalarFacts (flow : Bool) (x : PNode) (h : x.sc2 flow = true)
    (hx : ∀ fl st c items, x ≠ .seq fl st c items) (hm : ∀ fl st c es, x ≠ .map fl st c es) :
    ScalarFacts flow x.flow x.node x.tree := by
  cases x with
  | null v =>
    by_cases h4 : v % 5 = 4
    · refine ⟨by simp [PNode.flow, nullText, h4], ?_, Or.inl (by simp [PNode.flow, nullText, h4])⟩
      intro env; simp [PNode.node, Node.resolve, resolveScalar, resolvePlain_nullText, PNode.tree]; rfl
    · have ht := tokOk_nullText v h4
      refine ⟨okc_tok _ ht, ?_, Or.inr (goodHead_tok _ ht)⟩
      intro env; simp [PNode.node, Node.resolve, resolveScalar, resolvePlain_nullText, PNode.tree]; rfl
  | bool b v =>
    have ht := tokOk_boolText b v
    refine ⟨okc_tok _ ht, ?_, Or.inr (goodHead_tok _ ht)⟩
    intro env; simp [PNode.node, Node.resolve, resolveScalar, resolvePlain_boolText, PNode.tree]; rfl
  | int i v =>
    obtain ⟨ht, hres, _⟩ := intText_facts i v
    refine ⟨okc_tok _ ht, ?_, Or.inr (goodHead_tok _ ht)⟩
    intro env; simp [PNode.node, Node.resolve, resolveScalar, hres, PNode.tree]; rfl
  | str s st =>
    cases st with
    | plain =>
      simp only [PNode.sc2, Bool.and_eq_true, beq_iff_eq] at h
      have hs := h.1
      simp only [plainSafe, Bool.and_eq_true] at hs
      refine ⟨okc_of_printable s hs.1.1.1.1.1, ?_, Or.inr (goodHead_plain flow s hs.1.1.1.1.2)⟩
      intro env; simp [PNode.node, Node.resolve, resolveScalar, h.2, PNode.tree]; rfl
    | single =>
      simp only [PNode.sc2] at h
      refine ⟨okc_sqText s h, ?_, Or.inr ⟨'\'', _, rfl, by decide, by decide, by decide, by decide⟩⟩
      intro env; simp [PNode.node, Node.resolve, resolveScalar, PNode.tree]; rfl
    | double sh eu =>
      refine ⟨okc_dqText sh eu s, ?_, Or.inr ⟨'"', _, rfl, by decide, by decide, by decide, by decide⟩⟩
      intro env; simp [PNode.node, Node.resolve, resolveScalar, PNode.tree]; rfl
    | literal ch ind ex => simp [PNode.sc2] at h
    | folded ch ind ex fo => simp [PNode.sc2] at h
  | seq fl st c items => exact absurd rfl (hx fl st c items)
  | map fl st c es => exact absurd rfl (hm fl st c es)
  | anchored a n => simp [PNode.sc2] at h
  | alias a t => simp [PNode.sc2] at h

/-- A layer-2 scalar in flow context is read back by `parseFlow`. -/
theorem parseFlow_scalar (x : PNode) (h : x.sc2 true = true)
    (hx : ∀ fl st c items, x ≠ .seq fl st c items) (hm : ∀ fl st c es, x ≠ .map fl st c es)
    (f k : Nat) (rest : Str) (hr : Delim rest) :
    parseFlow (f + 1) (spaces k ++ x.flow ++ rest) = .ok (x.node, rest) := by
  cases x with
  | null v =>
    have h4 : v % 5 ≠ 4 := by simpa [PNode.sc2] using h
    exact parseFlow_tok f k _ rest (tokOk_nullText v h4) hr
  | bool b v => exact parseFlow_tok f k _ rest (tokOk_boolText b v) hr
  | int i v => exact parseFlow_tok f k _ rest (intText_facts i v).1 hr
  | str s st =>
    cases st with
    | plain =>
      simp only [PNode.sc2, Bool.and_eq_true] at h
      exact parseFlow_plain f k s rest h.1 (delim_stopF rest hr)
    | single =>
      simp only [PNode.sc2] at h
      exact parseFlow_sq f k s rest h (delim_stopF rest hr)
    | double sh eu => exact parseFlow_dq f k sh eu s rest
    | literal ch ind ex => simp [PNode.sc2] at h
    | folded ch ind ex fo => simp [PNode.sc2] at h
  | seq fl st c items => exact absurd rfl (hx fl st c items)
  | map fl st c es => exact absurd rfl (hm fl st c es)
  | anchored a n => simp [PNode.sc2] at h
  | alias a t => simp [PNode.sc2] at h

/-- Keys (any style) in flow or block context: text facts. -/
theorem keyFacts (flow : Bool) (k : Str) (ks : KStyle) (h : keyOk flow k ks = true) :
    goodHead (keyText k ks) ∧ (keyText k ks).all okc = true ∧ resolveKey (keyNode k ks) = .ok k := by
  cases ks with
  | plain =>
    simp only [keyOk, Bool.and_eq_true, beq_iff_eq] at h
    have hs := h.1.1
    simp only [plainSafe, Bool.and_eq_true] at hs
    refine ⟨goodHead_plain flow k hs.1.1.1.1.2, okc_of_printable k hs.1.1.1.1.1, ?_⟩
    simp [keyNode, resolveKey, h.1.2]
  | single =>
    simp only [keyOk, Bool.and_eq_true] at h
    exact ⟨⟨'\'', _, rfl, by decide, by decide, by decide, by decide⟩, okc_sqText k h.1, by simp [keyNode, resolveKey]⟩
  | double sh eu =>
    exact ⟨⟨'"', _, rfl, by decide, by decide, by decide, by decide⟩, okc_dqText sh eu k, by simp [keyNode, resolveKey]⟩

/-- A key in flow context followed by `: `. -/
theorem parseFlow_key (k : Str) (ks : KStyle) (h : keyOk true k ks = true) (f j : Nat) (T : Str) :
    parseFlow (f + 1) (spaces j ++ keyText k ks ++ ':' :: ' ' :: T) = .ok (keyNode k ks, ':' :: ' ' :: T) := by
  have hr : StopF (':' :: ' ' :: T) := Or.inr (Or.inr ⟨T, rfl⟩)
  cases ks with
  | plain =>
    simp only [keyOk, Bool.and_eq_true] at h
    exact parseFlow_plain f j k _ h.1.1 hr
  | single =>
    simp only [keyOk, Bool.and_eq_true] at h
    exact parseFlow_sq f j k _ h.1 hr
  | double sh eu => exact parseFlow_dq f j sh eu k _


/-! ## Flow collections of layer 2 -/

/-- One entry of a flow mapping (key of any style). -/
theorem entryStep2 (f j g : Nat) (KT xt R : Str) (kn xn : Node) (acc : List (Node × Node))
    (hkh : goodHead KT) (hg : goodHead xt)
    (hkey : parseFlow f (KT ++ ':' :: (spaces (g + 1) ++ (xt ++ R))) = .ok (kn, ':' :: (spaces (g + 1) ++ (xt ++ R))))
    (hx : parseFlow f (spaces (g + 1) ++ xt ++ R) = .ok (xn, R)) :
    parseFlowMap (f + 1) (spaces j ++ KT ++ (':' :: spaces (g + 1)) ++ xt ++ R) acc
      = parseFlowMapTail f R ((kn, xn) :: acc) := by
  obtain ⟨k0, kt, rfl, q1, q2, q3, q4⟩ := hkh
  obtain ⟨c0, t0, rfl, g1, g2, g3, g4⟩ := hg
  rw [parseFlowMap]
  simp only [List.append_assoc, List.cons_append] at hx hkey ⊢
  rw [dropSpaces_spaces j k0 _ q1]
  split
  · rename_i heq; exact absurd (List.cons.inj heq).1 q3
  · rw [hkey]
    simp only [dropSpaces, List.dropWhile_cons, show ((':' : Char) == ' ') = false by decide, Bool.false_eq_true, if_false]
    have hd : List.dropWhile (fun x => x == ' ') (spaces (g + 1) ++ c0 :: (t0 ++ R)) = c0 :: (t0 ++ R) := by
      have := dropSpaces_spaces (g + 1) c0 (t0 ++ R) g1
      simpa [dropSpaces] using this
    rw [hd]
    split
    · rename_i heq; exact absurd (List.cons.inj heq).1 g4
    · rename_i heq; exact absurd (List.cons.inj heq).1 g3
    · rw [hx]

theorem goodHead_flow2 (n : PNode) (h : n.fl2 = true) : goodHead n.flow := by
  cases n with
  | seq fl st c items => exact ⟨'[', _, rfl, by decide, by decide, by decide, by decide⟩
  | map fl st c es => exact ⟨'{', _, rfl, by decide, by decide, by decide, by decide⟩
  | null v =>
    have hs : (PNode.null v).sc2 true = true := by simpa [PNode.fl2] using h
    have h4 : v % 5 ≠ 4 := by simpa [PNode.sc2] using hs
    exact goodHead_tok _ (tokOk_nullText v h4)
  | bool b v => exact goodHead_tok _ (tokOk_boolText b v)
  | int i v => exact goodHead_tok _ (intText_facts i v).1
  | str s st =>
    have hs : (PNode.str s st).sc2 true = true := by simpa [PNode.fl2] using h
    rcases (scalarFacts true _ hs (by intros; simp) (by intros; simp)).head with h0 | h0
    · exfalso
      cases st <;> simp [PNode.flow, strFlowText, dqText, sqText, PNode.sc2] at h0 hs
      subst h0; simp [plainSafe, plainFirstOk] at hs
    · exact h0
  | anchored a n => exact ⟨'&', _, rfl, by decide, by decide, by decide, by decide⟩
  | alias a t => exact ⟨'*', _, rfl, by decide, by decide, by decide, by decide⟩

/-- A flow collection: what follows its closing bracket is arbitrary. -/
def PNode.isFlowColl : PNode → Bool
  | .seq true _ _ _ => true
  | .map true _ _ _ => true
  | _ => false

mutual
theorem flowNode2 : (n : PNode) → n.fl2 = true → ∀ (f : Nat) (rest : Str) (k : Nat), n.need ≤ f →
    (Delim rest ∨ n.isFlowColl = true) →
    parseFlow f (spaces k ++ n.flow ++ rest) = .ok (n.node, rest)
  | .null v, h, f, rest, k, hf, hd => by
    have hd : Delim rest := by
      rcases hd with hd | hd
      · exact hd
      · simp [PNode.isFlowColl] at hd
    obtain ⟨f', rfl⟩ : ∃ f', f = f' + 1 := ⟨f - 1, by simp [PNode.need] at hf; omega⟩
    exact parseFlow_scalar _ (by simpa [PNode.fl2] using h) (by intros; simp) (by intros; simp) f' k rest hd
  | .bool b v, h, f, rest, k, hf, hd => by
    have hd : Delim rest := by
      rcases hd with hd | hd
      · exact hd
      · simp [PNode.isFlowColl] at hd
    obtain ⟨f', rfl⟩ : ∃ f', f = f' + 1 := ⟨f - 1, by simp [PNode.need] at hf; omega⟩
    exact parseFlow_scalar _ (by simpa [PNode.fl2] using h) (by intros; simp) (by intros; simp) f' k rest hd
  | .int i v, h, f, rest, k, hf, hd => by
    have hd : Delim rest := by
      rcases hd with hd | hd
      · exact hd
      · simp [PNode.isFlowColl] at hd
    obtain ⟨f', rfl⟩ : ∃ f', f = f' + 1 := ⟨f - 1, by simp [PNode.need] at hf; omega⟩
    exact parseFlow_scalar _ (by simpa [PNode.fl2] using h) (by intros; simp) (by intros; simp) f' k rest hd
  | .str s st, h, f, rest, k, hf, hd => by
    have hd : Delim rest := by
      rcases hd with hd | hd
      · exact hd
      · simp [PNode.isFlowColl] at hd
    obtain ⟨f', rfl⟩ : ∃ f', f = f' + 1 := ⟨f - 1, by simp [PNode.need] at hf; omega⟩
    exact parseFlow_scalar _ (by simpa [PNode.fl2] using h) (by intros; simp) (by intros; simp) f' k rest hd
  | .seq fl st c items, h, f, rest, k, hf, hd => by
    have hfl : fl = true := by cases fl <;> simp [PNode.fl2] at h ⊢
    subst hfl
    have hi : items.fl2 = true := by simpa [PNode.fl2] using h
    obtain ⟨f', rfl⟩ : ∃ f', f = f' + 2 := ⟨f - 2, by simp [PNode.need] at hf; omega⟩
    have hf' : items.need ≤ f' := by simp [PNode.need] at hf; omega
    rw [parseFlow]
    simp only [PNode.flow, List.append_assoc, List.cons_append, dropSpaces_spaces k '[' _ (by decide), PNode.node]
    cases items with
    | nil =>
      rw [parseFlowSeq]
      simp [PItems.flow, dropSpaces, PItems.nodes]
    | cons m x r =>
      have hx : x.fl2 = true := by simp [PItems.fl2] at hi; exact hi.1
      have hr : r.fl2 = true := by simp [PItems.fl2] at hi; exact hi.2
      have hneed : x.need + r.need + 2 ≤ f' := by simpa [PItems.need] using hf'
      have e2 := flowNode2 x hx f' (r.flow false ++ ']' :: rest) 0 (by omega) (Or.inl (delim_items r rest))
      simp only [spaces, List.replicate_zero, List.nil_append, List.append_assoc] at e2
      have st := itemStep f' m.gap x.flow (r.flow false ++ ']' :: rest) x.node [] (goodHead_flow2 x hx) e2
      simp only [PItems.flow, if_true, List.nil_append, List.append_assoc] at st ⊢
      rw [st, flowItemsTail2 r hr f' rest [x.node] (by omega)]
      simp [PItems.nodes]
  | .map fl st c es, h, f, rest, k, hf, hd => by
    have hfl : fl = true := by cases fl <;> simp [PNode.fl2] at h ⊢
    subst hfl
    have hi : es.fl2 = true := by simpa [PNode.fl2] using h
    obtain ⟨f', rfl⟩ : ∃ f', f = f' + 2 := ⟨f - 2, by simp [PNode.need] at hf; omega⟩
    have hf' : es.need ≤ f' := by simp [PNode.need] at hf; omega
    rw [parseFlow]
    simp only [PNode.flow, List.append_assoc, List.cons_append, dropSpaces_spaces k '{' _ (by decide), PNode.node]
    cases es with
    | nil =>
      rw [parseFlowMap]
      simp [PEntries.flow, dropSpaces, PEntries.nodes]
    | cons m key ks x r =>
      have hk : keyOk true key ks = true := by simp [PEntries.fl2] at hi; exact hi.1.1
      have hx : x.fl2 = true := by simp [PEntries.fl2] at hi; exact hi.1.2
      have hr : r.fl2 = true := by simp [PEntries.fl2] at hi; exact hi.2
      have hneed : x.need + r.need + 3 ≤ f' := by simpa [PEntries.need] using hf'
      obtain ⟨f'', rfl⟩ : ∃ f'', f' = f'' + 1 := ⟨f' - 1, by omega⟩
      have e2 := flowNode2 x hx (f'' + 1) (r.flow false ++ '}' :: rest) (m.gap + 1) (by omega) (Or.inl (delim_entries r rest))
      have ek := parseFlow_key key ks hk f'' 0 (spaces m.gap ++ (x.flow ++ (r.flow false ++ '}' :: rest)))
      have hsp : spaces (m.gap + 1) = ' ' :: spaces m.gap := by simp [spaces, List.replicate_succ]
      simp only [show spaces 0 = ([] : Str) from rfl, List.nil_append] at ek
      have st := entryStep2 (f'' + 1) 0 m.gap (keyText key ks) x.flow (r.flow false ++ '}' :: rest) (keyNode key ks) x.node []
        (keyFacts true key ks hk).1 (goodHead_flow2 x hx)
        (by rw [hsp]; simpa [List.append_assoc] using ek) e2
      simp only [spaces, List.replicate_zero, PEntries.flow, if_true, List.nil_append, List.append_assoc, List.cons_append] at st ⊢
      rw [st, flowEntriesTail2 r hr (f'' + 1) rest [(keyNode key ks, x.node)] (by omega)]
      simp [PEntries.nodes]
  | .anchored a n, h, f, rest, k, hf, hd => by
    simp only [PNode.fl2, Bool.and_eq_true] at h
    obtain ⟨⟨ha, _⟩, hn⟩ := h
    obtain ⟨hne, hall, hemp⟩ := anchorName_facts a ha
    have hd : Delim rest := by
      rcases hd with hd | hd
      · exact hd
      · simp [PNode.isFlowColl] at hd
    obtain ⟨f', rfl⟩ : ∃ f', f = f' + 1 := ⟨f - 1, by simp [PNode.need] at hf; omega⟩
    have hf' : n.need ≤ f' := by simp [PNode.need] at hf; omega
    obtain ⟨s1, s2⟩ := anchorName_split a (' ' :: (n.flow ++ rest)) hall (Or.inr ⟨' ', _, rfl, by decide⟩)
    have ih := flowNode2 n hn f' rest 0 hf' (Or.inl hd)
    simp only [spaces, List.replicate_zero, List.nil_append] at ih
    rw [parseFlow]
    have e : spaces k ++ (PNode.anchored a n).flow ++ rest = spaces k ++ '&' :: (a ++ ' ' :: (n.flow ++ rest)) := by
      simp [PNode.flow, List.append_assoc]
    rw [e, dropSpaces_spaces k '&' _ (by decide)]
    simp only [s1, s2, hemp, Bool.false_eq_true, if_false, ih, PNode.node]
    rfl
  | .alias a t, h, f, rest, k, hf, hd => by
    simp only [PNode.fl2] at h
    obtain ⟨hne, hall, hemp⟩ := anchorName_facts a h
    have hd : Delim rest := by
      rcases hd with hd | hd
      · exact hd
      · simp [PNode.isFlowColl] at hd
    obtain ⟨f', rfl⟩ : ∃ f', f = f' + 1 := ⟨f - 1, by simp [PNode.need] at hf; omega⟩
    have hr : rest = [] ∨ ∃ d t, rest = d :: t ∧ isAnchorChar d = false := by
      rcases hd with rfl | ⟨d, r, rfl, hdf⟩
      · exact Or.inl rfl
      · refine Or.inr ⟨d, r, rfl, ?_⟩
        cases hc : isAnchorChar d with
        | false => rfl
        | true => rw [anchorChar_not_flowInd d hc] at hdf; cases hdf
    obtain ⟨s1, s2⟩ := anchorName_split a rest hall hr
    rw [parseFlow]
    have e : spaces k ++ (PNode.alias a t).flow ++ rest = spaces k ++ '*' :: (a ++ rest) := by
      simp [PNode.flow, List.append_assoc]
    rw [e, dropSpaces_spaces k '*' _ (by decide)]
    simp only [s1, s2, hemp, Bool.false_eq_true, if_false, PNode.node]
theorem flowItemsTail2 : (items : PItems) → items.fl2 = true → ∀ (f : Nat) (rest : Str) (acc : List Node), items.need ≤ f →
    parseFlowSeqTail f (items.flow false ++ ']' :: rest) acc = .ok (.seq (acc.reverse ++ items.nodes), rest)
  | .nil, _, f, rest, acc, hf => by
    obtain ⟨f', rfl⟩ : ∃ f', f = f' + 1 := ⟨f - 1, by simp [PItems.need] at hf; omega⟩
    rw [parseFlowSeqTail]
    simp [PItems.flow, dropSpaces, PItems.nodes]
  | .cons m x r, hi, f, rest, acc, hf => by
    have hx : x.fl2 = true := by simp [PItems.fl2] at hi; exact hi.1
    have hr : r.fl2 = true := by simp [PItems.fl2] at hi; exact hi.2
    have hneed : x.need + r.need + 2 ≤ f := by simpa [PItems.need] using hf
    obtain ⟨f'', rfl⟩ : ∃ f'', f = f'' + 2 := ⟨f - 2, by omega⟩
    rw [parseFlowSeqTail]
    simp only [PItems.flow, Bool.false_eq_true, if_false, List.append_assoc, List.cons_append, List.nil_append,
      dropSpaces, List.dropWhile_cons]
    simp only [show ((',' : Char) == ' ') = false by decide, Bool.false_eq_true, if_false]
    have e2 := flowNode2 x hx f'' (r.flow false ++ ']' :: rest) 0 (by omega) (Or.inl (delim_items r rest))
    simp only [spaces, List.replicate_zero, List.nil_append, List.append_assoc] at e2
    have st := itemStep f'' (m.gap + 1) x.flow (r.flow false ++ ']' :: rest) x.node acc (goodHead_flow2 x hx) e2
    simp only [List.append_assoc] at st
    rw [st, flowItemsTail2 r hr f'' rest (x.node :: acc) (by omega)]
    simp [PItems.nodes]
theorem flowEntriesTail2 : (es : PEntries) → es.fl2 = true → ∀ (f : Nat) (rest : Str) (acc : List (Node × Node)), es.need ≤ f →
    parseFlowMapTail f (es.flow false ++ '}' :: rest) acc = .ok (.map (acc.reverse ++ es.nodes), rest)
  | .nil, _, f, rest, acc, hf => by
    obtain ⟨f', rfl⟩ : ∃ f', f = f' + 1 := ⟨f - 1, by simp [PEntries.need] at hf; omega⟩
    rw [parseFlowMapTail]
    simp [PEntries.flow, dropSpaces, PEntries.nodes]
  | .cons m key ks x r, hi, f, rest, acc, hf => by
    have hk : keyOk true key ks = true := by simp [PEntries.fl2] at hi; exact hi.1.1
    have hx : x.fl2 = true := by simp [PEntries.fl2] at hi; exact hi.1.2
    have hr : r.fl2 = true := by simp [PEntries.fl2] at hi; exact hi.2
    have hneed : x.need + r.need + 3 ≤ f := by simpa [PEntries.need] using hf
    obtain ⟨f'', rfl⟩ : ∃ f'', f = f'' + 3 := ⟨f - 3, by omega⟩
    rw [parseFlowMapTail]
    simp only [PEntries.flow, Bool.false_eq_true, if_false, List.append_assoc, List.cons_append, List.nil_append,
      dropSpaces, List.dropWhile_cons]
    simp only [show ((',' : Char) == ' ') = false by decide, Bool.false_eq_true, if_false]
    have e2 := flowNode2 x hx (f'' + 1) (r.flow false ++ '}' :: rest) (m.gap + 1) (by omega) (Or.inl (delim_entries r rest))
    have ek := parseFlow_key key ks hk f'' 0 (spaces m.gap ++ (x.flow ++ (r.flow false ++ '}' :: rest)))
    have hsp : spaces (m.gap + 1) = ' ' :: spaces m.gap := by simp [spaces, List.replicate_succ]
    simp only [show spaces 0 = ([] : Str) from rfl, List.nil_append] at ek
    have st := entryStep2 (f'' + 1) 1 m.gap (keyText key ks) x.flow (r.flow false ++ '}' :: rest) (keyNode key ks) x.node acc
      (keyFacts true key ks hk).1 (goodHead_flow2 x hx)
      (by rw [hsp]; simpa [List.append_assoc] using ek) e2
    simp only [spaces, List.replicate_succ, List.replicate_zero, List.append_assoc, List.cons_append, List.nil_append] at st ⊢
    rw [st, flowEntriesTail2 r hr (f'' + 1) rest ((keyNode key ks, x.node) :: acc) (by omega)]
    simp [PEntries.nodes]
end


/-! ### flow text of layer-2 nodes: no line breaks, fuel bound, resolution -/

theorem scalar_of_fl2 (x : PNode) (h : x.fl2 = true)
    (hx : ∀ fl st c items, x ≠ .seq fl st c items) (hm : ∀ fl st c es, x ≠ .map fl st c es)
    (ha : ∀ a n, x ≠ .anchored a n := by intros; simp) (hl : ∀ a t, x ≠ .alias a t := by intros; simp) : x.sc2 true = true := by
  cases x with
  | seq fl st c items => exact absurd rfl (hx fl st c items)
  | map fl st c es => exact absurd rfl (hm fl st c es)
  | anchored a n => exact absurd rfl (ha a n)
  | alias a t => exact absurd rfl (hl a t)
  | _ => simpa [PNode.fl2] using h

mutual
theorem okc_flow2 : (n : PNode) → n.fl2 = true → n.flow.all okc = true
  | .null v, h => (scalarFacts true _ (scalar_of_fl2 _ h (by intros; simp) (by intros; simp)) (by intros; simp) (by intros; simp)).ok
  | .bool b v, h => (scalarFacts true _ (scalar_of_fl2 _ h (by intros; simp) (by intros; simp)) (by intros; simp) (by intros; simp)).ok
  | .int i v, h => (scalarFacts true _ (scalar_of_fl2 _ h (by intros; simp) (by intros; simp)) (by intros; simp) (by intros; simp)).ok
  | .str s st, h => (scalarFacts true _ (scalar_of_fl2 _ h (by intros; simp) (by intros; simp)) (by intros; simp) (by intros; simp)).ok
  | .seq fl st c items, h => by
    have hfl : fl = true := by cases fl <;> simp [PNode.fl2] at h ⊢
    subst hfl
    have hi : items.fl2 = true := by simpa [PNode.fl2] using h
    simp only [PNode.flow, List.all_cons, List.all_append, okc_flowItems2 items hi true, List.all_nil, Bool.and_true]
    decide
  | .map fl st c es, h => by
    have hfl : fl = true := by cases fl <;> simp [PNode.fl2] at h ⊢
    subst hfl
    have hi : es.fl2 = true := by simpa [PNode.fl2] using h
    simp only [PNode.flow, List.all_cons, List.all_append, okc_flowEntries2 es hi true, List.all_nil, Bool.and_true]
    decide
  | .anchored a n, h => by
    simp only [PNode.fl2, Bool.and_eq_true] at h
    have ha := anchorName_okc a (anchorName_facts a h.1.1).2.1
    simp only [PNode.flow, List.all_cons, List.all_append, ha, okc_flow2 n h.2, Bool.and_true]
    decide
  | .alias a t, h => by
    simp only [PNode.fl2] at h
    have ha := anchorName_okc a (anchorName_facts a h).2.1
    simp only [PNode.flow, List.all_cons, ha, Bool.and_true]
    decide
theorem okc_flowItems2 : (items : PItems) → items.fl2 = true → ∀ first, (items.flow first).all okc = true
  | .nil, _, _ => by simp [PItems.flow]
  | .cons m x r, hi, first => by
    have hx : x.fl2 = true := by simp [PItems.fl2] at hi; exact hi.1
    have hr : r.fl2 = true := by simp [PItems.fl2] at hi; exact hi.2
    simp only [PItems.flow, List.all_append, okc_spaces, okc_flow2 x hx, okc_flowItems2 r hr false, Bool.and_true]
    cases first <;> decide
theorem okc_flowEntries2 : (es : PEntries) → es.fl2 = true → ∀ first, (es.flow first).all okc = true
  | .nil, _, _ => by simp [PEntries.flow]
  | .cons m k ks x r, hi, first => by
    have hk : keyOk true k ks = true := by simp [PEntries.fl2] at hi; exact hi.1.1
    have hx : x.fl2 = true := by simp [PEntries.fl2] at hi; exact hi.1.2
    have hr : r.fl2 = true := by simp [PEntries.fl2] at hi; exact hi.2
    simp only [PEntries.flow, List.all_append, List.all_cons, okc_spaces, (keyFacts true k ks hk).2.1, okc_flow2 x hx,
      okc_flowEntries2 r hr false, Bool.and_true]
    cases first <;> decide
end

theorem flow_length_pos2 (n : PNode) (h : n.fl2 = true) : 1 ≤ n.flow.length := by
  obtain ⟨c, r, hc, _⟩ := goodHead_flow2 n h
  rw [hc]; simp

theorem keyText_length_pos (flow : Bool) (k : Str) (ks : KStyle) (h : keyOk flow k ks = true) : 1 ≤ (keyText k ks).length := by
  obtain ⟨c, r, hc, _⟩ := (keyFacts flow k ks h).1
  rw [hc]; simp

mutual
theorem need_bound2 : (n : PNode) → n.fl2 = true → n.need + 2 ≤ 4 * n.flow.length
  | .null v, h => by have := flow_length_pos2 (.null v) h; simp [PNode.need] at *; omega
  | .bool b v, h => by have := flow_length_pos2 (.bool b v) h; simp [PNode.need] at *; omega
  | .int i v, h => by have := flow_length_pos2 (.int i v) h; simp [PNode.need] at *; omega
  | .str s st, h => by have := flow_length_pos2 (.str s st) h; simp [PNode.need] at *; omega
  | .seq fl st c items, h => by
    have hfl : fl = true := by cases fl <;> simp [PNode.fl2] at h ⊢
    subst hfl
    have hi : items.fl2 = true := by simpa [PNode.fl2] using h
    have := need_boundItems2 items hi true
    simp [PNode.need, PNode.flow] at *; omega
  | .map fl st c es, h => by
    have hfl : fl = true := by cases fl <;> simp [PNode.fl2] at h ⊢
    subst hfl
    have hi : es.fl2 = true := by simpa [PNode.fl2] using h
    have := need_boundEntries2 es hi true
    simp [PNode.need, PNode.flow] at *; omega
  | .anchored a n, h => by
    simp only [PNode.fl2, Bool.and_eq_true] at h
    have := need_bound2 n h.2
    simp only [PNode.need, PNode.flow, List.length_cons, List.length_append]
    omega
  | .alias a t, h => by
    simp only [PNode.need, PNode.flow, List.length_cons]
    omega
theorem need_boundItems2 : (items : PItems) → items.fl2 = true → ∀ first, items.need ≤ 4 * (items.flow first).length + 4
  | .nil, _, _ => by simp [PItems.need]
  | .cons m x r, hi, first => by
    have hx : x.fl2 = true := by simp [PItems.fl2] at hi; exact hi.1
    have hr : r.fl2 = true := by simp [PItems.fl2] at hi; exact hi.2
    have h1 := need_bound2 x hx
    have h2 := need_boundItems2 r hr false
    simp only [PItems.need, PItems.flow, List.length_append]
    omega
theorem need_boundEntries2 : (es : PEntries) → es.fl2 = true → ∀ first, es.need ≤ 4 * (es.flow first).length + 4
  | .nil, _, _ => by simp [PEntries.need]
  | .cons m k ks x r, hi, first => by
    have hk : keyOk true k ks = true := by simp [PEntries.fl2] at hi; exact hi.1.1
    have hx : x.fl2 = true := by simp [PEntries.fl2] at hi; exact hi.1.2
    have hr : r.fl2 = true := by simp [PEntries.fl2] at hi; exact hi.2
    have h1 := need_bound2 x hx
    have h2 := need_boundEntries2 r hr false
    have h3 := keyText_length_pos true k ks hk
    simp only [PEntries.need, PEntries.flow, List.length_append, List.length_cons]
    omega
end


/-! ## Tree equality test is sound -/

mutual
theorem Tree.beq_eq : (a b : Tree) → a.beq b = true → a = b
  | .null, .null, _ => rfl
  | .bool x, .bool y, h => by simp only [Tree.beq, beq_iff_eq] at h; rw [h]
  | .int x, .int y, h => by simp only [Tree.beq, beq_iff_eq] at h; rw [h]
  | .str x, .str y, h => by simp only [Tree.beq, beq_iff_eq] at h; rw [h]
  | .seq x, .seq y, h => by simp only [Tree.beq] at h; rw [beqList_eq x y h]
  | .map x, .map y, h => by simp only [Tree.beq] at h; rw [beqKVs_eq x y h]
  | .null, .bool _, h => by simp [Tree.beq] at h
  | .null, .int _, h => by simp [Tree.beq] at h
  | .null, .str _, h => by simp [Tree.beq] at h
  | .null, .seq _, h => by simp [Tree.beq] at h
  | .null, .map _, h => by simp [Tree.beq] at h
  | .bool _, .null, h => by simp [Tree.beq] at h
  | .bool _, .int _, h => by simp [Tree.beq] at h
  | .bool _, .str _, h => by simp [Tree.beq] at h
  | .bool _, .seq _, h => by simp [Tree.beq] at h
  | .bool _, .map _, h => by simp [Tree.beq] at h
  | .int _, .null, h => by simp [Tree.beq] at h
  | .int _, .bool _, h => by simp [Tree.beq] at h
  | .int _, .str _, h => by simp [Tree.beq] at h
  | .int _, .seq _, h => by simp [Tree.beq] at h
  | .int _, .map _, h => by simp [Tree.beq] at h
  | .str _, .null, h => by simp [Tree.beq] at h
  | .str _, .bool _, h => by simp [Tree.beq] at h
  | .str _, .int _, h => by simp [Tree.beq] at h
  | .str _, .seq _, h => by simp [Tree.beq] at h
  | .str _, .map _, h => by simp [Tree.beq] at h
  | .seq _, .null, h => by simp [Tree.beq] at h
  | .seq _, .bool _, h => by simp [Tree.beq] at h
  | .seq _, .int _, h => by simp [Tree.beq] at h
  | .seq _, .str _, h => by simp [Tree.beq] at h
  | .seq _, .map _, h => by simp [Tree.beq] at h
  | .map _, .null, h => by simp [Tree.beq] at h
  | .map _, .bool _, h => by simp [Tree.beq] at h
  | .map _, .int _, h => by simp [Tree.beq] at h
  | .map _, .str _, h => by simp [Tree.beq] at h
  | .map _, .seq _, h => by simp [Tree.beq] at h
theorem beqList_eq : (a b : List Tree) → beqList a b = true → a = b
  | [], [], _ => rfl
  | x :: xs, y :: ys, h => by
    simp only [beqList, Bool.and_eq_true] at h
    rw [Tree.beq_eq x y h.1, beqList_eq xs ys h.2]
  | [], _ :: _, h => by simp [beqList] at h
  | _ :: _, [], h => by simp [beqList] at h
theorem beqKVs_eq : (a b : List (Str × Tree)) → beqKVs a b = true → a = b
  | [], [], _ => rfl
  | (k, x) :: xs, (l, y) :: ys, h => by
    simp only [beqKVs, Bool.and_eq_true, beq_iff_eq] at h
    rw [h.1.1, Tree.beq_eq x y h.1.2, beqKVs_eq xs ys h.2]
  | [], _ :: _, h => by simp [beqKVs] at h
  | _ :: _, [], h => by simp [beqKVs] at h
end


theorem scope_anchored (a : Str) (n : PNode) (env env' : Env) (h : (PNode.anchored a n).scope env = some env') :
    ∃ e, n.scope env = some e ∧ env' = e.take (e.length - env.length) ++ (a, n.tree) :: env := by
  simp only [PNode.scope] at h
  split at h
  · cases h
  · cases hs : n.scope env with
    | none => rw [hs] at h; cases h
    | some e => rw [hs] at h; exact ⟨e, rfl, by simpa using h.symm⟩

theorem scope_alias (a : Str) (t : Tree) (env env' : Env) (h : (PNode.alias a t).scope env = some env') :
    env' = env ∧ env.lookup a = some t := by
  simp only [PNode.scope] at h
  cases hl : env.lookup a with
  | none => rw [hl] at h; cases h
  | some t' =>
    rw [hl] at h
    by_cases hb : t'.beq t = true
    · simp only [hb, if_true, Option.some.injEq] at h
      exact ⟨h.symm, by rw [Tree.beq_eq t' t hb]⟩
    · simp [hb] at h

mutual
/-- Resolution of flow nodes follows the specification's anchor scoping. -/
theorem resolveNode2 : (n : PNode) → n.fl2 = true → ∀ env env', n.scope env = some env' →
    n.node.resolve env = .ok (n.tree, env')
  | .null v, h, env, env', hs => by
    have : env' = env := by simpa [PNode.scope] using hs.symm
    subst this
    exact (scalarFacts true _ (scalar_of_fl2 _ h (by intros; simp) (by intros; simp)) (by intros; simp) (by intros; simp)).res env'
  | .bool b v, h, env, env', hs => by
    have : env' = env := by simpa [PNode.scope] using hs.symm
    subst this
    exact (scalarFacts true _ (scalar_of_fl2 _ h (by intros; simp) (by intros; simp)) (by intros; simp) (by intros; simp)).res env'
  | .int i v, h, env, env', hs => by
    have : env' = env := by simpa [PNode.scope] using hs.symm
    subst this
    exact (scalarFacts true _ (scalar_of_fl2 _ h (by intros; simp) (by intros; simp)) (by intros; simp) (by intros; simp)).res env'
  | .str s st, h, env, env', hs => by
    have : env' = env := by simpa [PNode.scope] using hs.symm
    subst this
    exact (scalarFacts true _ (scalar_of_fl2 _ h (by intros; simp) (by intros; simp)) (by intros; simp) (by intros; simp)).res env'
  | .seq fl st c items, h, env, env', hs => by
    have hfl : fl = true := by cases fl <;> simp [PNode.fl2] at h ⊢
    subst hfl
    have hi : items.fl2 = true := by simpa [PNode.fl2] using h
    simp only [PNode.scope] at hs
    simp [PNode.node, Node.resolve, resolveItems2 items hi env env' hs, PNode.tree]; rfl
  | .map fl st c es, h, env, env', hs => by
    have hfl : fl = true := by cases fl <;> simp [PNode.fl2] at h ⊢
    subst hfl
    have hi : es.fl2 = true := by simpa [PNode.fl2] using h
    simp only [PNode.scope] at hs
    simp [PNode.node, Node.resolve, resolveEntries2 es hi env env' hs, PNode.tree]; rfl
  | .anchored a n, h, env, env', hs => by
    simp only [PNode.fl2, Bool.and_eq_true] at h
    obtain ⟨e, he, rfl⟩ := scope_anchored a n env env' hs
    simp only [PNode.node, Node.resolve, resolveNode2 n h.2 env e he, PNode.tree]
  | .alias a t, h, env, env', hs => by
    obtain ⟨rfl, hl⟩ := scope_alias a t env env' hs
    simp only [PNode.node, Node.resolve, hl, PNode.tree]
theorem resolveItems2 : (items : PItems) → items.fl2 = true → ∀ env env', items.scope env = some env' →
    resolveList env items.nodes = .ok (items.trees, env')
  | .nil, _, env, env', hs => by
    have : env' = env := by simpa [PItems.scope] using hs.symm
    subst this; simp [PItems.nodes, resolveList, PItems.trees]
  | .cons m x r, hi, env, env', hs => by
    have hx : x.fl2 = true := by simp [PItems.fl2] at hi; exact hi.1
    have hr : r.fl2 = true := by simp [PItems.fl2] at hi; exact hi.2
    simp only [PItems.scope] at hs
    cases hxs : x.scope env with
    | none => rw [hxs] at hs; cases hs
    | some e =>
      rw [hxs] at hs
      simp only [Option.bind_some] at hs
      simp [PItems.nodes, resolveList, resolveNode2 x hx env e hxs, resolveItems2 r hr e env' hs, PItems.trees]; rfl
theorem resolveEntries2 : (es : PEntries) → es.fl2 = true → ∀ env env', es.scope env = some env' →
    resolveKVs env es.nodes = .ok (es.trees, env')
  | .nil, _, env, env', hs => by
    have : env' = env := by simpa [PEntries.scope] using hs.symm
    subst this; simp [PEntries.nodes, resolveKVs, PEntries.trees]
  | .cons m k ks x r, hi, env, env', hs => by
    have hk : keyOk true k ks = true := by simp [PEntries.fl2] at hi; exact hi.1.1
    have hx : x.fl2 = true := by simp [PEntries.fl2] at hi; exact hi.1.2
    have hr : r.fl2 = true := by simp [PEntries.fl2] at hi; exact hi.2
    simp only [PEntries.scope] at hs
    cases hxs : x.scope env with
    | none => rw [hxs] at hs; cases hs
    | some e =>
      rw [hxs] at hs
      simp only [Option.bind_some] at hs
      simp [PEntries.nodes, resolveKVs, (keyFacts true k ks hk).2.2, resolveNode2 x hx env e hxs, resolveEntries2 r hr e env' hs,
        PEntries.trees]; rfl
end


/-! ## Line-level view of the block renderer -/

def fillerLine (n : Nat) : Filler → Line
  | .blank => ⟨0, []⟩
  | .comment c => ⟨n, '#' :: c⟩

def fillLines (n : Nat) (fs : List Filler) : List Line := fs.map (fillerLine n)

/-- Lines as text (each followed by a line feed). -/
def joinRaw (ls : List Line) : Str := ls.flatMap fun l => l.raw ++ ['\n']

theorem joinRaw_append (a b : List Line) : joinRaw (a ++ b) = joinRaw a ++ joinRaw b := by
  simp [joinRaw, List.flatMap_append]

theorem joinRaw_cons (l : Line) (ls : List Line) : joinRaw (l :: ls) = l.raw ++ '\n' :: joinRaw ls := by
  simp [joinRaw]

mutual
/-- The text after the indicator on its own line, and the lines that follow, of a value. -/
def PNode.valueR (ctx : Ctx) (e col : Nat) (m : Meta) : PNode → Str × List Line
  | .null v => ((if v % 5 = 4 then [] else spaces (m.gap + 1) ++ nullText v) ++ trailText m.trail, [])
  | .bool b v => (spaces (m.gap + 1) ++ boolText b v ++ trailText m.trail, [])
  | .int i v => (spaces (m.gap + 1) ++ intText i v ++ trailText m.trail, [])
  | .str s (.literal ch ind ex) =>
    (spaces (m.gap + 1) ++ ('|' :: ((if ex then natDigits 10 ind else []) ++ chompChar ch)) ++ trailText m.trail,
      bsLines ((if ctx = .root then 0 else e + 1) + ind - 1) (blockBodyLines false [] ch s))
  | .str s (.folded ch ind ex folds) =>
    (spaces (m.gap + 1) ++ ('>' :: ((if ex then natDigits 10 ind else []) ++ chompChar ch)) ++ trailText m.trail,
      bsLines ((if ctx = .root then 0 else e + 1) + ind - 1) (blockBodyLines true folds ch s))
  | .str s st => (spaces (m.gap + 1) ++ strFlowText s st ++ trailText m.trail, [])
  | .alias a _ => (spaces (m.gap + 1) ++ ('*' :: a) ++ trailText m.trail, [])
  | .anchored a n =>
    let rf := n.valueR ctx e (col + m.gap + 1 + a.length + 1) { m with gap := 0 }
    (spaces (m.gap + 1) ++ ('&' :: a) ++ rf.1, rf.2)
  | .seq true st c items => (spaces (m.gap + 1) ++ (PNode.seq true st c items).flow ++ trailText m.trail, [])
  | .map true st c entries => (spaces (m.gap + 1) ++ (PNode.map true st c entries).flow ++ trailText m.trail, [])
  | .seq false st c items =>
    if c then
      match items.linesR (col + m.gap + 1) with
      | [] => (spaces (m.gap + 1), [])
      | l :: ls => (spaces (m.gap + 1) ++ l.txt, ls)
    else (trailText m.trail, items.linesR (if ctx = .root then 0 else e + st))
  | .map false st c entries =>
    if c then
      match entries.linesR (col + m.gap + 1) with
      | [] => (spaces (m.gap + 1), [])
      | l :: ls => (spaces (m.gap + 1) ++ l.txt, ls)
    else (trailText m.trail, entries.linesR (if ctx = .root then 0 else e + st))
def PItems.linesR (n : Nat) : PItems → List Line
  | .nil => []
  | .cons m x rest =>
    fillLines n m.fill ++ ⟨n, '-' :: (x.valueR .seq n (n + 1) m).1⟩ :: ((x.valueR .seq n (n + 1) m).2 ++ rest.linesR n)
def PEntries.linesR (n : Nat) : PEntries → List Line
  | .nil => []
  | .cons m k ks x rest =>
    fillLines n m.fill ++ ⟨n, keyText k ks ++ ':' :: (x.valueR .map n (n + (keyText k ks).length + 1) m).1⟩
      :: ((x.valueR .map n (n + (keyText k ks).length + 1) m).2 ++ rest.linesR n)
end

theorem raw_mkLine (s : Str) : (mkLine s).raw = s := by
  simp only [Line.raw, mkLine, spaces]
  induction s with
  | nil => rfl
  | cons c t ih =>
    by_cases h : c = ' '
    · subst h
      simp only [List.takeWhile_cons, beq_self_eq_true, if_true, List.length_cons, List.replicate_succ,
        List.dropWhile_cons, List.cons_append]
      rw [ih]
    · simp [List.takeWhile_cons, List.dropWhile_cons, h]

theorem fillText_eq (n : Nat) (fs : List Filler) : fillText n fs = joinRaw (fillLines n fs) := by
  induction fs with
  | nil => rfl
  | cons f fs ih =>
    simp only [fillText, List.flatMap_cons, fillLines, List.map_cons, joinRaw_cons] at ih ⊢
    rw [ih]
    cases f <;> simp [fillerText, fillerLine, Line.raw, spaces]

theorem bs_body_eq (ci : Nat) (body : List Str) :
    body.flatMap (fun l => indentLine ci l ++ ['\n']) = joinRaw (bsLines ci body) := by
  simp only [joinRaw, bsLines, List.flatMap_map, raw_mkLine]


mutual
/-- Compact collections are non-empty and their first entry has no filler lines. -/
def PNode.cwf : PNode → Bool
  | .seq false _ c items => (!c || (!items.isNil && items.firstFillEmpty)) && items.cwf
  | .map false _ c es => (!c || (!es.isNil && es.firstFillEmpty)) && es.cwf
  | .anchored _ n => n.cwf
  | _ => true
def PItems.cwf : PItems → Bool
  | .nil => true
  | .cons _ x r => x.cwf && r.cwf
def PEntries.cwf : PEntries → Bool
  | .nil => true
  | .cons _ _ _ x r => x.cwf && r.cwf
end

theorem blockScalarText_eq (folded : Bool) (ch : Chomp) (ind : Nat) (ex : Bool) (folds : List Nat) (pn : Nat) (tr s : Str) :
    blockScalarText folded ch ind ex folds pn tr s =
      ((if folded then '>' else '|') :: ((if ex then natDigits 10 ind else []) ++ chompChar ch)) ++ tr ++
        '\n' :: joinRaw (bsLines (pn + ind - 1) (blockBodyLines folded folds ch s)) := by
  simp only [blockScalarText, bs_body_eq, List.append_assoc, List.cons_append, List.nil_append, List.singleton_append]

mutual
theorem value_eq : (x : PNode) → x.cwf = true → ∀ (ctx : Ctx) (e col : Nat) (m : Meta),
    x.value ctx e col m = (x.valueR ctx e col m).1 ++ '\n' :: joinRaw (x.valueR ctx e col m).2
  | .null v, _, ctx, e, col, m => by
    by_cases h : v % 5 = 4 <;> simp [PNode.value, PNode.valueR, h, joinRaw]
  | .bool b v, _, ctx, e, col, m => by simp [PNode.value, PNode.valueR, joinRaw]
  | .int i v, _, ctx, e, col, m => by simp [PNode.value, PNode.valueR, joinRaw]
  | .str s st, _, ctx, e, col, m => by
    cases st with
    | literal ch ind ex =>
      simp only [PNode.value, PNode.valueR, blockScalarText_eq, List.append_assoc, List.cons_append]
      simp
    | folded ch ind ex fo =>
      simp only [PNode.value, PNode.valueR, blockScalarText_eq, List.append_assoc, List.cons_append]
      simp
    | plain => simp [PNode.value, PNode.valueR, joinRaw]
    | single => simp [PNode.value, PNode.valueR, joinRaw]
    | double sh eu => simp [PNode.value, PNode.valueR, joinRaw]
  | .alias a t, _, ctx, e, col, m => by simp [PNode.value, PNode.valueR, joinRaw]
  | .anchored a n, h, ctx, e, col, m => by
    have hn : n.cwf = true := by simpa [PNode.cwf] using h
    simp only [PNode.value, PNode.valueR, value_eq n hn, List.append_assoc, List.cons_append]
  | .seq fl st c items, h, ctx, e, col, m => by
    cases fl with
    | true => simp [PNode.value, PNode.valueR, joinRaw]
    | false =>
      have hi : items.cwf = true := by simp [PNode.cwf] at h; exact h.2
      cases c with
      | false =>
        simp only [PNode.value, PNode.valueR, Bool.false_eq_true, if_false, items_block_eq items hi true]
        cases items with
        | nil => simp [PItems.linesR, joinRaw]
        | cons m' x' r' =>
          simp only [PItems.linesR, joinRaw_append, joinRaw_cons, fillText_eq, if_true, Line.raw, List.append_assoc,
            List.cons_append, List.nil_append]
      | true =>
        cases items with
        | nil => simp [PNode.cwf, PItems.isNil] at h
        | cons m' x r =>
          have hf : m'.fill = [] := by
            simp [PNode.cwf, PItems.isNil, PItems.firstFillEmpty] at h; exact h.1
          have hb := items_block_eq (.cons m' x r) hi false (col + m.gap + 1)
          simp only [PNode.value, PNode.valueR, if_true, PItems.linesR, hf, fillLines, List.map_nil, List.nil_append, hb,
            fillText, List.flatMap_nil, Bool.false_eq_true, if_false, List.append_assoc, List.cons_append]
  | .map fl st c es, h, ctx, e, col, m => by
    cases fl with
    | true => simp [PNode.value, PNode.valueR, joinRaw]
    | false =>
      have hi : es.cwf = true := by simp [PNode.cwf] at h; exact h.2
      cases c with
      | false =>
        simp only [PNode.value, PNode.valueR, Bool.false_eq_true, if_false, entries_block_eq es hi true]
        cases es with
        | nil => simp [PEntries.linesR, joinRaw]
        | cons m' k' ks' x' r' =>
          simp only [PEntries.linesR, joinRaw_append, joinRaw_cons, fillText_eq, if_true, Line.raw, List.append_assoc,
            List.cons_append, List.nil_append]
      | true =>
        cases es with
        | nil => simp [PNode.cwf, PEntries.isNil] at h
        | cons m' k ks x r =>
          have hf : m'.fill = [] := by
            simp [PNode.cwf, PEntries.isNil, PEntries.firstFillEmpty] at h; exact h.1
          have hb := entries_block_eq (.cons m' k ks x r) hi false (col + m.gap + 1)
          simp only [PNode.value, PNode.valueR, if_true, PEntries.linesR, hf, fillLines, List.map_nil, List.nil_append, hb,
            fillText, List.flatMap_nil, Bool.false_eq_true, if_false, List.append_assoc, List.cons_append]
/-- Text of the entries of a block sequence in terms of its lines. -/
theorem items_block_eq : (items : PItems) → items.cwf = true → ∀ (indentFirst : Bool) (n : Nat),
    items.block indentFirst n =
      match items with
      | .nil => []
      | .cons m x r =>
        fillText n m.fill ++ ((if indentFirst then spaces n else []) ++
          '-' :: ((x.valueR .seq n (n + 1) m).1 ++ '\n' :: joinRaw ((x.valueR .seq n (n + 1) m).2 ++ r.linesR n)))
  | .nil, _, _, _ => by simp [PItems.block]
  | .cons m x r, h, indentFirst, n => by
    have hx : x.cwf = true := by simp [PItems.cwf] at h; exact h.1
    have hr : r.cwf = true := by simp [PItems.cwf] at h; exact h.2
    have hrest : r.block true n = joinRaw (r.linesR n) := by
      have := items_block_eq r hr true n
      rw [this]
      cases r with
      | nil => simp [PItems.linesR, joinRaw]
      | cons m' x' r' =>
        simp only [PItems.linesR, joinRaw_append, joinRaw_cons, fillText_eq, if_true, Line.raw, List.append_assoc,
          List.cons_append]
    simp only [PItems.block, value_eq x hx, hrest, joinRaw_append, List.append_assoc, List.cons_append]
theorem entries_block_eq : (es : PEntries) → es.cwf = true → ∀ (indentFirst : Bool) (n : Nat),
    es.block indentFirst n =
      match es with
      | .nil => []
      | .cons m k ks x r =>
        fillText n m.fill ++ ((if indentFirst then spaces n else []) ++
          keyText k ks ++ ':' :: ((x.valueR .map n (n + (keyText k ks).length + 1) m).1 ++
            '\n' :: joinRaw ((x.valueR .map n (n + (keyText k ks).length + 1) m).2 ++ r.linesR n)))
  | .nil, _, _, _ => by simp [PEntries.block]
  | .cons m k ks x r, h, indentFirst, n => by
    have hx : x.cwf = true := by simp [PEntries.cwf] at h; exact h.1
    have hr : r.cwf = true := by simp [PEntries.cwf] at h; exact h.2
    have hrest : r.block true n = joinRaw (r.linesR n) := by
      have := entries_block_eq r hr true n
      rw [this]
      cases r with
      | nil => simp [PEntries.linesR, joinRaw]
      | cons m' k' ks' x' r' =>
        simp only [PEntries.linesR, joinRaw_append, joinRaw_cons, fillText_eq, if_true, Line.raw, List.append_assoc,
          List.cons_append]
    simp only [PEntries.block, value_eq x hx, hrest, joinRaw_append, List.append_assoc, List.cons_append]
end


/-! ## Lines read back from their text -/

/-- A line in the form `mkLine` produces: content does not start with a space, and no character
is a line break. -/
def Line.canon (l : Line) : Prop := l.txt.head? ≠ some ' ' ∧ l.txt.all okc = true

theorem mkLine_raw (l : Line) (h : l.txt.head? ≠ some ' ') : mkLine l.raw = l := by
  obtain ⟨n, t⟩ := l
  simp only [Line.raw, mkLine, spaces] at *
  induction n with
  | zero =>
    cases t with
    | nil => rfl
    | cons c r =>
      have hc : c ≠ ' ' := by simpa using h
      simp [List.takeWhile_cons, List.dropWhile_cons, hc]
  | succ n ih =>
    simp only [List.replicate_succ, List.cons_append, List.takeWhile_cons, List.dropWhile_cons, beq_self_eq_true,
      if_true, List.length_cons]
    have := ih
    simp only [Line.mk.injEq] at this ⊢
    exact ⟨by rw [this.1], this.2⟩

theorem okc_raw (l : Line) (h : l.txt.all okc = true) : l.raw.all okc = true := by
  simp only [Line.raw, List.all_append, okc_spaces, h, Bool.and_self]

theorem joinRaw_eq_joinLines (ls : List Line) : joinRaw ls = joinLines (ls.map Line.raw) := by
  simp [joinRaw, joinLines, List.flatMap_map]

theorem linesOf_joinRaw (ls : List Line) (h : ∀ l ∈ ls, l.canon) : linesOf (joinRaw ls) = ls := by
  rw [joinRaw_eq_joinLines, linesOf_join]
  · rw [List.map_map]
    conv => rhs; rw [← List.map_id ls]
    apply List.map_congr_left
    intro l hl
    exact mkLine_raw l (h l hl).1
  · intro s hs
    obtain ⟨l, hl, rfl⟩ := List.mem_map.mp hs
    exact okc_raw l (h l hl).2

theorem nocr_joinRaw (ls : List Line) (h : ∀ l ∈ ls, l.canon) : (joinRaw ls).all (· != '\r') = true := by
  rw [joinRaw_eq_joinLines]
  apply nocr_join
  intro s hs
  obtain ⟨l, hl, rfl⟩ := List.mem_map.mp hs
  exact okc_raw l (h l hl).2

/-! ## Layer 2: block presentations -/

/-- A compact block collection (its first entry continues the parent's `- ` line). -/
def PNode.isCompact : PNode → Bool
  | .seq false _ c _ => c
  | .map false _ c _ => c
  | _ => false

/-- The trailing comment of an entry: printable, and none on the line of a compact collection. -/
def trailOk2 (m : Meta) (x : PNode) : Bool :=
  match m.trail with
  | none => true
  | some c => commentOk c && !x.isCompact

theorem trail_facts (m : Meta) (x : PNode) (h : trailOk2 m x = true) :
    TrailOk (trailText m.trail) ∧ (trailText m.trail).all okc = true ∧ (x.isCompact = true → m.trail = none) := by
  refine ⟨trailOk_trailText _, ?_, ?_⟩
  · cases ht : m.trail with
    | none => rfl
    | some c =>
      simp only [trailOk2, ht, Bool.and_eq_true] at h
      simp only [trailText, List.all_cons]
      have := okc_of_printable c h.1
      simp [this, okc]
  · intro hc
    cases ht : m.trail with
    | none => rfl
    | some c => simp [trailOk2, ht, hc] at h

theorem restShape_trail (T : Str) (h : TrailOk T) : T = [] ∨ T.head? = some ' ' := by
  rcases h with rfl | ⟨c, rfl⟩
  · exact Or.inl rfl
  · exact Or.inr rfl

/-- A block collection is not empty; a compact one starts without filler lines. -/
def PItems.startOk (items : PItems) (c : Bool) (ctx : Ctx) : Bool :=
  !items.isNil && (!c || items.firstFillEmpty)
def PEntries.startOk (es : PEntries) (c : Bool) (ctx : Ctx) : Bool :=
  !es.isNil && (!c || es.firstFillEmpty)

/-- The filler lines before a sequence entry: admissible comments / blank lines, and no blank line
right after a value that ends in a keep-chomped block scalar. -/
def itemFill (m : Meta) (x : PNode) (r : PItems) : Bool :=
  m.fill.all fillerOk && (match r with | .cons m' _ _ => !(x.endsKeep && startsBlank m') | .nil => true)

def entryFill (m : Meta) (x : PNode) (r : PEntries) : Bool :=
  m.fill.all fillerOk && (match r with | .cons m' _ _ _ _ => !(x.endsKeep && startsBlank m') | .nil => true)

theorem fillLines_filler (n : Nat) (fs : List Filler) : ∀ l ∈ fillLines n fs, l.isFiller = true := by
  intro l hl
  obtain ⟨f, _, rfl⟩ := List.mem_map.mp hl
  cases f <;> simp [fillerLine, Line.isFiller]

theorem skipFill_fillLines (n : Nat) (fs : List Filler) (ls : List Line) :
    skipFill (fillLines n fs ++ ls) = skipFill ls := by
  induction fs with
  | nil => rfl
  | cons f fs ih =>
    have : (fillerLine n f).isFiller = true := fillLines_filler n [f] _ (by simp [fillLines])
    simp only [fillLines, List.map_cons, List.cons_append, skipFill, this, if_true] at ih ⊢
    exact ih

theorem fillLines_canon (n : Nat) (fs : List Filler) (h : fs.all fillerOk = true) : ∀ l ∈ fillLines n fs, l.canon := by
  intro l hl
  obtain ⟨f, hf, rfl⟩ := List.mem_map.mp hl
  have hfo := List.all_eq_true.mp h f hf
  cases f with
  | blank => exact ⟨by simp [fillerLine], by simp [fillerLine]⟩
  | comment c =>
    refine ⟨by simp [fillerLine], ?_⟩
    simp only [fillerLine, List.all_cons]
    have := okc_of_printable c (by simpa [fillerOk, commentOk] using hfo)
    simp [this, okc]

/-- Filler lines followed by a line with content not deeper than `n`. -/
theorem tail_fill (n : Nat) (k : Bool) (fs : List Filler) (L : Line) (more : List Line)
    (hne : L.txt.isEmpty = false) (hle : L.ind ≤ n) (hk : k = true → fs.head? ≠ some .blank) :
    Tail n k (fillLines n fs ++ L :: more) := by
  refine ⟨?_, ?_, ?_⟩
  · clear hk
    induction fs with
    | nil =>
      intro l r h
      simp only [fillLines, List.map_nil, List.nil_append, List.dropWhile_cons, blankL, hne, Bool.false_eq_true, if_false,
        List.cons.injEq] at h
      rw [← h.1]; exact hle
    | cons f fs ih =>
      intro l r h
      cases f with
      | blank =>
        simp only [fillLines, List.map_cons, fillerLine, List.cons_append, List.dropWhile_cons, blankL, List.isEmpty_nil,
          if_true] at h
        exact ih l r h
      | comment c =>
        simp only [fillLines, List.map_cons, fillerLine, List.cons_append, List.dropWhile_cons, blankL, List.isEmpty_cons,
          Bool.false_eq_true, if_false, List.cons.injEq] at h
        rw [← h.1]; exact Nat.le_refl _
  · clear hk
    induction fs with
    | nil => intro l h; simp [fillLines, List.takeWhile_cons, blankL, hne] at h
    | cons f fs ih =>
      intro l h
      cases f with
      | blank =>
        simp only [fillLines, List.map_cons, fillerLine, List.cons_append, List.takeWhile_cons, blankL, List.isEmpty_nil,
          if_true, List.mem_cons] at h
        rcases h with h | h
        · rw [h]
        · exact ih l h
      | comment c =>
        simp [fillLines, fillerLine, List.takeWhile_cons, blankL] at h
  · intro hk' l r h
    cases fs with
    | nil =>
      simp only [fillLines, List.map_nil, List.nil_append, List.cons.injEq] at h
      rw [← h.1]; exact hne
    | cons f fs =>
      cases f with
      | blank => exact absurd rfl (hk hk')
      | comment c =>
        simp only [fillLines, List.map_cons, fillerLine, List.cons_append, List.cons.injEq] at h
        rw [← h.1]; rfl

theorem anchorable_noncompact (n : PNode) (fl : Bool) (h : n.anchorable fl = true) : n.isCompact = false := by
  cases n with
  | seq f st c items => cases f <;> simp_all [PNode.anchorable, PNode.isCompact]
  | map f st c es => cases f <;> simp_all [PNode.anchorable, PNode.isCompact]
  | _ => rfl

theorem trailOk2_inner (m : Meta) (a : Str) (n : PNode) (h : trailOk2 m (.anchored a n) = true) (hn : n.anchorable false = true) :
    trailOk2 { m with gap := 0 } n = true := by
  have hc := anchorable_noncompact n false hn
  cases ht : m.trail with
  | none => simp [trailOk2, ht]
  | some c =>
    simp only [trailOk2, ht, PNode.isCompact, Bool.not_false, Bool.and_true] at h
    simp only [trailOk2, ht, hc, Bool.not_false, Bool.and_true]; exact h

mutual
/-- A value of layers 2–4 in context `ctx` (`m` = its entry's meta): scalars, block scalars below the
root, flow collections, block collections — nested with steps, compact after `- ` —, trailing comments
on entries, comment and blank lines between entries; no anchors / aliases. -/
def PNode.bl2 (ctx : Ctx) : PNode → Bool
  | .seq false st c items =>
    items.startOk c ctx && items.bl2 &&
      (if c then ctx == .seq else ctx == .root || 1 ≤ st || (ctx == .map && st == 0))
  | .map false st c es =>
    es.startOk c ctx && es.bl2 && (if c then ctx == .seq else ctx == .root || 1 ≤ st)
  | .seq true st c items => (PNode.seq true st c items).fl2
  | .map true st c es => (PNode.map true st c es).fl2
  | .str s (.literal ch ind ex) => strOk false (ctx == .root) s (.literal ch ind ex)
  | .str s (.folded ch ind ex fo) => strOk false (ctx == .root) s (.folded ch ind ex fo)
  | .anchored a n => anchorNameOk a && n.anchorable false && n.bl2 ctx
  | .alias a _ => anchorNameOk a
  | x => x.sc2 false
def PItems.bl2 : PItems → Bool
  | .nil => true
  | .cons m x r => itemFill m x r && trailOk2 m x && x.bl2 .seq && r.bl2
def PEntries.bl2 : PEntries → Bool
  | .nil => true
  | .cons m k ks x r => entryFill m x r && trailOk2 m x && keyOk false k ks && x.bl2 .map && r.bl2
end


theorem startOk_items (items : PItems) (c : Bool) (ctx : Ctx) (h : items.startOk c ctx = true) :
    items.isNil = false ∧ (c = true → items.firstFillEmpty = true) := by
  simp only [PItems.startOk, Bool.and_eq_true, Bool.not_eq_true', Bool.or_eq_true, Bool.not_eq_true'] at h
  refine ⟨h.1, ?_⟩
  intro hc
  rcases h.2 with h2 | h2
  · rw [hc] at h2; cases h2
  · exact h2

theorem startOk_entries (es : PEntries) (c : Bool) (ctx : Ctx) (h : es.startOk c ctx = true) :
    es.isNil = false ∧ (c = true → es.firstFillEmpty = true) := by
  simp only [PEntries.startOk, Bool.and_eq_true, Bool.not_eq_true', Bool.or_eq_true, Bool.not_eq_true'] at h
  refine ⟨h.1, ?_⟩
  intro hc
  rcases h.2 with h2 | h2
  · rw [hc] at h2; cases h2
  · exact h2

theorem first_fill_items (m : Meta) (x : PNode) (r : PItems) (c : Bool) (ctx : Ctx)
    (h : (PItems.cons m x r).startOk c ctx = true) (hc : c = true) : m.fill = [] := by
  have := (startOk_items _ c ctx h).2 hc
  simpa [PItems.firstFillEmpty] using this
theorem first_fill_entries (m : Meta) (k : Str) (ks : KStyle) (x : PNode) (r : PEntries) (c : Bool) (ctx : Ctx)
    (h : (PEntries.cons m k ks x r).startOk c ctx = true) (hc : c = true) : m.fill = [] := by
  have := (startOk_entries _ c ctx h).2 hc
  simpa [PEntries.firstFillEmpty] using this

theorem itemFill_ok (m : Meta) (x : PNode) (r : PItems) (h : itemFill m x r = true) : m.fill.all fillerOk = true := by
  simp only [itemFill, Bool.and_eq_true] at h; exact h.1
theorem entryFill_ok (m : Meta) (x : PNode) (r : PEntries) (h : entryFill m x r = true) : m.fill.all fillerOk = true := by
  simp only [entryFill, Bool.and_eq_true] at h; exact h.1

/-- The text of an inline (single-line) layer-2 value: a block-context scalar or a flow collection. -/
def PNode.isInline2 : PNode → Bool
  | .seq false _ _ _ => false
  | .map false _ _ _ => false
  | .str _ (.literal _ _ _) => false
  | .str _ (.folded _ _ _ _) => false
  | .anchored _ _ => false
  | _ => true

/-- `valueR` of an inline value. -/
theorem valueR_inline (x : PNode) (ctx : Ctx) (h : x.bl2 ctx = true) (hi : x.isInline2 = true) (e col : Nat) (m : Meta) :
    x.valueR ctx e col m = ((if x.flow = [] then [] else spaces (m.gap + 1) ++ x.flow) ++ trailText m.trail, []) := by
  cases x with
  | null v =>
    by_cases h4 : v % 5 = 4
    · simp [PNode.valueR, PNode.flow, nullText, h4]
    · have hne : nullText v ≠ [] := by
        have := tokOk_nullText v h4; exact this.2.1
      simp [PNode.valueR, PNode.flow, h4, hne]
  | bool b v =>
    have hne : boolText b v ≠ [] := (tokOk_boolText b v).2.1
    simp [PNode.valueR, PNode.flow, hne]
  | int i v =>
    have hne : intText i v ≠ [] := (intText_facts i v).1.2.1
    simp [PNode.valueR, PNode.flow, hne]
  | str s st =>
    cases st with
    | plain =>
      have hs : plainSafe false s = true := by simp [PNode.bl2, PNode.sc2] at h; exact h.1
      have hne : s ≠ [] := by
        intro e; subst e; simp [plainSafe, plainFirstOk] at hs
      simp [PNode.valueR, PNode.flow, strFlowText, hne]
    | single => simp [PNode.valueR, PNode.flow, strFlowText, sqText]
    | double sh eu => simp [PNode.valueR, PNode.flow, strFlowText, dqText]
    | literal ch ind ex => simp [PNode.isInline2] at hi
    | folded ch ind ex fo => simp [PNode.isInline2] at hi
  | seq fl st c items =>
    cases fl with
    | true => simp [PNode.valueR, PNode.flow]
    | false => simp [PNode.isInline2] at hi
  | map fl st c es =>
    cases fl with
    | true => simp [PNode.valueR, PNode.flow]
    | false => simp [PNode.isInline2] at hi
  | anchored a n => simp [PNode.isInline2] at hi
  | alias a t => simp [PNode.valueR, PNode.flow]


/-- Shape of the rest of an indicator line: empty, or starting with a space. -/
def RestShape (r : Str) : Prop := r = [] ∨ r.head? = some ' '

theorem okc_inline2 (x : PNode) (ctx : Ctx) (h : x.bl2 ctx = true) (hi : x.isInline2 = true) : x.flow.all okc = true := by
  cases x with
  | seq fl st c items =>
    cases fl with
    | true => exact okc_flow2 _ (by simpa [PNode.bl2] using h)
    | false => simp [PNode.isInline2] at hi
  | map fl st c es =>
    cases fl with
    | true => exact okc_flow2 _ (by simpa [PNode.bl2] using h)
    | false => simp [PNode.isInline2] at hi
  | null v => exact (scalarFacts false (.null v) (by simp [PNode.sc2]) (by intros; simp) (by intros; simp)).ok
  | bool b v => exact (scalarFacts false (.bool b v) (by simp [PNode.sc2]) (by intros; simp) (by intros; simp)).ok
  | int i v => exact (scalarFacts false (.int i v) (by simp [PNode.sc2]) (by intros; simp) (by intros; simp)).ok
  | str s st =>
    cases st with
    | literal ch ind ex => simp [PNode.isInline2] at hi
    | plain => exact (scalarFacts false (.str s .plain) (by simpa [PNode.bl2] using h) (by intros; simp) (by intros; simp)).ok
    | single => exact (scalarFacts false (.str s .single) (by simpa [PNode.bl2] using h) (by intros; simp) (by intros; simp)).ok
    | double sh eu => exact (scalarFacts false (.str s (.double sh eu)) (by simp [PNode.sc2]) (by intros; simp) (by intros; simp)).ok
    | folded ch ind ex fo => simp [PNode.isInline2] at hi
  | anchored a n => simp [PNode.isInline2] at hi
  | alias a t =>
    simp only [PNode.bl2] at h
    have := anchorName_okc a (anchorName_facts a h).2.1
    simp only [PNode.flow, List.all_cons, this, Bool.and_true]; decide

mutual
theorem cwf_of_bl2 : (x : PNode) → ∀ ctx, x.bl2 ctx = true → x.cwf = true
  | .seq fl st c items, ctx, h => by
    cases fl with
    | true => simp [PNode.cwf]
    | false =>
      simp only [PNode.bl2, Bool.and_eq_true, Bool.not_eq_true'] at h
      obtain ⟨hn, hff⟩ := startOk_items items c ctx h.1.1
      cases c with
      | false => simp [PNode.cwf, cwf_of_bl2_items items h.1.2]
      | true => simp [PNode.cwf, hn, hff rfl, cwf_of_bl2_items items h.1.2]
  | .map fl st c es, ctx, h => by
    cases fl with
    | true => simp [PNode.cwf]
    | false =>
      simp only [PNode.bl2, Bool.and_eq_true, Bool.not_eq_true'] at h
      obtain ⟨hn, hff⟩ := startOk_entries es c ctx h.1.1
      cases c with
      | false => simp [PNode.cwf, cwf_of_bl2_entries es h.1.2]
      | true => simp [PNode.cwf, hn, hff rfl, cwf_of_bl2_entries es h.1.2]
  | .null _, _, _ => rfl
  | .bool _ _, _, _ => rfl
  | .int _ _, _, _ => rfl
  | .str _ _, _, _ => rfl
  | .anchored a n, ctx, h => by
    simp only [PNode.bl2, Bool.and_eq_true] at h
    simp only [PNode.cwf]; exact cwf_of_bl2 n ctx h.2
  | .alias _ _, _, _ => rfl
theorem cwf_of_bl2_items : (items : PItems) → items.bl2 = true → items.cwf = true
  | .nil, _ => rfl
  | .cons m x r, h => by
    simp only [PItems.bl2, Bool.and_eq_true] at h
    simp [PItems.cwf, cwf_of_bl2 x .seq h.1.2, cwf_of_bl2_items r h.2]
theorem cwf_of_bl2_entries : (es : PEntries) → es.bl2 = true → es.cwf = true
  | .nil, _ => rfl
  | .cons m k ks x r, h => by
    simp only [PEntries.bl2, Bool.and_eq_true] at h
    simp [PEntries.cwf, cwf_of_bl2 x .map h.1.2, cwf_of_bl2_entries r h.2]
end

mutual
/-- Rendered lines of layer-2 values are canonical; the rest of the indicator line is empty or starts
with a space and contains no line break. -/
theorem canon_value : (x : PNode) → ∀ ctx, x.bl2 ctx = true → ∀ (e col : Nat) (m : Meta), trailOk2 m x = true →
    RestShape (x.valueR ctx e col m).1 ∧ (x.valueR ctx e col m).1.all okc = true ∧ ∀ l ∈ (x.valueR ctx e col m).2, l.canon
  | .seq fl st c items, ctx, h, e, col, m, ht => by
    obtain ⟨hT, hTok, hTc⟩ := trail_facts m _ ht
    cases fl with
    | true =>
      rw [valueR_inline _ ctx h rfl e col m]
      have hne : (PNode.seq true st c items).flow ≠ [] := by simp [PNode.flow]
      simp only [hne, if_false]
      refine ⟨Or.inr (by simp [spaces, List.replicate_succ]), ?_, by simp⟩
      simp only [List.all_append, okc_spaces, okc_inline2 _ ctx h rfl, hTok, Bool.and_self]
    | false =>
      simp only [PNode.bl2, Bool.and_eq_true, Bool.not_eq_true'] at h
      have hi := h.1.2
      cases c with
      | false =>
        simp only [PNode.valueR, Bool.false_eq_true, if_false]
        exact ⟨restShape_trail _ hT, hTok, canon_items items hi _⟩
      | true =>
        have ht0 : m.trail = none := hTc rfl
        cases items with
        | nil => simp [PItems.startOk, PItems.isNil] at h
        | cons m' x r =>
          have hc := canon_items (.cons m' x r) hi (col + m.gap + 1)
          have hf : m'.fill = [] := first_fill_items m' x r true ctx h.1.1 rfl
          simp only [PNode.valueR, if_true, PItems.linesR, hf, fillLines, List.map_nil, List.nil_append] at hc ⊢
          have h0 := hc _ (List.mem_cons_self ..)
          refine ⟨Or.inr (by simp [spaces, List.replicate_succ]), ?_, fun l hl => hc l (List.mem_cons_of_mem _ hl)⟩
          simp only [List.all_append, okc_spaces, Bool.true_and]
          exact h0.2
  | .map fl st c es, ctx, h, e, col, m, ht => by
    obtain ⟨hT, hTok, hTc⟩ := trail_facts m _ ht
    cases fl with
    | true =>
      rw [valueR_inline _ ctx h rfl e col m]
      have hne : (PNode.map true st c es).flow ≠ [] := by simp [PNode.flow]
      simp only [hne, if_false]
      refine ⟨Or.inr (by simp [spaces, List.replicate_succ]), ?_, by simp⟩
      simp only [List.all_append, okc_spaces, okc_inline2 _ ctx h rfl, hTok, Bool.and_self]
    | false =>
      simp only [PNode.bl2, Bool.and_eq_true, Bool.not_eq_true'] at h
      have hi := h.1.2
      cases c with
      | false =>
        simp only [PNode.valueR, Bool.false_eq_true, if_false]
        exact ⟨restShape_trail _ hT, hTok, canon_entries es hi _⟩
      | true =>
        cases es with
        | nil => simp [PEntries.startOk, PEntries.isNil] at h
        | cons m' k ks x r =>
          have hc := canon_entries (.cons m' k ks x r) hi (col + m.gap + 1)
          have hf : m'.fill = [] := first_fill_entries m' k ks x r true ctx h.1.1 rfl
          simp only [PNode.valueR, if_true, PEntries.linesR, hf, fillLines, List.map_nil, List.nil_append] at hc ⊢
          have h0 := hc _ (List.mem_cons_self ..)
          refine ⟨Or.inr (by simp [spaces, List.replicate_succ]), ?_, fun l hl => hc l (List.mem_cons_of_mem _ hl)⟩
          have h02 := h0.2
          simp only [List.all_append] at h02 ⊢
          simp only [okc_spaces, Bool.true_and]
          exact h02
  | .null v, ctx, h, e, col, m, ht => by
    obtain ⟨hT, hTok, -⟩ := trail_facts m _ ht
    rw [valueR_inline _ ctx h rfl e col m]
    have hok := okc_inline2 _ ctx h rfl
    split
    · exact ⟨by simp only [List.nil_append]; exact restShape_trail _ hT, by simpa using hTok, by simp⟩
    · exact ⟨Or.inr (by simp [spaces, List.replicate_succ]), by simp only [List.all_append, okc_spaces, hok, hTok, Bool.and_self], by simp⟩
  | .bool b v, ctx, h, e, col, m, ht => by
    obtain ⟨hT, hTok, -⟩ := trail_facts m _ ht
    rw [valueR_inline _ ctx h rfl e col m]
    have hok := okc_inline2 _ ctx h rfl
    split
    · exact ⟨by simp only [List.nil_append]; exact restShape_trail _ hT, by simpa using hTok, by simp⟩
    · exact ⟨Or.inr (by simp [spaces, List.replicate_succ]), by simp only [List.all_append, okc_spaces, hok, hTok, Bool.and_self], by simp⟩
  | .int i v, ctx, h, e, col, m, ht => by
    obtain ⟨hT, hTok, -⟩ := trail_facts m _ ht
    rw [valueR_inline _ ctx h rfl e col m]
    have hok := okc_inline2 _ ctx h rfl
    split
    · exact ⟨by simp only [List.nil_append]; exact restShape_trail _ hT, by simpa using hTok, by simp⟩
    · exact ⟨Or.inr (by simp [spaces, List.replicate_succ]), by simp only [List.all_append, okc_spaces, hok, hTok, Bool.and_self], by simp⟩
  | .str s st, ctx, h, e, col, m, ht => by
    obtain ⟨hT, hTok, -⟩ := trail_facts m _ ht
    cases st
    case literal ch ind ex =>
      simp only [PNode.bl2] at h
      have hs := h
      simp only [strOk, Bool.not_false, Bool.true_and, Bool.and_eq_true, decide_eq_true_eq] at hs
      obtain ⟨⟨⟨⟨⟨hind, h9⟩, hlines⟩, hch⟩, hex⟩, hroot⟩ := hs
      simp only [PNode.valueR]
      refine ⟨Or.inr (by simp [spaces, List.replicate_succ]), ?_, ?_⟩
      · rw [List.all_append, List.all_append, okc_spaces, Bool.true_and, hTok, Bool.and_true]
        exact hdr_okc '|' (by decide) ex ind ch h9
      · intro l hl
        exact bsLines_canon _ _ (body_lines_printable ch s hlines hch) l hl
    case folded ch ind ex fo =>
      simp only [PNode.bl2] at h
      have hs := h
      simp only [strOk, Bool.not_false, Bool.true_and, Bool.and_eq_true, decide_eq_true_eq,
        bne_iff_ne, ne_eq] at hs
      obtain ⟨⟨⟨⟨⟨⟨⟨⟨⟨hind, h9⟩, hlines⟩, hch⟩, hex⟩, hroot⟩, hsp⟩, hhead⟩, hf⟩, _⟩ := hs
      simp only [PNode.valueR]
      refine ⟨Or.inr (by simp [spaces, List.replicate_succ]), ?_, ?_⟩
      · rw [List.all_append, List.all_append, okc_spaces, Bool.true_and, hTok, Bool.and_true]
        exact hdr_okc '>' (by decide) ex ind ch h9
      · intro l hl
        exact bsLines_canon _ _ (fun l hl => (folded_lines_ok fo ch s hch hlines hsp hhead hf l hl).2) l hl
    all_goals (
      rw [valueR_inline _ ctx h rfl e col m]
      have hok := okc_inline2 _ ctx h rfl
      split
      · exact ⟨by simp only [List.nil_append]; exact restShape_trail _ hT, by simpa using hTok, by simp⟩
      · exact ⟨Or.inr (by simp [spaces, List.replicate_succ]), by simp only [List.all_append, okc_spaces, hok, hTok, Bool.and_self], by simp⟩)
  | .anchored a n, ctx, h, e, col, m, ht => by
    simp only [PNode.bl2, Bool.and_eq_true] at h
    obtain ⟨⟨ha, hanc⟩, hn⟩ := h
    obtain ⟨hs, hok, hl⟩ := canon_value n ctx hn e (col + m.gap + 1 + a.length + 1) { m with gap := 0 }
      (trailOk2_inner m a n ht hanc)
    simp only [PNode.valueR]
    refine ⟨Or.inr (by simp [spaces, List.replicate_succ]), ?_, hl⟩
    simp only [List.all_append, List.all_cons, okc_spaces, anchorName_okc a (anchorName_facts a ha).2.1, hok, Bool.and_true,
      Bool.true_and]
    decide
  | .alias a t, ctx, h, e, col, m, ht => by
    obtain ⟨hT, hTok, -⟩ := trail_facts m _ ht
    rw [valueR_inline _ ctx h rfl e col m]
    have hok := okc_inline2 _ ctx h rfl
    split
    · exact ⟨by simp only [List.nil_append]; exact restShape_trail _ hT, by simpa using hTok, by simp⟩
    · exact ⟨Or.inr (by simp [spaces, List.replicate_succ]), by simp only [List.all_append, okc_spaces, hok, hTok, Bool.and_self], by simp⟩
theorem canon_items : (items : PItems) → items.bl2 = true → ∀ n, ∀ l ∈ items.linesR n, l.canon
  | .nil, _, _ => by simp [PItems.linesR]
  | .cons m x r, h, n => by
    simp only [PItems.bl2, Bool.and_eq_true, List.isEmpty_iff, Option.isNone_iff_eq_none] at h
    obtain ⟨⟨⟨hf, ht⟩, hx⟩, hr⟩ := h
    obtain ⟨hs, hok, hl⟩ := canon_value x .seq hx n (n + 1) m ht
    intro l hm
    simp only [PItems.linesR, List.mem_cons, List.mem_append] at hm
    rcases hm with hm | rfl | hm | hm
    · exact fillLines_canon n m.fill (itemFill_ok m x r hf) l hm
    · exact ⟨by simp, by simp only [List.all_cons, hok, Bool.and_true]; decide⟩
    · exact hl l hm
    · exact canon_items r hr n l hm
theorem canon_entries : (es : PEntries) → es.bl2 = true → ∀ n, ∀ l ∈ es.linesR n, l.canon
  | .nil, _, _ => by simp [PEntries.linesR]
  | .cons m k ks x r, h, n => by
    simp only [PEntries.bl2, Bool.and_eq_true, List.isEmpty_iff, Option.isNone_iff_eq_none] at h
    obtain ⟨⟨⟨⟨hf, ht⟩, hk⟩, hx⟩, hr⟩ := h
    obtain ⟨hs, hok, hl⟩ := canon_value x .map hx n (n + (keyText k ks).length + 1) m ht
    obtain ⟨⟨c0, t0, hk0, g1, _⟩, hkok, _⟩ := keyFacts false k ks hk
    intro l hm
    simp only [PEntries.linesR, List.mem_cons, List.mem_append] at hm
    rcases hm with hm | rfl | hm | hm
    · exact fillLines_canon n m.fill (entryFill_ok m x r hf) l hm
    · refine ⟨by rw [hk0]; simpa using g1, ?_⟩
      simp only [List.all_append, hkok, List.all_cons, hok, Bool.and_true, Bool.true_and]; decide
    · exact hl l hm
    · exact canon_entries r hr n l hm
end


/-! ## Facts about entry lines -/

theorem skipFill_nonfiller (l : Line) (ls : List Line) (h : l.isFiller = false) : skipFill (l :: ls) = l :: ls := by
  simp [skipFill, h]

theorem skipFill_idem (ls : List Line) : skipFill (skipFill ls) = skipFill ls := by
  induction ls with
  | nil => rfl
  | cons l ls ih =>
    by_cases h : l.isFiller = true
    · simp [skipFill, h, ih]
    · have h' : l.isFiller = false := by simpa using h
      simp [skipFill, h']

theorem skipFill_head (ls : List Line) (l : Line) (r : List Line) (h : skipFill ls = l :: r) : l.isFiller = false := by
  induction ls with
  | nil => simp [skipFill] at h
  | cons x xs ih =>
    by_cases hx : x.isFiller = true
    · simp [skipFill, hx] at h; exact ih h
    · have hx' : x.isFiller = false := by simpa using hx
      simp [skipFill, hx'] at h
      rw [← h.1]; exact hx'

theorem seqLine_facts (n : Nat) (r1 : Str) (h : RestShape r1) :
    isDash ('-' :: r1) = true ∧ Line.isFiller ⟨n, '-' :: r1⟩ = false := by
  rcases h with rfl | h
  · exact ⟨rfl, rfl⟩
  · cases r1 with
    | nil => simp at h
    | cons c t =>
      have : c = ' ' := by simpa using h
      subst this
      exact ⟨rfl, rfl⟩

theorem keyHead_facts (k : Str) (ks : KStyle) (h : keyOk false k ks = true) :
    ∃ c t, keyText k ks = c :: t ∧ c ≠ ' ' ∧ c ≠ '#' ∧ c ≠ '\t' ∧ c ≠ '[' ∧ c ≠ '{' ∧ c ≠ '&' ∧ c ≠ '*' ∧ c ≠ '|' ∧ c ≠ '>'
      ∧ (c = '-' → ∃ d t', t = d :: t' ∧ d ≠ ' ') := by
  cases ks with
  | plain =>
    simp only [keyOk, Bool.and_eq_true] at h
    have hs := h.1.1
    simp only [plainSafe, Bool.and_eq_true] at hs
    have hfirst := hs.1.1.1.1.2
    have hpr := hs.1.1.1.1.1
    obtain ⟨c, t, rfl, hc⟩ := plainFirst_head false k hfirst
    refine ⟨c, t, rfl, hc.1, plainHead_ne c hc '#' (by decide), ?_, plainHead_ne c hc '[' (by decide),
      plainHead_ne c hc '{' (by decide), plainHead_ne c hc '&' (by decide), plainHead_ne c hc '*' (by decide),
      plainHead_ne c hc '|' (by decide), plainHead_ne c hc '>' (by decide), ?_⟩
    · have : isPrintable c = true := by simp only [List.all_cons, Bool.and_eq_true] at hpr; exact hpr.1
      exact printable_ne_tab c this
    · intro hd; subst hd
      simp only [plainFirstOk, beq_self_eq_true, Bool.true_or, if_true] at hfirst
      cases t with
      | nil => simp at hfirst
      | cons d t' =>
        simp only [Bool.and_eq_true, bne_iff_ne] at hfirst
        exact ⟨d, t', rfl, hfirst.1⟩
  | single =>
    exact ⟨'\'', _, rfl, by decide, by decide, by decide, by decide, by decide, by decide, by decide, by decide, by decide,
      by intro h; cases h⟩
  | double sh eu =>
    exact ⟨'"', _, rfl, by decide, by decide, by decide, by decide, by decide, by decide, by decide, by decide, by decide,
      by intro h; cases h⟩

theorem keyLine_facts (n : Nat) (k : Str) (ks : KStyle) (h : keyOk false k ks = true) (r1 : Str) (hr : RestShape r1) :
    splitKey (keyText k ks ++ ':' :: r1) = .ok (some (keyNode k ks, r1))
      ∧ isDash (keyText k ks ++ ':' :: r1) = false
      ∧ Line.isFiller ⟨n, keyText k ks ++ ':' :: r1⟩ = false
      ∧ (keyText k ks ++ ':' :: r1).head? ≠ some '\t' := by
  obtain ⟨c, t, hkt, h1, h2, h3, h4, h5, h6, h7, h8, h9, h10⟩ := keyHead_facts k ks h
  have hdash : isDash (keyText k ks ++ ':' :: r1) = false := by
    rw [hkt]
    by_cases hc : c = '-'
    · obtain ⟨d, t', rfl, hd⟩ := h10 hc
      subst hc
      simp only [List.cons_append, isDash]
      split
      · rename_i heq; simp at heq
      · rename_i heq; exact absurd (List.cons.inj (List.cons.inj heq).2).1 hd
      · rfl
    · simp only [List.cons_append, isDash]
      split
      · rename_i heq; exact absurd (List.cons.inj heq).1 hc
      · rename_i heq; exact absurd (List.cons.inj heq).1 hc
      · rfl
  refine ⟨?_, hdash, ?_, ?_⟩
  · -- splitKey
    cases ks with
    | plain =>
      simp only [keyOk, Bool.and_eq_true] at h
      have hs := h.1.1
      have hstop : Stop false (':' :: r1) := by
        rcases hr with rfl | hr
        · exact Or.inr (Or.inl rfl)
        · cases r1 with
          | nil => simp at hr
          | cons d r' =>
            have : d = ' ' := by simpa using hr
            subst this
            exact Or.inr (Or.inr (Or.inl ⟨r', rfl⟩))
      have hp := parsePlain_safe false k (':' :: r1) hs hstop
      simp only [plainSafe, Bool.and_eq_true, bne_iff_ne, ne_eq, Bool.not_eq_true'] at hs
      have hlen := plainLen_safe false k (':' :: r1) hs.1.1.2 hs.1.1.1.2 hstop
      obtain ⟨c', t', hk', hc'⟩ := plainFirst_head false k hs.1.1.1.1.2
      simp only [keyText]
      unfold splitKey
      subst hk'
      simp only [List.cons_append] at hp hlen ⊢
      split
      · rename_i heq; exact absurd (List.cons.inj heq).1 (plainHead_ne c' hc' '"' (by decide))
      · rename_i heq; exact absurd (List.cons.inj heq).1 (plainHead_ne c' hc' '\'' (by decide))
      · rename_i heq; exact absurd (List.cons.inj heq).1 (plainHead_ne c' hc' '[' (by decide))
      · rename_i heq; exact absurd (List.cons.inj heq).1 (plainHead_ne c' hc' '{' (by decide))
      · rename_i heq; exact absurd (List.cons.inj heq).1 (plainHead_ne c' hc' '&' (by decide))
      · rename_i heq; exact absurd (List.cons.inj heq).1 (plainHead_ne c' hc' '*' (by decide))
      · rename_i heq; exact absurd (List.cons.inj heq).1 (plainHead_ne c' hc' '|' (by decide))
      · rename_i heq; exact absurd (List.cons.inj heq).1 (plainHead_ne c' hc' '>' (by decide))
      · rename_i heq; exact absurd (List.cons.inj heq).1 (plainHead_ne c' hc' '#' (by decide))
      · simp only [hlen]
        have hd : (c' :: (t' ++ ':' :: r1)).drop (c' :: t').length = ':' :: r1 := by
          have := List.drop_left' (l₁ := c' :: t') (l₂ := ':' :: r1) rfl
          simpa using this
        rw [hd]
        rcases hr with rfl | hr
        · simp [hp, keyNode, Except.map]
        · cases r1 with
          | nil => simp at hr
          | cons d r' =>
            have : d = ' ' := by simpa using hr
            subst this
            simp [hp, keyNode, Except.map]
    | single =>
      simp only [keyOk, Bool.and_eq_true] at h
      have hq : (':' :: r1).head? ≠ some '\'' := by simp
      have hp := parseSQ_body k (':' :: r1) h.1 hq
      simp only [keyText, sqText_eq, List.cons_append, List.append_assoc, List.nil_append, splitKey, hp]
      rcases hr with rfl | hr
      · simp [dropSpaces, keyNode]
      · cases r1 with
        | nil => simp at hr
        | cons d r' =>
          have : d = ' ' := by simpa using hr
          subst this
          simp [dropSpaces, keyNode]
    | double sh eu =>
      have hp := parseDQ_dqBody sh eu k (':' :: r1)
      simp only [keyText, dqText, List.cons_append, List.append_assoc, List.nil_append, splitKey, hp]
      rcases hr with rfl | hr
      · simp [dropSpaces, keyNode]
      · cases r1 with
        | nil => simp at hr
        | cons d r' =>
          have : d = ' ' := by simpa using hr
          subst this
          simp [dropSpaces, keyNode]
  · rw [hkt]; simp [Line.isFiller, h2]
  · rw [hkt]; simpa using h3


/-! ## The block parser on rendered lines -/

theorem parseSeq_congr (f n : Nat) (a b : List Line) (acc : List Node) (h : skipFill a = skipFill b) :
    parseSeq f n a acc = parseSeq f n b acc := by
  cases f with
  | zero => simp [parseSeq]
  | succ f => rw [parseSeq, parseSeq, h]

theorem parseBlock_congr (f pn : Nat) (sSame : Bool) (a b : List Line) (h : skipFill a = skipFill b) :
    parseBlock f pn sSame a = parseBlock f pn sSame b := by
  cases f with
  | zero => simp [parseBlock]
  | succ f => rw [parseBlock, parseBlock, h]

theorem parseMap_congr (f n : Nat) (a b : List Line) (acc : List (Node × Node)) (h : skipFill a = skipFill b) :
    parseMap f n a acc = parseMap f n b acc := by
  cases f with
  | zero => simp [parseMap]
  | succ f => rw [parseMap, parseMap, h]

/-- What the line-level parser needs to know about an inline node's text (any head character that
cannot be mistaken for an indicator of block structure). -/
structure Inline2 (X : Str) (nd : Node) : Prop where
  head : ∃ c r, X = c :: r ∧ c ≠ ' ' ∧ c ≠ '\t' ∧ c ≠ '#' ∧ c ≠ '|' ∧ c ≠ '>' ∧ c ≠ '&'
  dash : isDash X = false
  key : splitKey X = .ok none
  inl : parseInline X = .ok nd

theorem parseAfter_inline2 (f g col pn : Nat) (cOk sSame : Bool) (X : Str) (nd : Node) (ls : List Line)
    (hf : Inline2 X nd) :
    parseAfter (f + 1) (spaces (g + 1) ++ X) col pn cOk sSame ls = .ok (nd, ls) := by
  obtain ⟨⟨c, r, rfl, hsp, htab, hhash, hbar, hgt, hamp⟩, hdash, hkey, hinl⟩ := hf
  have hds : dropSpaces (spaces (g + 1) ++ c :: r) = c :: r := dropSpaces_spaces (g + 1) c r hsp
  rw [parseAfter]
  simp only [hds, List.head?_cons, show (some c == some '\t') = false by simp [htab],
    Bool.false_eq_true, if_false, List.isEmpty_cons, show (some c == some '#') = false by simp [hhash],
    Bool.false_and, Bool.or_self]
  split
  · rename_i heq; exact absurd (List.cons.inj heq).1 hbar
  · rename_i heq; exact absurd (List.cons.inj heq).1 hgt
  · rename_i heq; exact absurd (List.cons.inj heq).1 hamp
  · simp only [hdash, Bool.false_eq_true, if_false, hkey, hinl]
    rfl

theorem inline2_of_facts (X : Str) (nd : Node) (h : InlineFacts X nd) : Inline2 X nd := by
  obtain ⟨⟨c, r, rfl, hc⟩, _, hd, hk, hi⟩ := h
  exact ⟨⟨c, r, rfl, headClass_ne c hc ' ' (by decide), headClass_ne c hc '\t' (by decide), headClass_ne c hc '#' (by decide),
    headClass_ne c hc '|' (by decide), headClass_ne c hc '>' (by decide), headClass_ne c hc '&' (by decide)⟩, hd, hk, hi⟩

theorem inline_coll2 (n : PNode) (h : n.fl2 = true) (c : Char) (r : Str) (hx : n.flow = c :: r) (hc : c = '[' ∨ c = '{') :
    Inline2 n.flow n.node := by
  have hb := need_bound2 n h
  have hf := flowNode2 n h (4 * n.flow.length + 4) [] 0 (by omega) (Or.inl (Or.inl rfl))
  simp only [spaces, List.replicate_zero, List.nil_append, List.append_nil] at hf
  rw [hx] at hf ⊢
  rcases hc with rfl | rfl
  · refine ⟨⟨_, _, rfl, by decide, by decide, by decide, by decide, by decide, by decide⟩, by simp [isDash], by simp [splitKey], ?_⟩
    simp only [parseInline, hf, restOk_nil, if_true]
  · refine ⟨⟨_, _, rfl, by decide, by decide, by decide, by decide, by decide, by decide⟩, by simp [isDash], by simp [splitKey], ?_⟩
    simp only [parseInline, hf, restOk_nil, if_true]

theorem inline_plain (s : Str) (hs : plainSafe false s = true) : Inline2 s (.scalar true s) := by
  have hp := parsePlain_safe false s [] hs (Or.inl rfl)
  simp only [List.append_nil] at hp
  simp only [plainSafe, Bool.and_eq_true, bne_iff_ne, ne_eq, Bool.not_eq_true'] at hs
  have hlen := plainLen_safe false s [] hs.1.1.2 hs.1.1.1.2 (Or.inl rfl)
  simp only [List.append_nil] at hlen
  obtain ⟨c, t, rfl, hc⟩ := plainFirst_head false s hs.1.1.1.1.2
  have hpr : isPrintable c = true := by
    have := hs.1.1.1.1.1; simp only [List.all_cons, Bool.and_eq_true] at this; exact this.1
  have hfirst := hs.1.1.1.1.2
  refine ⟨⟨c, t, rfl, hc.1, printable_ne_tab c hpr, plainHead_ne c hc '#' (by decide), plainHead_ne c hc '|' (by decide),
    plainHead_ne c hc '>' (by decide), plainHead_ne c hc '&' (by decide)⟩, ?_, ?_, ?_⟩
  · -- isDash
    by_cases hd : c = '-'
    · subst hd
      simp only [plainFirstOk, beq_self_eq_true, Bool.true_or, if_true] at hfirst
      cases t with
      | nil => simp at hfirst
      | cons d t' =>
        have hd' : d ≠ ' ' := by simp only [Bool.and_eq_true, bne_iff_ne] at hfirst; exact hfirst.1
        simp only [isDash]
        split
        · rename_i heq; simp at heq
        · rename_i heq; exact absurd (List.cons.inj (List.cons.inj heq).2).1 hd'
        · rfl
    · simp only [isDash]
      split
      · rename_i heq; exact absurd (List.cons.inj heq).1 hd
      · rename_i heq; exact absurd (List.cons.inj heq).1 hd
      · rfl
  · unfold splitKey
    split
    · rename_i heq; exact absurd (List.cons.inj heq).1 (plainHead_ne c hc '"' (by decide))
    · rename_i heq; exact absurd (List.cons.inj heq).1 (plainHead_ne c hc '\'' (by decide))
    · rename_i heq; exact absurd (List.cons.inj heq).1 (plainHead_ne c hc '[' (by decide))
    · rename_i heq; exact absurd (List.cons.inj heq).1 (plainHead_ne c hc '{' (by decide))
    · rename_i heq; exact absurd (List.cons.inj heq).1 (plainHead_ne c hc '&' (by decide))
    · rename_i heq; exact absurd (List.cons.inj heq).1 (plainHead_ne c hc '*' (by decide))
    · rename_i heq; exact absurd (List.cons.inj heq).1 (plainHead_ne c hc '|' (by decide))
    · rename_i heq; exact absurd (List.cons.inj heq).1 (plainHead_ne c hc '>' (by decide))
    · rename_i heq; exact absurd (List.cons.inj heq).1 (plainHead_ne c hc '#' (by decide))
    · simp only [hlen, List.drop_length]
  · unfold parseInline
    split
    · rename_i heq; exact absurd (List.cons.inj heq).1 (plainHead_ne c hc '"' (by decide))
    · rename_i heq; exact absurd (List.cons.inj heq).1 (plainHead_ne c hc '\'' (by decide))
    · rename_i heq; exact absurd (List.cons.inj heq).1 (plainHead_ne c hc '[' (by decide))
    · rename_i heq; exact absurd (List.cons.inj heq).1 (plainHead_ne c hc '{' (by decide))
    · rename_i heq; exact absurd (List.cons.inj heq).1 (plainHead_ne c hc '*' (by decide))
    · simp only [hp, restOk_nil, if_true]

theorem inline_sq (s : Str) (hs : s.all isPrintable = true) : Inline2 (sqText s) (.scalar false s) := by
  have h := parseSQ_body s [] hs (by simp)
  refine ⟨⟨'\'', _, rfl, by decide, by decide, by decide, by decide, by decide, by decide⟩, by simp [sqText, isDash], ?_, ?_⟩
  · simp only [sqText_eq, splitKey, h]
    simp [dropSpaces]
  · simp only [sqText_eq, parseInline, h, restOk_nil, if_true]


theorem stop_trail (flow : Bool) (T : Str) (h : TrailOk T) : Stop flow T := by
  rcases h with rfl | ⟨c, rfl⟩
  · exact Or.inl rfl
  · exact Or.inr (Or.inr (Or.inr (Or.inl ⟨c, rfl⟩)))

theorem plainLen_simpleT (t T : Str) (ht : t.all simpleChar = true) (hT : TrailOk T) :
    plainLen false (t ++ T) = t.length := by
  induction t with
  | nil =>
    rcases hT with rfl | ⟨c, rfl⟩
    · simp [plainLen]
    · simp [plainLen]
  | cons c t ih =>
    simp only [List.all_cons, Bool.and_eq_true] at ht
    obtain ⟨h1, h2, h3, h4, h5⟩ := simpleChar_facts c ht.1
    have ih' := ih ht.2
    cases hrest : t ++ T with
    | nil =>
      simp only [List.cons_append, hrest]
      have : t = [] := by cases t <;> simp_all
      subst this
      simp [plainLen, h1]
    | cons d r =>
      simp only [List.cons_append, hrest]
      rw [plainLen]
      simp only [Bool.false_and, Bool.false_eq_true, if_false]
      rw [← hrest, ih']
      simp [h1, h2]; omega

theorem parsePlain_tokT (t T : Str) (ht : tokOk t) (hT : TrailOk T) :
    parsePlain false (t ++ T) = .ok (t, T) := by
  have h0 := parsePlain_tok false t [] ht (Or.inl rfl)
  obtain ⟨hall, hne, hdash⟩ := ht
  have hlen := plainLen_simpleT t T hall hT
  -- plainFirstOk only looks at the first two characters, which are those of `t` or a space
  have hfirst0 : plainFirstOk false t = true := by
    simp only [List.append_nil] at h0
    unfold parsePlain at h0
    cases hf : plainFirstOk false t with
    | true => rfl
    | false => simp [hf] at h0
  have hfirst : plainFirstOk false (t ++ T) = true := by
    cases t with
    | nil => exact absurd rfl hne
    | cons c t' =>
      cases t' with
      | cons d t'' => simpa [plainFirstOk] using hfirst0
      | nil =>
        have hc : simpleChar c = true := by simpa using hall
        have hcd : c ≠ '-' := by intro e; subst e; have := hdash rfl; simp at this
        rcases hT with rfl | ⟨cm, rfl⟩
        · simpa using hfirst0
        · obtain ⟨h1, h2, h3, h4, h5⟩ := simpleChar_facts c hc
          have hq : c ≠ '?' := by intro h; subst h; revert hc; decide
          have hni : isIndicator c = false := by
            cases hi : isIndicator c with
            | false => rfl
            | true =>
              rcases indicator_not_simple c hi with h | h
              · exact absurd h hcd
              · rw [hc] at h; cases h
          simp [plainFirstOk, hcd, hq, h1, hni, h2]
  unfold parsePlain
  simp only [hfirst, Bool.not_true, Bool.false_eq_true, if_false, hlen, List.take_left', List.drop_left']
  have hlast : t.getLast? ≠ some ' ' := by
    intro h
    have hm : ' ' ∈ t := List.mem_of_getLast? h
    have := List.all_eq_true.mp hall ' ' hm
    revert this; decide
  rw [trimRight_of_last t hlast]
  have hnotab : t.any (· == '\t') = false := by
    rw [List.any_eq_false]
    intro x hx
    have := List.all_eq_true.mp hall x hx
    obtain ⟨_, _, g3, _, _⟩ := simpleChar_facts x this
    simpa using g3
  simp [hnotab]

/-- After a complete scalar, a trailing comment is not a key indicator. -/
theorem afterKey_trail (T : Str) (hT : TrailOk T) :
    (match T with
      | [':'] => (1 : Nat)
      | ':' :: ' ' :: _ => 2
      | _ => 0) = 0 := by
  rcases hT with rfl | ⟨c, rfl⟩ <;> rfl

theorem inline_tokT (t : Str) (ht : tokOk t) (T : Str) (hT : TrailOk T) :
    isDash (t ++ T) = false ∧ splitKey (t ++ T) = .ok none ∧ parseInline (t ++ T) = .ok (.scalar true t) := by
  have hp := parsePlain_tokT t T ht hT
  have hlen := plainLen_simpleT t T ht.1 hT
  obtain ⟨hall, hne, hdash⟩ := ht
  cases t with
  | nil => exact absurd rfl hne
  | cons c r =>
    have hc : simpleChar c = true := by simp only [List.all_cons, Bool.and_eq_true] at hall; exact hall.1
    refine ⟨?_, ?_, ?_⟩
    · cases r with
      | nil =>
        have h : c ≠ '-' := by intro h; subst h; have := hdash rfl; simp at this
        simp only [List.cons_append, List.nil_append]
        unfold isDash; split
        · rename_i heq; exact absurd (List.cons.inj heq).1 h
        · rename_i heq; exact absurd (List.cons.inj heq).1 h
        · rfl
      | cons d r' =>
        have hd : simpleChar d = true := by simp only [List.all_cons, Bool.and_eq_true] at hall; exact hall.2.1
        have hd' : d ≠ ' ' := (simpleChar_facts d hd).2.1
        simp only [List.cons_append]
        unfold isDash; split
        · rename_i heq; simp at heq
        · rename_i heq; exact absurd (List.cons.inj (List.cons.inj heq).2).1 hd'
        · rfl
    · simp only [List.cons_append] at hlen ⊢
      unfold splitKey
      split
      all_goals (try (rename_i heq; have := (List.cons.inj heq).1; subst this; exact absurd hc (by decide)))
      simp only [hlen]
      have : List.drop (c :: r).length (c :: (r ++ T)) = T := by
        have := List.drop_left' (l₁ := c :: r) (l₂ := T) rfl
        simpa using this
      rw [this]
      rcases hT with rfl | ⟨cm, rfl⟩ <;> rfl
    · simp only [List.cons_append] at hp ⊢
      unfold parseInline
      split
      all_goals (try (rename_i heq; have := (List.cons.inj heq).1; subst this; exact absurd hc (by decide)))
      simp only [hp, restOk_trail T hT, if_true]


/-- What the line-level parser needs to know about an inline node's text, with or without a trailing
comment after it. -/
structure Inline3 (X : Str) (nd : Node) : Prop where
  head : ∃ c r, X = c :: r ∧ c ≠ ' ' ∧ c ≠ '\t' ∧ c ≠ '#' ∧ c ≠ '|' ∧ c ≠ '>' ∧ c ≠ '&'
  dash : ∀ T, TrailOk T → isDash (X ++ T) = false
  key : ∀ T, TrailOk T → splitKey (X ++ T) = .ok none
  inl : ∀ T, TrailOk T → parseInline (X ++ T) = .ok nd

theorem Inline3.to2 {X : Str} {nd : Node} (h : Inline3 X nd) : Inline2 X nd :=
  ⟨h.head, by simpa using h.dash [] (Or.inl rfl), by simpa using h.key [] (Or.inl rfl), by simpa using h.inl [] (Or.inl rfl)⟩

theorem parseAfter_inline3 (f g col pn : Nat) (cOk sSame : Bool) (X : Str) (nd : Node) (T : Str) (hT : TrailOk T) (ls : List Line)
    (hf : Inline3 X nd) :
    parseAfter (f + 1) (spaces g ++ X ++ T) col pn cOk sSame ls = .ok (nd, ls) := by
  obtain ⟨⟨c, r, rfl, hsp, htab, hhash, hbar, hgt, hamp⟩, hdash, hkey, hinl⟩ := hf
  have hds : dropSpaces (spaces g ++ (c :: r) ++ T) = c :: (r ++ T) := by
    have := dropSpaces_spaces g c (r ++ T) hsp
    simpa [List.append_assoc] using this
  have hdash := hdash T hT
  have hkey := hkey T hT
  have hinl := hinl T hT
  simp only [List.cons_append] at hdash hkey hinl
  rw [parseAfter]
  simp only [hds, List.head?_cons, show (some c == some '\t') = false by simp [htab],
    Bool.false_eq_true, if_false, List.isEmpty_cons, show (some c == some '#') = false by simp [hhash],
    Bool.false_and, Bool.or_self]
  split
  · rename_i heq; exact absurd (List.cons.inj heq).1 hbar
  · rename_i heq; exact absurd (List.cons.inj heq).1 hgt
  · rename_i heq; exact absurd (List.cons.inj heq).1 hamp
  · simp only [hdash, Bool.false_eq_true, if_false, hkey, hinl]
    rfl

theorem inline3_tok (t : Str) (ht : tokOk t) : Inline3 t (.scalar true t) := by
  obtain ⟨c, r, hx, hc⟩ := headClass_tok _ ht
  exact ⟨⟨c, r, hx, headClass_ne c hc ' ' (by decide), headClass_ne c hc '\t' (by decide), headClass_ne c hc '#' (by decide),
    headClass_ne c hc '|' (by decide), headClass_ne c hc '>' (by decide), headClass_ne c hc '&' (by decide)⟩,
    fun T hT => (inline_tokT t ht T hT).1, fun T hT => (inline_tokT t ht T hT).2.1, fun T hT => (inline_tokT t ht T hT).2.2⟩

theorem inline3_coll (n : PNode) (h : n.fl2 = true) (c : Char) (r : Str) (hx : n.flow = c :: r) (hc : c = '[' ∨ c = '{')
    (hcoll : n.isFlowColl = true) : Inline3 n.flow n.node := by
  have hb := need_bound2 n h
  have hf : ∀ T, parseFlow (4 * (n.flow ++ T).length + 4) (n.flow ++ T) = .ok (n.node, T) := by
    intro T
    have := flowNode2 n h (4 * (n.flow ++ T).length + 4) T 0 (by simp only [List.length_append]; omega) (Or.inr hcoll)
    simpa [spaces] using this
  rw [hx] at hf ⊢
  rcases hc with rfl | rfl
  · refine ⟨⟨_, _, rfl, by decide, by decide, by decide, by decide, by decide, by decide⟩, fun T _ => by simp [isDash],
      fun T _ => by simp [splitKey], ?_⟩
    intro T hT
    have := hf T
    simp only [List.cons_append] at this ⊢
    simp only [parseInline, this, restOk_trail T hT, if_true]
  · refine ⟨⟨_, _, rfl, by decide, by decide, by decide, by decide, by decide, by decide⟩, fun T _ => by simp [isDash],
      fun T _ => by simp [splitKey], ?_⟩
    intro T hT
    have := hf T
    simp only [List.cons_append] at this ⊢
    simp only [parseInline, this, restOk_trail T hT, if_true]

theorem dropSpaces_trail (T : Str) (hT : TrailOk T) :
    (match dropSpaces T with
      | [':'] => (.ok (some (Node.scalar false [], ([] : Str))) : R (Option (Node × Str)))
      | ':' :: ' ' :: r' => .ok (some (Node.scalar false [], ' ' :: r'))
      | _ => .ok none) = .ok none := by
  rcases hT with rfl | ⟨c, rfl⟩
  · rfl
  · simp [dropSpaces, List.dropWhile_cons]

theorem inline3_sq (s : Str) (hs : s.all isPrintable = true) : Inline3 (sqText s) (.scalar false s) := by
  have h : ∀ T, TrailOk T → parseSQ (sqBody s ++ '\'' :: T) = .ok (s, T) := by
    intro T hT
    apply parseSQ_body s T hs
    rcases hT with rfl | ⟨c, rfl⟩ <;> simp
  have e : ∀ T, sqText s ++ T = '\'' :: (sqBody s ++ '\'' :: T) := by intro T; simp [sqText_eq]
  refine ⟨⟨'\'', _, rfl, by decide, by decide, by decide, by decide, by decide, by decide⟩, fun T _ => by simp [sqText, isDash], ?_, ?_⟩
  · intro T hT
    have hh := h T hT
    rw [e T]
    simp only [splitKey, hh]
    rcases hT with rfl | ⟨c, rfl⟩ <;> simp [dropSpaces]
  · intro T hT
    have hh := h T hT
    rw [e T]
    simp only [parseInline, hh, restOk_trail T hT, if_true]

theorem inline3_dq (sh eu : Bool) (s : Str) : Inline3 (dqText sh eu s) (.scalar false s) := by
  have e : ∀ T, dqText sh eu s ++ T = '"' :: (s.flatMap (dqChar sh eu) ++ '"' :: T) := by intro T; simp [dqText]
  refine ⟨⟨'"', _, rfl, by decide, by decide, by decide, by decide, by decide, by decide⟩, fun T _ => by simp [dqText, isDash], ?_, ?_⟩
  · intro T hT
    have h := parseDQ_dqBody sh eu s T
    rw [e T]
    simp only [splitKey, h]
    rcases hT with rfl | ⟨c, rfl⟩ <;> simp [dropSpaces]
  · intro T hT
    have h := parseDQ_dqBody sh eu s T
    rw [e T]
    simp only [parseInline, h, restOk_trail T hT, if_true]

theorem inline3_plain (s : Str) (hs : plainSafe false s = true) : Inline3 s (.scalar true s) := by
  have hp : ∀ T, TrailOk T → parsePlain false (s ++ T) = .ok (s, T) :=
    fun T hT => parsePlain_safe false s T hs (stop_trail false T hT)
  have hs0 := hs
  simp only [plainSafe, Bool.and_eq_true, bne_iff_ne, ne_eq, Bool.not_eq_true'] at hs
  have hlen : ∀ T, TrailOk T → plainLen false (s ++ T) = s.length :=
    fun T hT => plainLen_safe false s T hs.1.1.2 hs.1.1.1.2 (stop_trail false T hT)
  obtain ⟨c, t, rfl, hc⟩ := plainFirst_head false s hs.1.1.1.1.2
  have hpr : isPrintable c = true := by
    have := hs.1.1.1.1.1; simp only [List.all_cons, Bool.and_eq_true] at this; exact this.1
  have hfirst := hs.1.1.1.1.2
  refine ⟨⟨c, t, rfl, hc.1, printable_ne_tab c hpr, plainHead_ne c hc '#' (by decide), plainHead_ne c hc '|' (by decide),
    plainHead_ne c hc '>' (by decide), plainHead_ne c hc '&' (by decide)⟩, ?_, ?_, ?_⟩
  · intro T _
    simp only [List.cons_append]
    by_cases hd : c = '-'
    · subst hd
      simp only [plainFirstOk, beq_self_eq_true, Bool.true_or, if_true] at hfirst
      cases t with
      | nil => simp at hfirst
      | cons d t' =>
        have hd' : d ≠ ' ' := by simp only [Bool.and_eq_true, bne_iff_ne] at hfirst; exact hfirst.1
        simp only [List.cons_append, isDash]
        split
        · rename_i heq; simp at heq
        · rename_i heq; exact absurd (List.cons.inj (List.cons.inj heq).2).1 hd'
        · rfl
    · simp only [isDash]
      split
      · rename_i heq; exact absurd (List.cons.inj heq).1 hd
      · rename_i heq; exact absurd (List.cons.inj heq).1 hd
      · rfl
  · intro T hT
    have hl := hlen T hT
    simp only [List.cons_append] at hl ⊢
    unfold splitKey
    split
    · rename_i heq; exact absurd (List.cons.inj heq).1 (plainHead_ne c hc '"' (by decide))
    · rename_i heq; exact absurd (List.cons.inj heq).1 (plainHead_ne c hc '\'' (by decide))
    · rename_i heq; exact absurd (List.cons.inj heq).1 (plainHead_ne c hc '[' (by decide))
    · rename_i heq; exact absurd (List.cons.inj heq).1 (plainHead_ne c hc '{' (by decide))
    · rename_i heq; exact absurd (List.cons.inj heq).1 (plainHead_ne c hc '&' (by decide))
    · rename_i heq; exact absurd (List.cons.inj heq).1 (plainHead_ne c hc '*' (by decide))
    · rename_i heq; exact absurd (List.cons.inj heq).1 (plainHead_ne c hc '|' (by decide))
    · rename_i heq; exact absurd (List.cons.inj heq).1 (plainHead_ne c hc '>' (by decide))
    · rename_i heq; exact absurd (List.cons.inj heq).1 (plainHead_ne c hc '#' (by decide))
    · simp only [hl]
      have : List.drop (c :: t).length (c :: (t ++ T)) = T := by
        have := List.drop_left' (l₁ := c :: t) (l₂ := T) rfl
        simpa using this
      rw [this]
      rcases hT with rfl | ⟨cm, rfl⟩ <;> rfl
  · intro T hT
    have hp' := hp T hT
    simp only [List.cons_append] at hp' ⊢
    unfold parseInline
    split
    · rename_i heq; exact absurd (List.cons.inj heq).1 (plainHead_ne c hc '"' (by decide))
    · rename_i heq; exact absurd (List.cons.inj heq).1 (plainHead_ne c hc '\'' (by decide))
    · rename_i heq; exact absurd (List.cons.inj heq).1 (plainHead_ne c hc '[' (by decide))
    · rename_i heq; exact absurd (List.cons.inj heq).1 (plainHead_ne c hc '{' (by decide))
    · rename_i heq; exact absurd (List.cons.inj heq).1 (plainHead_ne c hc '*' (by decide))
    · simp only [hp', restOk_trail T hT, if_true]


theorem inline3_alias (a : Str) (h : anchorNameOk a = true) : Inline3 ('*' :: a) (.alias a) := by
  obtain ⟨hne, hall, hemp⟩ := anchorName_facts a h
  have hsplit : ∀ T, TrailOk T → (a ++ T).takeWhile isAnchorChar = a ∧ (a ++ T).dropWhile isAnchorChar = T := by
    intro T hT
    apply anchorName_split a T hall
    rcases hT with rfl | ⟨c, rfl⟩
    · exact Or.inl rfl
    · exact Or.inr ⟨' ', _, rfl, by decide⟩
  refine ⟨⟨'*', a, rfl, by decide, by decide, by decide, by decide, by decide, by decide⟩, fun T _ => by simp [isDash],
    fun T _ => by simp [splitKey], ?_⟩
  intro T hT
  obtain ⟨s1, s2⟩ := hsplit T hT
  simp only [List.cons_append, parseInline, s1, s2, hemp, Bool.false_eq_true, if_false, restOk_trail T hT, if_true]

/-- Inline values of layers 2–4 and 6 with non-empty text. -/
theorem inline3_value (x : PNode) (ctx : Ctx) (h : x.bl2 ctx = true) (hi : x.isInline2 = true) (hne : x.flow ≠ []) :
    Inline3 x.flow x.node := by
  cases x with
  | seq fl st c items =>
    cases fl with
    | true => exact inline3_coll _ (by simpa [PNode.bl2] using h) '[' _ rfl (Or.inl rfl) rfl
    | false => simp [PNode.isInline2] at hi
  | map fl st c es =>
    cases fl with
    | true => exact inline3_coll _ (by simpa [PNode.bl2] using h) '{' _ rfl (Or.inr rfl) rfl
    | false => simp [PNode.isInline2] at hi
  | null v =>
    have h4 : v % 5 ≠ 4 := by
      intro h4; apply hne; simp [PNode.flow, nullText, h4]
    have ht := tokOk_nullText v h4
    exact inline3_tok _ ht
  | bool b v =>
    have ht := tokOk_boolText b v
    exact inline3_tok _ ht
  | int i v =>
    have ht := (intText_facts i v).1
    exact inline3_tok _ ht
  | str s st =>
    cases st with
    | plain =>
      have hs : plainSafe false s = true := by simp [PNode.bl2, PNode.sc2] at h; exact h.1
      exact inline3_plain s hs
    | single =>
      have hs : s.all isPrintable = true := by simpa [PNode.bl2, PNode.sc2] using h
      exact inline3_sq s hs
    | double sh eu =>
      exact inline3_dq sh eu s
    | literal ch ind ex => simp [PNode.isInline2] at hi
    | folded ch ind ex fo => simp [PNode.isInline2] at hi
  | anchored a n => simp [PNode.isInline2] at hi
  | alias a t => exact inline3_alias a (by simpa [PNode.bl2] using h)


theorem inline2_value (x : PNode) (ctx : Ctx) (h : x.bl2 ctx = true) (hi : x.isInline2 = true) (hne : x.flow ≠ []) :
    Inline2 x.flow x.node := (inline3_value x ctx h hi hne).to2

/-- Minimal indentation of a child of an entry at indentation `e`. -/
def pnOf (ctx : Ctx) (e : Nat) : Nat := if ctx = .root then 0 else e + 1

/-- Lines that may follow the value of an entry at indentation `e`. -/
def Bound (ctx : Ctx) (e : Nat) (rest : List Line) : Prop :=
  match ctx with
  | .root => skipFill rest = []
  | .seq => ∀ l r, skipFill rest = l :: r → l.ind ≤ e ∧ l.txt.head? ≠ some '\t'
  | .map => ∀ l r, skipFill rest = l :: r → l.ind ≤ e ∧ l.txt.head? ≠ some '\t' ∧ (l.ind = e → isDash l.txt = false)

def BoundSeq (n : Nat) (rest : List Line) : Prop :=
  ∀ l r, skipFill rest = l :: r → l.txt.head? ≠ some '\t' ∧ (l.ind < n ∨ (l.ind = n ∧ isDash l.txt = false))

def BoundMap (n : Nat) (rest : List Line) : Prop :=
  ∀ l r, skipFill rest = l :: r → l.txt.head? ≠ some '\t' ∧ l.ind < n

mutual
def PNode.bneed : PNode → Nat
  | .seq false _ _ items => items.bneed + 2
  | .map false _ _ es => es.bneed + 2
  | .anchored _ n => n.bneed + 1
  | _ => 2
def PItems.bneed : PItems → Nat
  | .nil => 1
  | .cons _ x r => x.bneed + r.bneed + 1
def PEntries.bneed : PEntries → Nat
  | .nil => 1
  | .cons _ _ _ x r => x.bneed + r.bneed + 1
end

/-- Dispatch of `parseBlock` on a block sequence's first line. -/
theorem parseBlock_seq (f pn k : Nat) (sSame : Bool) (r1 : Str) (ls : List Line) (hr : RestShape r1)
    (hk : pn ≤ k ∨ (k + 1 = pn ∧ sSame = true)) :
    parseBlock (f + 1) pn sSame (⟨k, '-' :: r1⟩ :: ls) = parseSeq f k (⟨k, '-' :: r1⟩ :: ls) [] := by
  obtain ⟨hd, hfil⟩ := seqLine_facts k r1 hr
  rw [parseBlock]
  simp only [skipFill, hfil, Bool.false_eq_true, if_false, List.head?_cons, show (some '-' == some '\t') = false by decide, hd]
  rcases hk with hk | ⟨hk, hs⟩
  · by_cases h1 : k + 1 = pn ∧ sSame = true
    · simp [h1.1, h1.2]
    · have : ¬ (k < pn) := by omega
      by_cases h2 : k + 1 = pn
      · have hs : sSame = false := by
          cases sSame
          · rfl
          · exact absurd ⟨h2, rfl⟩ h1
        simp [h2, hs, this]
      · simp [h2, this]
  · simp [hk, hs]

/-- Dispatch of `parseBlock` on a block mapping's first line. -/
theorem parseBlock_map (f pn k : Nat) (sSame : Bool) (key : Str) (ks : KStyle) (hkey : keyOk false key ks = true)
    (r1 : Str) (ls : List Line) (hr : RestShape r1) (hk : pn ≤ k) :
    parseBlock (f + 1) pn sSame (⟨k, keyText key ks ++ ':' :: r1⟩ :: ls)
      = parseMap f k (⟨k, keyText key ks ++ ':' :: r1⟩ :: ls) [] := by
  obtain ⟨hsp, hd, hfil, htab⟩ := keyLine_facts k key ks hkey r1 hr
  rw [parseBlock]
  have ht : ((keyText key ks ++ ':' :: r1).head? == some '\t') = false := by simpa using htab
  have : ¬ (k < pn) := by omega
  simp only [skipFill, hfil, Bool.false_eq_true, if_false, ht, hd, Bool.and_false, this, hsp]


/-- Result of a block-level parse: the node, and a remainder that differs from `rest` at most by
leading filler lines. -/
def Parsed (res : R (Node × List Line)) (nd : Node) (rest : List Line) : Prop :=
  ∃ rest', res = .ok (nd, rest') ∧ skipFill rest' = skipFill rest

theorem bound_to_seq (ctx : Ctx) (e k : Nat) (rest : List Line) (h : Bound ctx e rest)
    (hk : ctx = .root ∨ e < k ∨ (ctx = .map ∧ k = e)) : BoundSeq k rest := by
  intro l r hl
  cases ctx with
  | root => simp [Bound] at h; rw [h] at hl; cases hl
  | seq =>
    obtain ⟨h1, h2⟩ := h l r hl
    rcases hk with hk | hk | hk
    · cases hk
    · exact ⟨h2, Or.inl (by omega)⟩
    · cases hk.1
  | map =>
    obtain ⟨h1, h2, h3⟩ := h l r hl
    rcases hk with hk | hk | hk
    · cases hk
    · exact ⟨h2, Or.inl (by omega)⟩
    · by_cases he : l.ind = e
      · exact ⟨h2, Or.inr ⟨by omega, h3 he⟩⟩
      · exact ⟨h2, Or.inl (by omega)⟩

theorem bound_to_map (ctx : Ctx) (e k : Nat) (rest : List Line) (h : Bound ctx e rest)
    (hk : ctx = .root ∨ e < k) : BoundMap k rest := by
  intro l r hl
  cases ctx with
  | root => simp [Bound] at h; rw [h] at hl; cases hl
  | seq =>
    obtain ⟨h1, h2⟩ := h l r hl
    rcases hk with hk | hk
    · cases hk
    · exact ⟨h2, by omega⟩
  | map =>
    obtain ⟨h1, h2, h3⟩ := h l r hl
    rcases hk with hk | hk
    · cases hk
    · exact ⟨h2, by omega⟩

/-- Nothing but (possibly) a comment after the indicator: the node is on the following lines. -/
theorem parseAfter_trail (f col pn : Nat) (cOk sSame : Bool) (T : Str) (hT : TrailOk T) (ls : List Line) :
    parseAfter (f + 1) T col pn cOk sSame ls = parseBlock f pn sSame ls := by
  rcases hT with rfl | ⟨c, rfl⟩
  · rw [parseAfter]
    simp only [List.takeWhile_nil, List.length_nil, dropSpaces, List.dropWhile_nil, List.head?_nil, List.isEmpty_nil,
      Bool.true_or, if_true]
    have hnone : ((none : Option Char) == some '\t') = false := rfl
    simp only [hnone, Bool.false_eq_true, if_false]
  · rw [parseAfter]
    have e1 : dropSpaces (' ' :: '#' :: c) = '#' :: c := by simp [dropSpaces, List.dropWhile_cons]
    have e2 : (List.takeWhile (· == ' ') (' ' :: '#' :: c)).length = 1 := by simp [List.takeWhile_cons]
    simp only [e1, e2, List.head?_cons, show (some '#' == some '\t') = false by decide, Bool.false_eq_true, if_false,
      List.isEmpty_cons, beq_self_eq_true, Bool.true_and, Bool.false_or, show (0 < 1) = True by simp, decide_true,
      Bool.true_or, if_true, gt_iff_lt, Nat.lt_add_one, decide_true]

/-- An empty value (`key:` / `-` with nothing but a comment after it and a following line that is not deeper). -/
theorem parseAfter_empty (f col : Nat) (ctx : Ctx) (e : Nat) (rest : List Line) (hb : Bound ctx e rest) (cOk : Bool)
    (T : Str) (hT : TrailOk T) :
    Parsed (parseAfter (f + 2) T col (pnOf ctx e) cOk (ctx == .map) rest) (.scalar true []) rest := by
  rw [parseAfter_trail (f + 1) col _ _ _ T hT]
  rw [parseBlock]
  cases hs : skipFill rest with
  | nil => exact ⟨[], rfl, by simp [skipFill, hs]⟩
  | cons l r =>
    have hid : skipFill (l :: r) = l :: r := by rw [← hs, skipFill_idem]
    cases ctx with
    | root => simp [Bound] at hb; rw [hb] at hs; cases hs
    | seq =>
      obtain ⟨h1, h2⟩ := hb l r hs
      have ht : (l.txt.head? == some '\t') = false := by simpa using h2
      have hlt : l.ind < e + 1 := by omega
      simp only [ht, Bool.false_eq_true, if_false, pnOf, show (Ctx.seq = Ctx.root) = False by simp, if_false,
        show (Ctx.seq == Ctx.map) = false by rfl, Bool.and_false, Bool.false_and, hlt, if_true]
      exact ⟨l :: r, by simp, by rw [hid, hs]⟩
    | map =>
      obtain ⟨h1, h2, h3⟩ := hb l r hs
      have ht : (l.txt.head? == some '\t') = false := by simpa using h2
      have hlt : l.ind < e + 1 := by omega
      have hnd : (decide (l.ind + 1 = e + 1) && (Ctx.map == Ctx.map) && isDash l.txt) = false := by
        by_cases he : l.ind = e
        · simp [h3 he]
        · simp; intro h'; exact absurd h' he
      simp only [ht, Bool.false_eq_true, if_false, pnOf, show (Ctx.map = Ctx.root) = False by simp, hnd, hlt, if_true]
      exact ⟨l :: r, by simp, by rw [hid, hs]⟩


theorem parseAfter_nil (f col pn : Nat) (cOk sSame : Bool) (ls : List Line) :
    parseAfter (f + 1) [] col pn cOk sSame ls = parseBlock f pn sSame ls := by
  rw [parseAfter]
  simp only [List.takeWhile_nil, List.length_nil, dropSpaces, List.dropWhile_nil, List.head?_nil, List.isEmpty_nil,
    Bool.true_or, if_true]
  have hnone : ((none : Option Char) == some '\t') = false := rfl
  simp only [hnone, Bool.false_eq_true, if_false]

/-- A compact nested collection after `- `: the rest of the line becomes a virtual line. -/
theorem parseAfter_compact (f g col pn : Nat) (sSame : Bool) (c0 : Char) (t0 : Str) (ls : List Line)
    (hsp : c0 ≠ ' ') (htab : c0 ≠ '\t') (hhash : c0 ≠ '#') (hbar : c0 ≠ '|') (hgt : c0 ≠ '>') (hamp : c0 ≠ '&')
    (hstruct : isDash (c0 :: t0) = true ∨ (isDash (c0 :: t0) = false ∧ ∃ kv, splitKey (c0 :: t0) = .ok (some kv))) :
    parseAfter (f + 1) (spaces (g + 1) ++ c0 :: t0) col pn true sSame ls
      = parseBlock f (col + (g + 1)) false (⟨col + (g + 1), c0 :: t0⟩ :: ls) := by
  have hds : dropSpaces (spaces (g + 1) ++ c0 :: t0) = c0 :: t0 := dropSpaces_spaces (g + 1) c0 t0 hsp
  have htw : (List.takeWhile (fun x => x == ' ') (spaces (g + 1) ++ c0 :: t0)).length = g + 1 := by
    have : ∀ k, (List.takeWhile (fun x => x == ' ') (spaces k ++ c0 :: t0)).length = k := by
      intro k
      induction k with
      | zero => simp [spaces, List.takeWhile_cons, hsp]
      | succ k ih =>
        have : spaces (k + 1) = ' ' :: spaces k := by simp [spaces, List.replicate_succ]
        rw [this, List.cons_append, List.takeWhile_cons]
        simp [ih]
    exact this (g + 1)
  rw [parseAfter]
  simp only [hds, htw, List.head?_cons, show (some c0 == some '\t') = false by simp [htab],
    Bool.false_eq_true, if_false, List.isEmpty_cons, show (some c0 == some '#') = false by simp [hhash],
    Bool.false_and, Bool.or_self]
  split
  · rename_i heq; exact absurd (List.cons.inj heq).1 hbar
  · rename_i heq; exact absurd (List.cons.inj heq).1 hgt
  · rename_i heq; exact absurd (List.cons.inj heq).1 hamp
  · rcases hstruct with hd | ⟨hd, kv, hk⟩
    · simp only [hd, if_true]
    · simp only [hd, Bool.false_eq_true, if_false, hk, if_true]

theorem node_of_empty_flow (x : PNode) (ctx : Ctx) (h : x.bl2 ctx = true) (hi : x.isInline2 = true) (he : x.flow = []) :
    x.node = .scalar true [] := by
  cases x with
  | null v =>
    have : nullText v = [] := by simpa [PNode.flow] using he
    simp [PNode.node, this]
  | bool b v => exact absurd (by simpa [PNode.flow] using he) (tokOk_boolText b v).2.1
  | int i v => exact absurd (by simpa [PNode.flow] using he) (intText_facts i v).1.2.1
  | str s st =>
    cases st with
    | plain =>
      have hs : plainSafe false s = true := by simp [PNode.bl2, PNode.sc2] at h; exact h.1
      have : s = [] := by simpa [PNode.flow, strFlowText] using he
      subst this; simp [plainSafe, plainFirstOk] at hs
    | single => simp [PNode.flow, strFlowText, sqText] at he
    | double sh eu => simp [PNode.flow, strFlowText, dqText] at he
    | literal ch ind ex => simp [PNode.isInline2] at hi
    | folded ch ind ex fo => simp [PNode.isInline2] at hi
  | seq fl st c items => cases fl <;> simp [PNode.flow, PNode.isInline2] at he hi
  | map fl st c es => cases fl <;> simp [PNode.flow, PNode.isInline2] at he hi
  | anchored a n => simp [PNode.isInline2] at hi
  | alias a t => simp [PNode.flow] at he

/-- Inline values (scalars, flow collections, aliases) after an indicator. -/
theorem afterL_inline (x : PNode) (ctx : Ctx) (h : x.bl2 ctx = true) (hi : x.isInline2 = true) (e col : Nat) (m : Meta)
    (ht : trailOk2 m x = true) (cOk : Bool) (f : Nat) (rest : List Line) (hf : 2 ≤ f) (hb : Bound ctx e rest) :
    Parsed (parseAfter f (x.valueR ctx e col m).1 col (pnOf ctx e) cOk (ctx == .map) ((x.valueR ctx e col m).2 ++ rest))
      x.node rest := by
  obtain ⟨hT, -, -⟩ := trail_facts m x ht
  rw [valueR_inline x ctx h hi e col m]
  obtain ⟨f', rfl⟩ : ∃ f', f = f' + 2 := ⟨f - 2, by omega⟩
  by_cases hne : x.flow = []
  · simp only [hne, if_true, List.nil_append]
    rw [node_of_empty_flow x ctx h hi hne]
    exact parseAfter_empty f' col ctx e rest hb cOk _ hT
  · simp only [hne, if_false, List.nil_append]
    have := parseAfter_inline3 (f' + 1) (m.gap + 1) col (pnOf ctx e) cOk (ctx == .map) x.flow x.node _ hT rest
      (inline3_value x ctx h hi hne)
    exact ⟨rest, this, rfl⟩

theorem bound_after_items (r : PItems) (hr : r.bl2 = true) (n : Nat) (rest : List Line) (hb : BoundSeq n rest) :
    Bound .seq n (r.linesR n ++ rest) := by
  cases r with
  | nil =>
    intro l r' hl
    simp only [PItems.linesR, List.nil_append] at hl
    obtain ⟨h1, h2⟩ := hb l r' hl
    exact ⟨by omega, h1⟩
  | cons m x r'' =>
    simp only [PItems.bl2, Bool.and_eq_true, List.isEmpty_iff, Option.isNone_iff_eq_none] at hr
    obtain ⟨⟨⟨hf, ht⟩, hx⟩, _⟩ := hr
    obtain ⟨hs, _, _⟩ := canon_value x .seq hx n (n + 1) m ht
    obtain ⟨_, hfil⟩ := seqLine_facts n _ hs
    intro l r' hl
    simp only [PItems.linesR, List.append_assoc, skipFill_fillLines, List.cons_append, skipFill, hfil,
      Bool.false_eq_true, if_false, List.cons.injEq] at hl
    rw [← hl.1]
    exact ⟨Nat.le_refl _, by simp⟩

theorem bound_after_entries (r : PEntries) (hr : r.bl2 = true) (n : Nat) (rest : List Line) (hb : BoundMap n rest) :
    Bound .map n (r.linesR n ++ rest) := by
  cases r with
  | nil =>
    intro l r' hl
    simp only [PEntries.linesR, List.nil_append] at hl
    obtain ⟨h1, h2⟩ := hb l r' hl
    exact ⟨by omega, h1, by intro he; omega⟩
  | cons m k ks x r'' =>
    simp only [PEntries.bl2, Bool.and_eq_true, List.isEmpty_iff, Option.isNone_iff_eq_none] at hr
    obtain ⟨⟨⟨⟨hf, ht⟩, hk⟩, hx⟩, _⟩ := hr
    obtain ⟨hs, _, _⟩ := canon_value x .map hx n (n + (keyText k ks).length + 1) m ht
    obtain ⟨_, hd, hfil, htab⟩ := keyLine_facts n k ks hk _ hs
    intro l r' hl
    simp only [PEntries.linesR, List.append_assoc, skipFill_fillLines, List.cons_append, skipFill, hfil,
      Bool.false_eq_true, if_false, List.cons.injEq] at hl
    rw [← hl.1]
    exact ⟨Nat.le_refl _, htab, fun _ => hd⟩


theorem tail_after_items (m : Meta) (x : PNode) (r : PItems) (hr : r.bl2 = true) (n : Nat) (rest : List Line)
    (hfl : itemFill m x r = true) (hT : Tail n (PItems.cons m x r).endsKeep rest) :
    Tail n x.endsKeep (r.linesR n ++ rest) ∧ Tail n r.endsKeep rest := by
  cases r with
  | nil => exact ⟨by simpa [PItems.linesR, PItems.endsKeep] using hT, Tail_weaken _ _ _ hT⟩
  | cons m' x' r' =>
    refine ⟨?_, by simpa [PItems.endsKeep] using hT⟩
    simp only [PItems.linesR, List.append_assoc, List.cons_append]
    apply tail_fill n _ m'.fill _ _ rfl (Nat.le_refl _)
    intro hk hb
    simp only [itemFill, Bool.and_eq_true, Bool.not_eq_true', Bool.and_eq_false_imp] at hfl
    have := hfl.2 hk
    simp [startsBlank, hb] at this

theorem tail_after_entries (m : Meta) (k : Str) (ks : KStyle) (x : PNode) (r : PEntries) (hr : r.bl2 = true) (n : Nat)
    (rest : List Line) (hfl : entryFill m x r = true) (hT : Tail n (PEntries.cons m k ks x r).endsKeep rest) :
    Tail n x.endsKeep (r.linesR n ++ rest) ∧ Tail n r.endsKeep rest := by
  cases r with
  | nil => exact ⟨by simpa [PEntries.linesR, PEntries.endsKeep] using hT, Tail_weaken _ _ _ hT⟩
  | cons m' k' ks' x' r' =>
    refine ⟨?_, by simpa [PEntries.endsKeep] using hT⟩
    simp only [PEntries.bl2, Bool.and_eq_true, List.isEmpty_iff, Option.isNone_iff_eq_none] at hr
    have hk : keyOk false k' ks' = true := hr.1.1.2
    obtain ⟨c0, t0, hkt, _⟩ := keyHead_facts k' ks' hk
    simp only [PEntries.linesR, List.append_assoc, List.cons_append, hkt]
    apply tail_fill n _ m'.fill _ _ rfl (Nat.le_refl _)
    intro hk' hb
    simp only [entryFill, Bool.and_eq_true, Bool.not_eq_true', Bool.and_eq_false_imp] at hfl
    have := hfl.2 hk'
    simp [startsBlank, hb] at this

theorem takeWhile_spaces_len (k : Nat) (c : Char) (t : Str) (hc : c ≠ ' ') :
    (List.takeWhile (fun x => x == ' ') (spaces k ++ c :: t)).length = k := by
  induction k with
  | zero => simp [spaces, List.takeWhile_cons, hc]
  | succ k ih =>
    simp only [spaces, List.replicate_succ, List.cons_append, List.takeWhile_cons, beq_self_eq_true, if_true,
      List.length_cons] at ih ⊢
    rw [ih]

/-- An anchor after an indicator: the anchored node follows on the same line or on the next ones. -/
theorem parseAfter_anchor (f k col pn : Nat) (cOk sSame : Bool) (a r : Str) (ls : List Line) (ha : anchorNameOk a = true)
    (hr : RestShape r) (hkey : splitKey (dropSpaces r) = .ok none) (hdash : isDash (dropSpaces r) = false) :
    parseAfter (f + 1) (spaces k ++ '&' :: (a ++ r)) col pn cOk sSame ls
      = (parseAfter f r (col + k + 1 + a.length) pn false sSame ls).map fun (n, l) => (.anchored a n, l) := by
  obtain ⟨hne, hall, hemp⟩ := anchorName_facts a ha
  have hds : dropSpaces (spaces k ++ '&' :: (a ++ r)) = '&' :: (a ++ r) := dropSpaces_spaces k '&' _ (by decide)
  have htw := takeWhile_spaces_len k '&' (a ++ r) (by decide)
  have hsplit : (a ++ r).takeWhile isAnchorChar = a ∧ (a ++ r).dropWhile isAnchorChar = r := by
    apply anchorName_split a r hall
    rcases hr with rfl | hr
    · exact Or.inl rfl
    · cases r with
      | nil => exact Or.inl rfl
      | cons d t =>
        have : d = ' ' := by simpa using hr
        subst this; exact Or.inr ⟨' ', t, rfl, by decide⟩
  have hrs : (!(r.isEmpty || r.head? == some ' ')) = false := by
    rcases hr with rfl | hr
    · rfl
    · simp [hr]
  rw [parseAfter]
  simp only [hds, htw, List.head?_cons, show (some '&' == some '\t') = false by decide, Bool.false_eq_true, if_false,
    List.isEmpty_cons, show (some '&' == some '#') = false by decide, Bool.false_and, Bool.or_self, hsplit.1, hsplit.2, hemp,
    hrs, hkey, hdash]

/-- The text after an anchor is not a mapping key and not a sequence entry. -/
theorem value_first_facts (n : PNode) (ctx : Ctx) (hn : n.bl2 ctx = true) (hanc : n.anchorable false = true)
    (e col : Nat) (m : Meta) (ht : trailOk2 m n = true) :
    splitKey (dropSpaces (n.valueR ctx e col m).1) = .ok none ∧ isDash (dropSpaces (n.valueR ctx e col m).1) = false := by
  have hT := trailOk_trailText m.trail
  have hempty : ∀ T, TrailOk T → splitKey (dropSpaces T) = .ok none ∧ isDash (dropSpaces T) = false := by
    intro T hT
    rcases hT with rfl | ⟨c, rfl⟩
    · exact ⟨by simp [dropSpaces, splitKey, plainLen], by simp [dropSpaces, isDash]⟩
    · have : dropSpaces (' ' :: '#' :: c) = '#' :: c := by simp [dropSpaces, List.dropWhile_cons]
      rw [this]; exact ⟨by simp [splitKey], by simp [isDash]⟩
  by_cases hi : n.isInline2 = true
  · rw [valueR_inline n ctx hn hi e col m]
    by_cases hne : n.flow = []
    · simp only [hne, if_true, List.nil_append]; exact hempty _ hT
    · simp only [hne, if_false]
      obtain ⟨⟨c, r, hfl, hsp, _⟩, hdash, hkey, _⟩ := inline3_value n ctx hn hi hne
      have hds : dropSpaces (spaces (m.gap + 1) ++ n.flow ++ trailText m.trail) = n.flow ++ trailText m.trail := by
        rw [hfl]
        have := dropSpaces_spaces (m.gap + 1) c (r ++ trailText m.trail) hsp
        simpa [List.append_assoc] using this
      rw [hds]; exact ⟨hkey _ hT, hdash _ hT⟩
  · cases n with
    | str s st =>
      cases st with
      | literal ch ind ex =>
        have hds : dropSpaces ((PNode.str s (.literal ch ind ex)).valueR ctx e col m).1
            = '|' :: (((if ex then natDigits 10 ind else []) ++ chompChar ch) ++ trailText m.trail) := by
          have := dropSpaces_spaces (m.gap + 1) '|' (((if ex then natDigits 10 ind else []) ++ chompChar ch) ++ trailText m.trail)
            (by decide)
          simpa [PNode.valueR, List.append_assoc] using this
        rw [hds]; exact ⟨by simp [splitKey], by simp [isDash]⟩
      | folded ch ind ex fo =>
        have hds : dropSpaces ((PNode.str s (.folded ch ind ex fo)).valueR ctx e col m).1
            = '>' :: (((if ex then natDigits 10 ind else []) ++ chompChar ch) ++ trailText m.trail) := by
          have := dropSpaces_spaces (m.gap + 1) '>' (((if ex then natDigits 10 ind else []) ++ chompChar ch) ++ trailText m.trail)
            (by decide)
          simpa [PNode.valueR, List.append_assoc] using this
        rw [hds]; exact ⟨by simp [splitKey], by simp [isDash]⟩
      | _ => simp [PNode.isInline2] at hi
    | seq fl st c items =>
      cases fl with
      | true => simp [PNode.isInline2] at hi
      | false =>
        have hc : c = false := by simpa [PNode.anchorable] using hanc
        subst hc
        simp only [PNode.valueR, Bool.false_eq_true, if_false]; exact hempty _ hT
    | map fl st c es =>
      cases fl with
      | true => simp [PNode.isInline2] at hi
      | false =>
        have hc : c = false := by simpa [PNode.anchorable] using hanc
        subst hc
        simp only [PNode.valueR, Bool.false_eq_true, if_false]; exact hempty _ hT
    | anchored a n' => simp [PNode.anchorable] at hanc
    | _ => simp [PNode.isInline2] at hi

theorem noncompact_of_ctx (x : PNode) (ctx : Ctx) (h : x.bl2 ctx = true) (hc : ctx ≠ .seq) : x.isCompact = false := by
  cases x with
  | seq fl st c items =>
    cases fl with
    | true => rfl
    | false =>
      cases c with
      | false => rfl
      | true => cases ctx <;> simp [PNode.bl2] at h hc
  | map fl st c es =>
    cases fl with
    | true => rfl
    | false =>
      cases c with
      | false => rfl
      | true => cases ctx <;> simp [PNode.bl2] at h hc
  | _ => rfl

mutual
/-- A value after its indicator (`cOk`: a compact collection may start on this line). -/
theorem afterL : (x : PNode) → ∀ (ctx : Ctx), x.bl2 ctx = true → ∀ (e col : Nat) (m : Meta), trailOk2 m x = true →
    (e < col ∨ ctx = .root) → (ctx = .root → e = 0) → ∀ (cOk : Bool), (x.isCompact = true → cOk = true) →
    ∀ (f : Nat) (rest : List Line), x.bneed ≤ f → Bound ctx e rest →
    Tail e x.endsKeep rest →
    Parsed (parseAfter f (x.valueR ctx e col m).1 col (pnOf ctx e) cOk (ctx == .map) ((x.valueR ctx e col m).2 ++ rest))
      x.node rest
  | .null v, ctx, h, e, col, m, ht, _, _, cOk, _, f, rest, hf, hb, _ =>
    afterL_inline _ ctx h rfl e col m ht cOk f rest (by simpa [PNode.bneed] using hf) hb
  | .bool b v, ctx, h, e, col, m, ht, _, _, cOk, _, f, rest, hf, hb, _ =>
    afterL_inline _ ctx h rfl e col m ht cOk f rest (by simpa [PNode.bneed] using hf) hb
  | .int i v, ctx, h, e, col, m, ht, _, _, cOk, _, f, rest, hf, hb, _ =>
    afterL_inline _ ctx h rfl e col m ht cOk f rest (by simpa [PNode.bneed] using hf) hb
  | .str s st, ctx, h, e, col, m, ht, _, hroot, cOk, hck, f, rest, hf, hb, hT => by
    clear hck
    cases st
    case literal ch ind ex =>
      simp only [PNode.bl2] at h
      obtain ⟨f', rfl⟩ : ∃ f', f = f' + 1 := ⟨f - 1, by simp [PNode.bneed] at hf; omega⟩
      have hpn : pnOf ctx e = if (ctx == Ctx.root) = true then 0 else e + 1 := by cases ctx <;> rfl
      have hk : (PNode.str s (.literal ch ind ex)).endsKeep = (ch == .keep) := by cases ch <;> rfl
      rw [hk] at hT
      have := after_literal f' (m.gap + 1) col (pnOf ctx e) e cOk (ctx == .map) (ctx == .root) s ch ind ex hpn
        (by intro h'; exact hroot (by simpa using h')) h rest hT _ (trailOk_trailText m.trail)
      simp only [PNode.valueR, PNode.node]
      have e1 : (if ctx = Ctx.root then 0 else e + 1) = pnOf ctx e := rfl
      rw [e1]
      exact ⟨rest.dropWhile blankL, this, skipFill_dropBlank rest⟩
    case folded ch ind ex fo =>
      simp only [PNode.bl2] at h
      obtain ⟨f', rfl⟩ : ∃ f', f = f' + 1 := ⟨f - 1, by simp [PNode.bneed] at hf; omega⟩
      have hpn : pnOf ctx e = if (ctx == Ctx.root) = true then 0 else e + 1 := by cases ctx <;> rfl
      have hk : (PNode.str s (.folded ch ind ex fo)).endsKeep = (ch == .keep) := by cases ch <;> rfl
      rw [hk] at hT
      have := after_folded f' (m.gap + 1) col (pnOf ctx e) e cOk (ctx == .map) (ctx == .root) s ch ind ex fo hpn
        (by intro h'; exact hroot (by simpa using h')) h rest hT _ (trailOk_trailText m.trail)
      simp only [PNode.valueR, PNode.node]
      have e1 : (if ctx = Ctx.root then 0 else e + 1) = pnOf ctx e := rfl
      rw [e1]
      exact ⟨rest.dropWhile blankL, this, skipFill_dropBlank rest⟩
    all_goals exact afterL_inline _ ctx h rfl e col m ht cOk f rest (by simpa [PNode.bneed] using hf) hb
  | .anchored a n, ctx, h, e, col, m, ht, hcol, hroot, cOk, _, f, rest, hf, hb, hT => by
    simp only [PNode.bl2, Bool.and_eq_true] at h
    obtain ⟨⟨ha, hanc⟩, hn⟩ := h
    have htn := trailOk2_inner m a n ht hanc
    obtain ⟨f', rfl⟩ : ∃ f', f = f' + 1 := ⟨f - 1, by simp [PNode.bneed] at hf; omega⟩
    have hf' : n.bneed ≤ f' := by simp [PNode.bneed] at hf; omega
    obtain ⟨hs, _, _⟩ := canon_value n ctx hn e (col + m.gap + 1 + a.length + 1) { m with gap := 0 } htn
    obtain ⟨hkey, hdash⟩ := value_first_facts n ctx hn hanc e (col + m.gap + 1 + a.length + 1) { m with gap := 0 } htn
    have ih := afterL n ctx hn e (col + m.gap + 1 + a.length + 1) { m with gap := 0 } htn
      (by rcases hcol with h' | h'; exact Or.inl (by omega); exact Or.inr h') hroot false
      (by intro hc; rw [anchorable_noncompact n false hanc] at hc; cases hc) f' rest hf' hb
      (by simpa [PNode.endsKeep] using hT)
    obtain ⟨rest', hp, hsk⟩ := ih
    simp only [PNode.valueR, PNode.node]
    have e1 : spaces (m.gap + 1) ++ '&' :: a ++ (n.valueR ctx e (col + m.gap + 1 + a.length + 1) { m with gap := 0 }).1
        = spaces (m.gap + 1) ++ '&' :: (a ++ (n.valueR ctx e (col + m.gap + 1 + a.length + 1) { m with gap := 0 }).1) := by
      simp [List.append_assoc]
    rw [e1, parseAfter_anchor f' (m.gap + 1) col (pnOf ctx e) cOk (ctx == .map) a _ _ ha hs hkey hdash]
    have e2 : col + (m.gap + 1) + 1 + a.length = col + m.gap + 1 + a.length + 1 := by omega
    rw [e2, hp]
    exact ⟨rest', rfl, hsk⟩
  | .alias a t, ctx, h, e, col, m, ht, _, _, cOk, _, f, rest, hf, hb, _ =>
    afterL_inline _ ctx h rfl e col m ht cOk f rest (by simpa [PNode.bneed] using hf) hb
  | .seq true st c items, ctx, h, e, col, m, ht, _, _, cOk, _, f, rest, hf, hb, _ =>
    afterL_inline _ ctx h rfl e col m ht cOk f rest (by simpa [PNode.bneed] using hf) hb
  | .map true st c es, ctx, h, e, col, m, ht, _, _, cOk, _, f, rest, hf, hb, _ =>
    afterL_inline _ ctx h rfl e col m ht cOk f rest (by simpa [PNode.bneed] using hf) hb
  | .seq false st c items, ctx, h, e, col, m, ht, hcol, hroot, cOk, hck, f, rest, hf, hb, hT => by
    simp only [PNode.bl2, Bool.and_eq_true, Bool.not_eq_true'] at h
    obtain ⟨⟨hnil, hi⟩, hc⟩ := h
    have hT : Tail e items.endsKeep rest := by simpa [PNode.endsKeep] using hT
    cases items with
    | nil => simp [PItems.startOk, PItems.isNil] at hnil
    | cons m' x r =>
      have hi' := hi
      simp only [PItems.bl2, Bool.and_eq_true, List.isEmpty_iff, Option.isNone_iff_eq_none] at hi'
      obtain ⟨⟨⟨hfl, htr⟩, hx⟩, hr⟩ := hi'
      obtain ⟨f', rfl⟩ : ∃ f', f = f' + 2 := ⟨f - 2, by simp [PNode.bneed] at hf; omega⟩
      have hf' : (PItems.cons m' x r).bneed ≤ f' := by simp [PNode.bneed] at hf; omega
      cases c with
      | false =>
        -- entries on the following lines, at indentation k
        have hk : (ctx == .root || decide (1 ≤ st) || (ctx == .map && st == 0)) = true := by simpa using hc
        simp only [PNode.valueR, Bool.false_eq_true, if_false, PNode.node]
        rw [parseAfter_trail _ _ _ _ _ _ (trailOk_trailText m.trail)]
        obtain ⟨hs, _, _⟩ := canon_value x .seq hx (if ctx = .root then 0 else e + st) ((if ctx = .root then 0 else e + st) + 1) m' htr
        simp only [PItems.linesR, List.cons_append, List.append_assoc]
        rw [parseBlock_congr (f' + 1) _ _ _ _ (skipFill_fillLines _ m'.fill _)]
        have hdisp := parseBlock_seq f' (pnOf ctx e) (if ctx = .root then 0 else e + st) (ctx == .map) _
          ((x.valueR .seq (if ctx = .root then 0 else e + st) ((if ctx = .root then 0 else e + st) + 1) m').2 ++
            r.linesR (if ctx = .root then 0 else e + st) ++ rest) hs (by
            cases ctx with
            | root => left; simp [pnOf]
            | seq =>
              have : 1 ≤ st := by simpa using hk
              left; simp [pnOf]; omega
            | map =>
              by_cases h1 : 1 ≤ st
              · left; simp [pnOf]; omega
              · have : st = 0 := by omega
                right; simp [pnOf, this])
        simp only [List.append_assoc] at hdisp ⊢
        rw [hdisp]
        have hbs : BoundSeq (if ctx = .root then 0 else e + st) rest := by
          apply bound_to_seq ctx e _ rest hb
          cases ctx with
          | root => exact Or.inl rfl
          | seq =>
            have : 1 ≤ st := by simpa using hk
            right; left; simp; omega
          | map =>
            by_cases h1 : 1 ≤ st
            · right; left; simp; omega
            · have : st = 0 := by omega
              right; right; simp [this]
        have hle : e ≤ (if ctx = .root then 0 else e + st) := by
          by_cases hr0 : ctx = .root
          · simp [hr0, hroot hr0]
          · simp [hr0]
        have := seqL (.cons m' x r) hi (if ctx = .root then 0 else e + st) f' rest [] hf' hbs (Tail_mono _ _ _ _ hle hT)
        simp only [PItems.linesR, List.cons_append, List.append_assoc, List.reverse_nil] at this
        rw [parseSeq_congr f' _ _ _ [] (skipFill_fillLines _ m'.fill _)] at this
        exact this
      | true =>
        have hctx : ctx = .seq := by simpa using hc
        subst hctx
        have hcOk : cOk = true := hck rfl
        subst hcOk
        have hcol' : e < col := by
          rcases hcol with h' | h'
          · exact h'
          · cases h'
        obtain ⟨hs, _, _⟩ := canon_value x .seq hx (col + m.gap + 1) (col + m.gap + 1 + 1) m' htr
        have hfl0 : m'.fill = [] := first_fill_items m' x r true .seq hnil rfl
        simp only [PNode.valueR, if_true, PItems.linesR, hfl0, fillLines, List.map_nil, List.nil_append, List.cons_append,
          PNode.node]
        have hd := (seqLine_facts (col + m.gap + 1) _ hs).1
        have hpc := parseAfter_compact (f' + 1) m.gap col (pnOf .seq e) (Ctx.seq == Ctx.map) '-' _ 
          ((x.valueR .seq (col + m.gap + 1) (col + m.gap + 1 + 1) m').2 ++ r.linesR (col + m.gap + 1) ++ rest)
          (by decide) (by decide) (by decide) (by decide) (by decide) (by decide) (Or.inl hd)
        simp only [show (Ctx.seq == Ctx.seq) = true by rfl, List.append_assoc] at hpc ⊢
        rw [hpc]
        have hdisp := parseBlock_seq f' (col + (m.gap + 1)) (col + (m.gap + 1)) false _
          ((x.valueR .seq (col + m.gap + 1) (col + m.gap + 1 + 1) m').2 ++ (r.linesR (col + m.gap + 1) ++ rest)) hs
          (Or.inl (Nat.le_refl _))
        have e1 : col + (m.gap + 1) = col + m.gap + 1 := by omega
        rw [e1] at hdisp ⊢
        rw [hdisp]
        have hbs : BoundSeq (col + m.gap + 1) rest :=
          bound_to_seq .seq e _ rest hb (Or.inr (Or.inl (by omega)))
        have := seqL (.cons m' x r) hi (col + m.gap + 1) f' rest [] hf' hbs (Tail_mono _ _ _ _ (by omega) hT)
        simp only [PItems.linesR, hfl0, fillLines, List.map_nil, List.nil_append, List.cons_append, List.append_assoc,
          List.reverse_nil] at this
        exact this
  | .map false st c es, ctx, h, e, col, m, ht, hcol, hroot, cOk, hck, f, rest, hf, hb, hT => by
    simp only [PNode.bl2, Bool.and_eq_true, Bool.not_eq_true'] at h
    obtain ⟨⟨hnil, hi⟩, hc⟩ := h
    have hT : Tail e es.endsKeep rest := by simpa [PNode.endsKeep] using hT
    cases es with
    | nil => simp [PEntries.startOk, PEntries.isNil] at hnil
    | cons m' k ks x r =>
      have hi' := hi
      simp only [PEntries.bl2, Bool.and_eq_true, List.isEmpty_iff, Option.isNone_iff_eq_none] at hi'
      obtain ⟨⟨⟨⟨hfl, htr⟩, hkey⟩, hx⟩, hr⟩ := hi'
      obtain ⟨f', rfl⟩ : ∃ f', f = f' + 2 := ⟨f - 2, by simp [PNode.bneed] at hf; omega⟩
      have hf' : (PEntries.cons m' k ks x r).bneed ≤ f' := by simp [PNode.bneed] at hf; omega
      cases c with
      | false =>
        have hk : (ctx == .root || decide (1 ≤ st)) = true := by simpa using hc
        simp only [PNode.valueR, Bool.false_eq_true, if_false, PNode.node]
        rw [parseAfter_trail _ _ _ _ _ _ (trailOk_trailText m.trail)]
        obtain ⟨hs, _, _⟩ := canon_value x .map hx (if ctx = .root then 0 else e + st)
          ((if ctx = .root then 0 else e + st) + (keyText k ks).length + 1) m' htr
        simp only [PEntries.linesR, List.cons_append, List.append_assoc]
        rw [parseBlock_congr (f' + 1) _ _ _ _ (skipFill_fillLines _ m'.fill _)]
        have hdisp := parseBlock_map f' (pnOf ctx e) (if ctx = .root then 0 else e + st) (ctx == .map) k ks hkey _
          ((x.valueR .map (if ctx = .root then 0 else e + st) ((if ctx = .root then 0 else e + st) + (keyText k ks).length + 1) m').2 ++
            r.linesR (if ctx = .root then 0 else e + st) ++ rest) hs (by
            cases ctx with
            | root => simp [pnOf]
            | seq => have : 1 ≤ st := by simpa using hk
                     simp [pnOf]; omega
            | map => have : 1 ≤ st := by simpa using hk
                     simp [pnOf]; omega)
        simp only [List.append_assoc] at hdisp ⊢
        rw [hdisp]
        have hbm : BoundMap (if ctx = .root then 0 else e + st) rest := by
          apply bound_to_map ctx e _ rest hb
          cases ctx with
          | root => exact Or.inl rfl
          | seq => have : 1 ≤ st := by simpa using hk
                   right; simp; omega
          | map => have : 1 ≤ st := by simpa using hk
                   right; simp; omega
        have hle : e ≤ (if ctx = .root then 0 else e + st) := by
          by_cases hr0 : ctx = .root
          · simp [hr0, hroot hr0]
          · simp [hr0]
        have := mapL (.cons m' k ks x r) hi (if ctx = .root then 0 else e + st) f' rest [] hf' hbm (Tail_mono _ _ _ _ hle hT)
        simp only [PEntries.linesR, List.cons_append, List.append_assoc, List.reverse_nil] at this
        rw [parseMap_congr f' _ _ _ [] (skipFill_fillLines _ m'.fill _)] at this
        exact this
      | true =>
        have hctx : ctx = .seq := by simpa using hc
        subst hctx
        have hcOk : cOk = true := hck rfl
        subst hcOk
        have hcol' : e < col := by
          rcases hcol with h' | h'
          · exact h'
          · cases h'
        obtain ⟨hs, _, _⟩ := canon_value x .map hx (col + m.gap + 1) (col + m.gap + 1 + (keyText k ks).length + 1) m' htr
        obtain ⟨hsplit, hd, _, _⟩ := keyLine_facts (col + m.gap + 1) k ks hkey _ hs
        obtain ⟨c0, t0, hkt, q1, q2, q3, _, _, q6, _, q8, q9, _⟩ := keyHead_facts k ks hkey
        have hfl0 : m'.fill = [] := first_fill_entries m' k ks x r true .seq hnil rfl
        simp only [PNode.valueR, if_true, PEntries.linesR, hfl0, fillLines, List.map_nil, List.nil_append, List.cons_append,
          PNode.node]
        rw [hkt] at hsplit hd ⊢
        simp only [List.cons_append] at hsplit hd ⊢
        have hpc := parseAfter_compact (f' + 1) m.gap col (pnOf .seq e) (Ctx.seq == Ctx.map) c0 _
          ((x.valueR .map (col + m.gap + 1) (col + m.gap + 1 + (c0 :: t0).length + 1) m').2 ++ r.linesR (col + m.gap + 1) ++ rest)
          q1 q3 q2 q8 q9 q6 (Or.inr ⟨hd, _, hsplit⟩)
        simp only [show (Ctx.seq == Ctx.seq) = true by rfl, List.append_assoc] at hpc ⊢
        rw [hpc]
        have hdisp := parseBlock_map f' (col + (m.gap + 1)) (col + (m.gap + 1)) false k ks hkey _
          ((x.valueR .map (col + m.gap + 1) (col + m.gap + 1 + (keyText k ks).length + 1) m').2 ++ (r.linesR (col + m.gap + 1) ++ rest)) hs
          (Nat.le_refl _)
        have e1 : col + (m.gap + 1) = col + m.gap + 1 := by omega
        rw [e1, hkt] at hdisp
        simp only [List.cons_append] at hdisp
        rw [e1, hdisp]
        have hbm : BoundMap (col + m.gap + 1) rest := bound_to_map .seq e _ rest hb (Or.inr (by omega))
        have := mapL (.cons m' k ks x r) hi (col + m.gap + 1) f' rest [] hf' hbm (Tail_mono _ _ _ _ (by omega) hT)
        simp only [PEntries.linesR, hfl0, fillLines, List.map_nil, List.nil_append, List.cons_append, List.append_assoc,
          List.reverse_nil, hkt] at this
        exact this
/-- The entries of a block sequence at indentation `n`. -/
theorem seqL : (items : PItems) → items.bl2 = true → ∀ (n f : Nat) (rest : List Line) (acc : List Node), items.bneed ≤ f →
    BoundSeq n rest → Tail n items.endsKeep rest → Parsed (parseSeq f n (items.linesR n ++ rest) acc) (.seq (acc.reverse ++ items.nodes)) rest
  | .nil, _, n, f, rest, acc, hf, hb, _ => by
    obtain ⟨f', rfl⟩ : ∃ f', f = f' + 1 := ⟨f - 1, by simp [PItems.bneed] at hf; omega⟩
    simp only [PItems.linesR, List.nil_append, PItems.nodes, List.append_nil]
    rw [parseSeq]
    cases hs : skipFill rest with
    | nil => exact ⟨[], rfl, by simp [skipFill, hs]⟩
    | cons l r =>
      have hid : skipFill (l :: r) = l :: r := by rw [← hs, skipFill_idem]
      obtain ⟨h1, h2⟩ := hb l r hs
      rcases h2 with h2 | ⟨h2, h3⟩
      · simp only [h2, if_true]
        exact ⟨l :: r, rfl, by rw [hid, hs]⟩
      · have ht : (l.txt.head? == some '\t') = false := by simpa using h1
        simp only [h2, Nat.lt_irrefl, if_false, h3, Bool.not_false, if_true, ht, Bool.false_eq_true]
        exact ⟨l :: r, rfl, by rw [hid, hs]⟩
  | .cons m x r, h, n, f, rest, acc, hf, hb, hT => by
    have h' := h
    simp only [PItems.bl2, Bool.and_eq_true, List.isEmpty_iff, Option.isNone_iff_eq_none] at h'
    obtain ⟨⟨⟨hfl, htr⟩, hx⟩, hr⟩ := h'
    obtain ⟨hT1, hT2⟩ := tail_after_items m x r hr n rest hfl hT
    obtain ⟨f', rfl⟩ : ∃ f', f = f' + 1 := ⟨f - 1, by simp [PItems.bneed] at hf; omega⟩
    have hfx : x.bneed ≤ f' := by simp [PItems.bneed] at hf; omega
    have hfr : r.bneed ≤ f' := by simp [PItems.bneed] at hf; omega
    obtain ⟨hs, _, _⟩ := canon_value x .seq hx n (n + 1) m htr
    obtain ⟨hd, hfil⟩ := seqLine_facts n _ hs
    simp only [PItems.linesR, List.cons_append, List.append_assoc, PItems.nodes]
    rw [parseSeq_congr (f' + 1) n _ _ acc (skipFill_fillLines n m.fill _)]
    rw [parseSeq]
    simp only [skipFill, hfil, Bool.false_eq_true, if_false, Nat.lt_irrefl, hd, Bool.not_true, List.drop_one, List.tail_cons]
    obtain ⟨rest', hpa, hsk⟩ := afterL x .seq hx n (n + 1) m htr (Or.inl (Nat.lt_succ_self n)) (by intro h0; cases h0)
      true (fun _ => rfl) f'
      (r.linesR n ++ rest) hfx (bound_after_items r hr n rest hb) hT1
    simp only [pnOf, show (Ctx.seq = Ctx.root) = False by simp, if_false, show (Ctx.seq == Ctx.seq) = true by rfl,
      show (Ctx.seq == Ctx.map) = false by rfl] at hpa
    rw [hpa]
    simp only
    rw [parseSeq_congr f' n rest' (r.linesR n ++ rest) (x.node :: acc) hsk]
    have := seqL r hr n f' rest (x.node :: acc) hfr hb hT2
    simpa [List.reverse_cons, List.append_assoc] using this
/-- The entries of a block mapping at indentation `n`. -/
theorem mapL : (es : PEntries) → es.bl2 = true → ∀ (n f : Nat) (rest : List Line) (acc : List (Node × Node)), es.bneed ≤ f →
    BoundMap n rest → Tail n es.endsKeep rest → Parsed (parseMap f n (es.linesR n ++ rest) acc) (.map (acc.reverse ++ es.nodes)) rest
  | .nil, _, n, f, rest, acc, hf, hb, _ => by
    obtain ⟨f', rfl⟩ : ∃ f', f = f' + 1 := ⟨f - 1, by simp [PEntries.bneed] at hf; omega⟩
    simp only [PEntries.linesR, List.nil_append, PEntries.nodes, List.append_nil]
    rw [parseMap]
    cases hs : skipFill rest with
    | nil => exact ⟨[], rfl, by simp [skipFill, hs]⟩
    | cons l r =>
      have hid : skipFill (l :: r) = l :: r := by rw [← hs, skipFill_idem]
      obtain ⟨h1, h2⟩ := hb l r hs
      simp only [h2, if_true]
      exact ⟨l :: r, rfl, by rw [hid, hs]⟩
  | .cons m k ks x r, h, n, f, rest, acc, hf, hb, hT => by
    have h' := h
    simp only [PEntries.bl2, Bool.and_eq_true, List.isEmpty_iff, Option.isNone_iff_eq_none] at h'
    obtain ⟨⟨⟨⟨hfl, htr⟩, hkey⟩, hx⟩, hr⟩ := h'
    obtain ⟨hT1, hT2⟩ := tail_after_entries m k ks x r hr n rest hfl hT
    obtain ⟨f', rfl⟩ : ∃ f', f = f' + 1 := ⟨f - 1, by simp [PEntries.bneed] at hf; omega⟩
    have hfx : x.bneed ≤ f' := by simp [PEntries.bneed] at hf; omega
    have hfr : r.bneed ≤ f' := by simp [PEntries.bneed] at hf; omega
    obtain ⟨hs, _, _⟩ := canon_value x .map hx n (n + (keyText k ks).length + 1) m htr
    obtain ⟨hsplit, hd, hfil, htab⟩ := keyLine_facts n k ks hkey _ hs
    simp only [PEntries.linesR, List.cons_append, List.append_assoc, PEntries.nodes]
    rw [parseMap_congr (f' + 1) n _ _ acc (skipFill_fillLines n m.fill _)]
    rw [parseMap]
    simp only [skipFill, hfil, Bool.false_eq_true, if_false, Nat.lt_irrefl, hsplit]
    have hcol : n + ((keyText k ks ++ ':' :: (x.valueR .map n (n + (keyText k ks).length + 1) m).1).length
        - (x.valueR .map n (n + (keyText k ks).length + 1) m).1.length) = n + (keyText k ks).length + 1 := by
      simp only [List.length_append, List.length_cons]; omega
    rw [hcol]
    obtain ⟨rest', hpa, hsk⟩ := afterL x .map hx n (n + (keyText k ks).length + 1) m htr (Or.inl (by omega)) (by intro h0; cases h0)
      false (by intro hc; rw [noncompact_of_ctx x .map hx (by decide)] at hc; cases hc) f'
      (r.linesR n ++ rest) hfx (bound_after_entries r hr n rest hb) hT1
    simp only [pnOf, show (Ctx.map = Ctx.root) = False by simp, if_false, show (Ctx.map == Ctx.seq) = false by rfl,
      show (Ctx.map == Ctx.map) = true by rfl] at hpa
    rw [hpa]
    simp only
    rw [parseMap_congr f' n rest' (r.linesR n ++ rest) ((keyNode k ks, x.node) :: acc) hsk]
    have := mapL r hr n f' rest ((keyNode k ks, x.node) :: acc) hfr hb hT2
    simpa [List.reverse_cons, List.append_assoc] using this
end


/-! ## Resolution, fuel and document markers for layer-2 block nodes -/

mutual
/-- Resolution of block nodes follows the specification's anchor scoping. -/
theorem resolveB : (x : PNode) → ∀ ctx, x.bl2 ctx = true → ∀ env env', x.scope env = some env' →
    x.node.resolve env = .ok (x.tree, env')
  | .null v, ctx, h, env, env', hs => by
    have : env' = env := by simpa [PNode.scope] using hs.symm
    subst this
    exact (scalarFacts false (.null v) (by simp [PNode.sc2]) (by intros; simp) (by intros; simp)).res env'
  | .bool b v, ctx, h, env, env', hs => by
    have : env' = env := by simpa [PNode.scope] using hs.symm
    subst this
    exact (scalarFacts false (.bool b v) (by simp [PNode.sc2]) (by intros; simp) (by intros; simp)).res env'
  | .int i v, ctx, h, env, env', hs => by
    have : env' = env := by simpa [PNode.scope] using hs.symm
    subst this
    exact (scalarFacts false (.int i v) (by simp [PNode.sc2]) (by intros; simp) (by intros; simp)).res env'
  | .str s st, ctx, h, env, env', hs => by
    have : env' = env := by simpa [PNode.scope] using hs.symm
    subst this
    cases st
    case literal ch ind ex => simp [PNode.node, Node.resolve, resolveScalar, PNode.tree]; rfl
    case folded ch ind ex fo => simp [PNode.node, Node.resolve, resolveScalar, PNode.tree]; rfl
    all_goals exact (scalarFacts false _ (by simpa [PNode.bl2] using h) (by intros; simp) (by intros; simp)).res env'
  | .seq true st c items, ctx, h, env, env', hs => resolveNode2 _ (by simpa [PNode.bl2] using h) env env' hs
  | .map true st c es, ctx, h, env, env', hs => resolveNode2 _ (by simpa [PNode.bl2] using h) env env' hs
  | .seq false st c items, ctx, h, env, env', hs => by
    simp only [PNode.bl2, Bool.and_eq_true] at h
    simp only [PNode.scope] at hs
    simp [PNode.node, Node.resolve, resolveBItems items h.1.2 env env' hs, PNode.tree]; rfl
  | .map false st c es, ctx, h, env, env', hs => by
    simp only [PNode.bl2, Bool.and_eq_true] at h
    simp only [PNode.scope] at hs
    simp [PNode.node, Node.resolve, resolveBEntries es h.1.2 env env' hs, PNode.tree]; rfl
  | .anchored a n, ctx, h, env, env', hs => by
    simp only [PNode.bl2, Bool.and_eq_true] at h
    obtain ⟨e, he, rfl⟩ := scope_anchored a n env env' hs
    simp only [PNode.node, Node.resolve, resolveB n ctx h.2 env e he, PNode.tree]
  | .alias a t, ctx, h, env, env', hs => by
    obtain ⟨rfl, hl⟩ := scope_alias a t env env' hs
    simp only [PNode.node, Node.resolve, hl, PNode.tree]
theorem resolveBItems : (items : PItems) → items.bl2 = true → ∀ env env', items.scope env = some env' →
    resolveList env items.nodes = .ok (items.trees, env')
  | .nil, _, env, env', hs => by
    have : env' = env := by simpa [PItems.scope] using hs.symm
    subst this; simp [PItems.nodes, resolveList, PItems.trees]
  | .cons m x r, h, env, env', hs => by
    simp only [PItems.bl2, Bool.and_eq_true] at h
    simp only [PItems.scope] at hs
    cases hxs : x.scope env with
    | none => rw [hxs] at hs; cases hs
    | some e =>
      rw [hxs] at hs
      simp only [Option.bind_some] at hs
      simp [PItems.nodes, resolveList, resolveB x .seq h.1.2 env e hxs, resolveBItems r h.2 e env' hs, PItems.trees]; rfl
theorem resolveBEntries : (es : PEntries) → es.bl2 = true → ∀ env env', es.scope env = some env' →
    resolveKVs env es.nodes = .ok (es.trees, env')
  | .nil, _, env, env', hs => by
    have : env' = env := by simpa [PEntries.scope] using hs.symm
    subst this; simp [PEntries.nodes, resolveKVs, PEntries.trees]
  | .cons m k ks x r, h, env, env', hs => by
    simp only [PEntries.bl2, Bool.and_eq_true] at h
    simp only [PEntries.scope] at hs
    cases hxs : x.scope env with
    | none => rw [hxs] at hs; cases hs
    | some e =>
      rw [hxs] at hs
      simp only [Option.bind_some] at hs
      simp [PEntries.nodes, resolveKVs, (keyFacts false k ks h.1.1.2).2.2, resolveB x .map h.1.2 env e hxs,
        resolveBEntries r h.2 e env' hs, PEntries.trees]; rfl
end

/-- Weight of lines as counted by the loader's fuel. -/
def wt (ls : List Line) : Nat := (ls.map fun l => l.txt.length + 2).sum

theorem foldl_wt (ls : List Line) (a : Nat) : ls.foldl (fun a l => a + l.txt.length + 2) a = a + wt ls := by
  induction ls generalizing a with
  | nil => simp [wt]
  | cons l ls ih => simp only [List.foldl_cons, ih, wt, List.map_cons, List.sum_cons]; omega

theorem fuelOf_wt (ls : List Line) : fuelOf ls = wt ls * 4 + 8 := by
  simp [fuelOf, foldl_wt]

theorem wt_append (a b : List Line) : wt (a ++ b) = wt a + wt b := by simp [wt, List.map_append, List.sum_append]
theorem wt_cons (l : Line) (ls : List Line) : wt (l :: ls) = l.txt.length + 2 + wt ls := by simp [wt]

mutual
theorem bneed_value : (x : PNode) → ∀ ctx, x.bl2 ctx = true → ∀ (e col : Nat) (m : Meta),
    x.bneed ≤ 4 * ((x.valueR ctx e col m).1.length + wt (x.valueR ctx e col m).2) + 3
  | .null _, _, _, _, _, _ => by simp [PNode.bneed]
  | .bool _ _, _, _, _, _, _ => by simp [PNode.bneed]
  | .int _ _, _, _, _, _, _ => by simp [PNode.bneed]
  | .str _ _, _, _, _, _, _ => by simp [PNode.bneed]
  | .anchored a n, ctx, h, e, col, m => by
    simp only [PNode.bl2, Bool.and_eq_true] at h
    have := bneed_value n ctx h.2 e (col + m.gap + 1 + a.length + 1) { m with gap := 0 }
    simp only [PNode.bneed, PNode.valueR, List.length_append, List.length_cons]
    omega
  | .alias _ _, _, _, _, _, _ => by simp [PNode.bneed]
  | .seq true _ _ _, _, _, _, _, _ => by simp [PNode.bneed]
  | .map true _ _ _, _, _, _, _, _ => by simp [PNode.bneed]
  | .seq false st c items, ctx, h, e, col, m => by
    simp only [PNode.bl2, Bool.and_eq_true, Bool.not_eq_true'] at h
    obtain ⟨⟨hnil, hi⟩, _⟩ := h
    cases items with
    | nil => simp [PItems.startOk, PItems.isNil] at hnil
    | cons m' x r =>
      cases c with
      | false =>
        have := bneed_items (.cons m' x r) hi (if ctx = .root then 0 else e + st)
        simp only [PNode.bneed, PNode.valueR, Bool.false_eq_true, if_false]
        omega
      | true =>
        have := bneed_items (.cons m' x r) hi (col + m.gap + 1)
        have hf : m'.fill = [] := first_fill_items m' x r true ctx hnil rfl
        simp only [PNode.bneed, PNode.valueR, if_true, PItems.linesR, hf, fillLines, List.map_nil, List.nil_append,
          List.length_append, wt_cons, List.length_cons, PItems.isNil, Bool.false_eq_true, if_false] at this ⊢
        simp only [spaces, List.length_replicate]
        omega
  | .map false st c es, ctx, h, e, col, m => by
    simp only [PNode.bl2, Bool.and_eq_true, Bool.not_eq_true'] at h
    obtain ⟨⟨hnil, hi⟩, _⟩ := h
    cases es with
    | nil => simp [PEntries.startOk, PEntries.isNil] at hnil
    | cons m' k ks x r =>
      cases c with
      | false =>
        have := bneed_entries (.cons m' k ks x r) hi (if ctx = .root then 0 else e + st)
        simp only [PNode.bneed, PNode.valueR, Bool.false_eq_true, if_false]
        omega
      | true =>
        have := bneed_entries (.cons m' k ks x r) hi (col + m.gap + 1)
        have hf : m'.fill = [] := first_fill_entries m' k ks x r true ctx hnil rfl
        simp only [PNode.bneed, PNode.valueR, if_true, PEntries.linesR, hf, fillLines, List.map_nil, List.nil_append,
          List.length_append, wt_cons, List.length_cons, PEntries.isNil, Bool.false_eq_true, if_false] at this ⊢
        simp only [spaces, List.length_replicate]
        omega
theorem bneed_items : (items : PItems) → items.bl2 = true → ∀ n,
    items.bneed + (if items.isNil then 0 else 8) ≤ 4 * wt (items.linesR n) + 1
  | .nil, _, _ => by simp [PItems.bneed, PItems.isNil, PItems.linesR, wt]
  | .cons m x r, h, n => by
    simp only [PItems.bl2, Bool.and_eq_true, List.isEmpty_iff] at h
    have h1 := bneed_value x .seq h.1.2 n (n + 1) m
    have h2 := bneed_items r h.2 n
    simp only [PItems.bneed, PItems.isNil, PItems.linesR, wt_cons, wt_append,
      List.length_cons, Bool.false_eq_true, if_false] at h1 h2 ⊢
    split at h2 <;> omega
theorem bneed_entries : (es : PEntries) → es.bl2 = true → ∀ n,
    es.bneed + (if es.isNil then 0 else 8) ≤ 4 * wt (es.linesR n) + 1
  | .nil, _, _ => by simp [PEntries.bneed, PEntries.isNil, PEntries.linesR, wt]
  | .cons m k ks x r, h, n => by
    simp only [PEntries.bl2, Bool.and_eq_true, List.isEmpty_iff] at h
    have h1 := bneed_value x .map h.1.2 n (n + (keyText k ks).length + 1) m
    have h2 := bneed_entries r h.2 n
    simp only [PEntries.bneed, PEntries.isNil, PEntries.linesR, wt_cons,
      wt_append, List.length_cons, List.length_append, Bool.false_eq_true, if_false] at h1 h2 ⊢
    split at h2 <;> omega
end


/-! ## No rendered line is a document marker -/

def Line.notMark (l : Line) : Prop := isDocStart l = false ∧ isDocEnd l = false

theorem notMark_of_head (n : Nat) (c : Char) (t : Str) (h1 : c ≠ '-') (h2 : c ≠ '.') : Line.notMark ⟨n, c :: t⟩ := by
  have e1 : "---".toList = ['-', '-', '-'] := by decide
  have e2 : "...".toList = ['.', '.', '.'] := by decide
  have q1 : ('-' == c) = false := by simp [Ne.symm h1]
  have q2 : ('.' == c) = false := by simp [Ne.symm h2]
  constructor
  · simp only [isDocStart, isMarker, e1, List.isPrefixOf, q1, Bool.false_and, Bool.and_false]
  · simp only [isDocEnd, isMarker, e2, List.isPrefixOf, q2, Bool.false_and, Bool.and_false]

theorem notMark_seqLine (n : Nat) (r1 : Str) (h : RestShape r1) : Line.notMark ⟨n, '-' :: r1⟩ := by
  have e1 : "---".toList = ['-', '-', '-'] := by decide
  have e2 : "...".toList = ['.', '.', '.'] := by decide
  constructor
  · rcases h with rfl | h
    · simp [isDocStart, isMarker, e1, List.isPrefixOf]
    · cases r1 with
      | nil => simp at h
      | cons d t =>
        have : d = ' ' := by simpa using h
        subst this
        simp [isDocStart, isMarker, e1, List.isPrefixOf]
  · simp [isDocEnd, isMarker, e2, List.isPrefixOf]

/-- A three-character marker is a prefix of `k ++ ':' :: r` only if it is a prefix of `k`. -/
theorem prefix3_key (a : Char) (k r : Str) (ha : a ≠ ':') (h : List.isPrefixOf [a, a, a] k = false) :
    List.isPrefixOf [a, a, a] (k ++ ':' :: r) = false := by
  have hq : (a == ':') = false := by simp [ha]
  cases k with
  | nil => simp [List.isPrefixOf, hq]
  | cons x k1 =>
    cases k1 with
    | nil => simp [List.isPrefixOf, hq]
    | cons y k2 =>
      cases k2 with
      | nil => simp [List.isPrefixOf, hq]
      | cons z k3 => simpa [List.isPrefixOf] using h

theorem notMark_keyLine (n : Nat) (k : Str) (ks : KStyle) (h : keyOk false k ks = true) (r1 : Str) :
    Line.notMark ⟨n, keyText k ks ++ ':' :: r1⟩ := by
  have e1 : "---".toList = ['-', '-', '-'] := by decide
  have e2 : "...".toList = ['.', '.', '.'] := by decide
  cases ks with
  | plain =>
    simp only [keyOk, Bool.and_eq_true] at h
    have hs := h.1.1
    simp only [plainSafe, Bool.and_eq_true, Bool.not_eq_true'] at hs
    have p1 := hs.1.2
    have p2 := hs.2
    rw [e1] at p1; rw [e2] at p2
    constructor
    · simp only [isDocStart, isMarker, keyText, e1, prefix3_key '-' k r1 (by decide) p1, Bool.and_false, Bool.false_and]
    · simp only [isDocEnd, isMarker, keyText, e2, prefix3_key '.' k r1 (by decide) p2, Bool.and_false, Bool.false_and]
  | single => exact notMark_of_head n '\'' _ (by decide) (by decide)
  | double sh eu => exact notMark_of_head n '"' _ (by decide) (by decide)

theorem fillLines_notMark (n : Nat) (fs : List Filler) : ∀ l ∈ fillLines n fs, l.notMark := by
  intro l hl
  obtain ⟨f, _, rfl⟩ := List.mem_map.mp hl
  cases f with
  | blank => constructor <;> simp [fillerLine, isDocStart, isDocEnd, isMarker]
  | comment c => exact notMark_of_head n '#' c (by decide) (by decide)

mutual
theorem nm_value : (x : PNode) → ∀ ctx, x.bl2 ctx = true → ∀ (e col : Nat) (m : Meta), trailOk2 m x = true →
    ∀ l ∈ (x.valueR ctx e col m).2, l.notMark
  | .seq false st c items, ctx, h, e, col, m, ht => by
    simp only [PNode.bl2, Bool.and_eq_true, Bool.not_eq_true'] at h
    have hi := h.1.2
    cases c with
    | false =>
      simp only [PNode.valueR, Bool.false_eq_true, if_false]
      exact nm_items items hi _
    | true =>
      cases items with
      | nil => simp [PItems.startOk, PItems.isNil] at h
      | cons m' x r =>
        have hc := nm_items (.cons m' x r) hi (col + m.gap + 1)
        have hf : m'.fill = [] := first_fill_items m' x r true ctx h.1.1 rfl
        simp only [PNode.valueR, if_true, PItems.linesR, hf, fillLines, List.map_nil, List.nil_append] at hc ⊢
        exact fun l hl => hc l (List.mem_cons_of_mem _ hl)
  | .map false st c es, ctx, h, e, col, m, ht => by
    simp only [PNode.bl2, Bool.and_eq_true, Bool.not_eq_true'] at h
    have hi := h.1.2
    cases c with
    | false =>
      simp only [PNode.valueR, Bool.false_eq_true, if_false]
      exact nm_entries es hi _
    | true =>
      cases es with
      | nil => simp [PEntries.startOk, PEntries.isNil] at h
      | cons m' k ks x r =>
        have hc := nm_entries (.cons m' k ks x r) hi (col + m.gap + 1)
        have hf : m'.fill = [] := first_fill_entries m' k ks x r true ctx h.1.1 rfl
        simp only [PNode.valueR, if_true, PEntries.linesR, hf, fillLines, List.map_nil, List.nil_append] at hc ⊢
        exact fun l hl => hc l (List.mem_cons_of_mem _ hl)
  | .seq true st c items, ctx, h, e, col, m, ht => by rw [valueR_inline _ ctx h rfl e col m]; simp
  | .map true st c es, ctx, h, e, col, m, ht => by rw [valueR_inline _ ctx h rfl e col m]; simp
  | .null v, ctx, h, e, col, m, ht => by rw [valueR_inline _ ctx h rfl e col m]; simp
  | .bool b v, ctx, h, e, col, m, ht => by rw [valueR_inline _ ctx h rfl e col m]; simp
  | .int i v, ctx, h, e, col, m, ht => by rw [valueR_inline _ ctx h rfl e col m]; simp
  | .str s st, ctx, h, e, col, m, ht => by
    cases st
    case literal ch ind ex =>
      simp only [PNode.bl2] at h
      have hs := h
      simp only [strOk, Bool.not_false, Bool.true_and, Bool.and_eq_true, decide_eq_true_eq] at hs
      obtain ⟨⟨⟨⟨⟨hind, h9⟩, hlines⟩, hch⟩, hex⟩, hroot⟩ := hs
      simp only [PNode.valueR]
      intro l hl
      exact bsLines_notMark _ (by cases ctx <;> simp at hind ⊢ <;> omega) _ (body_lines_ok ch s hlines hch) l hl
    case folded ch ind ex fo =>
      simp only [PNode.bl2] at h
      have hs := h
      simp only [strOk, Bool.not_false, Bool.true_and, Bool.and_eq_true, decide_eq_true_eq,
        bne_iff_ne, ne_eq] at hs
      obtain ⟨⟨⟨⟨⟨⟨⟨⟨⟨hind, h9⟩, hlines⟩, hch⟩, hex⟩, hroot⟩, hsp⟩, hhead⟩, hf⟩, _⟩ := hs
      simp only [PNode.valueR]
      intro l hl
      exact bsLines_notMark _ (by cases ctx <;> simp at hind ⊢ <;> omega) _
        (fun l hl => bodyOk_of_headOk l (folded_lines_ok fo ch s hch hlines hsp hhead hf l hl).1) l hl
    all_goals (rw [valueR_inline _ ctx h rfl e col m]; simp)
  | .anchored a n, ctx, h, e, col, m, ht => by
    simp only [PNode.bl2, Bool.and_eq_true] at h
    simp only [PNode.valueR]
    exact nm_value n ctx h.2 e (col + m.gap + 1 + a.length + 1) { m with gap := 0 } (trailOk2_inner m a n ht h.1.2)
  | .alias a t, ctx, h, e, col, m, ht => by rw [valueR_inline _ ctx h rfl e col m]; simp
theorem nm_items : (items : PItems) → items.bl2 = true → ∀ n, ∀ l ∈ items.linesR n, l.notMark
  | .nil, _, _ => by simp [PItems.linesR]
  | .cons m x r, h, n => by
    simp only [PItems.bl2, Bool.and_eq_true, List.isEmpty_iff, Option.isNone_iff_eq_none] at h
    obtain ⟨⟨⟨hf, ht⟩, hx⟩, hr⟩ := h
    obtain ⟨hs, _, _⟩ := canon_value x .seq hx n (n + 1) m ht
    intro l hm
    simp only [PItems.linesR, List.mem_cons, List.mem_append] at hm
    rcases hm with hm | rfl | hm | hm
    · exact fillLines_notMark n m.fill l hm
    · exact notMark_seqLine n _ hs
    · exact nm_value x .seq hx n (n + 1) m ht l hm
    · exact nm_items r hr n l hm
theorem nm_entries : (es : PEntries) → es.bl2 = true → ∀ n, ∀ l ∈ es.linesR n, l.notMark
  | .nil, _, _ => by simp [PEntries.linesR]
  | .cons m k ks x r, h, n => by
    simp only [PEntries.bl2, Bool.and_eq_true, List.isEmpty_iff, Option.isNone_iff_eq_none] at h
    obtain ⟨⟨⟨⟨hf, ht⟩, hk⟩, hx⟩, hr⟩ := h
    intro l hm
    simp only [PEntries.linesR, List.mem_cons, List.mem_append] at hm
    rcases hm with hm | rfl | hm | hm
    · exact fillLines_notMark n m.fill l hm
    · exact notMark_keyLine n k ks hk _
    · exact nm_value x .map hx n (n + (keyText k ks).length + 1) m ht l hm
    · exact nm_entries r hr n l hm
end

theorem takeDoc_notMark (ls : List Line) (h : ∀ l ∈ ls, l.notMark) : takeDoc ls = (ls, []) := by
  induction ls with
  | nil => rfl
  | cons l ls ih =>
    obtain ⟨h1, h2⟩ := h l (List.mem_cons_self ..)
    have := ih (fun x hx => h x (List.mem_cons_of_mem _ hx))
    simp [takeDoc, h1, h2, this]



end SV.YamlRef
