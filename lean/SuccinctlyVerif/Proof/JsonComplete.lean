/-
Proof/JsonComplete — completeness of the descent: every `JValueAt d` text within the depth
budget, followed by a delimiter, is accepted by `run … .value`, consuming exactly that text.
-/
import SuccinctlyVerif.Proof.JsonValue
namespace SV.Json.Model
open SV.Json
set_option linter.unusedSimpArgs false
set_option linter.unusedVariables false

/-- What may follow a value inside a text: end of input, whitespace, `,`, `]`, `}`. -/
def Follow (t : Bytes) : Prop :=
  ∀ c, t.head? = some c → isWs c = true ∨ c = 0x2C ∨ c = 0x5D ∨ c = 0x7D

/-- First byte of a value. -/
def ValueStart (c : Byte) : Prop :=
  c = 0x7B ∨ c = 0x5B ∨ c = 0x22 ∨ c = 0x2D ∨ isDigit c = true ∨ c = 0x74 ∨ c = 0x66 ∨ c = 0x6E

theorem follow_numFollow {t : Bytes} (h : Follow t) : NumFollow t := by
  intro c hc
  rcases h c hc with h | rfl | rfl | rfl
  · simp [isWs] at h
    rcases h with ((rfl | rfl) | rfl) | rfl <;> decide
  · decide
  · decide
  · decide

theorem follow_notLower {t : Bytes} (h : Follow t) : ∀ c, t.head? = some c → isLower c = false := by
  intro c hc
  rcases h c hc with h | rfl | rfl | rfl
  · simp [isWs] at h
    rcases h with ((rfl | rfl) | rfl) | rfl <;> decide
  · decide
  · decide
  · decide

theorem valueStart_facts {c : Byte} (h : ValueStart c) :
    isWs c = false ∧ c ≠ 0x5D ∧ c ≠ 0x7D ∧ c ≠ 0x2C := by
  rcases h with rfl | rfl | rfl | rfl | h | rfl | rfl | rfl
  any_goals decide
  refine ⟨?_, ?_, ?_, ?_⟩
  · cases hw : isWs c with
    | false => rfl
    | true =>
      simp [isWs] at hw
      rcases hw with ((rfl | rfl) | rfl) | rfl <;> simp [isDigit] at h
  all_goals (intro hc; subst hc; simp [isDigit] at h)

theorem scalar_start {v : Bytes} (h : Scalar v) : ∃ c r, v = c :: r ∧ ValueStart c := by
  rcases h with rfl | rfl | rfl | h | h
  · exact ⟨0x6E, _, rfl, by simp [ValueStart]⟩
  · exact ⟨0x74, _, rfl, by simp [ValueStart]⟩
  · exact ⟨0x66, _, rfl, by simp [ValueStart]⟩
  · obtain ⟨sg, ip, fp, ep, rfl, hsg, hip, _, _⟩ := h
    obtain ⟨d, ipr, rfl, hd⟩ := intPart_head hip
    rcases hsg with rfl | rfl
    · exact ⟨d, _, rfl, by simp [ValueStart, hd]⟩
    · exact ⟨0x2D, _, rfl, by simp [ValueStart]⟩
  · obtain ⟨body, _, rfl⟩ := h
    exact ⟨0x22, _, rfl, by simp [ValueStart]⟩

theorem value_start : ∀ {d : Nat} {v : Bytes}, JValueAt d v → ∃ c r, v = c :: r ∧ ValueStart c
  | 0, _, h => scalar_start h
  | _ + 1, _, h => by
    rcases h with h | ⟨w, _, rfl⟩ | ⟨b, _, rfl⟩ | ⟨w, _, rfl⟩ | ⟨b, _, rfl⟩
    · exact scalar_start h
    · exact ⟨0x5B, _, rfl, by simp [ValueStart]⟩
    · exact ⟨0x5B, _, rfl, by simp [ValueStart]⟩
    · exact ⟨0x7B, _, rfl, by simp [ValueStart]⟩
    · exact ⟨0x7B, _, rfl, by simp [ValueStart]⟩

/-! ### dispatch of `validate_value` -/

theorem run_value_string {max g : Nat} {s : St} (hp : s.peek = some 0x22) :
    run max (g + 1) .value s = validateString s := by
  unfold run
  simp [hp]

theorem run_value_number {max g : Nat} {s : St} {c : Byte} (hp : s.peek = some c)
    (hc : c = 0x2D ∨ isDigit c = true) : run max (g + 1) .value s = validateNumber s := by
  have n1 : c ≠ 0x7B := by rcases hc with rfl | h; decide; intro e; subst e; simp [isDigit] at h
  have n2 : c ≠ 0x5B := by rcases hc with rfl | h; decide; intro e; subst e; simp [isDigit] at h
  have n3 : c ≠ 0x22 := by rcases hc with rfl | h; decide; intro e; subst e; simp [isDigit] at h
  unfold run
  simp only [hp, if_neg n1, if_neg n2, if_neg n3, if_pos hc]

theorem run_value_keyword {max g : Nat} {s : St} {c : Byte} (hp : s.peek = some c)
    (hc : c = 0x74 ∨ c = 0x66 ∨ c = 0x6E) : run max (g + 1) .value s = validateKeyword s := by
  unfold run
  rcases hc with rfl | rfl | rfl <;> simp [hp, isDigit]

theorem run_value_array {max g : Nat} {s : St} (hp : s.peek = some 0x5B) (hd : s.depth < max) :
    run max (g + 1) .value s =
      (if ({ s with depth := s.depth + 1 } : St).advance.skipWs.peek = some 0x5D then
        .ok () { ({ s with depth := s.depth + 1 } : St).advance.skipWs.advance with depth := s.depth }
      else
        match run max g .arrayLoop ({ s with depth := s.depth + 1 } : St).advance.skipWs with
        | .ok _ s2 => .ok () { s2 with depth := s.depth }
        | e => e) := by
  have : ¬ s.depth ≥ max := by omega
  rw [run]
  simp [hp, this]
  rfl

theorem run_value_object {max g : Nat} {s : St} (hp : s.peek = some 0x7B) (hd : s.depth < max) :
    run max (g + 1) .value s =
      (if ({ s with depth := s.depth + 1 } : St).advance.skipWs.peek = some 0x7D then
        .ok () { ({ s with depth := s.depth + 1 } : St).advance.skipWs.advance with depth := s.depth }
      else
        match run max g .objectLoop ({ s with depth := s.depth + 1 } : St).advance.skipWs with
        | .ok _ s2 => .ok () { s2 with depth := s.depth }
        | e => e) := by
  have : ¬ s.depth ≥ max := by omega
  rw [run]
  simp [hp, this]
  rfl


/-! ### loops -/

theorem follow_ws_then {w t : Bytes} {c : Byte} (hw : Ws w) (hc : c = 0x2C ∨ c = 0x5D ∨ c = 0x7D) :
    Follow (w ++ c :: t) := by
  intro x hx
  cases w with
  | nil => simp at hx; subst hx; exact Or.inr hc
  | cons y w => simp at hx; subst hx; exact Or.inl (hw _ (by simp))

theorem head_notWs {c : Byte} {r : Bytes} (h : isWs c = false) :
    ∀ x, (c :: r).head? = some x → isWs x = false := by
  intro x hx; simp at hx; subst hx; exact h

/-- Completeness of `validate_value` for the texts in `P` at nesting depth `k`. -/
def ValueComplete (max : Nat) (P : Bytes → Prop) (k : Nat) : Prop :=
  ∀ v, P v → ∀ (f : Nat) (s : St) (t : Bytes), s.depth = k → Follow t → s.rest = v ++ t →
    2 * s.rest.length < f → ∃ s', run max f .value s = .ok () s' ∧ s'.rest = t ∧ s'.depth = k

theorem arrayLoop_complete {max k : Nat} {P : Bytes → Prop} (hP : ValueComplete max P k)
    (hS : ∀ v, P v → ∃ c r, v = c :: r ∧ ValueStart c) {body : Bytes} (hb : Elems P body) :
    ∀ (f : Nat) (s0 : St) (t : Bytes), s0.depth = k → s0.rest = body ++ 0x5D :: t →
      2 * s0.rest.length + 1 < f →
      s0.skipWs.peek ≠ some 0x5D ∧
      ∃ s', run max f .arrayLoop s0.skipWs = .ok () s' ∧ s'.rest = t ∧ s'.depth = k := by
  induction hb with
  | one w1 v w2 hw1 hv hw2 =>
    intro f s0 t hk h hf
    obtain ⟨c, r, rfl, hc⟩ := hS v hv
    obtain ⟨f1, f2, f3, f4⟩ := valueStart_facts hc
    have hs : s0.skipWs.rest = (c :: r) ++ (w2 ++ 0x5D :: t) :=
      skipWs_complete s0 w1 _ hw1 (head_notWs f1) (by simpa using h)
    have hpk : s0.skipWs.peek = some c := peek_cons (by simpa using hs)
    refine ⟨by rw [hpk]; intro e; injection e with e; exact f2 e, ?_⟩
    obtain ⟨g, rfl⟩ : ∃ g, f = g + 1 := ⟨f - 1, by omega⟩
    have hlen : 2 * s0.skipWs.rest.length < g := by
      have l1 := congrArg List.length h
      have l2 := congrArg List.length hs
      simp at l1 l2; omega
    obtain ⟨s1, e1, r1, d1⟩ := hP _ hv g s0.skipWs (w2 ++ 0x5D :: t) (by simpa using hk)
      (follow_ws_then hw2 (Or.inr (Or.inl rfl))) hs hlen
    have hr2 : s1.skipWs.rest = 0x5D :: t :=
      skipWs_complete s1 w2 _ hw2 (head_notWs (by decide)) r1
    have a2 := advance_cons hr2
    refine ⟨s1.skipWs.advance, ?_, a2.1, by rw [a2.2.2]; simpa using d1⟩
    rw [run]
    simp [e1, peek_cons hr2]
  | cons w1 v w2 r' hw1 hv hw2 hr ih =>
    intro f s0 t hk h hf
    obtain ⟨c, r, rfl, hc⟩ := hS v hv
    obtain ⟨f1, f2, f3, f4⟩ := valueStart_facts hc
    have hs : s0.skipWs.rest = (c :: r) ++ (w2 ++ 0x2C :: (r' ++ 0x5D :: t)) :=
      skipWs_complete s0 w1 _ hw1 (head_notWs f1) (by simpa using h)
    have hpk : s0.skipWs.peek = some c := peek_cons (by simpa using hs)
    refine ⟨by rw [hpk]; intro e; injection e with e; exact f2 e, ?_⟩
    obtain ⟨g, rfl⟩ : ∃ g, f = g + 1 := ⟨f - 1, by omega⟩
    have l1 := congrArg List.length h
    have l2 := congrArg List.length hs
    have hlen : 2 * s0.skipWs.rest.length < g := by
      simp at l1 l2; omega
    obtain ⟨s1, e1, r1, d1⟩ := hP _ hv g s0.skipWs (w2 ++ 0x2C :: (r' ++ 0x5D :: t))
      (by simpa using hk) (follow_ws_then hw2 (Or.inl rfl)) hs hlen
    have hr2 : s1.skipWs.rest = 0x2C :: (r' ++ 0x5D :: t) :=
      skipWs_complete s1 w2 _ hw2 (head_notWs (by decide)) r1
    have a2 := advance_cons hr2
    obtain ⟨ihp, s', e', r'', d'⟩ := ih g s1.skipWs.advance t (by rw [a2.2.2]; simpa using d1) a2.1
      (by rw [a2.1]; simp at l1 ⊢; omega)
    refine ⟨s', ?_, r'', d'⟩
    rw [run]
    simp [e1, peek_cons hr2]
    rw [if_neg (by simpa using ihp)]
    exact e'

theorem stringLit_head {k : Bytes} (h : StringLit k) : ∃ r, k = 0x22 :: r := by
  obtain ⟨body, _, rfl⟩ := h; exact ⟨_, rfl⟩

theorem objectLoop_complete {max k : Nat} {P : Bytes → Prop} (hP : ValueComplete max P k)
    (hS : ∀ v, P v → ∃ c r, v = c :: r ∧ ValueStart c) {body : Bytes} (hb : Members P body) :
    ∀ (f : Nat) (s0 : St) (t : Bytes), s0.depth = k → s0.rest = body ++ 0x7D :: t →
      2 * s0.rest.length + 1 < f →
      s0.skipWs.peek ≠ some 0x7D ∧
      ∃ s', run max f .objectLoop s0.skipWs = .ok () s' ∧ s'.rest = t ∧ s'.depth = k := by
  induction hb with
  | one w1 key w2 w3 v w4 hw1 hkey hw2 hw3 hv hw4 =>
    intro f s0 t hk h hf
    obtain ⟨c, r, rfl, hc⟩ := hS v hv
    obtain ⟨f1, f2, f3, f4⟩ := valueStart_facts hc
    obtain ⟨kr, rfl⟩ := stringLit_head hkey
    have hs : s0.skipWs.rest = (0x22 :: kr) ++ (w2 ++ 0x3A :: (w3 ++ ((c :: r) ++ (w4 ++ 0x7D :: t)))) :=
      skipWs_complete s0 w1 _ hw1 (head_notWs (by decide)) (by simpa using h)
    have hpk : s0.skipWs.peek = some 0x22 := peek_cons (by simpa using hs)
    refine ⟨by rw [hpk]; decide, ?_⟩
    obtain ⟨g, rfl⟩ : ∃ g, f = g + 1 := ⟨f - 1, by omega⟩
    obtain ⟨s1, e1, r1, d1⟩ := string_complete s0.skipWs _ _ hkey hs
    have hr2 : s1.skipWs.rest = 0x3A :: (w3 ++ ((c :: r) ++ (w4 ++ 0x7D :: t))) :=
      skipWs_complete s1 w2 _ hw2 (head_notWs (by decide)) r1
    have a2 := advance_cons hr2
    have hr3 : s1.skipWs.advance.skipWs.rest = (c :: r) ++ (w4 ++ 0x7D :: t) :=
      skipWs_complete _ w3 _ hw3 (head_notWs f1) a2.1
    have hdep3 : s1.skipWs.advance.skipWs.depth = k := by
      simp [a2.2.2, d1]; exact hk
    have hlen : 2 * s1.skipWs.advance.skipWs.rest.length < g := by
      have l1 := congrArg List.length h
      have l2 := congrArg List.length hr3
      simp at l1 l2; omega
    obtain ⟨s4, e4, r4, d4⟩ := hP _ hv g _ (w4 ++ 0x7D :: t) hdep3
      (follow_ws_then hw4 (Or.inr (Or.inr rfl))) hr3 hlen
    have hr5 : s4.skipWs.rest = 0x7D :: t :=
      skipWs_complete s4 w4 _ hw4 (head_notWs (by decide)) r4
    have a5 := advance_cons hr5
    refine ⟨s4.skipWs.advance, ?_, a5.1, by rw [a5.2.2]; simpa using d4⟩
    rw [run]
    simp [hpk, e1, peek_cons hr2, e4, peek_cons hr5]
  | cons w1 key w2 w3 v w4 r' hw1 hkey hw2 hw3 hv hw4 hr ih =>
    intro f s0 t hk h hf
    obtain ⟨c, r, rfl, hc⟩ := hS v hv
    obtain ⟨f1, f2, f3, f4⟩ := valueStart_facts hc
    obtain ⟨kr, rfl⟩ := stringLit_head hkey
    have hs : s0.skipWs.rest = (0x22 :: kr) ++ (w2 ++ 0x3A :: (w3 ++ ((c :: r) ++
        (w4 ++ 0x2C :: (r' ++ 0x7D :: t))))) :=
      skipWs_complete s0 w1 _ hw1 (head_notWs (by decide)) (by simpa using h)
    have hpk : s0.skipWs.peek = some 0x22 := peek_cons (by simpa using hs)
    refine ⟨by rw [hpk]; decide, ?_⟩
    obtain ⟨g, rfl⟩ : ∃ g, f = g + 1 := ⟨f - 1, by omega⟩
    obtain ⟨s1, e1, r1, d1⟩ := string_complete s0.skipWs _ _ hkey hs
    have hr2 : s1.skipWs.rest = 0x3A :: (w3 ++ ((c :: r) ++ (w4 ++ 0x2C :: (r' ++ 0x7D :: t)))) :=
      skipWs_complete s1 w2 _ hw2 (head_notWs (by decide)) r1
    have a2 := advance_cons hr2
    have hr3 : s1.skipWs.advance.skipWs.rest = (c :: r) ++ (w4 ++ 0x2C :: (r' ++ 0x7D :: t)) :=
      skipWs_complete _ w3 _ hw3 (head_notWs f1) a2.1
    have hdep3 : s1.skipWs.advance.skipWs.depth = k := by
      simp [a2.2.2, d1]; exact hk
    have l1 := congrArg List.length h
    have l2 := congrArg List.length hr3
    have hlen : 2 * s1.skipWs.advance.skipWs.rest.length < g := by
      simp at l1 l2; omega
    obtain ⟨s4, e4, r4, d4⟩ := hP _ hv g _ (w4 ++ 0x2C :: (r' ++ 0x7D :: t)) hdep3
      (follow_ws_then hw4 (Or.inl rfl)) hr3 hlen
    have hr5 : s4.skipWs.rest = 0x2C :: (r' ++ 0x7D :: t) :=
      skipWs_complete s4 w4 _ hw4 (head_notWs (by decide)) r4
    have a5 := advance_cons hr5
    obtain ⟨ihp, s', e', r'', d'⟩ := ih g s4.skipWs.advance t (by rw [a5.2.2]; simpa using d4) a5.1
      (by rw [a5.1]; simp at l1 ⊢; omega)
    refine ⟨s', ?_, r'', d'⟩
    rw [run]
    simp [hpk, e1, peek_cons hr2, e4, peek_cons hr5]
    rw [if_neg (by simpa using ihp)]
    exact e'


/-! ### values -/

theorem number_head {v : Bytes} (h : NumberLit v) :
    ∃ c r, v = c :: r ∧ (c = 0x2D ∨ isDigit c = true) := by
  obtain ⟨sg, ip, fp, ep, rfl, hsg, hip, _, _⟩ := h
  obtain ⟨d, ipr, rfl, hd⟩ := intPart_head hip
  rcases hsg with rfl | rfl
  · exact ⟨d, _, rfl, Or.inr hd⟩
  · exact ⟨0x2D, _, rfl, Or.inl rfl⟩

theorem scalar_complete (max : Nat) {v : Bytes} (hv : Scalar v) (f : Nat) (s : St) (t : Bytes)
    (ht : Follow t) (h : s.rest = v ++ t) (hf : 0 < f) :
    ∃ s', run max f .value s = .ok () s' ∧ s'.rest = t ∧ s'.depth = s.depth := by
  obtain ⟨g, rfl⟩ : ∃ g, f = g + 1 := ⟨f - 1, by omega⟩
  rcases hv with rfl | rfl | rfl | hv | hv
  · rw [run_value_keyword (c := 0x6E) (peek_cons (by simpa [kwNull] using h)) (by simp)]
    exact keyword_complete s _ t (Or.inl rfl) (follow_notLower ht) h
  · rw [run_value_keyword (c := 0x74) (peek_cons (by simpa [kwTrue] using h)) (by simp)]
    exact keyword_complete s _ t (Or.inr (Or.inl rfl)) (follow_notLower ht) h
  · rw [run_value_keyword (c := 0x66) (peek_cons (by simpa [kwFalse] using h)) (by simp)]
    exact keyword_complete s _ t (Or.inr (Or.inr rfl)) (follow_notLower ht) h
  · obtain ⟨c, r, hv', hc⟩ := number_head hv
    rw [run_value_number (c := c) (peek_cons (r := r ++ t) (by rw [h, hv']; simp)) hc]
    exact number_complete s v t hv (follow_numFollow ht) h
  · obtain ⟨r, hv'⟩ := stringLit_head hv
    rw [run_value_string (peek_cons (r := r ++ t) (by rw [h, hv']; simp))]
    exact string_complete s v t hv h

theorem value_complete (max : Nat) : ∀ (d k : Nat), k + d ≤ max → ValueComplete max (JValueAt d) k := by
  intro d
  induction d with
  | zero =>
    intro k _ v hv f s t hk ht h hf
    obtain ⟨s', e, r, dd⟩ := scalar_complete max hv f s t ht h (by omega)
    exact ⟨s', e, r, by rw [dd, hk]⟩
  | succ d ih =>
    intro k hkd v hv f s t hk ht h hf
    have hdep : s.depth < max := by omega
    rcases hv with hv | ⟨w, hw, rfl⟩ | ⟨body, hbody, rfl⟩ | ⟨w, hw, rfl⟩ | ⟨body, hbody, rfl⟩
    · obtain ⟨s', e, r, dd⟩ := scalar_complete max hv f s t ht h (by omega)
      exact ⟨s', e, r, by rw [dd, hk]⟩
    · -- empty array
      obtain ⟨g, rfl⟩ : ∃ g, f = g + 1 := ⟨f - 1, by omega⟩
      have hr : s.rest = 0x5B :: (w ++ 0x5D :: t) := by simpa using h
      have hr0 : ({ s with depth := s.depth + 1 } : St).rest = 0x5B :: (w ++ 0x5D :: t) := hr
      have a0 := advance_cons hr0
      have hr1 := skipWs_complete _ w (0x5D :: t) hw (head_notWs (by decide)) a0.1
      have a1 := advance_cons hr1
      rw [run_value_array (peek_cons hr) hdep, if_pos (peek_cons hr1)]
      exact ⟨_, rfl, a1.1, hk⟩
    · -- non-empty array
      obtain ⟨g, rfl⟩ : ∃ g, f = g + 1 := ⟨f - 1, by omega⟩
      have hr : s.rest = 0x5B :: (body ++ 0x5D :: t) := by simpa using h
      have hr0 : ({ s with depth := s.depth + 1 } : St).rest = 0x5B :: (body ++ 0x5D :: t) := hr
      have a0 := advance_cons hr0
      obtain ⟨hpk, s2, e2, r2, d2⟩ := arrayLoop_complete (ih (k + 1) (by omega))
        (fun v hv => value_start hv) hbody g _ t (by rw [a0.2.2]; simp [hk]) a0.1
        (by rw [a0.1]; rw [hr] at hf; simp at hf ⊢; omega)
      rw [run_value_array (peek_cons hr) hdep, if_neg hpk, e2]
      exact ⟨_, rfl, r2, hk⟩
    · -- empty object
      obtain ⟨g, rfl⟩ : ∃ g, f = g + 1 := ⟨f - 1, by omega⟩
      have hr : s.rest = 0x7B :: (w ++ 0x7D :: t) := by simpa using h
      have hr0 : ({ s with depth := s.depth + 1 } : St).rest = 0x7B :: (w ++ 0x7D :: t) := hr
      have a0 := advance_cons hr0
      have hr1 := skipWs_complete _ w (0x7D :: t) hw (head_notWs (by decide)) a0.1
      have a1 := advance_cons hr1
      rw [run_value_object (peek_cons hr) hdep, if_pos (peek_cons hr1)]
      exact ⟨_, rfl, a1.1, hk⟩
    · -- non-empty object
      obtain ⟨g, rfl⟩ : ∃ g, f = g + 1 := ⟨f - 1, by omega⟩
      have hr : s.rest = 0x7B :: (body ++ 0x7D :: t) := by simpa using h
      have hr0 : ({ s with depth := s.depth + 1 } : St).rest = 0x7B :: (body ++ 0x7D :: t) := hr
      have a0 := advance_cons hr0
      obtain ⟨hpk, s2, e2, r2, d2⟩ := objectLoop_complete (ih (k + 1) (by omega))
        (fun v hv => value_start hv) hbody g _ t (by rw [a0.2.2]; simp [hk]) a0.1
        (by rw [a0.1]; rw [hr] at hf; simp at hf ⊢; omega)
      rw [run_value_object (peek_cons hr) hdep, if_neg hpk, e2]
      exact ⟨_, rfl, r2, hk⟩

/-! ### whole texts -/

theorem validate_complete (max : Nat) (b : Bytes) (h : Valid max b) :
    ∃ s, validate max b = .ok () s := by
  obtain ⟨w1, v, w2, hw1, hv, hw2, rfl⟩ := h
  obtain ⟨c, r, rfl, hc⟩ := value_start hv
  obtain ⟨f1, _, _, _⟩ := valueStart_facts hc
  have h0 : (St.init (w1 ++ (c :: r ++ w2))).rest = w1 ++ ((c :: r) ++ w2) := rfl
  have hs := skipWs_complete _ w1 _ hw1 (head_notWs f1) h0
  have hlen : 2 * (St.init (w1 ++ (c :: r ++ w2))).skipWs.rest.length
      < 2 * (w1 ++ (c :: r ++ w2)).length + 2 := by
    rw [hs]; simp; omega
  have hw2f : Follow w2 := by
    intro x hx
    cases w2 with
    | nil => simp at hx
    | cons y w => simp at hx; subst hx; exact Or.inl (hw2 _ (by simp))
  obtain ⟨s1, e1, r1, d1⟩ := value_complete max max 0 (by omega) _ hv _ _ w2 (by simp [St.skipWs, St.init])
    hw2f hs hlen
  have hr2 : s1.skipWs.rest = [] := by
    have := skipWs_complete s1 w2 [] hw2 (by simp) (by simpa using r1)
    exact this
  unfold validate
  have ne : (St.init (w1 ++ (c :: r ++ w2))).skipWs.isEof = false := by
    rw [St.isEof, hs]; rfl
  simp only [ne, e1]
  simp [St.isEof, hr2]

theorem validate_sound (max : Nat) (b : Bytes) (s : St) (u : Unit) (h : validate max b = .ok u s) :
    Valid max b := by
  unfold validate at h
  simp only at h
  split at h
  · cases h
  · split at h
    · rename_i u1 s1 h1
      split at h
      · cases h
      · rename_i heof
        obtain ⟨w1, hw1, a1, _⟩ := adv_skipWs (St.init b)
        obtain ⟨v, hv, a2⟩ := run_sound max _ _ _ _ _ h1
        obtain ⟨w2, hw2, a3, _⟩ := adv_skipWs s1
        have hd : (St.init b).skipWs.depth = 0 := by simp [St.init]
        rw [hd] at hv
        have hnil : s1.skipWs.rest = [] := by
          simpa [St.isEof] using heof
        have A := a1.trans (a2.trans a3)
        refine ⟨w1, v, w2, hw1, hv, hw2, ?_⟩
        have := A.1
        rw [hnil] at this
        simpa [St.init] using this
    · rename_i hne
      exact absurd h (by intro hh; exact hne _ _ hh)

end SV.Json.Model
