/-
Proof/JqCursor — the streaming printer over the cursor model equals the structural printer (C27).
-/
import SuccinctlyVerif.Model.JqOutput
namespace SV.JqOut

mutual
  theorem streamAt_eq (c : Cfg) : ∀ (v : V) (f lvl : Nat) (key : Option Str) (rest : List (Option Str × V)),
      v.steps ≤ f → streamAt c f lvl ⟨v, key, rest⟩ = render c lvl v
    | .null, f, lvl, key, rest, h => by
      cases f with
      | zero => simp [V.steps] at h
      | succ f => simp [streamAt, Cur.value]
    | .bool b, f, lvl, key, rest, h => by
      cases f with
      | zero => simp [V.steps] at h
      | succ f => simp [streamAt, Cur.value]
    | .num l, f, lvl, key, rest, h => by
      cases f with
      | zero => simp [V.steps] at h
      | succ f => simp [streamAt, Cur.value]
    | .str s, f, lvl, key, rest, h => by
      cases f with
      | zero => simp [V.steps] at h
      | succ f => simp [streamAt, Cur.value]
    | .arr [], f, lvl, key, rest, h => by
      cases f with
      | zero => simp [V.steps] at h
      | succ f => simp [streamAt, Cur.value, Cur.firstChild, render]
    | .arr (x :: xs), f, lvl, key, rest, h => by
      cases f with
      | zero => simp [V.steps] at h
      | succ f =>
        have hx : x.steps ≤ f := by simp [V.steps, stepsList] at h; omega
        have hxs : stepsList xs ≤ f := by simp [V.steps, stepsList] at h; omega
        simp [streamAt, Cur.value, Cur.firstChild, render,
          streamAt_eq c x f (lvl + 1) none (elemsOf xs) hx,
          sibsElems c xs f (lvl + 1) x none hxs]
    | .obj [], f, lvl, key, rest, h => by
      cases f with
      | zero => simp [V.steps] at h
      | succ f => simp [streamAt, Cur.value, Cur.firstChild, render]
    | .obj ((k, x) :: fs), f, lvl, key, rest, h => by
      cases f with
      | zero => simp [V.steps] at h
      | succ f =>
        have hx : x.steps ≤ f := by simp [V.steps, stepsFields] at h; omega
        have hfs : stepsFields fs ≤ f := by simp [V.steps, stepsFields] at h; omega
        simp [streamAt, Cur.value, Cur.firstChild, render, keyBytes,
          streamAt_eq c x f (lvl + 1) (some k) (membersOf fs) hx,
          sibsMembers c fs f (lvl + 1) x (some k) hfs]
  theorem sibsElems (c : Cfg) : ∀ (xs : List V) (f lvl : Nat) (x0 : V) (key0 : Option Str),
      stepsList xs ≤ f → streamSibs c f lvl ⟨x0, key0, elemsOf xs⟩ = renderRest c lvl xs
    | [], f, lvl, x0, key0, h => by
      cases f with
      | zero => simp [stepsList] at h
      | succ f => simp [streamSibs, Cur.nextSibling, elemsOf, renderRest]
    | x :: xs, f, lvl, x0, key0, h => by
      cases f with
      | zero => simp [stepsList] at h
      | succ f =>
        have hx : x.steps ≤ f := by simp [stepsList] at h; omega
        have hxs : stepsList xs ≤ f := by simp [stepsList] at h; omega
        simp [streamSibs, Cur.nextSibling, elemsOf, renderRest, keyBytes,
          streamAt_eq c x f lvl none (elemsOf xs) hx, sibsElems c xs f lvl x none hxs]
  theorem sibsMembers (c : Cfg) : ∀ (fs : List (Str × V)) (f lvl : Nat) (x0 : V) (key0 : Option Str),
      stepsFields fs ≤ f → streamSibs c f lvl ⟨x0, key0, membersOf fs⟩ = renderFields c lvl fs
    | [], f, lvl, x0, key0, h => by
      cases f with
      | zero => simp [stepsFields] at h
      | succ f => simp [streamSibs, Cur.nextSibling, membersOf, renderFields]
    | (k, x) :: fs, f, lvl, x0, key0, h => by
      cases f with
      | zero => simp [stepsFields] at h
      | succ f =>
        have hx : x.steps ≤ f := by simp [stepsFields] at h; omega
        have hfs : stepsFields fs ≤ f := by simp [stepsFields] at h; omega
        simp [streamSibs, Cur.nextSibling, membersOf, renderFields, keyBytes,
          streamAt_eq c x f lvl (some k) (membersOf fs) hx, sibsMembers c fs f lvl x (some k) hfs]
end

end SV.JqOut
