/-
Proof/Utf8RoundTrip — `encode_code_point` / `decode_code_point` round trips for every scalar value.
-/
import Std.Tactic.BVDecide
import SuccinctlyVerif.Model.Utf8
import SuccinctlyVerif.Proof.Utf8
set_option linter.unusedSimpArgs false
namespace SV.Utf8
open SV

/-! ### `decode_code_point` by shape -/

theorem dec1 (lead : Byte) (r : List Byte) (h : lead ≤ 0x7F#8) :
    decodeCodePoint (lead :: r) = some (lead.setWidth 32, 1) := by
  simp [decodeCodePoint, sequenceLength, h, cpBoundsViolation]

theorem dec2 (lead b1 : Byte) (r : List Byte) (h0 : ¬ lead ≤ 0x7F#8) (hl : inR 0xC0#8 0xDF#8 lead = true)
    (c1 : isContinuationByte b1 = true) (hb : ¬ cp2 lead b1 < 0x80#32) :
    decodeCodePoint (lead :: b1 :: r) = some (cp2 lead b1, 2) := by
  simp [decodeCodePoint, sequenceLength, h0, hl, c1, cpBoundsViolation, hb]

theorem dec3 (lead b1 b2 : Byte) (r : List Byte) (h0 : ¬ lead ≤ 0x7F#8) (h1 : ¬ inR 0xC0#8 0xDF#8 lead = true)
    (hl : inR 0xE0#8 0xEF#8 lead = true)
    (c1 : isContinuationByte b1 = true) (c2 : isContinuationByte b2 = true)
    (hb : ¬ cp3 lead b1 b2 < 0x800#32) (hs : ¬ (0xD800#32 ≤ cp3 lead b1 b2 ∧ cp3 lead b1 b2 ≤ 0xDFFF#32)) :
    decodeCodePoint (lead :: b1 :: b2 :: r) = some (cp3 lead b1 b2, 3) := by
  simp [decodeCodePoint, sequenceLength, h0, h1, hl, c1, c2, cpBoundsViolation, hb, hs]

theorem dec4 (lead b1 b2 b3 : Byte) (r : List Byte) (h0 : ¬ lead ≤ 0x7F#8) (h1 : ¬ inR 0xC0#8 0xDF#8 lead = true)
    (h2 : ¬ inR 0xE0#8 0xEF#8 lead = true) (hl : inR 0xF0#8 0xF7#8 lead = true)
    (c1 : isContinuationByte b1 = true) (c2 : isContinuationByte b2 = true) (c3 : isContinuationByte b3 = true)
    (hb : ¬ cp4 lead b1 b2 b3 < 0x10000#32) (ho : ¬ cp4 lead b1 b2 b3 > 0x10FFFF#32) :
    decodeCodePoint (lead :: b1 :: b2 :: b3 :: r) = some (cp4 lead b1 b2 b3, 4) := by
  simp [decodeCodePoint, sequenceLength, h0, h1, h2, hl, c1, c2, c3, cpBoundsViolation, hb, ho]

macro "cp_decide" : tactic =>
  `(tactic| (simp only [Byte, inR, isContinuationByte, cp2, cp3, cp4] at *
             bv_decide (timeout := 300)))

/-- `decode_code_point(encode_code_point(cp)) = (cp, len)` for every scalar value; the decoder
ignores the zero padding of the four-byte buffer; non-scalar values are rejected by the encoder. -/
theorem decode_encode_all (cp : BitVec 32) :
    (encodeCodePoint cp = none ↔ ((0xD800#32 ≤ cp ∧ cp ≤ 0xDFFF#32) ∨ cp > 0x10FFFF#32)) ∧
    ∀ buf len, encodeCodePoint cp = some (buf, len) →
      decodeCodePoint (buf.take len) = some (cp, len) ∧ decodeCodePoint buf = some (cp, len) := by
  unfold encodeCodePoint
  by_cases hns : (0xD800#32 ≤ cp ∧ cp ≤ 0xDFFF#32) ∨ cp > 0x10FFFF#32
  · simp [hns]
  · simp only [hns, if_false, iff_false]
    have hs1 : ¬ (0xD800#32 ≤ cp ∧ cp ≤ 0xDFFF#32) := fun h => hns (Or.inl h)
    have hs2 : ¬ cp > 0x10FFFF#32 := fun h => hns (Or.inr h)
    by_cases h1 : cp < 0x80#32
    · simp only [h1, if_true]
      refine ⟨by simp, ?_⟩
      intro buf len h; simp only [Option.some.injEq, Prod.mk.injEq] at h
      obtain ⟨rfl, rfl⟩ := h
      have hl : cp.setWidth 8 ≤ 0x7F#8 := by bv_decide (timeout := 300)
      have hc : (cp.setWidth 8).setWidth 32 = cp := by bv_decide (timeout := 300)
      simp only [List.take_succ_cons, List.take_zero]
      rw [dec1 _ _ hl, dec1 _ _ hl, hc]; exact ⟨rfl, rfl⟩
    · simp only [h1, if_false]
      by_cases h2 : cp < 0x800#32
      · simp only [h2, if_true]
        refine ⟨by simp, ?_⟩
        intro buf len h; simp only [Option.some.injEq, Prod.mk.injEq] at h
        obtain ⟨rfl, rfl⟩ := h
        simp only [List.take_succ_cons, List.take_zero]
        rw [dec2 _ _ _ (by cp_decide) (by cp_decide) (by cp_decide) (by cp_decide),
          dec2 _ _ _ (by cp_decide) (by cp_decide) (by cp_decide) (by cp_decide)]
        have hc : cp2 (0xC0#8 ||| (cp >>> 6).setWidth 8) (0x80#8 ||| (cp &&& 0x3F#32).setWidth 8) = cp := by
          cp_decide
        rw [hc]; exact ⟨rfl, rfl⟩
      · simp only [h2, if_false]
        by_cases h3 : cp < 0x10000#32
        · simp only [h3, if_true]
          refine ⟨by simp, ?_⟩
          intro buf len h; simp only [Option.some.injEq, Prod.mk.injEq] at h
          obtain ⟨rfl, rfl⟩ := h
          simp only [List.take_succ_cons, List.take_zero]
          rw [dec3 _ _ _ _ (by cp_decide) (by cp_decide) (by cp_decide) (by cp_decide) (by cp_decide)
              (by cp_decide) (by cp_decide),
            dec3 _ _ _ _ (by cp_decide) (by cp_decide) (by cp_decide) (by cp_decide) (by cp_decide)
              (by cp_decide) (by cp_decide)]
          have hc : cp3 (0xE0#8 ||| (cp >>> 12).setWidth 8) (0x80#8 ||| ((cp >>> 6) &&& 0x3F#32).setWidth 8)
              (0x80#8 ||| (cp &&& 0x3F#32).setWidth 8) = cp := by cp_decide
          rw [hc]; exact ⟨rfl, rfl⟩
        · simp only [h3, if_false]
          refine ⟨by simp, ?_⟩
          intro buf len h; simp only [Option.some.injEq, Prod.mk.injEq] at h
          obtain ⟨rfl, rfl⟩ := h
          simp only [List.take_succ_cons, List.take_zero]
          rw [dec4 _ _ _ _ _ (by cp_decide) (by cp_decide) (by cp_decide) (by cp_decide) (by cp_decide)
              (by cp_decide) (by cp_decide) (by cp_decide) (by cp_decide)]
          have hc : cp4 (0xF0#8 ||| (cp >>> 18).setWidth 8) (0x80#8 ||| ((cp >>> 12) &&& 0x3F#32).setWidth 8)
              (0x80#8 ||| ((cp >>> 6) &&& 0x3F#32).setWidth 8) (0x80#8 ||| (cp &&& 0x3F#32).setWidth 8) = cp := by
            cp_decide
          rw [hc]; exact ⟨rfl, rfl⟩


theorem enc_of_class1 (cp : BitVec 32) (h : cp < 0x80#32) :
    encodeCodePoint cp = some ([cp.setWidth 8, 0, 0, 0], 1) := by
  have hns : ¬ ((0xD800#32 ≤ cp ∧ cp ≤ 0xDFFF#32) ∨ cp > 0x10FFFF#32) := by bv_decide (timeout := 300)
  simp [encodeCodePoint, hns, h]

theorem enc_of_class2 (cp : BitVec 32) (h1 : ¬ cp < 0x80#32) (h2 : cp < 0x800#32) :
    encodeCodePoint cp =
      some ([0xC0#8 ||| (cp >>> 6).setWidth 8, 0x80#8 ||| (cp &&& 0x3F#32).setWidth 8, 0, 0], 2) := by
  have hns : ¬ ((0xD800#32 ≤ cp ∧ cp ≤ 0xDFFF#32) ∨ cp > 0x10FFFF#32) := by bv_decide (timeout := 300)
  simp [encodeCodePoint, hns, h1, h2]

theorem enc_of_class3 (cp : BitVec 32) (h2 : ¬ cp < 0x800#32) (h3 : cp < 0x10000#32)
    (hs : ¬ (0xD800#32 ≤ cp ∧ cp ≤ 0xDFFF#32)) :
    encodeCodePoint cp =
      some ([0xE0#8 ||| (cp >>> 12).setWidth 8, 0x80#8 ||| ((cp >>> 6) &&& 0x3F#32).setWidth 8,
             0x80#8 ||| (cp &&& 0x3F#32).setWidth 8, 0], 3) := by
  have hns : ¬ ((0xD800#32 ≤ cp ∧ cp ≤ 0xDFFF#32) ∨ cp > 0x10FFFF#32) := by
    intro h; rcases h with h | h
    · exact hs h
    · bv_decide (timeout := 300)
  have h1 : ¬ cp < 0x80#32 := by bv_decide (timeout := 300)
  simp [encodeCodePoint, hns, h1, h2, h3]

theorem enc_of_class4 (cp : BitVec 32) (h3 : ¬ cp < 0x10000#32) (ho : ¬ cp > 0x10FFFF#32) :
    encodeCodePoint cp =
      some ([0xF0#8 ||| (cp >>> 18).setWidth 8, 0x80#8 ||| ((cp >>> 12) &&& 0x3F#32).setWidth 8,
             0x80#8 ||| ((cp >>> 6) &&& 0x3F#32).setWidth 8, 0x80#8 ||| (cp &&& 0x3F#32).setWidth 8], 4) := by
  have hns : ¬ ((0xD800#32 ≤ cp ∧ cp ≤ 0xDFFF#32) ∨ cp > 0x10FFFF#32) := by
    intro h; rcases h with h | h
    · bv_decide (timeout := 300)
    · exact ho h
  have h1 : ¬ cp < 0x80#32 := by bv_decide (timeout := 300)
  have h2 : ¬ cp < 0x800#32 := by bv_decide (timeout := 300)
  simp [encodeCodePoint, hns, h1, h2, h3]

/-- `encode_code_point(decode_code_point(bytes).cp)` reproduces the decoded bytes: whenever
`decode_code_point` succeeds with `(cp, n)`, encoding `cp` gives `n` bytes equal to the first `n`
input bytes (so decoding is injective on sequences and only shortest forms decode). -/
theorem encode_decode_all (bs : List Byte) (cp : BitVec 32) (n : Nat)
    (h : decodeCodePoint bs = some (cp, n)) :
    ∃ buf, encodeCodePoint cp = some (buf, n) ∧ buf.take n = bs.take n := by
  match bs with
  | [] => simp [decodeCodePoint] at h
  | lead :: r =>
    by_cases h0 : lead ≤ 0x7F#8
    · rw [dec1 _ _ h0] at h
      simp only [Option.some.injEq, Prod.mk.injEq] at h
      obtain ⟨rfl, rfl⟩ := h
      rw [enc_of_class1 _ (by bv_decide (timeout := 300))]
      refine ⟨_, rfl, ?_⟩
      have : (lead.setWidth 32).setWidth 8 = lead := by bv_decide (timeout := 300)
      simp [this]
    · by_cases hA : inR 0xC0#8 0xDF#8 lead = true
      · match r with
        | [] => simp [decodeCodePoint, sequenceLength, h0, hA] at h
        | b1 :: r1 =>
          by_cases c1 : isContinuationByte b1 = true
          · by_cases hb : cp2 lead b1 < 0x80#32
            · simp [decodeCodePoint, sequenceLength, h0, hA, c1, cpBoundsViolation, hb] at h
            · rw [dec2 _ _ _ h0 hA c1 hb] at h
              simp only [Option.some.injEq, Prod.mk.injEq] at h
              obtain ⟨rfl, rfl⟩ := h
              rw [enc_of_class2 _ hb (by cp_decide)]
              refine ⟨_, rfl, ?_⟩
              have e0 : 0xC0#8 ||| (cp2 lead b1 >>> 6).setWidth 8 = lead := by cp_decide
              have e1 : 0x80#8 ||| (cp2 lead b1 &&& 0x3F#32).setWidth 8 = b1 := by cp_decide
              simp only [List.take_succ_cons, List.take_zero, e0, e1]
          · simp [decodeCodePoint, sequenceLength, h0, hA, c1] at h
      · by_cases hB : inR 0xE0#8 0xEF#8 lead = true
        · match r with
          | [] => simp [decodeCodePoint, sequenceLength, h0, hA, hB] at h
          | [b1] => simp [decodeCodePoint, sequenceLength, h0, hA, hB] at h
          | b1 :: b2 :: r2 =>
            by_cases c1 : isContinuationByte b1 = true
            · by_cases c2 : isContinuationByte b2 = true
              · by_cases hb : cp3 lead b1 b2 < 0x800#32
                · simp [decodeCodePoint, sequenceLength, h0, hA, hB, c1, c2, cpBoundsViolation, hb] at h
                · by_cases hs : 0xD800#32 ≤ cp3 lead b1 b2 ∧ cp3 lead b1 b2 ≤ 0xDFFF#32
                  · simp [decodeCodePoint, sequenceLength, h0, hA, hB, c1, c2, cpBoundsViolation, hb, hs] at h
                  · rw [dec3 _ _ _ _ h0 hA hB c1 c2 hb hs] at h
                    simp only [Option.some.injEq, Prod.mk.injEq] at h
                    obtain ⟨rfl, rfl⟩ := h
                    rw [enc_of_class3 _ hb (by cp_decide) hs]
                    refine ⟨_, rfl, ?_⟩
                    have e0 : 0xE0#8 ||| (cp3 lead b1 b2 >>> 12).setWidth 8 = lead := by cp_decide
                    have e1 : 0x80#8 ||| ((cp3 lead b1 b2 >>> 6) &&& 0x3F#32).setWidth 8 = b1 := by cp_decide
                    have e2 : 0x80#8 ||| (cp3 lead b1 b2 &&& 0x3F#32).setWidth 8 = b2 := by cp_decide
                    simp only [List.take_succ_cons, List.take_zero, e0, e1, e2]
              · simp [decodeCodePoint, sequenceLength, h0, hA, hB, c1, c2] at h
            · simp [decodeCodePoint, sequenceLength, h0, hA, hB, c1] at h
        · by_cases hC : inR 0xF0#8 0xF7#8 lead = true
          · match r with
            | [] => simp [decodeCodePoint, sequenceLength, h0, hA, hB, hC] at h
            | [b1] => simp [decodeCodePoint, sequenceLength, h0, hA, hB, hC] at h
            | [b1, b2] => simp [decodeCodePoint, sequenceLength, h0, hA, hB, hC] at h
            | b1 :: b2 :: b3 :: r3 =>
              by_cases c1 : isContinuationByte b1 = true
              · by_cases c2 : isContinuationByte b2 = true
                · by_cases c3 : isContinuationByte b3 = true
                  · by_cases hb : cp4 lead b1 b2 b3 < 0x10000#32
                    · simp [decodeCodePoint, sequenceLength, h0, hA, hB, hC, c1, c2, c3, cpBoundsViolation, hb] at h
                    · by_cases ho : cp4 lead b1 b2 b3 > 0x10FFFF#32
                      · simp [decodeCodePoint, sequenceLength, h0, hA, hB, hC, c1, c2, c3, cpBoundsViolation, hb, ho] at h
                      · rw [dec4 _ _ _ _ _ h0 hA hB hC c1 c2 c3 hb ho] at h
                        simp only [Option.some.injEq, Prod.mk.injEq] at h
                        obtain ⟨rfl, rfl⟩ := h
                        rw [enc_of_class4 _ hb ho]
                        refine ⟨_, rfl, ?_⟩
                        have e0 : 0xF0#8 ||| (cp4 lead b1 b2 b3 >>> 18).setWidth 8 = lead := by cp_decide
                        have e1 : 0x80#8 ||| ((cp4 lead b1 b2 b3 >>> 12) &&& 0x3F#32).setWidth 8 = b1 := by cp_decide
                        have e2 : 0x80#8 ||| ((cp4 lead b1 b2 b3 >>> 6) &&& 0x3F#32).setWidth 8 = b2 := by cp_decide
                        have e3 : 0x80#8 ||| (cp4 lead b1 b2 b3 &&& 0x3F#32).setWidth 8 = b3 := by cp_decide
                        simp only [List.take_succ_cons, List.take_zero, e0, e1, e2, e3]
                  · simp [decodeCodePoint, sequenceLength, h0, hA, hB, hC, c1, c2, c3] at h
                · simp [decodeCodePoint, sequenceLength, h0, hA, hB, hC, c1, c2] at h
              · simp [decodeCodePoint, sequenceLength, h0, hA, hB, hC, c1] at h
          · simp [decodeCodePoint, sequenceLength, h0, hA, hB, hC] at h

end SV.Utf8
