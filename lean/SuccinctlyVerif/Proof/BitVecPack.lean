/-
Proof/BitVecPack — the u128 rank-directory entry: what `RankDirectory::build` packs is what
`rank_at_word` unpacks (C01).  `bv_decide` over `BitVec 128` with the fields as variables.
-/
import Std.Tactic.BVDecide
import SuccinctlyVerif.Model.BitVec
namespace SV.BV
open SV

/-! ### u128 entry packing -/

theorem unpack_bv (l1 : BitVec 32) (o0 o1 o2 o3 o4 o5 o6 : BitVec 9) :
    let e : BitVec 128 := l1.setWidth 128 ||| (o0.setWidth 128 <<< 32) ||| (o1.setWidth 128 <<< 41) |||
      (o2.setWidth 128 <<< 50) ||| (o3.setWidth 128 <<< 59) ||| (o4.setWidth 128 <<< 68) |||
      (o5.setWidth 128 <<< 77) ||| (o6.setWidth 128 <<< 86)
    e &&& 0xFFFFFFFF#128 = l1.setWidth 128 ∧
    (e >>> 32) &&& 0x1FF#128 = o0.setWidth 128 ∧ (e >>> 41) &&& 0x1FF#128 = o1.setWidth 128 ∧
    (e >>> 50) &&& 0x1FF#128 = o2.setWidth 128 ∧ (e >>> 59) &&& 0x1FF#128 = o3.setWidth 128 ∧
    (e >>> 68) &&& 0x1FF#128 = o4.setWidth 128 ∧ (e >>> 77) &&& 0x1FF#128 = o5.setWidth 128 ∧
    (e >>> 86) &&& 0x1FF#128 = o6.setWidth 128 := by
  intro e
  refine ⟨?_, ?_, ?_, ?_, ?_, ?_, ?_, ?_⟩ <;> (simp only [e]; bv_decide)

theorem ofNat128_eq_setWidth (w a : Nat) (hw : w ≤ 128) (h : a < 2 ^ w) :
    BitVec.ofNat 128 a = (BitVec.ofNat w a).setWidth 128 := by
  apply BitVec.eq_of_toNat_eq
  have : 2 ^ w ≤ 2 ^ 128 := Nat.pow_le_pow_right (by omega) hw
  simp [Nat.mod_eq_of_lt h, Nat.mod_eq_of_lt (show a < 2 ^ 128 by omega)]

theorem setWidth_toNat (w a : Nat) (hw : w ≤ 128) (h : a < 2 ^ w) :
    ((BitVec.ofNat w a).setWidth 128).toNat = a := by
  have : 2 ^ w ≤ 2 ^ 128 := Nat.pow_le_pow_right (by omega) hw
  simp [Nat.mod_eq_of_lt h, Nat.mod_eq_of_lt (show a < 2 ^ 128 by omega)]

theorem list7 (l : List Nat) (h : l.length = 7) :
    l = [l.getD 0 0, l.getD 1 0, l.getD 2 0, l.getD 3 0, l.getD 4 0, l.getD 5 0, l.getD 6 0] := by
  match l, h with
  | [a, b, c, d, e, f, g], _ => rfl

/-- Unpacking what `build` packed: the low 32 bits give back L1 and the 9-bit field at bit
`32 + 9t` gives back L2 offset `t`, provided L1 fits 32 bits and every offset fits 9 bits. -/
theorem packEntry_unpack (l1 : Nat) (l2 : List Nat) (h1 : l1 < 2 ^ 32) (hl : l2.length = 7)
    (h2 : ∀ t, t < 7 → l2.getD t 0 < 2 ^ 9) :
    (packEntry l1 l2 &&& 0xFFFFFFFF#128).toNat = l1 ∧
    ∀ t, t < 7 → ((packEntry l1 l2 >>> (32 + t * 9)) &&& 0x1FF#128).toNat = l2.getD t 0 := by
  rw [list7 l2 hl]
  have e0 := h2 0 (by omega); have e1 := h2 1 (by omega); have e2 := h2 2 (by omega)
  have e3 := h2 3 (by omega); have e4 := h2 4 (by omega); have e5 := h2 5 (by omega)
  have e6 := h2 6 (by omega)
  generalize l2.getD 0 0 = a0 at *; generalize l2.getD 1 0 = a1 at *
  generalize l2.getD 2 0 = a2 at *; generalize l2.getD 3 0 = a3 at *
  generalize l2.getD 4 0 = a4 at *; generalize l2.getD 5 0 = a5 at *
  generalize l2.getD 6 0 = a6 at *
  simp only [packEntry, packLoop, Nat.zero_mul, Nat.add_zero, Nat.zero_add, Nat.one_mul]
  rw [ofNat128_eq_setWidth 32 l1 (by omega) h1, ofNat128_eq_setWidth 9 a0 (by omega) e0,
    ofNat128_eq_setWidth 9 a1 (by omega) e1, ofNat128_eq_setWidth 9 a2 (by omega) e2,
    ofNat128_eq_setWidth 9 a3 (by omega) e3, ofNat128_eq_setWidth 9 a4 (by omega) e4,
    ofNat128_eq_setWidth 9 a5 (by omega) e5, ofNat128_eq_setWidth 9 a6 (by omega) e6]
  have U := unpack_bv (BitVec.ofNat 32 l1) (BitVec.ofNat 9 a0) (BitVec.ofNat 9 a1) (BitVec.ofNat 9 a2)
    (BitVec.ofNat 9 a3) (BitVec.ofNat 9 a4) (BitVec.ofNat 9 a5) (BitVec.ofNat 9 a6)
  simp only at U
  obtain ⟨u, u0, u1, u2, u3, u4, u5, u6⟩ := U
  refine ⟨by rw [u, setWidth_toNat 32 l1 (by omega) h1], ?_⟩
  intro t ht
  have : t = 0 ∨ t = 1 ∨ t = 2 ∨ t = 3 ∨ t = 4 ∨ t = 5 ∨ t = 6 := by omega
  rcases this with rfl | rfl | rfl | rfl | rfl | rfl | rfl
  · simpa [setWidth_toNat 9 a0 (by omega) e0] using congrArg BitVec.toNat u0
  · simpa [setWidth_toNat 9 a1 (by omega) e1] using congrArg BitVec.toNat u1
  · simpa [setWidth_toNat 9 a2 (by omega) e2] using congrArg BitVec.toNat u2
  · simpa [setWidth_toNat 9 a3 (by omega) e3] using congrArg BitVec.toNat u3
  · simpa [setWidth_toNat 9 a4 (by omega) e4] using congrArg BitVec.toNat u4
  · simpa [setWidth_toNat 9 a5 (by omega) e5] using congrArg BitVec.toNat u5
  · simpa [setWidth_toNat 9 a6 (by omega) e6] using congrArg BitVec.toNat u6

end SV.BV
