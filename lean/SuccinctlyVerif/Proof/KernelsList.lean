/-
Proof/KernelsList — list-level lemmas used by the C02 kernel proofs: facts about `selectB`
(first set bit, clearing the first set bit, splitting at a prefix) and about `BP.scanClose`
(offsets, appended padding).  No `bv_decide` here.
-/
import SuccinctlyVerif.Spec.Bits
import SuccinctlyVerif.Spec.BP
namespace SV.KList
open SV

/-! ### selectB -/

theorem selectB_none_of_count_le (bs : List Bool) (k : Nat) (h : bs.count true ≤ k) :
    selectB true bs k = none := by
  induction bs generalizing k with
  | nil => rfl
  | cons x xs ih =>
    cases x with
    | true =>
      cases k with
      | zero => simp at h
      | succ k =>
        have : xs.count true ≤ k := by simp at h; omega
        simp [selectB, ih k this]
    | false =>
      have : xs.count true ≤ k := by simpa using h
      simp [selectB, ih k this]

theorem selectB_isSome_of_lt_count (bs : List Bool) (k : Nat) (h : k < bs.count true) :
    ∃ p, selectB true bs k = some p ∧ p < bs.length := by
  induction bs generalizing k with
  | nil => simp at h
  | cons x xs ih =>
    cases x with
    | true =>
      cases k with
      | zero => exact ⟨0, by simp [selectB], by simp⟩
      | succ k =>
        have : k < xs.count true := by simp at h; omega
        obtain ⟨p, hp, hl⟩ := ih k this
        exact ⟨p + 1, by simp [selectB, hp], by simp; omega⟩
    | false =>
      have : k < xs.count true := by simpa using h
      obtain ⟨p, hp, hl⟩ := ih k this
      exact ⟨p + 1, by simp [selectB, hp], by simp; omega⟩

/-- All-false lists have no set bit to select. -/
theorem selectB_replicate_false (n k : Nat) : selectB true (List.replicate n false) k = none := by
  apply selectB_none_of_count_le
  simp [List.count_replicate]

/-- Selecting in a concatenation: inside the first part when it has more than `k` set bits. -/
theorem selectB_append_left (a b : List Bool) (k : Nat) (h : k < a.count true) :
    selectB true (a ++ b) k = selectB true a k := by
  induction a generalizing k with
  | nil => simp at h
  | cons x xs ih =>
    cases x with
    | true =>
      cases k with
      | zero => simp [selectB]
      | succ k =>
        have : k < xs.count true := by simp at h; omega
        simp [selectB, ih k this]
    | false =>
      have : k < xs.count true := by simpa using h
      simp [selectB, ih k this]

/-- Selecting in a concatenation: past the first part when it has at most `k` set bits. -/
theorem selectB_append_right (a b : List Bool) (k : Nat) (h : a.count true ≤ k) :
    selectB true (a ++ b) k = (selectB true b (k - a.count true)).map (· + a.length) := by
  induction a generalizing k with
  | nil => simp
  | cons x xs ih =>
    cases x with
    | true =>
      cases k with
      | zero => simp at h
      | succ k =>
        have h' : xs.count true ≤ k := by simp at h; omega
        have e : k + 1 - (xs.count true + 1) = k - xs.count true := by omega
        simp [selectB, ih k h', e, Option.map_map, Function.comp_def, Nat.add_assoc]
    | false =>
      have h' : xs.count true ≤ k := by simpa using h
      simp [selectB, ih k h', Option.map_map, Function.comp_def, Nat.add_assoc]

/-- Index of the first set bit. -/
theorem selectB_zero_of_first (bs : List Bool) (c : Nat)
    (hlt : ∀ j, j < c → bs[j]? = some false) (hc : bs[c]? = some true) :
    selectB true bs 0 = some c := by
  induction bs generalizing c with
  | nil => simp at hc
  | cons x xs ih =>
    cases c with
    | zero =>
      simp at hc; subst hc; simp [selectB]
    | succ c =>
      have h0 := hlt 0 (by omega)
      simp at h0; subst h0
      have := ih c (fun j hj => by simpa using hlt (j + 1) (by omega)) (by simpa using hc)
      simp [selectB, this]

/-- Clearing the first set bit (at index `c`) shifts every rank down by one. -/
theorem selectB_succ_of_first (bs : List Bool) (c k : Nat)
    (hlt : ∀ j, j < c → bs[j]? = some false) (hc : bs[c]? = some true) :
    selectB true bs (k + 1) = selectB true (bs.set c false) k := by
  induction bs generalizing c with
  | nil => simp at hc
  | cons x xs ih =>
    cases c with
    | zero =>
      simp at hc; subst hc; simp [selectB]
    | succ c =>
      have h0 := hlt 0 (by omega)
      simp at h0; subst h0
      have := ih c (fun j hj => by simpa using hlt (j + 1) (by omega)) (by simpa using hc)
      simp [selectB, this]

theorem count_set_first (bs : List Bool) (c : Nat) (hc : bs[c]? = some true) :
    (bs.set c false).count true + 1 = bs.count true := by
  induction bs generalizing c with
  | nil => simp at hc
  | cons x xs ih =>
    cases c with
    | zero => simp at hc; subst hc; simp
    | succ c =>
      have := ih c (by simpa using hc)
      cases x <;> simp <;> omega

/-- Characterisation: `p` is the `k`-th set bit iff bit `p` is set and exactly `k` set bits
precede it. -/
theorem selectB_eq_some_of (bs : List Bool) (k p : Nat)
    (hp : bs[p]? = some true) (hr : (bs.take p).count true = k) :
    selectB true bs k = some p := by
  induction bs generalizing k p with
  | nil => simp at hp
  | cons x xs ih =>
    cases p with
    | zero =>
      simp at hp hr; subst hp; subst hr; simp [selectB]
    | succ p =>
      have hp' : xs[p]? = some true := by simpa using hp
      cases x with
      | true =>
        cases k with
        | zero => simp at hr
        | succ k =>
          have : (xs.take p).count true = k := by simp at hr; omega
          simp [selectB, ih k p hp' this]
      | false =>
        have : (xs.take p).count true = k := by simpa using hr
        simp [selectB, ih k p hp' this]

/-! ### scanClose -/

open SV.BP

theorem scanClose_shift (bs : List Bool) (i c d : Nat) :
    scanClose bs (i + c) d = (scanClose bs i d).map (· + c) := by
  induction bs generalizing i d with
  | nil => rfl
  | cons x xs ih =>
    cases x with
    | true =>
      have := ih (i + 1) (d + 1)
      rw [show i + 1 + c = i + c + 1 by omega] at this
      simp [scanClose, this]
    | false =>
      have := ih (i + 1) (d - 1)
      rw [show i + 1 + c = i + c + 1 by omega] at this
      simp only [scanClose]
      split
      · rfl
      · exact this

theorem scanClose_bounds (bs : List Bool) (i d r : Nat) (h : scanClose bs i d = some r) :
    i ≤ r ∧ r < i + bs.length := by
  induction bs generalizing i d with
  | nil => simp [scanClose] at h
  | cons x xs ih =>
    cases x with
    | true =>
      have := ih (i + 1) (d + 1) (by simpa [scanClose] using h)
      simp; omega
    | false =>
      simp only [scanClose] at h
      split at h
      · simp at h; subst h; simp
      · have := ih (i + 1) (d - 1) h
        simp; omega

theorem scanClose_append_some (a b : List Bool) (i d r : Nat) (h : scanClose a i d = some r) :
    scanClose (a ++ b) i d = some r := by
  induction a generalizing i d with
  | nil => simp [scanClose] at h
  | cons x xs ih =>
    cases x with
    | true =>
      have := ih (i + 1) (d + 1) (by simpa [scanClose] using h)
      simpa [scanClose] using this
    | false =>
      simp only [scanClose] at h
      simp only [List.cons_append, scanClose]
      split
      · rename_i hd; simpa [hd] using h
      · rename_i hd; simp only [hd, if_false] at h; exact ih (i + 1) (d - 1) h

theorem scanClose_append_none (a b : List Bool) (i d r : Nat) (h : scanClose a i d = none)
    (hr : scanClose (a ++ b) i d = some r) : i + a.length ≤ r := by
  induction a generalizing i d with
  | nil =>
    have := (scanClose_bounds b i d r (by simpa using hr)).1
    simpa using this
  | cons x xs ih =>
    cases x with
    | true =>
      have := ih (i + 1) (d + 1) (by simpa [scanClose] using h) (by simpa [scanClose] using hr)
      simp; omega
    | false =>
      simp only [scanClose] at h
      simp only [List.cons_append, scanClose] at hr
      split at h
      · simp at h
      · rename_i hd
        simp only [hd, if_false] at hr
        have := ih (i + 1) (d - 1) h hr
        simp; omega

end SV.KList
