/-
Proof/EliasFanoCursor — C03: the cursor refinement invariant and its preservation by every
operation of `EliasFanoCursor`.
-/
import SuccinctlyVerif.Proof.EliasFanoSelect
namespace SV.EF
open SV SV.Scan

/-! ### words that are "a word with its low bits cleared" -/

/-- `y` is `w` with all bits below some position cleared. -/
def IsMasked (y w : BitVec 64) : Prop := ∃ b, ∀ i, y.getLsbD i = (w.getLsbD i && decide (b ≤ i))

theorem isMasked_self (w : BitVec 64) : IsMasked w w := ⟨0, fun i => by simp⟩

theorem isMasked_maskFrom (w : BitVec 64) (off : Nat) (h : off < 64) :
    IsMasked (w &&& ~~~((1#64 <<< off) - 1)) w := ⟨off, fun i => getLsbD_maskFrom w off i h⟩

theorem isMasked_clearLowest {y w : BitVec 64} (h : IsMasked y w) : IsMasked (clearLowest y) w := by
  by_cases hy : y = 0
  · subst hy; rw [clearLowest_zero]; exact h
  · obtain ⟨b, hb⟩ := h
    refine ⟨tz y + 1, fun i => ?_⟩
    rw [getLsbD_clearLowest, hb]
    have h1 := getLsbD_tz hy
    rw [hb] at h1
    have hbt : b ≤ tz y := by
      simp only [Bool.and_eq_true, decide_eq_true_eq] at h1; exact h1.2
    by_cases hw : w.getLsbD i
    · by_cases hbi : b ≤ i
      · have : ¬ i < tz y := by
          intro hlt
          have := getLsbD_of_lt_tz hlt
          rw [hb, hw] at this; simp [hbi] at this
        have e : (tz y + 1 ≤ i) ↔ (i ≠ tz y) := by omega
        simp [hw, hbi, e]
      · have : ¬ tz y + 1 ≤ i := by omega
        simp [hw, hbi, this]
    · simp [hw]

theorem isMasked_clearLowestN {y w : BitVec 64} (n : Nat) (h : IsMasked y w) :
    IsMasked (clearLowestN n y) w := by
  induction n generalizing y with
  | zero => exact h
  | succ n ih => exact ih (isMasked_clearLowest h)

theorem isMasked_eq {y w : BitVec 64} (h : IsMasked y w) (hy : y ≠ 0) :
    y = w &&& ~~~((1#64 <<< (tz y)) - 1) := by
  obtain ⟨b, hb⟩ := h
  apply BitVec.eq_of_getLsbD_eq
  intro i _
  rw [getLsbD_maskFrom w (tz y) i (tz_lt hy), hb]
  have h1 := getLsbD_tz hy
  rw [hb] at h1
  simp only [Bool.and_eq_true, decide_eq_true_eq] at h1
  by_cases hw : w.getLsbD i
  · by_cases hbi : b ≤ i
    · have : ¬ i < tz y := by
        intro hlt
        have := getLsbD_of_lt_tz hlt
        rw [hb, hw] at this; simp [hbi] at this
      simp [hw, hbi]; omega
    · have : ¬ tz y ≤ i := by omega
      simp [hw, hbi, this]
  · simp [hw]

/-! ### skipping zero words, scanning for the word of the `rem`-th next one -/

theorem skipZeroWords_spec (ws : List (BitVec 64)) (i0 : Nat) :
    i0 ≤ skipZeroWords ws i0 ∧
    ((skipZeroWords ws i0 - i0 = ws.length ∧ selectB true (allBits ws) 0 = none) ∨
     (∃ wd, ws[skipZeroWords ws i0 - i0]? = some wd ∧ wd ≠ 0 ∧
        selectB true (allBits ws) 0 = some (64 * (skipZeroWords ws i0 - i0) + tz wd))) := by
  induction ws generalizing i0 with
  | nil => simp [skipZeroWords, allBits, selectB]
  | cons w ws ih =>
    unfold skipZeroWords
    by_cases hw : w = 0
    · subst hw
      rw [if_pos rfl]
      obtain ⟨h1, h2⟩ := ih (i0 + 1)
      have hz : selectB true (allBits ((0 : BitVec 64) :: ws)) 0 = (selectB true (allBits ws) 0).map (· + 64) := by
        rw [allBits_cons, selectB_append]
        have : (wordBits (0 : BitVec 64)).count true = 0 := popcount_zero
        rw [this, if_neg (by omega), wordBits_length]
      refine ⟨by omega, ?_⟩
      rcases h2 with ⟨h2, h3⟩ | ⟨wd, h2, h3, h4⟩
      · left
        exact ⟨by simp; omega, by rw [hz, h3]; rfl⟩
      · right
        have e : skipZeroWords ws (i0 + 1) - i0 = (skipZeroWords ws (i0 + 1) - (i0 + 1)) + 1 := by omega
        refine ⟨wd, by rw [e, List.getElem?_cons_succ]; exact h2, h3, ?_⟩
        rw [hz, h4]; simp; omega
    · rw [if_neg hw]
      refine ⟨Nat.le_refl _, Or.inr ⟨w, by simp, hw, ?_⟩⟩
      rw [allBits_cons, selectB_append]
      have : 0 < (wordBits w).count true := by
        have : popcount w ≠ 0 := fun h => hw ((popcount_eq_zero_iff w).mp h)
        unfold popcount at this; omega
      rw [if_pos this, selectB_wordBits_zero hw]
      simp

theorem advScan_spec (ws : List (BitVec 64)) (i0 rem : Nat) (hrem : 1 ≤ rem) :
    match advScan ws i0 rem with
    | some (wi, word, r) => i0 ≤ wi ∧ ws[wi - i0]? = some word ∧ 1 ≤ r ∧ r ≤ popcount word ∧
        selectB true (allBits ws) (rem - 1) =
          (selectB true (wordBits word) (r - 1)).map (· + 64 * (wi - i0))
    | none => selectB true (allBits ws) (rem - 1) = none := by
  induction ws generalizing i0 rem with
  | nil => simp [advScan, allBits, selectB]
  | cons w ws ih =>
    unfold advScan
    rw [Kernels.popc_eq_popcount]
    dsimp only
    by_cases hc : popcount w ≥ rem
    · rw [if_pos hc]
      refine ⟨Nat.le_refl _, by simp, hrem, hc, ?_⟩
      rw [allBits_cons, selectB_append]
      have : rem - 1 < (wordBits w).count true := by unfold popcount at hc; omega
      rw [if_pos this]; simp
    · rw [if_neg hc]
      have ih' := ih (i0 + 1) (rem - popcount w) (by omega)
      have hsel : selectB true (allBits (w :: ws)) (rem - 1) =
          (selectB true (allBits ws) (rem - popcount w - 1)).map (· + 64) := by
        rw [allBits_cons, selectB_append]
        have : ¬ rem - 1 < (wordBits w).count true := by unfold popcount at hc; omega
        rw [if_neg this, wordBits_length]
        have : rem - 1 - (wordBits w).count true = rem - popcount w - 1 := by unfold popcount; omega
        rw [this]
      cases hr : advScan ws (i0 + 1) (rem - popcount w) with
      | none => rw [hr] at ih'; dsimp only at ih' ⊢; rw [hsel, ih']; rfl
      | some t =>
        obtain ⟨wi, word, r⟩ := t
        rw [hr] at ih'
        dsimp only at ih' ⊢
        obtain ⟨h1, h2, h3, h4, h5⟩ := ih'
        have e : wi - i0 = (wi - (i0 + 1)) + 1 := by omega
        refine ⟨by omega, by rw [e, List.getElem?_cons_succ]; exact h2, h3, h4, ?_⟩
        rw [hsel, h5]
        cases selectB true (wordBits word) (r - 1) <;> simp
        omega

/-! ### the refinement invariant -/

/-- A cursor standing on element `idx < n`: `high_pos` is the position of the `idx`-th one of the
high bits, `word_idx = high_pos / 64`, and `remaining_bits` is that word with the bits below
`high_pos % 64` cleared (the current element's bit is still set: it is the lowest set bit). -/
structure Live (ef : EliasFano) (c : Cursor) : Prop where
  sel : selectB true (allBits ef.highBits) c.idx = some c.highPos
  wi : c.wordIdx = c.highPos / 64
  rb : ∃ w, ef.highBits[c.wordIdx]? = some w ∧
    c.remainingBits = w &&& ~~~((1#64 <<< (c.highPos % 64)) - 1)

/-- The cursor invariant: exhausted (`idx = n`; the other fields are then never read), or live. -/
def CurInv (vs : List Nat) (ef : EliasFano) (c : Cursor) : Prop :=
  c.idx ≤ vs.length ∧ (c.idx < vs.length → Live ef c)

/-- The bits from the cursor's word on, with the bits before the current element cleared, are
exactly the rest of the high bits: the `j`-th one from the cursor is the `(idx+j)`-th overall. -/
theorem Live.virtual {ef : EliasFano} {c : Cursor} (h : Live ef c) (j : Nat) :
    selectB true (allBits ef.highBits) (c.idx + j) =
      (selectB true (wordBits c.remainingBits ++ allBits (ef.highBits.drop (c.wordIdx + 1))) j).map
        (· + 64 * c.wordIdx) := by
  obtain ⟨w, hw, hrb⟩ := h.rb
  obtain ⟨h1, _, h3⟩ := selectB_some_spec _ _ _ _ h.sel
  have hoff : c.highPos % 64 < 64 := Nat.mod_lt _ (by omega)
  have hdrop := selectB_drop true (allBits ef.highBits) c.highPos c.idx (c.idx + j) (by omega) h3 (by omega)
  have hs64 : 64 * (c.highPos / 64) + c.highPos % 64 = c.highPos := Nat.div_add_mod _ 64
  rw [h.wi] at hw
  have hD := allBits_drop ef.highBits (c.highPos / 64) (c.highPos % 64) w hw (by omega)
  rw [hs64] at hD
  rw [hdrop, hD, hrb, wordBits_maskFrom w _ hoff, List.append_assoc, selectB_replicate_false_append,
    Nat.add_sub_cancel_left, h.wi]
  cases selectB true (List.drop (c.highPos % 64) (wordBits w) ++ allBits (List.drop (c.highPos / 64 + 1) ef.highBits)) j with
  | none => rfl
  | some q => simp; omega

/-- Building a live cursor from a word with cleared low bits whose lowest set bit is the target. -/
theorem Live.mk' {ef : EliasFano} (idx wi : Nat) (rb w : BitVec 64)
    (hw : ef.highBits[wi]? = some w) (hm : IsMasked rb w) (hne : rb ≠ 0)
    (hsel : selectB true (allBits ef.highBits) idx = some (wi * 64 + tz rb)) :
    Live ef { idx := idx, highPos := wi * 64 + tz rb, wordIdx := wi, remainingBits := rb } := by
  have ht := tz_lt hne
  have e1 : (wi * 64 + tz rb) / 64 = wi := by omega
  have e2 : (wi * 64 + tz rb) % 64 = tz rb := by omega
  refine ⟨hsel, e1.symm, w, hw, ?_⟩
  show rb = w &&& ~~~((1#64 <<< ((wi * 64 + tz rb) % 64)) - 1)
  rw [e2]
  exact isMasked_eq hm hne

theorem Live.rb_ne_zero {ef : EliasFano} {c : Cursor} (h : Live ef c) : c.remainingBits ≠ 0 := by
  intro h0
  have := h.virtual 0
  rw [Nat.add_zero, h.sel, h0] at this
  obtain ⟨w, hw, _⟩ := h.rb
  -- the current bit is set in the masked word
  obtain ⟨h1, h2, _⟩ := selectB_some_spec _ _ _ _ h.sel
  rw [allBits_getElem?, if_pos (by rw [allBits_length] at h1; exact h1)] at h2
  obtain ⟨w', hw', hrb⟩ := h.rb
  have hbit : c.remainingBits.getLsbD (c.highPos % 64) = true := by
    rw [hrb, getLsbD_maskFrom _ _ _ (Nat.mod_lt _ (by omega))]
    simp only [Option.some.injEq] at h2
    simp only [getBit, List.getD_eq_getElem?_getD, ← h.wi, hw'] at h2
    simpa using h2
  rw [h0] at hbit
  simp at hbit

theorem Live.isMasked {ef : EliasFano} {c : Cursor} (h : Live ef c) :
    ∃ w, ef.highBits[c.wordIdx]? = some w ∧ IsMasked c.remainingBits w := by
  obtain ⟨w, hw, hrb⟩ := h.rb
  exact ⟨w, hw, by rw [hrb]; exact isMasked_maskFrom w _ (Nat.mod_lt _ (by omega))⟩

section ops
variable {R : Nat} {vs : List Nat} {ef : EliasFano}

/-- `current()` on a cursor satisfying the invariant is the plain element at `idx`. -/
theorem current_spec (hb : Built R vs ef) (hs : EFSpec.Sorted vs) (hu : EFSpec.AllU32 vs)
    (c : Cursor) (hc : CurInv vs ef c) : current ef c = some vs[c.idx]? := by
  unfold current
  rw [hb.len]
  by_cases hi : c.idx ≥ vs.length
  · rw [if_pos hi, List.getElem?_eq_none hi]
  · rw [if_neg hi]
    have hv : vs[c.idx]? = some vs[c.idx] := List.getElem?_eq_getElem (by omega)
    have hl := hc.2 (by omega)
    have hp := hb.pos_eq hs c.idx _ hv
    rw [hl.sel] at hp
    simp only [Option.some.injEq] at hp
    obtain ⟨lv, h1, h2⟩ := hb.value_at hu c.idx _ hv
    rw [hp]
    simp only [h1, h2, hv]

theorem withCurrent_spec (hb : Built R vs ef) (hs : EFSpec.Sorted vs) (hu : EFSpec.AllU32 vs)
    (c : Cursor) (hc : CurInv vs ef c) : withCurrent ef c = some (c, vs[c.idx]?) := by
  unfold withCurrent
  rw [current_spec hb hs hu c hc]

theorem exists_pos (hb : Built R vs ef) (hs : EFSpec.Sorted vs) (i : Nat) (hi : i < vs.length) :
    ∃ p, selectB true (allBits ef.highBits) i = some p :=
  ⟨_, hb.pos_eq hs i _ (List.getElem?_eq_getElem hi)⟩

theorem curInv_exhausted (c : Cursor) : CurInv vs ef { c with idx := vs.length } :=
  ⟨Nat.le_refl _, fun h => absurd h (Nat.lt_irrefl _)⟩

/-- `seek(i)` / `cursor_from(i)`: the state computed from `select1`. -/
theorem seek_state (hb : Built R vs ef) (hs : EFSpec.Sorted vs) (hR : 0 < R)
    (h32 : 64 * ef.highBits.length ≤ 2 ^ 32) (i : Nat) (hi : i < vs.length) :
    ∃ hp w, select1 R ef i = some hp ∧ ef.highBits[hp / 64]? = some w ∧
      Live ef { idx := i, highPos := hp, wordIdx := hp / 64,
                remainingBits := w &&& ~~~((1#64 <<< (hp % 64)) - 1) } := by
  obtain ⟨p, hp⟩ := exists_pos hb hs i hi
  have h1 := select1_spec R ef (hb.samples_ok hR h32) i p hp
  obtain ⟨hlt, _, _⟩ := selectB_some_spec _ _ _ _ hp
  rw [allBits_length] at hlt
  have hw : p / 64 < ef.highBits.length := by omega
  exact ⟨p, ef.highBits[p / 64], h1, List.getElem?_eq_getElem hw,
    ⟨hp, rfl, _, List.getElem?_eq_getElem hw, rfl⟩⟩

theorem seek_spec (hb : Built R vs ef) (hs : EFSpec.Sorted vs) (hu : EFSpec.AllU32 vs) (hR : 0 < R)
    (h32 : 64 * ef.highBits.length ≤ 2 ^ 32) (c : Cursor) (i : Nat) :
    ∃ c', seek R ef c i = some (c', vs[EFSpec.goto vs i]?) ∧ c'.idx = EFSpec.goto vs i ∧
      CurInv vs ef c' := by
  unfold seek EFSpec.goto
  rw [hb.len]
  by_cases hi : i ≥ vs.length
  · rw [if_pos hi, if_neg (by omega)]
    exact ⟨_, by simp, rfl, curInv_exhausted c⟩
  · rw [if_neg hi, if_pos (by omega)]
    obtain ⟨hp, w, h1, h2, h3⟩ := seek_state hb hs hR h32 i (by omega)
    rw [h1]; dsimp only; rw [h2]; dsimp only
    have hinv : CurInv vs ef ⟨i, hp, hp / 64, w &&& ~~~((1#64 <<< (hp % 64)) - 1)⟩ :=
      ⟨by simp; omega, fun _ => h3⟩
    rw [withCurrent_spec hb hs hu _ hinv]
    exact ⟨_, rfl, rfl, hinv⟩

theorem cursor_spec (hb : Built R vs ef) (hs : EFSpec.Sorted vs) :
    (cursor ef).idx = EFSpec.goto vs 0 ∧ CurInv vs ef (cursor ef) := by
  unfold cursor EFSpec.goto
  rw [hb.len]
  by_cases hn : vs.length = 0
  · rw [if_pos hn, if_neg (by omega)]
    exact ⟨hn.symm, by simp [CurInv, hn]⟩
  · rw [if_neg hn, if_pos (by omega)]
    refine ⟨rfl, by simp, fun _ => ?_⟩
    obtain ⟨p, hp⟩ := exists_pos hb hs 0 (by omega)
    obtain ⟨_, hsk⟩ := skipZeroWords_spec ef.highBits 0
    rw [Nat.sub_zero] at hsk
    rcases hsk with ⟨_, h2⟩ | ⟨wd, h1, h2, h3⟩
    · rw [hp] at h2; simp at h2
    · have hlt : skipZeroWords ef.highBits 0 < ef.highBits.length := by
        rcases Nat.lt_or_ge (skipZeroWords ef.highBits 0) ef.highBits.length with h | h
        · exact h
        · rw [List.getElem?_eq_none h] at h1; simp at h1
      have hgd : ef.highBits.getD (skipZeroWords ef.highBits 0) 0 = wd := by
        rw [List.getD_eq_getElem?_getD, h1]; rfl
      simp only [hlt, if_true, hgd]
      exact Live.mk' 0 _ wd wd h1 (isMasked_self wd) h2 (by rw [h3]; congr 1; omega)

theorem cursorFrom_spec (hb : Built R vs ef) (hs : EFSpec.Sorted vs) (hR : 0 < R)
    (h32 : 64 * ef.highBits.length ≤ 2 ^ 32) (i : Nat) :
    ∃ c', cursorFrom R ef i = some c' ∧ c'.idx = EFSpec.goto vs i ∧ CurInv vs ef c' := by
  unfold cursorFrom
  rw [hb.len]
  by_cases hi : i ≥ vs.length
  · rw [if_pos hi]
    refine ⟨_, rfl, by simp [EFSpec.goto]; omega, by simp [CurInv]⟩
  · rw [if_neg hi]
    by_cases h0 : i = 0
    · subst h0
      rw [if_pos rfl]
      exact ⟨_, rfl, (cursor_spec hb hs).1, (cursor_spec hb hs).2⟩
    · rw [if_neg h0]
      obtain ⟨hp, w, h1, h2, h3⟩ := seek_state hb hs hR h32 i (by omega)
      rw [h1]; dsimp only; rw [h2]
      exact ⟨_, rfl, by simp [EFSpec.goto]; omega, by simp; omega, fun _ => h3⟩

theorem getElem?_length_self (l : List Nat) : l[l.length]? = none := List.getElem?_eq_none (Nat.le_refl _)

theorem advanceOne_spec (hb : Built R vs ef) (hs : EFSpec.Sorted vs) (hu : EFSpec.AllU32 vs)
    (c : Cursor) (hc : CurInv vs ef c) :
    ∃ c', advanceOne ef c = some (c', vs[EFSpec.goto vs (c.idx + 1)]?) ∧
      c'.idx = EFSpec.goto vs (c.idx + 1) ∧ CurInv vs ef c' := by
  unfold advanceOne EFSpec.goto
  rw [hb.len]
  by_cases hi : c.idx + 1 ≥ vs.length
  · rw [if_pos hi, if_neg (show ¬ c.idx + 1 < vs.length by omega), getElem?_length_self]
    exact ⟨_, rfl, rfl, curInv_exhausted c⟩
  · rw [if_neg hi, if_pos (show c.idx + 1 < vs.length by omega)]
    have hl := hc.2 (by omega)
    have hne := hl.rb_ne_zero
    obtain ⟨w, hw, hm⟩ := hl.isMasked
    have hv1 := hl.virtual 1
    obtain ⟨p, hp⟩ := exists_pos hb hs (c.idx + 1) (by omega)
    have hpc := popcount_clearLowest hne
    dsimp only
    by_cases hrb : clearLowest c.remainingBits ≠ 0
    · rw [if_pos hrb]
      have hpos : popcount (clearLowest c.remainingBits) ≠ 0 :=
        fun h => hrb ((popcount_eq_zero_iff _).mp h)
      have h1 : 1 < (wordBits c.remainingBits).count true := by
        have : popcount c.remainingBits = (wordBits c.remainingBits).count true := rfl
        omega
      rw [selectB_append, if_pos h1, ← selectB_wordBits_clearLowest, selectB_wordBits_zero hrb] at hv1
      have hlive := Live.mk' (ef := ef) (c.idx + 1) c.wordIdx (clearLowest c.remainingBits) w hw
        (isMasked_clearLowest hm) hrb (by rw [hv1]; simp; omega)
      have hinv : CurInv vs ef ⟨c.idx + 1, c.wordIdx * 64 + tz (clearLowest c.remainingBits),
          c.wordIdx, clearLowest c.remainingBits⟩ := ⟨by simp; omega, fun _ => hlive⟩
      rw [withCurrent_spec hb hs hu _ hinv]
      exact ⟨_, rfl, rfl, hinv⟩
    · have hrb0 : clearLowest c.remainingBits = 0 := by
        rcases Classical.em (clearLowest c.remainingBits = 0) with h | h
        · exact h
        · exact absurd h hrb
      rw [if_neg hrb]
      rw [hrb0, popcount_zero] at hpc
      have h1 : ¬ 1 < (wordBits c.remainingBits).count true := by
        have : popcount c.remainingBits = (wordBits c.remainingBits).count true := rfl
        omega
      have h1' : (wordBits c.remainingBits).count true = 1 := by
        have : popcount c.remainingBits = (wordBits c.remainingBits).count true := rfl
        omega
      rw [selectB_append, if_neg h1, h1', Nat.sub_self, wordBits_length, hp] at hv1
      obtain ⟨hle, hsk⟩ := skipZeroWords_spec (ef.highBits.drop (c.wordIdx + 1)) (c.wordIdx + 1)
      rcases hsk with ⟨_, h2⟩ | ⟨wd, h2, h3, h4⟩
      · rw [h2] at hv1; simp at hv1
      · generalize skipZeroWords (ef.highBits.drop (c.wordIdx + 1)) (c.wordIdx + 1) = wi' at *
        rw [List.getElem?_drop, show c.wordIdx + 1 + (wi' - (c.wordIdx + 1)) = wi' by omega] at h2
        have hlt : wi' < ef.highBits.length := by
          rcases Nat.lt_or_ge wi' ef.highBits.length with h | h
          · exact h
          · rw [List.getElem?_eq_none h] at h2; simp at h2
        rw [if_neg (by omega), h2]
        dsimp only
        rw [h4] at hv1
        simp only [Option.map_some, Option.some.injEq] at hv1
        have hlive := Live.mk' (ef := ef) (c.idx + 1) wi' wd wd h2 (isMasked_self wd) h3
          (by rw [hp]; congr 1; omega)
        have hinv : CurInv vs ef ⟨c.idx + 1, wi' * 64 + tz wd, wi', wd⟩ :=
          ⟨by simp; omega, fun _ => hlive⟩
        rw [withCurrent_spec hb hs hu _ hinv]
        exact ⟨_, rfl, rfl, hinv⟩

theorem clearLowestN_succ' (n : Nat) (x : BitVec 64) :
    clearLowestN n (clearLowest x) = clearLowestN (n + 1) x := rfl

theorem advanceBy_spec (hb : Built R vs ef) (hs : EFSpec.Sorted vs) (hu : EFSpec.AllU32 vs)
    (hR : 0 < R) (h32 : 64 * ef.highBits.length ≤ 2 ^ 32)
    (c : Cursor) (hc : CurInv vs ef c) (k : Nat) :
    ∃ c', advanceBy R ef c k = some (c', vs[EFSpec.goto vs (c.idx + k)]?) ∧
      c'.idx = EFSpec.goto vs (c.idx + k) ∧ CurInv vs ef c' := by
  unfold advanceBy
  by_cases k0 : k = 0
  · subst k0
    rw [if_pos rfl, withCurrent_spec hb hs hu c hc]
    have : EFSpec.goto vs (c.idx + 0) = c.idx := by
      unfold EFSpec.goto; have := hc.1; split <;> omega
    rw [this]
    exact ⟨c, rfl, rfl, hc⟩
  rw [if_neg k0]
  by_cases k1 : k = 1
  · subst k1
    rw [if_pos rfl]
    exact advanceOne_spec hb hs hu c hc
  rw [if_neg k1, hb.len]
  dsimp only
  have hnb : vs.length ≤ 2 ^ 32 := by
    have h1 := hb.count_high hs
    have h2 : (allBits ef.highBits).count true ≤ (allBits ef.highBits).length := List.count_le_length
    rw [allBits_length] at h2
    omega
  by_cases hk : c.idx + k < 2 ^ 64
  case neg =>
    rw [Nat.min_eq_right (by omega), if_pos (by omega)]
    have : EFSpec.goto vs (c.idx + k) = vs.length := by unfold EFSpec.goto; rw [if_neg (by omega)]
    rw [this, getElem?_length_self]
    exact ⟨_, rfl, rfl, curInv_exhausted c⟩
  rw [Nat.min_eq_left (by omega)]
  by_cases hi : c.idx + k ≥ vs.length
  · rw [if_pos hi]
    have : EFSpec.goto vs (c.idx + k) = vs.length := by unfold EFSpec.goto; rw [if_neg (by omega)]
    rw [this, getElem?_length_self]
    exact ⟨_, rfl, rfl, curInv_exhausted c⟩
  rw [if_neg hi]
  by_cases k64 : k > 64
  · rw [if_pos k64]
    exact seek_spec hb hs hu hR h32 c (c.idx + k)
  rw [if_neg k64]
  have hgoto : EFSpec.goto vs (c.idx + k) = c.idx + k := by unfold EFSpec.goto; rw [if_pos (by omega)]
  rw [hgoto]
  have hl := hc.2 (by omega)
  have hne := hl.rb_ne_zero
  obtain ⟨w, hw, hm⟩ := hl.isMasked
  have hvk := hl.virtual k
  obtain ⟨p, hp⟩ := exists_pos hb hs (c.idx + k) (by omega)
  have hpc := popcount_clearLowest hne
  have hcnt : popcount c.remainingBits = (wordBits c.remainingBits).count true := rfl
  rw [Kernels.popc_eq_popcount]
  by_cases hin : popcount (clearLowest c.remainingBits) ≥ k
  · rw [if_pos hin]
    have hkl : k < popcount c.remainingBits := by omega
    rw [clearLowestN_succ', show k - 1 + 1 = k by omega]
    have hrbn := clearLowestN_ne_zero hkl
    have htz := tz_clearLowestN hkl
    rw [selectB_append, if_pos (by omega), selectB_wordBits_eq hkl, ← htz] at hvk
    have hlive := Live.mk' (ef := ef) (c.idx + k) c.wordIdx (clearLowestN k c.remainingBits) w hw
      (isMasked_clearLowestN k hm) hrbn (by rw [hvk]; simp; omega)
    have hinv : CurInv vs ef ⟨c.idx + k, c.wordIdx * 64 + tz (clearLowestN k c.remainingBits),
        c.wordIdx, clearLowestN k c.remainingBits⟩ := ⟨by simp; omega, fun _ => hlive⟩
    rw [withCurrent_spec hb hs hu _ hinv]
    exact ⟨_, rfl, rfl, hinv⟩
  · rw [if_neg hin]
    have hge : ¬ k < (wordBits c.remainingBits).count true := by omega
    rw [selectB_append, if_neg hge, wordBits_length, hp] at hvk
    have hsp := advScan_spec (ef.highBits.drop (c.wordIdx + 1)) (c.wordIdx + 1)
      (k - popcount (clearLowest c.remainingBits)) (by omega)
    have hrem : k - popcount (clearLowest c.remainingBits) - 1 =
        k - (wordBits c.remainingBits).count true := by omega
    rw [hrem] at hsp
    cases hr : advScan (ef.highBits.drop (c.wordIdx + 1)) (c.wordIdx + 1)
        (k - popcount (clearLowest c.remainingBits)) with
    | none =>
      rw [hr] at hsp
      dsimp only at hsp
      rw [hsp] at hvk; simp at hvk
    | some t =>
      obtain ⟨wi', word, r⟩ := t
      rw [hr] at hsp
      dsimp only at hsp ⊢
      obtain ⟨h1, h2, h3, h4, h5⟩ := hsp
      rw [List.getElem?_drop, show c.wordIdx + 1 + (wi' - (c.wordIdx + 1)) = wi' by omega] at h2
      have hrl : r - 1 < popcount word := by omega
      have hrbn := clearLowestN_ne_zero hrl
      have htz := tz_clearLowestN hrl
      rw [h5, selectB_wordBits_eq hrl, ← htz] at hvk
      simp only [Option.map_some, Option.some.injEq] at hvk
      have hlive := Live.mk' (ef := ef) (c.idx + k) wi' (clearLowestN (r - 1) word) word h2
        (isMasked_clearLowestN (r - 1) (isMasked_self word)) hrbn (by rw [hp]; congr 1; omega)
      have hinv : CurInv vs ef ⟨c.idx + k, wi' * 64 + tz (clearLowestN (r - 1) word), wi',
          clearLowestN (r - 1) word⟩ := ⟨by simp; omega, fun _ => hlive⟩
      rw [withCurrent_spec hb hs hu _ hinv]
      exact ⟨_, rfl, rfl, hinv⟩

end ops

end SV.EF
