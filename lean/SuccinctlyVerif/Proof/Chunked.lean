/-
Proof/Chunked — the generic chunked-scan lemma (C05, C09, C13, C16, C20).

A chunked scan over `data` with lane function `lane` (one byte lane of the SIMD match mask) and byte
predicate `p`: a `W`-byte main loop ("`mask = movemask(lanes)`; `mask ≠ 0 ⇒ offset + ctz mask`"),
an optional half-width step, and a scalar tail.  Provided lane-mask bit `i` ⇔ `p (chunk[i])`
(`hlane : ∀ b, (lane b).msb = p b`), every such scan returns `scanTail p data`: the first index whose
byte satisfies `p`, `none` if there is none — for every `W`, every length and every alignment.
-/
import SuccinctlyVerif.Model.Escape
namespace SV.Chunked
open SV SV.Escape

variable {p : BitVec 8 → Bool}

theorem scanTail_none_iff (l : List (BitVec 8)) : scanTail p l = none ↔ ∀ b ∈ l, p b = false := by
  induction l with
  | nil => simp [scanTail]
  | cons b r ih =>
    unfold scanTail
    by_cases h : p b = true
    · simp [h]
    · simp [h, ih]

theorem scanTail_append (xs ys : List (BitVec 8)) :
    scanTail p (xs ++ ys) = match scanTail p xs with
      | some i => some i
      | none => (scanTail p ys).map (xs.length + ·) := by
  induction xs with
  | nil => simp [scanTail]
  | cons b r ih =>
    simp only [List.cons_append, scanTail]
    by_cases h : p b = true
    · simp [h]
    · simp only [h, Bool.false_eq_true, if_false, ih]
      cases scanTail p r with
      | some i => simp
      | none =>
        cases scanTail p ys with
        | none => simp
        | some j => simp; omega

/-- `movemask = 0` iff no lane has its top bit set. -/
theorem movemask_zero_iff (lanes : List (BitVec 8)) :
    movemask lanes = 0 ↔ ∀ l ∈ lanes, l.msb = false := by
  induction lanes with
  | nil => simp [movemask]
  | cons l ls ih =>
    unfold movemask
    cases h : l.msb
    · simp only [Bool.false_eq_true, if_false, Nat.zero_add, List.mem_cons, forall_eq_or_imp, h, true_and]
      rw [← ih]; omega
    · simp only [if_true, List.mem_cons, forall_eq_or_imp, h, Bool.true_eq_false, false_and, iff_false]
      omega

/-- "`mask ≠ 0 ⇒ ctz mask`" is the first lane whose top bit is set. -/
theorem tz_movemask (lanes : List (BitVec 8)) (h : movemask lanes ≠ 0) :
    scanTail (fun l => l.msb) lanes = some (tzNat lanes.length (movemask lanes)) := by
  induction lanes with
  | nil => simp [movemask] at h
  | cons l ls ih =>
    unfold movemask at h ⊢
    unfold scanTail
    cases hm : l.msb
    · simp only [hm, Bool.false_eq_true, if_false, Nat.zero_add] at h ⊢
      have hM : movemask ls ≠ 0 := by omega
      rw [ih hM, List.length_cons, tzNat]
      have h1 : 2 * movemask ls % 2 ≠ 1 := by omega
      have h2 : 2 * movemask ls / 2 = movemask ls := by omega
      simp [h1, h2]; omega
    · simp only [if_true, List.length_cons, tzNat]
      have h1 : (1 + 2 * movemask ls) % 2 = 1 := by omega
      simp [h1]

theorem scanTail_map (lane : BitVec 8 → BitVec 8) (hlane : ∀ b, (lane b).msb = p b) (l : List (BitVec 8)) :
    scanTail (fun x => x.msb) (l.map lane) = scanTail p l := by
  induction l with
  | nil => rfl
  | cons b r ih => simp [scanTail, hlane, ih]

/-- One chunk step: a hit is the first index in the chunk satisfying `p`; a clean chunk has none. -/
theorem chunkStep_spec (lane : BitVec 8 → BitVec 8) (hlane : ∀ b, (lane b).msb = p b)
    (w : Nat) (data : List (BitVec 8)) :
    match chunkStep lane w data with
    | some (some i) => w ≤ data.length ∧ scanTail p (data.take w) = some i
    | some none => w ≤ data.length ∧ scanTail p (data.take w) = none
    | none => data.length < w := by
  unfold chunkStep
  by_cases hw : w ≤ data.length
  · simp only [hw, if_true]
    by_cases hm : movemask ((data.take w).map lane) = 0
    · simp only [hm, ne_eq, not_true_eq_false, if_false]
      refine ⟨trivial, ?_⟩
      rw [← scanTail_map lane hlane, scanTail_none_iff]
      exact (movemask_zero_iff _).1 hm
    · simp only [ne_eq, hm, not_false_eq_true, if_true]
      refine ⟨trivial, ?_⟩
      have := tz_movemask _ hm
      rw [scanTail_map lane hlane] at this
      rw [this]; simp [Nat.min_eq_left hw]
  · simp only [hw, if_false]; omega

/-- The main loop: a hit is the first index of `data` satisfying `p`; otherwise the consumed prefix
(`off` bytes, a multiple of `w`) is clean and the remainder is `data.drop off`. -/
theorem chunkLoop_spec (lane : BitVec 8 → BitVec 8) (hlane : ∀ b, (lane b).msb = p b) (w : Nat) :
    ∀ (f off : Nat) (data : List (BitVec 8)),
    match chunkLoop lane w f off data with
    | .inl r => ∃ i, r = off + i ∧ scanTail p data = some i
    | .inr (off', rest) => ∃ k, off' = off + k ∧ k ≤ data.length ∧ rest = data.drop k ∧
        scanTail p (data.take k) = none := by
  intro f
  induction f with
  | zero => intro off data; exact ⟨0, by simp, by simp, by simp, by simp [scanTail]⟩
  | succ f ih =>
    intro off data
    unfold chunkLoop
    have hs := chunkStep_spec lane hlane w data
    cases hc : chunkStep lane w data with
    | none => exact ⟨0, by simp, by simp, by simp, by simp [scanTail]⟩
    | some o =>
      rw [hc] at hs
      cases o with
      | some i =>
        obtain ⟨hw, hi⟩ := hs
        refine ⟨i, rfl, ?_⟩
        rw [← List.take_append_drop w data, scanTail_append, hi]
      | none =>
        obtain ⟨hw, hn⟩ := hs
        have h2 := ih (off + w) (data.drop w)
        cases hr : chunkLoop lane w f (off + w) (data.drop w) with
        | inl r =>
          rw [hr] at h2
          obtain ⟨i, h3, h4⟩ := h2
          refine ⟨w + i, by omega, ?_⟩
          rw [← List.take_append_drop w data, scanTail_append, hn, h4]
          simp [Nat.min_eq_left hw]
        | inr pr =>
          rw [hr] at h2
          obtain ⟨off', rest⟩ := pr
          obtain ⟨k, h3, h4, h5, h6⟩ := h2
          refine ⟨w + k, by omega, by simp at h4; omega, by rw [h5, List.drop_drop], ?_⟩
          have : data.take (w + k) = data.take w ++ (data.drop w).take k := by
            rw [List.take_add]
          rw [this, scanTail_append, hn, h6]; rfl

end SV.Chunked
