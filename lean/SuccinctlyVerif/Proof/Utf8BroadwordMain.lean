/-
Proof/Utf8BroadwordMain — the ASCII-skipping head of `broadword::accepts` (`load_block`,
`load_word`, `first_high_byte`) only skips ASCII bytes, and the whole accept scan accepts exactly
the Table 3-7 language.
-/
import SuccinctlyVerif.Proof.Utf8Broadword
set_option linter.unusedSimpArgs false
namespace SV.Utf8
open SV

theorem exists_cons8 (l : List Byte) (h : 8 ≤ l.length) :
    ∃ b0 b1 b2 b3 b4 b5 b6 b7 rest, l = b0 :: b1 :: b2 :: b3 :: b4 :: b5 :: b6 :: b7 :: rest := by
  rcases l with _ | ⟨b0, l⟩; · simp at h
  rcases l with _ | ⟨b1, l⟩; · simp at h
  rcases l with _ | ⟨b2, l⟩; · simp at h
  rcases l with _ | ⟨b3, l⟩; · simp at h
  rcases l with _ | ⟨b4, l⟩; · simp at h
  rcases l with _ | ⟨b5, l⟩; · simp at h
  rcases l with _ | ⟨b6, l⟩; · simp at h
  rcases l with _ | ⟨b7, l⟩; · simp at h
  exact ⟨b0, b1, b2, b3, b4, b5, b6, b7, l, rfl⟩

/-- `load_word(..) & HI == 0` iff the eight bytes are ASCII. -/
theorem wordAt_zero_iff (l : List Byte) (h : 8 ≤ l.length) :
    Gen.utf8_non_ascii (wordAt l) = 0#64 ↔ ∀ b ∈ l.take 8, b < 0x80#8 := by
  obtain ⟨b0, b1, b2, b3, b4, b5, b6, b7, rest, rfl⟩ := exists_cons8 l h
  have : wordAt (b0 :: b1 :: b2 :: b3 :: b4 :: b5 :: b6 :: b7 :: rest) = leWord b0 b1 b2 b3 b4 b5 b6 b7 := by
    simp [wordAt]
  rw [this, nonAscii_zero_iff]
  simp [List.take]

theorem or4_zero_iff (a b c d : BitVec 64) :
    Gen.utf8_non_ascii ((((0#64 ||| a) ||| b) ||| c) ||| d) = 0#64 ↔
      Gen.utf8_non_ascii a = 0#64 ∧ Gen.utf8_non_ascii b = 0#64 ∧ Gen.utf8_non_ascii c = 0#64 ∧
        Gen.utf8_non_ascii d = 0#64 := by
  simp only [Gen.utf8_non_ascii]; bv_decide (timeout := 300)

theorem take32 (l : List Byte) :
    l.take 32 = l.take 8 ++ ((l.drop 8).take 8 ++ ((l.drop 16).take 8 ++ (l.drop 24).take 8)) := by
  have e : 32 = 8 + (8 + (8 + 8)) := rfl
  rw [e, List.take_add, List.take_add, List.take_add]
  simp [List.drop_drop]

theorem nz_ctz_lt (x : BitVec 64) (h : x ≠ 0#64) : x.ctz >>> 3 < 8#64 := by bv_decide (timeout := 300)

/-- What the ASCII-skipping head of one `accepts` iteration does: `continue` after skipping `k ≥ 1`
ASCII bytes, or fall through to `validate_sequence` after skipping `k` ASCII bytes with input left. -/
def SkipPost (rest : List Byte) : Sum (List Byte) (List Byte) → Prop
  | .inl l => ∃ k, 1 ≤ k ∧ k ≤ rest.length ∧ l = rest.drop k ∧ ∀ x ∈ rest.take k, x < 0x80#8
  | .inr l => ∃ k, k < rest.length ∧ l = rest.drop k ∧ ∀ x ∈ rest.take k, x < 0x80#8

theorem bwBlock_spec (l : List Byte) (blk : BitVec 64) (hb : bwLoadBlock l = some blk)
    (hz : Gen.utf8_bw_block_hi blk = 0#64) : SkipPost l (.inl (l.drop 32)) := by
  unfold bwLoadBlock at hb
  by_cases h32 : 32 ≤ l.length
  · simp only [h32, if_true, Option.some.injEq] at hb
    subst hb
    refine ⟨32, by decide, h32, rfl, ?_⟩
    have hz := (or4_zero_iff _ _ _ _).1 hz
    have l8 : 8 ≤ l.length := by omega
    have l16 : 8 ≤ (l.drop 8).length := by simp only [List.length_drop]; omega
    have l24 : 8 ≤ (l.drop 16).length := by simp only [List.length_drop]; omega
    have l32 : 8 ≤ (l.drop 24).length := by simp only [List.length_drop]; omega
    intro x hx
    rw [take32] at hx
    simp only [List.mem_append] at hx
    rcases hx with hx | hx | hx | hx
    · exact (wordAt_zero_iff _ l8).1 hz.1 x hx
    · exact (wordAt_zero_iff _ l16).1 hz.2.1 x hx
    · exact (wordAt_zero_iff _ l24).1 hz.2.2.1 x hx
    · exact (wordAt_zero_iff _ l32).1 hz.2.2.2 x hx
  · simp [h32] at hb

theorem bwWord_clean (l : List Byte) (h8 : 8 ≤ l.length) (hz : Gen.utf8_bw_hi (wordAt l) = 0#64) :
    SkipPost l (.inl (l.drop 8)) :=
  ⟨8, by decide, h8, rfl, (wordAt_zero_iff _ h8).1 hz⟩

theorem bwWord_hit (l : List Byte) (h8 : 8 ≤ l.length) (hz : ¬ Gen.utf8_bw_hi (wordAt l) = 0#64) :
    SkipPost l (.inr (l.drop (tz (Gen.utf8_bw_hi (wordAt l)) >>> 3))) := by
  obtain ⟨b0, b1, b2, b3, b4, b5, b6, b7, rest, rfl⟩ := exists_cons8 l h8
  have hw : wordAt (b0 :: b1 :: b2 :: b3 :: b4 :: b5 :: b6 :: b7 :: rest) = leWord b0 b1 b2 b3 b4 b5 b6 b7 := by
    simp [wordAt]
  have hne : Gen.utf8_non_ascii (leWord b0 b1 b2 b3 b4 b5 b6 b7) ≠ 0#64 := by rw [← hw]; exact hz
  have hk : tz (Gen.utf8_bw_hi (wordAt (b0 :: b1 :: b2 :: b3 :: b4 :: b5 :: b6 :: b7 :: rest))) >>> 3 =
      ((b0 :: b1 :: b2 :: b3 :: b4 :: b5 :: b6 :: b7 :: rest).takeWhile (· < 0x80#8)).length := by
    rw [← skipAscii_eq, skipAscii, hw]
    simp only [hne, ne_eq, not_false_eq_true, if_true]
    rfl
  have hlt : tz (Gen.utf8_bw_hi (wordAt (b0 :: b1 :: b2 :: b3 :: b4 :: b5 :: b6 :: b7 :: rest))) >>> 3 < 8 := by
    have := nz_ctz_lt _ hz
    have h2 : ((Gen.utf8_bw_hi (wordAt (b0 :: b1 :: b2 :: b3 :: b4 :: b5 :: b6 :: b7 :: rest))).ctz >>> 3).toNat < 8 := by
      simpa [BitVec.lt_def] using this
    simpa [tz, BitVec.toNat_ushiftRight] using h2
  refine ⟨_, by simp only [List.length_cons]; omega, rfl, ?_⟩
  rw [hk, take_takeWhile_length]
  intro x hx
  simpa using mem_takeWhile_imp' _ _ x hx

theorem bwSkip_spec (b : Byte) (r : List Byte) : SkipPost (b :: r) (bwSkip (b :: r)) := by
  have hword : ∀ (w : Option (BitVec 64)), bwLoadWord (b :: r) = w → b < 0x80#8 →
      SkipPost (b :: r) (match w with
        | some word =>
          if (Gen.utf8_bw_hi word == 0#64) = true then Sum.inl (List.drop 8 (b :: r))
          else Sum.inr (List.drop (tz (Gen.utf8_bw_hi word) >>> 3) (b :: r))
        | none => Sum.inl (List.drop 1 (b :: r))) := by
    intro w hw hh
    unfold bwLoadWord at hw
    by_cases h8 : 8 ≤ (b :: r).length
    · simp only [h8, if_true] at hw
      subst hw
      by_cases hz : Gen.utf8_bw_hi (wordAt (b :: r)) = 0#64
      · simp only [hz, beq_self_eq_true, if_true]
        exact bwWord_clean _ h8 hz
      · have hz' : (Gen.utf8_bw_hi (wordAt (b :: r)) == 0#64) = false := by simpa using hz
        simp only [hz', Bool.false_eq_true, if_false]
        exact bwWord_hit _ h8 hz
    · simp only [h8, if_false] at hw
      subst hw
      exact ⟨1, by decide, by simp, rfl, by simpa using hh⟩
  unfold bwSkip
  by_cases hh : b < 0x80#8
  · simp only [List.headD_cons, hh, if_true]
    split
    · rename_i blk hb
      by_cases hz : Gen.utf8_bw_block_hi blk = 0#64
      · simp only [hz, beq_self_eq_true, if_true]
        exact bwBlock_spec _ blk hb hz
      · have hz' : (Gen.utf8_bw_block_hi blk == 0#64) = false := by simpa using hz
        simp only [hz', Bool.false_eq_true, if_false]
        exact hword _ rfl hh
    · simp only [Bool.false_eq_true, if_false]
      exact hword _ rfl hh
  · simp only [List.headD_cons, hh, if_false]
    exact ⟨0, by simp, rfl, by simp⟩

theorem bwAcceptsGo_spec : ∀ (f : Nat) (rest : List Byte), rest.length ≤ f →
    (bwAcceptsGo f rest = true ↔ run .start rest = .start) := by
  intro f
  induction f with
  | zero =>
    intro rest h
    have : rest = [] := List.eq_nil_of_length_eq_zero (by omega)
    subst this; simp [bwAcceptsGo]
  | succ f ih =>
    intro rest h
    match rest with
    | [] => simp [bwAcceptsGo]
    | b :: r =>
      unfold bwAcceptsGo
      have hs := bwSkip_spec b r
      have hL : (b :: r).length = r.length + 1 := rfl
      cases hsk : bwSkip (b :: r) with
      | inl l =>
        rw [hsk] at hs
        obtain ⟨k, hk1, hk2, hl, hasc⟩ := hs
        have hrun : run .start (b :: r) = run .start l := by
          conv => lhs; rw [← List.take_append_drop k (b :: r), run_append, run_start_ascii hasc]
          rw [hl]
        simp only [hrun]
        exact ih l (by rw [hl, List.length_drop]; omega)
      | inr l =>
        rw [hsk] at hs
        obtain ⟨k, hk2, hl, hasc⟩ := hs
        have hrun : run .start (b :: r) = run .start l := by
          conv => lhs; rw [← List.take_append_drop k (b :: r), run_append, run_start_ascii hasc]
          rw [hl]
        have hne : l ≠ [] := by
          intro he
          have : l.length = (b :: r).length - k := by rw [hl, List.length_drop]
          rw [he] at this; simp at this; omega
        have hlen : l.length ≤ f + 1 := by rw [hl, List.length_drop]; omega
        simp only [hrun]
        cases hv : bwValidateSequence l with
        | none =>
          simp only [Bool.false_eq_true, false_iff]
          exact bwVS_none l hv hne
        | some n =>
          obtain ⟨h1, h2, h3⟩ := bwVS_some l n hv
          simp only [h3]
          exact ih (l.drop n) (by rw [List.length_drop]; omega)

/-- `broadword::accepts` accepts exactly well-formed UTF-8. -/
theorem bwAccepts_iff (b : List Byte) : bwAccepts b = true ↔ WellFormed b :=
  bwAcceptsGo_spec b.length b (Nat.le_refl _)

end SV.Utf8
