/-
Proof/BPSelCS3 — the sample bracket of `WithCsPoppy::select1` contains the block of the k-th open;
`select1` of a structure built with `WithCsPoppy` at any rate = `selectB true` (C04).
-/
import SuccinctlyVerif.Proof.BPSelCS2
namespace SV.BPR
open SV SV.BP SV.BPM SV.BPP SV.BPS SV.BPC SV.BPQ

def f8 (x : Nat × Nat) : Nat := (x.1 / Gen.BP_WORDS_PER_RANK_BLOCK) % 2 ^ 32

theorem sample_low (st : List (BitVec 64)) (len rate i j w : Nat) (g : Nat × Nat)
    (hg : Good st rate i g) (hij : i * rate ≤ j) (hH : Holds st len j w) : g.1 ≤ w := by
  obtain ⟨g1, g2, g3, _⟩ := hg
  obtain ⟨_, _, h2⟩ := hH
  by_cases hle : g.1 ≤ w
  · exact hle
  · exfalso
    have := rawCum_eq_sumC st len g.1 g2
    have := sumC_mono st len (w + 1) g.1 (by omega)
    omega

theorem sample_high (st : List (BitVec 64)) (len rate i j w : Nat) (g : Nat × Nat)
    (hg : Good st rate i g) (hij : j < i * rate) (hH : Holds st len j w) : w ≤ g.1 := by
  obtain ⟨g1, g2, _, g4⟩ := hg
  obtain ⟨hwn, h1, _⟩ := hH
  by_cases hle : w ≤ g.1
  · exact hle
  · exfalso
    have e1 := rawCum_eq_sumC st len g.1 g2
    have e2 := cw_eq_popc st len g.1 (by omega)
    have e3 := sumC_succ st len g.1
    have := sumC_mono st len (g.1 + 1) w (by omega)
    omega

theorem cs_bracket (st : List (BitVec 64)) (len rate j w : Nat) (G : List (Nat × Nat)) (hrate : 1 ≤ rate)
    (hG : GoodAll st rate G) (hGne : 0 < G.length) (hH : Holds st len j w) (hn : st.length < 2 ^ 32) :
    let r := csLoHi (G.map f8).toArray ((st.length + 7) / 8 - 1) rate j
    r.1 ≤ w / 8 ∧ w / 8 ≤ r.2 ∧ r.2 < (st.length + 7) / 8 := by
  have hwn := hH.1
  have h8 : Gen.BP_WORDS_PER_RANK_BLOCK = 8 := rfl
  have hget : ∀ t, t < G.length → (G.map f8).toArray.getD t 0 = (G.getD t (0, 0)).1 / 8 := by
    intro t ht
    have hgood := hG t ht
    rw [toArray_getD, List.getD_eq_getElem?_getD, List.getElem?_map, List.getD_eq_getElem?_getD,
      List.getElem?_eq_getElem ht]
    simp only [Option.map_some, Option.getD_some, f8, h8]
    have : (G[t]).1 < st.length := by
      have := hgood.2.1
      rw [List.getD_eq_getElem?_getD, List.getElem?_eq_getElem ht] at this
      exact this
    apply Nat.mod_eq_of_lt; omega
  unfold csLoHi
  simp only [List.size_toArray, List.length_map]
  have hsi1 : j / rate * rate ≤ j := Nat.div_mul_le_self j rate
  have hsi2 : j < (j / rate + 1) * rate := by
    have := Nat.lt_mul_div_succ j (by omega : 0 < rate)
    rw [Nat.mul_comm] at this; exact this
  -- upper end
  have hhi : w / 8 ≤ min (if j / rate + 1 < G.length then (G.map f8).toArray.getD (j / rate + 1) 0
      else (st.length + 7) / 8 - 1) ((st.length + 7) / 8 - 1) := by
    have hlast : w / 8 ≤ (st.length + 7) / 8 - 1 := by omega
    by_cases hc : j / rate + 1 < G.length
    · simp only [hc, if_true]
      rw [hget _ hc]
      have := sample_high st len rate (j / rate + 1) j w _ (hG _ hc) hsi2 hH
      omega
    · simp only [hc, if_false]; omega
  -- lower end
  have hlo : (if j / rate < G.length then (G.map f8).toArray.getD (j / rate) 0
      else (G.map f8).toArray.getD (G.length - 1) 0) ≤ w / 8 := by
    by_cases hc : j / rate < G.length
    · simp only [hc, if_true]
      rw [hget _ hc]
      have := sample_low st len rate (j / rate) j w _ (hG _ hc) hsi1 hH
      omega
    · simp only [hc, if_false]
      rw [hget _ (by omega)]
      have hmul : (G.length - 1) * rate ≤ j :=
        Nat.le_trans (Nat.mul_le_mul_right rate (by omega : G.length - 1 ≤ j / rate)) hsi1
      have := sample_low st len rate (G.length - 1) j w _ (hG _ (by omega)) hmul hH
      omega
  refine ⟨?_, hhi, ?_⟩
  · exact Nat.le_trans (Nat.min_le_left _ _) hlo
  · have := Nat.min_le_right (if j / rate + 1 < G.length then (G.map f8).toArray.getD (j / rate + 1) 0
      else (st.length + 7) / 8 - 1) ((st.length + 7) / 8 - 1)
    omega

theorem rawCum_total_ge (st : List (BitVec 64)) (len : Nat) :
    (bitsOf st len).count true ≤ rawCum st st.length := by
  rw [rawCum_eq, List.take_of_length_le (Nat.le_refl _)]
  unfold bitsOf
  exact List.Sublist.count_le true (List.take_sublist _ _)

theorem select1_csPoppy_eq (simd : Bool) (st : List (BitVec 64)) (len rate0 j : Nat)
    (hw : st.length = (len + 63) / 64) (hlen : len < 2 ^ 32) :
    (mkBP simd st len (.csPoppy rate0)).select1 j = selectB true (bitsOf st len) j := by
  have hT := totalOnes_eq simd st len (.csPoppy rate0) hw hlen
  have hsel : (mkBP simd st len (.csPoppy rate0)).sel =
      Sel.csPoppy (csPoppyBuild st (mkBP simd st len (.csPoppy rate0)).totalOnes (rate0 % 2 ^ 32)).toArray
        (max (rate0 % 2 ^ 32) 1) := rfl
  rw [select1_cs_unfold _ _ _ j hsel, hT]
  by_cases hge : j ≥ (bitsOf st len).count true
  · simp only [hge, true_or, if_true]
    exact (selectB_none true _ _ hge).symm
  · have hjT : j < (bitsOf st len).count true := by omega
    have hne : st ≠ [] := by
      intro h0; subst h0; simp [bitsOf, allBits] at hjT
    have hnpos : 0 < st.length := List.length_pos_iff.mpr hne
    have hne' : ¬ (st = [] ∨ len = 0) := by
      intro h; rcases h with h | h
      · exact hne h
      · subst h; simp [bitsOf] at hjT
    have hrate : 1 ≤ max (rate0 % 2 ^ 32) 1 := by omega
    generalize hrt : max (rate0 % 2 ^ 32) 1 = rate at *
    -- the samples
    have hbuild : csPoppyBuild st ((bitsOf st len).count true) (rate0 % 2 ^ 32) =
        (sampleLoop rate ((bitsOf st len).count true) st 0 0 0 []).map f8 := by
      unfold csPoppyBuild
      have : ¬ (st.isEmpty = true ∨ (bitsOf st len).count true = 0) := by
        intro h; rcases h with h | h
        · exact hne (by simpa using h)
        · omega
      simp only [this, if_false, hrt]
      rfl
    have hspecL := sampleLoop_spec st rate ((bitsOf st len).count true) hrate st 0 0 [] (by simp) (by omega)
      ⟨by simp, by intro i hi; simp at hi⟩ (Or.inl (by simp [rawCum_zero]))
    rw [rawCum_zero] at hspecL
    obtain ⟨hG, _, hGpos⟩ := hspecL
    have hGne : 0 < (sampleLoop rate ((bitsOf st len).count true) st 0 0 0 []).length := by
      have := hGpos ⟨by omega, by have := rawCum_total_ge st len; omega⟩
      simpa using this
    generalize sampleLoop rate ((bitsOf st len).count true) st 0 0 0 [] = G at *
    rw [hbuild]
    -- the directory is non-empty
    obtain ⟨hL1, _⟩ := buildRank_lengths st len
    have hr1 : (mkBP simd st len (.csPoppy rate0)).rankL1 = (buildRank st len).1.toArray := by simp [mkBP, hne']
    have hguard : ¬ (j ≥ (bitsOf st len).count true ∨ (G.map f8).toArray.isEmpty = true ∨
        (mkBP simd st len (.csPoppy rate0)).rankL1.isEmpty = true) := by
      intro h
      rcases h with h | h | h
      · omega
      · have : G = [] := by simpa using h
        rw [this] at hGne; simp at hGne
      · rw [hr1] at h
        have : (buildRank st len).1 = [] := by simpa using h
        rw [this] at hL1; simp at hL1; omega
    rw [if_neg hguard]
    -- the word holding the j-th open
    have hTs : (bitsOf st len).count true = sumC st len 0 st.length := by
      rw [← hT]
      have : (mkBP simd st len (.csPoppy rate0)).totalOnes = (buildRank st len).2.2 := by simp [mkBP, hne']
      rw [this]
      exact (buildRank_spec st len (by omega)).2.2
    obtain ⟨w, hH⟩ := holds_exists_aux st len j st.length (Nat.le_refl _) (by omega)
    have hsize : (mkBP simd st len (.csPoppy rate0)).rankL1.size = (st.length + 7) / 8 := by
      rw [hr1]; simp [hL1]
    rw [hsize]
    obtain ⟨b1, b2, b3⟩ := cs_bracket st len rate j w G hrate hG hGne hH (by omega)
    exact csTail_eq simd st len _ j w _ _ hw hlen hH b1 b2 b3

end SV.BPR
