/-
Proof/JsonErrSurr — the positive half of finding F5: also the two surrogate-escape error kinds are
reported inside the longest viable prefix, unless the text before the reported offset lies in a
decidable syntactic class `f5Class` (an escape already committed to an unpaired surrogate).
-/
import SuccinctlyVerif.Proof.JsonErr
namespace SV.Json.Model
open SV.Json
set_option linter.unusedSimpArgs false
set_option linter.unusedVariables false

/-! ### the F5 class -/

def isDd (b : Byte) : Bool := b == 0x44 || b == 0x64                       -- 'D' / 'd'
def isCF (b : Byte) : Bool := isHex b && decide (12 ≤ hexVal b)            -- hex digit C..F
def is8B (b : Byte) : Bool := isHex b && decide (8 ≤ hexVal b) && decide (hexVal b ≤ 11)

/-- the reversed text begins with `x d u \`, i.e. the text ends with `\uD[C-F]` -/
def loneLowR : Bytes → Bool
  | x :: d :: u :: bs :: _ => bs == 0x5C && u == 0x75 && isDd d && isCF x
  | _ => false

/-- the reversed text begins with `u \ h h [8-B] D u \`, i.e. the text ends with `\uD[8-B]hh\u` -/
def highUR : Bytes → Bool
  | u' :: bs' :: d :: c :: b :: a :: u :: bs :: _ =>
    bs' == 0x5C && u' == 0x75 && isHex d && isHex c && is8B b && isDd a && u == 0x75 && bs == 0x5C
  | _ => false

/-- `t` ends with `\uD[C-F]` followed by 0–2 hex digits: an escape already committed to a lone low
surrogate. -/
def endsLoneLow (t : Bytes) : Bool :=
  loneLowR t.reverse
  || (match t.reverse with
      | h :: l => isHex h && loneLowR l
      | _ => false)
  || (match t.reverse with
      | h2 :: h1 :: l => isHex h2 && isHex h1 && loneLowR l
      | _ => false)

/-- `t` ends with `\uD[8-B]hh\u` followed by 1–4 hex digits that cannot begin a low surrogate
(first digit not `D`/`d`, or second digit not `C`–`F`). -/
def endsBadLow (t : Bytes) : Bool :=
  (match t.reverse with
    | a :: l => isHex a && !isDd a && highUR l
    | _ => false)
  || (match t.reverse with
      | b :: a :: l => isHex b && isHex a && !(isDd a && isCF b) && highUR l
      | _ => false)
  || (match t.reverse with
      | c :: b :: a :: l => isHex c && isHex b && isHex a && !(isDd a && isCF b) && highUR l
      | _ => false)
  || (match t.reverse with
      | d :: c :: b :: a :: l =>
        isHex d && isHex c && isHex b && isHex a && !(isDd a && isCF b) && highUR l
      | _ => false)

/-- The F5 class, a decidable predicate on the text before the reported offset. -/
def f5Class (t : Bytes) : Bool := endsLoneLow t || endsBadLow t

-- `"\uD800A`
example : f5Class [0x22, 0x5C, 0x75, 0x44, 0x38, 0x30, 0x30, 0x5C, 0x75, 0x30, 0x30, 0x34, 0x31] = true := by
  decide
-- `"\uDC00`
example : f5Class [0x22, 0x5C, 0x75, 0x44, 0x43, 0x30, 0x30] = true := by decide
-- `"\uD800`
example : f5Class [0x22, 0x5C, 0x75, 0x44, 0x38, 0x30, 0x30] = false := by decide
-- `"\u12`
example : f5Class [0x22, 0x5C, 0x75, 0x31, 0x32] = false := by decide

/-! ### `f5Class` is a property of suffixes -/

theorem loneLowR_append {l : Bytes} (q : Bytes) (h : loneLowR l = true) :
    loneLowR (l ++ q) = true := by
  rcases l with _ | ⟨a, _ | ⟨b, _ | ⟨c, _ | ⟨d, l⟩⟩⟩⟩ <;> simp_all [loneLowR]

theorem highUR_append {l : Bytes} (q : Bytes) (h : highUR l = true) :
    highUR (l ++ q) = true := by
  rcases l with _ | ⟨a, _ | ⟨b, _ | ⟨c, _ | ⟨d, _ | ⟨e, _ | ⟨f, _ | ⟨g, _ | ⟨i, l⟩⟩⟩⟩⟩⟩⟩⟩ <;>
    simp_all [highUR]

theorem endsLoneLow_append (p : Bytes) {v : Bytes} (h : endsLoneLow v = true) :
    endsLoneLow (p ++ v) = true := by
  unfold endsLoneLow at h ⊢
  rw [List.reverse_append]
  generalize v.reverse = l at h
  generalize p.reverse = q
  simp only [Bool.or_eq_true] at h ⊢
  rcases h with (h | h) | h
  · exact Or.inl (Or.inl (loneLowR_append q h))
  · refine Or.inl (Or.inr ?_)
    rcases l with _ | ⟨a, l⟩
    · simp at h
    · simp only [Bool.and_eq_true] at h
      simp [h.1, loneLowR_append q h.2]
  · refine Or.inr ?_
    rcases l with _ | ⟨a, _ | ⟨b, l⟩⟩
    · simp at h
    · simp at h
    · simp only [Bool.and_eq_true] at h
      simp [h.1.1, h.1.2, loneLowR_append q h.2]

theorem endsBadLow_append (p : Bytes) {v : Bytes} (h : endsBadLow v = true) :
    endsBadLow (p ++ v) = true := by
  unfold endsBadLow at h ⊢
  rw [List.reverse_append]
  generalize v.reverse = l at h
  generalize p.reverse = q
  simp only [Bool.or_eq_true] at h ⊢
  rcases h with ((h | h) | h) | h
  · refine Or.inl (Or.inl (Or.inl ?_))
    rcases l with _ | ⟨a, l⟩
    · simp at h
    · simp only [Bool.and_eq_true] at h
      simp [h.1.1, h.1.2, highUR_append q h.2]
  · refine Or.inl (Or.inl (Or.inr ?_))
    rcases l with _ | ⟨a, _ | ⟨b, l⟩⟩
    · simp at h
    · simp at h
    · simp only [Bool.and_eq_true] at h
      simp [h.1.1.1, h.1.1.2, h.1.2, highUR_append q h.2]
  · refine Or.inl (Or.inr ?_)
    rcases l with _ | ⟨a, _ | ⟨b, _ | ⟨c, l⟩⟩⟩
    · simp at h
    · simp at h
    · simp at h
    · simp only [Bool.and_eq_true] at h
      simp [h.1.1.1.1, h.1.1.1.2, h.1.1.2, h.1.2, highUR_append q h.2]
  · refine Or.inr ?_
    rcases l with _ | ⟨a, _ | ⟨b, _ | ⟨c, _ | ⟨d, l⟩⟩⟩⟩
    · simp at h
    · simp at h
    · simp at h
    · simp at h
    · simp only [Bool.and_eq_true] at h
      simp [h.1.1.1.1.1, h.1.1.1.1.2, h.1.1.1.2, h.1.1.2, h.1.2, highUR_append q h.2]

theorem f5Class_append (p : Bytes) {v : Bytes} (h : f5Class v = true) :
    f5Class (p ++ v) = true := by
  unfold f5Class at h ⊢
  simp only [Bool.or_eq_true] at h ⊢
  rcases h with h | h
  · exact Or.inl (endsLoneLow_append p h)
  · exact Or.inr (endsBadLow_append p h)

theorem f5Class_suffix_false {p v : Bytes} (h : f5Class (p ++ v) = false) : f5Class v = false := by
  cases hv : f5Class v with
  | false => rfl
  | true => rw [f5Class_append p hv] at h; cases h

/-! ### hex-digit arithmetic -/

theorem hexVal_lt16 (b : Byte) : hexVal b < 16 := by
  unfold hexVal
  split
  · rename_i h; simp [isDigit] at h; obtain ⟨h1, h2⟩ := h; bv_omega
  · split
    · rename_i h; simp [isLowerHex] at h; obtain ⟨h1, h2⟩ := h; bv_omega
    · split
      · rename_i h; simp [isUpperHex] at h; obtain ⟨h1, h2⟩ := h; bv_omega
      · omega

theorem hexVal_eq13 {a : Byte} (ha : isHex a = true) : hexVal a = 13 ↔ isDd a = true := by
  simp only [isHex, isDigit, isLowerHex, isUpperHex, Bool.or_eq_true, Bool.and_eq_true,
    decide_eq_true_eq] at ha
  simp only [hexVal, isDd, isDigit, isLowerHex, isUpperHex, Bool.or_eq_true, Bool.and_eq_true,
    decide_eq_true_eq, beq_iff_eq]
  split
  · constructor
    · intro h; bv_omega
    · intro h; bv_omega
  · split
    · constructor
      · intro h; right; bv_omega
      · intro h; bv_omega
    · split
      · constructor
        · intro h; left; bv_omega
        · intro h; bv_omega
      · bv_omega

theorem isHighSurr_iff (n : Nat) : isHighSurr n = true ↔ (55296 ≤ n ∧ n ≤ 56319) := by
  simp [isHighSurr]
theorem isLowSurr_iff (n : Nat) : isLowSurr n = true ↔ (56320 ≤ n ∧ n ≤ 57343) := by
  simp [isLowSurr]
theorem is8B_iff (b : Byte) (hb : isHex b = true) :
    is8B b = true ↔ (8 ≤ hexVal b ∧ hexVal b ≤ 11) := by
  simp [is8B, hb]
theorem isCF_iff (b : Byte) (hb : isHex b = true) : isCF b = true ↔ 12 ≤ hexVal b := by
  simp [isCF, hb]

theorem highSurr_iff {a b c d : Byte} (ha : isHex a = true) (hb : isHex b = true) :
    isHighSurr (hex4 a b c d) = true ↔ (isDd a = true ∧ is8B b = true) := by
  have h1 := hexVal_lt16 a; have h2 := hexVal_lt16 b; have h3 := hexVal_lt16 c
  have h4 := hexVal_lt16 d
  rw [← hexVal_eq13 ha, isHighSurr_iff, is8B_iff b hb, hex4]
  omega

theorem lowSurr_iff {a b c d : Byte} (ha : isHex a = true) (hb : isHex b = true) :
    isLowSurr (hex4 a b c d) = true ↔ (isDd a = true ∧ isCF b = true) := by
  have h1 := hexVal_lt16 a; have h2 := hexVal_lt16 b; have h3 := hexVal_lt16 c
  have h4 := hexVal_lt16 d
  rw [← hexVal_eq13 ha, isLowSurr_iff, isCF_iff b hb, hex4]
  omega

theorem hex_0 : isHex (0x30 : Byte) = true := by decide
theorem hex_C : isHex (0x43 : Byte) = true := by decide
theorem hex_D : isHex (0x44 : Byte) = true := by decide
theorem isDd_D : isDd (0x44 : Byte) = true := by decide
theorem isCF_C : isCF (0x43 : Byte) = true := by decide
theorem isDd_0 : isDd (0x30 : Byte) = false := by decide
theorem isCF_0 : isCF (0x30 : Byte) = false := by decide

/-- four hex digits not spelling a low surrogate complete to an escape sequence -/
theorem esc_of_not_low {a b c d : Byte} (ha : isHex a = true) (hb : isHex b = true)
    (hc : isHex c = true) (hd : isHex d = true) (hn : (isDd a && isCF b) = false) :
    ∃ x, EscSeq ([0x5C, 0x75, a, b, c, d] ++ x) := by
  have hlow : isLowSurr (hex4 a b c d) = false := by
    cases h : isLowSurr (hex4 a b c d) with
    | false => rfl
    | true =>
      have := (lowSurr_iff (c := c) (d := d) ha hb).mp h
      simp [this.1, this.2] at hn
  cases hh : isHighSurr (hex4 a b c d) with
  | false => exact ⟨[], EscSeq.uni a b c d ha hb hc hd hh hlow⟩
  | true =>
    refine ⟨[0x5C, 0x75, 0x44, 0x43, 0x30, 0x30],
      EscSeq.pair a b c d 0x44 0x43 0x30 0x30 ha hb hc hd hex_D hex_C hex_0 hex_0 hh ?_⟩
    exact (lowSurr_iff hex_D hex_C).mpr ⟨isDd_D, isCF_C⟩

/-- the consumed text of an error inside the first `\\uXXXX` (fewer than 4 digits read) -/
theorem first_partial (ds : Bytes) (hall : ∀ h ∈ ds, isHex h = true) (hl : ds.length < 4) :
    f5Class ([0x5C, 0x75] ++ ds) = true ∨ ∃ x, EscSeq (([0x5C, 0x75] ++ ds) ++ x) := by
  match ds, hl, hall with
  | [], _, _ =>
    obtain ⟨x, hx⟩ := esc_of_not_low hex_0 hex_0 hex_0 hex_0 (by decide)
    exact Or.inr ⟨[0x30, 0x30, 0x30, 0x30] ++ x, by simpa using hx⟩
  | [a], _, hall =>
    have ha := hall a (by simp)
    obtain ⟨x, hx⟩ := esc_of_not_low ha hex_0 hex_0 hex_0 (by rw [isCF_0]; simp)
    exact Or.inr ⟨[0x30, 0x30, 0x30] ++ x, by simpa using hx⟩
  | [a, b], _, hall =>
    have ha := hall a (by simp); have hb := hall b (by simp)
    cases hn : (isDd a && isCF b) with
    | false =>
      obtain ⟨x, hx⟩ := esc_of_not_low ha hb hex_0 hex_0 hn
      exact Or.inr ⟨[0x30, 0x30] ++ x, by simpa using hx⟩
    | true =>
      simp only [Bool.and_eq_true] at hn
      exact Or.inl (by simp [f5Class, endsLoneLow, loneLowR, hn.1, hn.2])
  | [a, b, c], _, hall =>
    have ha := hall a (by simp); have hb := hall b (by simp); have hc := hall c (by simp)
    cases hn : (isDd a && isCF b) with
    | false =>
      obtain ⟨x, hx⟩ := esc_of_not_low ha hb hc hex_0 hn
      exact Or.inr ⟨[0x30] ++ x, by simpa using hx⟩
    | true =>
      simp only [Bool.and_eq_true] at hn
      exact Or.inl (by simp [f5Class, endsLoneLow, loneLowR, hn.1, hn.2, hc])

/-- a complete `\\uDCxx` (lone low surrogate) -/
theorem first_low {a b c d : Byte} (ha : isHex a = true) (hb : isHex b = true)
    (hc : isHex c = true) (hd : isHex d = true) (h : isLowSurr (hex4 a b c d) = true) :
    f5Class [0x5C, 0x75, a, b, c, d] = true := by
  have := (lowSurr_iff (c := c) (d := d) ha hb).mp h
  simp [f5Class, endsLoneLow, loneLowR, this.1, this.2, hc, hd]

/-- a high surrogate `\\uD8xx` followed by a spelled-out low surrogate -/
theorem high_then {a b c d : Byte} (ha : isHex a = true) (hb : isHex b = true)
    (hc : isHex c = true) (hd : isHex d = true) (h : isHighSurr (hex4 a b c d) = true)
    {a' b' c' d' : Byte} (ha' : isHex a' = true) (hb' : isHex b' = true)
    (hc' : isHex c' = true) (hd' : isHex d' = true) (hn : isDd a' = true ∧ isCF b' = true) :
    EscSeq [0x5C, 0x75, a, b, c, d, 0x5C, 0x75, a', b', c', d'] :=
  EscSeq.pair a b c d a' b' c' d' ha hb hc hd ha' hb' hc' hd' h ((lowSurr_iff ha' hb').mpr hn)

/-- the consumed text of an error inside the second `\\uXXXX` (fewer than 4 digits read) -/
theorem second_partial {a b c d : Byte} (ha : isHex a = true) (hb : isHex b = true)
    (hc : isHex c = true) (hd : isHex d = true) (h : isHighSurr (hex4 a b c d) = true)
    (ds : Bytes) (hall : ∀ h ∈ ds, isHex h = true) (hl : ds.length < 4) :
    f5Class ([0x5C, 0x75, a, b, c, d, 0x5C, 0x75] ++ ds) = true ∨
      ∃ x, EscSeq (([0x5C, 0x75, a, b, c, d, 0x5C, 0x75] ++ ds) ++ x) := by
  have hh := (highSurr_iff (c := c) (d := d) ha hb).mp h
  match ds, hl, hall with
  | [], _, _ =>
    exact Or.inr ⟨[0x44, 0x43, 0x30, 0x30],
      high_then ha hb hc hd h hex_D hex_C hex_0 hex_0 ⟨isDd_D, isCF_C⟩⟩
  | [a'], _, hall =>
    have ha' := hall a' (by simp)
    cases hn : isDd a' with
    | true =>
      exact Or.inr ⟨[0x43, 0x30, 0x30], high_then ha hb hc hd h ha' hex_C hex_0 hex_0 ⟨hn, isCF_C⟩⟩
    | false =>
      exact Or.inl (by simp [f5Class, endsBadLow, highUR, hh.1, hh.2, hc, hd, ha', hn])
  | [a', b'], _, hall =>
    have ha' := hall a' (by simp); have hb' := hall b' (by simp)
    cases hn : (isDd a' && isCF b') with
    | true =>
      simp only [Bool.and_eq_true] at hn
      exact Or.inr ⟨[0x30, 0x30], high_then ha hb hc hd h ha' hb' hex_0 hex_0 hn⟩
    | false =>
      exact Or.inl (by simp [f5Class, endsBadLow, highUR, hh.1, hh.2, hc, hd, ha', hb', hn])
  | [a', b', c'], _, hall =>
    have ha' := hall a' (by simp); have hb' := hall b' (by simp); have hc' := hall c' (by simp)
    cases hn : (isDd a' && isCF b') with
    | true =>
      simp only [Bool.and_eq_true] at hn
      exact Or.inr ⟨[0x30], high_then ha hb hc hd h ha' hb' hc' hex_0 hn⟩
    | false =>
      exact Or.inl (by simp [f5Class, endsBadLow, highUR, hh.1, hh.2, hc, hd, ha', hb', hc', hn])

/-- a high surrogate followed by a complete `\\uXXXX` that is not a low surrogate -/
theorem second_notlow {a b c d : Byte} (ha : isHex a = true) (hb : isHex b = true)
    (hc : isHex c = true) (hd : isHex d = true) (h : isHighSurr (hex4 a b c d) = true)
    {a' b' c' d' : Byte} (ha' : isHex a' = true) (hb' : isHex b' = true)
    (hc' : isHex c' = true) (hd' : isHex d' = true) (hn : isLowSurr (hex4 a' b' c' d') = false) :
    f5Class [0x5C, 0x75, a, b, c, d, 0x5C, 0x75, a', b', c', d'] = true := by
  have hh := (highSurr_iff (c := c) (d := d) ha hb).mp h
  have hn' : (isDd a' && isCF b') = false := by
    cases h' : (isDd a' && isCF b') with
    | false => rfl
    | true =>
      simp only [Bool.and_eq_true] at h'
      rw [(lowSurr_iff ha' hb').mpr h'] at hn; cases hn
  simp [f5Class, endsBadLow, highUR, hh.1, hh.2, hc, hd, ha', hb', hc', hd', hn']

/-! ### errors of `hexDigits`: the digits consumed before failing -/

theorem hexDigits_errC : ∀ (k v : Nat) (s : St) (e : Err), hexDigits k v s = .err e →
    ∃ ds r, s.rest = ds ++ r ∧ (∀ h ∈ ds, isHex h = true) ∧ ds.length < k ∧
      e.offset = s.offset + ds.length := by
  intro k
  induction k with
  | zero => intro v s e h; simp [hexDigits] at h
  | succ k ih =>
    intro v s e h
    unfold hexDigits at h
    split at h
    · injection h with h; subst h
      exact ⟨[], s.rest, by simp, by simp, by simp, by simp [St.error]⟩
    · rename_i b hb
      obtain ⟨r, hr⟩ := peek_eq_some hb
      have ha := advance_cons hr
      have key : ∀ w, hexDigits k w s.advance = .err e → isHex b = true →
          ∃ ds r, s.rest = ds ++ r ∧ (∀ h ∈ ds, isHex h = true) ∧ ds.length < k + 1 ∧
            e.offset = s.offset + ds.length := by
        intro w hw hhex
        obtain ⟨ds, r', h1, hall, hl, ho⟩ := ih w s.advance e hw
        refine ⟨b :: ds, r', by rw [hr, ← ha.1, h1]; simp, ?_, by simp; omega,
          by rw [ho, ha.2.1]; simp; omega⟩
        intro h hh; simp at hh; rcases hh with rfl | hh
        · exact hhex
        · exact hall h hh
      split at h
      · rename_i hd; exact key _ h (by simp [isHex, hd])
      · split at h
        · rename_i hl; exact key _ h (by simp [isHex, hl])
        · split at h
          · rename_i hu; exact key _ h (by simp [isHex, hu])
          · injection h with h; subst h
            exact ⟨[], s.rest, by simp, by simp, by simp, by simp [St.error]⟩

/-! ### working form with the F5 alternative -/

/-- `e` is reported after consuming a prefix `v` of `s.rest` that either lies in the F5 class or is
completed into `P` by some `c`. -/
def ErrF (P : Bytes → Prop) (s : St) (e : Err) : Prop :=
  ∃ v r, s.rest = v ++ r ∧ e.offset = s.offset + v.length ∧
    (f5Class v = true ∨ ∃ c, P (v ++ c))

theorem ErrC.toF {P : Bytes → Prop} {s : St} {e : Err} (h : ErrC P s e) : ErrF P s e := by
  obtain ⟨v, r, c, h1, h2, h3⟩ := h
  exact ⟨v, r, h1, h2, Or.inr ⟨c, h3⟩⟩

theorem ErrF.shift {P Q : Bytes → Prop} {s s1 : St} {w : Bytes} {e : Err} (ha : Adv s w s1)
    (h : ErrF Q s1 e) (hPQ : ∀ x, Q x → P (w ++ x)) : ErrF P s e := by
  obtain ⟨v, r, h1, h2, h3⟩ := h
  refine ⟨w ++ v, r, by rw [ha.1, h1]; simp, by rw [h2, ha.2.1]; simp; omega, ?_⟩
  rcases h3 with h3 | ⟨c, h3⟩
  · exact Or.inl (f5Class_append w h3)
  · exact Or.inr ⟨c, by simpa using hPQ _ h3⟩

/-- an error reported `ds.length` bytes after a state reached by consuming `w` -/
theorem ErrF.after {P : Bytes → Prop} {s s1 : St} {w ds r : Bytes} {e : Err} (ha : Adv s w s1)
    (h1 : s1.rest = ds ++ r) (h2 : e.offset = s1.offset + ds.length)
    (h : f5Class (w ++ ds) = true ∨ ∃ c, P ((w ++ ds) ++ c)) : ErrF P s e :=
  ⟨w ++ ds, r, by rw [ha.1, h1]; simp, by rw [h2, ha.2.1]; simp; omega, h⟩

theorem ErrF.at {P : Bytes → Prop} {s s1 : St} {w : Bytes} {k : Kind} (ha : Adv s w s1)
    (h : f5Class w = true ∨ ∃ c, P (w ++ c)) : ErrF P s (s1.error k) :=
  ErrF.after (ds := []) (r := s1.rest) ha (by simp) (by simp [St.error]) (by simpa using h)

theorem escSeq_bs_n : EscSeq ([0x5C] ++ [0x6E]) := EscSeq.simple 0x6E (by decide)

/-- (a) an error of `validate_escape`: the consumed text is in the F5 class or completes to an
escape sequence -/
theorem escape_errF {s : St} {e : Err} (hp : s.peek = some 0x5C)
    (h : validateEscape s = .err e) : ErrF EscSeq s e := by
  obtain ⟨r, hr⟩ := peek_eq_some hp
  have a0 := adv_advance hr
  unfold validateEscape at h
  simp only at h
  split at h
  · injection h with h; subst h
    exact ErrF.at a0 (Or.inr ⟨[0x6E], escSeq_bs_n⟩)
  · rename_i c hc
    obtain ⟨r1, hr1⟩ := peek_eq_some hc
    have a1 := adv_advance hr1
    split at h
    · cases h
    · split at h
      · rename_i hcu
        subst hcu
        have A1 : Adv s [0x5C, 0x75] s.advance.advance := by simpa using a0.trans a1
        split at h
        · rename_i e2 h2
          injection h with h; subst h
          obtain ⟨ds, r', g1, hall, hl, ho⟩ := hexDigits_errC 4 0 _ _ h2
          exact ErrF.after A1 g1 ho (first_partial ds hall hl)
        · cases h
        · rename_i high s2 h2
          obtain ⟨a, b, c, d, ha, hb, hc', hd, adv2, hv⟩ := unicodeEscape_sound h2
          have A2 : Adv s [0x5C, 0x75, a, b, c, d] s2 := by simpa using A1.trans adv2
          split at h
          · rename_i hhigh
            have hH : isHighSurr (hex4 a b c d) = true := by
              rw [← hv]; simp [isHighSurr]; exact hhigh
            split at h
            · injection h with h; subst h
              exact ErrF.at A2 (Or.inr ⟨[0x5C, 0x75, 0x44, 0x43, 0x30, 0x30],
                high_then ha hb hc' hd hH hex_D hex_C hex_0 hex_0 ⟨isDd_D, isCF_C⟩⟩)
            · rename_i hp2
              have hp2' : s2.peek = some 0x5C := by simpa using hp2
              obtain ⟨r2, hr2⟩ := peek_eq_some hp2'
              have a2 := adv_advance hr2
              have A3 : Adv s [0x5C, 0x75, a, b, c, d, 0x5C] s2.advance := by
                simpa using A2.trans a2
              split at h
              · injection h with h; subst h
                exact ErrF.at A3 (Or.inr ⟨[0x75, 0x44, 0x43, 0x30, 0x30],
                  high_then ha hb hc' hd hH hex_D hex_C hex_0 hex_0 ⟨isDd_D, isCF_C⟩⟩)
              · rename_i hp3
                have hp3' : s2.advance.peek = some 0x75 := by simpa using hp3
                obtain ⟨r3, hr3⟩ := peek_eq_some hp3'
                have a3 := adv_advance hr3
                have A4 : Adv s [0x5C, 0x75, a, b, c, d, 0x5C, 0x75] s2.advance.advance := by
                  simpa using A3.trans a3
                split at h
                · rename_i e5 h5
                  injection h with h; subst h
                  obtain ⟨ds, r', g1, hall, hl, ho⟩ := hexDigits_errC 4 0 _ _ h5
                  exact ErrF.after A4 g1 ho (second_partial ha hb hc' hd hH ds hall hl)
                · cases h
                · rename_i low s5 h5
                  obtain ⟨a', b', c'', d', ha', hb', hc'', hd', adv5, hv'⟩ :=
                    unicodeEscape_sound h5
                  have A5 : Adv s [0x5C, 0x75, a, b, c, d, 0x5C, 0x75, a', b', c'', d'] s5 := by
                    simpa using A4.trans adv5
                  split at h
                  · rename_i hlow
                    injection h with h; subst h
                    refine ErrF.at A5 (Or.inl (second_notlow ha hb hc' hd hH ha' hb' hc'' hd' ?_))
                    rw [← hv']
                    cases hL : isLowSurr low with
                    | false => rfl
                    | true => exact absurd ((isLowSurr_iff low).mp hL) hlow
                  · cases h
          · rename_i hhigh
            split at h
            · rename_i hlow
              injection h with h; subst h
              refine ErrF.at A2 (Or.inl (first_low ha hb hc' hd ?_))
              rw [← hv]; exact (isLowSurr_iff high).mpr hlow
            · cases h
      · injection h with h; subst h
        exact ErrF.at a0 (Or.inr ⟨[0x6E], escSeq_bs_n⟩)

/-! ### (b) the string loop and `validate_string` -/

theorem stringLoop_errF : ∀ (f : Nat) (s : St) (e : Err), stringLoop f s = .err e →
    ErrF StrBody s e := by
  intro f
  induction f with
  | zero => intro s e h; simp [stringLoop] at h
  | succ f ih =>
    intro s e h
    unfold stringLoop at h
    split at h
    · injection h with h; subst h
      exact (ErrC.here [] StrBody.nil).toF
    · rename_i b hb
      obtain ⟨r, hr⟩ := peek_eq_some hb
      split at h
      · cases h
      · rename_i hq
        split at h
        · rename_i hbs
          subst hbs
          split at h
          · rename_i u1 s1 h1
            obtain ⟨esc, he, adv1⟩ := escape_sound hb h1
            exact ErrF.shift adv1 (ih s1 e h) (fun x hx => StrBody.ofEsc he hx)
          · rename_i x hne
            obtain ⟨v, r', g1, g2, g3⟩ := escape_errF hb h
            refine ⟨v, r', g1, g2, ?_⟩
            rcases g3 with g3 | ⟨c, g3⟩
            · exact Or.inl g3
            · exact Or.inr ⟨c, by simpa using StrBody.ofEsc g3 StrBody.nil⟩
        · rename_i hbs
          split at h
          · injection h with h; subst h
            exact (ErrC.here [] StrBody.nil).toF
          · rename_i hctl
            split at h
            · rename_i u1 s1 h1
              unfold validateUtf8Char at h1
              split at h1
              · cases h1
              · rename_i n hn
                injection h1 with _ h1; subst h1
                obtain ⟨c, r', hcr, hcl, hwf⟩ := utf8Len_sound _ _ hn
                obtain ⟨adv1, hrest⟩ := advanceN_adv c s r' hcr
                rw [hcl] at adv1
                refine ErrF.shift adv1 (ih _ e h) (fun x hx => StrBody.char c x ?_ hx)
                simp only [strCharOk, hwf, Bool.true_and]
                match c, hcr, hwf with
                | [a], hcr, _ =>
                  have : a = b := by rw [hr] at hcr; simp at hcr; exact hcr.1.symm
                  subst this
                  simp [hq, hbs]
                  exact ⟨⟨BitVec.not_lt.mp hctl, hq⟩, hbs⟩
                | [], _, hwf => simp [utf8Wf] at hwf
                | _ :: _ :: _, _, _ => rfl
            · rename_i x hne
              unfold validateUtf8Char at h
              split at h
              · injection h with h; subst h
                exact (ErrC.here [] StrBody.nil).toF
              · cases h

theorem string_errF {s : St} {e : Err} (hp : s.peek = some 0x22) (h : validateString s = .err e) :
    ErrF StringLit s e := by
  obtain ⟨r, hr⟩ := peek_eq_some hp
  have ha := advance_cons hr
  obtain ⟨v, r', h1, h2, h3⟩ := stringLoop_errF _ _ _ h
  refine ⟨0x22 :: v, r', ?_, ?_, ?_⟩
  · rw [hr, ← ha.1, h1]; simp
  · rw [h2, ha.2.1]; simp; omega
  · rcases h3 with h3 | ⟨c, h3⟩
    · exact Or.inl (f5Class_append [0x22] h3)
    · exact Or.inr ⟨c ++ [0x22], v ++ c, h3, by simp⟩

/-- outside the F5 class an error of `validate_string` leaves a completable string prefix -/
theorem string_err_f5 {b p : Bytes} {s : St} {e : Err} (hpos : Pos b p s)
    (hp : s.peek = some 0x22) (h : validateString s = .err e)
    (hc : f5Class (b.take e.offset) = false) : ErrAt StringLit s e := by
  obtain ⟨v, r, h1, h2, h3⟩ := string_errF hp h
  have htake : b.take e.offset = p ++ v := by
    rw [hpos.takeErr (by omega), h1]
    have : e.offset - s.offset = v.length := by omega
    rw [this]; simp
  rw [htake] at hc
  have hv := f5Class_suffix_false hc
  rcases h3 with h3 | ⟨c, h3⟩
  · rw [hv] at h3; cases h3
  · exact ErrC.errAt ⟨v, r, c, h1, h2, h3⟩

/-! ### (c) the value / array / object descent -/

theorem run_err_f5 (max : Nat) (b : Bytes) : ∀ (f : Nat) (mode : Mode) (s : St) (e : Err),
    run max f mode s = .err e → f5Class (b.take e.offset) = false → ∀ p, Pos b p s → RunCtx max mode p s →
    Viable max (b.take e.offset) := by
  intro f
  induction f with
  | zero => intro mode s e h; simp [run] at h
  | succ f ih =>
    intro mode s e h hk p hpos ctx
    cases mode with
    | value =>
      have ctx' : ∀ v, JValueAt (max - s.depth) v → Viable max (p ++ v) := ctx
      have hvp : Viable max p := ctx_viable ctx'
      unfold run at h
      split at h
      · injection h with h; subst h; exact err_at_state hpos hvp
      · rename_i c hc
        obtain ⟨r, hr⟩ := peek_eq_some hc
        split at h
        · -- object
          rename_i hcb
          subst hcb
          split at h
          · injection h with h; subst h; exact err_at_state hpos hvp
          · rename_i hdep
            obtain ⟨w, hw, c1, d1⟩ := enter_adv hr
            simp only at h
            have hmax : max - s.depth = (max - (s.depth + 1)) + 1 := by omega
            split at h
            · cases h
            · split at h
              · cases h
              · rename_i hne
                refine ih .objectLoop _ e h hk _ (hpos.step c1) ?_
                intro body hbody
                rw [d1] at hbody
                have := ctx' (0x7B :: ((w ++ body) ++ [0x7D])) (by
                  rw [hmax]
                  exact Or.inr (Or.inr (Or.inr (Or.inr ⟨w ++ body, members_prependWs hw hbody, rfl⟩))))
                simpa using this
        · split at h
          · -- array
            rename_i _ hcb
            subst hcb
            split at h
            · injection h with h; subst h; exact err_at_state hpos hvp
            · rename_i hdep
              obtain ⟨w, hw, c1, d1⟩ := enter_adv hr
              simp only at h
              have hmax : max - s.depth = (max - (s.depth + 1)) + 1 := by omega
              split at h
              · cases h
              · split at h
                · cases h
                · rename_i hne
                  refine ih .arrayLoop _ e h hk _ (hpos.step c1) ?_
                  intro body hbody
                  rw [d1] at hbody
                  have := ctx' (0x5B :: ((w ++ body) ++ [0x5D])) (by
                    rw [hmax]
                    exact Or.inr (Or.inr (Or.inl ⟨w ++ body, elems_prependWs hw hbody, rfl⟩)))
                  simpa using this
          · split at h
            · -- string
              rename_i _ _ hq
              subst hq
              exact errAt_viable hpos (string_err_f5 hpos hc h hk)
                (fun v hv => JValueAt.ofScalar (Or.inr (Or.inr (Or.inr (Or.inr hv)))) _) ctx'
            · split at h
              · exact errAt_viable hpos (number_err h)
                  (fun v hv => JValueAt.ofScalar (Or.inr (Or.inr (Or.inr (Or.inl hv)))) _) ctx'
              · split at h
                · rw [keyword_err h, hpos.take]; exact hvp
                · split at h
                  · injection h with h; subst h; exact err_at_state hpos hvp
                  · injection h with h; subst h; exact err_at_state hpos hvp
    | arrayLoop =>
      have ctx' : ∀ body, Elems (JValueAt (max - s.depth)) body →
          Viable max (p ++ (body ++ [0x5D])) := ctx
      unfold run at h
      split at h
      · rename_i u1 s1 h1
        obtain ⟨v, hv, a1⟩ := run_sound max _ _ _ _ _ h1
        obtain ⟨w2, hw2, a2, _⟩ := adv_skipWs s1
        have pos2 := hpos.step (a1.trans a2).cons
        have hv2 : Viable max (p ++ (v ++ w2)) := by
          have := ctx' _ (Elems.one [] v w2 ws_nil hv hw2)
          rw [← List.append_assoc] at this
          simpa using viable_prefix this
        simp only at h
        split at h
        · injection h with h; subst h; exact err_at_state pos2 hv2
        · rename_i c hc
          obtain ⟨r2, hr2⟩ := peek_eq_some hc
          have a3 := adv_advance hr2
          split at h
          · rename_i hcomma
            subst hcomma
            obtain ⟨w3, hw3, a4, _⟩ := adv_skipWs s1.skipWs.advance
            have A := a1.trans (a2.trans (a3.trans a4))
            have pos3 := hpos.step A.cons
            split at h
            · injection h with h; subst h
              refine err_at_state pos3 ?_
              have := ctx' _ (Elems.cons [] v w2 (w3 ++ [0x30]) ws_nil hv hw2
                (elems_prependWs hw3 (elems_zero _)))
              have e1 : p ++ (([] ++ (v ++ (w2 ++ 0x2C :: (w3 ++ [0x30])))) ++ [0x5D])
                  = (p ++ (v ++ (w2 ++ ([0x2C] ++ w3)))) ++ [0x30, 0x5D] := by simp
              rw [e1] at this
              exact viable_prefix this
            · refine ih .arrayLoop _ e h hk _ pos3 ?_
              intro body hbody
              rw [A.2.2] at hbody
              have := ctx' _ (Elems.cons [] v w2 (w3 ++ body) ws_nil hv hw2
                (elems_prependWs hw3 hbody))
              have e1 : p ++ (([] ++ (v ++ (w2 ++ 0x2C :: (w3 ++ body)))) ++ [0x5D])
                  = (p ++ (v ++ (w2 ++ ([0x2C] ++ w3)))) ++ (body ++ [0x5D]) := by simp
              rw [e1] at this
              exact this
          · split at h
            · cases h
            · injection h with h; subst h; exact err_at_state pos2 hv2
      · rename_i hne
        -- the element itself failed
        refine ih .value _ e h hk p hpos ?_
        intro v hv
        have := ctx' _ (Elems.one [] v [] ws_nil hv ws_nil)
        have e1 : p ++ (([] ++ (v ++ [])) ++ [0x5D]) = (p ++ v) ++ [0x5D] := by simp
        rw [e1] at this
        exact viable_prefix this
    | objectLoop =>
      have ctx' : ∀ body, Members (JValueAt (max - s.depth)) body →
          Viable max (p ++ (body ++ [0x7D])) := ctx
      have hvp : Viable max p := viable_prefix (ctx' _ (members_zero _))
      unfold run at h
      split at h
      · injection h with h; subst h; exact err_at_state hpos hvp
      · rename_i hq
        have hq' : s.peek = some 0x22 := by simpa using hq
        split at h
        · rename_i u1 s1 h1
          obtain ⟨k, hkey, a1⟩ := string_sound hq' h1
          obtain ⟨w2, hw2, a2, _⟩ := adv_skipWs s1
          have pos2 := hpos.step (a1.trans a2).cons
          simp only at h
          split at h
          · injection h with h; subst h
            refine err_at_state pos2 ?_
            have := ctx' _ (Members.one [] k w2 [] [0x30] [] ws_nil hkey hw2 ws_nil (jvalue_zero _) ws_nil)
            have e1 : p ++ (([] ++ (k ++ (w2 ++ 0x3A :: ([] ++ ([0x30] ++ []))))) ++ [0x7D])
                = (p ++ (k ++ w2)) ++ [0x3A, 0x30, 0x7D] := by simp
            rw [e1] at this
            exact viable_prefix this
          · rename_i hcolon
            have hcolon' : s1.skipWs.peek = some 0x3A := by simpa using hcolon
            obtain ⟨r2, hr2⟩ := peek_eq_some hcolon'
            have a3 := adv_advance hr2
            obtain ⟨w3, hw3, a4, _⟩ := adv_skipWs s1.skipWs.advance
            have A := a1.trans (a2.trans (a3.trans a4))
            have pos3 := hpos.step A.cons
            split at h
            · rename_i u4 s4 h4
              obtain ⟨v, hv, a5⟩ := run_sound max _ _ _ _ _ h4
              rw [A.2.2] at hv
              obtain ⟨w4, hw4, a6, _⟩ := adv_skipWs s4
              have B := A.trans (a5.trans a6)
              have pos5 := hpos.step B.cons
              have hv5 : Viable max (p ++ (k ++ (w2 ++ ([0x3A] ++ w3)) ++ (v ++ w4))) := by
                have := ctx' _ (Members.one [] k w2 w3 v w4 ws_nil hkey hw2 hw3 hv hw4)
                have e1 : p ++ (([] ++ (k ++ (w2 ++ 0x3A :: (w3 ++ (v ++ w4))))) ++ [0x7D])
                    = (p ++ (k ++ (w2 ++ ([0x3A] ++ w3)) ++ (v ++ w4))) ++ [0x7D] := by simp
                rw [e1] at this
                exact viable_prefix this
              split at h
              · injection h with h; subst h; exact err_at_state pos5 hv5
              · rename_i c hc
                obtain ⟨r5, hr5⟩ := peek_eq_some hc
                have a7 := adv_advance hr5
                split at h
                · rename_i hcomma
                  subst hcomma
                  obtain ⟨w5, hw5, a8, _⟩ := adv_skipWs s4.skipWs.advance
                  have C := B.trans (a7.trans a8)
                  have pos6 := hpos.step C.cons
                  split at h
                  · injection h with h; subst h
                    refine err_at_state pos6 ?_
                    have := ctx' _ (Members.cons [] k w2 w3 v w4 (w5 ++ [0x22, 0x22, 0x3A, 0x30]) ws_nil
                      hkey hw2 hw3 hv hw4 (members_prependWs hw5 (members_zero _)))
                    have e1 : p ++ (([] ++ (k ++ (w2 ++ 0x3A :: (w3 ++ (v ++ (w4 ++ 0x2C ::
                          (w5 ++ [0x22, 0x22, 0x3A, 0x30]))))))) ++ [0x7D])
                        = (p ++ (k ++ (w2 ++ ([0x3A] ++ w3)) ++ (v ++ w4) ++ ([0x2C] ++ w5)))
                          ++ [0x22, 0x22, 0x3A, 0x30, 0x7D] := by simp
                    rw [e1] at this
                    exact viable_prefix this
                  · refine ih .objectLoop _ e h hk _ pos6 ?_
                    intro body hbody
                    rw [C.2.2] at hbody
                    have := ctx' _ (Members.cons [] k w2 w3 v w4 (w5 ++ body) ws_nil
                      hkey hw2 hw3 hv hw4 (members_prependWs hw5 hbody))
                    have e1 : p ++ (([] ++ (k ++ (w2 ++ 0x3A :: (w3 ++ (v ++ (w4 ++ 0x2C ::
                          (w5 ++ body))))))) ++ [0x7D])
                        = (p ++ (k ++ (w2 ++ ([0x3A] ++ w3)) ++ (v ++ w4) ++ ([0x2C] ++ w5)))
                          ++ (body ++ [0x7D]) := by simp
                    rw [e1] at this
                    exact this
                · split at h
                  · cases h
                  · injection h with h; subst h; exact err_at_state pos5 hv5
            · rename_i hne
              -- the member value failed
              refine ih .value _ e h hk _ pos3 ?_
              intro v hv
              rw [A.2.2] at hv
              have := ctx' _ (Members.one [] k w2 w3 v [] ws_nil hkey hw2 hw3 hv ws_nil)
              have e1 : p ++ (([] ++ (k ++ (w2 ++ 0x3A :: (w3 ++ (v ++ []))))) ++ [0x7D])
                  = ((p ++ (k ++ (w2 ++ ([0x3A] ++ w3)))) ++ v) ++ [0x7D] := by simp
              rw [e1] at this
              exact viable_prefix this
        · rename_i hne
          -- the key failed
          have he := string_err_f5 hpos hq' h hk
          obtain ⟨h1, _, c, hc⟩ := he
          rw [hpos.takeErr h1]
          have := ctx' _ (Members.one [] _ [] [] [0x30] [] ws_nil hc ws_nil ws_nil (jvalue_zero _) ws_nil)
          have e1 : p ++ (([] ++ ((List.take (e.offset - s.offset) s.rest ++ c) ++
                ([] ++ 0x3A :: ([] ++ ([0x30] ++ []))))) ++ [0x7D])
              = (p ++ List.take (e.offset - s.offset) s.rest) ++ (c ++ [0x3A, 0x30, 0x7D]) := by simp
          rw [e1] at this
          exact viable_prefix this


/-- Positive half of F5: unless the text before the reported offset lies in the syntactic class
`f5Class` (its last escape is already committed to an unpaired surrogate), it extends to a valid
text – for every error kind, including `unpairedSurrogate` / `invalidUnicodeEscape`. -/
theorem validate_err_viable_f5 (max : Nat) (b : Bytes) (e : Err) (h : validate max b = .err e)
    (hc : f5Class (b.take e.offset) = false) : Viable max (b.take e.offset) := by
  obtain ⟨w1, hw1, a1, _⟩ := adv_skipWs (St.init b)
  have pos0 : Pos b [] (St.init b) := ⟨rfl, rfl⟩
  have pos1 := pos0.step a1.cons
  have hd : (St.init b).skipWs.depth = 0 := by simp [St.init]
  have ctx1 : ∀ v, JValueAt (max - (St.init b).skipWs.depth) v → Viable max (([] ++ w1) ++ v) := by
    intro v hv
    rw [hd] at hv
    exact valid_viable ⟨w1, v, [], hw1, hv, ws_nil, by simp⟩
  unfold validate at h
  simp only at h
  split at h
  · injection h with h; subst h
    exact err_at_state pos1 (ctx_viable ctx1)
  · split at h
    · rename_i u1 s1 h1
      obtain ⟨v, hv, a2⟩ := run_sound max _ _ _ _ _ h1
      rw [hd] at hv
      obtain ⟨w2, hw2, a3, _⟩ := adv_skipWs s1
      have pos3 := pos1.step (a2.trans a3).cons
      split at h
      · injection h with h; subst h
        refine err_at_state pos3 (valid_viable ⟨w1, v, w2, hw1, hv, hw2, by simp⟩)
      · cases h
    · rename_i hne
      exact run_err_f5 max b _ .value _ e h hc _ pos1 ctx1

end SV.Json.Model
