/-
Proof/EliasFanoPred — `EliasFano::predecessor` (binary search over `get`) equals the plain
left-to-right scan of `Spec/EliasFano`, and the declarative reading of that scan on sorted input.
-/
import SuccinctlyVerif.Spec.EliasFano
import SuccinctlyVerif.Model.EliasFano
namespace SV.EF
open SV

/-- `r` designates the last index of `vs` whose element is `≤ v` (`none`: there is none). -/
def LastLe (vs : List Nat) (v : Nat) : Option (Nat × Nat) → Prop
  | none => ∀ x ∈ vs, v < x
  | some (j, x) => vs[j]? = some x ∧ x ≤ v ∧ ∀ k y, vs[k]? = some y → j < k → v < y

theorem scanGo_spec (v : Nat) (xs : List Nat) : ∀ (i : Nat) (best : Option (Nat × Nat)),
    (EFSpec.predScanGo v xs i best = best ∧ ∀ x ∈ xs, v < x) ∨
    (∃ j x, EFSpec.predScanGo v xs i best = some (i + j, x) ∧ xs[j]? = some x ∧ x ≤ v ∧
      ∀ k y, xs[k]? = some y → j < k → v < y) := by
  induction xs with
  | nil => intro i best; left; simp [EFSpec.predScanGo]
  | cons a xs ih =>
    intro i best
    simp only [EFSpec.predScanGo]
    rcases ih (i+1) (if a ≤ v then some (i, a) else best) with ⟨h1, h2⟩ | ⟨j, x, h1, h2, h3, h4⟩
    · by_cases ha : a ≤ v
      · right
        refine ⟨0, a, ?_, by simp, ha, ?_⟩
        · rw [h1]; simp [ha]
        · intro k y hk hlt
          cases k with
          | zero => omega
          | succ k =>
            simp at hk
            exact h2 y (List.mem_of_getElem? hk)
      · left
        refine ⟨?_, ?_⟩
        · rw [h1]; simp [ha]
        · intro x hx
          simp at hx
          rcases hx with rfl | hx
          · omega
          · exact h2 x hx
    · right
      refine ⟨j+1, x, ?_, by simpa using h2, h3, ?_⟩
      · rw [h1]; congr 2; omega
      · intro k y hk hlt
        cases k with
        | zero => omega
        | succ k =>
          simp at hk
          exact h4 k y hk (by omega)

theorem scan_lastLe (vs : List Nat) (v : Nat) : LastLe vs v (EFSpec.predecessor vs v) := by
  unfold EFSpec.predecessor
  rcases scanGo_spec v vs 0 none with ⟨h1, h2⟩ | ⟨j, x, h1, h2, h3, h4⟩
  · rw [h1]; exact h2
  · rw [h1]; simp only [Nat.zero_add]; exact ⟨h2, h3, h4⟩

theorem lastLe_unique (vs : List Nat) (v : Nat) (r₁ r₂ : Option (Nat × Nat))
    (h₁ : LastLe vs v r₁) (h₂ : LastLe vs v r₂) : r₁ = r₂ := by
  have key : ∀ (j x : Nat), LastLe vs v none → LastLe vs v (some (j, x)) → False := by
    intro j x hn hsm
    have := hn x (List.mem_of_getElem? hsm.1)
    have := hsm.2.1
    omega
  match r₁, r₂, h₁, h₂ with
  | none, none, _, _ => rfl
  | none, some (j, x), h₁, h₂ => exact (key j x h₁ h₂).elim
  | some (j, x), none, h₁, h₂ => exact (key j x h₂ h₁).elim
  | some (j, x), some (j', x'), h₁, h₂ =>
    obtain ⟨a1, a2, a3⟩ := h₁
    obtain ⟨b1, b2, b3⟩ := h₂
    have hj : j = j' := by
      rcases Nat.lt_trichotomy j j' with h | h | h
      · have := a3 j' x' b1 h; omega
      · exact h
      · have := b3 j x a1 h; omega
    subst hj
    rw [a1] at b1
    cases b1
    rfl

theorem sorted_le (vs : List Nat) (hs : EFSpec.Sorted vs) (i j x y : Nat)
    (hi : vs[i]? = some x) (hj : vs[j]? = some y) (hij : i ≤ j) : x ≤ y := by
  rcases Nat.eq_or_lt_of_le hij with h | h
  · subst h; rw [hi] at hj; cases hj; exact Nat.le_refl _
  · obtain ⟨hil, rfl⟩ := List.getElem?_eq_some_iff.mp hi
    obtain ⟨hjl, rfl⟩ := List.getElem?_eq_some_iff.mp hj
    exact (List.pairwise_iff_getElem.mp hs) i j hil hjl h

/-- Loop invariant of the binary search. -/
theorem predLoop_spec (R : Nat) (ef : EliasFano) (vs : List Nat)
    (hget : ∀ i, get R ef i = some vs[i]?)
    (hs : EFSpec.Sorted vs) (v : Nat) :
    ∀ (fuel lo hi : Nat) (best : Option (Nat × Nat)),
      lo ≤ hi → hi ≤ vs.length → hi - lo < fuel →
      (∀ k y, vs[k]? = some y → hi ≤ k → v < y) →
      ((lo = 0 ∧ best = none) ∨
        (∃ x, 0 < lo ∧ vs[lo - 1]? = some x ∧ x ≤ v ∧ best = some (lo - 1, x))) →
      ∃ r, predLoop R ef v fuel lo hi best = some r ∧ LastLe vs v r := by
  intro fuel
  induction fuel with
  | zero => intro lo hi best _ _ h; omega
  | succ fuel ih =>
    intro lo hi best hlh hhl hf hhi hbest
    simp only [predLoop]
    by_cases hlt : lo < hi
    · simp only [hlt, if_true]
      have hmid : lo + (hi - lo) / 2 < vs.length := by omega
      rw [hget, List.getElem?_eq_getElem hmid]
      simp only []
      by_cases hle : vs[lo + (hi - lo) / 2] ≤ v
      · simp only [hle, if_true]
        apply ih
        · omega
        · exact hhl
        · omega
        · exact hhi
        · right
          refine ⟨vs[lo + (hi - lo) / 2], by omega, ?_, hle, ?_⟩
          · simp [List.getElem?_eq_getElem hmid]
          · simp
      · simp only [hle, if_false]
        apply ih
        · omega
        · omega
        · omega
        · intro k y hk hmk
          have := sorted_le vs hs _ k _ y (List.getElem?_eq_getElem hmid) hk hmk
          omega
        · exact hbest
    · simp only [hlt, if_false]
      refine ⟨best, rfl, ?_⟩
      have hEq : lo = hi := by omega
      subst hEq
      rcases hbest with ⟨h0, rfl⟩ | ⟨x, hpos, hx, hxv, rfl⟩
      · intro x hx
        obtain ⟨k, hk, rfl⟩ := List.getElem_of_mem hx
        exact hhi k _ (List.getElem?_eq_getElem hk) (by omega)
      · exact ⟨hx, hxv, fun k y hk hlk => hhi k y hk (by omega)⟩

/-- A. The binary search equals the linear scan. -/
theorem predecessor_eq_scan (R : Nat) (ef : EliasFano) (vs : List Nat)
    (hlen : ef.len = vs.length) (hget : ∀ i, get R ef i = some vs[i]?)
    (hs : EFSpec.Sorted vs) (v : Nat) :
    predecessor R ef v = some (EFSpec.predecessor vs v) := by
  unfold predecessor
  obtain ⟨r, hr, hl⟩ := predLoop_spec R ef vs hget hs v (ef.len + 1) 0 ef.len none
    (Nat.zero_le _) (by omega) (by omega)
    (fun k y hk hlk => by
      have := (List.getElem?_eq_some_iff.mp hk).1
      omega)
    (Or.inl ⟨rfl, rfl⟩)
  rw [hr, lastLe_unique vs v _ _ hl (scan_lastLe vs v)]

/-- B1. The scan finds nothing iff every element is `> v`. -/
theorem predScan_none_iff (vs : List Nat) (v : Nat) :
    EFSpec.predecessor vs v = none ↔ ∀ x ∈ vs, v < x := by
  constructor
  · intro h
    have := scan_lastLe vs v
    rw [h] at this
    exact this
  · intro h
    exact lastLe_unique vs v _ none (scan_lastLe vs v) h

/-- B2. On a sorted sequence the scan returns the last index holding the largest element `≤ v`. -/
theorem predScan_some (vs : List Nat) (hs : EFSpec.Sorted vs) (v i x : Nat)
    (h : EFSpec.predecessor vs v = some (i, x)) :
    vs[i]? = some x ∧ x ≤ v ∧
    (∀ j y : Nat, vs[j]? = some y → y ≤ v → y ≤ x) ∧
    (∀ j : Nat, vs[j]? = some x → j ≤ i) := by
  have hl := scan_lastLe vs v
  rw [h] at hl
  obtain ⟨h1, h2, h3⟩ := hl
  refine ⟨h1, h2, ?_, ?_⟩
  · intro j y hj hyv
    have hji : j ≤ i := by
      apply Nat.le_of_not_lt
      intro hlt
      have := h3 j y hj hlt
      omega
    exact sorted_le vs hs j i y x hj h1 hji
  · intro j hj
    apply Nat.le_of_not_lt
    intro hlt
    have := h3 j x hj hlt
    omega

end SV.EF
