/-
Proof/JsonSimple — helper lemmas for C32 (SimpleJsonIndex navigation).
-/
import SuccinctlyVerif.Proof.Kernels
import SuccinctlyVerif.Proof.JsonSemi
import SuccinctlyVerif.Props.C05
import SuccinctlyVerif.Model.JsonSimple
import SuccinctlyVerif.Spec.JsonSimple
namespace SV.JsonSimple
open SV SV.JsonSemi SV.JsonText

/-! ### pack round trip -/

theorem wordBits_packWord (bs : List Bool) (h : bs.length ≤ 64) :
    wordBits (packWord bs) = bs ++ List.replicate (64 - bs.length) false := by
  apply List.ext_getElem
  · simp [wordBits]; omega
  · intro i h1 h2
    simp only [wordBits, List.length_map, List.length_range] at h1
    simp only [wordBits, List.getElem_map, List.getElem_range, getLsbD_packWord, h1, decide_true,
      Bool.true_and, List.getD_eq_getElem?_getD]
    by_cases hi : i < bs.length
    · simp [List.getElem_append_left hi, hi]
    · have : bs[i]? = none := List.getElem?_eq_none (by omega)
      simp [this, List.getElem_append_right (Nat.le_of_not_lt hi)]

theorem allBits_cons (w : BitVec 64) (ws : List (BitVec 64)) : allBits (w :: ws) = wordBits w ++ allBits ws := by
  simp [allBits]

theorem wordBits_length (w : BitVec 64) : (wordBits w).length = 64 := by simp [wordBits]

/-- All bits of `packN k bs` are `bs` zero-padded to `64 k` bits (when `bs` fits). -/
theorem allBits_packN (k : Nat) (bs : List Bool) (h : bs.length ≤ 64 * k) :
    allBits (packN k bs) = bs ++ List.replicate (64 * k - bs.length) false := by
  induction k generalizing bs with
  | zero =>
    have : bs = [] := List.eq_nil_of_length_eq_zero (by omega)
    subst this; simp [packN, allBits]
  | succ k ih =>
    rw [packN, allBits_cons, wordBits_packWord _ (by simp [List.length_take]; omega)]
    by_cases h64 : 64 ≤ bs.length
    · rw [ih (bs.drop 64) (by simp [List.length_drop]; omega)]
      have h1 : (bs.take 64).length = 64 := by simp [List.length_take]; omega
      have h2 : 64 * k - (bs.drop 64).length = 64 * (k + 1) - bs.length := by
        simp [List.length_drop]; omega
      rw [h1, h2]
      simp only [Nat.sub_self, List.replicate_zero, List.append_nil]
      rw [← List.append_assoc, List.take_append_drop]
    · have h1 : bs.take 64 = bs := List.take_of_length_le (by omega)
      have h2 : bs.drop 64 = [] := List.drop_eq_nil_of_le (by omega)
      rw [h1, h2, ih [] (by simp)]
      simp only [List.length_nil, Nat.sub_zero, List.nil_append, List.append_assoc,
        List.replicate_append_replicate]
      congr 2; omega

/-- Reading back the first `len` bits of the packed words gives the bit list. -/
theorem bitsOf_pack (bs : List Bool) : bitsOf (pack bs) bs.length = bs := by
  rw [bitsOf, pack, allBits_packN _ _ (by omega)]
  simp

theorem count_allBits (ws : List (BitVec 64)) : (allBits ws).count true = (ws.map popc).sum := by
  induction ws with
  | nil => simp [allBits]
  | cons w ws ih => rw [allBits_cons, List.count_append, ih]; simp [Kernels.popc_eq_popcount, popcount]

/-- The total popcount of the packed words is the number of set bits. -/
theorem sum_popc_pack (bs : List Bool) : ((pack bs).map popc).sum = bs.count true := by
  rw [← count_allBits, pack, allBits_packN _ _ (by omega), List.count_append]
  simp [List.count_replicate]

/-! ### select: `scan_select` + `select_in_word` = naive select over all bits -/

theorem selectB_append (b : Bool) (xs ys : List Bool) (k : Nat) :
    selectB b (xs ++ ys) k =
      if k < xs.count b then selectB b xs k else (selectB b ys (k - xs.count b)).map (· + xs.length) := by
  induction xs generalizing k with
  | nil => simp
  | cons x xs ih =>
    simp only [List.cons_append, selectB, List.count_cons, List.length_cons]
    by_cases hx : x = b
    · subst hx
      simp only [if_true, beq_self_eq_true]
      cases k with
      | zero => simp
      | succ k =>
        simp only [ih]
        by_cases hk : k < List.count x xs
        · have : k + 1 < List.count x xs + 1 := by omega
          simp [hk, this]
        · have : ¬ (k + 1 < List.count x xs + 1) := by omega
          simp only [hk, this, if_false, Option.map_map]
          have : k + 1 - (List.count x xs + 1) = k - List.count x xs := by omega
          rw [this]; cases selectB x ys (k - List.count x xs) <;> simp <;> omega
    · have hxb : (x == b) = false := by simpa using hx
      simp only [hx, if_false, hxb, ih]
      by_cases hk : k < List.count b xs
      · simp [hk]
      · simp only [hk, if_false, Bool.false_eq_true, Nat.add_zero, Option.map_map]
        congr 1

theorem selectB_lt_count (b : Bool) (xs : List Bool) (k : Nat) (h : k < xs.count b) :
    ∃ p, selectB b xs k = some p ∧ p < xs.length := by
  induction xs generalizing k with
  | nil => simp at h
  | cons x xs ih =>
    simp only [selectB]
    by_cases hx : x = b
    · subst hx
      simp only [if_true]
      cases k with
      | zero => exact ⟨0, rfl, by simp⟩
      | succ k =>
        obtain ⟨p, hp, hl⟩ := ih k (by simp at h; omega)
        exact ⟨p + 1, by simp [hp], by simp; omega⟩
    · simp only [hx, if_false]
      have hxb : (x == b) = false := by simpa using hx
      obtain ⟨p, hp, hl⟩ := ih k (by simpa [List.count_cons, hxb] using h)
      exact ⟨p + 1, by simp [hp], by simp; omega⟩

theorem selectB_ge_count (b : Bool) (xs : List Bool) (k : Nat) (h : xs.count b ≤ k) :
    selectB b xs k = none := by
  induction xs generalizing k with
  | nil => rfl
  | cons x xs ih =>
    simp only [selectB]
    by_cases hx : x = b
    · subst hx
      simp only [if_true]
      cases k with
      | zero => simp at h
      | succ k => simp [ih k (by simp at h; omega)]
    · have hxb : (x == b) = false := by simpa using hx
      simp [hx, ih k (by simpa [List.count_cons, hxb] using h)]

theorem scanScalar_ge (pc : BitVec 64 → Nat) (ws : List (BitVec 64)) (off rem i r : Nat)
    (h : scanScalar pc ws off rem = some (i, r)) : off ≤ i := by
  induction ws generalizing off rem with
  | nil => simp [scanScalar] at h
  | cons w ws ih =>
    simp only [scanScalar] at h
    by_cases hgt : pc w > rem
    · simp [hgt] at h; omega
    · simp only [hgt, if_false] at h
      have := ih _ _ h; omega

/-- `scan_scalar` followed by `select_in_word` on the crossing word. -/
def selScalar (ws : List (BitVec 64)) (off k : Nat) : Option Nat :=
  match scanScalar popc ws off k with
  | none => none
  | some (i, r) => some (i * 64 + selectInWordSpec (ws.getD (i - off) 0#64) r)

theorem selScalar_eq (ws : List (BitVec 64)) (off k : Nat) :
    selScalar ws off k = (selectB true (allBits ws) k).map (· + off * 64) := by
  induction ws generalizing off k with
  | nil => simp [selScalar, scanScalar, allBits, selectB]
  | cons w ws ih =>
    rw [allBits_cons, selectB_append]
    have hc : (wordBits w).count true = popc w := by rw [Kernels.popc_eq_popcount]; rfl
    rw [hc, wordBits_length]
    by_cases hk : k < popc w
    · have hgt : popc w > k := hk
      obtain ⟨p, hp, _⟩ := selectB_lt_count true (wordBits w) k (by rw [hc]; exact hk)
      simp [selScalar, scanScalar, hgt, selectInWordSpec, hp]; omega
    · have hgt : ¬ (popc w > k) := by omega
      have h := ih (off + 1) (k - popc w)
      have hm : ∀ o : Option Nat, (o.map (· + 64)).map (· + off * 64) = o.map (· + (off + 1) * 64) := by
        intro o; cases o <;> simp; omega
      simp only [selScalar, scanScalar, hgt, if_false] at h ⊢
      cases hsc : scanScalar popc ws (off + 1) (k - popc w) with
      | none =>
        rw [hsc] at h
        simp only [] at h ⊢
        rw [hm, ← h]
      | some ir =>
        obtain ⟨i, r⟩ := ir
        have hge := scanScalar_ge _ _ _ _ _ _ hsc
        rw [hsc] at h
        simp only [] at h ⊢
        rw [hm, ← h]
        have : i - off = (i - (off + 1)) + 1 := by omega
        simp only [this, List.getD_cons_succ]

/-! ### the block-skipping scan is the scalar scan -/

theorem scanScalar_append (pc : BitVec 64 → Nat) (a b : List (BitVec 64)) (off rem : Nat) :
    scanScalar pc (a ++ b) off rem =
      match scanScalar pc a off rem with
      | some r => some r
      | none => scanScalar pc b (off + a.length) (rem - (a.map pc).sum) := by
  induction a generalizing off rem with
  | nil => simp [scanScalar]
  | cons w a ih =>
    simp only [List.cons_append, scanScalar]
    by_cases hgt : pc w > rem
    · simp [hgt]
    · simp only [hgt, if_false, ih, List.length_cons, List.map_cons, List.sum_cons]
      have h1 : off + 1 + a.length = off + (a.length + 1) := by omega
      have h2 : rem - pc w - (a.map pc).sum = rem - (pc w + (a.map pc).sum) := by omega
      rw [h1, h2]

theorem scanScalar_none_le (pc : BitVec 64 → Nat) (a : List (BitVec 64)) (off rem : Nat)
    (h : scanScalar pc a off rem = none) : (a.map pc).sum ≤ rem := by
  induction a generalizing off rem with
  | nil => simp
  | cons w a ih =>
    simp only [scanScalar] at h
    by_cases hgt : pc w > rem
    · simp [hgt] at h
    · simp only [hgt, if_false] at h
      have := ih _ _ h
      simp only [List.map_cons, List.sum_cons]; omega

theorem scanBlocks_eq (pc : BitVec 64 → Nat) (B : Nat) (fuel : Nat) (ws : List (BitVec 64)) (idx rem : Nat) :
    scanBlocks pc B fuel ws idx rem = scanScalar pc ws idx rem := by
  induction fuel generalizing ws idx rem with
  | zero => rfl
  | succ fuel ih =>
    simp only [scanBlocks]
    by_cases hB : B ≤ ws.length
    · simp only [hB, if_true]
      have hsplit := scanScalar_append pc (ws.take B) (ws.drop B) idx rem
      rw [List.take_append_drop] at hsplit
      have hlen : (ws.take B).length = B := by simp [List.length_take]; omega
      by_cases htot : ((ws.take B).map pc).sum > rem
      · simp only [htot, if_true]
        rw [hsplit]
        cases hs : scanScalar pc (ws.take B) idx rem with
        | some r => rfl
        | none => have := scanScalar_none_le _ _ _ _ hs; omega
      · simp only [htot, if_false, ih]
        rw [hsplit, hlen]
        cases hs : scanScalar pc (ws.take B) idx rem with
        | none => rfl
        | some r =>
          -- impossible: a hit inside the block means its popcount exceeds `rem`
          exfalso
          have : ∀ (a : List (BitVec 64)) (off rem : Nat) r, scanScalar pc a off rem = some r →
              (a.map pc).sum > rem := by
            intro a
            induction a with
            | nil => intro off rem r h; simp [scanScalar] at h
            | cons w a iha =>
              intro off rem r h
              simp only [scanScalar] at h
              by_cases hgt : pc w > rem
              · simp only [List.map_cons, List.sum_cons]; omega
              · simp only [hgt, if_false] at h
                have := iha _ _ _ h
                simp only [List.map_cons, List.sum_cons]; omega
          exact htot (this _ _ _ _ hs)
    · simp only [hB, if_false]

theorem scanSelectWith_eq (pc : BitVec 64 → Nat) (B P : Nat) (ws : List (BitVec 64)) (rem : Nat) :
    scanSelectWith pc B P ws 0 rem = scanScalar pc ws 0 rem := by
  simp only [scanSelectWith]
  by_cases hz : 0 ≥ ws.length
  · have : ws = [] := List.eq_nil_of_length_eq_zero (by omega)
    subst this; simp [scanScalar]
  · simp only [hz, if_false, List.drop_zero, scanBlocks_eq]
    have hsplit := scanScalar_append pc (ws.take P) (ws.drop P) 0 rem
    rw [List.take_append_drop] at hsplit
    rw [hsplit]
    cases scanScalar pc (ws.take P) 0 rem with
    | some r => rfl
    | none => simp

/-- `ib_select1` of the model is the naive select over all bits, cut at `ib_len`. -/
theorem ibSelect1_eq (x : Index) (k : Nat) :
    ibSelect1 x k = (selectB true (allBits x.ib) k).bind fun p => if p < x.ibLen then some p else none := by
  have h := selScalar_eq x.ib 0 k
  simp only [selScalar, Nat.sub_zero, Nat.zero_mul, Nat.add_zero] at h
  simp only [ibSelect1, scanSelect, scanSelectWith_eq]
  cases hs : scanScalar popc x.ib 0 k with
  | none =>
    rw [hs] at h; simp only [] at h
    have : selectB true (allBits x.ib) k = none := by simpa using h.symm
    rw [this]; rfl
  | some ir =>
    obtain ⟨i, r⟩ := ir
    rw [hs] at h; simp only [] at h
    have : selectB true (allBits x.ib) k = some (i * 64 + selectInWordSpec (x.ib.getD i 0#64) r) := by
      simpa using h.symm
    rw [this]; rfl

/-! ### the index built by the library, in terms of the reference bit lists -/

/-- The simple-cursor reference writes two BP bits per set interest bit. -/
theorem srun_bp_length (s : SSt) (cs : List (BitVec 8)) :
    (srun s cs).bp.length = 2 * (srun s cs).ib.count true ∧ (srun s cs).ib.length = cs.length := by
  induction cs generalizing s with
  | nil => simp [srun]
  | cons c cs ih =>
    have := ih (sstep s c).1
    simp only [srun, List.length_append, List.length_cons, List.count_cons]
    cases s <;> simp only [sstep] <;> (repeat' split) <;> simp_all [Out.none] <;> omega

theorem build_eq (f : Bool) (json : List (BitVec 8)) :
    build f json = ⟨pack (sreference json).ib, json.length, pack (sreference json).bp,
      (sreference json).bp.length⟩ := by
  have h := (SV.Props.C05.library_index_is_reference f json).2.2.2.1
  simp only [build, h, sreferenceWords, countBpBits, sum_popc_pack]
  have := (srun_bp_length .inJson json).1
  simp only [sreference] at *
  congr 1; omega

/-- `structural_pos(k)` is the position of the `k`-th set interest bit of the reference index. -/
theorem structuralPos_build (f : Bool) (json : List (BitVec 8)) (k : Nat) :
    structuralPos (build f json) k = selectB true (sreference json).ib k := by
  rw [structuralPos, ibSelect1_eq, build_eq]
  simp only []
  have hlen : (sreference json).ib.length = json.length := (srun_bp_length .inJson json).2
  rw [pack, allBits_packN _ _ (by omega), selectB_append]
  by_cases hk : k < (sreference json).ib.count true
  · obtain ⟨p, hp, hl⟩ := selectB_lt_count true _ k hk
    simp [hk, hp]; omega
  · have h0 : selectB true (List.replicate (64 * (((sreference json).ib.length + 63) / 64) -
        (sreference json).ib.length) false) (k - (sreference json).ib.count true) = none :=
      selectB_ge_count _ _ _ (by simp [List.count_replicate])
    have h1 : selectB true (sreference json).ib k = none := selectB_ge_count true _ k (by omega)
    simp [hk, h0, h1]

theorem structuralCount_build (f : Bool) (json : List (BitVec 8)) :
    structuralCount (build f json) = (sreference json).ib.count true := by
  rw [structuralCount, build_eq]; simp only []; exact sum_popc_pack _

/-! ### the simple-cursor machine on token sequences -/

instance : DecidableEq (Semi SSt) := fun a b =>
  decidable_of_iff (a.ib = b.ib ∧ a.bp = b.bp ∧ a.st = b.st) (by cases a; cases b; simp)

/-- Bytes that leave the `InJson` state unchanged and emit nothing. -/
def quiet (b : BitVec 8) : Bool := !isOpen b && !isClose b && !isDelim b && !isQuote b
/-- Bytes that leave the `InString` state unchanged. -/
def inert (b : BitVec 8) : Bool := !isQuote b && !isBackslash b

theorem runG_quiet (bs : List (BitVec 8)) (h : ∀ b ∈ bs, quiet b = true) :
    runG sstep .inJson bs = ⟨List.replicate bs.length false, [], .inJson⟩ := by
  induction bs with
  | nil => rfl
  | cons b bs ih =>
    have hb := h b (by simp)
    simp only [quiet, Bool.and_eq_true, Bool.not_eq_true'] at hb
    have hs : sstep .inJson b = (.inJson, Out.none) := by simp [sstep, hb.1.1.1, hb.1.1.2, hb.1.2, hb.2]
    simp [runG, hs, ih (fun x hx => h x (by simp [hx])), Out.none, List.replicate_succ]

theorem runG_inert (bs : List (BitVec 8)) (h : ∀ b ∈ bs, inert b = true) :
    runG sstep .inString bs = ⟨List.replicate bs.length false, [], .inString⟩ := by
  induction bs with
  | nil => rfl
  | cons b bs ih =>
    have hb := h b (by simp)
    simp only [inert, Bool.and_eq_true, Bool.not_eq_true'] at hb
    have hs : sstep .inString b = (.inString, Out.none) := by simp [sstep, hb.1, hb.2]
    simp [runG, hs, ih (fun x hx => h x (by simp [hx])), Out.none, List.replicate_succ]

theorem number_byte_quiet : ∀ b : BitVec 8, isNumberByte b = true → quiet b = true := by decide

theorem digit_number_byte : ∀ d : Fin 10, isNumberByte (Digit.byte d) = true := by decide
theorem digit1_number_byte : ∀ d : Fin 9, isNumberByte (BitVec.ofNat 8 (0x31 + d.val)) = true := by decide
theorem hex_inert : ∀ v : Fin 16, ∀ u : Bool, inert (HexDigit.byte ⟨v, u⟩) = true := by decide

theorem num_bytes_number (n : NumLit) : ∀ b ∈ n.bytes, isNumberByte b = true := by
  intro b hb
  simp only [NumLit.bytes, List.mem_append] at hb
  rcases hb with ((hb | hb) | hb) | hb
  · cases hn : n.neg <;> simp [hn] at hb; subst hb; decide
  · cases hi : n.int with
    | zero => simp [hi, IntPart.bytes] at hb; subst hb; decide
    | nonzero d rest =>
      simp only [hi, IntPart.bytes, List.mem_cons, List.mem_map] at hb
      rcases hb with hb | ⟨x, _, hx⟩
      · subst hb; exact digit1_number_byte d
      · subst hx; exact digit_number_byte x
  · cases hf : n.frac with
    | none => simp [hf] at hb
    | some p =>
      obtain ⟨d, ds⟩ := p
      simp only [hf, List.mem_cons, List.mem_map] at hb
      rcases hb with hb | hb | ⟨x, _, hx⟩
      · subst hb; decide
      · subst hb; exact digit_number_byte d
      · subst hx; exact digit_number_byte x
  · cases he : n.exp with
    | none => simp [he] at hb
    | some e =>
      simp only [he, Exp.bytes, List.mem_cons, List.mem_append, List.mem_map] at hb
      rcases hb with hb | (hb | hb | ⟨x, _, hx⟩)
      · subst hb; cases e.upper <;> decide
      · cases hs : e.sign with
        | none => simp [hs] at hb
        | some s => cases s <;> simp [hs] at hb <;> subst hb <;> decide
      · subst hb; exact digit_number_byte e.first
      · subst hx; exact digit_number_byte x

/-- The BP bits a token contributes in the simple-cursor encoding. -/
def tokBp : Tok → List Bool
  | .lbrace | .lbracket => [true, true]
  | .rbrace | .rbracket => [false, false]
  | .comma | .colon => [false, true]
  | _ => []

def toksBp (ts : List Tok) : List Bool := ts.flatMap tokBp

theorem schar_bytes_run (c : SChar) :
    runG sstep .inString c.bytes = ⟨List.replicate c.bytes.length false, [], .inString⟩ := by
  cases c with
  | plain b =>
    obtain ⟨b, h1, h2, _⟩ := b
    have : sstep .inString b = (.inString, Out.none) := by
      simp [sstep, isQuote, isBackslash, h1, h2]
    simp [SChar.bytes, runG, this, Out.none]
  | esc e => cases e <;> decide
  | uni h1 h2 h3 h4 =>
    have hi : ∀ h : HexDigit, inert h.byte = true := fun h => hex_inert h.val h.upper
    have hrun := runG_inert [h1.byte, h2.byte, h3.byte, h4.byte] (by
      intro b hb; simp at hb; rcases hb with rfl | rfl | rfl | rfl <;> exact hi _)
    have hpre : runG sstep .inString [0x5C#8, 0x75#8] = ⟨[false, false], [], .inString⟩ := by decide
    show runG sstep .inString ([0x5C#8, 0x75#8] ++ [h1.byte, h2.byte, h3.byte, h4.byte]) = _
    rw [runG_append, hpre, hrun]; rfl

theorem body_bytes_run (body : List SChar) :
    runG sstep .inString (body.flatMap SChar.bytes) =
      ⟨List.replicate (body.flatMap SChar.bytes).length false, [], .inString⟩ := by
  induction body with
  | nil => rfl
  | cons c cs ih =>
    simp only [List.flatMap_cons, runG_append, schar_bytes_run, ih, List.length_append,
      List.append_nil, List.replicate_append_replicate]

def tokTags (t : Tok) : List Bool :=
  if t.structural then [true] else List.replicate t.bytes.length false

theorem tok_run (t : Tok) : runG sstep .inJson t.bytes = ⟨tokTags t, tokBp t, .inJson⟩ := by
  cases t with
  | lbrace => decide
  | rbrace => decide
  | lbracket => decide
  | rbracket => decide
  | comma => decide
  | colon => decide
  | ws w => cases w <;> decide
  | lit l => cases l <;> decide
  | num n =>
    have := runG_quiet n.bytes (fun b hb => number_byte_quiet b (num_bytes_number n b hb))
    simpa [tokTags, Tok.structural, Tok.bytes, tokBp] using this
  | str body =>
    have hq : sstep .inJson 0x22#8 = (.inString, Out.none) := by decide
    have hq2 : sstep .inString 0x22#8 = (.inJson, Out.none) := by decide
    simp only [Tok.bytes, runG, hq, runG_append, body_bytes_run, hq2, tokTags, Tok.structural,
      tokBp, Out.none]
    have aux : ∀ n : Nat, false :: (List.replicate n false ++ [false]) =
        List.replicate (n + 1 + 1) false := by
      intro n; rw [← List.replicate_succ', ← List.replicate_succ]
    simpa using aux _

theorem toks_run (ts : List Tok) :
    runG sstep .inJson (toksBytes ts) = ⟨toksTags ts, toksBp ts, .inJson⟩ := by
  induction ts with
  | nil => rfl
  | cons t ts ih =>
    simp only [toksBytes, List.flatMap_cons] at ih ⊢
    rw [runG_append, tok_run]
    simp only [ih, toksTags, toksBp, List.flatMap_cons, tokTags]

/-- The reference simple-cursor index of a token sequence's text. -/
theorem sreference_toks (ts : List Tok) :
    (sreference (toksBytes ts)).ib = toksTags ts ∧ (sreference (toksBytes ts)).bp = toksBp ts ∧
      (sreference (toksBytes ts)).st = .inJson := by
  rw [sreference, srun_eq_runG, toks_run]; exact ⟨rfl, rfl, rfl⟩

/-! ### select as indexing into the list of set positions -/

theorem selectB_truePositions (bs : List Bool) (k : Nat) :
    selectB true bs k = (truePositions bs)[k]? := by
  induction bs generalizing k with
  | nil => simp [selectB, truePositions]
  | cons b bs ih =>
    cases b with
    | true =>
      simp only [selectB, truePositions, if_true]
      cases k with
      | zero => simp
      | succ k => simp [ih, List.getElem?_map]
    | false =>
      simp [selectB, truePositions, ih, List.getElem?_map]

theorem truePositions_length_le (bs : List Bool) : (truePositions bs).length ≤ bs.length := by
  induction bs with
  | nil => simp [truePositions]
  | cons b bs ih => cases b <;> simp [truePositions] <;> omega

theorem structuralPositionsLoop_eq (x : Index) (L : List Nat) (h : ∀ k, structuralPos x k = L[k]?) :
    ∀ fuel k, L.length < fuel + k → structuralPositionsLoop x fuel k = L.drop k := by
  intro fuel
  induction fuel with
  | zero => intro k hk; simp [structuralPositionsLoop]; omega
  | succ fuel ih =>
    intro k hk
    simp only [structuralPositionsLoop, h]
    by_cases hkl : k < L.length
    · rw [List.getElem?_eq_getElem hkl]
      simp only []
      rw [ih (k + 1) (by omega), List.drop_eq_getElem_cons hkl]
    · rw [List.getElem?_eq_none (by omega)]
      simp [List.drop_eq_nil_of_le (Nat.le_of_not_lt hkl)]

/-- The `structural_positions` iterator of the built index yields exactly the positions whose tag
is set, in increasing order. -/
theorem structuralPositions_build (f : Bool) (ts : List Tok) :
    structuralPositions (build f (toksBytes ts)) = truePositions (toksTags ts) := by
  have hib := (sreference_toks ts).1
  have hpos : ∀ k, structuralPos (build f (toksBytes ts)) k = (truePositions (toksTags ts))[k]? := by
    intro k; rw [structuralPos_build, hib, selectB_truePositions]
  have hlen : (toksTags ts).length = (toksBytes ts).length := by
    rw [← hib]; exact (srun_bp_length .inJson _).2
  rw [structuralPositions, structuralPositionsLoop_eq _ _ hpos _ 0 (by
    have := truePositions_length_le (toksTags ts)
    simp only [build_eq]; omega)]
  rfl

theorem truePositions_length (bs : List Bool) : (truePositions bs).length = bs.count true := by
  induction bs with
  | nil => simp [truePositions]
  | cons b bs ih => cases b <;> simp [truePositions, ih]

/-! ### rank: `structural_index` -/

theorem allBits_getElem? (ws : List (BitVec 64)) (p : Nat) :
    (allBits ws)[p]? = (ws[p / 64]?).map (·.getLsbD (p % 64)) := by
  induction ws generalizing p with
  | nil => simp [allBits]
  | cons w ws ih =>
    rw [allBits_cons]
    by_cases hp : p < 64
    · have h0 : p / 64 = 0 := by omega
      have h1 : p % 64 = p := by omega
      rw [List.getElem?_append_left (by simp [wordBits_length]; exact hp)]
      simp [h0, h1, wordBits, hp]
    · have h0 : p / 64 = (p - 64) / 64 + 1 := by omega
      have h1 : p % 64 = (p - 64) % 64 := by omega
      rw [List.getElem?_append_right (by simp [wordBits_length]; omega), wordBits_length, ih, h0, h1]
      simp

theorem wordBits_zero : wordBits 0#64 = List.replicate 64 false := by decide

theorem count_take_allBits (ws : List (BitVec 64)) (p : Nat) :
    ((allBits ws).take p).count true =
      ((ws.take (p / 64)).map popc).sum + ((wordBits (ws.getD (p / 64) 0#64)).take (p % 64)).count true := by
  induction ws generalizing p with
  | nil =>
    simp only [allBits, List.flatMap_nil, List.take_nil, List.count_nil, List.map_nil, List.sum_nil,
      List.getD_nil, wordBits_zero, Nat.zero_add]
    rw [List.take_replicate, List.count_replicate]; simp
  | cons w ws ih =>
    rw [allBits_cons]
    by_cases hp : p < 64
    · have h0 : p / 64 = 0 := by omega
      have h1 : p % 64 = p := by omega
      rw [List.take_append_of_le_length (by simp [wordBits_length]; omega)]
      simp [h0, h1]
    · have h0 : p / 64 = (p - 64) / 64 + 1 := by omega
      have h1 : p % 64 = (p - 64) % 64 := by omega
      rw [List.take_append, wordBits_length, List.take_of_length_le (by simp [wordBits_length]; omega),
        List.count_append, ih, h0, h1]
      have hc : (wordBits w).count true = popc w := by rw [Kernels.popc_eq_popcount]; rfl
      simp [hc]; omega

theorem mask_bits : ∀ b : Fin 64, ∀ i : Fin 64,
    ((1#64 <<< b.val) - 1#64).getLsbD i.val = decide (i.val < b.val) := by decide +kernel

theorem wordBits_and_mask (w : BitVec 64) (b : Nat) (hb : b < 64) :
    wordBits (w &&& ((1#64 <<< b) - 1#64)) = (wordBits w).take b ++ List.replicate (64 - b) false := by
  apply List.ext_getElem
  · simp [wordBits]; omega
  · intro i h1 h2
    simp only [wordBits, List.length_map, List.length_range] at h1
    have hm := mask_bits ⟨b, hb⟩ ⟨i, h1⟩
    simp only at hm
    simp only [wordBits, List.getElem_map, List.getElem_range, BitVec.getLsbD_and, hm]
    by_cases hi : i < b
    · rw [List.getElem_append_left (by simp [List.length_take]; omega)]
      simp [hi]
    · rw [List.getElem_append_right (by simp [List.length_take]; omega)]
      simp [hi]

theorem popc_and_mask (w : BitVec 64) (b : Nat) (hb : b < 64) :
    popc (w &&& ((1#64 <<< b) - 1#64)) = ((wordBits w).take b).count true := by
  rw [Kernels.popc_eq_popcount, popcount, wordBits_and_mask w b hb, List.count_append]
  simp [List.count_replicate]

theorem shift_and_one (w : BitVec 64) (b : Nat) :
    ((w >>> b) &&& 1#64 = 0#64) ↔ w.getLsbD b = false := by
  constructor
  · intro h
    have := congrArg (·.getLsbD 0) h
    simpa [BitVec.getLsbD_and, BitVec.getLsbD_ushiftRight] using this
  · intro h
    apply BitVec.eq_of_getLsbD_eq
    intro i hi
    simp only [BitVec.getLsbD_and, BitVec.getLsbD_ushiftRight, BitVec.getLsbD_one, BitVec.getLsbD_zero]
    by_cases h0 : i = 0
    · subst h0; simp [h]
    · simp [h0]

/-- `ib_rank1` is the number of set bits before `pos`, whenever `pos / 64` is a valid word index or
`pos % 64 = 0`. -/
theorem ibRank1_eq (x : Index) (pos : Nat) (h : pos / 64 < x.ib.length ∨ pos % 64 = 0) :
    ibRank1 x pos = ((allBits x.ib).take pos).count true := by
  rw [count_take_allBits]
  simp only [ibRank1]
  by_cases h0 : pos = 0
  · subst h0; simp
  · simp only [h0, if_false]
    by_cases hc : pos / 64 < x.ib.length ∧ pos % 64 > 0
    · simp only [hc, and_self, if_true]
      rw [popc_and_mask _ _ (Nat.mod_lt _ (by omega))]
    · simp only [hc, if_false]
      have : pos % 64 = 0 := by omega
      simp [this]

theorem getD_allBits_pack (bs : List Bool) (p : Nat) (hp : p < bs.length) :
    ((pack bs).getD (p / 64) 0#64).getLsbD (p % 64) = bs.getD p false := by
  have h := allBits_getElem? (pack bs) p
  rw [pack, allBits_packN _ _ (by omega), List.getElem?_append_left hp] at h
  have hl : p / 64 < (packN ((bs.length + 63) / 64) bs).length := by
    have : ∀ k xs, (packN k xs).length = k := by
      intro k; induction k with
      | zero => intro xs; rfl
      | succ k ih => intro xs; simp [packN, ih]
    rw [this]; omega
  rw [List.getElem?_eq_getElem hp, List.getElem?_eq_getElem hl] at h
  simp only [Option.map_some, Option.some.injEq] at h
  simp [pack, List.getD_eq_getElem?_getD, List.getElem?_eq_getElem hl, List.getElem?_eq_getElem hp, h]

theorem pack_length (bs : List Bool) : (pack bs).length = (bs.length + 63) / 64 := by
  have : ∀ k xs, (packN k xs).length = k := by
    intro k; induction k with
    | zero => intro xs; rfl
    | succ k ih => intro xs; simp [packN, ih]
  simp [pack, this]

/-- `structural_index(pos)` on the built index: the rank of `pos` among the set interest bits when
bit `pos` is set, `None` otherwise. -/
theorem structuralIndex_build (f : Bool) (json : List (BitVec 8)) (pos : Nat) :
    structuralIndex (build f json) pos =
      if (sreference json).ib.getD pos false then some (rankB true (sreference json).ib pos) else none := by
  have hlen : (sreference json).ib.length = json.length := (srun_bp_length .inJson json).2
  rw [build_eq]
  simp only [structuralIndex]
  by_cases hp : pos ≥ json.length
  · have : (sreference json).ib.getD pos false = false := by
      simp [List.getD_eq_getElem?_getD, List.getElem?_eq_none (by omega : (sreference json).ib.length ≤ pos)]
    rw [this]; simp [hp]
  · have hpl : pos < (sreference json).ib.length := by omega
    have hw : ¬ (pos / 64 ≥ (pack (sreference json).ib).length) := by rw [pack_length]; omega
    simp only [hp, hw, if_false]
    have hbit := getD_allBits_pack _ pos hpl
    by_cases hb : (sreference json).ib.getD pos false = true
    · have : ¬ ((pack (sreference json).ib).getD (pos / 64) 0#64 >>> (pos % 64) &&& 1#64 = 0#64) := by
        rw [shift_and_one, hbit, hb]; simp
      simp only [this, if_false, hb, if_true]
      rw [ibRank1_eq _ _ (Or.inl (by simp only []; rw [pack_length]; omega))]
      simp only []
      rw [pack, allBits_packN _ _ (by omega), List.take_append_of_le_length (by omega), rankB]
    · have hb' : (sreference json).ib.getD pos false = false := by simpa using hb
      have : ((pack (sreference json).ib).getD (pos / 64) 0#64 >>> (pos % 64) &&& 1#64 = 0#64) := by
        rw [shift_and_one, hbit, hb']
      rw [if_pos this, hb']; simp

/-! ### select and rank are inverse -/

theorem selectB_spec (bs : List Bool) (k p : Nat) (h : selectB true bs k = some p) :
    bs.getD p false = true ∧ rankB true bs p = k := by
  induction bs generalizing k p with
  | nil => simp [selectB] at h
  | cons b bs ih =>
    cases b with
    | true =>
      simp only [selectB, if_true] at h
      cases k with
      | zero => simp at h; subst h; simp [rankB]
      | succ k =>
        simp only [Option.map_eq_some_iff] at h
        obtain ⟨q, hq, rfl⟩ := h
        have := ih k q hq
        simp [rankB] at this ⊢
        exact this
    | false =>
      simp only [selectB, Bool.false_eq_true, if_false, Option.map_eq_some_iff] at h
      obtain ⟨q, hq, rfl⟩ := h
      have := ih k q hq
      simp [rankB] at this ⊢
      exact this

theorem selectB_rankB (bs : List Bool) (p : Nat) (h : bs.getD p false = true) :
    selectB true bs (rankB true bs p) = some p := by
  induction bs generalizing p with
  | nil => simp at h
  | cons b bs ih =>
    cases p with
    | zero =>
      have : b = true := by simpa using h
      subst this; simp [selectB, rankB]
    | succ p =>
      have h' : bs.getD p false = true := by simpa using h
      have := ih p h'
      cases b <;> simp [selectB, rankB] at this ⊢ <;> simp [this]

/-! ### balanced-parentheses shape of the simple-cursor code of a value -/

/-- `xs` is balanced and never dips more than `m` below its starting depth: a `find_close` scan at
depth `≥ m` passes over it with the depth unchanged. -/
def Pass (m : Nat) (xs : List Bool) : Prop :=
  ∀ (rest : List Bool) (i d : Nat), m ≤ d → BP.scanClose (xs ++ rest) i d = BP.scanClose rest (i + xs.length) d

theorem Pass.nil (m : Nat) : Pass m [] := by intro rest i d _; simp

theorem Pass.mono {m m' : Nat} {xs : List Bool} (h : Pass m xs) (hm : m ≤ m') : Pass m' xs :=
  fun rest i d hd => h rest i d (by omega)

theorem Pass.append {m : Nat} {xs ys : List Bool} (hx : Pass m xs) (hy : Pass m ys) : Pass m (xs ++ ys) := by
  intro rest i d hd
  rw [List.append_assoc, hx _ _ _ hd, hy _ _ _ hd, List.length_append, Nat.add_assoc]

theorem pass_delim : Pass 1 [false, true] := by
  intro rest i d hd
  have h0 : d ≠ 0 := by omega
  simp only [List.cons_append, List.nil_append, BP.scanClose, h0, if_false, List.length_cons, List.length_nil]
  have : d - 1 + 1 = d := by omega
  rw [this]

theorem pass_wrap {mid : List Bool} (h : Pass 1 mid) : Pass 0 (true :: true :: (mid ++ [false, false])) := by
  intro rest i d _
  simp only [List.cons_append, BP.scanClose, List.append_assoc]
  rw [h _ _ _ (by omega)]
  simp only [List.nil_append, BP.scanClose]
  have h1 : d + 1 + 1 ≠ 0 := by omega
  have h2 : d + 1 + 1 - 1 ≠ 0 := by omega
  simp only [h1, h2, if_false, List.length_cons, List.length_append, List.length_nil]
  have e1 : d + 1 + 1 - 1 - 1 = d := by omega
  have e2 : i + 1 + 1 + mid.length + 1 + 1 = i + (mid.length + (0 + 1 + 1) + 1 + 1) := by omega
  rw [e1, e2]

theorem toksBp_append (a b : List Tok) : toksBp (a ++ b) = toksBp a ++ toksBp b := by
  simp [toksBp]
theorem toksBp_cons (t : Tok) (ts : List Tok) : toksBp (t :: ts) = tokBp t ++ toksBp ts := by
  simp [toksBp]
theorem toksBp_nil : toksBp [] = [] := rfl
theorem toksBp_wsToks (w : Ws) : toksBp (wsToks w) = [] := by
  induction w with
  | nil => rfl
  | cons c cs ih => simp [wsToks, toksBp, tokBp] at ih ⊢

mutual
  theorem val_pass : ∀ v : JVal, Pass 0 (toksBp v.toks) ∧
      (v.isContainer = true → ∃ mid, toksBp v.toks = true :: true :: (mid ++ [false, false]) ∧ Pass 1 mid)
    | .lit l => ⟨by simpa [JVal.toks, toksBp, tokBp] using Pass.nil 0, by simp [JVal.isContainer]⟩
    | .num n => ⟨by simpa [JVal.toks, toksBp, tokBp] using Pass.nil 0, by simp [JVal.isContainer]⟩
    | .str b => ⟨by simpa [JVal.toks, toksBp, tokBp] using Pass.nil 0, by simp [JVal.isContainer]⟩
    | .arr0 ws => by
      have hd : toksBp (JVal.arr0 ws).toks = true :: true :: ([] ++ [false, false]) := by
        simp [JVal.toks, toksBp_cons, toksBp_append, toksBp_wsToks, toksBp_nil, tokBp]
      exact ⟨by rw [hd]; exact pass_wrap (Pass.nil 1), fun _ => ⟨[], hd, Pass.nil 1⟩⟩
    | .obj0 ws => by
      have hd : toksBp (JVal.obj0 ws).toks = true :: true :: ([] ++ [false, false]) := by
        simp [JVal.toks, toksBp_cons, toksBp_append, toksBp_wsToks, toksBp_nil, tokBp]
      exact ⟨by rw [hd]; exact pass_wrap (Pass.nil 1), fun _ => ⟨[], hd, Pass.nil 1⟩⟩
    | .arr ws0 v ws1 rest => by
      have hd : toksBp (JVal.arr ws0 v ws1 rest).toks =
          true :: true :: ((toksBp v.toks ++ toksBp rest.toks) ++ [false, false]) := by
        simp [JVal.toks, toksBp_cons, toksBp_append, toksBp_wsToks, toksBp_nil, tokBp]
      have hm : Pass 1 (toksBp v.toks ++ toksBp rest.toks) :=
        Pass.append ((val_pass v).1.mono (by omega)) (items_pass rest)
      exact ⟨by rw [hd]; exact pass_wrap hm, fun _ => ⟨_, hd, hm⟩⟩
    | .obj ws0 k ws1 ws2 v ws3 rest => by
      have hd : toksBp (JVal.obj ws0 k ws1 ws2 v ws3 rest).toks =
          true :: true :: (([false, true] ++ toksBp v.toks ++ toksBp rest.toks) ++ [false, false]) := by
        simp [JVal.toks, toksBp_cons, toksBp_append, toksBp_wsToks, toksBp_nil, tokBp]
      have hm : Pass 1 ([false, true] ++ toksBp v.toks ++ toksBp rest.toks) :=
        Pass.append (Pass.append pass_delim ((val_pass v).1.mono (by omega))) (members_pass rest)
      exact ⟨by rw [hd]; exact pass_wrap hm, fun _ => ⟨_, hd, hm⟩⟩
  theorem items_pass : ∀ r : JItems, Pass 1 (toksBp r.toks)
    | .nil => by simpa [JItems.toks, toksBp] using Pass.nil 1
    | .cons ws0 v ws1 rest => by
      have hd : toksBp (JItems.cons ws0 v ws1 rest).toks = [false, true] ++ toksBp v.toks ++ toksBp rest.toks := by
        simp [JItems.toks, toksBp_cons, toksBp_append, toksBp_wsToks, tokBp]
      rw [hd]
      exact Pass.append (Pass.append pass_delim ((val_pass v).1.mono (by omega))) (items_pass rest)
  theorem members_pass : ∀ r : JMembers, Pass 1 (toksBp r.toks)
    | .nil => by simpa [JMembers.toks, toksBp] using Pass.nil 1
    | .cons ws0 k ws1 ws2 v ws3 rest => by
      have hd : toksBp (JMembers.cons ws0 k ws1 ws2 v ws3 rest).toks =
          [false, true] ++ [false, true] ++ toksBp v.toks ++ toksBp rest.toks := by
        simp [JMembers.toks, toksBp_cons, toksBp_append, toksBp_wsToks, tokBp]
      rw [hd]
      exact Pass.append (Pass.append (Pass.append pass_delim pass_delim) ((val_pass v).1.mono (by omega)))
        (members_pass rest)
end

/-! ### `find_close` on a container in context -/

theorem scan_container (mid restB : List Bool) (i : Nat) (h : Pass 1 mid) :
    BP.scanClose (true :: (mid ++ [false, false]) ++ restB) i 0 = some (i + mid.length + 2) := by
  simp only [List.cons_append, List.append_assoc, BP.scanClose]
  rw [h _ _ _ (by omega)]
  simp [BP.scanClose]; omega

theorem findClose_container (pre mid post : List Bool) (h : Pass 1 mid) :
    BP.findClose (pre ++ (true :: true :: (mid ++ [false, false])) ++ post) pre.length =
      some (pre.length + mid.length + 3) := by
  have hget : (pre ++ (true :: true :: (mid ++ [false, false])) ++ post)[pre.length]? = some true := by
    rw [List.append_assoc, List.getElem?_append_right (Nat.le_refl _)]; simp
  have hdrop : (pre ++ (true :: true :: (mid ++ [false, false])) ++ post).drop (pre.length + 1) =
      true :: (mid ++ [false, false]) ++ post := by
    rw [List.append_assoc, List.drop_append]
    simp
  rw [BP.findClose, hget, if_pos rfl, hdrop, scan_container _ _ _ h]
  congr 1; omega

theorem select_last (ta tc tb : List Bool) :
    selectB true (ta ++ (tc ++ [true]) ++ tb) (ta.count true + tc.count true) = some (ta.length + tc.length) := by
  rw [List.append_assoc, selectB_append]
  have h1 : ¬ (ta.count true + tc.count true < ta.count true) := by omega
  simp only [h1, if_false, Nat.add_sub_cancel_left]
  rw [selectB_append]
  have h2 : tc.count true < (tc ++ [true]).count true := by simp
  simp only [h2, if_true]
  rw [selectB_append]
  simp [selectB]; omega

theorem tokTags_length (t : Tok) : (tokTags t).length = t.bytes.length := by
  cases t <;> simp [tokTags, Tok.structural, Tok.bytes]

theorem toksTags_eq (ts : List Tok) : toksTags ts = ts.flatMap tokTags := rfl

theorem toksTags_append (a b : List Tok) : toksTags (a ++ b) = toksTags a ++ toksTags b := by
  simp [toksTags]
theorem toksBytes_append (a b : List Tok) : toksBytes (a ++ b) = toksBytes a ++ toksBytes b := by
  simp [toksBytes]

theorem toksTags_length (ts : List Tok) : (toksTags ts).length = (toksBytes ts).length := by
  induction ts with
  | nil => rfl
  | cons t ts ih =>
    have := tokTags_length t
    simp only [toksTags, toksBytes, List.flatMap_cons, List.length_append] at ih ⊢
    simp only [tokTags] at this
    omega

theorem tokBp_length (t : Tok) : (tokBp t).length = 2 * (tokTags t).count true := by
  cases t <;> simp [tokBp, tokTags, Tok.structural, List.count_replicate]

theorem toksBp_length (ts : List Tok) : (toksBp ts).length = 2 * (toksTags ts).count true := by
  induction ts with
  | nil => rfl
  | cons t ts ih =>
    have ht := tokBp_length t
    rw [toksBp_cons, toksTags_eq, List.flatMap_cons, List.length_append, List.count_append,
      ← toksTags_eq, ht, ih]
    omega

/-- A container's token sequence is an open bracket, …, a close bracket. -/
theorem container_shape (c : JVal) (h : c.isContainer = true) :
    ∃ (o : Tok) (inner : List Tok) (cl : Tok), c.toks = o :: (inner ++ [cl]) ∧
      (o = .lbracket ∨ o = .lbrace) ∧ (cl = .rbracket ∨ cl = .rbrace) := by
  cases c with
  | lit l => simp [JVal.isContainer] at h
  | num n => simp [JVal.isContainer] at h
  | str b => simp [JVal.isContainer] at h
  | arr0 ws => exact ⟨_, _, _, rfl, Or.inl rfl, Or.inl rfl⟩
  | obj0 ws => exact ⟨_, _, _, rfl, Or.inr rfl, Or.inr rfl⟩
  | arr ws0 v ws1 rest => exact ⟨_, _, _, rfl, Or.inl rfl, Or.inl rfl⟩
  | obj ws0 k ws1 ws2 v ws3 rest => exact ⟨_, _, _, rfl, Or.inr rfl, Or.inr rfl⟩

theorem open_tok_bytes (o : Tok) (ho : o = .lbracket ∨ o = .lbrace) :
    ∃ ob, o.bytes = [ob] ∧ (ob = 0x7B#8 ∨ ob = 0x5B#8) ∧ tokTags o = [true] := by
  rcases ho with rfl | rfl
  · exact ⟨0x5B#8, rfl, Or.inr rfl, rfl⟩
  · exact ⟨0x7B#8, rfl, Or.inl rfl, rfl⟩

theorem close_tok_bytes (cl : Tok) (h : cl = .rbracket ∨ cl = .rbrace) :
    cl.bytes.length = 1 ∧ tokTags cl = [true] := by
  rcases h with rfl | rfl <;> exact ⟨rfl, rfl⟩

/-- `find_close` at the open bracket of a container `c` occurring anywhere in a token sequence
returns the position of `c`'s own close bracket. -/
theorem findClose_in_context (f : Bool) (A B : List Tok) (c : JVal) (hc : c.isContainer = true) :
    findClose (build f (toksBytes (A ++ c.toks ++ B))) (toksBytes (A ++ c.toks ++ B)) (toksBytes A).length =
      some ((toksBytes A).length + (toksBytes c.toks).length - 1) := by
  obtain ⟨o, inner, cl, htoks, ho, hcl⟩ := container_shape c hc
  obtain ⟨mid, hbp, hpass⟩ := (val_pass c).2 hc
  obtain ⟨ob, hob, hobv, hotag⟩ := open_tok_bytes o ho
  obtain ⟨hclb, hcltag⟩ := close_tok_bytes cl hcl
  -- shapes
  have hbytesC : toksBytes c.toks = ob :: (toksBytes inner ++ cl.bytes) := by
    rw [htoks]; simp [toksBytes, hob]
  have htagsC : toksTags c.toks = (true :: toksTags inner) ++ [true] := by
    rw [htoks, toksTags_eq]; simp [hotag, hcltag, toksTags_eq]
  have htext : toksBytes (A ++ c.toks ++ B) = toksBytes A ++ (ob :: (toksBytes inner ++ cl.bytes)) ++ toksBytes B := by
    rw [toksBytes_append, toksBytes_append, hbytesC]
  have htags : toksTags (A ++ c.toks ++ B) = toksTags A ++ ((true :: toksTags inner) ++ [true]) ++ toksTags B := by
    rw [toksTags_append, toksTags_append, htagsC]
  have hbpall : toksBp (A ++ c.toks ++ B) = toksBp A ++ (true :: true :: (mid ++ [false, false])) ++ toksBp B := by
    rw [toksBp_append, toksBp_append, hbp]
  have hlenA : (toksTags A).length = (toksBytes A).length := toksTags_length A
  have hlenI : (toksTags inner).length = (toksBytes inner).length := toksTags_length inner
  have hbpA : (toksBp A).length = 2 * (toksTags A).count true := toksBp_length A
  have hbpC : (toksBp c.toks).length = 2 * (toksTags c.toks).count true := toksBp_length c.toks
  rw [hbp, htagsC] at hbpC
  simp only [List.length_cons, List.length_append, List.count_append, List.count_cons, List.length_nil,
    List.count_nil, beq_self_eq_true, if_true] at hbpC
  have href := sreference_toks (A ++ c.toks ++ B)
  -- the steps of `find_close`
  have h1 : ¬ ((toksBytes A).length ≥ (toksBytes (A ++ c.toks ++ B)).length) := by
    rw [htext]; simp
  have h2 : (toksBytes (A ++ c.toks ++ B)).getD (toksBytes A).length 0#8 = ob := by
    rw [htext, List.append_assoc, List.getD_eq_getElem?_getD, List.getElem?_append_right (Nat.le_refl _)]
    simp
  have h3 : structuralIndex (build f (toksBytes (A ++ c.toks ++ B))) (toksBytes A).length =
      some ((toksTags A).count true) := by
    rw [structuralIndex_build, href.1, htags]
    have hg : (toksTags A ++ ((true :: toksTags inner) ++ [true]) ++ toksTags B).getD (toksBytes A).length false = true := by
      rw [← hlenA, List.append_assoc, List.getD_eq_getElem?_getD, List.getElem?_append_right (Nat.le_refl _)]
      simp
    rw [hg, if_pos rfl, rankB, ← hlenA, List.append_assoc, List.take_left']
    rfl
  have h4 : bpFindClose (build f (toksBytes (A ++ c.toks ++ B))) ((toksTags A).count true * 2) =
      some ((toksBp A).length + mid.length + 3) := by
    rw [bpFindClose, build_eq]
    simp only []
    rw [bitsOf_pack, href.2.1, hbpall]
    have : (toksTags A).count true * 2 = (toksBp A).length := by omega
    rw [this, findClose_container _ _ _ hpass]
  have h5 : ((toksBp A).length + mid.length + 3) / 2 =
      (toksTags A).count true + (true :: toksTags inner).count true := by
    simp only [List.count_cons, beq_self_eq_true, if_true]; omega
  have h6 : structuralPos (build f (toksBytes (A ++ c.toks ++ B)))
      ((toksTags A).count true + (true :: toksTags inner).count true) =
      some ((toksBytes A).length + (toksBytes c.toks).length - 1) := by
    rw [structuralPos_build, href.1, htags, select_last, hbytesC]
    simp only [List.length_cons, List.length_append]
    congr 1; omega
  simp only [findClose, h1, if_false, h2]
  have hne : ¬ (ob ≠ 0x7B#8 ∧ ob ≠ 0x5B#8) := by
    rcases hobv with rfl | rfl <;> simp
  simp only [hne, if_false, h3, h4, h5, h6]

/-! ### string, number and literal scanning -/

theorem prefix_step {a : BitVec 8} {xs text : List (BitVec 8)} {i : Nat} (h : (a :: xs) <+: text.drop i) :
    i < text.length ∧ text.getD i 0#8 = a ∧ xs <+: text.drop (i + 1) := by
  obtain ⟨t, ht⟩ := h
  have hi : i < text.length := by
    apply Classical.byContradiction; intro hn
    rw [List.drop_eq_nil_of_le (by omega)] at ht; simp at ht
  rw [List.drop_eq_getElem_cons hi] at ht
  simp only [List.cons_append, List.cons.injEq] at ht
  refine ⟨hi, ?_, ⟨t, ht.2⟩⟩
  simp [List.getD_eq_getElem?_getD, List.getElem?_eq_getElem hi, ht.1]

theorem prefix_append_left {xs ys text : List (BitVec 8)} {i : Nat} (h : (xs ++ ys) <+: text.drop i) :
    ys <+: text.drop (i + xs.length) := by
  obtain ⟨t, ht⟩ := h
  refine ⟨t, ?_⟩
  have := congrArg (List.drop xs.length) ht
  rw [List.append_assoc, List.drop_left', List.drop_drop] at this
  rw [this]; congr 1 <;> omega

theorem hex_not_special (h : HexDigit) : h.byte ≠ 0x22#8 ∧ h.byte ≠ 0x5C#8 := by
  have := hex_inert h.val h.upper
  simp only [inert, isQuote, isBackslash, Bool.and_eq_true, Bool.not_eq_true', beq_eq_false_iff_ne] at this
  exact this

/-- One loop iteration over a byte that is neither `"` nor `\`. -/
theorem string_step_plain {text : List (BitVec 8)} {i : Nat} {b : BitVec 8} {xs : List (BitVec 8)}
    (h : (b :: xs) <+: text.drop i) (h1 : b ≠ 0x22#8) (h2 : b ≠ 0x5C#8) (fuel : Nat) :
    findStringEndLoop text (fuel + 1) i = findStringEndLoop text fuel (i + 1) := by
  obtain ⟨hi, hg, _⟩ := prefix_step h
  simp only [findStringEndLoop, hi, if_true, hg, h1, h2, if_false]

theorem string_step_escape {text : List (BitVec 8)} {i : Nat} {xs : List (BitVec 8)}
    (h : (0x5C#8 :: xs) <+: text.drop i) (fuel : Nat) :
    findStringEndLoop text (fuel + 1) i = findStringEndLoop text fuel (i + 2) := by
  obtain ⟨hi, hg, _⟩ := prefix_step h
  have h1 : ¬ ((0x5C#8 : BitVec 8) = 0x22#8) := by decide
  simp only [findStringEndLoop, hi, if_true, hg, h1, if_false]

/-- `find_string_end`'s loop, started at the first body byte, stops at the closing quote. -/
theorem scan_body (body : List SChar) :
    ∀ (text : List (BitVec 8)) (i fuel : Nat),
      (body.flatMap SChar.bytes ++ [0x22#8]) <+: text.drop i →
      (body.flatMap SChar.bytes).length < fuel →
      findStringEndLoop text fuel i = i + (body.flatMap SChar.bytes).length := by
  induction body with
  | nil =>
    intro text i fuel h hf
    obtain ⟨hi, hg, _⟩ := prefix_step (by simpa using h)
    cases fuel with
    | zero => simp at hf
    | succ fuel => simp only [findStringEndLoop, hi, if_true, hg]; simp
  | cons c cs ih =>
    intro text i fuel h hf
    simp only [List.flatMap_cons, List.append_assoc, List.length_append] at h hf ⊢
    cases c with
    | plain b =>
      obtain ⟨b, h1, h2, _⟩ := b
      simp only [SChar.bytes, List.cons_append, List.nil_append, List.length_cons, List.length_nil] at h hf ⊢
      obtain ⟨fuel, rfl⟩ : ∃ f, fuel = f + 1 := ⟨fuel - 1, by omega⟩
      rw [string_step_plain h h1 h2, ih text (i + 1) fuel (prefix_step h).2.2 (by omega)]
      omega
    | esc e =>
      simp only [SChar.bytes, List.cons_append, List.nil_append, List.length_cons, List.length_nil] at h hf ⊢
      obtain ⟨fuel, rfl⟩ : ∃ f, fuel = f + 1 := ⟨fuel - 1, by omega⟩
      have h2 := (prefix_step (prefix_step h).2.2).2.2
      rw [string_step_escape h, ih text (i + 2) fuel h2 (by omega)]
      omega
    | uni h1 h2 h3 h4 =>
      simp only [SChar.bytes, List.cons_append, List.nil_append, List.length_cons, List.length_nil] at h hf ⊢
      obtain ⟨fuel, rfl⟩ : ∃ f, fuel = f + 5 := ⟨fuel - 5, by omega⟩
      have p2 := (prefix_step (prefix_step h).2.2).2.2
      have p3 := (prefix_step p2).2.2
      have p4 := (prefix_step p3).2.2
      have p5 := (prefix_step p4).2.2
      have p6 := (prefix_step p5).2.2
      rw [string_step_escape h,
        string_step_plain p2 (hex_not_special h1).1 (hex_not_special h1).2,
        string_step_plain p3 (hex_not_special h2).1 (hex_not_special h2).2,
        string_step_plain p4 (hex_not_special h3).1 (hex_not_special h3).2,
        string_step_plain p5 (hex_not_special h4).1 (hex_not_special h4).2,
        ih text (i + 2 + 1 + 1 + 1 + 1) fuel p6 (by omega)]
      omega

/-- `find_number_end`'s loop runs over number bytes and stops at the first other byte (or the end). -/
theorem scan_number (nb : List (BitVec 8)) :
    ∀ (text : List (BitVec 8)) (i fuel : Nat), nb <+: text.drop i →
      (∀ b ∈ nb, isNumberByte b = true) →
      (i + nb.length < text.length → isNumberByte (text.getD (i + nb.length) 0#8) = false) →
      nb.length < fuel →
      findNumberEndLoop text fuel i = i + nb.length := by
  induction nb with
  | nil =>
    intro text i fuel _ _ hnext hf
    obtain ⟨fuel, rfl⟩ : ∃ f, fuel = f + 1 := ⟨fuel - 1, by simp at hf; omega⟩
    simp only [List.length_nil, Nat.add_zero] at hnext ⊢
    by_cases hi : i < text.length
    · simp only [findNumberEndLoop, hi, if_true, hnext hi]; simp
    · simp only [findNumberEndLoop, hi, if_false]
  | cons b bs ih =>
    intro text i fuel h hall hnext hf
    obtain ⟨hi, hg, hrest⟩ := prefix_step h
    obtain ⟨fuel, rfl⟩ : ∃ f, fuel = f + 1 := ⟨fuel - 1, by simp at hf; omega⟩
    have hb := hall b (by simp)
    simp only [findNumberEndLoop, hi, if_true, hg, hb]
    rw [ih text (i + 1) fuel hrest (fun x hx => hall x (by simp [hx]))
      (by simpa [Nat.add_assoc, Nat.add_comm 1] using hnext) (by simp at hf; omega)]
    simp; omega

theorem matchesAt_of_prefix {lit text : List (BitVec 8)} {i : Nat} (h : lit <+: text.drop i)
    (hpos : 0 < lit.length) :
    matchesAt text i lit = true := by
  obtain ⟨t, ht⟩ := h
  have hlen : i + lit.length ≤ text.length := by
    have := congrArg List.length ht
    simp [List.length_drop] at this; omega
  simp only [matchesAt, Bool.and_eq_true, decide_eq_true_eq, beq_iff_eq]
  refine ⟨hlen, ?_⟩
  rw [← ht]; simp

/-! ### `skip_value` on a value in context -/

theorem getD_mid (pre : List (BitVec 8)) (b : BitVec 8) (post : List (BitVec 8)) :
    (pre ++ b :: post).getD pre.length 0#8 = b := by
  rw [List.getD_eq_getElem?_getD, List.getElem?_append_right (Nat.le_refl _)]; simp

theorem num_head (n : NumLit) : ∃ b0 rest, n.bytes = b0 :: rest ∧
    (b0 = 0x2D#8 ∨ (0x30 ≤ b0.toNat ∧ b0.toNat ≤ 0x39)) := by
  have hd1 : ∀ d : Fin 9, 0x30 ≤ (BitVec.ofNat 8 (0x31 + d.val)).toNat ∧ (BitVec.ofNat 8 (0x31 + d.val)).toNat ≤ 0x39 := by
    decide
  cases hn : n.neg
  · cases hi : n.int with
    | zero => exact ⟨0x30#8, _, by simp [NumLit.bytes, hn, hi, IntPart.bytes]; rfl, Or.inr (by decide)⟩
    | nonzero d rest =>
      exact ⟨_, _, by simp [NumLit.bytes, hn, hi, IntPart.bytes]; rfl, Or.inr (hd1 d)⟩
  · exact ⟨0x2D#8, _, by simp [NumLit.bytes, hn]; rfl, Or.inl rfl⟩

theorem number_first_byte : ∀ b : BitVec 8, (b = 0x2D#8 ∨ (0x30 ≤ b.toNat ∧ b.toNat ≤ 0x39)) →
    b ≠ 0x7B#8 ∧ b ≠ 0x5B#8 ∧ b ≠ 0x22#8 ∧ b ≠ 0x74#8 ∧ b ≠ 0x66#8 ∧ b ≠ 0x6E#8 := by decide

theorem drop_context (a v b : List (BitVec 8)) : (a ++ v ++ b).drop a.length = v ++ b := by
  rw [List.append_assoc, List.drop_left']; rfl

/-- `skip_value` at the first byte of a value `v` occurring anywhere in a token sequence returns the
position just after `v`'s last byte; for a number this needs the following byte (if any) not to be
one of `0-9 - + . e E` — in a document a number is followed by whitespace, `,`, `]`, `}` or the end. -/
theorem skipValue_in_context (f : Bool) (A B : List Tok) (v : JVal)
    (hnum : ∀ n, v = .num n → ∀ b, (toksBytes B).head? = some b → isNumberByte b = false) :
    skipValue (build f (toksBytes (A ++ v.toks ++ B))) (toksBytes (A ++ v.toks ++ B)) (toksBytes A).length =
      some ((toksBytes A).length + (toksBytes v.toks).length) := by
  have htext : toksBytes (A ++ v.toks ++ B) = toksBytes A ++ toksBytes v.toks ++ toksBytes B := by
    rw [toksBytes_append, toksBytes_append]
  have hdrop : (toksBytes (A ++ v.toks ++ B)).drop (toksBytes A).length = toksBytes v.toks ++ toksBytes B := by
    rw [htext, drop_context]
  have hpre : ∀ xs ys, toksBytes v.toks = xs ++ ys → xs <+: (toksBytes (A ++ v.toks ++ B)).drop (toksBytes A).length := by
    intro xs ys h; rw [hdrop, h]; exact ⟨ys ++ toksBytes B, by simp⟩
  by_cases hc : v.isContainer = true
  · -- containers
    have hfc := findClose_in_context f A B v hc
    obtain ⟨o, inner, cl, htoks, ho, hcl⟩ := container_shape v hc
    obtain ⟨ob, hob, hobv, _⟩ := open_tok_bytes o ho
    have hbytesV : toksBytes v.toks = ob :: (toksBytes inner ++ cl.bytes) := by
      rw [htoks]; simp [toksBytes, hob]
    obtain ⟨hi, hg, _⟩ := prefix_step (hpre [ob] _ (by rw [hbytesV]; rfl))
    have hlt : ¬ ((toksBytes A).length ≥ (toksBytes (A ++ v.toks ++ B)).length) := by omega
    have hor : ob = 0x7B#8 ∨ ob = 0x5B#8 := hobv
    simp only [skipValue, hlt, if_false, hg, hor, if_true, hfc]
    congr 1
    rw [hbytesV]; simp; omega
  · cases v with
    | arr0 ws => simp [JVal.isContainer] at hc
    | arr ws0 v ws1 rest => simp [JVal.isContainer] at hc
    | obj0 ws => simp [JVal.isContainer] at hc
    | obj ws0 k ws1 ws2 v ws3 rest => simp [JVal.isContainer] at hc
    | str body =>
      have hbytesV : toksBytes (JVal.str body).toks = 0x22#8 :: (body.flatMap SChar.bytes ++ [0x22#8]) := by
        simp [JVal.toks, toksBytes, Tok.bytes]
      have h0 := hpre _ [] (by rw [List.append_nil])
      rw [hbytesV] at h0
      obtain ⟨hi, hg, hrest⟩ := prefix_step h0
      have hlt : ¬ ((toksBytes A).length ≥ (toksBytes (A ++ (JVal.str body).toks ++ B)).length) := by omega
      have hlen : (body.flatMap SChar.bytes).length < (toksBytes (A ++ (JVal.str body).toks ++ B)).length + 1 := by
        rw [htext, hbytesV]; simp; omega
      have hscan := scan_body body _ ((toksBytes A).length + 1) _ hrest hlen
      have hne : ¬ ((0x22#8 : BitVec 8) = 0x7B#8 ∨ (0x22#8 : BitVec 8) = 0x5B#8) := by decide
      simp only [skipValue, hlt, if_false, hg, hne, if_true, findStringEnd, hscan]
      congr 1
      rw [hbytesV]; simp; omega
    | lit l =>
      have hbytesV : toksBytes (JVal.lit l).toks = l.bytes := by simp [JVal.toks, toksBytes, Tok.bytes]
      have h0 := hpre _ [] (by rw [List.append_nil])
      rw [hbytesV] at h0
      have hm := fun hp => matchesAt_of_prefix h0 hp
      rw [hbytesV]
      cases l with
      | tru =>
        obtain ⟨hi, hg, _⟩ := prefix_step (show (0x74#8 :: [0x72#8, 0x75#8, 0x65#8]) <+: _ from h0)
        have hlt : ¬ ((toksBytes A).length ≥ (toksBytes (A ++ (JVal.lit Lit.tru).toks ++ B)).length) := by omega
        have := hm (by decide)
        simp only [Lit.bytes] at this
        have e1 : ¬ ((0x74#8 : BitVec 8) = 0x7B#8 ∨ (0x74#8 : BitVec 8) = 0x5B#8) := by decide
        have e2 : ¬ ((0x74#8 : BitVec 8) = 0x22#8) := by decide
        simp only [skipValue, hlt, if_false, hg, e1, e2, if_true, litTrue, this, Lit.bytes]
        rfl
      | fls =>
        obtain ⟨hi, hg, _⟩ := prefix_step (show (0x66#8 :: [0x61#8, 0x6C#8, 0x73#8, 0x65#8]) <+: _ from h0)
        have hlt : ¬ ((toksBytes A).length ≥ (toksBytes (A ++ (JVal.lit Lit.fls).toks ++ B)).length) := by omega
        have := hm (by decide)
        simp only [Lit.bytes] at this
        have e1 : ¬ ((0x66#8 : BitVec 8) = 0x7B#8 ∨ (0x66#8 : BitVec 8) = 0x5B#8) := by decide
        have e2 : ¬ ((0x66#8 : BitVec 8) = 0x22#8) := by decide
        have e3 : ¬ ((0x66#8 : BitVec 8) = 0x74#8) := by decide
        simp only [skipValue, hlt, if_false, hg, e1, e2, e3, if_true, litFalse, this, Lit.bytes]
        rfl
      | null =>
        obtain ⟨hi, hg, _⟩ := prefix_step (show (0x6E#8 :: [0x75#8, 0x6C#8, 0x6C#8]) <+: _ from h0)
        have hlt : ¬ ((toksBytes A).length ≥ (toksBytes (A ++ (JVal.lit Lit.null).toks ++ B)).length) := by omega
        have := hm (by decide)
        simp only [Lit.bytes] at this
        have e1 : ¬ ((0x6E#8 : BitVec 8) = 0x7B#8 ∨ (0x6E#8 : BitVec 8) = 0x5B#8) := by decide
        have e2 : ¬ ((0x6E#8 : BitVec 8) = 0x22#8) := by decide
        have e3 : ¬ ((0x6E#8 : BitVec 8) = 0x74#8) := by decide
        have e4 : ¬ ((0x6E#8 : BitVec 8) = 0x66#8) := by decide
        simp only [skipValue, hlt, if_false, hg, e1, e2, e3, e4, if_true, litNull, this, Lit.bytes]
        rfl
    | num n =>
      have hbytesV : toksBytes (JVal.num n).toks = n.bytes := by simp [JVal.toks, toksBytes, Tok.bytes]
      have h0 := hpre _ [] (by rw [List.append_nil])
      rw [hbytesV] at h0
      obtain ⟨b0, rest, hb0, hkind⟩ := num_head n
      obtain ⟨hi, hg, _⟩ := prefix_step (show (b0 :: rest) <+: _ from hb0 ▸ h0)
      have hlt : ¬ ((toksBytes A).length ≥ (toksBytes (A ++ (JVal.num n).toks ++ B)).length) := by omega
      obtain ⟨n1, n2, n3, n4, n5, n6⟩ := number_first_byte b0 hkind
      have hnext : (toksBytes A).length + n.bytes.length < (toksBytes (A ++ (JVal.num n).toks ++ B)).length →
          isNumberByte ((toksBytes (A ++ (JVal.num n).toks ++ B)).getD ((toksBytes A).length + n.bytes.length) 0#8) = false := by
        intro hlt2
        rw [htext, hbytesV] at hlt2 ⊢
        have hBne : toksBytes B ≠ [] := by
          intro he; rw [he] at hlt2; simp at hlt2
        obtain ⟨b, bs, hB⟩ := List.exists_cons_of_ne_nil hBne
        have hget : (toksBytes A ++ n.bytes ++ toksBytes B).getD ((toksBytes A).length + n.bytes.length) 0#8 = b := by
          rw [hB, ← List.length_append]; exact getD_mid _ _ _
        rw [hget]
        exact hnum n rfl b (by rw [hB]; rfl)
      have hscan := scan_number n.bytes _ (toksBytes A).length
        ((toksBytes (A ++ (JVal.num n).toks ++ B)).length + 1) h0 (num_bytes_number n) hnext
        (by rw [htext, hbytesV]; simp; omega)
      have hor : b0 = 0x2D#8 ∨ (0x30 ≤ b0.toNat ∧ b0.toNat ≤ 0x39) := hkind
      simp only [skipValue, hlt, if_false, hg, n1, n2, n3, n4, n5, n6, false_or, hor, if_true,
        findNumberEnd, hscan, hbytesV]

/-! ### every sub-value occupies a token segment and is followed by a non-number byte -/

/-- The text of `ts` does not start with one of `0-9 - + . e E` (or is empty). -/
def SafeNext (ts : List Tok) : Prop := ∀ b, (toksBytes ts).head? = some b → isNumberByte b = false

theorem safe_nil : SafeNext [] := by intro b h; simp [toksBytes] at h

theorem safe_cons (t : Tok) (ts : List Tok) (b0 : BitVec 8) (rest : List (BitVec 8))
    (hb : t.bytes = b0 :: rest) (hn : isNumberByte b0 = false) : SafeNext (t :: ts) := by
  intro b h
  simp only [toksBytes, List.flatMap_cons, hb, List.cons_append, List.head?_cons, Option.some.injEq] at h
  rw [← h]; exact hn

theorem safe_comma (ts : List Tok) : SafeNext (.comma :: ts) := safe_cons _ _ _ _ rfl (by decide)
theorem safe_rbracket (ts : List Tok) : SafeNext (.rbracket :: ts) := safe_cons _ _ _ _ rfl (by decide)
theorem safe_rbrace (ts : List Tok) : SafeNext (.rbrace :: ts) := safe_cons _ _ _ _ rfl (by decide)

theorem safe_ws (w : Ws) (ts : List Tok) (h : SafeNext ts) : SafeNext (wsToks w ++ ts) := by
  cases w with
  | nil => simpa [wsToks] using h
  | cons c cs => cases c <;> exact safe_cons _ _ _ _ rfl (by decide)

theorem safe_items (rest : JItems) (ts : List Tok) : SafeNext (rest.toks ++ (Tok.rbracket :: ts)) := by
  cases rest with
  | nil => exact safe_rbracket ts
  | cons ws0 v ws1 r => exact safe_comma _

theorem safe_members (rest : JMembers) (ts : List Tok) : SafeNext (rest.toks ++ (Tok.rbrace :: ts)) := by
  cases rest with
  | nil => exact safe_rbrace ts
  | cons ws0 k ws1 ws2 v ws3 r => exact safe_comma _

theorem safe_items' (rest : JItems) (ts : List Tok) (h : SafeNext ts) : SafeNext (rest.toks ++ ts) := by
  cases rest with
  | nil => exact h
  | cons ws0 v ws1 r => exact safe_comma _

theorem safe_members' (rest : JMembers) (ts : List Tok) (h : SafeNext ts) : SafeNext (rest.toks ++ ts) := by
  cases rest with
  | nil => exact h
  | cons ws0 k ws1 ws2 v ws3 r => exact safe_comma _

/-- The occurrence `o` sits inside `whole`, and whatever safe text follows `whole`, the text
following the sub-value is safe. -/
def OccOK (whole : List Tok) (o : Occ) : Prop :=
  o.1 ++ o.2.1.toks ++ o.2.2 = whole ∧ ∀ outer, SafeNext outer → SafeNext (o.2.2 ++ outer)

theorem OccOK.self (v : JVal) : OccOK v.toks ([], v, []) := ⟨by simp, fun outer h => by simpa using h⟩

theorem OccOK.wrap {part whole pre post : List Tok} {o : Occ} (h : OccOK part o)
    (hw : pre ++ part ++ post = whole) (hs : ∀ outer, SafeNext outer → SafeNext (post ++ outer)) :
    OccOK whole (Occ.wrap pre post o) := by
  refine ⟨?_, ?_⟩
  · rw [← hw, ← h.1]; simp [Occ.wrap, List.append_assoc]
  · intro outer ho
    simp only [Occ.wrap, List.append_assoc]
    exact h.2 _ (hs outer ho)

mutual
  theorem val_occs : ∀ (v : JVal) (o : Occ), o ∈ v.occs → OccOK v.toks o
    | .lit l, o, h => by simp [JVal.occs] at h; subst h; exact OccOK.self _
    | .num n, o, h => by simp [JVal.occs] at h; subst h; exact OccOK.self _
    | .str b, o, h => by simp [JVal.occs] at h; subst h; exact OccOK.self _
    | .arr0 ws, o, h => by simp [JVal.occs] at h; subst h; exact OccOK.self _
    | .obj0 ws, o, h => by simp [JVal.occs] at h; subst h; exact OccOK.self _
    | .arr ws0 v ws1 rest, o, h => by
      simp only [JVal.occs, List.mem_cons, List.mem_append, List.mem_map] at h
      rcases h with rfl | ⟨o', ho', rfl⟩ | ⟨o', ho', rfl⟩
      · exact OccOK.self _
      · exact (val_occs v o' ho').wrap (by simp [JVal.toks, List.append_assoc]) (fun outer _ => by
          simp only [List.append_assoc]
          exact safe_ws _ _ (by simpa using safe_items rest outer))
      · exact (items_occs rest o' ho').wrap (by simp [JVal.toks, List.append_assoc]) (fun outer _ => by
          simpa using safe_rbracket outer)
    | .obj ws0 k ws1 ws2 v ws3 rest, o, h => by
      simp only [JVal.occs, List.mem_cons, List.mem_append, List.mem_map] at h
      rcases h with rfl | ⟨o', ho', rfl⟩ | ⟨o', ho', rfl⟩
      · exact OccOK.self _
      · exact (val_occs v o' ho').wrap (by simp [JVal.toks, List.append_assoc]) (fun outer _ => by
          simp only [List.append_assoc]
          exact safe_ws _ _ (by simpa using safe_members rest outer))
      · exact (members_occs rest o' ho').wrap (by simp [JVal.toks, List.append_assoc]) (fun outer _ => by
          simpa using safe_rbrace outer)
  theorem items_occs : ∀ (r : JItems) (o : Occ), o ∈ r.occs → OccOK r.toks o
    | .nil, o, h => by simp [JItems.occs] at h
    | .cons ws0 v ws1 rest, o, h => by
      simp only [JItems.occs, List.mem_append, List.mem_map] at h
      rcases h with ⟨o', ho', rfl⟩ | ⟨o', ho', rfl⟩
      · exact (val_occs v o' ho').wrap (by simp [JItems.toks, List.append_assoc]) (fun outer ho => by
          simp only [List.append_assoc]
          exact safe_ws _ _ (safe_items' rest outer ho))
      · exact (items_occs rest o' ho').wrap (by simp [JItems.toks, List.append_assoc]) (fun outer ho => by
          simpa using ho)
  theorem members_occs : ∀ (r : JMembers) (o : Occ), o ∈ r.occs → OccOK r.toks o
    | .nil, o, h => by simp [JMembers.occs] at h
    | .cons ws0 k ws1 ws2 v ws3 rest, o, h => by
      simp only [JMembers.occs, List.mem_append, List.mem_map] at h
      rcases h with ⟨o', ho', rfl⟩ | ⟨o', ho', rfl⟩
      · exact (val_occs v o' ho').wrap (by simp [JMembers.toks, List.append_assoc]) (fun outer ho => by
          simp only [List.append_assoc]
          exact safe_ws _ _ (safe_members' rest outer ho))
      · exact (members_occs rest o' ho').wrap (by simp [JMembers.toks, List.append_assoc]) (fun outer ho => by
          simpa using ho)
end

/-- Every value of a document occupies a token segment of `d.toks` and is followed by text that
does not start with a number byte. -/
theorem doc_occs (d : Doc) (o : Occ) (h : o ∈ d.occs) :
    d.toks = o.1 ++ o.2.1.toks ++ o.2.2 ∧ SafeNext o.2.2 := by
  simp only [Doc.occs, List.mem_map] at h
  obtain ⟨o', ho', rfl⟩ := h
  have := (val_occs d.value o' ho').wrap (pre := wsToks d.ws0) (post := wsToks d.ws1) (whole := d.toks)
    (by simp [Doc.toks]) (fun outer ho => safe_ws _ _ ho)
  refine ⟨this.1.symm, ?_⟩
  have h2 := this.2 [] safe_nil
  simpa using h2

end SV.JsonSimple
