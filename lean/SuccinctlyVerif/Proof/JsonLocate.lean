/-
Proof/JsonLocate — facts about node selection in the locate model (the rendering / lexing / path
theorems live in Proof/JsonLocateLex.lean and Proof/JsonLocatePath.lean).
-/
import SuccinctlyVerif.Model.JsonLocate
namespace SV.JsonLocate

theorem getLast?_mem {α : Type} : ∀ (l : List α) (x : α), l.getLast? = some x → x ∈ l
  | [], _, h => by simp at h
  | [a], x, h => by simp at h; simp [h]
  | a :: b :: r, x, h => by
    have : (b :: r).getLast? = some x := by simpa [List.getLast?_cons_cons] using h
    exact List.mem_cons_of_mem _ (getLast?_mem (b :: r) x this)

/-- The selected entry is an entry of the table that starts at or before the offset, and the
offset lies inside the text. -/
theorem findEntry_some {table : List Entry} {n off : Nat} {e : Entry}
    (h : findEntry table n off = some e) : off < n ∧ e ∈ table ∧ e.node.start ≤ off := by
  unfold findEntry at h
  split at h
  · cases h
  · rename_i hlt
    have hm := getLast?_mem _ _ h
    rw [List.mem_filter] at hm
    exact ⟨by omega, hm.1, by simpa using hm.2⟩

/-- **Range.** At a qualifying offset the reported byte range `[start, stop)` of the selected node
contains the offset: the offset is the container's opening bracket, or lies inside the token. -/
theorem range_contains {table : List Entry} {n off : Nat} {e : Entry}
    (h : findEntry table n off = some e) (hq : qualifies e off = true) :
    e.node.start ≤ off ∧ (off < e.node.stop ∨ off = e.node.start) := by
  refine ⟨(findEntry_some h).2.2, ?_⟩
  unfold qualifies at hq
  split at hq
  · right; simpa using hq
  · left; simpa using hq

/-- Past the end of the text nothing is located (`offset >= text.len()` ⇒ `None`). -/
theorem findEntry_out_of_range (table : List Entry) (n off : Nat) (h : n ≤ off) :
    findEntry table n off = none := by
  unfold findEntry; simp [h]

end SV.JsonLocate
