/-
Proof/YamlPos — helper lemmas for C17 (YAML position tables).
-/
import SuccinctlyVerif.Spec.Bits
import SuccinctlyVerif.Model.YamlPos
import SuccinctlyVerif.Proof.Scan
namespace SV.YamlPos
open SV SV.Scan

/-! ### word vectors as bit lists -/

theorem allBits_append (a b : List Word) : allBits (a ++ b) = allBits a ++ allBits b := by
  simp [allBits]

theorem sum_pc_eq_count {pc : Word → Nat} (hpc : ∀ w, pc w = popcount w) (ws : List Word) :
    (ws.map pc).sum = (allBits ws).count true := by
  rw [count_allBits]
  congr 1
  exact List.map_congr_left (fun w _ => hpc w)

theorem take_getD_drop (ws : List Word) (m : Nat) (hm : m < ws.length) :
    ws = ws.take m ++ ws.getD m 0 :: ws.drop (m + 1) := by
  rw [List.getD_eq_getElem?_getD, List.getElem?_eq_getElem hm, Option.getD_some]
  simp

theorem popcount_eq_count (w : Word) : popcount w = (wordBits w).count true := rfl

theorem selectB_wordBits_of_lt (w : Word) (r : Nat) (hr : r < popcount w) :
    selectB true (wordBits w) r = some (selectInWordSpec w r) := by
  have := selectB_isSome_of_lt true (wordBits w) r hr
  obtain ⟨x, hx⟩ := Option.isSome_iff_exists.mp this
  simp [selectInWordSpec, hx]

theorem select_at_word_aux (a c : List Word) (w : Word) (r : Nat) (hr : r < popcount w) :
    selectB true (allBits (a ++ w :: c)) ((allBits a).count true + r)
      = some (64 * a.length + selectInWordSpec w r) := by
  rw [allBits_append, allBits_cons, selectB_append]
  have h1 : ¬ ((allBits a).count true + r < (allBits a).count true) := by omega
  rw [if_neg h1, Nat.add_sub_cancel_left, selectB_append]
  have h2 : r < (wordBits w).count true := hr
  rw [if_pos h2, selectB_wordBits_of_lt _ _ hr, allBits_length]
  simp; omega

/-- The set bit of rank `(ones before word m) + r` is the `r`-th set bit of word `m`. -/
theorem select_at_word (ws : List Word) (m : Nat) (hm : m < ws.length) (r : Nat)
    (hr : r < popcount (ws.getD m 0)) :
    selectB true (allBits ws) ((allBits (ws.take m)).count true + r)
      = some (64 * m + selectInWordSpec (ws.getD m 0) r) := by
  have h := select_at_word_aux (ws.take m) (ws.drop (m + 1)) (ws.getD m 0) r hr
  rw [← take_getD_drop ws m hm, List.length_take, Nat.min_eq_left (by omega)] at h
  exact h

/-! ### the plain scan, with the ones-before count -/

theorem scanScalar_some {pc : Word → Nat} (ws : List Word) (off rem i r : Nat)
    (h : scanScalar pc ws off rem = some (i, r)) :
    off ≤ i ∧ i - off < ws.length ∧ r < pc (ws.getD (i - off) 0) ∧
      rem = ((ws.take (i - off)).map pc).sum + r := by
  induction ws generalizing off rem with
  | nil => simp [scanScalar] at h
  | cons w ws ih =>
    simp only [scanScalar] at h
    by_cases hw : pc w > rem
    · simp only [hw, if_true, Option.some.injEq, Prod.mk.injEq] at h
      obtain ⟨rfl, rfl⟩ := h
      simp; omega
    · simp only [hw, if_false] at h
      obtain ⟨h1, h2, h3, h4⟩ := ih (off + 1) (rem - pc w) h
      have hi : i - off = (i - (off + 1)) + 1 := by omega
      refine ⟨by omega, by simp; omega, ?_, ?_⟩
      · rw [hi, List.getD_cons_succ]; exact h3
      · rw [hi, List.take_succ_cons, List.map_cons, List.sum_cons]; omega

theorem scanScalar_none' {pc : Word → Nat} (ws : List Word) (off rem : Nat)
    (h : scanScalar pc ws off rem = none) : (ws.map pc).sum ≤ rem := by
  by_cases hlt : (ws.map pc).sum > rem
  · have := scanScalar_isSome pc ws off rem hlt
    rw [h] at this; simp at this
  · omega

/-- Forward scan from word `wi` knowing the number `ob` of ones before it (the cursor invariant):
the answer `(w', r)` locates the `k`-th set bit, and `k - r` is again the ones-before count of
word `w'`. -/
theorem scan_from {pc : Word → Nat} (hpc : ∀ w, pc w = popcount w) (ws : List Word) (wi k : Nat)
    (hk : (allBits (ws.take wi)).count true ≤ k) :
    match scanScalar pc (ws.drop wi) wi (k - (allBits (ws.take wi)).count true) with
    | some (w', r) => wi ≤ w' ∧ w' < ws.length ∧ r < popcount (ws.getD w' 0) ∧
        r ≤ k ∧ k - r = (allBits (ws.take w')).count true ∧
        selectB true (allBits ws) k = some (64 * w' + selectInWordSpec (ws.getD w' 0) r)
    | none => selectB true (allBits ws) k = none := by
  cases hs : scanScalar pc (ws.drop wi) wi (k - (allBits (ws.take wi)).count true) with
  | none =>
    have h1 := scanScalar_none' _ _ _ hs
    rw [sum_pc_eq_count hpc] at h1
    apply selectB_none_of_count_le
    have : allBits ws = allBits (ws.take wi) ++ allBits (ws.drop wi) := by
      rw [← allBits_append, List.take_append_drop]
    rw [this, List.count_append]; omega
  | some p =>
    obtain ⟨w', r⟩ := p
    obtain ⟨h1, h2, h3, h4⟩ := scanScalar_some _ _ _ _ _ hs
    simp only [List.length_drop] at h2
    have hw' : w' < ws.length := by omega
    have hget : (ws.drop wi).getD (w' - wi) 0 = ws.getD w' 0 := by
      simp only [List.getD_eq_getElem?_getD, List.getElem?_drop]
      congr 2; omega
    rw [hget, hpc] at h3
    have htake : ((ws.drop wi).take (w' - wi)).map pc = ((ws.take w').drop wi).map pc := by
      rw [List.drop_take]
    have hcount : (allBits (ws.take w')).count true
        = (allBits (ws.take wi)).count true + (((ws.drop wi).take (w' - wi)).map pc).sum := by
      have e : ws.take w' = ws.take wi ++ (ws.drop wi).take (w' - wi) := by
        rw [← List.take_add]; congr 1; omega
      rw [e, allBits_append, List.count_append, sum_pc_eq_count hpc]
    have hk' : k = (allBits (ws.take w')).count true + r := by omega
    refine ⟨h1, hw', h3, by omega, by omega, ?_⟩
    rw [hk']
    exact select_at_word ws w' hw' r h3

/-! ### masks -/

theorem getLsbD_lowMask (b i : Nat) (hb : b < 64) : (lowMask b).getLsbD i = decide (i < b) := by
  unfold lowMask
  rw [BitVec.getLsbD, BitVec.toNat_sub]
  have h1 : (1#64 <<< b).toNat = 2 ^ b := by
    rw [BitVec.toNat_shiftLeft]
    simp
    rw [Nat.shiftLeft_eq, Nat.one_mul]
    exact Nat.mod_eq_of_lt (Nat.pow_lt_pow_right (by omega) hb)
  rw [h1]
  have hlt : 2 ^ b < 2 ^ 64 := Nat.pow_lt_pow_right (by omega) hb
  have hpos : 0 < 2 ^ b := Nat.pow_pos (by omega)
  have h2 : (2 ^ 64 - BitVec.toNat (1 : BitVec 64) + 2 ^ b) % 2 ^ 64 = 2 ^ b - 1 := by
    have : BitVec.toNat (1 : BitVec 64) = 1 := by decide
    rw [this]; omega
  rw [h2, Nat.testBit_two_pow_sub_one]

theorem wordBits_getElem (w : Word) (i : Nat) (h : i < (wordBits w).length) : (wordBits w)[i] = w.getLsbD i := by
  simp [wordBits]

theorem wordBits_and_lowMask (x : Word) (b : Nat) (hb : b < 64) :
    wordBits (x &&& lowMask b) = (wordBits x).take b ++ List.replicate (64 - b) false := by
  apply List.ext_getElem
  · simp [wordBits]; omega
  · intro i h1 h2
    rw [wordBits_getElem, BitVec.getLsbD_and, getLsbD_lowMask _ _ hb]
    rw [List.getElem_append]
    by_cases hi : i < b
    · simp [hi, wordBits]
      intro; omega
    · simp [hi, wordBits]
      intro h; omega

theorem wordBits_and_not_lowMask (x : Word) (b : Nat) (hb : b < 64) :
    wordBits (x &&& ~~~ lowMask b) = List.replicate b false ++ (wordBits x).drop b := by
  apply List.ext_getElem
  · simp [wordBits]; omega
  · intro i h1 h2
    have hi64 : i < 64 := by simpa [wordBits] using h1
    rw [wordBits_getElem, BitVec.getLsbD_and, BitVec.getLsbD_not, getLsbD_lowMask _ _ hb]
    rw [List.getElem_append]
    by_cases hi : i < b
    · simp [hi, wordBits]
    · simp [hi, wordBits, hi64]
      congr 1; omega

/-! ### rank over word vectors -/

theorem rankB_allBits (ws : List Word) (pos : Nat) (h : pos / 64 < ws.length) :
    rankB true (allBits ws) pos
      = (allBits (ws.take (pos / 64))).count true
        + ((wordBits (ws.getD (pos / 64) 0)).take (pos % 64)).count true := by
  have hsplit := take_getD_drop ws (pos / 64) h
  have hlen : (allBits (ws.take (pos / 64))).length = 64 * (pos / 64) := by
    rw [allBits_length, List.length_take]; congr 1; omega
  unfold rankB
  generalize hA : ws.take (pos / 64) = A at *
  generalize hw : ws.getD (pos / 64) 0 = w at *
  generalize hC : ws.drop (pos / 64 + 1) = C at *
  rw [hsplit, allBits_append, allBits_cons, List.take_append, hlen]
  have e1 : pos - 64 * (pos / 64) = pos % 64 := by omega
  have e2 : List.take pos (allBits A) = allBits A := by
    apply List.take_of_length_le; omega
  rw [e1, e2, List.count_append, List.take_append, wordBits_length]
  have e3 : pos % 64 - 64 = 0 := by omega
  rw [e3]; simp

theorem rankB_allBits_ge (ws : List Word) (pos : Nat) (h : ws.length ≤ pos / 64) :
    rankB true (allBits ws) pos = (allBits ws).count true := by
  unfold rankB
  rw [List.take_of_length_le]
  rw [allBits_length]; omega

theorem pc_and_lowMask {pc : Word → Nat} (hpc : ∀ w, pc w = popcount w) (x : Word) (b : Nat) (hb : b < 64) :
    pc (x &&& lowMask b) = ((wordBits x).take b).count true := by
  rw [hpc, popcount_eq_count, wordBits_and_lowMask x b hb, List.count_append]
  have : List.count true (List.replicate (64 - b) false) = 0 := by
    rw [List.count_replicate]; simp
  omega

theorem cumRankGo_getD (pc : Word → Nat) (ws : List Word) (c j : Nat) (hj : j < ws.length) :
    (cumRankGo pc ws c).getD j 0 = c + ((ws.take (j + 1)).map pc).sum := by
  induction ws generalizing c j with
  | nil => simp at hj
  | cons w ws ih =>
    cases j with
    | zero => simp [cumRankGo]
    | succ j =>
      simp only [cumRankGo, List.getD_cons_succ]
      rw [ih (c + pc w) j (by simpa using hj)]
      simp [List.take_succ_cons]; omega

theorem buildCumulativeRank_getD (pc : Word → Nat) (ws : List Word) (m : Nat) (hm : m ≤ ws.length) :
    (buildCumulativeRank pc ws).getD m 0 = ((ws.take m).map pc).sum := by
  cases m with
  | zero => simp [buildCumulativeRank]
  | succ m =>
    simp only [buildCumulativeRank, List.getD_cons_succ]
    rw [cumRankGo_getD pc ws 0 m (by omega)]; simp

/-- `advance_rank1` / `ib_rank1` compute the rank over the word vector, given its cumulative table. -/
theorem rank1_words {pc : Word → Nat} (hpc : ∀ w, pc w = popcount w) (ws : List Word) (pos : Nat) :
    (if pos = 0 then 0
     else
      let count := (buildCumulativeRank pc ws).getD (min (pos / 64) ws.length) 0
      if pos / 64 < ws.length ∧ pos % 64 > 0 then count + pc (ws.getD (pos / 64) 0 &&& lowMask (pos % 64))
      else count) = rankB true (allBits ws) pos := by
  by_cases h0 : pos = 0
  · subst h0; simp [rankB]
  · rw [if_neg h0]
    dsimp only
    rw [buildCumulativeRank_getD pc ws _ (Nat.min_le_right _ _), sum_pc_eq_count hpc]
    by_cases hw : pos / 64 < ws.length
    · rw [Nat.min_eq_left (by omega), rankB_allBits ws pos hw]
      by_cases hb : pos % 64 > 0
      · rw [if_pos ⟨hw, hb⟩, pc_and_lowMask hpc _ _ (Nat.mod_lt _ (by omega))]
      · have : pos % 64 = 0 := by omega
        rw [if_neg (by omega), this]; simp
    · rw [if_neg (by omega), Nat.min_eq_right (by omega), rankB_allBits_ge ws pos (by omega)]
      rw [List.take_of_length_le (Nat.le_refl _)]

theorem testBit_eq (ws : List Word) (pos : Nat) : testBit ws pos = (allBits ws).getD pos false := by
  unfold testBit
  by_cases h : pos / 64 < ws.length
  · have hsplit := take_getD_drop ws (pos / 64) h
    have hlen : (allBits (ws.take (pos / 64))).length = 64 * (pos / 64) := by
      rw [allBits_length, List.length_take]; congr 1; omega
    generalize hA : ws.take (pos / 64) = A at *
    generalize hw : ws.getD (pos / 64) 0 = w at *
    generalize hC : ws.drop (pos / 64 + 1) = C at *
    rw [hsplit, allBits_append, allBits_cons]
    rw [List.getD_eq_getElem?_getD, List.getElem?_append_right (by omega), hlen]
    have e1 : pos - 64 * (pos / 64) = pos % 64 := by omega
    rw [e1, List.getElem?_append_left (by rw [wordBits_length]; omega)]
    simp [wordBits, Nat.mod_lt]
  · have : (allBits ws).length ≤ pos := by rw [allBits_length]; omega
    rw [List.getD_eq_getElem?_getD, List.getD_eq_getElem?_getD, List.getElem?_eq_none this,
      List.getElem?_eq_none (by omega)]
    simp

theorem rankB_succ (bs : List Bool) (i : Nat) :
    rankB true bs (i + 1) = rankB true bs i + (if bs.getD i false then 1 else 0) := by
  unfold rankB
  by_cases h : i < bs.length
  · rw [List.take_add_one, List.count_append]
    simp [List.getD_eq_getElem?_getD, List.getElem?_eq_getElem h]
    cases bs[i] <;> simp
  · rw [List.take_of_length_le (by omega), List.take_of_length_le (by omega)]
    simp [List.getD_eq_getElem?_getD, List.getElem?_eq_none (show bs.length ≤ i by omega)]

theorem rankB_mono (bs : List Bool) {i j : Nat} (h : i ≤ j) : rankB true bs i ≤ rankB true bs j := by
  induction j with
  | zero => have : i = 0 := by omega
            subst this; exact Nat.le_refl _
  | succ j ih =>
    by_cases hij : i = j + 1
    · subst hij; exact Nat.le_refl _
    · have := ih (by omega)
      rw [rankB_succ]; omega

/-! ### select ↔ rank -/

theorem selectB_some_rank (bs : List Bool) (k p : Nat) (h : selectB true bs k = some p) :
    p < bs.length ∧ rankB true bs p = k ∧ bs.getD p false = true := by
  induction bs generalizing k p with
  | nil => simp [selectB] at h
  | cons x xs ih =>
    cases x with
    | true =>
      cases k with
      | zero =>
        simp [selectB] at h; subst h; simp [rankB]
      | succ k =>
        simp only [selectB, if_true] at h
        cases hs : selectB true xs k with
        | none => rw [hs] at h; simp at h
        | some q =>
          rw [hs] at h; simp at h; subst h
          obtain ⟨h1, h2, h3⟩ := ih k q hs
          refine ⟨by simp; omega, ?_, by simpa using h3⟩
          unfold rankB at *
          simp [List.take_succ_cons, h2]
    | false =>
      simp only [selectB] at h
      have : (false = true) = False := by simp
      simp only [this, if_false] at h
      cases hs : selectB true xs k with
      | none => rw [hs] at h; simp at h
      | some q =>
        rw [hs] at h; simp at h; subst h
        obtain ⟨h1, h2, h3⟩ := ih k q hs
        refine ⟨by simp; omega, ?_, by simpa using h3⟩
        unfold rankB at *
        simp [List.take_succ_cons, h2]

theorem rankB_le (bs : List Bool) (i : Nat) : rankB true bs i ≤ i := by
  unfold rankB
  have := List.count_le_length (a := true) (l := bs.take i)
  have := List.length_take_le i bs
  omega

theorem rankB_le_count (bs : List Bool) (i : Nat) : rankB true bs i ≤ bs.count true := by
  unfold rankB
  exact (List.take_sublist i bs).count_le true

/-! ### `ib_select1_with_state` -/

section Sel
variable {pc : Word → Nat} {siw : Word → Nat → Nat}

/-- Without a mask the loop is the plain scan, carrying `ones_before + remaining` as an invariant. -/
theorem ibSelLoop_nomask (l : List Word) (wi rem ob : Nat) :
    ibSelLoop pc siw l wi rem ob none =
      match scanScalar pc l wi rem with
      | some (w', r) => some (w' * 64 + siw (l.getD (w' - wi) 0) r, w', ob + rem - r)
      | none => none := by
  induction l generalizing wi rem ob with
  | nil => simp [ibSelLoop, scanScalar]
  | cons w l ih =>
    simp only [ibSelLoop, scanScalar]
    by_cases hw : pc w > rem
    · simp [hw]
    · simp only [hw, if_false]
      rw [ih]
      cases hs : scanScalar pc l (wi + 1) (rem - pc w) with
      | none => rfl
      | some p =>
        obtain ⟨w', r⟩ := p
        obtain ⟨h1, _, _, h4⟩ := scanScalar_some _ _ _ _ _ hs
        have hi : w' - wi = (w' - (wi + 1)) + 1 := by omega
        simp only [hi, List.getD_cons_succ]
        congr 3
        omega

theorem count_take_drop (bs : List Bool) (n : Nat) :
    (bs.take n).count true + (bs.drop n).count true = bs.count true := by
  rw [← List.count_append, List.take_append_drop]

/-- Masking off the bits below the sample bit = asking for a rank larger by the masked-off ones. -/
theorem ibSelLoop_mask (hpc : ∀ w, pc w = popcount w) (hsiw : ∀ w k, siw w k = selectInWordSpec w k)
    (full : Word) (rest : List Word) (wi rem ob off : Nat) (hoff : off < 64) :
    ibSelLoop pc siw (full :: rest) wi rem ob (some off) =
      ibSelLoop pc siw (full :: rest) wi (rem + pc (full &&& lowMask off)) ob none := by
  have hsplit : wordBits full = (wordBits full).take off ++ (wordBits full).drop off :=
    (List.take_append_drop _ _).symm
  have hlenA : ((wordBits full).take off).length = off := by
    rw [List.length_take, wordBits_length]; omega
  have hp : pc (full &&& lowMask off) = ((wordBits full).take off).count true := pc_and_lowMask hpc _ _ hoff
  have hmask := wordBits_and_not_lowMask full off hoff
  generalize (wordBits full).take off = A at *
  generalize (wordBits full).drop off = B at *
  have c0 : List.count true (List.replicate off false) = 0 := by rw [List.count_replicate]; simp
  have hfull : pc full = A.count true + B.count true := by
    rw [hpc, popcount_eq_count, hsplit, List.count_append]
  have hm : pc (full &&& ~~~ lowMask off) = B.count true := by
    rw [hpc, popcount_eq_count, hmask, List.count_append]; omega
  simp only [ibSelLoop]
  rw [hm, hp, hfull]
  by_cases hgt : B.count true > rem
  · have hgt' : A.count true + B.count true > rem + A.count true := by omega
    rw [if_pos hgt, if_pos hgt']
    congr 3
    rw [hsiw, hsiw]
    unfold selectInWordSpec
    rw [hmask, selectB_append, c0, if_neg (by omega), Nat.sub_zero, List.length_replicate]
    rw [hsplit, selectB_append, if_neg (by omega), Nat.add_sub_cancel, hlenA]
  · have hgt' : ¬ (A.count true + B.count true > rem + A.count true) := by omega
    rw [if_neg hgt, if_neg hgt']
    congr 1
    omega

end Sel
/-! ### the history-free table function, well-formed tables, the cursor invariant -/

/-- What the two bitmaps of a table denote, independently of any cursor: the set IB bit whose rank
is (number of advance bits among opens `0..=i`) − 1. -/
def tableFn (F : Flavor) (T : Table) (i : Nat) : Option Nat :=
  if i < T.numOpens then
    let c := rankB true (allBits T.advanceWords) (i + 1)
    if c = 0 then none else (selectB true (allBits T.ibWords) (c - 1)).map F.conv
  else none

/-- Facts about the auxiliary arrays of a table that `get` relies on (established by the builders). -/
structure WF (pc : Word → Nat) (rate : Nat) (T : Table) : Prop where
  arank : T.advanceRank = buildCumulativeRank pc T.advanceWords
  ones : T.ibOnes = (allBits T.ibWords).count true
  samples : ∀ s, s < T.ibSelectSamples.length →
    selectB true (allBits T.ibWords) (s * rate) = some (T.ibSelectSamples.getD s 0)
  small : T.numOpens < usizeMax

/-- The documented `SequentialCursor` invariants (`adv`, `ob`) plus consistency of the cached
last select (`cached`) and of the "uninitialised" marker (`fresh`). -/
structure SeqInv (F : Flavor) (T : Table) (c : Cursor) : Prop where
  adv : c.advCumulative = rankB true (allBits T.advanceWords) c.nextOpenIdx
  ob : c.ibOnesBefore = (allBits (T.ibWords.take c.ibWordIdx)).count true
  cached : c.lastIbArg ≠ usizeMax →
    (selectB true (allBits T.ibWords) c.lastIbArg).map F.conv = some (F.conv c.lastIbResult) ∧
    c.lastIbArg < c.advCumulative ∧ c.ibOnesBefore ≤ c.lastIbArg
  fresh : c.lastIbArg = usizeMax → c.ibWordIdx = 0

/-- What the proofs need from a flavor: its forward scan is the plain per-word scan and its result
cast is idempotent. -/
structure FlavorOk (pc : Word → Nat) (F : Flavor) : Prop where
  scan : ∀ ws wi rem, F.scan ws wi rem = scanScalar pc (ws.drop wi) wi rem
  conv : ∀ x, F.conv (F.conv x) = F.conv x

theorem openFlavor_ok (pc : Word → Nat) : FlavorOk pc (openFlavor pc) where
  scan := by
    intro ws wi rem
    show scanSelect pc ws wi rem = _
    rw [scanSelect_eq_scalar]
    unfold scanSelectScalar
    split
    · rename_i h; rw [List.drop_of_length_le h]; rfl
    · rfl
  conv := by intro x; simp [openFlavor]

theorem endFlavor_ok (pc : Word → Nat) : FlavorOk pc (endFlavor pc) where
  scan := by intro ws wi rem; rfl
  conv := by intro x; rfl

theorem seqInv_init (F : Flavor) (T : Table) : SeqInv F T Cursor.init where
  adv := by simp [Cursor.init, rankB]
  ob := by simp [Cursor.init, allBits]
  cached := by intro h; simp [Cursor.init] at h
  fresh := by intro _; rfl

section Machine
variable {pc : Word → Nat} {siw : Word → Nat → Nat} {rate : Nat} {F : Flavor}

theorem ibSelect_spec (hpc : ∀ w, pc w = popcount w) (hsiw : ∀ w k, siw w k = selectInWordSpec w k)
    {T : Table} (wf : WF pc rate T) (k : Nat) :
    match ibSelect1WithState pc siw rate T k with
    | some (pos, w, ob) => selectB true (allBits T.ibWords) k = some pos ∧
        ob = (allBits (T.ibWords.take w)).count true ∧ ob ≤ k
    | none => selectB true (allBits T.ibWords) k = none := by
  unfold ibSelect1WithState
  by_cases hk : k ≥ T.ibOnes
  · rw [if_pos hk]
    apply selectB_none_of_count_le
    rw [← wf.ones]; exact hk
  · rw [if_neg hk]
    dsimp only
    -- both branches reduce to the unmasked loop from a word `wi` with `ob` ones before it
    have key : ∀ wi ob, ob = (allBits (T.ibWords.take wi)).count true → ob ≤ k →
        match ibSelLoop pc siw (T.ibWords.drop wi) wi (k - ob) ob none with
        | some (pos, w, ob') => selectB true (allBits T.ibWords) k = some pos ∧
            ob' = (allBits (T.ibWords.take w)).count true ∧ ob' ≤ k
        | none => selectB true (allBits T.ibWords) k = none := by
      intro wi ob hob hle
      rw [ibSelLoop_nomask]
      have := scan_from hpc T.ibWords wi k (by omega)
      rw [← hob] at this
      cases hs : scanScalar pc (T.ibWords.drop wi) wi (k - ob) with
      | none => rw [hs] at this; exact this
      | some p =>
        obtain ⟨w', r⟩ := p
        rw [hs] at this
        obtain ⟨h1, h2, h3, h4, h5, h6⟩ := this
        have hget : (T.ibWords.drop wi).getD (w' - wi) 0 = T.ibWords.getD w' 0 := by
          simp only [List.getD_eq_getElem?_getD, List.getElem?_drop]
          congr 2; omega
        dsimp only
        rw [hget, hsiw, h6]
        refine ⟨by congr 1; omega, by omega, by omega⟩
    by_cases hs : k / rate < T.ibSelectSamples.length
    · rw [if_pos hs]
      have hsel := wf.samples _ hs
      obtain ⟨hlt, hrank, _⟩ := selectB_some_rank _ _ _ hsel
      rw [allBits_length] at hlt
      generalize T.ibSelectSamples.getD (k / rate) 0 = sp at *
      have hw : sp / 64 < T.ibWords.length := by omega
      have hoff : sp % 64 < 64 := Nat.mod_lt _ (by omega)
      rw [rankB_allBits _ _ hw, ← pc_and_lowMask hpc _ _ hoff] at hrank
      have hle : k / rate * rate ≤ k := Nat.div_mul_le_self k rate
      have hdrop : T.ibWords.drop (sp / 64) = T.ibWords.getD (sp / 64) 0 :: T.ibWords.drop (sp / 64 + 1) := by
        rw [List.getD_eq_getElem?_getD, List.getElem?_eq_getElem hw, Option.getD_some]
        exact List.drop_eq_getElem_cons hw
      have hmask := ibSelLoop_mask (siw := siw) hpc hsiw (T.ibWords.getD (sp / 64) 0)
        (T.ibWords.drop (sp / 64 + 1)) (sp / 64) (k - k / rate * rate)
        (k / rate * rate - pc (T.ibWords.getD (sp / 64) 0 &&& lowMask (sp % 64))) (sp % 64) hoff
      rw [hdrop, hmask, ← hdrop]
      have hob : k / rate * rate - pc (T.ibWords.getD (sp / 64) 0 &&& lowMask (sp % 64))
          = (allBits (T.ibWords.take (sp / 64))).count true := by omega
      have hrem : k - k / rate * rate + pc (T.ibWords.getD (sp / 64) 0 &&& lowMask (sp % 64))
          = k - (k / rate * rate - pc (T.ibWords.getD (sp / 64) 0 &&& lowMask (sp % 64))) := by omega
      rw [hrem]
      exact key _ _ hob (by omega)
    · rw [if_neg hs]
      have := key 0 0 (by simp [allBits]) (by omega)
      simpa using this

end Machine
section Machine2
variable {pc : Word → Nat} {siw : Word → Nat → Nat} {rate : Nat} {F : Flavor}

theorem advanceRank1_eq (hpc : ∀ w, pc w = popcount w) {T : Table} (wf : WF pc rate T) (pos : Nat) :
    advanceRank1 pc T pos = rankB true (allBits T.advanceWords) pos := by
  unfold advanceRank1
  rw [wf.arank]
  exact rank1_words hpc T.advanceWords pos

/-- `get_sequential` called with a cursor whose `next_open_idx` is the requested index. -/
theorem getSequential_spec (hpc : ∀ w, pc w = popcount w) (hsiw : ∀ w k, siw w k = selectInWordSpec w k)
    (hF : FlavorOk pc F) {T : Table} (wf : WF pc rate T) {c : Cursor} (inv : SeqInv F T c) (i : Nat)
    (hi : c.nextOpenIdx = i) :
    (getSequential siw F T i c).1 = .val (tableFn F T i) ∧
    ∀ c', (getSequential siw F T i c).2 = some c' → SeqInv F T c' := by
  unfold getSequential tableFn
  by_cases hn : i ≥ T.numOpens
  · rw [if_pos hn, if_neg (show ¬ i < T.numOpens by omega)]
    exact ⟨rfl, by intro c' h; simp at h⟩
  · rw [if_neg hn, if_pos (show i < T.numOpens by omega)]
    -- the advance bit
    have hbit : (if i / 64 < T.advanceWords.length then
          (if (T.advanceWords.getD (i / 64) 0).getLsbD (i % 64) then 1 else 0) else 0)
        = (if (allBits T.advanceWords).getD i false then 1 else 0) := by
      rw [← testBit_eq]
      unfold testBit
      by_cases hw : i / 64 < T.advanceWords.length
      · rw [if_pos hw]
      · rw [if_neg hw, List.getD_eq_getElem?_getD, List.getElem?_eq_none (by omega)]
        simp
    have hcount : c.advCumulative + (if i / 64 < T.advanceWords.length then
          (if (T.advanceWords.getD (i / 64) 0).getLsbD (i % 64) then 1 else 0) else 0)
        = rankB true (allBits T.advanceWords) (i + 1) := by
      rw [hbit, rankB_succ, inv.adv, hi]
    dsimp only
    rw [hcount]
    generalize hC : rankB true (allBits T.advanceWords) (i + 1) = cnt at *
    have hmono : c.advCumulative ≤ cnt := by
      rw [inv.adv, hi, ← hC]; exact rankB_mono _ (by omega)
    have hcnt_le : cnt ≤ i + 1 := by rw [← hC]; exact rankB_le _ _
    have hsmall := wf.small
    -- the cursor stored when no new select result is cached
    have inv_plain : SeqInv F T { c with advCumulative := cnt, nextOpenIdx := i + 1 } :=
      { adv := hC.symm
        ob := inv.ob
        cached := by
          intro h
          obtain ⟨h1, h2, h3⟩ := inv.cached h
          exact ⟨h1, by show c.lastIbArg < cnt; omega, h3⟩
        fresh := inv.fresh }
    by_cases h0 : cnt = 0
    · rw [if_pos h0, if_pos h0]
      exact ⟨rfl, by intro c' h; simp at h; subst h; exact inv_plain⟩
    · rw [if_neg h0, if_neg h0]
      by_cases hdup : cnt - 1 = c.lastIbArg
      · rw [if_pos hdup]
        have hne : c.lastIbArg ≠ usizeMax := by omega
        obtain ⟨h1, _, _⟩ := inv.cached hne
        refine ⟨?_, by intro c' h; simp at h; subst h; exact inv_plain⟩
        show Ans.val (some (F.conv c.lastIbResult)) = _
        rw [hdup, h1]
      · rw [if_neg hdup]
        have hob_le : c.ibOnesBefore ≤ cnt - 1 := by
          by_cases hm : c.lastIbArg = usizeMax
          · have := inv.fresh hm
            have h2 := inv.ob
            rw [this] at h2
            simp [allBits] at h2
            omega
          · obtain ⟨_, h2, h3⟩ := inv.cached hm
            omega
        rw [if_neg (by show ¬ (cnt - 1 < c.ibOnesBefore); omega)]
        rw [hF.scan]
        have hsc := scan_from hpc T.ibWords c.ibWordIdx (cnt - 1) (by rw [← inv.ob]; exact hob_le)
        rw [← inv.ob] at hsc
        cases hs : scanScalar pc (T.ibWords.drop c.ibWordIdx) c.ibWordIdx (cnt - 1 - c.ibOnesBefore) with
        | none =>
          rw [hs] at hsc
          dsimp only
          rw [hsc]
          exact ⟨rfl, by intro c' h; simp at h; subst h; exact inv_plain⟩
        | some p =>
          obtain ⟨w', r⟩ := p
          rw [hs] at hsc
          obtain ⟨h1, h2, h3, h4, h5, h6⟩ := hsc
          dsimp only
          have hres : w' * 64 + siw (T.ibWords.getD w' 0) r
              = 64 * w' + selectInWordSpec (T.ibWords.getD w' 0) r := by rw [hsiw]; omega
          rw [hres, h6]
          refine ⟨rfl, ?_⟩
          intro c' h
          simp at h; subst h
          exact
            { adv := hC.symm
              ob := h5
              cached := by
                intro _
                refine ⟨?_, ?_, ?_⟩
                · show (selectB true (allBits T.ibWords) (cnt - 1)).map F.conv = _
                  rw [h6]; rfl
                · show cnt - 1 < cnt; omega
                · show cnt - 1 - r ≤ cnt - 1; omega
              fresh := by
                intro h
                have : cnt - 1 = usizeMax := h
                omega }

end Machine2
section Machine3
variable {pc : Word → Nat} {siw : Word → Nat → Nat} {rate : Nat} {F : Flavor}

/-- `get_random`: full recomputation; the stored cursor satisfies the invariant again. -/
theorem getRandom_spec (hpc : ∀ w, pc w = popcount w) (hsiw : ∀ w k, siw w k = selectInWordSpec w k)
    (hF : FlavorOk pc F) {T : Table} (wf : WF pc rate T) (i : Nat) :
    (getRandom pc siw rate F T i).1 = .val (tableFn F T i) ∧
    ∀ c', (getRandom pc siw rate F T i).2 = some c' → SeqInv F T c' := by
  unfold getRandom tableFn
  by_cases hn : i ≥ T.numOpens
  · rw [if_pos hn, if_neg (show ¬ i < T.numOpens by omega)]
    exact ⟨rfl, by intro c' h; simp at h⟩
  · rw [if_neg hn, if_pos (show i < T.numOpens by omega)]
    dsimp only
    rw [advanceRank1_eq hpc wf]
    generalize hC : rankB true (allBits T.advanceWords) (i + 1) = cnt
    have hcnt_le : cnt ≤ i + 1 := by rw [← hC]; exact rankB_le _ _
    have hsmall := wf.small
    have inv_reset : SeqInv F T ⟨i + 1, cnt, 0, 0, usizeMax, 0⟩ :=
      { adv := hC.symm
        ob := by simp [allBits]
        cached := by intro h; exact absurd rfl h
        fresh := by intro _; rfl }
    by_cases h0 : cnt = 0
    · rw [if_pos h0, if_pos h0]
      exact ⟨rfl, by intro c' h; simp at h; subst h; exact inv_reset⟩
    · rw [if_neg h0, if_neg h0]
      have hsel := ibSelect_spec (siw := siw) hpc hsiw wf (cnt - 1)
      cases hs : ibSelect1WithState pc siw rate T (cnt - 1) with
      | none =>
        rw [hs] at hsel
        dsimp only
        rw [hsel]
        exact ⟨rfl, by intro c' h; simp at h; subst h; exact inv_reset⟩
      | some p =>
        obtain ⟨pos, w, ob⟩ := p
        rw [hs] at hsel
        obtain ⟨h1, h2, h3⟩ := hsel
        dsimp only
        rw [h1]
        refine ⟨rfl, ?_⟩
        intro c' h
        simp at h; subst h
        exact
          { adv := hC.symm
            ob := h2
            cached := by
              intro _
              refine ⟨?_, ?_, ?_⟩
              · show (selectB true (allBits T.ibWords) (cnt - 1)).map F.conv = some (F.conv (F.conv pos))
                rw [h1, hF.conv]; rfl
              · show cnt - 1 < cnt; omega
              · exact h3
            fresh := by
              intro h
              have : cnt - 1 = usizeMax := h
              omega }

/-- Every path of `get` (sequential, gap, backward jump) answers the history-free table function
and re-establishes the cursor invariant. -/
theorem get_spec (hpc : ∀ w, pc w = popcount w) (hsiw : ∀ w k, siw w k = selectInWordSpec w k)
    (hF : FlavorOk pc F) {T : Table} (wf : WF pc rate T) {c : Cursor} (inv : SeqInv F T c) (i : Nat) :
    (get pc siw rate F T c i).1 = .val (tableFn F T i) ∧ SeqInv F T (get pc siw rate F T c i).2 := by
  unfold get
  by_cases h1 : i = c.nextOpenIdx
  · rw [if_pos h1]
    obtain ⟨ha, hc⟩ := getSequential_spec hpc hsiw hF wf inv i h1.symm
    refine ⟨ha, ?_⟩
    cases hs : (getSequential siw F T i c).2 with
    | none => simpa [hs] using inv
    | some c' => simpa [hs] using hc c' hs
  · rw [if_neg h1]
    by_cases h2 : i > c.nextOpenIdx
    · rw [if_pos h2]
      have inv1 : SeqInv F T { c with advCumulative := advanceRank1 pc T i, nextOpenIdx := i } :=
        { adv := advanceRank1_eq hpc wf i
          ob := inv.ob
          cached := by
            intro h
            obtain ⟨a1, a2, a3⟩ := inv.cached h
            refine ⟨a1, ?_, a3⟩
            show c.lastIbArg < advanceRank1 pc T i
            rw [advanceRank1_eq hpc wf]
            have := rankB_mono (allBits T.advanceWords) (show c.nextOpenIdx ≤ i by omega)
            rw [← inv.adv] at this
            omega
          fresh := inv.fresh }
      obtain ⟨ha, hc⟩ := getSequential_spec hpc hsiw hF wf inv1 i rfl
      refine ⟨ha, ?_⟩
      cases hs : (getSequential siw F T i
          { c with advCumulative := advanceRank1 pc T i, nextOpenIdx := i }).2 with
      | none => simpa [hs] using inv
      | some c' => simpa [hs] using hc c' hs
    · rw [if_neg h2]
      obtain ⟨ha, hc⟩ := getRandom_spec (siw := siw) hpc hsiw hF wf i
      refine ⟨ha, ?_⟩
      cases hs : (getRandom pc siw rate F T i).2 with
      | none => simpa [hs] using inv
      | some c' => simpa [hs] using hc c' hs

/-- Induction over an arbitrary lookup list: every answer is the table function of its index,
whatever was looked up before, and the invariant holds at the end. -/
theorem runFrom_spec (hpc : ∀ w, pc w = popcount w) (hsiw : ∀ w k, siw w k = selectInWordSpec w k)
    (hF : FlavorOk pc F) {T : Table} (wf : WF pc rate T) (c : Cursor) (inv : SeqInv F T c)
    (hist : List Nat) :
    (runFrom pc siw rate F T c hist).1 = hist.map (fun i => Ans.val (tableFn F T i)) ∧
    SeqInv F T (runFrom pc siw rate F T c hist).2 := by
  induction hist generalizing c with
  | nil => exact ⟨rfl, inv⟩
  | cons i is ih =>
    obtain ⟨ha, hc⟩ := get_spec hpc hsiw hF wf inv i
    obtain ⟨hb, hd⟩ := ih _ hc
    simp only [runFrom, List.map_cons]
    exact ⟨by rw [ha, hb], hd⟩

end Machine3
/-! ### setting a bit -/

theorem wordBits_or_bit (x : Word) (j : Nat) (_hj : j < 64) :
    wordBits (x ||| (1#64 <<< j)) = (wordBits x).set j true := by
  apply List.ext_getElem
  · simp [wordBits]
  · intro i h1 h2
    have hi64 : i < 64 := by simpa [wordBits] using h1
    rw [wordBits_getElem, List.getElem_set, BitVec.getLsbD_or, BitVec.getLsbD_shiftLeft]
    by_cases hij : j = i
    · subst hij; simp [hi64]
    · rw [if_neg hij, wordBits_getElem]
      have : BitVec.getLsbD (1#64) (i - j) = decide (i - j = 0) := by
        rw [BitVec.getLsbD_one]; simp
      rw [this]
      by_cases hlt : i < j
      · simp [hlt]
      · have : ¬ (i - j = 0) := by omega
        simp [this]

theorem setBit_length (ws : List Word) (p : Nat) : (setBit ws p).length = ws.length := by
  simp [setBit]

theorem allBits_setBit (ws : List Word) (p : Nat) (h : p / 64 < ws.length) :
    allBits (setBit ws p) = (allBits ws).set p true := by
  unfold setBit
  have hsplit := take_getD_drop ws (p / 64) h
  have hlen : (allBits (ws.take (p / 64))).length = 64 * (p / 64) := by
    rw [allBits_length, List.length_take]; congr 1; omega
  rw [List.set_eq_take_append_cons_drop, if_pos h]
  generalize ws.take (p / 64) = A at *
  generalize ws.getD (p / 64) 0 = w at *
  generalize ws.drop (p / 64 + 1) = C at *
  rw [hsplit, allBits_append, allBits_cons, allBits_append, allBits_cons,
    wordBits_or_bit _ _ (Nat.mod_lt _ (by omega))]
  rw [List.set_append, if_neg (by omega), hlen, List.set_append, wordBits_length]
  have e1 : p - 64 * (p / 64) = p % 64 := by omega
  rw [e1, if_pos (Nat.mod_lt _ (by omega))]

theorem count_drop_zero_of_le (L : List Bool) {a b : Nat} (hab : a ≤ b)
    (h : (L.drop a).count true = 0) : (L.drop b).count true = 0 := by
  have : L.drop b = (L.drop a).drop (b - a) := by rw [List.drop_drop]; congr 1; omega
  rw [this]
  have := ((L.drop a).drop_sublist (b - a)).count_le true
  omega

/-- Setting the bit at `p` when no bit at or beyond `p` is set: one more set bit, it is the last
one, earlier selects and ranks are unchanged. -/
theorem set_true_beyond (L : List Bool) (p : Nat) (hp : p < L.length) (hz : (L.drop p).count true = 0) :
    (L.set p true).count true = L.count true + 1 ∧
    (∀ k, k < L.count true → selectB true (L.set p true) k = selectB true L k) ∧
    selectB true (L.set p true) (L.count true) = some p ∧
    ((L.set p true).drop (p + 1)).count true = 0 ∧
    (∀ m, m ≤ p → rankB true (L.set p true) m = rankB true L m) ∧
    (∀ m, p < m → rankB true (L.set p true) m = L.count true + 1) := by
  have hset : L.set p true = L.take p ++ true :: L.drop (p + 1) := by
    rw [List.set_eq_take_append_cons_drop, if_pos hp]
  have hL : L = L.take p ++ L[p] :: L.drop (p + 1) := by simp
  have hdrop : L.drop p = L[p] :: L.drop (p + 1) := List.drop_eq_getElem_cons hp
  rw [hdrop, List.count_cons] at hz
  have hz1 : (L.drop (p + 1)).count true = 0 := by omega
  have hLp : L[p] = false := by
    cases h : L[p] with
    | false => rfl
    | true => rw [h] at hz; simp at hz
  have hcount : L.count true = (L.take p).count true := by
    conv => lhs; rw [hL]
    rw [List.count_append, List.count_cons, hLp]; simp; omega
  have hlenA : (L.take p).length = p := by rw [List.length_take]; omega
  refine ⟨?_, ?_, ?_, ?_, ?_, ?_⟩
  · rw [hset, List.count_append, List.count_cons, hcount]; simp; omega
  · intro k hk
    rw [hset, selectB_append, if_pos (by omega)]
    conv => rhs; rw [hL, selectB_append, if_pos (by omega)]
  · rw [hset, selectB_append, if_neg (by omega), hcount, Nat.sub_self, hlenA]
    simp [selectB]
  · rw [hset]
    have : (L.take p ++ true :: L.drop (p + 1)).drop (p + 1) = L.drop (p + 1) := by
      rw [List.drop_append, hlenA]
      have e : p + 1 - p = 1 := by omega
      rw [List.drop_of_length_le (by omega), e]; simp
    rw [this]; exact hz1
  · intro m hm
    unfold rankB
    rw [hset]
    conv => rhs; rw [hL]
    rw [List.take_append, List.take_append, hlenA]
    have : m - p = 0 := by omega
    rw [this]; simp
  · intro m hm
    unfold rankB
    rw [hset, List.take_append, hlenA, List.take_of_length_le (by omega), List.count_append]
    obtain ⟨d, hd⟩ : ∃ d, m - p = d + 1 := ⟨m - p - 1, by omega⟩
    rw [hd, List.take_succ_cons, List.count_cons]
    have := ((L.drop (p + 1)).take_sublist d).count_le true
    rw [hcount]; simp; omega

/-! ### the build loops -/

/-- Both build loops as one loop over the *effective* positions: `skip` = "a zero entry records
nothing" (leading containers of `CompactEndPositions::try_build`). -/
def coreLoop (skip : Bool) : List Nat → Nat → BState → BState
  | [], _, st => st
  | p :: ps, i, st =>
    if skip = true ∧ p = 0 then coreLoop skip ps (i + 1) { st with prev := some 0 }
    else coreLoop skip ps (i + 1) (stepCore st i p)

theorem openLoop_eq (ps : List Nat) (i : Nat) (st : BState) : openLoop ps i st = coreLoop false ps i st := by
  induction ps generalizing i st with
  | nil => rfl
  | cons p ps ih => simp [openLoop, coreLoop, ih]

/-- First bit position that is certainly still clear in IB. -/
def hiOf (skip : Bool) (pre : List Nat) : Nat :=
  match pre.getLast? with
  | none => 0
  | some l => if skip = true ∧ l = 0 then 0 else l + 1

structure BInv (skip : Bool) (nW aW : Nat) (pre : List Nat) (st : BState) : Prop where
  lenIb : st.ib.length = nW
  lenAdv : st.adv.length = aW
  prev : st.prev = pre.getLast?
  ibHi : ((allBits st.ib).drop (hiOf skip pre)).count true = 0
  advHi : ((allBits st.adv).drop pre.length).count true = 0
  ones : st.ibOnes = (allBits st.ib).count true
  cnt : (∀ v ∈ pre, v < 64 * nW) → (allBits st.ib).count true = (allBits st.adv).count true
  main : ∀ j (hj : j < pre.length),
    ((skip = true ∧ pre[j] = 0) → rankB true (allBits st.adv) (j + 1) = 0) ∧
    (¬ (skip = true ∧ pre[j] = 0) → pre[j] < 64 * nW →
      1 ≤ rankB true (allBits st.adv) (j + 1) ∧
      selectB true (allBits st.ib) (rankB true (allBits st.adv) (j + 1) - 1) = some pre[j])

theorem getD_false_of_drop_count (L : List Bool) (a p : Nat) (h : (L.drop a).count true = 0) (hap : a ≤ p) :
    L.getD p false = false := by
  by_cases hp : p < L.length
  · have h2 := count_drop_zero_of_le L hap h
    rw [List.drop_eq_getElem_cons hp, List.count_cons] at h2
    rw [List.getD_eq_getElem?_getD, List.getElem?_eq_getElem hp, Option.getD_some]
    cases hb : L[p] with
    | false => rfl
    | true => rw [hb] at h2; simp at h2
  · rw [List.getD_eq_getElem?_getD, List.getElem?_eq_none (by omega)]; rfl

theorem rankB_eq_count_of_drop (L : List Bool) (a : Nat) (h : (L.drop a).count true = 0) :
    rankB true L a = L.count true := by
  unfold rankB
  have := count_take_drop L a
  omega

theorem selectB_lt_count (L : List Bool) (k p : Nat) (h : selectB true L k = some p) : k < L.count true := by
  by_cases hk : k < L.count true
  · exact hk
  · rw [selectB_none_of_count_le true L k (by omega)] at h; simp at h

theorem getLast?_append_single (pre : List Nat) (p : Nat) : (pre ++ [p]).getLast? = some p := by simp

theorem getElem_append_single_lt (pre : List Nat) (p j : Nat) (hj : j < pre.length)
    (hj' : j < (pre ++ [p]).length) : (pre ++ [p])[j] = pre[j] := by
  rw [List.getElem_append_left hj]

theorem getElem_append_single_eq (pre : List Nat) (p : Nat) (hj' : pre.length < (pre ++ [p]).length) :
    (pre ++ [p])[pre.length] = p := by
  rw [List.getElem_append_right (by omega)]; simp

/-- One iteration of the (unified) build loop preserves the invariant. -/
theorem binv_step (skip : Bool) (nW aW : Nat) (pre : List Nat) (st : BState) (p : Nat)
    (inv : BInv skip nW aW pre st) (hsorted : ∀ v ∈ pre, v ≤ p) (hroom : pre.length < 64 * aW) :
    BInv skip nW aW (pre ++ [p])
      (if skip = true ∧ p = 0 then { st with prev := some 0 } else stepCore st pre.length p) := by
  have hlenIB : (allBits st.ib).length = 64 * nW := by rw [allBits_length, inv.lenIb]
  have hlenADV : (allBits st.adv).length = 64 * aW := by rw [allBits_length, inv.lenAdv]
  have hadvbit : (allBits st.adv).getD pre.length false = false :=
    getD_false_of_drop_count _ _ _ inv.advHi (Nat.le_refl _)
  have hrank_len : rankB true (allBits st.adv) (pre.length + 1) = rankB true (allBits st.adv) pre.length := by
    rw [rankB_succ, hadvbit]; simp
  -- relation between the last processed value and `p`
  have hlast : ∀ l, pre.getLast? = some l → l ≤ p ∧ pre ≠ [] := by
    intro l hl
    refine ⟨hsorted l (List.mem_of_getLast? hl), ?_⟩
    intro h; rw [h] at hl; simp at hl
  by_cases hskip : skip = true ∧ p = 0
  · -- a skipped zero: nothing recorded
    rw [if_pos hskip]
    obtain ⟨hs, hp0⟩ := hskip
    subst hp0
    have hhi0 : hiOf skip pre = 0 := by
      unfold hiOf
      cases hl : pre.getLast? with
      | none => rfl
      | some l =>
        have := (hlast l hl).1
        have : l = 0 := by omega
        simp [hs, this]
    refine
      { lenIb := inv.lenIb, lenAdv := inv.lenAdv, prev := (getLast?_append_single pre 0).symm
        ibHi := ?_, advHi := ?_, ones := inv.ones, cnt := ?_, main := ?_ }
    · have : hiOf skip (pre ++ [0]) = 0 := by simp [hiOf, hs]
      have h := inv.ibHi
      rw [hhi0] at h
      rw [this]; exact h
    · rw [List.length_append]; exact count_drop_zero_of_le _ (by simp) inv.advHi
    · intro h; exact inv.cnt (fun v hv => h v (List.mem_append_left _ hv))
    · intro j hj
      by_cases hjl : j < pre.length
      · rw [getElem_append_single_lt pre 0 j hjl hj]; exact inv.main j hjl
      · have hje : j = pre.length := by simp at hj; omega
        subst hje
        rw [getElem_append_single_eq]
        refine ⟨fun _ => ?_, fun h => absurd ⟨hs, rfl⟩ h⟩
        rw [hrank_len]
        by_cases hne : pre.length = 0
        · rw [hne]; simp [rankB]
        · obtain ⟨n, hn⟩ : ∃ n, pre.length = n + 1 := ⟨pre.length - 1, by omega⟩
          have hlt : n < pre.length := by omega
          have hz : pre[n] = 0 := by
            have := hsorted pre[n] (List.getElem_mem hlt); omega
          rw [hn]; exact (inv.main n hlt).1 ⟨hs, hz⟩
  · rw [if_neg hskip]
    unfold stepCore
    by_cases hnew : st.prev ≠ some p
    · -- a new position
      rw [if_pos hnew]
      dsimp only
      have hhi_le : hiOf skip pre ≤ p := by
        unfold hiOf
        cases hl : pre.getLast? with
        | none => simp
        | some l =>
          have h1 := (hlast l hl).1
          have h2 : l ≠ p := by
            intro h; apply hnew; rw [inv.prev, hl, h]
          dsimp only
          split <;> omega
      have hbitp : testBit st.ib p = false := by
        rw [testBit_eq]; exact getD_false_of_drop_count _ _ _ inv.ibHi hhi_le
      have hA := set_true_beyond (allBits st.adv) pre.length (by omega) inv.advHi
      have hADV : allBits (setBit st.adv pre.length) = (allBits st.adv).set pre.length true :=
        allBits_setBit _ _ (by rw [inv.lenAdv]; omega)
      obtain ⟨hA1, _, _, hA4, hA5, hA6⟩ := hA
      have hhi' : hiOf skip (pre ++ [p]) = p + 1 := by
        simp only [hiOf, getLast?_append_single]
        rw [if_neg hskip]
      by_cases hcap : p / 64 < st.ib.length
      · -- the bit fits: set it
        have hpc : p < 64 * nW := by rw [← inv.lenIb]; omega
        rw [if_pos ⟨hcap, by simp [hbitp]⟩]
        dsimp only
        have hIB : allBits (setBit st.ib p) = (allBits st.ib).set p true := allBits_setBit _ _ hcap
        obtain ⟨hI1, hI2, hI3, hI4, _, _⟩ := set_true_beyond (allBits st.ib) p (by omega)
          (count_drop_zero_of_le _ hhi_le inv.ibHi)
        have hall : ∀ v ∈ pre, v < 64 * nW := fun v hv => by have := hsorted v hv; omega
        have hcnt := inv.cnt hall
        refine
          { lenIb := by rw [setBit_length]; exact inv.lenIb
            lenAdv := by rw [setBit_length]; exact inv.lenAdv
            prev := (getLast?_append_single pre p).symm
            ibHi := ?_, advHi := ?_, ones := ?_, cnt := ?_, main := ?_ }
        · rw [hhi', hIB]; exact hI4
        · rw [List.length_append, hADV]; exact hA4
        · show st.ibOnes + 1 = _
          rw [hIB, hI1, inv.ones]
        · intro _; rw [hIB, hADV, hI1, hA1, hcnt]
        · intro j hj
          by_cases hjl : j < pre.length
          · rw [getElem_append_single_lt pre p j hjl hj, hADV, hA5 (j + 1) (by omega), hIB]
            refine ⟨(inv.main j hjl).1, fun h1 h2 => ?_⟩
            obtain ⟨a1, a2⟩ := (inv.main j hjl).2 h1 h2
            refine ⟨a1, ?_⟩
            rw [hI2 _ (selectB_lt_count _ _ _ a2)]; exact a2
          · have hje : j = pre.length := by simp at hj; omega
            subst hje
            rw [getElem_append_single_eq, hADV, hA6 (pre.length + 1) (by omega), hIB]
            refine ⟨fun h => absurd h hskip, fun _ _ => ⟨by omega, ?_⟩⟩
            rw [Nat.add_sub_cancel, ← hcnt]; exact hI3
      · -- no IB word for this position (position ≥ 64 · words): the bit is dropped
        have hpc : ¬ p < 64 * nW := by rw [← inv.lenIb]; omega
        rw [if_neg (by intro h; exact hcap h.1)]
        dsimp only
        refine
          { lenIb := inv.lenIb
            lenAdv := by rw [setBit_length]; exact inv.lenAdv
            prev := (getLast?_append_single pre p).symm
            ibHi := ?_, advHi := ?_, ones := inv.ones, cnt := ?_, main := ?_ }
        · rw [hhi']; exact count_drop_zero_of_le _ (by omega) inv.ibHi
        · rw [List.length_append, hADV]; exact hA4
        · intro h; exact absurd (h p (by simp)) hpc
        · intro j hj
          by_cases hjl : j < pre.length
          · rw [getElem_append_single_lt pre p j hjl hj, hADV, hA5 (j + 1) (by omega)]
            exact inv.main j hjl
          · have hje : j = pre.length := by simp at hj; omega
            subst hje
            rw [getElem_append_single_eq]
            exact ⟨fun h => absurd h hskip, fun _ h => absurd h hpc⟩
    · -- same position as the previous entry
      rw [if_neg hnew]
      have hprev : pre.getLast? = some p := by
        rw [← inv.prev]; exact Decidable.not_not.mp hnew
      have hne := (hlast p hprev).2
      obtain ⟨n, hn⟩ : ∃ n, pre.length = n + 1 :=
        ⟨pre.length - 1, by have := List.length_pos_iff.mpr hne; omega⟩
      have hlt : n < pre.length := by omega
      have hpn : pre[n] = p := by
        have := List.getLast?_eq_getElem? (l := pre)
        rw [hprev, hn, Nat.add_sub_cancel, List.getElem?_eq_getElem hlt] at this
        exact (Option.some.inj this).symm
      have hhi' : hiOf skip (pre ++ [p]) = hiOf skip pre := by
        simp only [hiOf, getLast?_append_single, hprev]
      refine
        { lenIb := inv.lenIb, lenAdv := inv.lenAdv, prev := (getLast?_append_single pre p).symm
          ibHi := ?_, advHi := ?_, ones := inv.ones, cnt := ?_, main := ?_ }
      · rw [hhi']; exact inv.ibHi
      · rw [List.length_append]; exact count_drop_zero_of_le _ (by simp) inv.advHi
      · intro h; exact inv.cnt (fun v hv => h v (List.mem_append_left _ hv))
      · intro j hj
        by_cases hjl : j < pre.length
        · rw [getElem_append_single_lt pre p j hjl hj]; exact inv.main j hjl
        · have hje : j = pre.length := by simp at hj; omega
          subst hje
          rw [getElem_append_single_eq, hrank_len]
          have := inv.main n hlt
          rw [hpn, ← hn] at this
          exact this

theorem binv_loop (skip : Bool) (nW aW : Nat) (rest pre : List Nat) (st : BState)
    (inv : BInv skip nW aW pre st) (hsorted : (pre ++ rest).Pairwise (· ≤ ·))
    (hroom : (pre ++ rest).length ≤ 64 * aW) :
    BInv skip nW aW (pre ++ rest) (coreLoop skip rest pre.length st) := by
  induction rest generalizing pre st with
  | nil => simpa [coreLoop] using inv
  | cons p ps ih =>
    have hsp : ∀ v ∈ pre, v ≤ p := by
      intro v hv
      rw [List.pairwise_append] at hsorted
      exact hsorted.2.2 v hv p (by simp)
    have hr : pre.length < 64 * aW := by simp at hroom; omega
    have hstep := binv_step skip nW aW pre st p inv hsp hr
    have e : pre ++ p :: ps = (pre ++ [p]) ++ ps := by simp
    have hlen : (pre ++ [p]).length = pre.length + 1 := by simp
    rw [e] at hsorted hroom ⊢
    have := ih (pre ++ [p]) _ hstep hsorted hroom
    rw [hlen] at this
    unfold coreLoop
    by_cases hs : skip = true ∧ p = 0
    · rw [if_pos hs]; rw [if_pos hs] at this; exact this
    · rw [if_neg hs]; rw [if_neg hs] at this; exact this

theorem popcount_zero : popcount (0 : Word) = 0 := by decide

theorem allBits_replicate_zero_count (n : Nat) : (allBits (List.replicate n (0 : Word))).count true = 0 := by
  rw [count_allBits]
  induction n with
  | zero => rfl
  | succ n ih => rw [List.replicate_succ, List.map_cons, List.sum_cons, ih, popcount_zero]

theorem binv_init (skip : Bool) (nW aW : Nat) :
    BInv skip nW aW [] { ib := List.replicate nW 0, adv := List.replicate aW 0, prev := none, ibOnes := 0 } where
  lenIb := by simp
  lenAdv := by simp
  prev := rfl
  ibHi := by
    have := allBits_replicate_zero_count nW
    simpa [hiOf] using this
  advHi := by
    have := allBits_replicate_zero_count aW
    simpa using this
  ones := (allBits_replicate_zero_count nW).symm
  cnt := by intro _; rw [allBits_replicate_zero_count, allBits_replicate_zero_count]
  main := by intro j hj; simp at hj

theorem le_divCeil_mul (n : Nat) : n ≤ 64 * divCeil n 64 := by unfold divCeil; omega

/-- The state after the whole (unified) loop over a sorted list. -/
theorem binv_final (skip : Bool) (nW : Nat) (ps : List Nat) (hsorted : ps.Pairwise (· ≤ ·)) :
    BInv skip nW (divCeil ps.length 64) ps
      (coreLoop skip ps 0
        { ib := List.replicate nW 0, adv := List.replicate (divCeil ps.length 64) 0, prev := none, ibOnes := 0 }) := by
  have := binv_loop skip nW (divCeil ps.length 64) ps [] _ (binv_init skip nW _) (by simpa using hsorted)
    (by simpa using le_divCeil_mul ps.length)
  simpa using this

/-- Reading of a table whose bitmaps satisfy the build invariant. -/
theorem tableFn_of_binv (F : Flavor) (skip : Bool) (nW aW : Nat) (ps : List Nat) (st : BState)
    (inv : BInv skip nW aW ps st) (T : Table) (hib : T.ibWords = st.ib) (hadv : T.advanceWords = st.adv)
    (hn : T.numOpens = ps.length) (i : Nat) (hi : i < ps.length) :
    ((skip = true ∧ ps[i] = 0) → tableFn F T i = none) ∧
    (¬ (skip = true ∧ ps[i] = 0) → ps[i] < 64 * nW → tableFn F T i = some (F.conv ps[i])) := by
  unfold tableFn
  rw [if_pos (by omega), hib, hadv]
  dsimp only
  obtain ⟨m1, m2⟩ := inv.main i hi
  refine ⟨fun h => ?_, fun h1 h2 => ?_⟩
  · rw [m1 h]; rfl
  · obtain ⟨a1, a2⟩ := m2 h1 h2
    rw [if_neg (by omega), a2]; rfl

/-! ### `build_select_samples` -/

/-- Sample `j` is the position of the set bit of rank `j · rate`. -/
def SampOk (rate : Nat) (IB : List Bool) (s : List Nat) : Prop :=
  ∀ j, j < s.length → selectB true IB (j * rate) = some (s.getD j 0)

section Samples
variable {pc : Word → Nat} {siw : Word → Nat → Nat} {rate : Nat}

theorem popcount_le_64 (w : Word) : popcount w ≤ 64 := by
  unfold popcount
  have := List.count_le_length (a := true) (l := wordBits w)
  rw [wordBits_length] at this; exact this

theorem sampOk_snoc (IB : List Bool) (s : List Nat) (x : Nat) (h : SampOk rate IB s)
    (hx : selectB true IB (s.length * rate) = some x) : SampOk rate IB (s ++ [x]) := by
  intro j hj
  by_cases hjl : j < s.length
  · rw [List.getD_eq_getElem?_getD, List.getElem?_append_left hjl, ← List.getD_eq_getElem?_getD]
    exact h j hjl
  · have : j = s.length := by simp at hj; omega
    subst this
    rw [List.getD_eq_getElem?_getD, List.getElem?_append_right (by omega)]
    simpa using hx

theorem sampWhile_spec (hsiw : ∀ w k, siw w k = selectInWordSpec w k) (hrate : 0 < rate)
    (a c : List Word) (w : Word) (numSamples : Nat) (fuel : Nat) (s : List Nat) (t : Nat)
    (hs : SampOk rate (allBits (a ++ w :: c)) s) (ht : t = s.length * rate)
    (hseen : (allBits a).count true ≤ t)
    (hfuel : (allBits a).count true + popcount w < t + fuel) :
    let r := sampWhile siw rate numSamples a.length w ((allBits a).count true) (popcount w) fuel s t
    SampOk rate (allBits (a ++ w :: c)) r.1 ∧ r.2.1 = r.1.length * rate ∧
      (r.2.2 = false → (allBits a).count true + popcount w ≤ r.2.1) := by
  induction fuel generalizing s t with
  | zero =>
    simp only [sampWhile]
    exact ⟨hs, ht, fun _ => by omega⟩
  | succ fuel ih =>
    simp only [sampWhile]
    by_cases hlt : t < (allBits a).count true + popcount w
    · rw [if_pos hlt]
      have hx : selectB true (allBits (a ++ w :: c)) (s.length * rate)
          = some (a.length * 64 + siw w (t - (allBits a).count true)) := by
        have := select_at_word_aux a c w (t - (allBits a).count true) (by omega)
        rw [show (allBits a).count true + (t - (allBits a).count true) = t by omega] at this
        rw [← ht, this, hsiw]; congr 1; omega
      have hs' := sampOk_snoc _ s _ hs hx
      have hlen : (s ++ [a.length * 64 + siw w (t - (allBits a).count true)]).length = s.length + 1 := by simp
      by_cases hbrk : (s ++ [a.length * 64 + siw w (t - (allBits a).count true)]).length ≥ numSamples
      · rw [if_pos hbrk]
        refine ⟨hs', ?_, fun h => by simp at h⟩
        show t + rate = _
        rw [hlen, ht, Nat.add_mul]; omega
      · rw [if_neg hbrk]
        exact ih _ (t + rate) hs' (by rw [hlen, ht, Nat.add_mul]; omega) (by omega) (by omega)
    · rw [if_neg hlt]
      exact ⟨hs, ht, fun _ => Nat.le_of_not_lt hlt⟩

theorem sampFor_spec (hpc : ∀ w, pc w = popcount w) (hsiw : ∀ w k, siw w k = selectInWordSpec w k)
    (hrate : 0 < rate) (numSamples : Nat) (rest a : List Word) (s : List Nat) (t : Nat)
    (hs : SampOk rate (allBits (a ++ rest)) s) (ht : t = s.length * rate)
    (hseen : (allBits a).count true ≤ t) :
    SampOk rate (allBits (a ++ rest))
      (sampFor pc siw rate numSamples rest a.length s ((allBits a).count true) t) := by
  induction rest generalizing a s t with
  | nil => exact hs
  | cons w rest ih =>
    have e : a ++ w :: rest = (a ++ [w]) ++ rest := by simp
    have hcount : (allBits (a ++ [w])).count true = (allBits a).count true + popcount w := by
      rw [allBits_append, List.count_append, count_allBits, count_allBits]; simp
    have hlen : (a ++ [w]).length = a.length + 1 := by simp
    simp only [sampFor]
    by_cases hw : w = 0
    · rw [if_pos hw]
      subst hw
      have := ih (a ++ [0]) s t (by rw [← e]; exact hs) ht (by rw [hcount, popcount_zero]; omega)
      rw [hcount, popcount_zero, Nat.add_zero, hlen, ← e] at this
      exact this
    · rw [if_neg hw, hpc]
      have hwl := popcount_le_64 w
      have hsp := sampWhile_spec (rate := rate) hsiw hrate a rest w numSamples 65 s t hs ht hseen (by omega)
      generalize sampWhile siw rate numSamples a.length w ((allBits a).count true) (popcount w) 65 s t = r at hsp
      obtain ⟨s', t', brk⟩ := r
      obtain ⟨h1, h2, h3⟩ := hsp
      dsimp only at h1 h2 h3 ⊢
      cases brk with
      | true => simpa using h1
      | false =>
        simp only [Bool.false_eq_true, if_false]
        have := ih (a ++ [w]) s' t' (by rw [← e]; exact h1) h2 (by rw [hcount]; exact h3 rfl)
        rw [hcount, hlen, ← e] at this
        exact this

theorem buildSelectSamples_ok (hpc : ∀ w, pc w = popcount w) (hsiw : ∀ w k, siw w k = selectInWordSpec w k)
    (hrate : 0 < rate) (ws : List Word) (total : Nat) :
    SampOk rate (allBits ws) (buildSelectSamples pc siw rate ws total) := by
  unfold buildSelectSamples
  by_cases h0 : total = 0
  · rw [if_pos h0]; intro j hj; simp at hj
  · rw [if_neg h0]
    have := sampFor_spec (pc := pc) (siw := siw) (rate := rate) hpc hsiw hrate ((total + rate - 1) / rate)
      ws [] [] 0 (by intro j hj; simp at hj) (by simp) (by simp [allBits])
    simpa [allBits] using this

end Samples
/-! ### `AdvancePositions::build_unchecked` -/

section Open
variable {pc : Word → Nat} {siw : Word → Nat → Nat} {rate : Nat}

theorem wf_of_binv (hpc : ∀ w, pc w = popcount w) (hsiw : ∀ w k, siw w k = selectInWordSpec w k)
    (hrate : 0 < rate) (skip : Bool) (nW aW : Nat) (ps : List Nat) (st : BState)
    (inv : BInv skip nW aW ps st) (hsmall : ps.length < usizeMax) (len : Nat) (irank : List Nat) :
    WF pc rate
      { ibWords := st.ib, ibLen := len, ibRank := irank,
        ibSelectSamples := buildSelectSamples pc siw rate st.ib st.ibOnes, ibOnes := st.ibOnes,
        advanceWords := st.adv, numOpens := ps.length, advanceRank := buildCumulativeRank pc st.adv } where
  arank := rfl
  ones := inv.ones
  samples := buildSelectSamples_ok hpc hsiw hrate st.ib st.ibOnes
  small := hsmall

theorem wf_buildOpen (hpc : ∀ w, pc w = popcount w) (hsiw : ∀ w k, siw w k = selectInWordSpec w k)
    (hrate : 0 < rate) (ps : List Nat) (len : Nat) (hsorted : ps.Pairwise (· ≤ ·))
    (hsmall : ps.length < usizeMax) : WF pc rate (buildOpen pc siw rate ps len) := by
  unfold buildOpen
  by_cases he : ps.isEmpty = true
  · rw [if_pos he]
    exact { arank := rfl, ones := by simp [allBits], samples := by intro s hs; simp at hs,
            small := by show 0 < usizeMax; decide }
  · rw [if_neg he]
    dsimp only
    rw [openLoop_eq]
    exact wf_of_binv hpc hsiw hrate false _ _ ps _ (binv_final false _ ps hsorted) hsmall len _

/-- The open-position table denotes the recorded sequence wherever the IB bitmap has a word for the
position (`p < 64 · ⌈text_len / 64⌉`). -/
theorem tableFn_buildOpen (F : Flavor) (ps : List Nat) (len : Nat) (hsorted : ps.Pairwise (· ≤ ·)) (i : Nat) :
    (∀ (hi : i < ps.length), ps[i] < 64 * divCeil len 64 →
      tableFn F (buildOpen pc siw rate ps len) i = some (F.conv ps[i])) ∧
    (ps.length ≤ i → tableFn F (buildOpen pc siw rate ps len) i = none) := by
  unfold buildOpen
  by_cases he : ps.isEmpty = true
  · rw [if_pos he]
    have : ps = [] := List.isEmpty_iff.mp he
    subst this
    exact ⟨fun hi => by simp at hi, fun _ => by simp [tableFn]⟩
  · rw [if_neg he]
    dsimp only
    rw [openLoop_eq]
    have inv := binv_final false (divCeil len 64) ps hsorted
    refine ⟨fun hi hcap => ?_, fun hi => ?_⟩
    · exact (tableFn_of_binv F false _ _ ps _ inv _ rfl rfl rfl i hi).2 (by simp) hcap
    · unfold tableFn
      rw [if_neg (by show ¬ i < ps.length; omega)]

end Open
/-! ### `OpenPositions` -/

theorem pairwise_of_isMonotonic (ps : List Nat) (h : isMonotonic ps = true) : ps.Pairwise (· ≤ ·) := by
  induction ps with
  | nil => exact List.Pairwise.nil
  | cons a l ih =>
    cases l with
    | nil => simp
    | cons b rest =>
      simp only [isMonotonic, Bool.and_eq_true, decide_eq_true_eq] at h
      have hp := ih h.2
      have hp' := List.pairwise_cons.mp hp
      rw [List.pairwise_cons]
      refine ⟨?_, hp⟩
      intro x hx
      rcases List.mem_cons.mp hx with rfl | hx
      · exact h.1
      · exact Nat.le_trans h.1 (hp'.1 x hx)

section OpenP
variable {pc : Word → Nat} {siw : Word → Nat → Nat} {rate : Nat}

theorem open_compact_run (hpc : ∀ w, pc w = popcount w) (hsiw : ∀ w k, siw w k = selectInWordSpec w k)
    (F : Flavor) (hF : FlavorOk pc F) {T : Table} (wf : WF pc rate T) (hist : List Nat) (i : Nat) :
    (get pc siw rate F T (runFrom pc siw rate F T Cursor.init hist).2 i).1 = .val (tableFn F T i) :=
  (get_spec hpc hsiw hF wf (runFrom_spec hpc hsiw hF wf _ (seqInv_init F T) hist).2 i).1

theorem open_runFrom_compact (t : Table) (c : Cursor) (hist : List Nat) :
    OpenPositions.runFrom pc siw rate (.compact t) c hist = YamlPos.runFrom pc siw rate (openFlavor pc) t c hist := by
  induction hist generalizing c with
  | nil => rfl
  | cons i is ih => simp only [OpenPositions.runFrom, YamlPos.runFrom, OpenPositions.get, ih]

theorem end_runFrom_compact (t : Table) (c : Cursor) (hist : List Nat) :
    EndPositions.runFrom pc siw rate (.compact t) c hist = YamlPos.runFrom pc siw rate (endFlavor pc) t c hist := by
  induction hist generalizing c with
  | nil => rfl
  | cons i is ih => simp only [EndPositions.runFrom, YamlPos.runFrom, EndPositions.get, ih]

/-- `OpenPositions` (either variant) after any history: the recorded position, provided the IB
bitmap has a word for it. -/
theorem open_get_after (hpc : ∀ w, pc w = popcount w) (hsiw : ∀ w k, siw w k = selectInWordSpec w k)
    (hrate : 0 < rate) (ps : List Nat) (len : Nat)
    (hcap : ∀ p ∈ ps, p < 64 * divCeil len 64) (hu32 : ∀ p ∈ ps, p < 2 ^ 32) (hsmall : ps.length < usizeMax)
    (hist : List Nat) (i : Nat) :
    ((OpenPositions.build pc siw rate ps len).get pc siw rate
      ((OpenPositions.build pc siw rate ps len).runFrom pc siw rate Cursor.init hist).2 i).1 = .val ps[i]? := by
  unfold OpenPositions.build
  by_cases hm : isMonotonic ps = true
  · rw [if_pos hm]
    have hsorted := pairwise_of_isMonotonic ps hm
    have wf := wf_buildOpen (pc := pc) (siw := siw) hpc hsiw hrate ps len hsorted hsmall
    rw [open_runFrom_compact]
    show (get pc siw rate (openFlavor pc) _ _ i).1 = _
    rw [open_compact_run hpc hsiw _ (openFlavor_ok pc) wf]
    obtain ⟨h1, h2⟩ := tableFn_buildOpen (pc := pc) (siw := siw) (rate := rate) (openFlavor pc) ps len hsorted i
    by_cases hi : i < ps.length
    · rw [h1 hi (hcap _ (List.getElem_mem hi)), List.getElem?_eq_getElem hi]
      show Ans.val (some (ps[i] % 2 ^ 32)) = _
      rw [Nat.mod_eq_of_lt (hu32 _ (List.getElem_mem hi))]
    · rw [h2 (by omega), List.getElem?_eq_none (by omega)]
  · rw [if_neg hm]
    rfl

end OpenP
/-! ### `CompactEndPositions::try_build` -/

/-- The zero-filled ("effective") sequence: a zero inherits the previous non-zero value
(`prev_nonzero`, initially `pn`). -/
def fillFrom : Nat → List Nat → List Nat
  | _, [] => []
  | pn, p :: ps => if p > 0 then p :: fillFrom p ps else pn :: fillFrom pn ps

/-- `try_build` does not hit its early `return None`: the non-zero entries are non-decreasing. -/
def endMono : Nat → List Nat → Bool
  | _, [] => true
  | pn, p :: ps =>
    if p > 0 then (if pn > 0 ∧ p < pn then false else endMono p ps) else endMono pn ps

theorem endLoop_eq (ends : List Nat) (i : Nat) (st : BState) (pn : Nat) :
    endLoop ends i st pn =
      if endMono pn ends = true then some (coreLoop true (fillFrom pn ends) i st) else none := by
  induction ends generalizing i st pn with
  | nil => simp [endLoop, endMono, fillFrom, coreLoop]
  | cons p ps ih =>
    simp only [endLoop, endMono, fillFrom]
    by_cases hp : p > 0
    · simp only [hp, if_true]
      by_cases hbad : pn > 0 ∧ p < pn
      · simp [hbad]
      · simp only [hbad, if_false]
        rw [ih]
        have hne : p ≠ 0 := by omega
        simp [coreLoop, hne]
    · simp only [hp, if_false]
      by_cases h0 : pn = 0
      · simp only [h0, if_true]
        rw [ih]
        simp [coreLoop]
      · simp only [h0, if_false]
        rw [ih]
        simp [coreLoop, h0]

theorem fillFrom_length (pn : Nat) (ends : List Nat) : (fillFrom pn ends).length = ends.length := by
  induction ends generalizing pn with
  | nil => rfl
  | cons p ps ih => simp only [fillFrom]; split <;> simp [ih]

theorem fillFrom_sorted (pn : Nat) (ends : List Nat) (h : endMono pn ends = true) :
    (fillFrom pn ends).Pairwise (· ≤ ·) ∧ ∀ v ∈ fillFrom pn ends, pn ≤ v := by
  induction ends generalizing pn with
  | nil => simp [fillFrom]
  | cons p ps ih =>
    simp only [endMono] at h
    simp only [fillFrom]
    by_cases hp : p > 0
    · simp only [hp, if_true] at h ⊢
      by_cases hbad : pn > 0 ∧ p < pn
      · simp [hbad] at h
      · simp only [hbad, if_false] at h
        obtain ⟨a, b⟩ := ih p h
        refine ⟨List.pairwise_cons.mpr ⟨b, a⟩, ?_⟩
        intro v hv
        rcases List.mem_cons.mp hv with rfl | hv
        · omega
        · have := b v hv; omega
    · simp only [hp, if_false] at h ⊢
      obtain ⟨a, b⟩ := ih pn h
      refine ⟨List.pairwise_cons.mpr ⟨b, a⟩, ?_⟩
      intro v hv
      rcases List.mem_cons.mp hv with rfl | hv
      · exact Nat.le_refl _
      · exact b v hv

/-- What the zero-filled sequence holds at index `i`: the entry itself if non-zero, otherwise the
initial value or the last earlier non-zero entry. -/
theorem fillFrom_getElem (pn : Nat) (ends : List Nat) (i : Nat) (hi : i < ends.length)
    (hi' : i < (fillFrom pn ends).length) :
    (ends[i] ≠ 0 → (fillFrom pn ends)[i] = ends[i]) ∧
    (ends[i] = 0 → ((fillFrom pn ends)[i] = pn ∧ ∀ j', j' ≤ i → ends[j']? = some 0) ∨
      ∃ j, ∃ (hj : j < i), ends[j] ≠ 0 ∧ (fillFrom pn ends)[i] = ends[j] ∧
        ∀ j', j < j' → j' ≤ i → ends[j']? = some 0) := by
  induction ends generalizing pn i with
  | nil => simp at hi
  | cons p ps ih =>
    cases i with
    | zero =>
      by_cases hp : p > 0
      · have e : fillFrom pn (p :: ps) = p :: fillFrom p ps := by simp [fillFrom, hp]
        refine ⟨fun _ => ?_, fun h => ?_⟩
        · simp [e]
        · simp at h; omega
      · have hp0 : p = 0 := by omega
        have e : fillFrom pn (p :: ps) = pn :: fillFrom pn ps := by simp [fillFrom, hp]
        refine ⟨fun h => ?_, fun _ => Or.inl ⟨?_, ?_⟩⟩
        · simp at h; omega
        · simp [e]
        · intro j' hj'
          have : j' = 0 := by omega
          subst this; simp [hp0]
    | succ i =>
      have hi2 : i < ps.length := by simpa using hi
      by_cases hp : p > 0
      · have e : fillFrom pn (p :: ps) = p :: fillFrom p ps := by simp [fillFrom, hp]
        have hi3 : i < (fillFrom p ps).length := by rw [fillFrom_length]; exact hi2
        obtain ⟨a, b⟩ := ih p i hi2 hi3
        simp only [e, List.getElem_cons_succ]
        refine ⟨a, fun h => ?_⟩
        rcases b h with ⟨b1, b2⟩ | ⟨j, hj, b1, b2, b3⟩
        · refine Or.inr ⟨0, by omega, by simp; omega, by simpa using b1, ?_⟩
          intro j' h1 h2
          obtain ⟨n, rfl⟩ : ∃ n, j' = n + 1 := ⟨j' - 1, by omega⟩
          simpa using b2 n (by omega)
        · refine Or.inr ⟨j + 1, by omega, by simpa using b1, by simpa using b2, ?_⟩
          intro j' h1 h2
          obtain ⟨n, rfl⟩ : ∃ n, j' = n + 1 := ⟨j' - 1, by omega⟩
          simpa using b3 n (by omega) (by omega)
      · have hp0 : p = 0 := by omega
        have e : fillFrom pn (p :: ps) = pn :: fillFrom pn ps := by simp [fillFrom, hp]
        have hi3 : i < (fillFrom pn ps).length := by rw [fillFrom_length]; exact hi2
        obtain ⟨a, b⟩ := ih pn i hi2 hi3
        simp only [e, List.getElem_cons_succ]
        refine ⟨a, fun h => ?_⟩
        rcases b h with ⟨b1, b2⟩ | ⟨j, hj, b1, b2, b3⟩
        · refine Or.inl ⟨b1, ?_⟩
          intro j' h2
          cases j' with
          | zero => simp [hp0]
          | succ n => simpa using b2 n (by omega)
        · refine Or.inr ⟨j + 1, by omega, by simpa using b1, by simpa using b2, ?_⟩
          intro j' h1 h2
          obtain ⟨n, rfl⟩ : ∃ n, j' = n + 1 := ⟨j' - 1, by omega⟩
          simpa using b3 n (by omega) (by omega)

theorem fillFrom_mem (pn : Nat) (ends : List Nat) : ∀ v ∈ fillFrom pn ends, v = pn ∨ v ∈ ends := by
  induction ends generalizing pn with
  | nil => simp [fillFrom]
  | cons p ps ih =>
    intro v hv
    simp only [fillFrom] at hv
    by_cases hp : p > 0
    · simp only [hp, if_true] at hv
      rcases List.mem_cons.mp hv with rfl | hv
      · simp
      · rcases ih p v hv with h | h
        · simp [h]
        · exact Or.inr (List.mem_cons_of_mem _ h)
    · simp only [hp, if_false] at hv
      rcases List.mem_cons.mp hv with rfl | hv
      · simp
      · rcases ih pn v hv with h | h
        · exact Or.inl h
        · exact Or.inr (List.mem_cons_of_mem _ h)

/-- What an end table answers, in terms of the zero-filled sequence. -/
def endFn (ends : List Nat) (i : Nat) : Option Nat :=
  match (fillFrom 0 ends)[i]? with
  | none => none
  | some 0 => none
  | some v => some v

section EndP
variable {pc : Word → Nat} {siw : Word → Nat → Nat} {rate : Nat}

theorem end_table_spec (hpc : ∀ w, pc w = popcount w) (hsiw : ∀ w k, siw w k = selectInWordSpec w k)
    (hrate : 0 < rate) (ends : List Nat) (len : Nat) (hmono : endMono 0 ends = true)
    (hle : ∀ e ∈ ends, e ≤ len) (hsmall : ends.length < usizeMax) :
    ∃ T, tryBuildEnd pc siw rate ends len = some T ∧ WF pc rate T ∧
      ∀ i, tableFn (endFlavor pc) T i = endFn ends i := by
  have hsorted := (fillFrom_sorted 0 ends hmono).1
  have hlenG := fillFrom_length 0 ends
  have inv := binv_final true (divCeil (len + 1) 64) (fillFrom 0 ends) hsorted
  rw [hlenG] at inv
  have hcap : ∀ v ∈ fillFrom 0 ends, v < 64 * divCeil (len + 1) 64 := by
    intro v hv
    have : v ≤ len := by
      rcases fillFrom_mem 0 ends v hv with h | h
      · omega
      · exact hle v h
    unfold divCeil; omega
  unfold tryBuildEnd
  dsimp only
  rw [endLoop_eq, if_pos hmono]
  dsimp only
  generalize hst : coreLoop true (fillFrom 0 ends) 0
    { ib := List.replicate (divCeil (len + 1) 64) 0, adv := List.replicate (divCeil ends.length 64) 0,
      prev := none, ibOnes := 0 } = st at inv
  by_cases h0 : st.ibOnes = 0
  · rw [if_pos h0]
    refine ⟨_, rfl, ?_, ?_⟩
    · exact { arank := rfl, ones := by simp [emptyEnd, allBits], samples := by intro s hs; simp [emptyEnd] at hs,
              small := by show 0 < usizeMax; decide }
    · intro i
      have hnone : tableFn (endFlavor pc) (emptyEnd len) i = none := by simp [tableFn, emptyEnd]
      rw [hnone]
      unfold endFn
      cases hg : (fillFrom 0 ends)[i]? with
      | none => rfl
      | some v =>
        cases v with
        | zero => rfl
        | succ v =>
          exfalso
          have hi : i < (fillFrom 0 ends).length := by
            by_cases h : i < (fillFrom 0 ends).length
            · exact h
            · rw [List.getElem?_eq_none (by omega)] at hg; simp at hg
          rw [List.getElem?_eq_getElem hi] at hg
          have hv : (fillFrom 0 ends)[i] = v + 1 := Option.some.inj hg
          obtain ⟨_, m2⟩ := inv.main i hi
          obtain ⟨_, a2⟩ := m2 (by rw [hv]; simp) (hcap _ (List.getElem_mem hi))
          have := selectB_lt_count _ _ _ a2
          rw [← inv.ones] at this
          omega
  · rw [if_neg h0]
    refine ⟨_, rfl, ?_, ?_⟩
    · have := wf_of_binv (pc := pc) (siw := siw) hpc hsiw hrate true _ _ (fillFrom 0 ends) st inv
        (by rw [hlenG]; exact hsmall) len []
      rw [hlenG] at this
      exact this
    · intro i
      unfold endFn
      by_cases hi : i < (fillFrom 0 ends).length
      · rw [List.getElem?_eq_getElem hi]
        obtain ⟨t1, t2⟩ := tableFn_of_binv (endFlavor pc) true _ _ (fillFrom 0 ends) st inv
          { ibWords := st.ib, ibLen := len, ibRank := [],
            ibSelectSamples := buildSelectSamples pc siw rate st.ib st.ibOnes, ibOnes := st.ibOnes,
            advanceWords := st.adv, numOpens := ends.length, advanceRank := buildCumulativeRank pc st.adv }
          rfl rfl hlenG.symm i hi
        cases hv : (fillFrom 0 ends)[i] with
        | zero => exact t1 ⟨rfl, hv⟩
        | succ v =>
          have := t2 (by rw [hv]; simp) (hcap _ (List.getElem_mem hi))
          rw [this, hv]; rfl
      · rw [List.getElem?_eq_none (by omega)]
        unfold tableFn
        rw [if_neg (by show ¬ i < ends.length; omega)]

/-- `EndPositions` (either variant) after any history. -/
theorem end_get_after (hpc : ∀ w, pc w = popcount w) (hsiw : ∀ w k, siw w k = selectInWordSpec w k)
    (hrate : 0 < rate) (ends : List Nat) (len : Nat) (hle : ∀ e ∈ ends, e ≤ len)
    (hsmall : ends.length < usizeMax) (hist : List Nat) (i : Nat) :
    ((EndPositions.build pc siw rate ends len).get pc siw rate
      ((EndPositions.build pc siw rate ends len).runFrom pc siw rate Cursor.init hist).2 i).1
      = .val (if endMono 0 ends = true then endFn ends i else ends[i]?.filter (· > 0)) := by
  unfold EndPositions.build
  by_cases he : ends.isEmpty = true
  · rw [if_pos he]
    have : ends = [] := List.isEmpty_iff.mp he
    subst this
    have wf : WF pc rate (emptyEnd len) :=
      { arank := rfl, ones := by simp [emptyEnd, allBits], samples := by intro s hs; simp [emptyEnd] at hs,
        small := by show 0 < usizeMax; decide }
    rw [end_runFrom_compact]
    show (get pc siw rate (endFlavor pc) _ _ i).1 = _
    rw [open_compact_run hpc hsiw _ (endFlavor_ok pc) wf]
    simp [tableFn, emptyEnd, endMono, endFn, fillFrom]
  · rw [if_neg he]
    by_cases hmono : endMono 0 ends = true
    · obtain ⟨T, hT, wf, hfn⟩ := end_table_spec (pc := pc) (siw := siw) hpc hsiw hrate ends len hmono hle hsmall
      rw [hT, if_pos hmono]
      dsimp only
      rw [end_runFrom_compact]
      show (get pc siw rate (endFlavor pc) _ _ i).1 = _
      rw [open_compact_run hpc hsiw _ (endFlavor_ok pc) wf, hfn]
    · have hnone : tryBuildEnd pc siw rate ends len = none := by
        unfold tryBuildEnd
        dsimp only
        rw [endLoop_eq, if_neg hmono]
      rw [hnone, if_neg hmono]
      rfl

end EndP
end SV.YamlPos
